From Aelys Require Import Base.Tactics Extracted.ValueConsts Model.Value Proofs.ValueProofs Model.TypedArray.
Local Open Scope N_scope.

Lemma set_nth_length {A} (l l' : list A) i x : set_nth l i x = Some l' -> length l' = length l.
Proof.
  revert i l'; induction l as [|h t IH]; intros [|j] l' H; cbn in H; try discriminate.
  - injection H as <-. reflexivity.
  - destruct (set_nth t j x) eqn:E; cbn in H; [|discriminate]. injection H as <-. cbn. f_equal. eauto.
Qed.

Lemma set_nth_same {A} (l l' : list A) i x : set_nth l i x = Some l' -> nth_error l' i = Some x.
Proof.
  revert i l'; induction l as [|h t IH]; intros [|j] l' H; cbn in H; try discriminate.
  - injection H as <-. reflexivity.
  - destruct (set_nth t j x) eqn:E; cbn in H; [|discriminate]. injection H as <-. cbn. eauto.
Qed.

Lemma set_nth_other {A} (l l' : list A) i j x : set_nth l i x = Some l' -> i <> j -> nth_error l' j = nth_error l j.
Proof.
  revert i j l'; induction l as [|h t IH]; intros [|i] j l' H Hne; cbn in H; try discriminate.
  - injection H as <-. destruct j; [contradiction|reflexivity].
  - destruct (set_nth t i x) as [t'|] eqn:E; cbn in H; [|discriminate]. injection H as <-.
    destruct j; [reflexivity|]. cbn. apply (IH i j t' E). congruence.
Qed.

Lemma set_nth_in_range {A} (l : list A) i x : (i < length l)%nat -> exists l', set_nth l i x = Some l'.
Proof.
  revert i; induction l as [|h t IH]; intros [|j] H; cbn in *; try lia.
  - eexists; reflexivity.
  - destruct (IH j ltac:(lia)) as (l' & ->). eexists; reflexivity.
Qed.

Lemma bool_is_bool (b : bool) : is_bool (v_bool b) = true.
Proof. destruct b; vm_compute; reflexivity. Qed.

Lemma float_is_float (b : N) : b < W64 -> is_float (v_float b) = true.
Proof. intro H. destruct (float_roundtrip_lemma b H) as (_ & _ & F & _). exact F. Qed.

(* a typed storage only ever returns values of its element kind *)
Lemma aget_kind (d : adata) (i : nat) (w : N) :
  wf d -> aget d i = Some w -> word_fits (kind_of_data d) w = true.
Proof.
  intros W H. destruct d as [l|l|l|l]; cbn [aget aset apush apop kind_of_data word_fits wf option_map alen anew] in *.
  - destruct (nth_error l i); cbn [aget aset apush apop kind_of_data word_fits wf option_map alen anew] in H; [|discriminate]. injection H as <-. apply int_is_int.
  - destruct (nth_error l i) eqn:E; cbn [aget aset apush apop kind_of_data word_fits wf option_map alen anew] in H; [|discriminate]. injection H as <-.
    apply float_is_float. rewrite Forall_forall in W. apply W. eapply nth_error_In; eauto.
  - destruct (nth_error l i); cbn [aget aset apush apop kind_of_data word_fits wf option_map alen anew] in H; [|discriminate]. injection H as <-. apply bool_is_bool.
  - reflexivity.
Qed.

(* ... and refuses to store a value of another kind (set and push report failure, the storage is unchanged) *)
Lemma aset_rejects_other_kind (d : adata) (i : nat) (w : N) :
  word_fits (kind_of_data d) w = false -> aset d i w = None /\ apush d w = None.
Proof.
  intro H. destruct d as [l|l|l|l]; cbn [aget aset apush apop kind_of_data word_fits wf option_map alen anew] in *; try discriminate.
  - unfold as_int. rewrite H. split; reflexivity.
  - unfold as_float. rewrite H. split; reflexivity.
  - unfold as_bool. rewrite H. split; reflexivity.
Qed.

(* a successful store keeps kind and length, is read back as the stored value (in canonical
   form: Value::int of the int, Value::float of the float), and leaves the other elements alone *)
Definition canon (k : akind) (w : N) : N :=
  match k with
  | KI => match as_int w with Some z => v_int z | None => w end
  | KF => v_float w
  | KB => match as_bool w with Some b => v_bool b | None => w end
  | KO => w
  end.

Lemma aset_spec (d d' : adata) (i : nat) (w : N) :
  aset d i w = Some d' ->
  kind_of_data d' = kind_of_data d /\ alen d' = alen d /\
  word_fits (kind_of_data d) w = true /\
  aget d' i = Some (canon (kind_of_data d) w) /\
  forall j, j <> i -> aget d' j = aget d j.
Proof.
  intro H. destruct d as [l|l|l|l]; cbn [aget aset apush apop kind_of_data word_fits wf option_map alen canon anew] in H.
  - unfold as_int in *. destruct (is_int w) eqn:I; [|discriminate].
    destruct (set_nth l i _) eqn:E; cbn [aget aset apush apop kind_of_data word_fits wf option_map alen canon anew] in H; [|discriminate]. injection H as <-. cbn [aget aset apush apop kind_of_data word_fits wf option_map alen canon anew].
    unfold as_int. rewrite I, (set_nth_length _ _ _ _ E), (set_nth_same _ _ _ _ E). repeat split; try reflexivity; try exact I.
    intros j Hj. rewrite (set_nth_other _ _ _ j _ E); congruence.
  - unfold as_float in *. destruct (is_float w) eqn:I; [|discriminate].
    destruct (set_nth l i _) eqn:E; cbn [aget aset apush apop kind_of_data word_fits wf option_map alen canon anew] in H; [|discriminate]. injection H as <-. cbn [aget aset apush apop kind_of_data word_fits wf option_map alen canon anew].
    rewrite (set_nth_length _ _ _ _ E), (set_nth_same _ _ _ _ E). repeat split; try reflexivity; try exact I.
    intros j Hj. rewrite (set_nth_other _ _ _ j _ E); congruence.
  - unfold as_bool in *. destruct (is_bool w) eqn:I; [|discriminate].
    destruct (set_nth l i _) eqn:E; cbn [aget aset apush apop kind_of_data word_fits wf option_map alen canon anew] in H; [|discriminate]. injection H as <-. cbn [aget aset apush apop kind_of_data word_fits wf option_map alen canon anew].
    unfold as_bool. rewrite I, (set_nth_length _ _ _ _ E), (set_nth_same _ _ _ _ E). repeat split; try reflexivity; try exact I.
    intros j Hj. rewrite (set_nth_other _ _ _ j _ E); congruence.
  - destruct (set_nth l i _) eqn:E; cbn [aget aset apush apop kind_of_data word_fits wf option_map alen canon anew] in H; [|discriminate]. injection H as <-. cbn [aget aset apush apop kind_of_data word_fits wf option_map alen canon anew].
    rewrite (set_nth_length _ _ _ _ E), (set_nth_same _ _ _ _ E). repeat split; try reflexivity; try exact I.
    intros j Hj. rewrite (set_nth_other _ _ _ j _ E); congruence.
Qed.

(* a store of a fitting value at a valid index succeeds *)
Lemma aset_total (d : adata) (i : nat) (w : N) :
  (i < alen d)%nat -> word_fits (kind_of_data d) w = true -> exists d', aset d i w = Some d'.
Proof.
  intros Hi Hk. destruct d as [l|l|l|l]; cbn [aget aset apush apop kind_of_data word_fits wf option_map alen canon anew] in *.
  - unfold as_int. rewrite Hk. destruct (set_nth_in_range l i (sext48 (N.land w PAYLOAD_MASK)) Hi) as (l' & ->). eexists; reflexivity.
  - unfold as_float. rewrite Hk. destruct (set_nth_in_range l i w Hi) as (l' & ->). eexists; reflexivity.
  - unfold as_bool. rewrite Hk. destruct (set_nth_in_range l i (negb (N.land w 1 =? 0)) Hi) as (l' & ->). eexists; reflexivity.
  - destruct (set_nth_in_range l i w Hi) as (l' & ->). eexists; reflexivity.
Qed.

Lemma set_nth_Forall {A} (P : A -> Prop) (l l' : list A) i x :
  Forall P l -> P x -> set_nth l i x = Some l' -> Forall P l'.
Proof.
  revert i l'; induction l as [|h t IH]; intros [|j] l' F Px H; cbn in H; try discriminate.
  - injection H as <-. inversion F; subst. constructor; assumption.
  - destruct (set_nth t j x) eqn:E; cbn in H; [|discriminate]. injection H as <-.
    inversion F; subst. constructor; [assumption|]. eapply IH; eauto.
Qed.

(* well-formedness is preserved by stores and pushes of 64-bit words *)
Lemma aset_wf (d d' : adata) i w : wf d -> w < W64 -> aset d i w = Some d' -> wf d'.
Proof.
  intros W Hw H. destruct d as [l|l|l|l]; cbn [aget aset apush apop kind_of_data word_fits wf option_map alen canon anew] in H.
  - destruct (as_int w); [|discriminate]. destruct (set_nth l i z); cbn [aget aset apush apop kind_of_data word_fits wf option_map alen canon anew] in H; [|discriminate]. injection H as <-. exact I.
  - unfold as_float in H. destruct (is_float w); [|discriminate].
    destruct (set_nth l i w) eqn:E; cbn [aget aset apush apop kind_of_data word_fits wf option_map alen canon anew] in H; [|discriminate]. injection H as <-. cbn [aget aset apush apop kind_of_data word_fits wf option_map alen canon anew] in *.
    eapply set_nth_Forall; eauto.
  - destruct (as_bool w); [|discriminate]. destruct (set_nth l i b); cbn [aget aset apush apop kind_of_data word_fits wf option_map alen canon anew] in H; [|discriminate]. injection H as <-. exact I.
  - destruct (set_nth l i w); cbn [aget aset apush apop kind_of_data word_fits wf option_map alen canon anew] in H; [|discriminate]. injection H as <-. exact I.
Qed.

Lemma apush_wf (d d' : adata) w : wf d -> w < W64 -> apush d w = Some d' -> wf d'.
Proof.
  intros W Hw H. destruct d as [l|l|l|l]; cbn [aget aset apush apop kind_of_data word_fits wf option_map alen canon anew] in H.
  - destruct (as_int w); [|discriminate]. injection H as <-. exact I.
  - unfold as_float in H. destruct (is_float w); [|discriminate]. injection H as <-. cbn [aget aset apush apop kind_of_data word_fits wf option_map alen canon anew] in *.
    apply Forall_app. split; [assumption|constructor; [assumption|constructor]].
  - destruct (as_bool w); [|discriminate]. injection H as <-. exact I.
  - injection H as <-. exact I.
Qed.

Lemma anew_wf k n : wf (anew k n).
Proof. destruct k; cbn [anew wf]; try exact I. induction n; cbn [repeat]; constructor; [vm_compute; reflexivity|assumption]. Qed.

(* push then pop returns the pushed value (canonical form) and the old storage *)
Lemma apush_pop (d d' : adata) (w : N) :
  apush d w = Some d' -> apop d' = Some (canon (kind_of_data d) w, d).
Proof.
  intro H. destruct d as [l|l|l|l]; cbn [aget aset apush apop kind_of_data word_fits wf option_map alen canon anew] in H.
  - unfold as_int in *. destruct (is_int w) eqn:I; [|discriminate]. injection H as <-.
    cbn [aget aset apush apop kind_of_data word_fits wf option_map alen canon anew]. unfold as_int. rewrite I, rev_app_distr. cbn [rev app]. rewrite rev_involutive. reflexivity.
  - unfold as_float in *. destruct (is_float w) eqn:I; [|discriminate]. injection H as <-.
    cbn [aget aset apush apop kind_of_data word_fits wf option_map alen canon anew]. rewrite rev_app_distr. cbn [rev app]. rewrite rev_involutive. reflexivity.
  - unfold as_bool in *. destruct (is_bool w) eqn:I; [|discriminate]. injection H as <-.
    cbn [aget aset apush apop kind_of_data word_fits wf option_map alen canon anew]. unfold as_bool. rewrite I, rev_app_distr. cbn [rev app]. rewrite rev_involutive. reflexivity.
  - injection H as <-. cbn [aget aset apush apop kind_of_data word_fits wf option_map alen canon anew]. rewrite rev_app_distr. cbn [rev app]. rewrite rev_involutive. reflexivity.
Qed.

Lemma typed_array_nonvacuous :
  aset (anew KI 2) 0 (v_int 7) = Some (DInts [7%Z; 0%Z]) /\
  aset (anew KI 2) 0 0x4004000000000000 = None /\
  aget (DFloats [0x4004000000000000]) 0 = Some 0x4004000000000000 /\
  apush (DBools []) (v_int 1) = None /\
  wf (anew KF 3).
Proof.
  split; [vm_compute; reflexivity|]. split; [vm_compute; reflexivity|]. split; [vm_compute; reflexivity|].
  split; [vm_compute; reflexivity|]. apply anew_wf.
Qed.

(* ================================================================== opcode level: the index operand *)
Lemma idx_nonint (iw : N) : as_int iw = None -> idx_of iw = (-1)%Z.
Proof. unfold idx_of. intros ->. reflexivity. Qed.

(* a non-int index word (float -- integral or not --, bool, null, pointer ...) never selects an
   element: every load and store arm raises the index error, whatever the container; the lenient
   Get arms answer null *)
Lemma nonint_index_is_index_error (c : cwant) (o : hobj) (iw v : N) :
  as_int iw = None ->
  op_load c o iw = AErr AEIndex /\ op_store c o iw v = AErr AEIndex /\ op_get c o iw = AOk (Some v_null) o.
Proof.
  intro H. unfold op_load, op_store, op_get. rewrite (idx_nonint iw H). repeat split; reflexivity.
Qed.

(* negative ints as well *)
Lemma negative_index_is_index_error (c : cwant) (o : hobj) (iw v : N) (z : Z) :
  as_int iw = Some z -> (z < 0)%Z ->
  op_load c o iw = AErr AEIndex /\ op_store c o iw v = AErr AEIndex.
Proof.
  intros H Hz. unfold op_load, op_store, idx_of. rewrite H.
  destruct (Z.ltb_spec z 0); [|lia]. split; reflexivity.
Qed.

Lemma dget_some (d : adata) (i : Z) (w : N) :
  (0 <= i)%Z -> dget d i = Some w -> (i < Z.of_nat (alen d))%Z /\ aget d (Z.to_nat i) = Some w.
Proof.
  intros Hi H. unfold dget in H. destruct (Z.ltb_spec i (Z.of_nat (alen d))); [|discriminate]. split; assumption.
Qed.

(* a load that produces a value read it at an int index inside the container, left the
   container unchanged, and (typed storage) the value has the element kind *)
Lemma load_value_spec (c : cwant) (o o' : hobj) (iw w : N) :
  op_load c o iw = AOk (Some w) o' ->
  o' = o /\ exists z d, as_int iw = Some z /\ (0 <= z < Z.of_nat (alen d))%Z /\
                        (o = HArray d \/ o = HVec d) /\ aget d (Z.to_nat z) = Some w.
Proof.
  unfold op_load, idx_of. destruct (as_int iw) as [z|] eqn:E; [|cbn; discriminate].
  destruct (Z.ltb_spec z 0) as [Hn|Hp]; [discriminate|].
  destruct o as [d|d|n| |]; try discriminate.
  - destruct (want_array c); [|discriminate]. destruct (dget d z) as [w'|] eqn:G; [|discriminate].
    intro H. injection H as <- <-. split; [reflexivity|]. destruct (dget_some d z w' Hp G) as (Hl & Hg).
    exists z, d. repeat split; auto; lia.
  - destruct (want_vec c); [|discriminate]. destruct (dget d z) as [w'|] eqn:G; [|discriminate].
    intro H. injection H as <- <-. split; [reflexivity|]. destruct (dget_some d z w' Hp G) as (Hl & Hg).
    exists z, d. repeat split; auto; lia.
  - destruct c; try discriminate. destruct (z <? Z.of_nat n)%Z; discriminate.
Qed.

(* an int index beyond the length is the index error *)
Lemma load_out_of_range (c : cwant) (d : adata) (iw : N) (z : Z) :
  as_int iw = Some z -> (Z.of_nat (alen d) <= z)%Z ->
  (want_array c = true -> op_load c (HArray d) iw = AErr AEIndex) /\
  (want_vec c = true -> op_load c (HVec d) iw = AErr AEIndex).
Proof.
  intros H Hz. unfold op_load, idx_of, dget. rewrite H.
  destruct (Z.ltb_spec z 0); [lia|]. destruct (Z.ltb_spec z (Z.of_nat (alen d))); [lia|].
  split; intros ->; reflexivity.
Qed.

(* in range: the element *)
Lemma load_in_range (c : cwant) (d : adata) (iw : N) (z : Z) :
  as_int iw = Some z -> (0 <= z < Z.of_nat (alen d))%Z ->
  exists w, aget d (Z.to_nat z) = Some w /\
    (want_array c = true -> op_load c (HArray d) iw = AOk (Some w) (HArray d)) /\
    (want_vec c = true -> op_load c (HVec d) iw = AOk (Some w) (HVec d)).
Proof.
  intros H Hz. unfold op_load, idx_of, dget. rewrite H.
  destruct (Z.ltb_spec z 0); [lia|]. destruct (Z.ltb_spec z (Z.of_nat (alen d))); [|lia].
  assert (Hn : (Z.to_nat z < alen d)%nat) by lia.
  assert (exists w, aget d (Z.to_nat z) = Some w) as (w & Hw).
  { destruct d as [l|l|l|l]; cbn [aget alen] in *;
      (destruct (nth_error l (Z.to_nat z)) eqn:E; [eexists; reflexivity | apply nth_error_None in E; lia]). }
  exists w. rewrite Hw. split; [reflexivity|]. split; intros ->; reflexivity.
Qed.

(* the typed load / store arms are the generic index load / store (VecLoadP 167, VecStoreP 175) on
   every container they accept, for EVERY index word *)
Lemma typed_load_is_generic_load (d : adata) (iw : N) :
  op_load WArray (HArray d) iw = op_load WAny (HArray d) iw /\
  op_load WVec (HVec d) iw = op_load WAny (HVec d) iw.
Proof. split; reflexivity. Qed.

Lemma typed_store_is_generic_store (d : adata) (iw v : N) :
  op_store WArray (HArray d) iw v = op_store WAny (HArray d) iw v /\
  op_store WVec (HVec d) iw v = op_store WAny (HVec d) iw v.
Proof. split; reflexivity. Qed.

(* a successful store wrote a fitting value at an int index in range *)
Lemma store_spec (c : cwant) (o o' : hobj) (iw v : N) (r : option N) :
  op_store c o iw v = AOk r o' ->
  r = None /\ exists z d d', as_int iw = Some z /\ (0 <= z < Z.of_nat (alen d))%Z /\
     aset d (Z.to_nat z) v = Some d' /\ word_fits (kind_of_data d) v = true /\
     ((o = HArray d /\ o' = HArray d') \/ (o = HVec d /\ o' = HVec d')).
Proof.
  unfold op_store, idx_of. destruct (as_int iw) as [z|] eqn:E; [|cbn; discriminate].
  destruct (Z.ltb_spec z 0) as [Hn|Hp]; [discriminate|].
  destruct o as [d|d|n| |]; try discriminate.
  - destruct (want_array c); [|discriminate]. unfold dset.
    destruct (Z.ltb_spec z (Z.of_nat (alen d))); [|discriminate].
    destruct (aset d (Z.to_nat z) v) as [d'|] eqn:S; [|discriminate].
    intro HH. injection HH as <- <-. split; [reflexivity|].
    destruct (aset_spec d d' _ v S) as (_ & _ & Hf & _).
    exists z, d, d'. repeat split; auto; lia.
  - destruct (want_vec c); [|discriminate]. unfold dset.
    destruct (Z.ltb_spec z (Z.of_nat (alen d))); [|discriminate].
    destruct (aset d (Z.to_nat z) v) as [d'|] eqn:S; [|discriminate].
    intro HH. injection HH as <- <-. split; [reflexivity|].
    destruct (aset_spec d d' _ v S) as (_ & _ & Hf & _).
    exists z, d, d'. repeat split; auto; lia.
Qed.

Lemma opcode_level_nonvacuous :
  op_load WArray (HArray (DFloats [0x4025000000000000; 0x4034800000000000])) 0x3FF0000000000000 = AErr AEIndex /\
  op_load WAny (HVec (DObjects [5; 6])) 0x3FF0000000000000 = AErr AEIndex /\
  op_load WArray (HArray (DFloats [0x4025000000000000; 0x4034800000000000])) (v_int 1) = AOk (Some 0x4034800000000000) (HArray (DFloats [0x4025000000000000; 0x4034800000000000])) /\
  op_load WArray (HArray (DInts [1%Z])) (v_int 140737488355327) = AErr AEIndex /\
  op_store WVec (HVec (DInts [1%Z])) (v_bool true) (v_int 2) = AErr AEIndex /\
  array_op 136 (HArray (DFloats [0])) v_null 0 = Some (AErr AEIndex).
Proof. vm_compute. repeat split; reflexivity. Qed.

(* ================================================================== literals and for-each *)
Lemma apush_contents (d d' : adata) (w : N) :
  apush d w = Some d' ->
  kind_of_data d' = kind_of_data d /\ word_fits (kind_of_data d) w = true /\
  contents d' = contents d ++ [canon (kind_of_data d) w].
Proof.
  intro H. destruct d as [l|l|l|l]; cbn [apush] in H.
  - unfold as_int in *. destruct (is_int w) eqn:I; [|discriminate]. injection H as <-.
    cbn [kind_of_data word_fits contents canon]. unfold as_int. rewrite I, map_app. repeat split; try reflexivity; exact I.
  - unfold as_float in *. destruct (is_float w) eqn:I; [|discriminate]. injection H as <-.
    cbn [kind_of_data word_fits contents canon]. rewrite map_app. repeat split; try reflexivity; exact I.
  - unfold as_bool in *. destruct (is_bool w) eqn:I; [|discriminate]. injection H as <-.
    cbn [kind_of_data word_fits contents canon]. unfold as_bool. rewrite I, map_app. repeat split; try reflexivity; exact I.
  - injection H as <-. cbn [kind_of_data word_fits contents canon]. repeat split; reflexivity.
Qed.

Lemma push_strict_spec (ws : list N) (d d' : adata) :
  push_strict d ws = Some d' ->
  kind_of_data d' = kind_of_data d /\
  Forall (fun w => word_fits (kind_of_data d) w = true) ws /\
  contents d' = contents d ++ map (canon (kind_of_data d)) ws.
Proof.
  revert d; induction ws as [|w r IH]; intros d H; cbn [push_strict] in H.
  - injection H as <-. rewrite app_nil_r. repeat split; constructor.
  - destruct (apush d w) as [d1|] eqn:P; [|discriminate].
    destruct (apush_contents d d1 w P) as (K1 & F1 & C1).
    destruct (IH d1 H) as (K2 & F2 & C2). rewrite K1 in *.
    repeat split; [exact K2 | constructor; assumption |].
    rewrite C2, C1, <- app_assoc. reflexivity.
Qed.

(* a literal that is built holds exactly its elements (canonical form), all of the first
   element's kind; an element of another kind makes the literal a type error *)
Lemma lit_spec (w : N) (r : list N) (d : adata) :
  op_lit (w :: r) = Some d ->
  kind_of_data d = first_kind w /\
  Forall (fun x => word_fits (first_kind w) x = true) (w :: r) /\
  contents d = map (canon (first_kind w)) (w :: r).
Proof.
  unfold op_lit. intro H. destruct (push_strict_spec (w :: r) _ d H) as (K & F & C).
  assert (E : kind_of_data (anew (first_kind w) 0) = first_kind w) by (destruct (first_kind w); reflexivity).
  rewrite E in *. repeat split; [exact K | exact F |].
  rewrite C. destruct (first_kind w); reflexivity.
Qed.

Lemma push_strict_mismatch (ws : list N) (d : adata) :
  Exists (fun x => word_fits (kind_of_data d) x = false) ws -> push_strict d ws = None.
Proof.
  revert d; induction ws as [|w r IH]; intros d H; [inversion H|].
  cbn [push_strict]. destruct (apush d w) as [d1|] eqn:P; [|reflexivity].
  destruct (apush_contents d d1 w P) as (K1 & F1 & _).
  inversion H as [? ? Hw|? ? Hr]; subst.
  - rewrite F1 in Hw. discriminate.
  - apply IH. rewrite K1. exact Hr.
Qed.

Lemma lit_mismatch_is_type_error (w : N) (r : list N) :
  Exists (fun x => word_fits (first_kind w) x = false) r -> op_lit (w :: r) = None.
Proof.
  intro H. unfold op_lit. apply push_strict_mismatch.
  assert (E : kind_of_data (anew (first_kind w) 0) = first_kind w) by (destruct (first_kind w); reflexivity).
  rewrite E. apply Exists_cons_tl. exact H.
Qed.

(* for-each: a value that is not a vec, an array or a string is the type error; an element that
   is produced is the element at an index inside the collection *)
Lemma each_non_collection (iw : N) : op_each HOther iw = EErr /\ op_each HNone iw = EErr.
Proof. split; reflexivity. Qed.

Lemma each_elem_spec (o : hobj) (iw w : N) :
  op_each o iw = EElem w ->
  exists d z, (o = HArray d \/ o = HVec d) /\ (0 <= z < Z.of_nat (alen d))%Z /\ aget d (Z.to_nat z) = Some w /\
              z = match as_int iw with Some z => z | None => 0%Z end.
Proof.
  unfold op_each. set (i := match as_int iw with Some z => z | None => 0%Z end).
  destruct o as [d|d|n| |]; try discriminate.
  - destruct (Z.leb_spec 0 i); [|discriminate]. destruct (dget d i) as [x|] eqn:G; [|discriminate].
    intro E. injection E as <-. destruct (dget_some d i x H G). exists d, i. repeat split; auto; lia.
  - destruct (Z.leb_spec 0 i); [|discriminate]. destruct (dget d i) as [x|] eqn:G; [|discriminate].
    intro E. injection E as <-. destruct (dget_some d i x H G). exists d, i. repeat split; auto; lia.
  - destruct ((0 <=? i)%Z && (i <? Z.of_nat n)%Z); discriminate.
Qed.

Lemma lit_each_nonvacuous :
  op_lit [v_int 1; 0x4004000000000000; v_int 3] = None /\
  op_lit [v_int 1; v_int 2] = Some (DInts [1%Z; 2%Z]) /\
  op_lit [v_null; v_int 2] = Some (DObjects [v_null; v_int 2]) /\
  op_each HOther (v_int 0) = EErr /\
  op_each (HArray (DInts [5%Z])) (v_int 0) = EElem (v_int 5) /\
  op_each (HString 2) (v_int 1) = EChar 1 /\ op_each (HVec (DInts [])) (v_int 0) = EEnd.
Proof. vm_compute. repeat split; reflexivity. Qed.
