From Aelys Require Import Base.Tactics Extracted.ValueConsts Model.Value Proofs.ValueProofs Model.TypedArray.
Local Open Scope N_scope.

Lemma set_nth_length {A} (l l' : list A) i x : set_nth l i x = Some l' -> length l' = length l.
Proof.
  revert i l'; induction l as [|h t IH]; intros [|j] l' H; cbn in H; try discriminate.
  - injection H as <-. reflexivity.
  - destruct (set_nth t j x) eqn:E; cbn in H; [|discriminate]. injection H as <-. cbn. f_equal. eauto.
Qed.

Lemma set_nth_same {A} (l l' : list A) i x : set_nth l i x = Some l' -> nth_error l' i = Some x.
Proof.
  revert i l'; induction l as [|h t IH]; intros [|j] l' H; cbn in H; try discriminate.
  - injection H as <-. reflexivity.
  - destruct (set_nth t j x) eqn:E; cbn in H; [|discriminate]. injection H as <-. cbn. eauto.
Qed.

Lemma set_nth_other {A} (l l' : list A) i j x : set_nth l i x = Some l' -> i <> j -> nth_error l' j = nth_error l j.
Proof.
  revert i j l'; induction l as [|h t IH]; intros [|i] j l' H Hne; cbn in H; try discriminate.
  - injection H as <-. destruct j; [contradiction|reflexivity].
  - destruct (set_nth t i x) as [t'|] eqn:E; cbn in H; [|discriminate]. injection H as <-.
    destruct j; [reflexivity|]. cbn. apply (IH i j t' E). congruence.
Qed.

Lemma set_nth_in_range {A} (l : list A) i x : (i < length l)%nat -> exists l', set_nth l i x = Some l'.
Proof.
  revert i; induction l as [|h t IH]; intros [|j] H; cbn in *; try lia.
  - eexists; reflexivity.
  - destruct (IH j ltac:(lia)) as (l' & ->). eexists; reflexivity.
Qed.

Lemma bool_is_bool (b : bool) : is_bool (v_bool b) = true.
Proof. destruct b; vm_compute; reflexivity. Qed.

Lemma float_is_float (b : N) : b < W64 -> is_float (v_float b) = true.
Proof. intro H. destruct (float_roundtrip_lemma b H) as (_ & _ & F & _). exact F. Qed.

(* a typed storage only ever returns values of its element kind *)
Lemma aget_kind (d : adata) (i : nat) (w : N) :
  wf d -> aget d i = Some w -> word_fits (kind_of_data d) w = true.
Proof.
  intros W H. destruct d as [l|l|l|l]; cbn [aget aset apush apop kind_of_data word_fits wf option_map alen anew] in *.
  - destruct (nth_error l i); cbn [aget aset apush apop kind_of_data word_fits wf option_map alen anew] in H; [|discriminate]. injection H as <-. apply int_is_int.
  - destruct (nth_error l i) eqn:E; cbn [aget aset apush apop kind_of_data word_fits wf option_map alen anew] in H; [|discriminate]. injection H as <-.
    apply float_is_float. rewrite Forall_forall in W. apply W. eapply nth_error_In; eauto.
  - destruct (nth_error l i); cbn [aget aset apush apop kind_of_data word_fits wf option_map alen anew] in H; [|discriminate]. injection H as <-. apply bool_is_bool.
  - reflexivity.
Qed.

(* ... and refuses to store a value of another kind (set and push report failure, the storage is unchanged) *)
Lemma aset_rejects_other_kind (d : adata) (i : nat) (w : N) :
  word_fits (kind_of_data d) w = false -> aset d i w = None /\ apush d w = None.
Proof.
  intro H. destruct d as [l|l|l|l]; cbn [aget aset apush apop kind_of_data word_fits wf option_map alen anew] in *; try discriminate.
  - unfold as_int. rewrite H. split; reflexivity.
  - unfold as_float. rewrite H. split; reflexivity.
  - unfold as_bool. rewrite H. split; reflexivity.
Qed.

(* a successful store keeps kind and length, is read back as the stored value (in canonical
   form: Value::int of the int, Value::float of the float), and leaves the other elements alone *)
Definition canon (k : akind) (w : N) : N :=
  match k with
  | KI => match as_int w with Some z => v_int z | None => w end
  | KF => v_float w
  | KB => match as_bool w with Some b => v_bool b | None => w end
  | KO => w
  end.

Lemma aset_spec (d d' : adata) (i : nat) (w : N) :
  aset d i w = Some d' ->
  kind_of_data d' = kind_of_data d /\ alen d' = alen d /\
  word_fits (kind_of_data d) w = true /\
  aget d' i = Some (canon (kind_of_data d) w) /\
  forall j, j <> i -> aget d' j = aget d j.
Proof.
  intro H. destruct d as [l|l|l|l]; cbn [aget aset apush apop kind_of_data word_fits wf option_map alen canon anew] in H.
  - unfold as_int in *. destruct (is_int w) eqn:I; [|discriminate].
    destruct (set_nth l i _) eqn:E; cbn [aget aset apush apop kind_of_data word_fits wf option_map alen canon anew] in H; [|discriminate]. injection H as <-. cbn [aget aset apush apop kind_of_data word_fits wf option_map alen canon anew].
    unfold as_int. rewrite I, (set_nth_length _ _ _ _ E), (set_nth_same _ _ _ _ E). repeat split; try reflexivity; try exact I.
    intros j Hj. rewrite (set_nth_other _ _ _ j _ E); congruence.
  - unfold as_float in *. destruct (is_float w) eqn:I; [|discriminate].
    destruct (set_nth l i _) eqn:E; cbn [aget aset apush apop kind_of_data word_fits wf option_map alen canon anew] in H; [|discriminate]. injection H as <-. cbn [aget aset apush apop kind_of_data word_fits wf option_map alen canon anew].
    rewrite (set_nth_length _ _ _ _ E), (set_nth_same _ _ _ _ E). repeat split; try reflexivity; try exact I.
    intros j Hj. rewrite (set_nth_other _ _ _ j _ E); congruence.
  - unfold as_bool in *. destruct (is_bool w) eqn:I; [|discriminate].
    destruct (set_nth l i _) eqn:E; cbn [aget aset apush apop kind_of_data word_fits wf option_map alen canon anew] in H; [|discriminate]. injection H as <-. cbn [aget aset apush apop kind_of_data word_fits wf option_map alen canon anew].
    unfold as_bool. rewrite I, (set_nth_length _ _ _ _ E), (set_nth_same _ _ _ _ E). repeat split; try reflexivity; try exact I.
    intros j Hj. rewrite (set_nth_other _ _ _ j _ E); congruence.
  - destruct (set_nth l i _) eqn:E; cbn [aget aset apush apop kind_of_data word_fits wf option_map alen canon anew] in H; [|discriminate]. injection H as <-. cbn [aget aset apush apop kind_of_data word_fits wf option_map alen canon anew].
    rewrite (set_nth_length _ _ _ _ E), (set_nth_same _ _ _ _ E). repeat split; try reflexivity; try exact I.
    intros j Hj. rewrite (set_nth_other _ _ _ j _ E); congruence.
Qed.

(* a store of a fitting value at a valid index succeeds *)
Lemma aset_total (d : adata) (i : nat) (w : N) :
  (i < alen d)%nat -> word_fits (kind_of_data d) w = true -> exists d', aset d i w = Some d'.
Proof.
  intros Hi Hk. destruct d as [l|l|l|l]; cbn [aget aset apush apop kind_of_data word_fits wf option_map alen canon anew] in *.
  - unfold as_int. rewrite Hk. destruct (set_nth_in_range l i (sext48 (N.land w PAYLOAD_MASK)) Hi) as (l' & ->). eexists; reflexivity.
  - unfold as_float. rewrite Hk. destruct (set_nth_in_range l i w Hi) as (l' & ->). eexists; reflexivity.
  - unfold as_bool. rewrite Hk. destruct (set_nth_in_range l i (negb (N.land w 1 =? 0)) Hi) as (l' & ->). eexists; reflexivity.
  - destruct (set_nth_in_range l i w Hi) as (l' & ->). eexists; reflexivity.
Qed.

Lemma set_nth_Forall {A} (P : A -> Prop) (l l' : list A) i x :
  Forall P l -> P x -> set_nth l i x = Some l' -> Forall P l'.
Proof.
  revert i l'; induction l as [|h t IH]; intros [|j] l' F Px H; cbn in H; try discriminate.
  - injection H as <-. inversion F; subst. constructor; assumption.
  - destruct (set_nth t j x) eqn:E; cbn in H; [|discriminate]. injection H as <-.
    inversion F; subst. constructor; [assumption|]. eapply IH; eauto.
Qed.

(* well-formedness is preserved by stores and pushes of 64-bit words *)
Lemma aset_wf (d d' : adata) i w : wf d -> w < W64 -> aset d i w = Some d' -> wf d'.
Proof.
  intros W Hw H. destruct d as [l|l|l|l]; cbn [aget aset apush apop kind_of_data word_fits wf option_map alen canon anew] in H.
  - destruct (as_int w); [|discriminate]. destruct (set_nth l i z); cbn [aget aset apush apop kind_of_data word_fits wf option_map alen canon anew] in H; [|discriminate]. injection H as <-. exact I.
  - unfold as_float in H. destruct (is_float w); [|discriminate].
    destruct (set_nth l i w) eqn:E; cbn [aget aset apush apop kind_of_data word_fits wf option_map alen canon anew] in H; [|discriminate]. injection H as <-. cbn [aget aset apush apop kind_of_data word_fits wf option_map alen canon anew] in *.
    eapply set_nth_Forall; eauto.
  - destruct (as_bool w); [|discriminate]. destruct (set_nth l i b); cbn [aget aset apush apop kind_of_data word_fits wf option_map alen canon anew] in H; [|discriminate]. injection H as <-. exact I.
  - destruct (set_nth l i w); cbn [aget aset apush apop kind_of_data word_fits wf option_map alen canon anew] in H; [|discriminate]. injection H as <-. exact I.
Qed.

Lemma apush_wf (d d' : adata) w : wf d -> w < W64 -> apush d w = Some d' -> wf d'.
Proof.
  intros W Hw H. destruct d as [l|l|l|l]; cbn [aget aset apush apop kind_of_data word_fits wf option_map alen canon anew] in H.
  - destruct (as_int w); [|discriminate]. injection H as <-. exact I.
  - unfold as_float in H. destruct (is_float w); [|discriminate]. injection H as <-. cbn [aget aset apush apop kind_of_data word_fits wf option_map alen canon anew] in *.
    apply Forall_app. split; [assumption|constructor; [assumption|constructor]].
  - destruct (as_bool w); [|discriminate]. injection H as <-. exact I.
  - injection H as <-. exact I.
Qed.

Lemma anew_wf k n : wf (anew k n).
Proof. destruct k; cbn [anew wf]; try exact I. induction n; cbn [repeat]; constructor; [vm_compute; reflexivity|assumption]. Qed.

(* push then pop returns the pushed value (canonical form) and the old storage *)
Lemma apush_pop (d d' : adata) (w : N) :
  apush d w = Some d' -> apop d' = Some (canon (kind_of_data d) w, d).
Proof.
  intro H. destruct d as [l|l|l|l]; cbn [aget aset apush apop kind_of_data word_fits wf option_map alen canon anew] in H.
  - unfold as_int in *. destruct (is_int w) eqn:I; [|discriminate]. injection H as <-.
    cbn [aget aset apush apop kind_of_data word_fits wf option_map alen canon anew]. unfold as_int. rewrite I, rev_app_distr. cbn [rev app]. rewrite rev_involutive. reflexivity.
  - unfold as_float in *. destruct (is_float w) eqn:I; [|discriminate]. injection H as <-.
    cbn [aget aset apush apop kind_of_data word_fits wf option_map alen canon anew]. rewrite rev_app_distr. cbn [rev app]. rewrite rev_involutive. reflexivity.
  - unfold as_bool in *. destruct (is_bool w) eqn:I; [|discriminate]. injection H as <-.
    cbn [aget aset apush apop kind_of_data word_fits wf option_map alen canon anew]. unfold as_bool. rewrite I, rev_app_distr. cbn [rev app]. rewrite rev_involutive. reflexivity.
  - injection H as <-. cbn [aget aset apush apop kind_of_data word_fits wf option_map alen canon anew]. rewrite rev_app_distr. cbn [rev app]. rewrite rev_involutive. reflexivity.
Qed.

Lemma typed_array_nonvacuous :
  aset (anew KI 2) 0 (v_int 7) = Some (DInts [7%Z; 0%Z]) /\
  aset (anew KI 2) 0 0x4004000000000000 = None /\
  aget (DFloats [0x4004000000000000]) 0 = Some 0x4004000000000000 /\
  apush (DBools []) (v_int 1) = None /\
  wf (anew KF 3).
Proof.
  split; [vm_compute; reflexivity|]. split; [vm_compute; reflexivity|]. split; [vm_compute; reflexivity|].
  split; [vm_compute; reflexivity|]. apply anew_wf.
Qed.
