(* C17 -- lemmas about the CFG-construction model (Model/AirLower.v). *)
From Aelys Require Import Base.Tactics Model.AirLower.
Local Open Scope N_scope.

(* ---- witnesses (each reproduced on the real code, see corpus/C17) *)
Definition stmtA : sstmt := SExpr (EOp true (ECons EAtom ENil)).          (* print("A") *)
Definition one_fn (params : list N) (body : sstmts) : sstmts := SCons (SFn [] params body) SNil.

(* fn f(c) { if c { A } } *)
Definition w_open_merge : sstmts :=
  one_fn [0] (SCons (SIf (EIdent 0) (SBlock (SCons stmtA SNil))) SNil).
(* fn f(c, d) { if c { if d { return 1 } }  A  return 2 } *)
Definition w_overwritten : sstmts :=
  one_fn [0; 1]
    (SCons (SIf (EIdent 0) (SBlock (SCons (SIf (EIdent 1) (SBlock (SCons (SRetE EAtom) SNil))) SNil)))
    (SCons stmtA (SCons (SRetE EAtom) SNil))).
(* fn f(c, d) { if c { if d { A } ; B } ; return } : the block renamed to the then-id is the
   LAST block of the branch, the real then-entry keeps a fresh id and becomes unreachable *)
Definition w_then_entry : sstmts :=
  one_fn [0; 1]
    (SCons (SIf (EIdent 0) (SBlock (SCons (SIf (EIdent 1) (SBlock (SCons stmtA SNil))) (SCons stmtA SNil))))
    (SCons SRet SNil)).
(* fn f(c) { while c { } return } : an empty body renames the loop header itself *)
Definition w_empty_body : sstmts :=
  one_fn [0] (SCons (SWhile (EIdent 0) (SBlock SNil)) (SCons SRet SNil)).

Lemma open_merge_witness :
  lower w_open_merge = [mkfn [(3, TBr 0 2); (0, TGoto 2)] (Some 2) []]
  /\ wf_prog (lower w_open_merge) = false.
Proof. vm_compute. split; reflexivity. Qed.

Lemma overwritten_witness :
  lower w_overwritten = [mkfn [(3, TBr 0 2); (7, TBr 0 6); (0, TRet); (2, TRet)] None [6]]
  /\ wf_prog (lower w_overwritten) = false.
Proof. vm_compute. split; reflexivity. Qed.

(* reachability from the first block, to state the then-entry defect *)
Fixpoint reach_from (fuel : nat) (bl : list block) (todo seen : list N) : list N :=
  match fuel with
  | O => seen
  | S k => match todo with
           | [] => seen
           | x :: r =>
               if memN x seen then reach_from k bl r seen
               else match find (fun b => fst b =? x) bl with
                    | Some b => reach_from k bl (targets (snd b) ++ r) (x :: seen)
                    | None => reach_from k bl r (x :: seen)
                    end
           end
  end.
Definition reachable_ids (bl : list block) : list N :=
  match bl with
  | [] => []
  | (e, _) :: _ => reach_from (4 * S (length bl) * S (length bl)) bl [e] []
  end.

(* the CFG is structurally fine, but the block holding the inner `if` (id 7) is unreachable:
   the outer branch enters the block that follows the inner if *)
Lemma then_entry_witness :
  lower w_then_entry =
    [mkfn [(3, TBr 0 2); (7, TBr 4 0); (4, TGoto 0); (0, TGoto 2); (2, TRet)] None []]
  /\ wf_prog (lower w_then_entry) = true
  /\ memN 7 (reachable_ids [(3, TBr 0 2); (7, TBr 4 0); (4, TGoto 0); (0, TGoto 2); (2, TRet)]) = false.
Proof. vm_compute. repeat split; reflexivity. Qed.

Lemma empty_body_witness :
  lower w_empty_body = [mkfn [(3, TGoto 1); (1, TBr 1 2); (2, TRet)] None []].
Proof. vm_compute. reflexivity. Qed.
