(* C17 -- lemmas about the CFG-construction model (Model/AirLower.v). *)
From Aelys Require Import Base.Tactics Extracted.LowerFlags Model.AirLower.
Local Open Scope N_scope.

(* ---- witnesses (each reproduced on the real code, see corpus/C17) *)
Definition stmtA : sstmt := SExpr (EOp KVoid (ECons EAtom ENil)).          (* print("A") *)
Definition one_fn (params : list N) (body : sstmts) : sstmts := SCons (SFn [] params body) SNil.

(* fn f(c) { if c { A } } *)
Definition w_open_merge : sstmts :=
  one_fn [0] (SCons (SIf (EIdent 0) (SBlock (SCons stmtA SNil))) SNil).
(* fn f(c, d) { if c { if d { return 1 } }  A  return 2 } *)
Definition w_overwritten : sstmts :=
  one_fn [0; 1]
    (SCons (SIf (EIdent 0) (SBlock (SCons (SIf (EIdent 1) (SBlock (SCons (SRetE EAtom) SNil))) SNil)))
    (SCons stmtA (SCons (SRetE EAtom) SNil))).
(* fn f(c, d) { if c { if d { A } ; B } ; return } : the block renamed to the then-id is the
   LAST block of the branch, the real then-entry keeps a fresh id and becomes unreachable *)
Definition w_then_entry : sstmts :=
  one_fn [0; 1]
    (SCons (SIf (EIdent 0) (SBlock (SCons (SIf (EIdent 1) (SBlock (SCons stmtA SNil))) (SCons stmtA SNil))))
    (SCons SRet SNil)).
(* fn f(c) { while c { } return } : an empty body renames the loop header itself *)
Definition w_empty_body : sstmts :=
  one_fn [0] (SCons (SWhile (EIdent 0) (SBlock SNil)) (SCons SRet SNil)).

(* both used to end in a dangling branch target (known findings KF-C17-1 / KF-C17-2, repaired by
   eb19006 and 5d902b4): the merge blocks 2 and 6 now exist *)
Lemma open_merge_witness :
  lower w_open_merge = [mkfn [(3, TBr 0 2); (0, TGoto 2); (2, TRet)]]
  /\ wf_prog (lower w_open_merge) = true.
Proof. vm_compute. split; reflexivity. Qed.

Lemma overwritten_witness :
  lower w_overwritten = [mkfn [(3, TBr 0 2); (7, TBr 0 6); (0, TRet); (6, TGoto 2); (2, TRet)]]
  /\ wf_prog (lower w_overwritten) = true.
Proof. vm_compute. split; reflexivity. Qed.

(* reachability from the first block, to state the then-entry defect *)
Fixpoint reach_from (fuel : nat) (bl : list block) (todo seen : list N) : list N :=
  match fuel with
  | O => seen
  | S k => match todo with
           | [] => seen
           | x :: r =>
               if memN x seen then reach_from k bl r seen
               else match find (fun b => fst b =? x) bl with
                    | Some b => reach_from k bl (targets (snd b) ++ r) (x :: seen)
                    | None => reach_from k bl r (x :: seen)
                    end
           end
  end.
Definition reachable_ids (bl : list block) : list N :=
  match bl with
  | [] => []
  | (e, _) :: _ => reach_from (4 * S (length bl) * S (length bl)) bl [e] []
  end.

(* the CFG is structurally fine, but the block holding the inner `if` (id 7) is unreachable:
   the outer branch enters the block that follows the inner if *)
Lemma then_entry_witness :
  lower w_then_entry =
    [mkfn [(3, TBr 0 2); (7, TBr 4 0); (4, TGoto 0); (0, TGoto 2); (2, TRet)]]
  /\ wf_prog (lower w_then_entry) = true
  /\ memN 7 (reachable_ids [(3, TBr 0 2); (7, TBr 4 0); (4, TGoto 0); (0, TGoto 2); (2, TRet)]) = false.
Proof. vm_compute. repeat split; reflexivity. Qed.

Lemma empty_body_witness :
  lower w_empty_body = [mkfn [(3, TGoto 1); (1, TBr 1 2); (2, TRet)]].
Proof. vm_compute. reflexivity. Qed.

(* ====================================================================================== *)
(* Unbounded invariant: in every reachable builder state the block ids are pairwise
   distinct, below next_block_id, and different from the pending id; pre-allocated ids stay
   available until their fixup.  Consequence: every lowered function of every program has an
   entry block and pairwise distinct block ids. *)
Scheme sexpr_ind' := Induction for sexpr Sort Prop
  with sexprs_ind' := Induction for sexprs Sort Prop
  with sstmt_ind' := Induction for sstmt Sort Prop
  with sstmts_ind' := Induction for sstmts Sort Prop.
Combined Scheme skel_mutind from sexpr_ind', sexprs_ind', sstmt_ind', sstmts_ind'.

Lemma memN_In x l : memN x l = true <-> In x l.
Proof.
  unfold memN. rewrite existsb_exists. split.
  - intros [y [Hy He]]. apply N.eqb_eq in He. subst. exact Hy.
  - intro H. exists x. split; [exact H|apply N.eqb_refl].
Qed.
Lemma memN_false x l : memN x l = false <-> ~ In x l.
Proof. rewrite <- memN_In. destruct (memN x l); split; congruence. Qed.

Lemma nodupb_NoDup l : nodupb l = true <-> NoDup l.
Proof.
  induction l as [|x r IH]; cbn [nodupb].
  - split; [constructor|reflexivity].
  - rewrite andb_true_iff, negb_true_iff, memN_false, IH. split.
    + intros [A B]. constructor; assumption.
    + intro H. inversion H; subst. split; assumption.
Qed.

Definition ids (s : st) : list N := map fst (blocks s).
Definition avail (s : st) (v : N) : Prop := v < next s /\ ~ In v (ids s) /\ pending s <> Some v.
Definition U (s : st) : Prop :=
  NoDup (ids s) /\ (forall v, In v (ids s) -> v < next s)
  /\ (forall p, pending s = Some p -> p < next s /\ ~ In p (ids s)).
Definition fn_ok (f : fn_out) : Prop := has_entry (f_blocks f) = true /\ unique_ids (f_blocks f) = true.
Definition OutOK (s : st) : Prop := Forall fn_ok (out s).
Definition stable (s s' : st) : Prop := forall v, v < next s -> avail s v -> avail s' v.
Definition Step (s s' : st) : Prop := U s' /\ OutOK s' /\ next s <= next s' /\ stable s s'.

Definition StepX (t : N) (s s' : st) : Prop :=
  U s' /\ OutOK s' /\ next s <= next s' /\ forall v, v < next s -> v <> t -> avail s v -> avail s' v.

Ltac step_split := unfold Step, StepX; split; [|split; [|split]].

Lemma Step_refl s : U s -> OutOK s -> Step s s.
Proof. intros Hu Ho. step_split; try assumption; try lia. intros v _ Hv; exact Hv. Qed.

Lemma Step_trans a b c : Step a b -> Step b c -> Step a c.
Proof.
  intros (Ub & Ob & L1 & S1) (Uc & Oc & L2 & S2). step_split; try assumption; try lia.
  intros v Hv Ha. apply S2; [lia|]. apply S1; assumption.
Qed.

(* ---- primitive operations *)
Lemma alloc_step s : U s -> OutOK s ->
  Step s (snd (alloc s)) /\ fst (alloc s) = next s /\ next (snd (alloc s)) = next s + 1
  /\ avail (snd (alloc s)) (fst (alloc s)).
Proof.
  intros (ND & LT & PD) O. unfold alloc; cbn [fst snd]. split; [|split; [|split]].
  - step_split.
    + split; [exact ND|split].
      * intros v Hv. cbn. specialize (LT v Hv). lia.
      * intros p Hp. cbn in *. destruct (PD p Hp). split; [lia|assumption].
    + exact O.
    + cbn. lia.
    + intros v Hv (A & B & C). split; [cbn; lia|split; assumption].
  - reflexivity.
  - reflexivity.
  - split; [cbn; lia|split].
    + intro H. apply LT in H. lia.
    + cbn. intro H. apply PD in H. lia.
Qed.

Lemma seal_step t s : U s -> OutOK s -> Step s (seal t s).
Proof.
  intros (ND & LT & PD) O. unfold seal. destruct (pending s) as [p|] eqn:Ep.
  - destruct (PD p eq_refl) as [Hp Hn]. step_split.
    + split; [|split].
      * unfold ids; cbn. constructor; assumption.
      * unfold ids; cbn. intros v [<-|Hv]; [assumption|apply LT; assumption].
      * cbn. discriminate.
    + exact O.
    + cbn. lia.
    + intros v Hv (A & B & C). split; [cbn; lia|split].
      * unfold ids; cbn. intros [<-|H]; [apply C; exact Ep|apply B; exact H].
      * cbn. discriminate.
  - step_split.
    + split; [|split].
      * unfold ids; cbn. constructor; [|assumption]. intro H. apply LT in H. lia.
      * unfold ids; cbn. intros v [<-|Hv]; [lia|apply LT in Hv; lia].
      * cbn. discriminate.
    + exact O.
    + cbn. lia.
    + intros v Hv (A & B & C). split; [cbn; lia|split].
      * unfold ids; cbn. intros [<-|H]; [lia|apply B; exact H].
      * cbn. discriminate.
Qed.

Lemma same_step s s' : U s -> OutOK s ->
  blocks s' = blocks s -> next s' = next s -> pending s' = pending s -> out s' = out s -> Step s s'.
Proof.
  intros (ND & LT & PD) O Eb En Ep Eo. step_split.
  - unfold U, ids. rewrite Eb, En, Ep. split; [|split]; assumption.
  - unfold OutOK. rewrite Eo. exact O.
  - lia.
  - intros v Hv (A & B & C). unfold avail, ids. rewrite Eb, En, Ep. split; [|split]; assumption.
Qed.

Lemma emit_step s : U s -> OutOK s -> Step s (emit s).
Proof. intros; apply same_step; auto. Qed.
Lemma add_name_step x s : U s -> OutOK s -> Step s (add_name x s).
Proof. intros; apply same_step; auto. Qed.
Lemma push_step a b s : U s -> OutOK s -> Step s (push_loop a b s).
Proof. intros; apply same_step; auto. Qed.
Lemma pop_step s : U s -> OutOK s -> Step s (pop_loop s).
Proof. intros; apply same_step; auto. Qed.

Lemma scope_block_step n s : U s -> OutOK s -> Step s (scope_block n s).
Proof. intros. unfold scope_block. destruct BLOCK_SCOPES_NAMES; [apply same_step; auto|apply Step_refl; assumption]. Qed.
Lemma scope_loop_step n s : U s -> OutOK s -> Step s (scope_loop n s).
Proof. intros. unfold scope_loop. destruct LOOP_SCOPES_NAMES; [apply same_step; auto|apply Step_refl; assumption]. Qed.

(* fixup / noop consume an available id *)

Lemma fixup_step t s : U s -> OutOK s -> avail s t -> StepX t s (fixup t s).
Proof.
  intros (ND & LT & PD) O (A & B & C). unfold fixup.
  destruct (blocks s) as [|[old tm] r] eqn:Eb.
  - step_split; [split; [|split]; assumption|exact O|lia|intros v _ _ H; exact H].
  - unfold ids in *. rewrite Eb in *. cbn [map fst] in *.
    inversion ND as [|? ? Hold NDr]; subst.
    step_split.
    + split; [|split]; unfold ids; cbn.
      * constructor; [|assumption]. intro H. apply B. right. exact H.
      * intros v [<-|Hv]; [assumption|apply LT; right; assumption].
      * intros p Hp. destruct (PD p Hp) as [P1 P2]. split; [exact P1|].
        intros [<-|H']; [apply C; assumption|]. apply P2. right. assumption.
    + exact O.
    + cbn. lia.
    + intros v _ Hne (A' & B' & C'). split; [exact A'|split].
      * unfold ids; cbn. intros [E|H]; [congruence|]. apply B'. unfold ids. rewrite Eb. right. exact H.
      * exact C'.
Qed.

Lemma fixup_next t s : next (fixup t s) = next s.
Proof. unfold fixup. destruct (blocks s) as [|[a b] r]; reflexivity. Qed.

Lemma noop_raw_step t s : U s -> OutOK s -> avail s t -> StepX t s (noop_raw t s).
Proof.
  intros (ND & LT & PD) O (A & B & C). unfold noop_raw. step_split.
  - split; [|split]; unfold ids; cbn; try assumption.
    intros p Hp. inversion Hp; subst. split; assumption.
  - exact O.
  - cbn. lia.
  - intros v _ Hne (A' & B' & C'). split; [exact A'|split; [exact B'|]]. cbn. congruence.
Qed.

Lemma noop_step t s : U s -> OutOK s -> avail s t -> StepX t s (noop t s).
Proof.
  intros Hu O Av. unfold noop.
  destruct (pending s) as [p|] eqn:Ep; [destruct (p =? t) eqn:Ept|]; try (apply noop_raw_step; assumption).
  destruct (seal_step (TGoto t) s Hu O) as (Hu' & O' & L & St).
  assert (Av' : avail (seal (TGoto t) s) t) by (apply St; [apply Av|exact Av]).
  destruct (noop_raw_step t _ Hu' O' Av') as (Hu2 & O2 & L2 & St2).
  step_split; try assumption; try lia.
  intros v Hv Hne Ha. apply St2; [lia|exact Hne|]. apply St; assumption.
Qed.

(* a consumed id is >= the base of the enclosing construct, so outer ids stay available *)
Lemma Step_X base t a b : Step base a -> StepX t a b -> next base <= t -> Step base b.
Proof.
  intros (Ua & Oa & L & S) (Ub & Ob & E & SX) Ht. step_split; try assumption; try lia.
  intros v Hv Hav. apply SX; [lia|lia|]. apply S; assumption.
Qed.

Lemma seal_unless_step t s : U s -> OutOK s -> Step s (seal_unless_terminated t s).
Proof.
  intros Hu O. unfold seal_unless_terminated. destruct (terminated s).
  - apply Step_refl; assumption.
  - apply seal_step; assumption.
Qed.

Lemma finalize_U s : U s -> OutOK s -> Step s (finalize s).
Proof.
  intros Hu O. unfold finalize. destruct (_ || _).
  - apply seal_step; assumption.
  - apply Step_refl; assumption.
Qed.

Lemma finalize_nonempty s : blocks (finalize s) <> [].
Proof.
  unfold finalize. destruct (_ || _) eqn:E.
  - unfold seal. destruct (pending s); cbn; discriminate.
  - destruct (blocks s) eqn:Eb; [|discriminate].
    destruct (dirty s); cbn in E; discriminate.
Qed.

Lemma finalize_pending s : pending (finalize s) = None.
Proof.
  unfold finalize. destruct (pending s) as [p|] eqn:Ep.
  - rewrite orb_true_r. unfold seal. rewrite Ep. reflexivity.
  - destruct (_ || _); [unfold seal; rewrite Ep; reflexivity|exact Ep].
Qed.

Lemma fn_enter_U c p s : OutOK s -> U (fn_enter c p s) /\ OutOK (fn_enter c p s).
Proof.
  intro O. split; [|exact O]. repeat split; cbn; try constructor; try contradiction; try discriminate.
Qed.

Lemma fn_exit_step saved body_end : U saved -> OutOK saved -> U body_end -> OutOK body_end ->
  Step saved (fn_exit saved body_end).
Proof.
  intros Us Os Ub Ob.
  destruct (finalize_U body_end Ub Ob) as (Uf & Of & _ & _).
  pose proof (finalize_nonempty body_end) as Hne.
  unfold fn_exit. set (f := finalize body_end) in *.
  destruct Us as (ND & LT & PD).
  step_split.
  - split; [|split]; unfold ids; cbn; assumption.
  - unfold OutOK; cbn. apply Forall_app. split; [exact Of|]. constructor; [|constructor].
    split; cbn.
    + destruct (blocks f) as [|b r] eqn:Eb; [congruence|].
      cbn. destruct (rev r ++ [b]) eqn:E; [|reflexivity].
      apply app_eq_nil in E. destruct E; discriminate.
    + unfold unique_ids. apply nodupb_NoDup. rewrite map_map. cbn [fst].
      rewrite map_rev. apply NoDup_rev. apply Uf.
  - cbn. lia.
  - intros v _ H. exact H.
Qed.

(* ---- composition with a list of consumed ids *)
Definition StepL (l : list N) (s s' : st) : Prop :=
  U s' /\ OutOK s' /\ next s <= next s' /\
  forall v, v < next s -> ~ In v l -> avail s v -> avail s' v.

Lemma StepL_Step s s' : Step s s' -> StepL [] s s'.
Proof. intros (A & B & C & D). split; [|split; [|split]]; try assumption. intros v Hv _ H. apply D; assumption. Qed.
Lemma StepL_StepX t s s' : StepX t s s' -> StepL [t] s s'.
Proof.
  intros (A & B & C & D). split; [|split; [|split]]; try assumption; try lia.
  intros v Hv Hn H. apply D; [exact Hv| |assumption]. intro E. apply Hn. left. congruence.
Qed.
Lemma StepL_trans l1 l2 a b c : StepL l1 a b -> StepL l2 b c -> StepL (l1 ++ l2) a c.
Proof.
  intros (Ub & Ob & L1 & S1) (Uc & Oc & L2 & S2). split; [|split; [|split]]; try assumption; try lia.
  intros v Hv Hn Ha. apply S2; [lia| |].
  - intro H. apply Hn. apply in_or_app. right. exact H.
  - apply S1; try assumption. intro H. apply Hn. apply in_or_app. left. exact H.
Qed.
Lemma StepL_close l s s' : StepL l s s' -> (forall v, In v l -> next s <= v) -> Step s s'.
Proof.
  intros (A & B & C & D) H. split; [|split; [|split]]; try assumption.
  intros v Hv Ha. apply D; try assumption. intro Hi. apply H in Hi. lia.
Qed.
Lemma StepL_close' l base mid s' : Step base mid -> StepL l mid s' ->
  (forall v, In v l -> next base <= v) -> Step base s'.
Proof.
  intros (Um & Om & Lm & Sm) (A & B & C & D) H. split; [|split; [|split]]; try assumption; try lia.
  intros v Hv Ha. apply D; [lia| |apply Sm; assumption]. intro Hi. apply H in Hi. lia.
Qed.
Lemma StepL_U l s s' : StepL l s s' -> U s' /\ OutOK s'.
Proof. intros (A & B & _). split; assumption. Qed.
Lemma StepL_avail l s s' v : StepL l s s' -> avail s v -> ~ In v l -> avail s' v.
Proof. intros (A & B & C & D) Ha Hn. apply D; try assumption. apply Ha. Qed.
Lemma StepL_next l s s' : StepL l s s' -> next s <= next s'.
Proof. intros (A & B & C & D). exact C. Qed.

(* sequencing helper: extend a StepL chain by one piece *)
Lemma chain_step l a b c : StepL l a b -> (U b -> OutOK b -> Step b c) -> StepL l a c.
Proof.
  intros H K. destruct (StepL_U _ _ _ H) as [Ub Ob].
  replace l with (l ++ []) by apply app_nil_r.
  eapply StepL_trans; [exact H|]. apply StepL_Step. apply K; assumption.
Qed.
Lemma chain_stepX l t a b c : StepL l a b -> avail a t -> ~ In t l ->
  (U b -> OutOK b -> avail b t -> StepX t b c) -> StepL (l ++ [t]) a c.
Proof.
  intros H Ha Hn K. destruct (StepL_U _ _ _ H) as [Ub Ob].
  eapply StepL_trans; [exact H|]. apply StepL_StepX. apply K; try assumption.
  eapply StepL_avail; eassumption.
Qed.

Lemma alloc3 s : U s -> OutOK s ->
  forall a s1 b s2 c s3, alloc s = (a, s1) -> alloc s1 = (b, s2) -> alloc s2 = (c, s3) ->
  Step s s3 /\ a = next s /\ b = next s + 1 /\ c = next s + 2 /\ next s3 = next s + 3
  /\ avail s3 a /\ avail s3 b /\ avail s3 c.
Proof.
  intros Hu Ho a s1 b s2 c s3 E1 E2 E3.
  destruct (alloc_step s Hu Ho) as (T1 & A1 & N1 & V1). rewrite E1 in *. cbn [fst snd] in *.
  destruct T1 as (U1 & O1 & L1 & S1).
  destruct (alloc_step s1 U1 O1) as (T2 & A2 & N2 & V2). rewrite E2 in *. cbn [fst snd] in *.
  destruct T2 as (U2 & O2 & L2 & S2).
  destruct (alloc_step s2 U2 O2) as (T3 & A3 & N3 & V3). rewrite E3 in *. cbn [fst snd] in *.
  destruct T3 as (U3 & O3 & L3 & S3).
  split; [|split; [|split; [|split; [|split; [|split; [|split]]]]]]; try lia; try assumption.
  - split; [|split; [|split]]; try assumption; try lia.
    intros v Hv Ha. apply S3; [lia|]. apply S2; [lia|]. apply S1; assumption.
  - apply S3; [lia|]. apply S2; [lia|]. exact V1.
  - apply S3; [lia|]. exact V2.
Qed.

Lemma alloc4 s : U s -> OutOK s ->
  forall a s1 b s2 c s3 d s4, alloc s = (a, s1) -> alloc s1 = (b, s2) -> alloc s2 = (c, s3) -> alloc s3 = (d, s4) ->
  Step s s4 /\ a = next s /\ b = next s + 1 /\ c = next s + 2 /\ d = next s + 3 /\ next s4 = next s + 4
  /\ avail s4 a /\ avail s4 b /\ avail s4 c /\ avail s4 d.
Proof.
  intros Hu Ho a s1 b s2 c s3 d s4 E1 E2 E3 E4.
  destruct (alloc3 s Hu Ho _ _ _ _ _ _ E1 E2 E3) as (T & A1 & A2 & A3 & N3 & V1 & V2 & V3).
  destruct T as (U3 & O3 & L3 & S3).
  destruct (alloc_step s3 U3 O3) as (T4 & A4 & N4 & V4). rewrite E4 in *. cbn [fst snd] in *.
  destruct T4 as (U4 & O4 & L4 & S4).
  split; [|split; [|split; [|split; [|split; [|split; [|split; [|split; [|split]]]]]]]]; try lia; try assumption.
  - split; [|split; [|split]]; try assumption; try lia.
    intros v Hv Ha. apply S4; [lia|]. apply S3; assumption.
  - apply S4; [lia|]. exact V1.
  - apply S4; [lia|]. exact V2.
  - apply S4; [lia|]. exact V3.
Qed.

Lemma alloc2 s : U s -> OutOK s ->
  forall a s1 b s2, alloc s = (a, s1) -> alloc s1 = (b, s2) ->
  Step s s2 /\ a = next s /\ b = next s + 1 /\ next s2 = next s + 2 /\ avail s2 a /\ avail s2 b.
Proof.
  intros Hu Ho a s1 b s2 E1 E2.
  destruct (alloc_step s Hu Ho) as (T1 & A1 & N1 & V1). rewrite E1 in *. cbn [fst snd] in *.
  destruct T1 as (U1 & O1 & L1 & S1).
  destruct (alloc_step s1 U1 O1) as (T2 & A2 & N2 & V2). rewrite E2 in *. cbn [fst snd] in *.
  destruct T2 as (U2 & O2 & L2 & S2).
  split; [|split; [|split; [|split; [|split]]]]; try lia; try assumption.
  - split; [|split; [|split]]; try assumption; try lia.
    intros v Hv Ha. apply S2; [lia|]. apply S1; assumption.
  - apply S2; [lia|]. exact V1.
Qed.

Definition Pe (e : sexpr) := forall s, U s -> OutOK s -> Step s (lower_expr e s).
Definition Pes (e : sexprs) := forall s, U s -> OutOK s -> Step s (lower_exprs e s).
Definition Ps (x : sstmt) := forall s, U s -> OutOK s -> Step s (lower_stmt x s).
Definition Pss (x : sstmts) := forall s, U s -> OutOK s -> Step s (lower_stmts x s).

Ltac notin := cbn [In app]; intuition lia.

Lemma case_SIf c t : Pe c -> Ps t -> Ps (SIf c t).
Proof.
  intros IHc IHt s Hu Ho. cbn [lower_stmt].
  pose proof (IHc s Hu Ho) as T1. set (s1 := lower_expr c s) in *.
  destruct T1 as (U1 & O1 & L1 & S1).
  destruct (alloc s1) as [th s2] eqn:E1. destruct (alloc s2) as [el s3] eqn:E2.
  destruct (alloc s3) as [mg s4] eqn:E3.
  destruct (alloc3 s1 U1 O1 _ _ _ _ _ _ E1 E2 E3) as (T & A1 & A2 & A3 & N4 & V1 & V2 & V3).
  apply Step_trans with s1; [split; [|split; [|split]]; assumption|].
  pose proof T as (U4 & O4 & _ & _).
  eapply StepL_close' with (l := [th; mg]) (mid := s4); [exact T| |intros v [<-|[<-|[]]]; lia].
  assert (C1 : StepL [] s4 (lower_stmt t (seal (TBr th mg) s4))).
  { eapply chain_step; [apply StepL_Step; apply seal_step; assumption|]. intros; apply IHt; assumption. }
  assert (C2 : StepL [] s4 (seal_unless_terminated (TGoto mg) (lower_stmt t (seal (TBr th mg) s4)))).
  { eapply chain_step; [exact C1|]. intros; apply seal_unless_step; assumption. }
  assert (C3 : StepL ([] ++ [th]) s4 (fixup th (seal_unless_terminated (TGoto mg) (lower_stmt t (seal (TBr th mg) s4))))).
  { eapply chain_stepX; [exact C2|exact V1|notin|]. intros; apply fixup_step; assumption. }
  change ([th; mg]) with (([] ++ [th]) ++ [mg]).
  eapply chain_stepX; [exact C3|exact V3|notin|]. intros; apply noop_step; assumption.
Qed.

Lemma Step_then a b c : Step a b -> (U b -> OutOK b -> Step b c) -> Step a c.
Proof. intros H K. eapply Step_trans; [exact H|]. destruct H as (X & Y & _). apply K; assumption. Qed.

Tactic Notation "plain" hyp(C) uconstr(lem) :=
  let C' := fresh "C" in pose proof (chain_step _ _ _ _ C lem) as C'.
Ltac start s U O lem := let C' := fresh "C" in
  pose proof (chain_step [] s s _ (StepL_Step _ _ (Step_refl s U O)) lem) as C'.

Lemma case_SIfElse c t e : Pe c -> Ps t -> Ps e -> Ps (SIfElse c t e).
Proof.
  intros IHc IHt IHe s Hu Ho. cbn [lower_stmt].
  pose proof (IHc s Hu Ho) as T1. set (s1 := lower_expr c s) in *.
  pose proof T1 as (U1 & O1 & _ & _).
  destruct (alloc s1) as [th s2] eqn:E1. destruct (alloc s2) as [el s3] eqn:E2.
  destruct (alloc s3) as [mg s4] eqn:E3.
  destruct (alloc3 s1 U1 O1 _ _ _ _ _ _ E1 E2 E3) as (T & A1 & A2 & A3 & N4 & V1 & V2 & V3).
  pose proof T as (U4 & O4 & _ & _).
  eapply Step_trans; [exact T1|].
  eapply StepL_close' with (l := [th; el; mg]) (mid := s4); [exact T| |intros v [<-|[<-|[<-|[]]]]; lia].
  start s4 U4 O4 (seal_step (TBr th el) s4).
  plain C (IHt (seal (TBr th el) s4)).
  plain C0 (seal_unless_step (TGoto mg) (lower_stmt t (seal (TBr th el) s4))).
  pose proof (chain_stepX _ th _ _ _ C1 V1 ltac:(notin) (fixup_step th _)) as C2.
  plain C2 (IHe (fixup th (seal_unless_terminated (TGoto mg) (lower_stmt t (seal (TBr th el) s4))))).
  plain C3 (seal_unless_step (TGoto mg) (lower_stmt e (fixup th (seal_unless_terminated (TGoto mg) (lower_stmt t (seal (TBr th el) s4)))))).
  pose proof (chain_stepX _ el _ _ _ C4 V2 ltac:(notin) (fixup_step el _)) as C5.
  pose proof (chain_stepX _ mg _ _ _ C5 V3 ltac:(notin) (noop_step mg _)) as C6.
  exact C6.
Qed.

Lemma case_SWhile c b : Pe c -> Ps b -> Ps (SWhile c b).
Proof.
  intros IHc IHb s Hu Ho. cbn [lower_stmt].
  destruct (alloc s) as [hd s1] eqn:E1. destruct (alloc s1) as [bd s2] eqn:E2.
  destruct (alloc s2) as [ex s3] eqn:E3.
  destruct (alloc3 s Hu Ho _ _ _ _ _ _ E1 E2 E3) as (T & A1 & A2 & A3 & N4 & V1 & V2 & V3).
  pose proof T as (U3 & O3 & _ & _).
  eapply StepL_close' with (l := [hd; bd; ex]) (mid := s3); [exact T| |intros v [<-|[<-|[<-|[]]]]; lia].
  start s3 U3 O3 (seal_step (TGoto hd) s3).
  plain C (IHc _).
  plain C0 (seal_step (TBr bd ex) _).
  pose proof (chain_stepX _ hd _ _ _ C1 V1 ltac:(notin) (fixup_step hd _)) as C2.
  plain C2 (push_step hd ex _).
  plain C3 (IHb _).
  plain C4 (seal_unless_step (TGoto hd) _).
  pose proof (chain_stepX _ bd _ _ _ C5 V2 ltac:(notin) (fixup_step bd _)) as C6.
  plain C6 (pop_step _).
  pose proof (chain_stepX _ ex _ _ _ C7 V3 ltac:(notin) (noop_step ex _)) as C8.
  exact C8.
Qed.

Lemma case_SFor n lo hi stp b : Pe lo -> Pe hi -> Pe stp -> Ps b -> Ps (SFor n lo hi stp b).
Proof.
  intros IHlo IHhi IHst IHb s Hu Ho. cbn [lower_stmt].
  assert (T0 : Step s (emit (lower_expr hi (emit (lower_expr lo (add_name n s)))))).
  { eapply Step_then; [apply add_name_step; assumption|]. intros.
    eapply Step_then; [apply IHlo; assumption|]. intros.
    eapply Step_then; [apply emit_step; assumption|]. intros.
    eapply Step_then; [apply IHhi; assumption|]. intros. apply emit_step; assumption. }
  set (s2 := emit (lower_expr hi (emit (lower_expr lo (add_name n s))))) in *.
  pose proof T0 as (U2 & O2 & _ & _).
  destruct (alloc s2) as [hd s3] eqn:E1. destruct (alloc s3) as [bd s4] eqn:E2.
  destruct (alloc s4) as [inc s5] eqn:E3. destruct (alloc s5) as [ex s6] eqn:E4.
  destruct (alloc4 s2 U2 O2 _ _ _ _ _ _ _ _ E1 E2 E3 E4) as (T & A1 & A2 & A3 & A4 & N4 & V1 & V2 & V3 & V4).
  pose proof T as (U6 & O6 & _ & _).
  eapply Step_trans; [exact T0|].
  eapply StepL_close' with (l := [hd; bd; inc; ex]) (mid := s6); [exact T| |intros v [<-|[<-|[<-|[<-|[]]]]]; lia].
  start s6 U6 O6 (seal_step (TGoto hd) s6).
  plain C (emit_step _).
  plain C0 (seal_step (TBr bd ex) _).
  pose proof (chain_stepX _ hd _ _ _ C1 V1 ltac:(notin) (fixup_step hd _)) as C2.
  plain C2 (push_step inc ex _).
  plain C3 (IHb _).
  plain C4 (seal_unless_step (TGoto inc) _).
  pose proof (chain_stepX _ bd _ _ _ C5 V2 ltac:(notin) (fixup_step bd _)) as C6.
  plain C6 (pop_step _).
  plain C7 (IHst _).
  plain C8 (emit_step _).
  plain C9 (seal_step (TGoto hd) _).
  pose proof (chain_stepX _ inc _ _ _ C10 V3 ltac:(notin) (fixup_step inc _)) as C11.
  pose proof (chain_stepX _ ex _ _ _ C11 V4 ltac:(notin) (noop_step ex _)) as C12.
  plain C12 (scope_loop_step (length (names s)) _).
  exact C13.
Qed.

Lemma case_SForEach n it b : Pe it -> Ps b -> Ps (SForEach n it b).
Proof.
  intros IHit IHb s Hu Ho. cbn [lower_stmt].
  assert (T0 : Step s (add_name n (emit (lower_expr it s)))).
  { eapply Step_then; [apply IHit; assumption|]. intros.
    eapply Step_then; [apply emit_step; assumption|]. intros. apply add_name_step; assumption. }
  set (s1 := add_name n (emit (lower_expr it s))) in *.
  pose proof T0 as (U1 & O1 & _ & _).
  destruct (alloc s1) as [hd s3] eqn:E1. destruct (alloc s3) as [bd s4] eqn:E2.
  destruct (alloc s4) as [inc s5] eqn:E3. destruct (alloc s5) as [ex s6] eqn:E4.
  destruct (alloc4 s1 U1 O1 _ _ _ _ _ _ _ _ E1 E2 E3 E4) as (T & A1 & A2 & A3 & A4 & N4 & V1 & V2 & V3 & V4).
  pose proof T as (U6 & O6 & _ & _).
  eapply Step_trans; [exact T0|].
  eapply StepL_close' with (l := [hd; bd; inc; ex]) (mid := s6); [exact T| |intros v [<-|[<-|[<-|[<-|[]]]]]; lia].
  start s6 U6 O6 (seal_step (TGoto hd) s6).
  plain C (emit_step _).
  plain C0 (seal_step (TBr bd ex) _).
  pose proof (chain_stepX _ hd _ _ _ C1 V1 ltac:(notin) (fixup_step hd _)) as C2.
  plain C2 (emit_step _).
  plain C3 (push_step inc ex _).
  plain C4 (IHb _).
  plain C5 (seal_unless_step (TGoto inc) _).
  pose proof (chain_stepX _ bd _ _ _ C6 V2 ltac:(notin) (fixup_step bd _)) as C7.
  plain C7 (pop_step _).
  plain C8 (emit_step _).
  plain C9 (seal_step (TGoto hd) _).
  pose proof (chain_stepX _ inc _ _ _ C10 V3 ltac:(notin) (fixup_step inc _)) as C11.
  pose proof (chain_stepX _ ex _ _ _ C11 V4 ltac:(notin) (noop_step ex _)) as C12.
  plain C12 (scope_loop_step (length (names s)) _).
  exact C13.
Qed.

Lemma case_EShort a l r : Pe l -> Pe r -> Pe (EShort a l r).
Proof.
  intros IHl IHr s Hu Ho. cbn [lower_expr].
  assert (T0 : Step s (emit (lower_expr l s))).
  { eapply Step_then; [apply IHl; assumption|]. intros. apply emit_step; assumption. }
  set (s1 := emit (lower_expr l s)) in *.
  pose proof T0 as (U1 & O1 & _ & _).
  destruct (alloc s1) as [er s2] eqn:E1. destruct (alloc s2) as [mg s3] eqn:E2.
  destruct (alloc2 s1 U1 O1 _ _ _ _ E1 E2) as (T & A1 & A2 & N3 & V1 & V2).
  pose proof T as (U3 & O3 & _ & _).
  eapply Step_trans; [exact T0|].
  eapply StepL_close' with (l := [er; mg]) (mid := s3); [exact T| |intros v [<-|[<-|[]]]; lia].
  start s3 U3 O3 (seal_step (if a then TBr er mg else TBr mg er) s3).
  plain C (IHr _).
  plain C0 (emit_step _).
  plain C1 (seal_step (TGoto mg) _).
  pose proof (chain_stepX _ er _ _ _ C2 V1 ltac:(notin) (fixup_step er _)) as C3.
  pose proof (chain_stepX _ mg _ _ _ C3 V2 ltac:(notin) (noop_step mg _)) as C4.
  exact C4.
Qed.

Lemma case_EIfE c t e : Pe c -> Pe t -> Pe e -> Pe (EIfE c t e).
Proof.
  intros IHc IHt IHe s Hu Ho. cbn [lower_expr].
  pose proof (IHc s Hu Ho) as T1. set (s1 := lower_expr c s) in *.
  pose proof T1 as (U1 & O1 & _ & _).
  destruct (alloc s1) as [th s2] eqn:E1. destruct (alloc s2) as [el s3] eqn:E2.
  destruct (alloc s3) as [mg s4] eqn:E3.
  destruct (alloc3 s1 U1 O1 _ _ _ _ _ _ E1 E2 E3) as (T & A1 & A2 & A3 & N4 & V1 & V2 & V3).
  pose proof T as (U4 & O4 & _ & _).
  eapply Step_trans; [exact T1|].
  eapply StepL_close' with (l := [th; el; mg]) (mid := s4); [exact T| |intros v [<-|[<-|[<-|[]]]]; lia].
  start s4 U4 O4 (seal_step (TBr th el) s4).
  plain C (IHt _).
  plain C0 (emit_step _).
  plain C1 (seal_step (TGoto mg) _).
  pose proof (chain_stepX _ th _ _ _ C2 V1 ltac:(notin) (fixup_step th _)) as C3.
  plain C3 (IHe _).
  plain C4 (emit_step _).
  plain C5 (seal_step (TGoto mg) _).
  pose proof (chain_stepX _ el _ _ _ C6 V2 ltac:(notin) (fixup_step el _)) as C7.
  pose proof (chain_stepX _ mg _ _ _ C7 V3 ltac:(notin) (noop_step mg _)) as C8.
  exact C8.
Qed.

Lemma case_fn caps params body s : Pss body -> U s -> OutOK s ->
  Step s (fn_exit s (lower_stmts body (fn_enter caps params s))).
Proof.
  intros IH Hu Ho. destruct (fn_enter_U caps params s Ho) as [Ue Oe].
  destruct (IH _ Ue Oe) as (Ub & Ob & _ & _).
  apply fn_exit_step; assumption.
Qed.

Theorem lower_steps :
  (forall e, Pe e) /\ (forall e, Pes e) /\ (forall x, Ps x) /\ (forall x, Pss x).
Proof.
  apply skel_mutind.
  - intros s Hu Ho. apply Step_refl; assumption.
  - intros x s Hu Ho. cbn [lower_expr]. destruct (memN x (names s)); [apply Step_refl|apply emit_step]; assumption.
  - intros em args IH s Hu Ho. cbn [lower_expr]. destruct (emits_of em).
    + eapply Step_then; [apply IH; assumption|]. intros; apply emit_step; assumption.
    + apply IH; assumption.
  - intros a l IHl r IHr. apply case_EShort; assumption.
  - intros c IHc t IHt e IHe. apply case_EIfE; assumption.
  - intros caps params body IH s Hu Ho. cbn [lower_expr].
    apply Step_then with (b := fn_exit s (lower_stmts body (fn_enter caps params s)));
      [apply case_fn; assumption|]. intros; apply emit_step; assumption.
  - intros s Hu Ho. apply Step_refl; assumption.
  - intros e IHe r IHr s Hu Ho. cbn [lower_exprs].
    eapply Step_then; [apply IHe; assumption|]. intros; apply IHr; assumption.
  - intros e IH s Hu Ho. apply IH; assumption.
  - intros x e IH s Hu Ho. cbn [lower_stmt].
    eapply Step_then; [apply add_name_step; assumption|]. intros.
    eapply Step_then; [apply IH; assumption|]. intros; apply emit_step; assumption.
  - intros b IH s Hu Ho. cbn [lower_stmt].
    eapply Step_then; [apply IH; assumption|]. intros; apply scope_block_step; assumption.
  - intros c IHc t IHt. apply case_SIf; assumption.
  - intros c IHc t IHt e IHe. apply case_SIfElse; assumption.
  - intros c IHc b IHb. apply case_SWhile; assumption.
  - intros x lo IHlo hi IHhi stp IHst b IHb. apply case_SFor; assumption.
  - intros x it IHit b IHb. apply case_SForEach; assumption.
  - intros s Hu Ho. apply seal_step; assumption.
  - intros e IH s Hu Ho. cbn [lower_stmt].
    eapply Step_then; [apply IH; assumption|]. intros; apply seal_step; assumption.
  - intros s Hu Ho. cbn [lower_stmt]. destruct (loops s) as [|[h e] r]; [apply Step_refl|apply seal_step]; assumption.
  - intros s Hu Ho. cbn [lower_stmt]. destruct (loops s) as [|[h e] r]; [apply Step_refl|apply seal_step]; assumption.
  - intros caps params body IH s Hu Ho. cbn [lower_stmt]. apply case_fn; assumption.
  - intros s Hu Ho. apply Step_refl; assumption.
  - intros s Hu Ho. apply Step_refl; assumption.
  - intros x IHx r IHr s Hu Ho. cbn [lower_stmts].
    eapply Step_then; [apply IHx; assumption|]. intros; apply IHr; assumption.
Qed.

Lemma lower_top_ok p : forall s, U s -> OutOK s -> U (lower_top p s) /\ OutOK (lower_top p s).
Proof.
  induction p as [|x r IH].
  - intros s Hu Ho. split; assumption.
  - intros s Hu Ho. cbn [lower_top]. destruct x; try (apply IH; assumption).
    destruct (case_fn caps params body s (proj2 (proj2 (proj2 lower_steps)) body) Hu Ho) as (A & B & _).
    apply IH; assumption.
Qed.

(* every lowered function has an entry block and pairwise distinct block ids: for ALL programs *)
Theorem lower_entry_and_unique_ids :
  forall p f, In f (lower p) -> has_entry (f_blocks f) = true /\ unique_ids (f_blocks f) = true.
Proof.
  intros p f Hin. unfold lower in Hin.
  assert (Hi : U init /\ OutOK init).
  { split; [|constructor]. split; [constructor|split]; cbn; [contradiction|discriminate]. }
  destruct (lower_top_ok p init (proj1 Hi) (proj2 Hi)) as [_ Ho].
  unfold OutOK in Ho. rewrite Forall_forall in Ho. apply Ho. exact Hin.
Qed.

(* "every block ends in exactly one terminator": a block only comes into existence through
   seal_block, which takes the terminator and ALL pending statements; what has to be shown is that
   nothing emitted is left outside a block when the function is finished *)
Lemma finalize_clean s : dirty (finalize s) = false /\ pending (finalize s) = None.
Proof.
  split; [|apply finalize_pending].
  unfold finalize. destruct (dirty s) eqn:Ed.
  - rewrite orb_true_r. cbn. unfold seal. destruct (pending s); reflexivity.
  - destruct (_ || _); [unfold seal; destruct (pending s); reflexivity|exact Ed].
Qed.

Lemma seal_takes_statements t s : dirty (seal t s) = false /\ exists id, blocks (seal t s) = (id, t) :: blocks s.
Proof. unfold seal. destruct (pending s) as [p|]; cbn; split; try reflexivity; eexists; reflexivity. Qed.
