(* C16 -- proofs about the cache protocol (Model/PipelineCache.v). *)
From Aelys Require Import Base.Tactics Model.PipelineCache.
From Coq Require Import String Permutation.
Local Open Scope string_scope.
Local Open Scope list_scope.

Section Proofs.
  Variables (src out err st : Type).
  Variable hash : src -> N.
  Variable inject : src -> out.
  Variable clone_out : out -> out.
  Variable cache_ok : out -> bool.
  Variable is_value : out -> bool.
  Variable is_compiled : out -> bool.
  Variables (e_value_as_input e_missing e_not_compiled : err).

  Notation stage := (stage out err st).
  Notation pstage := (pstage out err).
  Notation lift := (lift out err st).
  Notation walk := (walk out err st clone_out cache_ok is_value is_compiled e_value_as_input e_missing e_not_compiled).
  Notation walk_spec := (walk_spec out err st is_value is_compiled e_value_as_input e_missing e_not_compiled).
  Notation finish := (finish out err is_compiled e_missing e_not_compiled).
  Notation on_value := (on_value out err e_value_as_input).
  Notation serve := (serve src out err st hash inject clone_out cache_ok is_value is_compiled e_value_as_input e_missing e_not_compiled).
  Notation exec_cached_from := (exec_cached_from src out err st hash inject clone_out cache_ok is_value is_compiled e_value_as_input e_missing e_not_compiled).
  Notation exec_cached := (exec_cached src out err st hash inject clone_out cache_ok is_value is_compiled e_value_as_input e_missing e_not_compiled).
  Notation exec_fresh := (exec_fresh src out err st hash inject clone_out cache_ok is_value is_compiled e_value_as_input e_missing e_not_compiled).
  Notation exec_uncached := (exec_uncached src out err st inject is_value is_compiled e_value_as_input e_missing e_not_compiled).
  Notation lookup := (lookup out).

  Lemma key_eqb_eq (a b : key) : key_eqb a b = true <-> a = b.
  Proof.
    destruct a as [n1 h1], b as [n2 h2]; unfold key_eqb; cbn [fst snd].
    rewrite andb_true_iff, String.eqb_eq, N.eqb_eq. split.
    - intros [-> ->]; reflexivity.
    - intros E; inversion E; auto.
  Qed.

  (* -------------------------------------------------------------------------------------- *)
  (* stages that are not cacheable never touch the cache *)
  Lemma walk_uncacheable (cm : bool) (tail : list stage) :
    Forall (fun t => s_cacheable _ _ _ t = false) tail ->
    forall h c s cur,
      walk cm tail h c s cur = (c, fst (walk_spec cm tail s cur), snd (walk_spec cm tail s cur)).
  Proof.
    induction 1 as [|t tail Ht _ IH]; intros h c s cur; cbn [PipelineCache.walk PipelineCache.walk_spec].
    - reflexivity.
    - destruct (cm && (s_name _ _ _ t =? "vm")); [reflexivity|].
      rewrite Ht. destruct (s_run _ _ _ t s cur) as [s' [o|e]]; [|reflexivity].
      cbn [andb]. destruct (is_value o); [reflexivity|]. apply IH.
  Qed.

  (* -------------------------------------------------------------------------------------- *)
  (* the pure prefix: the input that reaches the stage after `pre`, if no stage of `pre`
     fails or produces a Value *)
  Fixpoint pure_chain (pre : list pstage) (cur : out) : option out :=
    match pre with
    | [] => Some cur
    | p :: r => match p_fun _ _ p cur with
                | SOk o => if is_value o then None else pure_chain r o
                | SErr _ => None
                end
    end.

  Lemma pure_chain_app (a b : list pstage) (cur : out) :
    pure_chain (a ++ b) cur = match pure_chain a cur with Some i => pure_chain b i | None => None end.
  Proof.
    revert cur; induction a as [|p a IH]; intro cur; cbn [pure_chain app]; [reflexivity|].
    destruct (p_fun _ _ p cur) as [o|e]; [|reflexivity]. destruct (is_value o); [reflexivity|apply IH].
  Qed.

  Lemma nodup_split_unique {A B} (f : A -> B) (l : list A) :
    NoDup (map f l) ->
    forall a x b a' x' b', l = a ++ x :: b -> l = a' ++ x' :: b' -> f x = f x' -> a = a' /\ x = x' /\ b = b'.
  Proof.
    intros ND a; revert l ND; induction a as [|y a IH]; intros l ND x b a' x' b' E1 E2 Ef.
    - destruct a' as [|y' a'].
      + cbn [app] in E1, E2. rewrite E1 in E2. injection E2 as -> ->. auto.
      + exfalso. cbn [app] in E1, E2. rewrite E1 in E2. injection E2 as Ex Eb. subst y' b.
        rewrite E1 in ND. cbn [map] in ND. apply NoDup_cons_iff in ND as [Hnin _]. apply Hnin.
        rewrite map_app. apply in_or_app; right; left. symmetry; exact Ef.
    - destruct a' as [|y' a'].
      + exfalso. cbn [app] in E1, E2. rewrite E1 in E2. injection E2 as Ex Eb. subst y b'.
        rewrite E1 in ND. cbn [map] in ND. apply NoDup_cons_iff in ND as [Hnin _]. apply Hnin.
        rewrite map_app. apply in_or_app; right; left. exact Ef.
      + cbn [app] in E1, E2. rewrite E1 in E2. injection E2 as Ey Et. subst y'.
        rewrite E1 in ND. cbn [map] in ND. apply NoDup_cons_iff in ND as [_ ND'].
        destruct (IH _ ND' x b a' x' b' eq_refl Et Ef) as (-> & -> & ->). auto.
  Qed.

  Variable X : list src.
  Hypothesis hash_inj : forall x y, In x X -> In y X -> hash x = hash y -> x = y.
  (* the copy is faithful on everything that is ever put into the cache *)
  Hypothesis clone_faithful : forall o, cache_ok o = true -> clone_out o = o.
  Variable ps : list pstage.
  Hypothesis names_distinct : NoDup (map (p_name _ _) ps).

  (* every cache entry is the output of its stage on the input the pure prefix delivers for
     the requested source with that hash *)
  Definition cache_sound (c : cache out) : Prop :=
    forall nm h o, lookup c (nm, h) = Some o ->
      exists x pre p post i,
        In x X /\ hash x = h /\ ps = pre ++ p :: post /\ p_name _ _ p = nm /\
        pure_chain pre (inject x) = Some i /\ p_fun _ _ p i = SOk o /\ cache_ok o = true.

  Lemma cache_sound_nil : cache_sound [].
  Proof. intros nm h o H; discriminate H. Qed.

  Lemma walk_prefix (cm : bool) (tail : list stage) :
    Forall (fun t => s_cacheable _ _ _ t = false) tail ->
    forall x, In x X ->
    forall rest pre, ps = pre ++ rest ->
    forall c s cur, cache_sound c -> pure_chain pre (inject x) = Some cur ->
      exists c',
        walk cm (map lift rest ++ tail) (hash x) c s cur
          = (c', fst (walk_spec cm (map lift rest ++ tail) s cur),
                 snd (walk_spec cm (map lift rest ++ tail) s cur))
        /\ cache_sound c'.
  Proof.
    intros Htail x Hx rest; induction rest as [|p rest IH]; intros pre Eps c s cur Hc Hchain.
    - cbn [map app]. exists c. split; [apply walk_uncacheable; exact Htail | exact Hc].
    - cbn [map app PipelineCache.walk PipelineCache.walk_spec].
      change (s_name _ _ _ (lift p)) with (p_name _ _ p).
      change (s_cacheable _ _ _ (lift p)) with (p_cacheable _ _ p).
      change (s_run _ _ _ (lift p) s cur) with (s, p_fun _ _ p cur).
      destruct (cm && (p_name _ _ p =? "vm")); [exists c; split; [reflexivity|exact Hc]|].
      assert (Enext : ps = (pre ++ [p]) ++ rest) by (rewrite <- app_assoc; exact Eps).
      (* what the stage computes without a cache *)
      assert (Hstep : forall o, p_fun _ _ p cur = SOk o -> is_value o = false ->
                pure_chain (pre ++ [p]) (inject x) = Some o).
      { intros o Ho Hv. rewrite pure_chain_app, Hchain. cbn [pure_chain]. rewrite Ho, Hv. reflexivity. }
      destruct (p_cacheable _ _ p) eqn:Hcach.
      + destruct (lookup c (p_name _ _ p, hash x)) as [cached|] eqn:Hlk.
        * (* hit: the entry is what the stage would compute *)
          destruct (Hc _ _ _ Hlk) as (x' & pre' & p' & post' & i' & Hx' & Hh & Eps' & Hnm & Hch' & Hf' & Hok).
          assert (x' = x) by (apply hash_inj; assumption). subst x'.
          destruct (nodup_split_unique (p_name _ _) ps names_distinct pre' p' post' pre p rest Eps' Eps Hnm)
            as (-> & -> & ->).
          rewrite Hchain in Hch'. inversion Hch'; subst i'.
          rewrite (clone_faithful _ Hok), Hf'.
          destruct (is_value cached) eqn:Hv; [exists c; split; [reflexivity|exact Hc]|].
          apply (IH _ Enext c s cached Hc (Hstep _ Hf' Hv)).
        * (* miss *)
          destruct (p_fun _ _ p cur) as [o|e] eqn:Hf; [|exists c; split; [reflexivity|exact Hc]].
          cbn [andb].
          destruct (cache_ok o) eqn:Hok.
          -- rewrite (clone_faithful _ Hok).
             assert (Hc' : cache_sound (((p_name _ _ p, hash x), o) :: c)).
             { intros nm h o' Hl. cbn [PipelineCache.lookup] in Hl.
               destruct (key_eqb (p_name _ _ p, hash x) (nm, h)) eqn:Hk.
               - apply key_eqb_eq in Hk. inversion Hk; subst nm h. inversion Hl; subst o'.
                 exists x, pre, p, rest, cur. repeat split; auto.
               - apply Hc; exact Hl. }
             destruct (is_value o) eqn:Hv; [eexists; split; [reflexivity|exact Hc']|].
             apply (IH _ Enext _ s o Hc' (Hstep _ eq_refl Hv)).
          -- destruct (is_value o) eqn:Hv; [exists c; split; [reflexivity|exact Hc]|].
             apply (IH _ Enext c s o Hc (Hstep _ eq_refl Hv)).
      + destruct (p_fun _ _ p cur) as [o|e] eqn:Hf; [|exists c; split; [reflexivity|exact Hc]].
        destruct (is_value o) eqn:Hv; [exists c; split; [reflexivity|exact Hc]|].
        apply (IH _ Enext c s o Hc (Hstep _ eq_refl Hv)).
  Qed.

  Variable tail : list stage.
  Hypothesis tail_uncacheable : Forall (fun t => s_cacheable _ _ _ t = false) tail.
  Let stages := map lift ps ++ tail.

  Lemma serve_sound (c : cache out) (s : st) (r : request src) :
    In (req_src r) X -> cache_sound c ->
    exists c',
      serve stages c s r
        = (c', fst (walk_spec (req_cm r) stages s (inject (req_src r))),
               snd (walk_spec (req_cm r) stages s (inject (req_src r))))
      /\ cache_sound c'.
  Proof.
    intros Hx Hc. unfold PipelineCache.serve.
    apply (walk_prefix (req_cm r) tail tail_uncacheable (req_src r) Hx ps [] eq_refl c s _ Hc eq_refl).
  Qed.

  (* cache vs no cache, same stage state: needs nothing about the uncacheable tail *)
  Lemma cached_eq_uncached_from (hist : list (request src)) :
    Forall (fun r => In (req_src r) X) hist ->
    forall c s, cache_sound c -> exec_cached_from stages c s hist = exec_uncached stages s hist.
  Proof.
    induction 1 as [|r hist Hr _ IH]; intros c s Hc; cbn [PipelineCache.exec_cached_from PipelineCache.exec_uncached].
    - reflexivity.
    - destruct (serve_sound c s r Hr Hc) as (c' & E & Hc'). rewrite E.
      destruct (walk_spec (req_cm r) stages s (inject (req_src r))) as [s' res]. cbn [fst snd].
      f_equal. apply IH; exact Hc'.
  Qed.

  Lemma cached_eq_uncached (s0 : st) (hist : list (request src)) :
    Forall (fun r => In (req_src r) X) hist ->
    exec_cached stages s0 hist = exec_uncached stages s0 hist.
  Proof. intro H. apply cached_eq_uncached_from; [exact H | apply cache_sound_nil]. Qed.

  (* a fresh pipeline per request is the cache-free walk from the initial state *)
  Lemma fresh_is_spec (s0 : st) (hist : list (request src)) :
    Forall (fun r => In (req_src r) X) hist ->
    exec_fresh stages s0 hist = map (fun r => snd (walk_spec (req_cm r) stages s0 (inject (req_src r)))) hist.
  Proof.
    induction 1 as [|r hist Hr _ IH]; [reflexivity|].
    unfold PipelineCache.exec_fresh in *. cbn [map]. rewrite IH. f_equal.
    destruct (serve_sound [] s0 r Hr cache_sound_nil) as (c' & E & _). rewrite E. reflexivity.
  Qed.

  (* results of state-blind stages do not depend on the state the walk starts in *)
  Lemma walk_spec_state_blind (cm : bool) (l : list stage) :
    Forall (state_blind out err st) l ->
    forall s s' cur, snd (walk_spec cm l s cur) = snd (walk_spec cm l s' cur).
  Proof.
    induction 1 as [|t l Ht _ IH]; intros s s' cur; cbn [PipelineCache.walk_spec]; [reflexivity|].
    destruct (cm && (s_name _ _ _ t =? "vm")); [reflexivity|].
    specialize (Ht s s' cur).
    destruct (s_run _ _ _ t s cur) as [s1 r1], (s_run _ _ _ t s' cur) as [s1' r1']. cbn [snd] in Ht. subst r1'.
    destruct r1 as [o|e]; [|reflexivity]. destruct (is_value o); [reflexivity|apply IH].
  Qed.

  Lemma lift_state_blind (p : pstage) : state_blind out err st (lift p).
  Proof. intros s s' i. reflexivity. Qed.

  Hypothesis tail_blind : Forall (state_blind out err st) tail.

  Lemma stages_blind : Forall (state_blind out err st) stages.
  Proof.
    unfold stages. apply Forall_app; split; [|exact tail_blind].
    apply Forall_forall. intros t Ht. apply in_map_iff in Ht as (p & <- & _). apply lift_state_blind.
  Qed.

  Lemma uncached_eq_spec (hist : list (request src)) (s s0 : st) :
    exec_uncached stages s hist = map (fun r => snd (walk_spec (req_cm r) stages s0 (inject (req_src r)))) hist.
  Proof.
    revert s; induction hist as [|r hist IH]; intro s; cbn [PipelineCache.exec_uncached map]; [reflexivity|].
    pose proof (walk_spec_state_blind (req_cm r) stages stages_blind s s0 (inject (req_src r))) as E.
    destruct (walk_spec (req_cm r) stages s (inject (req_src r))) as [s' res]. cbn [snd] in E.
    rewrite E. f_equal. apply IH.
  Qed.

  Lemma cached_eq_fresh (s0 : st) (hist : list (request src)) :
    Forall (fun r => In (req_src r) X) hist ->
    exec_cached stages s0 hist = exec_fresh stages s0 hist.
  Proof.
    intro H. rewrite (cached_eq_uncached s0 hist H), (fresh_is_spec s0 hist H). apply uncached_eq_spec.
  Qed.
End Proofs.

(* ------------------------------------------------------------------------------------------ *)
(* the concrete instance: the clone the code makes *)

Lemma clone_code_not_faithful : exists o, clone_code o <> o.
Proof. exists {| o_shape := ShCompiled; o_sid := 0; o_payload := 0; o_heap := 1 |}. discriminate. Qed.

(* ... but it is faithful on everything the cache accepts (a Compiled output is never cached) *)
Lemma clone_code_faithful_on_cached (o : cout) : c_cache_ok o = true -> clone_code o = o.
Proof. destruct o as [sh sid p h]; destruct sh; cbn; intro H; try reflexivity; discriminate H. Qed.

Definition mini_stages := syn_stages mini_pipeline.
Definition mini_s0 : cst := {| runs := []; log := [] |}.
Definition mini_cached := exec_cached N cout cerr cst (fun x => x) c_inject clone_code c_cache_ok c_is_value c_is_compiled
                                      EValueAsInput EMissing ENotCompiled mini_stages mini_s0.
Definition mini_fresh := exec_fresh N cout cerr cst (fun x => x) c_inject clone_code c_cache_ok c_is_value c_is_compiled
                                    EValueAsInput EMissing ENotCompiled mini_stages mini_s0.
(* the protocol as it was before the repair of KF-C16-1: every output of a cacheable stage was cached *)
Definition mini_cached_before_fix := exec_cached N cout cerr cst (fun x => x) c_inject clone_code (fun _ => true) c_is_value c_is_compiled
                                      EValueAsInput EMissing ENotCompiled mini_stages mini_s0.

Definition res_payload (r : result cout cerr) : option N :=
  match r with RValue o => Some (o_payload o) | RUnit o => Some (o_heap o) | RErr _ => None end.

(* regression of the old witnesses: executing / compiling the same source repeatedly *)
Lemma cache_keeps_heap_exec :
  map res_payload (mini_cached [RqExec 0%N; RqExec 0%N; RqExec 0%N]) = map res_payload (mini_fresh [RqExec 0%N; RqExec 0%N; RqExec 0%N]).
Proof. vm_compute. reflexivity. Qed.

Lemma cache_keeps_heap_compile :
  map res_payload (mini_cached [RqCompile 0%N; RqCompile 0%N]) = [Some 2%N; Some 2%N].
Proof. vm_compute. reflexivity. Qed.

(* OLD DEFINITION ONLY (the protocol before the repair): the second result differed *)
Lemma old_protocol_dropped_heap :
  map res_payload (mini_cached_before_fix [RqExec 0%N; RqExec 0%N]) <> map res_payload (mini_fresh [RqExec 0%N; RqExec 0%N]) /\
  map res_payload (mini_cached_before_fix [RqCompile 0%N; RqCompile 0%N]) = [Some 2%N; Some 0%N].
Proof. vm_compute. split; [discriminate|reflexivity]. Qed.

(* a concrete instance of every hypothesis of the transparency theorem (faithful clone):
   lexer and compiler are pure, the vm stage counts its runs but its result ignores the
   count; the instance is the synthetic pipeline above with `clone_out := id` *)
Definition nv_ps : list (pstage cout cerr) :=
  [ {| p_name := "lexer"; p_cacheable := true;
       p_fun := fun i => SOk {| o_shape := ShTokens; o_sid := o_sid i; o_payload := 1; o_heap := 0 |} |};
    {| p_name := "compiler"; p_cacheable := true;
       p_fun := fun i => SOk {| o_shape := ShCompiled; o_sid := o_sid i; o_payload := o_sid i + 7; o_heap := 2 |} |} ].
Definition nv_vm : stage cout cerr cst :=
  {| s_name := "vm"; s_cacheable := false;
     s_run := fun s i => ({| runs := bump (runs s) 0; log := log s |},
                          SOk {| o_shape := ShValue; o_sid := o_sid i; o_payload := o_payload i + 100 * o_heap i; o_heap := 0 |}) |}.
Definition nv_stages := map (lift cout cerr cst) nv_ps ++ [nv_vm].
Definition nv_hist : list (request N) := [RqExec 0%N; RqExec 1%N; RqExec 0%N; RqCompile 0%N; RqExec 0%N].

Lemma nonvacuous_instance :
  (forall o : cout, (fun _ : cout => true) o = true -> (fun o => o) o = o) /\
  NoDup (map (p_name cout cerr) nv_ps) /\
  Forall (fun t => s_cacheable _ _ _ t = false) [nv_vm] /\
  Forall (state_blind cout cerr cst) [nv_vm] /\
  (forall x y : N, In x [0%N; 1%N] -> In y [0%N; 1%N] -> (fun x => x) x = (fun x => x) y -> x = y) /\
  Forall (fun r => In (req_src r) [0%N; 1%N]) nv_hist /\
  map res_payload (exec_cached N cout cerr cst (fun x => x) c_inject clone_code c_cache_ok c_is_value c_is_compiled
                     EValueAsInput EMissing ENotCompiled nv_stages mini_s0 nv_hist)
    = [Some 207%N; Some 208%N; Some 207%N; Some 2%N; Some 207%N].
Proof.
  split; [intros o _; reflexivity|]. split.
  { cbn [map nv_ps p_name]. apply NoDup_cons; [cbn; intros [H|[]]; discriminate H|].
    apply NoDup_cons; [intros []|apply NoDup_nil]. }
  split; [apply Forall_cons; [reflexivity|apply Forall_nil]|]. split.
  { apply Forall_cons; [intros s s' i; reflexivity|apply Forall_nil]. }
  split; [intros x y _ _ E; exact E|]. split.
  { unfold nv_hist. repeat (apply Forall_cons; [cbn; auto|]). apply Forall_nil. }
  vm_compute. reflexivity.
Qed.
