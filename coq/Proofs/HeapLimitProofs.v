(* C10 -- proofs about Model/HeapLimit.v *)
From Aelys Require Import Base.Tactics Extracted.HeapConsts Model.HeapLimit.
Local Open Scope N_scope.

Lemma ensure_spec m add :
  heap m < U64 -> manual m < U64 -> add < U64 -> maxb m < U64 ->
  (ensure m add = true <-> heap m + manual m + add <= maxb m).
Proof.
  intros Hh Hm Ha Hx. unfold ensure, checked_add.
  destruct (heap m + manual m <? U64) eqn:E1.
  - destruct (heap m + manual m + add <? U64) eqn:E2.
    + split; intro H; lia.
    + split; intro H; [discriminate | lia].
  - split; intro H; [discriminate | lia].
Qed.

(* without the range hypotheses: Ok implies the unbounded sum is within the limit (no wrap-around can
   make an over-limit request pass) *)
Lemma ensure_sound m add : ensure m add = true -> heap m + manual m + add <= maxb m.
Proof.
  unfold ensure, checked_add. destruct (heap m + manual m <? U64) eqn:E1; [|discriminate].
  destruct (heap m + manual m + add <? U64) eqn:E2; [|discriminate]. intro H; lia.
Qed.

Lemma ensure_complete m add : maxb m < U64 -> heap m + manual m + add <= maxb m -> ensure m add = true.
Proof.
  intros Hx H. unfold ensure, checked_add.
  destruct (heap m + manual m <? U64) eqn:E1; [|lia].
  destruct (heap m + manual m + add <? U64) eqn:E2; [|lia]. lia.
Qed.

(* ---- guarded operations *)
Lemma gstep_inv m o : Inv m ->
  let '(r, m', t) := gstep m o in
  Inv m' /\ maxb m' = maxb m /\ (r = ROk \/ m' = m) /\
  (match o with GObj _ | GManual _ => check_first t = true | _ => True end).
Proof.
  unfold Inv. intro HI. destruct o as [len | size | n | b | s]; cbn [gstep].
  - unfold op_string. destruct (ensure m (SZ_STRING + len)) eqn:E.
    + apply ensure_sound in E. cbn [add_heap heap manual maxb]. repeat split; auto; lia.
    + repeat split; auto.
  - unfold op_object. destruct (ensure m size) eqn:E.
    + apply ensure_sound in E. cbn [add_heap heap manual maxb check_first]. repeat split; auto; lia.
    + cbn [check_first]. repeat split; auto.
  - unfold op_manual. destruct (n <? 0)%Z; [cbn [check_first]; repeat split; auto|].
    destruct (checked_mul (Z.to_N n) SZ_VALUE) as [bytes|]; [|cbn [check_first]; repeat split; auto].
    destruct (ensure m bytes) eqn:E; [|cbn [check_first]; repeat split; auto].
    destruct (n =? 0)%Z; [cbn [check_first]; repeat split; auto|].
    apply ensure_sound in E. cbn [add_manual heap manual maxb check_first]. repeat split; auto; lia.
  - unfold op_manual_free. cbn [heap manual maxb]. repeat split; auto; lia.
  - unfold op_sweep. cbn [heap manual maxb]. repeat split; auto; lia.
Qed.

Lemma grun_inv h : forall m, Inv m -> Inv (grun m h) /\ maxb (grun m h) = maxb m.
Proof.
  induction h as [|o r IH]; intros m HI; cbn [grun]; [split; auto|].
  pose proof (gstep_inv m o HI) as H. destruct (gstep m o) as [[rr m'] t]. cbn [fst snd].
  destruct H as (HI' & Hmax & _ & _). destruct (IH m' HI') as [A B]. split; [exact A | congruence].
Qed.

(* the manual allocator, completely: what it answers and when *)
Lemma manual_spec m n : maxb m < U64 -> Inv m ->
  let '(r, m', t) := op_manual m n in
  (r = ROk <-> (0 < n)%Z /\ held m + Z.to_N n * SZ_VALUE <= maxb m) /\
  (r = ROk -> held m' = held m + Z.to_N n * SZ_VALUE) /\
  (r <> ROk -> m' = m) /\ check_first t = true /\
  ((n < 0)%Z -> r = RTypeErr) /\ (n = 0%Z -> r = RInvalidSize).
Proof.
  intros Hx HI. unfold Inv, held in *. unfold op_manual.
  destruct (n <? 0)%Z eqn:En.
  - cbn [check_first]. repeat split; intros; try discriminate; try reflexivity; try lia; try congruence.
  - unfold checked_mul. destruct (Z.to_N n * SZ_VALUE <? U64) eqn:Em.
    + destruct (ensure m (Z.to_N n * SZ_VALUE)) eqn:E.
      * apply ensure_sound in E. destruct (n =? 0)%Z eqn:E0.
        -- cbn [check_first]. repeat split; intros; try discriminate; try reflexivity; try lia; try congruence.
        -- cbn [check_first add_manual heap manual maxb]. repeat split; intros; try discriminate; try reflexivity; try lia; try congruence.
      * assert (Hn0 : n <> 0%Z).
        { intro; subst n. rewrite ensure_complete in E; [discriminate | assumption | cbn; lia]. }
        cbn [check_first]. repeat split; intros; try discriminate; try reflexivity; try lia; try congruence.
        destruct H as [H1 H2]. rewrite ensure_complete in E; [discriminate | assumption | lia].
    + cbn [check_first]. repeat split; intros; try discriminate; try reflexivity; try lia; try congruence.
Qed.

(* ---- sweep *)
Lemma sweep_exact m charged : charged <= heap m -> heap (op_sweep m charged) = heap m - charged /\ manual (op_sweep m charged) = manual m.
Proof. intro H. unfold op_sweep; cbn [heap manual]. split; reflexivity. Qed.

Lemma sweep_keeps_inv m cur : Inv m -> Inv (op_sweep m cur).
Proof. unfold Inv, op_sweep; cbn [heap manual maxb]. lia. Qed.

(* a vec charged 40 bytes at creation and grown to capacity 1024 is swept as 32 + 8192 bytes: 8184 bytes
   that belong to OTHER live objects disappear from the budget *)
Lemma sweep_grown_witness :
  let m := mkMem 100040 0 1048576 in
  let v := mkVec 1024 1024 40 in
  heap (op_sweep m (vec_bytes v)) = 91816 /\ heap m - vcharged v = 100000.
Proof. vm_compute. split; reflexivity. Qed.

(* ---- byte buffers *)
Lemma bytes_bounded cap m n : (n <= 0)%Z \/ MAX_ALLOC < Z.to_N n -> op_bytes cap m n = (RTypeErr, m, []).
Proof.
  intros [H|H]; unfold op_bytes.
  - destruct (n <=? 0)%Z eqn:E; [reflexivity | lia].
  - destruct (n <=? 0)%Z eqn:E; [reflexivity|]. destruct (MAX_ALLOC <? Z.to_N n) eqn:E2; [reflexivity | lia].
Qed.
Lemma bytes_host_bound cap m n : host_total (snd (op_bytes cap m n)) <= MAX_ALLOC /\ snd (fst (op_bytes cap m n)) = m.
Proof.
  unfold op_bytes. destruct (n <=? 0)%Z; [cbn; split; [lia|reflexivity]|].
  destruct (MAX_ALLOC <? Z.to_N n) eqn:E; [cbn; split; [lia|reflexivity]|].
  destruct (host_ok cap (Z.to_N n)); cbn [snd fst host_total]; split; try reflexivity; lia.
Qed.

(* ---- witnesses for the unguarded paths (limit 1 MiB, 100 000 bytes in use, host grants up to 2^40) *)
Definition w_mem : mem := mkMem 100000 0 1048576.
Definition w_cap : N := 1099511627776.

Lemma array_late_check_witness :
  op_array w_cap 8 w_mem 200000 = (ROom, w_mem, [EHost 1600000; ECheck 1600024 false]) /\
  check_first (snd (op_array w_cap 8 w_mem 200000)) = false /\
  op_array w_cap 8 w_mem (-1) = (RPanic, w_mem, []) /\
  op_array w_cap 8 w_mem 1000000000000 = (RAbort, w_mem, [EHost 8000000000000]).
Proof. vm_compute. repeat split; reflexivity. Qed.

Lemma vec_growth_witness :
  let '(r, m', v') := push_many 2000 w_cap w_mem (mkVec 1 1 40) in
  r = ROk /\ m' = w_mem /\ vlen v' = 2001 /\ vcap v' = 2048.
Proof. vm_compute. repeat split; reflexivity. Qed.

(* doubling 17 times from capacity 1: 131072 elements = 1 MiB of storage, nothing charged, no error *)
Lemma vec_growth_over_limit_witness :
  let '(r, m', v', _) := op_vec_reserve w_cap w_mem (mkVec 1 1 40) 131072 in
  r = ROk /\ m' = w_mem /\ maxb w_mem < held w_mem - vcharged v' + vec_bytes v'.
Proof. vm_compute. repeat split; reflexivity. Qed.

Lemma vec_reserve_witness :
  fst (fst (fst (op_vec_reserve w_cap w_mem (mkVec 1 1 40) (-1)))) = RPanic /\
  fst (fst (fst (op_vec_reserve w_cap w_mem (mkVec 1 1 40) 1000000000000))) = RAbort.
Proof. vm_compute. split; reflexivity. Qed.

Lemma repeat_late_check_witness :
  op_repeat w_cap w_mem 16 100000 = (ROom, w_mem, [EHost 1600000; ECheck 1600024 false]) /\
  fst (fst (op_repeat w_cap w_mem 16 100000000000)) = RAbort /\
  fst (fst (op_pad true w_cap w_mem 16 (-1))) = RPanic /\
  fst (fst (op_pad true w_cap w_mem 16 100000000000000)) = RAbort.
Proof. vm_compute. repeat split; reflexivity. Qed.

(* the strongest true statement for the late-checked primitives: when they answer Ok the invariant still
   holds (the charge itself is checked), only the order / the host request is wrong *)
Lemma array_ok_inv cap e m n : Inv m -> let '(r, m', _) := op_array cap e m n in Inv m' /\ (r = ROk \/ m' = m).
Proof.
  unfold Inv. intro HI. unfold op_array.
  destruct (ISIZE_MAX <? usize_of n * e); [split; auto|].
  destruct (negb (host_ok cap (usize_of n * e))); [split; auto|].
  destruct (ensure m (SZ_ARRAY + usize_of n * e)) eqn:E; [|split; auto].
  apply ensure_sound in E. cbn [add_heap heap manual maxb]. split; [lia | auto].
Qed.
Lemma repeat_ok_inv cap m sl n : Inv m -> let '(r, m', _) := op_repeat cap m sl n in Inv m' /\ (r = ROk \/ m' = m).
Proof.
  unfold Inv. intro HI. unfold op_repeat, op_string.
  destruct (n <=? 0)%Z.
  - destruct (ensure m (SZ_STRING + 0)) eqn:E; [|split; auto]. apply ensure_sound in E. cbn [add_heap heap manual maxb]. split; [lia|auto].
  - destruct (ISIZE_MAX <? sl * usize_of n); [split; auto|].
    destruct (negb (host_ok cap (sl * usize_of n))); [split; auto|].
    destruct (ensure m (SZ_STRING + sl * usize_of n)) eqn:E; [|split; auto].
    apply ensure_sound in E. cbn [add_heap heap manual maxb]. split; [lia | auto].
Qed.
