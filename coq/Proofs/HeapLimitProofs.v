(* C10 -- proofs about Model/HeapLimit.v *)
From Aelys Require Import Base.Tactics Extracted.HeapConsts Model.HeapLimit Model.HeapLimitObs.
Local Open Scope N_scope.

Lemma ensure_spec m add :
  heap m < U64 -> manual m < U64 -> add < U64 -> maxb m < U64 ->
  (ensure m add = true <-> heap m + manual m + add <= maxb m).
Proof.
  intros Hh Hm Ha Hx. unfold ensure, checked_add.
  destruct (heap m + manual m <? U64) eqn:E1.
  - destruct (heap m + manual m + add <? U64) eqn:E2.
    + split; intro H; lia.
    + split; intro H; [discriminate | lia].
  - split; intro H; [discriminate | lia].
Qed.

(* without the range hypotheses: Ok implies the unbounded sum is within the limit (no wrap-around can
   make an over-limit request pass) *)
Lemma ensure_sound m add : ensure m add = true -> heap m + manual m + add <= maxb m.
Proof.
  unfold ensure, checked_add. destruct (heap m + manual m <? U64) eqn:E1; [|discriminate].
  destruct (heap m + manual m + add <? U64) eqn:E2; [|discriminate]. intro H; lia.
Qed.

Lemma ensure_complete m add : maxb m < U64 -> heap m + manual m + add <= maxb m -> ensure m add = true.
Proof.
  intros Hx H. unfold ensure, checked_add.
  destruct (heap m + manual m <? U64) eqn:E1; [|lia].
  destruct (heap m + manual m + add <? U64) eqn:E2; [|lia]. lia.
Qed.

(* ---- the operations one by one *)
Definition step_ok (m : mem) (r : res) (m' : mem) : Prop :=
  Inv m' /\ maxb m' = maxb m /\ (r = ROk \/ m' = m).

Lemma string_step m len : Inv m -> let '(r, m', t) := op_string m len in step_ok m r m'.
Proof.
  unfold step_ok, Inv. intro HI. unfold op_string. destruct (ensure m (SZ_STRING + len)) eqn:E.
  - apply ensure_sound in E. cbn [add_heap heap manual maxb]. repeat split; auto; lia.
  - repeat split; auto.
Qed.

Lemma object_step m size : Inv m -> let '(r, m', t) := op_object m size in step_ok m r m' /\ check_first t = true.
Proof.
  unfold step_ok, Inv. intro HI. unfold op_object. destruct (ensure m size) eqn:E.
  - apply ensure_sound in E. cbn [add_heap heap manual maxb check_first]. repeat split; auto; lia.
  - cbn [check_first]. repeat split; auto.
Qed.

Lemma manual_step m n : Inv m -> let '(r, m', t) := op_manual m n in step_ok m r m' /\ check_first t = true.
Proof.
  unfold step_ok, Inv. intro HI. unfold op_manual. destruct (n <? 0)%Z; [cbn [check_first]; repeat split; auto|].
  destruct (checked_mul (Z.to_N n) SZ_VALUE) as [bytes|]; [|cbn [check_first]; repeat split; auto].
  destruct (ensure m bytes) eqn:E; [|cbn [check_first]; repeat split; auto].
  destruct (n =? 0)%Z; [cbn [check_first]; repeat split; auto|].
  apply ensure_sound in E. cbn [add_manual heap manual maxb check_first]. repeat split; auto; lia.
Qed.

(* array constructors: validated and checked before anything is built *)
Lemma array_step cap e m n : Inv m ->
  let '(r, m', t) := op_array cap e m n in
  step_ok m r m' /\ check_first t = true /\ ((n < 0)%Z -> r = RTypeErr /\ t = []) /\
  (r = ROom \/ r = RTypeErr -> host_total t = 0).
Proof.
  unfold step_ok, Inv. intro HI. unfold op_array.
  destruct (n <? 0)%Z eqn:En; [cbn; repeat split; auto; intros; lia|].
  destruct (U64 <=? SZ_ARRAY + Z.to_N n * e); [cbn; repeat split; auto; intros; lia|].
  destruct (ensure m (SZ_ARRAY + Z.to_N n * e)) eqn:E.
  - apply ensure_sound in E. destruct (host_ok cap (Z.to_N n * e)); cbn [add_heap heap manual maxb check_first host_total];
      repeat split; auto; intros; try lia; try (destruct H; discriminate).
  - cbn. repeat split; auto; intros; lia.
Qed.

(* vec growth: checked, performed, accounted -- the charge follows the capacity *)
Lemma vec_grow_step cap m v add : Inv m -> vcharged v = vec_bytes v -> vlen v <= vcap v ->
  let '(r, m', v', t) := vec_grow cap m v add in
  step_ok m r m' /\ check_first t = true /\ vcharged v' = vec_bytes v' /\ vlen v' = vlen v /\ velem v' = velem v /\ vcap v <= vcap v' /\
  held m' + vec_bytes v = held m + vec_bytes v' /\
  (r = ROk -> vlen v + add <= vcap v') /\ (r <> ROk -> v' = v /\ m' = m).
Proof.
  unfold step_ok, Inv, held. intros HI Hc Hlc. unfold vec_grow.
  destruct (add <=? vcap v - vlen v) eqn:E0; [cbn; repeat split; auto; intros; try lia; congruence|].
  destruct (USIZE_MAX <? vlen v + add); [cbn; repeat split; auto; intros; try lia; discriminate|].
  set (required := vlen v + add). set (amort := N.max required (N.max (VEC_GROWTH_FACTOR * vcap v) VEC_MIN_CAP)).
  assert (Hfin : forall nc, vcap v <= nc -> required <= nc -> ensure m ((nc - vcap v) * velem v) = true ->
    let '(r, m', v', t) :=
      (if host_ok cap (nc * velem v)
       then (ROk, add_heap m ((nc - vcap v) * velem v), mkVec (vlen v) nc (vcharged v + (nc - vcap v) * velem v) (velem v),
             [ECheck ((nc - vcap v) * velem v) true; EHost (nc * velem v); ECharge ((nc - vcap v) * velem v)])
       else (RAbort, m, v, [ECheck ((nc - vcap v) * velem v) true; EHost (nc * velem v)])) in
    (heap m' + manual m' <= maxb m' /\ maxb m' = maxb m /\ (r = ROk \/ m' = m)) /\ check_first t = true /\
    vcharged v' = vec_bytes v' /\ vlen v' = vlen v /\ velem v' = velem v /\ vcap v <= vcap v' /\
    heap m' + manual m' + vec_bytes v = heap m + manual m + vec_bytes v' /\
    (r = ROk -> vlen v + add <= vcap v') /\ (r <> ROk -> v' = v /\ m' = m)).
  { intros nc Hnc Hreq En. apply ensure_sound in En. unfold vec_bytes in *.
    destruct (host_ok cap (nc * velem v)); cbn [add_heap heap manual maxb check_first vcharged vcap vlen velem];
      repeat split; auto; intros; try lia; try congruence. }
  destruct ((amort - vcap v) * velem v <? U64) eqn:Eb; cbn [andb].
  - destruct (ensure m ((amort - vcap v) * velem v)) eqn:Ea.
    + apply Hfin; [unfold amort; lia | unfold amort; lia | exact Ea].
    + destruct (U64 <=? (required - vcap v) * velem v); [cbn; repeat split; auto; intros; try lia; discriminate|].
      destruct (ensure m ((required - vcap v) * velem v)) eqn:Er.
      * apply Hfin; [unfold required; lia | lia | exact Er].
      * cbn; repeat split; auto; intros; try lia; discriminate.
  - destruct (U64 <=? (required - vcap v) * velem v); [cbn; repeat split; auto; intros; try lia; discriminate|].
    destruct (ensure m ((required - vcap v) * velem v)) eqn:Er.
    + apply Hfin; [unfold required; lia | lia | exact Er].
    + cbn; repeat split; auto; intros; try lia; discriminate.
Qed.

Lemma vec_push_step cap m v : Inv m -> vcharged v = vec_bytes v -> vlen v <= vcap v ->
  let '(r, m', v', t) := op_vec_push cap m v in
  step_ok m r m' /\ check_first t = true /\ vcharged v' = vec_bytes v' /\
  held m' + vec_bytes v = held m + vec_bytes v' /\
  (r = ROk -> vlen v' = vlen v + 1 /\ vlen v' <= vcap v') /\ (r <> ROk -> v' = v /\ m' = m).
Proof.
  intros HI Hc Hlc. unfold op_vec_push. pose proof (vec_grow_step cap m v 1 HI Hc Hlc) as H.
  destruct (vec_grow cap m v 1) as [[[r m'] v'] t]. destruct H as (A & B & C & D & D2 & E & F & G & K).
  unfold step_ok in *. destruct A as (A1 & A2 & A3).
  destruct r; try (repeat split; auto; intros; try discriminate; apply K; discriminate).
  specialize (G eq_refl). unfold vec_bytes in *. cbn [vcharged vcap vlen velem]. rewrite ?D2 in *.
  repeat split; auto; intros; try lia; congruence.
Qed.

Lemma vec_reserve_step cap m v a : Inv m -> vcharged v = vec_bytes v -> vlen v <= vcap v ->
  let '(r, m', v', t) := op_vec_reserve cap m v a in
  step_ok m r m' /\ check_first t = true /\ vcharged v' = vec_bytes v' /\
  held m' + vec_bytes v = held m + vec_bytes v' /\
  ((a < 0)%Z -> r = RTypeErr) /\ (r <> ROk -> v' = v /\ m' = m).
Proof.
  intros HI Hc Hlc. unfold op_vec_reserve. destruct (a <? 0)%Z eqn:Ea.
  - unfold step_ok. cbn. repeat split; auto; intros; try lia.
  - pose proof (vec_grow_step cap m v (Z.to_N a) HI Hc Hlc) as H.
    destruct (vec_grow cap m v (Z.to_N a)) as [[[r m'] v'] t]. destruct H as (A & B & C & D & D2 & E & F & G & K).
    unfold step_ok in *. destruct A as (A1 & A2 & A3).
    repeat split; auto; intros; try lia; apply K; assumption.
Qed.

Lemma repeat_step cap m sl n : Inv m ->
  let '(r, m', t) := op_repeat cap m sl n in
  step_ok m r m' /\ ((0 < n)%Z -> check_first t = true /\ (r = ROom -> host_total t = 0)).
Proof.
  unfold step_ok, Inv. intro HI. unfold op_repeat.
  destruct (n <=? 0)%Z eqn:En.
  - pose proof (string_step m 0 HI) as H. destruct (op_string m 0) as [[r m'] t]. split; [exact H | intros; lia].
  - destruct (ISIZE_MAX <? sl * Z.to_N n); [cbn; repeat split; auto|].
    destruct (ensure m (SZ_STRING + sl * Z.to_N n)) eqn:E.
    + apply ensure_sound in E. destruct (host_ok cap (sl * Z.to_N n)); cbn [add_heap heap manual maxb check_first host_total];
        repeat split; auto; intros; try lia; discriminate.
    + cbn. repeat split; auto.
Qed.

Lemma pad_step cap m sc sb pb w : Inv m ->
  let '(r, m', t) := op_pad cap m sc sb pb w in
  step_ok m r m' /\ check_first t = true /\ (r = ROom -> host_total t = 0).
Proof.
  unfold step_ok, Inv. intro HI. unfold op_pad.
  destruct ((w <=? 0)%Z || (Z.to_N w <=? sc)); [cbn; repeat split; auto|].
  set (total := (Z.to_N w - sc) * pb + sb).
  destruct (ISIZE_MAX <? total); [cbn; repeat split; auto|].
  destruct (ensure m (SZ_STRING + total)) eqn:E.
  - apply ensure_sound in E. destruct (host_ok cap (3 * total)); cbn [add_heap heap manual maxb check_first host_total];
      repeat split; auto; intros; try lia; discriminate.
  - cbn. repeat split; auto.
Qed.

Lemma string_checked_step cap m total : Inv m ->
  let '(r, m', t) := op_string_checked cap m total in
  step_ok m r m' /\ check_first t = true /\ (r = ROom -> host_total t = 0).
Proof.
  unfold step_ok, Inv. intro HI. unfold op_string_checked.
  destruct (ISIZE_MAX <? total); [cbn; repeat split; auto|].
  destruct (ensure m (SZ_STRING + total)) eqn:E.
  - apply ensure_sound in E. destruct (host_ok cap total); cbn [add_heap heap manual maxb check_first host_total];
      repeat split; auto; intros; try lia; discriminate.
  - cbn. repeat split; auto.
Qed.

Lemma bytes_step_gen ch cap m n : Inv m -> let '(r, m', t) := op_bytes_gen ch cap m n in step_ok m r m' /\ (ch = true -> check_first t = true).
Proof.
  unfold step_ok, Inv. intro HI. unfold op_bytes_gen.
  destruct (n <=? 0)%Z; [repeat split; auto|]. destruct (MAX_ALLOC <? Z.to_N n); [repeat split; auto|].
  destruct ch.
  - destruct (ensure m (Z.to_N n)) eqn:E; [|repeat split; auto].
    apply ensure_sound in E. destruct (host_ok cap (Z.to_N n)); cbn [add_manual heap manual maxb check_first]; repeat split; auto; lia.
  - destruct (host_ok cap (Z.to_N n)); repeat split; auto; discriminate.
Qed.
Lemma bytes_step cap m n : Inv m -> let '(r, m', t) := op_bytes cap m n in step_ok m r m'.
Proof.
  intro HI. unfold op_bytes. pose proof (bytes_step_gen BYTES_CHARGED cap m n HI) as H.
  destruct (op_bytes_gen BYTES_CHARGED cap m n) as [[r m'] t]. exact (proj1 H).
Qed.

(* ---- every allocating primitive, in every history *)
Lemma gstep_inv cap m o : Inv m ->
  (match o with GVecPush v | GVecReserve v _ => vcharged v = vec_bytes v /\ vlen v <= vcap v | _ => True end) ->
  let '(r, m', t) := gstep cap m o in
  Inv m' /\ maxb m' = maxb m /\ (r = ROk \/ m' = m) /\
  (match o with GStr _ | GBytes _ | GManualFree _ | GSweep _ => True | GRepeat _ n => (0 < n)%Z -> check_first t = true
              | _ => check_first t = true end).
Proof.
  intros HI Hv. destruct o as [len | size | n | b | sz | e n | v | v a | sl n | sc sb pb w | n | total]; cbn [gstep].
  - pose proof (string_step m len HI) as H. destruct (op_string m len) as [[r m'] t]. destruct H as (A & B & C). auto.
  - pose proof (object_step m size HI) as H. destruct (op_object m size) as [[r m'] t]. destruct H as ((A & B & C) & D). auto.
  - pose proof (manual_step m n HI) as H. destruct (op_manual m n) as [[r m'] t]. destruct H as ((A & B & C) & D). auto.
  - unfold Inv in *. unfold op_manual_free. cbn [heap manual maxb]. repeat split; auto; lia.
  - unfold Inv in *. unfold op_sweep. cbn [heap manual maxb]. repeat split; auto; lia.
  - pose proof (array_step cap e m n HI) as H. destruct (op_array cap e m n) as [[r m'] t]. destruct H as ((A & B & C) & D & _). auto.
  - destruct Hv as [Hv Hl]. pose proof (vec_push_step cap m v HI Hv Hl) as H. destruct (op_vec_push cap m v) as [[[r m'] v'] t]. destruct H as ((A & B & C) & D & _). auto.
  - destruct Hv as [Hv Hl]. pose proof (vec_reserve_step cap m v a HI Hv Hl) as H. destruct (op_vec_reserve cap m v a) as [[[r m'] v'] t]. destruct H as ((A & B & C) & D & _). auto.
  - pose proof (repeat_step cap m sl n HI) as H. destruct (op_repeat cap m sl n) as [[r m'] t]. destruct H as ((A & B & C) & D).
    repeat split; auto. intro Hn. apply D; assumption.
  - pose proof (pad_step cap m sc sb pb w HI) as H. destruct (op_pad cap m sc sb pb w) as [[r m'] t]. destruct H as ((A & B & C) & D & _). auto.
  - pose proof (bytes_step cap m n HI) as H. destruct (op_bytes cap m n) as [[r m'] t]. destruct H as (A & B & C). auto.
  - pose proof (string_checked_step cap m total HI) as H. destruct (op_string_checked cap m total) as [[r m'] t]. destruct H as ((A & B & C) & D & _). auto.
Qed.

Definition vec_ok (o : gop) : Prop :=
  match o with GVecPush v | GVecReserve v _ => vcharged v = vec_bytes v /\ vlen v <= vcap v | _ => True end.

Lemma grun_inv cap h : forall m, Inv m -> Forall vec_ok h -> Inv (grun cap m h) /\ maxb (grun cap m h) = maxb m.
Proof.
  induction h as [|o r IH]; intros m HI Hv; cbn [grun]; [split; auto|].
  inversion Hv as [|x l Hx Hl]; subst.
  pose proof (gstep_inv cap m o HI Hx) as H. destruct (gstep cap m o) as [[rr m'] t]. cbn [fst snd].
  destruct H as (HI' & Hmax & _ & _). destruct (IH m' HI' Hl) as [A B]. split; [exact A | congruence].
Qed.

(* the manual allocator, completely: what it answers and when *)
Lemma manual_spec m n : maxb m < U64 -> Inv m ->
  let '(r, m', t) := op_manual m n in
  (r = ROk <-> (0 < n)%Z /\ held m + Z.to_N n * SZ_VALUE <= maxb m) /\
  (r = ROk -> held m' = held m + Z.to_N n * SZ_VALUE) /\
  (r <> ROk -> m' = m) /\ check_first t = true /\
  ((n < 0)%Z -> r = RTypeErr) /\ (n = 0%Z -> r = RInvalidSize).
Proof.
  intros Hx HI. unfold Inv, held in *. unfold op_manual.
  destruct (n <? 0)%Z eqn:En.
  - cbn [check_first]. repeat split; intros; try discriminate; try reflexivity; try lia; try congruence.
  - unfold checked_mul. destruct (Z.to_N n * SZ_VALUE <? U64) eqn:Em.
    + destruct (ensure m (Z.to_N n * SZ_VALUE)) eqn:E.
      * apply ensure_sound in E. destruct (n =? 0)%Z eqn:E0.
        -- cbn [check_first]. repeat split; intros; try discriminate; try reflexivity; try lia; try congruence.
        -- cbn [check_first add_manual heap manual maxb]. repeat split; intros; try discriminate; try reflexivity; try lia; try congruence.
      * assert (Hn0 : n <> 0%Z).
        { intro; subst n. rewrite ensure_complete in E; [discriminate | assumption | cbn; lia]. }
        cbn [check_first]. repeat split; intros; try discriminate; try reflexivity; try lia; try congruence.
        destruct H as [H1 H2]. rewrite ensure_complete in E; [discriminate | assumption | lia].
    + cbn [check_first]. repeat split; intros; try discriminate; try reflexivity; try lia; try congruence.
Qed.

(* ---- sweep *)
Lemma sweep_exact m charged : charged <= heap m -> heap (op_sweep m charged) = heap m - charged /\ manual (op_sweep m charged) = manual m.
Proof. intro H. unfold op_sweep; cbn [heap manual]. split; reflexivity. Qed.

Lemma sweep_keeps_inv m cur : Inv m -> Inv (op_sweep m cur).
Proof. unfold Inv, op_sweep; cbn [heap manual maxb]. lia. Qed.

(* a vec is swept at exactly what it has been charged, however much it has grown *)
Lemma sweep_vec_exact m v : vcharged v = vec_bytes v -> vcharged v <= heap m ->
  heap (op_sweep m (vec_bytes v)) = heap m - vcharged v.
Proof. intros Hc Hle. unfold op_sweep; cbn [heap]. rewrite Hc. reflexivity. Qed.

(* OLD behaviour (growth not accounted): a vec charged 40 bytes at creation and grown to capacity 1024 was swept as
   32 + 8192 bytes: 8184 bytes that belong to OTHER live objects disappeared from the budget *)
Lemma old_sweep_grown_witness :
  let m := mkMem 100040 0 1048576 in
  let v := mkVec 1024 1024 40 8 in
  heap (op_sweep m (vec_bytes v)) = 91816 /\ heap m - vcharged v = 100000.
Proof. vm_compute. split; reflexivity. Qed.

(* ---- byte buffers *)
Definition w_cap_b : N := 1099511627776.
Lemma bytes_bounded cap m n : (n <= 0)%Z \/ MAX_ALLOC < Z.to_N n -> op_bytes cap m n = (RTypeErr, m, []).
Proof.
  intros [H|H]; unfold op_bytes, op_bytes_gen.
  - destruct (n <=? 0)%Z eqn:E; [reflexivity | lia].
  - destruct (n <=? 0)%Z eqn:E; [reflexivity|]. destruct (MAX_ALLOC <? Z.to_N n) eqn:E2; [reflexivity | lia].
Qed.
Lemma bytes_host_bound cap m n : host_total (snd (op_bytes cap m n)) <= MAX_ALLOC.
Proof.
  unfold op_bytes, op_bytes_gen. destruct (n <=? 0)%Z; [cbn; lia|].
  destruct (MAX_ALLOC <? Z.to_N n) eqn:E; [cbn; lia|].
  destruct BYTES_CHARGED.
  - destruct (ensure m (Z.to_N n)); [|cbn; lia]. destruct (host_ok cap (Z.to_N n)); cbn [snd fst host_total]; lia.
  - destruct (host_ok cap (Z.to_N n)); cbn [snd fst host_total]; lia.
Qed.
(* byte buffers charged (the repaired natives): granted exactly when the buffer fits the budget, charged in full, the
   check precedes the host allocation, a refusal changes nothing *)
Lemma bytes_charged_exact cap m n : maxb m < U64 -> Inv m -> maxb m <= cap -> (0 < n)%Z -> Z.to_N n <= MAX_ALLOC ->
  let '(r, m', t) := op_bytes_gen true cap m n in
  (r = ROk <-> held m + Z.to_N n <= maxb m) /\ (r = ROk -> held m' = held m + Z.to_N n) /\ (r <> ROk -> m' = m) /\
  check_first t = true /\ r <> RAbort /\ r <> RPanic.
Proof.
  intros Hx HI Hcap Hn Hmax. unfold Inv, held in *. unfold op_bytes_gen.
  destruct (n <=? 0)%Z eqn:E0; [lia|]. destruct (MAX_ALLOC <? Z.to_N n) eqn:E1; [lia|].
  destruct (ensure m (Z.to_N n)) eqn:E.
  - apply ensure_sound in E. unfold host_ok. destruct (Z.to_N n <=? cap) eqn:Eh; [|lia].
    cbn [add_manual heap manual maxb check_first]. repeat split; intros; try discriminate; try lia; congruence.
  - repeat split; intros; try discriminate; try reflexivity.
    rewrite ensure_complete in E; [discriminate | assumption | unfold MAX_ALLOC in *; unfold U64; lia].
Qed.
(* any number of byte buffers: the budget invariant holds after every one of them *)
Lemma bytes_many_ok cap sz k m : Inv m -> Inv (snd (bytes_many cap sz k m)).
Proof.
  intro HI. unfold bytes_many. induction k using N.peano_ind; [exact HI|].
  rewrite N.iter_succ. destruct (N.iter k (bytes_seq_step cap sz) (ROk, m)) as [r m1]. cbn [snd] in IHk.
  unfold bytes_seq_step. destruct r; try exact IHk.
  pose proof (bytes_step cap m1 sz IHk) as H. destruct (op_bytes cap m1 sz) as [[r2 m2] t]. destruct H as (A & _). exact A.
Qed.
(* OLD behaviour (buffers never charged): under a 1 MiB limit with 100 000 bytes in use a buffer of 200 000 000 bytes is
   granted and the budget does not move *)
Lemma bytes_uncharged_witness : op_bytes_gen false w_cap_b (mkMem 100000 0 1048576) 200000000 = (ROk, mkMem 100000 0 1048576, [EHost 200000000]).
Proof. vm_compute. reflexivity. Qed.

(* ---- the former counterexamples on the repaired definitions (limit 1 MiB, 100 000 bytes in use, host grants 2^40) *)
Definition w_mem : mem := mkMem 100000 0 1048576.
Definition w_cap : N := 1099511627776.

Lemma repaired_array_witness :
  op_array w_cap 8 w_mem 200000 = (ROom, w_mem, [ECheck 1600024 false]) /\
  op_array w_cap 8 w_mem (-1) = (RTypeErr, w_mem, []) /\
  op_array w_cap 8 w_mem 1000000000000 = (ROom, w_mem, [ECheck 8000000000024 false]).
Proof. vm_compute. repeat split; reflexivity. Qed.

Lemma repaired_vec_witness :
  (let '(r, m', v') := push_many 2000 w_cap w_mem (mkVec 1 1 40 8) in
   r = ROk /\ vlen v' = 2001 /\ vcap v' = 2048 /\ vcharged v' = vec_bytes v' /\ held m' = held w_mem + 2047 * 8) /\
  (let '(r, m', v', _) := op_vec_reserve w_cap w_mem (mkVec 1 1 40 8) 131072 in r = ROom /\ m' = w_mem) /\
  fst (fst (fst (op_vec_reserve w_cap w_mem (mkVec 1 1 40 8) (-1)))) = RTypeErr /\
  fst (fst (fst (op_vec_reserve w_cap w_mem (mkVec 1 1 40 8) 1000000000000))) = ROom.
Proof. vm_compute. repeat split; reflexivity. Qed.

Lemma repaired_string_witness :
  op_repeat w_cap w_mem 16 100000 = (ROom, w_mem, [ECheck 1600024 false]) /\
  fst (fst (op_repeat w_cap w_mem 16 100000000000)) = ROom /\
  op_pad w_cap w_mem 16 16 1 (-1) = (ROk, w_mem, []) /\
  op_pad w_cap w_mem 16 16 1 100000000000000 = (ROom, w_mem, [ECheck 100000000000024 false]) /\
  (* a three-byte pad character: 400 000 characters are 1.2 MB *)
  op_pad w_cap w_mem 16 16 3 400016 = (ROom, w_mem, [ECheck 1200040 false]).
Proof. vm_compute. repeat split; reflexivity. Qed.
(* ---- the executable loops of the tie (Model/HeapLimitObs.v) *)
Definition cont (cap : N) (k : N) (st : res * mem * vecst) := N.iter k (push_step cap) st.

Lemma cont_add cap a b st : cont cap (a + b) st = cont cap a (cont cap b st).
Proof. unfold cont. apply N.iter_add. Qed.

Lemma push_step_not_ok cap r m v : r <> ROk -> push_step cap (r, m, v) = (r, m, v).
Proof. intro H. unfold push_step. destruct r; congruence. Qed.

Lemma cont_not_ok cap k r m v : r <> ROk -> cont cap k (r, m, v) = (r, m, v).
Proof.
  intro H. unfold cont. induction k using N.peano_ind; [reflexivity|].
  rewrite N.iter_succ, IHk. apply push_step_not_ok; assumption.
Qed.

(* pushes that fit the capacity only move the length *)
Lemma cont_within cap m v k : vlen v + k <= vcap v -> cont cap k (ROk, m, v) = (ROk, m, push_jump v k).
Proof.
  unfold cont. induction k using N.peano_ind; intro H.
  - cbn. unfold push_jump. destruct v; cbn. rewrite N.add_0_r. reflexivity.
  - rewrite N.iter_succ, IHk by lia.
    unfold push_step, op_vec_push, vec_grow, push_jump. cbn.
    destruct (1 <=? vcap v - (vlen v + k)) eqn:E; [|lia]. cbn.
    replace (vlen v + k + 1) with (vlen v + N.succ k) by lia. reflexivity.
Qed.

Lemma fast_step_inv cap n0 st0 n st :
  cont cap n0 st0 = cont cap n st ->
  let '(n', st') := fast_step cap (n, st) in cont cap n0 st0 = cont cap n' st'.
Proof.
  intro H. destruct st as [[r m] v]. unfold fast_step.
  destruct r; try (rewrite H; rewrite cont_not_ok by discriminate; reflexivity).
  destruct (n =? 0) eqn:E0; [exact H|].
  destruct (vlen v <? vcap v) eqn:E1.
  - set (k := N.min n (vcap v - vlen v)).
    rewrite H. replace n with ((n - k) + k) at 1 by lia.
    rewrite cont_add. rewrite (cont_within cap m v k) by lia. reflexivity.
  - rewrite H. replace n with ((n - 1) + 1) at 1 by lia.
    rewrite cont_add. reflexivity.
Qed.

Lemma fast_iter_inv cap n0 st0 b : forall n st,
  cont cap n0 st0 = cont cap n st ->
  let '(n', st') := N.iter b (fast_step cap) (n, st) in cont cap n0 st0 = cont cap n' st'.
Proof.
  induction b using N.peano_ind; intros n st H.
  - cbn. exact H.
  - rewrite N.iter_succ. specialize (IHb n st H).
    destruct (N.iter b (fast_step cap) (n, st)) as [n1 st1].
    apply (fast_step_inv cap n0 st0 n1 st1 IHb).
Qed.

Lemma push_fast_correct bound n cap m v r :
  push_fast bound n cap m v = (0, r) -> push_many_n n cap m v = r.
Proof.
  unfold push_fast, push_many_n. intro H.
  pose proof (fast_iter_inv cap n (ROk, m, v) bound n (ROk, m, v) eq_refl) as K.
  rewrite H in K. exact K.
Qed.

(* ---- the loops used by the tie keep the invariant *)
Definition vst_ok (st : res * mem * vecst) : Prop :=
  let '(_, m, v) := st in Inv m /\ vcharged v = vec_bytes v /\ vlen v <= vcap v.

Lemma push_step_ok cap st : vst_ok st -> vst_ok (push_step cap st).
Proof.
  destruct st as [[r m] v]. intros (HI & Hc & Hl). unfold push_step.
  destruct r; try (repeat split; assumption).
  pose proof (vec_push_step cap m v HI Hc Hl) as H.
  destruct (op_vec_push cap m v) as [[[r2 m2] v2] t]. destruct H as ((A & _ & _) & _ & C & _ & E & K).
  destruct r2; try (destruct (K ltac:(discriminate)) as [-> ->]; repeat split; assumption).
  destruct (E eq_refl) as [_ L]. repeat split; assumption.
Qed.

Lemma push_many_n_ok n cap m v : Inv m -> vcharged v = vec_bytes v -> vlen v <= vcap v -> vst_ok (push_many_n n cap m v).
Proof.
  intros HI Hc Hl. unfold push_many_n. induction n using N.peano_ind.
  - cbn. repeat split; assumption.
  - rewrite N.iter_succ. apply push_step_ok. exact IHn.
Qed.

Lemma alloc_seq_inv l : forall m, Inv m -> Inv (snd (alloc_seq m l)) /\ maxb (snd (alloc_seq m l)) = maxb m.
Proof.
  induction l as [|[a ch] r IH]; intros m HI; cbn [alloc_seq]; [split; auto|].
  destruct (ensure m a) eqn:E; [|split; auto].
  apply ensure_sound in E. destruct ch.
  - assert (HI' : Inv (add_heap m a)) by (unfold Inv in *; cbn [add_heap heap manual maxb]; lia).
    destruct (IH _ HI') as [A B]. split; [exact A | rewrite B; reflexivity].
  - apply IH; assumption.
Qed.

Lemma loop_step_ok cap allocs st : vst_ok st -> vst_ok (loop_step cap allocs st).
Proof.
  destruct st as [[r m] v]. intros (HI & Hc & Hl). unfold loop_step.
  destruct r; try (repeat split; assumption).
  pose proof (alloc_seq_inv allocs m HI) as [A _].
  destruct (alloc_seq m allocs) as [r1 m1]. cbn [snd] in A.
  destruct r1; try (repeat split; assumption).
  apply push_step_ok. repeat split; assumption.
Qed.

Lemma loop_run_ok n cap allocs m v : Inv m -> vcharged v = vec_bytes v -> vlen v <= vcap v -> vst_ok (loop_run n cap allocs m v).
Proof.
  intros HI Hc Hl. unfold loop_run. induction n using N.peano_ind.
  - cbn. repeat split; assumption.
  - rewrite N.iter_succ. apply loop_step_ok. exact IHn.
Qed.

(* repeated s = s + s with the collector: the budget invariant holds at every step, and garbage never exceeds the heap *)
Definition cst_ok (c : cst) : Prop := Inv (c_mem c) /\ c_garbage c + c_cur c <= heap (c_mem c).
Lemma concat_step_ok st : cst_ok (snd st) -> cst_ok (snd (concat_step st)).
Proof.
  destruct st as [r c]. cbn [snd]. intros [HI Hg]. unfold concat_step.
  destruct r; try (split; assumption).
  unfold cst_ok, Inv in *.
  destruct (c_next c <=? heap (c_mem c)) eqn:En.
  - destruct (ensure (mkMem (heap (c_mem c) - c_garbage c) (manual (c_mem c)) (maxb (c_mem c))) (SZ_STRING + 2 * c_len c)) eqn:E.
    + apply ensure_sound in E. cbn [snd c_mem c_garbage c_cur add_heap heap manual maxb] in *. lia.
    + cbn [snd c_mem c_garbage c_cur heap manual maxb]. lia.
  - destruct (ensure (c_mem c) (SZ_STRING + 2 * c_len c)) eqn:E.
    + apply ensure_sound in E. cbn [snd c_mem c_garbage c_cur add_heap heap manual maxb] in *. lia.
    + cbn [snd c_mem c_garbage c_cur]. lia.
Qed.
Lemma concat_gc_ok n m sl : Inv m -> cst_ok (snd (concat_gc n m sl)).
Proof.
  intro HI. unfold concat_gc. induction n using N.peano_ind.
  - cbn. split; [exact HI | cbn; lia].
  - rewrite N.iter_succ. apply concat_step_ok. exact IHn.
Qed.


(* closure churn with the collector: the budget invariant holds at every step; what a collection subtracts (garbage)
   and what the last iteration left never exceed the heap *)
Lemma alloc_seq_mono l : forall m, heap m <= heap (snd (alloc_seq m l)) /\ manual (snd (alloc_seq m l)) = manual m.
Proof.
  induction l as [|[a ch] r IH]; intros m; cbn [alloc_seq]; [split; cbn; lia|].
  destruct (ensure m a); [|split; cbn; lia].
  destruct ch.
  - destruct (IH (add_heap m a)) as [A B]. cbn [add_heap heap manual] in *. split; [lia | exact B].
  - apply IH.
Qed.
Definition chst_ok (c : chst) : Prop := Inv (h_mem c) /\ h_garbage c + h_last c <= heap (h_mem c).
Lemma churn_step_ok allocs st : chst_ok (snd st) -> chst_ok (snd (churn_step allocs st)).
Proof.
  destruct st as [r c]. cbn [snd]. intros [HI Hg]. unfold churn_step.
  destruct r; try (split; assumption).
  set (m1g := if h_next c <=? heap (h_mem c)
              then (mkMem (heap (h_mem c) - h_garbage c) (manual (h_mem c)) (maxb (h_mem c)), 0, N.max (GC_GROWTH_FACTOR * (heap (h_mem c) - h_garbage c)) INITIAL_GC_THRESHOLD)
              else (h_mem c, h_garbage c, h_next c)).
  assert (K : let '(m1, g1, _) := m1g in Inv m1 /\ g1 + h_last c <= heap m1).
  { unfold m1g. destruct (h_next c <=? heap (h_mem c)); unfold Inv in *; cbn [heap manual maxb]; split; lia. }
  destruct m1g as [[m1 g1] nx1]. destruct K as [HI1 Hg1].
  pose proof (alloc_seq_inv allocs m1 HI1) as [A _]. pose proof (alloc_seq_mono allocs m1) as [B _].
  destruct (alloc_seq m1 allocs) as [r2 m2]. cbn [snd] in A, B.
  destruct r2; cbn [snd]; unfold chst_ok; cbn [h_mem h_garbage h_last]; (split; [exact A | lia]).
Qed.
Lemma churn_run_ok n allocs m : Inv m -> chst_ok (snd (churn_run n allocs m)).
Proof.
  intro HI. unfold churn_run. induction n using N.peano_ind.
  - cbn. split; [exact HI | cbn; lia].
  - rewrite N.iter_succ. apply churn_step_ok. exact IHn.
Qed.

(* ---- exact answers, and no panic / abort *)
Lemma array_exact cap e m n : maxb m < U64 -> Inv m -> maxb m <= cap ->
  let '(r, m', t) := op_array cap e m n in
  (r = ROk <-> (0 <= n)%Z /\ held m + SZ_ARRAY + Z.to_N n * e <= maxb m) /\
  (r = ROk -> held m' = held m + SZ_ARRAY + Z.to_N n * e) /\ r <> RAbort /\ r <> RPanic.
Proof.
  intros Hx HI Hcap. unfold Inv, held in *. unfold op_array.
  destruct (n <? 0)%Z eqn:En; [repeat split; intros; try discriminate; try lia; destruct H; lia|].
  destruct (U64 <=? SZ_ARRAY + Z.to_N n * e) eqn:Eu; [repeat split; intros; try discriminate; try lia; destruct H; lia|].
  destruct (ensure m (SZ_ARRAY + Z.to_N n * e)) eqn:E.
  - apply ensure_sound in E. unfold host_ok. destruct (Z.to_N n * e <=? cap) eqn:Eh; [|lia].
    cbn [add_heap heap manual maxb]. repeat split; intros; try discriminate; lia.
  - repeat split; intros; try discriminate; try lia.
    destruct H as [H1 H2]. rewrite ensure_complete in E; [discriminate | assumption | lia].
Qed.

Lemma string_checked_exact cap m total : maxb m <= ISIZE_MAX -> Inv m -> maxb m <= cap ->
  let '(r, m', t) := op_string_checked cap m total in
  (r = ROk <-> held m + SZ_STRING + total <= maxb m) /\
  (r = ROk -> held m' = held m + SZ_STRING + total) /\ r <> RAbort /\ r <> RPanic.
Proof.
  intros Hx HI Hcap. assert (Hu : maxb m < U64) by (unfold U64, ISIZE_MAX in *; lia).
  unfold Inv, held in *. unfold op_string_checked.
  destruct (ISIZE_MAX <? total) eqn:Ei.
  - repeat split; intros; try discriminate; exfalso; lia.
  - destruct (ensure m (SZ_STRING + total)) eqn:E.
    + apply ensure_sound in E. unfold host_ok. destruct (total <=? cap) eqn:Eh; [|lia].
      cbn [add_heap heap manual maxb]. repeat split; intros; try discriminate; lia.
    + repeat split; intros; try discriminate; try lia.
      rewrite ensure_complete in E; [discriminate | assumption | lia].
Qed.

(* no primitive of the model answers with a panic; with a host that can grant three times the limit (the transient of
   pad_left) and MAX_ALLOC, none aborts *)
Lemma gstep_never_panics cap m o : fst (fst (gstep cap m o)) <> RPanic.
Proof.
  destruct o as [len | size | n | b | sz | e n | v | v a | sl n | sc sb pb w | n | total]; cbn [gstep].
  - unfold op_string. destruct (ensure m (SZ_STRING + len)); discriminate.
  - unfold op_object. destruct (ensure m size); discriminate.
  - unfold op_manual. destruct (n <? 0)%Z; [discriminate|]. destruct (checked_mul (Z.to_N n) SZ_VALUE); [|discriminate].
    destruct (ensure m n0); [|discriminate]. destruct (n =? 0)%Z; discriminate.
  - discriminate.
  - discriminate.
  - unfold op_array. destruct (n <? 0)%Z; [discriminate|]. destruct (U64 <=? SZ_ARRAY + Z.to_N n * e); [discriminate|].
    destruct (ensure m (SZ_ARRAY + Z.to_N n * e)); [|discriminate]. destruct (host_ok cap (Z.to_N n * e)); discriminate.
  - assert (G : forall add, fst (fst (fst (vec_grow cap m v add))) <> RPanic).
    { intro add. unfold vec_grow. repeat match goal with |- context [if ?c then _ else _] => destruct c end; discriminate. }
    unfold op_vec_push. specialize (G 1). destruct (vec_grow cap m v 1) as [[[r m'] v'] t]. cbn [fst] in *. destruct r; cbn [fst]; congruence.
  - unfold op_vec_reserve. destruct (a <? 0)%Z; [discriminate|].
    assert (G : fst (fst (fst (vec_grow cap m v (Z.to_N a)))) <> RPanic).
    { unfold vec_grow. repeat match goal with |- context [if ?c then _ else _] => destruct c end; discriminate. }
    destruct (vec_grow cap m v (Z.to_N a)) as [[[r m'] v'] t]. exact G.
  - unfold op_repeat, op_string. repeat match goal with |- context [if ?c then _ else _] => destruct c end; discriminate.
  - unfold op_pad. repeat match goal with |- context [if ?c then _ else _] => destruct c end; discriminate.
  - unfold op_bytes, op_bytes_gen. repeat match goal with |- context [if ?c then _ else _] => destruct c end; discriminate.
  - unfold op_string_checked. repeat match goal with |- context [if ?c then _ else _] => destruct c end; discriminate.
Qed.
