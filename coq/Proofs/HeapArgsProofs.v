(* C10 -- proofs about Model/HeapArgs.v *)
From Coq Require Import NArith Bool List String Lia.
From Aelys Require Import Extracted.HeapConsts Extracted.HeapArgs Model.HeapArgs.
Import ListNotations.
Local Open Scope N_scope.

(* which flags may touch the limit: only max-heap *)
Lemma apply_flag_max st f st' : apply_flag st f = Some st' ->
  c_max (fst st') = match f with FMaxHeap (Some b) => b | _ => c_max (fst st) end.
Proof.
  destruct st as [c tr]. destruct f as [[b|] | v | v | v | v | | fs net ex k | fs net ex k | |]; cbn [apply_flag]; intro H;
    try discriminate; try (injection H as <-; reflexivity).
  destruct (b <? MIN_HEAP_BYTES); [discriminate|]. injection H as <-. reflexivity.
Qed.
Lemma apply_flags_max l : forall st st', apply_flags st l = Some st' -> c_max (fst st') = last_max l (c_max (fst st)).
Proof.
  induction l as [|f r IH]; intros st st' H; cbn [apply_flags] in H.
  - injection H as <-. reflexivity.
  - destruct (apply_flag st f) as [st1|] eqn:E; [|discriminate].
    rewrite (IH st1 st' H). rewrite (apply_flag_max st f st1 E).
    destruct f as [[b|] | | | | | | | | |]; reflexivity.
Qed.
Lemma finalize_max st : c_max (finalize st) = c_max (fst st).
Proof. destruct st as [c tr]. cbn [finalize fst]. destruct tr; reflexivity. Qed.

(* whatever else is on the command line, in whatever order: the limit in force is the last max-heap flag *)
Lemma parse_args_limit l c : parse_args l = Some c -> c_max c = last_max l DEFAULT_MAX_HEAP_BYTES.
Proof.
  unfold parse_args. destruct (apply_flags (cfg_default, false) l) as [st|] eqn:E; [|discriminate].
  destruct (c_max (finalize st) <? MIN_HEAP_BYTES); [discriminate|]. intro H. injection H as <-.
  rewrite finalize_max. exact (apply_flags_max l _ _ E).
Qed.
(* flags other than max-heap can be added, removed or moved without changing the limit *)
Definition is_max (f : flag) : bool := match f with FMaxHeap _ => true | _ => false end.
Lemma last_max_filter l : forall acc, last_max l acc = last_max (filter is_max l) acc.
Proof.
  induction l as [|f r IH]; intro acc; [reflexivity|].
  destruct f as [[b|] | | | | | | | | |]; cbn [filter is_max last_max]; apply IH.
Qed.
Lemma parse_args_limit_only_max_heap l1 l2 c1 c2 :
  filter is_max l1 = filter is_max l2 -> parse_args l1 = Some c1 -> parse_args l2 = Some c2 -> c_max c1 = c_max c2.
Proof.
  intros F H1 H2. rewrite (parse_args_limit l1 c1 H1), (parse_args_limit l2 c2 H2).
  rewrite (last_max_filter l1), (last_max_filter l2), F. reflexivity.
Qed.
(* a successful parse never yields a limit below the minimum *)
Lemma parse_args_min l c : parse_args l = Some c -> MIN_HEAP_BYTES <= c_max c.
Proof.
  unfold parse_args. destruct (apply_flags (cfg_default, false) l) as [st|]; [|discriminate].
  destruct (c_max (finalize st) <? MIN_HEAP_BYTES) eqn:E; [discriminate|]. intro H. injection H as <-. apply N.ltb_ge in E. exact E.
Qed.

(* the table regenerated from the source: among the -ae. keys only max-heap assigns max_heap_bytes; the outer flags and the
   trusted finalizer assign neither max_heap_bytes nor the configuration as a whole *)
Definition writes_limit (ws : list string) : bool :=
  existsb (fun w => String.eqb w "max_heap_bytes" || String.eqb w "*") ws.
Definition args_table_ok : bool :=
  forallb (fun r => Bool.eqb (writes_limit (snd r)) (String.eqb (fst r) "max-heap")) arg_writes &&
  forallb (fun r => negb (writes_limit (snd r))) outer_writes &&
  negb (writes_limit trusted_finalizer_writes) &&
  existsb (fun r => String.eqb (fst r) "max-heap") arg_writes.
Lemma args_table_as_modelled : args_table_ok = true.
Proof. vm_compute. reflexivity. Qed.
