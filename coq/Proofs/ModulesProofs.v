(* C19 -- proofs about the loader model (Model/Modules.v) against Model/ModulesSpec.v. *)
From Aelys Require Import Base.Tactics Model.Modules Model.ModulesSpec Model.ModulesObs.
Local Open Scope N_scope.

(* ---------------------------------------------------------------- basics *)
Lemma key_eqb_eq : forall a b, key_eqb a b = true <-> a = b.
Proof.
  induction a as [|x a IH]; destruct b as [|y b]; cbn; split; intro H; try congruence; try discriminate.
  - apply andb_true_iff in H as [H1 H2]. apply N.eqb_eq in H1. apply IH in H2. congruence.
  - inversion H; subst. apply andb_true_iff; split; [apply N.eqb_refl | apply IH; reflexivity].
Qed.
Lemma key_eqb_refl : forall a, key_eqb a a = true.
Proof. intro; apply key_eqb_eq; reflexivity. Qed.
Lemma key_eqb_neq : forall a b, key_eqb a b = false <-> a <> b.
Proof.
  intros; split; intro H.
  - intro E; apply key_eqb_eq in E; congruence.
  - destruct (key_eqb a b) eqn:E; [apply key_eqb_eq in E; contradiction | reflexivity].
Qed.

Lemma mem_key_In : forall k l, mem_key k l = true <-> In k l.
Proof.
  induction l as [|x l IH]; cbn; [split; [discriminate | tauto]|].
  rewrite orb_true_iff, IH, key_eqb_eq. split; intros [H|H]; auto.
Qed.
Lemma mem_key_false : forall k l, mem_key k l = false <-> ~ In k l.
Proof.
  intros; rewrite <- mem_key_In. destruct (mem_key k l); split; intro; congruence.
Qed.

Lemma lookup_cons_eq : forall A k (v : A) l, lookup k ((k, v) :: l) = Some v.
Proof. intros; cbn; rewrite key_eqb_refl; reflexivity. Qed.
Lemma lookup_cons_neq : forall A k k' (v : A) l, k <> k' -> lookup k ((k', v) :: l) = lookup k l.
Proof. intros A k k' v l H; cbn. apply key_eqb_neq in H. rewrite H; reflexivity. Qed.
Lemma lookup_In : forall A k (v : A) l, lookup k l = Some v -> In (k, v) l.
Proof.
  induction l as [|[k' v'] l IH]; cbn; [discriminate|].
  destruct (key_eqb k k') eqn:E; intro H.
  - apply key_eqb_eq in E; inversion H; subst; auto.
  - auto.
Qed.

(* ---------------------------------------------------------------- resolution facts *)
Lemma try_path_find : forall fs r c f, try_path fs r c = RFound f -> exists m, find_file fs f = Some m.
Proof.
  unfold try_path; intros fs r c f. destruct (find_file fs c) eqn:E; [| discriminate].
  destruct (is_prefix r c); [| discriminate]. intro H; inversion H; subst; eauto.
Qed.

Lemma resolve_in_find : forall fs d p f, resolve_in fs d p = RFound f -> exists m, find_file fs f = Some m.
Proof.
  unfold resolve_in; intros fs d p f.
  destruct (try_path fs d (canon fs (d ++ p))) eqn:E1; try discriminate.
  - intro H; inversion H; subst. eapply try_path_find; eauto.
  - apply try_path_find.
Qed.

Lemma search_find : forall fs r b p f, search fs r b p = Some f -> exists m, find_file fs f = Some m.
Proof.
  unfold search; intros fs r b p f.
  destruct (resolve_in fs b p) eqn:E1.
  - intro H; inversion H; subst. eapply resolve_in_find; eauto.
  - destruct (key_eqb b r); [discriminate|]. destruct (resolve_in fs r p) eqn:E2; try discriminate.
    intro H; inversion H; subst. eapply resolve_in_find; eauto.
  - destruct (key_eqb b r); [discriminate|]. destruct (resolve_in fs r p) eqn:E2; try discriminate.
    intro H; inversion H; subst. eapply resolve_in_find; eauto.
Qed.

Lemma resolve_direct_find : forall fs r b p f, resolve_direct fs r b p = Some f -> exists m, find_file fs f = Some m.
Proof.
  unfold resolve_direct; intros fs r b p f.
  destruct (lookup p (hints fs)) as [ex|]; [| apply search_find].
  destruct (follow fs b ex) as [c|]; [| apply search_find].
  destruct (try_path fs b c) eqn:Et; [| discriminate | apply search_find].
  intro H; inversion H; subst. eapply try_path_find; eauto.
Qed.

Lemma resolve_fb_shape : forall fs r b p f a s, resolve_fb fs r b p = Some (f, a, s) ->
  (exists m, find_file fs f = Some m) /\
  ((resolve_direct fs r b p = Some f /\ a = p /\ s = None) \/
   (resolve_direct fs r b p = None /\ a = removelast p /\ s = Some (last_seg p) /\ a <> [])).
Proof.
  unfold resolve_fb; intros fs r b p f a s.
  destruct (resolve_direct fs r b p) eqn:E1.
  - intro H; inversion H; subst. split; [eapply resolve_direct_find; eauto | auto].
  - destruct p as [|x [|y t]]; try discriminate.
    destruct (resolve_direct fs r b (removelast (x :: y :: t))) eqn:E2; try discriminate.
    intro H; inversion H; subst. split; [eapply resolve_direct_find; eauto|].
    right. repeat split; auto. cbn. discriminate.
Qed.

(* ================================================================ no divergence (any tree) *)
Definition has_key {A} (k : key) (l : list (key * A)) : Prop := lookup k l <> None.

Lemma has_key_cons : forall A k k' (v : A) l, has_key k l -> has_key k ((k', v) :: l).
Proof.
  unfold has_key; intros A k k' v l H. cbn. destruct (key_eqb k k'); [discriminate | exact H].
Qed.

Definition all_files (fs : fsys) : list fpath := map fst (files fs).

Record dinv (fs : fsys) (st : lstate) : Prop := {
  d_nodup : NoDup (stack st);
  d_incl : incl (stack st) (all_files fs);
  d_loaded : forall k, In k (stack st) -> has_key k (loaded st)
}.

Definition dpost {A} (st : lstate) (r : res (lstate * A)) : Prop :=
  match r with
  | Ok (st', _) => stack st' = stack st /\ (forall k, has_key k (loaded st) -> has_key k (loaded st'))
  | Err _ _ => True
  | Fuel => False
  end.

Definition dgood (fs : fsys) (ld : loader) (n : nat) : Prop :=
  forall j s, dinv fs s -> (n + length (stack s) > length (all_files fs))%nat -> dpost s (ld j s).

Lemma dinv_step : forall fs s s', dinv fs s -> stack s' = stack s ->
  (forall k, has_key k (loaded s) -> has_key k (loaded s')) -> dinv fs s'.
Proof.
  intros fs s s' [H1 H2 H3] Hs Hl. split; rewrite Hs; auto.
Qed.

Lemma go_mod_d : forall fs root ld n imps s acc,
  dgood fs ld n -> dinv fs s -> (n + length (stack s) > length (all_files fs))%nat ->
  dpost s (go_mod fs root ld imps s acc).
Proof.
  intros fs root ld n imps; induction imps as [|j r IH]; intros s acc Hld Hinv Hf; cbn.
  - split; auto.
  - pose proof (Hld j s Hinv Hf) as Hj.
    destruct (ld j s) as [[s' lr]| |]; cbn in Hj; [| exact I | contradiction].
    destruct Hj as [Hs Hl].
    assert (Hinv' : dinv fs s') by (eapply dinv_step; eauto).
    assert (Hf' : (n + length (stack s') > length (all_files fs))%nat) by (rewrite Hs; exact Hf).
    pose proof (IH s' (contrib_mod acc j lr (module_for fs root (base s') j (loaded s'))) Hld Hinv' Hf') as Hr.
    destruct (go_mod fs root ld r s' _) as [[s2 a2]| |]; cbn in *; auto.
    destruct Hr as [Hs2 Hl2]. split; [congruence | auto].
Qed.

Lemma compile_d : forall fs root ld n file eimp m st,
  dgood fs ld n -> In file (all_files fs) -> lookup file (loaded st) = None ->
  dinv fs st -> (S n + length (stack st) > length (all_files fs))%nat ->
  dpost st (compile fs root ld file eimp m st).
Proof.
  intros fs root ld n file eimp m st Hld Ha Hnl Hinv Hf.
  unfold compile.
  set (info := {| mi_file := file; mi_exports := pub_names m; mi_name := _ |}).
  set (st1 := {| loaded := (file, info) :: loaded st; stack := file :: stack st;
                 base := dir_of file; ns := ns st; events := events st |}).
  assert (Hni : ~ In file (stack st)).
  { intro Hin. apply (d_loaded _ _ Hinv) in Hin. unfold has_key in Hin. congruence. }
  assert (Hinv1 : dinv fs st1).
  { split; cbn.
    - constructor; [exact Hni | apply (d_nodup _ _ Hinv)].
    - intros k [<-|Hk]; [exact Ha | apply (d_incl _ _ Hinv); exact Hk].
    - intros k [<-|Hk]; unfold has_key.
      + rewrite lookup_cons_eq; discriminate.
      + apply has_key_cons. apply (d_loaded _ _ Hinv); exact Hk. }
  assert (Hf1 : (n + length (stack st1) > length (all_files fs))%nat) by (cbn; lia).
  pose proof (go_mod_d fs root ld n (m_imports m) st1 ([], []) Hld Hinv1 Hf1) as Hg.
  destruct (go_mod fs root ld (m_imports m) st1 ([], [])) as [[st2 acc]| |]; cbn in Hg; [| exact I | contradiction].
  destruct Hg as [Hs Hl].
  match goal with |- context [bind_exports ?a ?b ?c] => destruct (bind_exports a b c) end; cbn; [| exact I].
  split.
  - rewrite Hs; reflexivity.
  - intros k Hk. apply Hl. cbn. apply has_key_cons; exact Hk.
Qed.

Lemma load_step_d : forall fs root ld n, dgood fs ld n -> dgood fs (load_step fs root ld) (S n).
Proof.
  intros fs root ld n Hld i st Hinv Hf. unfold load_step. cbv zeta.
  destruct (i_path i) as [|x p']; [exact I|].
  destruct (is_std (x :: p')); [cbn; auto|].
  destruct (resolve_fb fs root (base st) (x :: p')) as [[[file actual] sym]|] eqn:Er; [| exact I].
  apply resolve_fb_shape in Er as [[m Hm] _].
  destruct (mem_key file (stack st)); [exact I|].
  destruct (lookup file (loaded st)) as [info|] eqn:El.
  - match goal with |- context [bind_exports ?a ?b ?c] => destruct (bind_exports a b c) end; cbn; auto.
  - rewrite Hm. eapply compile_d; eauto.
    apply lookup_In in Hm. unfold all_files. change file with (fst (file, m)). apply in_map; exact Hm.
Qed.

Lemma load_d : forall fs root n, dgood fs (load fs root n) n.
Proof.
  intros fs root n; induction n as [|n IH].
  - intros j s Hinv Hf. exfalso.
    pose proof (NoDup_incl_length (d_nodup _ _ Hinv) (d_incl _ _ Hinv)). cbn in Hf. lia.
  - cbn [load]. apply load_step_d; exact IH.
Qed.

Lemma entry_go_d : forall fs root n imps s acc orig,
  dinv fs s -> (n + length (stack s) > length (all_files fs))%nat ->
  entry_go fs root n imps s acc orig <> Fuel.
Proof.
  intros fs root n imps; induction imps as [|j r IH]; intros s acc orig Hinv Hf; cbn; [discriminate|].
  pose proof (load_d fs root n j s Hinv Hf) as Hj.
  destruct (load fs root n j s) as [[s' lr]| |]; cbn in Hj; [| discriminate | contradiction].
  destruct Hj as [Hs Hl].
  destruct (contrib_entry acc orig j lr _) as [[acc' orig']|]; [| discriminate].
  apply IH.
  - eapply dinv_step; eauto.
  - rewrite Hs; exact Hf.
Qed.

Lemma no_divergence_lemma : forall fs entry fuel,
  (fuel >= fuel_bound fs)%nat -> run fs entry fuel <> Fuel.
Proof.
  intros fs entry fuel Hf. unfold run.
  destruct (find_file fs entry) as [m|] eqn:Em; [| discriminate].
  pose proof (entry_go_d fs (dir_of entry) fuel (m_imports m) (init_state entry) ([], []) []) as H.
  destruct (entry_go fs (dir_of entry) fuel (m_imports m) (init_state entry) ([], []) []) as [[st acc]| |]; try discriminate.
  exfalso. apply H; auto.
  - split; cbn; [constructor | intros k [] | intros k []].
  - cbn. unfold fuel_bound, all_files in *. rewrite map_length. lia.
Qed.

(* ================================================================ the DFS is right, for every tree *)
Lemma app_snoc_split : forall A (l : list A) x l1 g l2,
  l ++ [x] = l1 ++ g :: l2 ->
  (l2 = [] /\ l1 = l /\ g = x) \/ (exists l2', l2 = l2' ++ [x] /\ l = l1 ++ g :: l2').
Proof.
  intros A l x l1 g l2. destruct l2 as [|y l2' _] using rev_ind; intro H.
  - left. apply app_inj_tail in H as [H1 H2]. auto.
  - right. exists l2'. replace (l1 ++ g :: l2' ++ [y]) with ((l1 ++ g :: l2') ++ [y]) in H
      by (rewrite <- app_assoc; reflexivity).
    apply app_inj_tail in H as [H1 H2]. subst; auto.
Qed.

Lemma NoDup_snoc : forall A (l : list A) x, NoDup l -> ~ In x l -> NoDup (l ++ [x]).
Proof.
  induction l as [|y l IH]; intros x Hn Hx; cbn.
  - constructor; [intros [] | constructor].
  - inversion Hn; subst. constructor.
    + intro H. apply in_app_or in H as [H|[H|[]]]; [contradiction | subst; apply Hx; left; reflexivity].
    + apply IH; [assumption | intro; apply Hx; right; assumption].
Qed.

Lemma meaning_cases : forall fs root f i g fm, meaning fs root f i = Some (g, fm) ->
  is_std (i_path i) = false /\ (exists m, find_file fs g = Some m) /\
  ((resolve_direct fs root (dir_of f) (i_path i) = Some g /\ fm = i_form i) \/
   (resolve_direct fs root (dir_of f) (i_path i) = None /\ fm = FSymbols [last_seg (i_path i)])).
Proof.
  unfold meaning; intros fs root f i g fm.
  destruct (is_std (i_path i)); [discriminate|].
  destruct (resolve_fb fs root (dir_of f) (i_path i)) as [[[g' a] s]|] eqn:Er; [| discriminate].
  apply resolve_fb_shape in Er as [Hm [(Hd & -> & ->)|(Hd & -> & -> & _)]]; intro H; inversion H; subst; auto.
Qed.

Lemma target_meaning : forall fs root f i g, target fs root f i = Some g <-> exists fm, meaning fs root f i = Some (g, fm).
Proof.
  unfold target; intros fs root f i g. destruct (meaning fs root f i) as [[g' fm]|]; split.
  - intro H; inversion H; eauto.
  - intros [fm' H]; inversion H; reflexivity.
  - discriminate.
  - intros [fm' H]; discriminate.
Qed.

Lemma mem_id_true_In : forall n l, mem_id n l = true -> In n l.
Proof.
  induction l as [|x l IH]; cbn; [discriminate|]. intro H. apply orb_true_iff in H as [H|H].
  - apply N.eqb_eq in H; auto.
  - auto.
Qed.

Lemma check_syms_in : forall l ex s, check_syms l ex s = true -> forall x, In x l -> In x ex.
Proof.
  induction l as [|n r IH]; intros ex s H x Hx; [destruct Hx|]. cbn in H.
  apply andb_true_iff in H as [H1 H2]. destruct Hx as [<-|Hx]; [apply mem_id_true_In; exact H1|].
  destruct (ns_get (GB n) s); [eapply IH; eauto | discriminate].
Qed.

Section Dfs.
Variable fs : fsys.
Variable E : fpath.
Let root := dir_of E.

Definition trace (st : lstate) : list fpath := map ev_file (events st).

Definition info_ok (k : fpath) (info : minfo) : Prop :=
  mi_file info = k /\ exists m', find_file fs k = Some m' /\ mi_exports info = pub_names m'.

Definition ev_ok (ev : event) : Prop :=
  ev_key ev <> [] /\ names_ok fs E ev /\ selected_are_pub fs E (ev_file ev).

Record inv (st : lstate) : Prop := {
  v_nodup : NoDup (stack st);
  v_stack : forall k, In k (stack st) -> has_key k (loaded st);
  v_key : forall k info, lookup k (loaded st) = Some info -> exists f, reachable fs E f /\ edge fs E f k;
  v_done : forall k info, lookup k (loaded st) = Some info -> In k (stack st) \/ In k (trace st);
  v_tnodup : NoDup (trace st);
  v_towner : forall g, In g (trace st) -> has_key g (loaded st) /\ ~ In g (stack st);
  v_post : postorder fs E (trace st);
  v_info : forall k info, lookup k (loaded st) = Some info -> info_ok k info;
  v_evs : forall ev, In ev (events st) -> ev_ok ev
}.

Definition mono (st st' : lstate) : Prop :=
  forall k info, lookup k (loaded st) = Some info -> lookup k (loaded st') = Some info.

Definition frame (st st' : lstate) : Prop :=
  inv st' /\ stack st' = stack st /\ base st' = base st /\ mono st st' /\ (exists ext, trace st' = trace st ++ ext).

(* what a successful load of import i written in file cur guarantees *)
Definition loaded_as (cur : fpath) (i : import) (st' : lstate) : Prop :=
  exists g fm info, meaning fs root cur i = Some (g, fm) /\ In g (trace st') /\
    lookup g (loaded st') = Some info /\
    (forall l s, fm = FSymbols l -> In s l -> In s (mi_exports info)).

Definition lres_spec (cur : fpath) (i : import) : lres :=
  match meaning fs root cur i with
  | Some (_, fm) => lres_of {| i_path := i_path i; i_form := fm |}
  | None => lres_of i
  end.

Definition vpost (cur : fpath) (i : import) (st : lstate) (r : res (lstate * lres)) : Prop :=
  match r with
  | Ok (st', lr) => frame st st' /\ lr = lres_spec cur i /\ (is_std (i_path i) = false -> loaded_as cur i st')
  | _ => True
  end.

Definition vgood (ld : loader) : Prop :=
  forall cur m i st, reachable fs E cur -> find_file fs cur = Some m -> In i (m_imports m) ->
                     inv st -> base st = dir_of cur -> vpost cur i st (ld i st).

Lemma frame_refl : forall st, inv st -> frame st st.
Proof.
  intros st H. split; [exact H|]. split; [reflexivity|]. split; [reflexivity|]. split.
  - intros k info Hk; exact Hk.
  - exists []; rewrite app_nil_r; reflexivity.
Qed.

Lemma frame_trans : forall a b c, frame a b -> frame b c -> frame a c.
Proof.
  intros a b c (Hi1 & Hs1 & Hb1 & Hm1 & [e1 He1]) (Hi2 & Hs2 & Hb2 & Hm2 & [e2 He2]).
  split; [exact Hi2|]. split; [congruence|]. split; [congruence|]. split.
  - intros k info Hk; auto.
  - exists (e1 ++ e2). rewrite He2, He1, app_assoc; reflexivity.
Qed.

Lemma loaded_as_frame : forall cur i a b, frame a b -> loaded_as cur i a -> loaded_as cur i b.
Proof.
  intros cur i a b (_ & _ & _ & Hm & [ext He]) (g & fm & info & Ht & Hin & Hl & Hsy).
  exists g, fm, info. split; [exact Ht|]. split; [rewrite He; apply in_or_app; left; exact Hin|]. auto.
Qed.

Lemma loaded_as_pub : forall st f m, inv st ->
  (forall j, In j (m_imports m) -> is_std (i_path j) = false -> loaded_as f j st) ->
  find_file fs f = Some m -> selected_are_pub fs E f.
Proof.
  intros st f m Hinv Hall Hm m' j Hm' Hj Hstd. rewrite Hm in Hm'; inversion Hm'; subst m'.
  destruct (Hall j Hj Hstd) as (g & fm & info & Hmean & _ & Hl & Hsy).
  destruct (v_info _ Hinv _ _ Hl) as (_ & mg & Hmg & Hex).
  exists g, fm, mg. split; [exact Hmean|]. split; [exact Hmg|]. intros l s Hf Hs. rewrite <- Hex. eauto.
Qed.

Lemma edge_of_meaning : forall cur m i g fm, find_file fs cur = Some m -> In i (m_imports m) ->
  meaning fs root cur i = Some (g, fm) -> edge fs E cur g.
Proof.
  intros cur m i g fm Hm Hi Hmean. exists m, i. split; [exact Hm|]. split; [exact Hi|].
  apply target_meaning. eauto.
Qed.

(* ---- name sets *)
Ltac iff_tac :=
  let HH := fresh "HH" in
  split; intro HH; repeat (destruct HH as [HH|HH]); subst; auto; try discriminate;
  try (inversion HH; subst; auto); try contradiction.

Definition names_spec (f : fpath) (imps : list import) (acc : names) : Prop :=
  (forall q, In q (fst acc) <-> exists j, In j imps /\ granted_qualifier fs root f j = Some q) /\
  (forall n, In n (snd acc) <-> exists j, In j imps /\ In n (granted_bare fs root f j)).

Lemma names_spec_nil : forall f, names_spec f [] ([], []).
Proof. intro f; split; intro x; cbn; (split; [intros [] | intros (j & [] & _)]). Qed.

Lemma names_spec_snoc : forall f done acc j A' K',
  names_spec f done acc ->
  (forall q, In q A' <-> In q (fst acc) \/ granted_qualifier fs root f j = Some q) ->
  (forall n, In n K' <-> In n (snd acc) \/ In n (granted_bare fs root f j)) ->
  names_spec f (done ++ [j]) (A', K').
Proof.
  intros f done acc j A' K' [H1 H2] HA HK. split; cbn [fst snd].
  - intro q. rewrite HA, H1. split.
    + intros [(x & Hx & Hq)|Hq]; [exists x | exists j]; split; auto; apply in_or_app; [left | right; left]; auto.
    + intros (x & Hx & Hq). apply in_app_or in Hx as [Hx|[<-|[]]]; [left; eauto | right; exact Hq].
  - intro n. rewrite HK, H2. split.
    + intros [(x & Hx & Hq)|Hq]; [exists x | exists j]; split; auto; apply in_or_app; [left | right; left]; auto.
    + intros (x & Hx & Hq). apply in_app_or in Hx as [Hx|[<-|[]]]; [left; eauto | right; exact Hq].
Qed.

(* the name sets after one more import, for the module loop (contrib_mod) *)
Lemma contrib_mod_spec : forall f done acc j ld g fm info mg,
  names_spec f done acc ->
  meaning fs root f j = Some (g, fm) -> lookup g ld = Some info -> mi_exports info = pub_names mg ->
  find_file fs g = Some mg -> (forall l, i_form j = FSymbols l -> l <> []) ->
  names_spec f (done ++ [j])
    (contrib_mod acc j (lres_of {| i_path := i_path j; i_form := fm |}) (module_for fs root (dir_of f) j ld)).
Proof.
  intros f done acc j ld g fm info mg Hs Hmean Hl He Hg Hne.
  destruct (meaning_cases _ _ _ _ _ _ Hmean) as (Hstd & _ & [[Hd ->]|[Hd ->]]).
  - (* the path names a module *)
    assert (HG : granted_bare fs root f j =
                 match i_form j with FModule | FWildcard => pub_names mg | FSymbols l => l | FAlias _ => [] end).
    { unfold granted_bare. rewrite Hmean, Hg. reflexivity. }
    assert (HQ : granted_qualifier fs root f j =
                 match i_form j with FModule | FWildcard => Some (last_seg (i_path j)) | FAlias a => Some a | FSymbols _ => None end).
    { unfold granted_qualifier. rewrite Hstd, Hmean. destruct (i_form j); reflexivity. }
    unfold contrib_mod, module_for. rewrite Hd, Hl, He. unfold lres_of. cbn [i_form i_path].
    destruct (i_form j) as [|a|l|] eqn:Ef; cbn [add_lres fst snd];
      apply (names_spec_snoc _ done acc j _ _ Hs); rewrite ?HG, ?HQ; clear HG HQ;
      intro x; cbn [In]; rewrite ?in_app_iff; cbn [In].
    all: try solve [iff_tac].
    iff_tac. right. destruct l as [|y l']; [exfalso; eapply Hne; eauto | left; reflexivity].
  - (* `needs m.s`: one selected symbol *)
    assert (HG : granted_bare fs root f j = [last_seg (i_path j)]).
    { unfold granted_bare. rewrite Hmean, Hg. reflexivity. }
    assert (HQ : granted_qualifier fs root f j = None).
    { unfold granted_qualifier. rewrite Hstd, Hmean. reflexivity. }
    unfold contrib_mod, module_for. rewrite Hd. unfold lres_of. cbn [i_form i_path hd add_lres fst snd].
    apply (names_spec_snoc _ done acc j _ _ Hs); rewrite ?HG, ?HQ; clear HG HQ; intro x; cbn [In fst snd]; iff_tac.
Qed.

Lemma contrib_entry_spec : forall f done acc orig j ld g fm info mg acc' orig',
  names_spec f done acc ->
  meaning fs root f j = Some (g, fm) -> lookup g ld = Some info -> mi_exports info = pub_names mg ->
  find_file fs g = Some mg -> (forall l, i_form j = FSymbols l -> l <> []) ->
  contrib_entry acc orig j (lres_of {| i_path := i_path j; i_form := fm |}) (module_for fs root (dir_of f) j ld)
    = Some (acc', orig') ->
  names_spec f (done ++ [j]) acc'.
Proof.
  intros f done acc orig j ld g fm info mg acc' orig' Hs Hmean Hl He Hg Hne Hc.
  pose proof (contrib_mod_spec f done acc j ld g fm info mg Hs Hmean Hl He Hg Hne) as Hm.
  assert (Heq : acc' = contrib_mod acc j (lres_of {| i_path := i_path j; i_form := fm |}) (module_for fs root (dir_of f) j ld)).
  { unfold contrib_entry, contrib_mod in *.
    destruct (module_for fs root (dir_of f) j ld) as [inf|]; [| inversion Hc; reflexivity].
    destruct (i_form j); try (inversion Hc; reflexivity).
    destruct (inter_nonempty (mi_exports inf) orig); [discriminate | inversion Hc; reflexivity]. }
  rewrite Heq; exact Hm.
Qed.

Lemma go_mod_v : forall ld file m, vgood ld -> reachable fs E file -> find_file fs file = Some m ->
  forall imps done s acc, done ++ imps = m_imports m -> inv s -> base s = dir_of file ->
  (forall j, In j done -> is_std (i_path j) = false -> loaded_as file j s) ->
  (no_std_imports m -> nonempty_symbols m -> names_spec file done acc) ->
  match go_mod fs root ld imps s acc with
  | Ok (s2, acc2) => frame s s2 /\
      (forall j, In j (m_imports m) -> is_std (i_path j) = false -> loaded_as file j s2) /\
      (no_std_imports m -> nonempty_symbols m -> names_spec file (m_imports m) acc2)
  | _ => True
  end.
Proof.
  intros ld file m Hld Hr Hm imps; induction imps as [|j r IH]; intros done s acc Hsplit Hinv Hb Hdone Hacc; cbn.
  - rewrite app_nil_r in Hsplit; subst done. split; [apply frame_refl; exact Hinv | auto].
  - assert (Hjin : In j (m_imports m)) by (rewrite <- Hsplit; apply in_or_app; right; left; reflexivity).
    pose proof (Hld file m j s Hr Hm Hjin Hinv Hb) as Hj.
    destruct (ld j s) as [[s' lr]| |]; cbn in Hj; auto.
    destruct Hj as (Hfr & -> & Htj). pose proof Hfr as (Hi' & Hs' & Hb' & Hm' & He').
    assert (Hb2 : base s' = dir_of file) by congruence.
    assert (Hsplit2 : (done ++ [j]) ++ r = m_imports m) by (rewrite <- app_assoc; exact Hsplit).
    assert (Hdone2 : forall x, In x (done ++ [j]) -> is_std (i_path x) = false -> loaded_as file x s').
    { intros x Hx Hstd. apply in_app_or in Hx as [Hx|[<-|[]]].
      - eapply loaded_as_frame; eauto.
      - auto. }
    assert (Hacc2 : no_std_imports m -> nonempty_symbols m ->
              names_spec file (done ++ [j]) (contrib_mod acc j (lres_spec file j) (module_for fs root (base s') j (loaded s')))).
    { intros Hns Hne. destruct (Htj (Hns j Hjin)) as (g & fm & info & Hmean & _ & Hl & _).
      destruct (v_info _ Hi' _ _ Hl) as (_ & mg & Hmg & Hex).
      unfold lres_spec. rewrite Hmean, Hb2.
      eapply contrib_mod_spec; eauto. }
    pose proof (IH (done ++ [j]) s' _ Hsplit2 Hi' Hb2 Hdone2 Hacc2) as Hrest.
    destruct (go_mod fs root ld r s' _) as [[s2 a2]| |]; auto.
    destruct Hrest as (Hfr2 & Hall & Hnames). split; [eapply frame_trans; eauto | auto].
Qed.

Lemma push_inv : forall cur mc i file fm m st nm,
  reachable fs E cur -> find_file fs cur = Some mc -> In i (m_imports mc) ->
  meaning fs root cur i = Some (file, fm) -> inv st ->
  ~ In file (stack st) -> lookup file (loaded st) = None -> find_file fs file = Some m ->
  inv {| loaded := (file, {| mi_file := file; mi_exports := pub_names m; mi_name := nm |}) :: loaded st;
         stack := file :: stack st; base := dir_of file; ns := ns st; events := events st |}.
Proof.
  intros cur mc i file fm m st nm Hr Hmc Hi Hmean Hinv Hns Hnl Hm.
  pose proof (edge_of_meaning cur mc i file fm Hmc Hi Hmean) as Hedge.
  split; cbn.
  - constructor; [exact Hns | apply (v_nodup _ Hinv)].
  - intros k [<-|Hk]; unfold has_key.
    + rewrite lookup_cons_eq; discriminate.
    + apply has_key_cons, (v_stack _ Hinv), Hk.
  - intros k inf. destruct (key_eqb k file) eqn:Ek.
    + apply key_eqb_eq in Ek; subst k. intros _. eauto.
    + apply (v_key _ Hinv).
  - intros k inf. destruct (key_eqb k file) eqn:Ek.
    + apply key_eqb_eq in Ek; subst k. intros _; left; left; reflexivity.
    + intro H. destruct (v_done _ Hinv k inf H) as [H1|H1]; [left; right; exact H1 | right; exact H1].
  - apply (v_tnodup _ Hinv).
  - intros g Hg. destruct (v_towner _ Hinv g Hg) as (Hk & Hnk).
    assert (g <> file) by (intro; subst g; unfold has_key in Hk; congruence).
    split; [apply has_key_cons; exact Hk | intros [Heq|Hin]; [congruence | contradiction]].
  - apply (v_post _ Hinv).
  - intros k inf. destruct (key_eqb k file) eqn:Ek.
    + apply key_eqb_eq in Ek; subst k. intro H; inversion H; subst inf. split; [reflexivity | exists m; auto].
    + apply (v_info _ Hinv).
  - apply (v_evs _ Hinv).
Qed.

Lemma compile_v : forall ld cur mc i file fm m st,
  vgood ld -> reachable fs E cur -> find_file fs cur = Some mc -> In i (m_imports mc) ->
  meaning fs root cur i = Some (file, fm) -> i_path i <> [] -> inv st -> base st = dir_of cur ->
  ~ In file (stack st) -> lookup file (loaded st) = None -> find_file fs file = Some m ->
  forall eimp, i_form eimp = fm -> i_path eimp <> [] -> lres_of eimp = lres_spec cur i ->
  vpost cur i st (compile fs root ld file eimp m st).
Proof.
  intros ld cur mc i file fm m st Hld Hr Hmc Hi Hmean Hne Hinv Hb Hns Hnl Hm eimp Hef Hep Hlr.
  unfold compile.
  set (info := {| mi_file := file; mi_exports := pub_names m; mi_name := _ |}).
  set (st1 := {| loaded := (file, info) :: loaded st; stack := file :: stack st;
                 base := dir_of file; ns := ns st; events := events st |}).
  assert (Hrf : reachable fs E file) by (eapply r_step; [exact Hr | eapply edge_of_meaning; eauto]).
  assert (Hinv1 : inv st1) by exact (push_inv cur mc i file fm m st _ Hr Hmc Hi Hmean Hinv Hns Hnl Hm).
  pose proof (go_mod_v ld file m Hld Hrf Hm (m_imports m) [] st1 ([], []) eq_refl Hinv1 eq_refl
                (fun j Hj => match Hj with end) (fun _ _ => names_spec_nil _)) as Hg.
  destruct (go_mod fs root ld (m_imports m) st1 ([], [])) as [[st2 acc]| |]; auto.
  destruct Hg as ((Hi2 & Hs2 & Hb2 & Hm2 & [ext Hext]) & Hall & Hnames).
  destruct (bind_exports eimp (pub_names m) (write_defs file m (ns st2))) as [s2|] eqn:Hbind; cbn; auto.
  set (ev := {| ev_file := file; ev_key := i_path eimp; ev_aliases := fst acc; ev_known := _; ev_ns := _ |}).
  set (st' := {| loaded := loaded st2; stack := tl (stack st2); base := base st; ns := s2; events := events st2 ++ [ev] |}).
  assert (Htr : trace st' = trace st2 ++ [file]) by (unfold trace, st'; cbn; rewrite map_app; reflexivity).
  assert (Hstk : stack st' = stack st) by (unfold st'; cbn; rewrite Hs2; reflexivity).
  assert (Hlp : lookup file (loaded st2) = Some info) by (apply Hm2; cbn; apply lookup_cons_eq).
  assert (Hnotin : ~ In file (trace st2)).
  { intro Hin. destruct (v_towner _ Hi2 file Hin) as (_ & Hnk). apply Hnk. rewrite Hs2. left; reflexivity. }
  assert (Hinv' : inv st').
  { split.
    - rewrite Hstk; apply (v_nodup _ Hinv).
    - rewrite Hstk. intros k Hk. unfold st'; cbn. pose proof (v_stack _ Hinv k Hk) as Hh.
      unfold has_key in *. destruct (lookup k (loaded st)) as [inf|] eqn:El; [| contradiction].
      assert (lookup k (loaded st1) = Some inf).
      { cbn. destruct (key_eqb k file) eqn:Ek; [apply key_eqb_eq in Ek; subst; congruence | exact El]. }
      rewrite (Hm2 _ _ H); discriminate.
    - unfold st'; cbn. apply (v_key _ Hi2).
    - rewrite Hstk, Htr. unfold st'; cbn. intros k inf Hl.
      destruct (v_done _ Hi2 k inf Hl) as [Hk|Hk].
      + rewrite Hs2 in Hk. destruct Hk as [<-|Hk]; [| left; exact Hk].
        right. apply in_or_app; right; left; reflexivity.
      + right; apply in_or_app; left; exact Hk.
    - rewrite Htr. apply NoDup_snoc; [apply (v_tnodup _ Hi2) | exact Hnotin].
    - rewrite Hstk, Htr. unfold st'; cbn. intros g Hg. apply in_app_or in Hg as [Hg|[<-|[]]].
      + destruct (v_towner _ Hi2 g Hg) as (Hk & Hnk). split; [exact Hk|].
        intro Hin. apply Hnk. rewrite Hs2. right; exact Hin.
      + split; [unfold has_key; rewrite Hlp; discriminate | exact Hns].
    - rewrite Htr. intros l1 g l2 Heq h Hed.
      apply app_snoc_split in Heq as [(-> & -> & ->)|(l2' & -> & Heq)].
      + destruct Hed as (m' & j & Hm' & Hj & Htj). rewrite Hm in Hm'; inversion Hm'; subst m'.
        apply target_meaning in Htj as [fmj Hmj].
        destruct (meaning_cases _ _ _ _ _ _ Hmj) as (Hstdj & _).
        destruct (Hall j Hj Hstdj) as (g' & fm' & inf & Hg' & Hin & _). fold root in Hmj. congruence.
      + eapply (v_post _ Hi2); eauto.
    - unfold st'; cbn. apply (v_info _ Hi2).
    - unfold st'; cbn. intros e He. apply in_app_or in He as [He|[<-|[]]]; [apply (v_evs _ Hi2); exact He|].
      split; [exact Hep|]. split; [| exact (loaded_as_pub st2 file m Hi2 Hall Hm)].
      intros m' Hm' Hnostd Hnes. cbn in Hm'. rewrite Hm in Hm'; inversion Hm'; subst m'.
      destruct (Hnames Hnostd Hnes) as [HA HK]. split; cbn [ev_aliases ev_known ev ev_file]; [exact HA|].
      intro n. rewrite in_app_iff, HK. reflexivity. }
  split.
  - split; [exact Hinv'|]. split; [exact Hstk|]. split; [reflexivity|]. split.
    + intros k inf Hl. unfold st'; cbn. apply Hm2. cbn.
      destruct (key_eqb k file) eqn:Ek; [apply key_eqb_eq in Ek; subst; congruence | exact Hl].
    + exists (ext ++ [file]). change (trace st' = trace st ++ ext ++ [file]). rewrite Htr, Hext. unfold st1, trace; cbn. rewrite app_assoc; reflexivity.
  - split; [exact Hlr|]. intros _. exists file, fm, info. split; [exact Hmean|].
    split; [change (In file (trace st')); rewrite Htr; apply in_or_app; right; left; reflexivity|].
    split; [exact Hlp|].
    (* the selected symbols were checked against the exports by register_exports *)
    intros l s Hfm Hs. unfold bind_exports in Hbind. rewrite Hef, Hfm in Hbind.
    destruct (check_syms l (pub_names m) (write_defs file m (ns st2))) eqn:Hc; [| discriminate].
    cbn. eapply check_syms_in; eauto.
Qed.

Lemma load_step_v : forall ld, vgood ld -> vgood (load_step fs root ld).
Proof.
  intros ld Hld cur mc i st Hr Hmc Hi Hinv Hb. unfold load_step. cbv zeta.
  remember (i_path i) as p eqn:Ep in |- *. symmetry in Ep. destruct p as [|x p']; [exact I|].
  destruct (is_std (x :: p')) eqn:Estd.
  { cbn. split; [apply frame_refl; exact Hinv|]. split.
    - unfold lres_spec, meaning. rewrite Ep, Estd. reflexivity.
    - rewrite Ep, Estd; discriminate. }
  assert (Hstd : is_std (i_path i) = false) by (rewrite Ep; exact Estd).
  rewrite Hb. destruct (resolve_fb fs root (dir_of cur) (x :: p')) as [[[file actual] sym]|] eqn:Er; [| exact I].
  set (eimp := match sym with Some s => {| i_path := actual; i_form := FSymbols [s] |} | None => i end).
  set (fm := match sym with Some s => FSymbols [s] | None => i_form i end).
  assert (Hmean : meaning fs root cur i = Some (file, fm)).
  { unfold meaning, fm. rewrite Hstd, Ep, Er. destruct sym; reflexivity. }
  assert (Hef : i_form eimp = fm) by (unfold eimp, fm; destruct sym; reflexivity).
  assert (Hlr : lres_of eimp = lres_spec cur i).
  { unfold lres_spec. rewrite Hmean. unfold eimp, fm, lres_of. destruct sym; reflexivity. }
  assert (Hep : i_path eimp <> []).
  { unfold eimp. destruct (resolve_fb_shape _ _ _ _ _ _ _ Er) as [_ [(_ & -> & ->)|(_ & _ & -> & Hne)]]; cbn.
    - rewrite Ep; discriminate.
    - exact Hne. }
  destruct (mem_key file (stack st)) eqn:Emem; [exact I|].
  apply mem_key_false in Emem.
  destruct (lookup file (loaded st)) as [info|] eqn:El.
  - destruct (bind_exports eimp (mi_exports info) (ns st)) as [s|] eqn:Hbind; cbn; [| exact I].
    assert (Hinv' : inv (set_ns st s)) by (destruct Hinv; split; assumption).
    split.
    + split; [exact Hinv'|]. split; [reflexivity|]. split; [reflexivity|]. split.
      * intros k inf Hk; exact Hk.
      * exists []; rewrite app_nil_r; reflexivity.
    + split; [exact Hlr|].
      intros _. exists file, fm, info. split; [exact Hmean|].
      split; [destruct (v_done _ Hinv _ _ El) as [Hk|Hk]; [contradiction | exact Hk]|].
      split; [exact El|].
      intros l s0 Hfm Hs. unfold bind_exports in Hbind. rewrite Hef, Hfm in Hbind.
      destruct (check_syms l (mi_exports info) (ns st)) eqn:Hc; [| discriminate].
      eapply check_syms_in; eauto.
  - pose proof Er as Er'. apply resolve_fb_shape in Er' as [[m Hm] _]. rewrite Hm.
    eapply compile_v; eauto. rewrite Ep; discriminate.
Qed.

Lemma load_v : forall n, vgood (load fs root n).
Proof.
  induction n as [|n IH]; [intros cur m i st _ _ _ _ _; exact I | cbn [load]; apply load_step_v; exact IH].
Qed.

Lemma entry_go_v : forall n me, find_file fs E = Some me ->
  forall imps done s acc orig, done ++ imps = m_imports me -> inv s -> base s = dir_of E ->
  (forall j, In j done -> is_std (i_path j) = false -> loaded_as E j s) ->
  (no_std_imports me -> nonempty_symbols me -> names_spec E done acc) ->
  match entry_go fs root n imps s acc orig with
  | Ok (s2, acc2) => frame s s2 /\
      (forall j, In j (m_imports me) -> is_std (i_path j) = false -> loaded_as E j s2) /\
      (no_std_imports me -> nonempty_symbols me -> names_spec E (m_imports me) acc2)
  | _ => True
  end.
Proof.
  intros n me Hme imps; induction imps as [|j r IH]; intros done s acc orig Hsplit Hinv Hb Hdone Hacc; cbn.
  - rewrite app_nil_r in Hsplit; subst done. split; [apply frame_refl; exact Hinv | auto].
  - assert (Hjin : In j (m_imports me)) by (rewrite <- Hsplit; apply in_or_app; right; left; reflexivity).
    pose proof (load_v n E me j s (r_refl fs E) Hme Hjin Hinv Hb) as Hj.
    destruct (load fs root n j s) as [[s' lr]| |]; cbn in Hj; auto.
    destruct Hj as (Hfr & -> & Htj). pose proof Hfr as (Hi' & Hs' & Hb' & Hm' & He').
    destruct (contrib_entry acc orig j (lres_spec E j) (module_for fs root (base s') j (loaded s')))
      as [[acc' orig']|] eqn:Ec; [| exact I].
    assert (Hb2 : base s' = dir_of E) by congruence.
    assert (Hsplit2 : (done ++ [j]) ++ r = m_imports me) by (rewrite <- app_assoc; exact Hsplit).
    assert (Hdone2 : forall x, In x (done ++ [j]) -> is_std (i_path x) = false -> loaded_as E x s').
    { intros x Hx Hstd. apply in_app_or in Hx as [Hx|[<-|[]]].
      - eapply loaded_as_frame; eauto.
      - auto. }
    assert (Hacc2 : no_std_imports me -> nonempty_symbols me -> names_spec E (done ++ [j]) acc').
    { intros Hns Hnes. destruct (Htj (Hns j Hjin)) as (g & fm & info & Hmean & _ & Hl & _).
      destruct (v_info _ Hi' _ _ Hl) as (_ & mg & Hmg & Hex).
      unfold lres_spec in Ec. rewrite Hmean, Hb2 in Ec.
      eapply contrib_entry_spec; eauto. }
    pose proof (IH (done ++ [j]) s' acc' orig' Hsplit2 Hi' Hb2 Hdone2 Hacc2) as Hrest.
    destruct (entry_go fs root n r s' acc' orig') as [[s2 a2]| |]; auto.
    destruct Hrest as (Hfr2 & Hall & Hnames). split; [eapply frame_trans; eauto | auto].
Qed.

Lemma reach_edge_plus : forall f h, reachable fs E f -> edge fs E f h -> path_plus fs E E h.
Proof.
  intros f h Hr; revert h. induction Hr as [|g f Hr IH Hgf]; intros h Hh.
  - apply pp_one; exact Hh.
  - eapply pp_step; [apply IH; exact Hgf | exact Hh].
Qed.

Lemma po_before : forall l, postorder fs E l -> forall g h, path_plus fs E g h -> In g l ->
  exists l1 l2, l = l1 ++ g :: l2 /\ In h l1.
Proof.
  intros l Hpo g h Hp; induction Hp as [g h He | g g' h Hp IH He]; intro Hin.
  - apply in_split in Hin as (l1 & l2 & ->). exists l1, l2; split; [reflexivity|]. eapply Hpo; eauto.
  - destruct (IH Hin) as (l1 & l2 & -> & Hg'). exists l1, l2; split; [reflexivity|].
    apply in_split in Hg' as (a & b & ->).
    assert (In h a).
    { eapply (Hpo a g' (b ++ g :: l2)); [| exact He]. rewrite <- app_assoc; reflexivity. }
    apply in_or_app; left; assumption.
Qed.

Lemma po_no_cycle : forall l, postorder fs E l -> NoDup l -> forall g, path_plus fs E g g -> ~ In g l.
Proof.
  intros l Hpo Hnd g Hp Hin. destruct (po_before l Hpo g g Hp Hin) as (l1 & l2 & -> & Hg).
  apply NoDup_remove_2 in Hnd. apply Hnd. apply in_or_app; left; exact Hg.
Qed.

Lemma init_inv : inv (init_state E).
Proof.
  split; cbn.
  - constructor.
  - intros k [].
  - intros k info Hl; discriminate.
  - intros k info Hl; discriminate.
  - constructor.
  - intros g [].
  - intros l1 g l2 Hl. destruct l1; discriminate.
  - intros k info Hl; discriminate.
  - intros ev [].
Qed.

Lemma run_trace : forall fuel evs, run fs E fuel = Ok evs ->
  let tr := map ev_file evs in
  NoDup tr /\ (forall f, In f tr <-> reachable fs E f) /\ postorder fs E tr /\ (exists l, tr = l ++ [E]).
Proof.
  intros fuel evs. unfold run. fold root.
  destruct (find_file fs E) as [me|] eqn:Hme; [| discriminate].
  pose proof (entry_go_v fuel me Hme (m_imports me) [] (init_state E) ([], []) [] eq_refl init_inv eq_refl
                (fun j Hj => match Hj with end) (fun _ _ => names_spec_nil _)) as Hg.
  destruct (entry_go fs root fuel (m_imports me) (init_state E) ([], []) []) as [[st acc]| |]; try discriminate.
  destruct Hg as ((Hinv & _ & _ & _ & _) & Hall & _).
  intro Hev; inversion Hev; subst evs; clear Hev. cbv zeta. rewrite map_app. cbn [map ev_file].
  fold (trace st).
  assert (Hpo : postorder fs E (trace st ++ [E])).
  { intros l1 g l2 Heq h Hed.
    apply app_snoc_split in Heq as [(-> & -> & ->)|(l2' & -> & Heq)].
    - destruct Hed as (m' & j & Hm' & Hj & Htj). rewrite Hme in Hm'; inversion Hm'; subst m'.
      apply target_meaning in Htj as [fmj Hmj].
      destruct (meaning_cases _ _ _ _ _ _ Hmj) as (Hstdj & _).
      destruct (Hall j Hj Hstdj) as (g' & fm' & inf & Hg' & Hin & _). fold root in Hmj. congruence.
    - eapply (v_post _ Hinv); eauto. }
  assert (Hreach : forall f, In f (trace st) -> exists f', reachable fs E f' /\ edge fs E f' f).
  { intros f Hf. destruct (v_towner _ Hinv f Hf) as (Hk & _). unfold has_key in Hk.
    destruct (lookup f (loaded st)) as [info|] eqn:Hl; [| contradiction].
    eapply (v_key _ Hinv); eauto. }
  assert (HnE : ~ In E (trace st)).
  { intro HE. destruct (Hreach E HE) as (f' & Hr' & He').
    eapply (po_no_cycle (trace st) (v_post _ Hinv) (v_tnodup _ Hinv) E); [| exact HE].
    eapply reach_edge_plus; eauto. }
  split; [apply NoDup_snoc; [apply (v_tnodup _ Hinv) | exact HnE]|].
  split; [| split; [exact Hpo | eexists; reflexivity]].
  intro f; split.
  - intro Hf. apply in_app_or in Hf as [Hf|[<-|[]]]; [| apply r_refl].
    destruct (Hreach f Hf) as (f' & Hr' & He'). eapply r_step; eauto.
  - intro Hr. induction Hr as [|g h Hr IH Hgh].
    + apply in_or_app; right; left; reflexivity.
    + apply in_split in IH as (l1 & l2 & Heq). rewrite Heq.
      apply in_or_app; left. eapply Hpo; eauto.
Qed.

Lemma run_cycle : forall fuel evs f, run fs E fuel = Ok evs -> reachable fs E f -> path_plus fs E f f -> False.
Proof.
  intros fuel evs f Hrun Hr Hp. destruct (run_trace fuel evs Hrun) as (Hnd & Hcov & Hpo & _).
  eapply po_no_cycle; eauto. apply Hcov; exact Hr.
Qed.

(* compile-time name sets of every top level that ran *)
Lemma run_names : forall fuel evs, run fs E fuel = Ok evs -> forall ev, In ev evs ->
  names_ok fs E ev /\ selected_are_pub fs E (ev_file ev).
Proof.
  intros fuel evs. unfold run. fold root.
  destruct (find_file fs E) as [me|] eqn:Hme; [| discriminate].
  pose proof (entry_go_v fuel me Hme (m_imports me) [] (init_state E) ([], []) [] eq_refl init_inv eq_refl
                (fun j Hj => match Hj with end) (fun _ _ => names_spec_nil _)) as Hg.
  destruct (entry_go fs root fuel (m_imports me) (init_state E) ([], []) []) as [[st acc]| |]; try discriminate.
  destruct Hg as ((Hinv & _ & _ & _ & _) & Hall & Hnames).
  intro Hrun; inversion Hrun; subst evs; clear Hrun.
  intros ev Hev. apply in_app_or in Hev as [Hev|[<-|[]]].
  - destruct (v_evs _ Hinv ev Hev) as (_ & H1 & H2). auto.
  - split; [| exact (loaded_as_pub st E me Hinv Hall Hme)].
    intros m' Hm' Hns Hne. cbn [ev_file] in Hm'. rewrite Hme in Hm'; inversion Hm'; subst m'.
    destruct (Hnames Hns Hne) as [HA HK]. split; cbn [ev_aliases ev_known ev_file]; [exact HA|].
    intro n. rewrite in_app_iff, HK. reflexivity.
Qed.

(* ---- which error: with every import resolvable and selecting pub symbols only, the loader can
        only fail with CircularDependency (and the entry with SymbolConflict) *)
Definition bound (g : gname) (s : nsmap) : Prop := ns_get g s <> None.
Definition nsmono (s s' : nsmap) : Prop := forall g, bound g s -> bound g s'.

Lemma bound_set : forall g g' v s, bound g s -> bound g (ns_set g' v s).
Proof. unfold bound, ns_set; intros g g' v s H; cbn. destruct (gname_eqb g g'); [discriminate | exact H]. Qed.
Lemma gname_eqb_refl : forall g, gname_eqb g g = true.
Proof. destruct g; cbn; rewrite ?N.eqb_refl; reflexivity. Qed.
Lemma bound_set_same : forall g v s, bound g (ns_set g v s).
Proof. unfold bound, ns_set; intros; cbn. rewrite gname_eqb_refl; discriminate. Qed.

Lemma write_defs_fold_mono : forall f ds s, nsmono s (fold_left (fun s d => ns_set (GB (d_name d)) (f, d_name d) s) ds s).
Proof.
  intros f ds; induction ds as [|d r IH]; intros s g Hg; cbn; [exact Hg|]. apply IH. apply bound_set; exact Hg.
Qed.
Lemma write_defs_binds : forall f m s d, In d (m_defs m) -> bound (GB (d_name d)) (write_defs f m s).
Proof.
  intros f m s d. unfold write_defs. generalize (m_defs m) s. intros ds; induction ds as [|x r IH]; intros s0 Hd; [destruct Hd|].
  destruct Hd as [<-|Hd]; cbn.
  - apply write_defs_fold_mono. apply bound_set_same.
  - apply IH; exact Hd.
Qed.
Lemma pub_names_defs : forall m n, In n (pub_names m) -> exists d, In d (m_defs m) /\ d_name d = n.
Proof.
  unfold pub_names; intros m n H. apply in_map_iff in H as (d & Hn & Hd). apply filter_In in Hd as [Hd _]. eauto.
Qed.

Lemma bind_all_some : forall al bare ex s, (forall n, In n ex -> bound (GB n) s) ->
  exists s', bind_all al bare ex s = Some s' /\ nsmono s s'.
Proof.
  intros al bare ex; induction ex as [|n r IH]; intros s Hb; cbn.
  - exists s; split; [reflexivity | intros g Hg; exact Hg].
  - pose proof (Hb n (or_introl eq_refl)) as Hn. unfold bound in Hn.
    destruct (ns_get (GB n) s) as [v|] eqn:Ev; [| contradiction].
    set (s1 := if bare then ns_set (GB n) v (ns_set (GQ al n) v s) else ns_set (GQ al n) v s).
    assert (Hm : nsmono s s1) by (intros g Hg; unfold s1; destruct bare; repeat apply bound_set; exact Hg).
    destruct (IH s1 (fun x Hx => Hm _ (Hb x (or_intror Hx)))) as (s' & Hs' & Hm').
    exists s'; split; [exact Hs' | intros g Hg; apply Hm', Hm, Hg].
Qed.
Lemma check_all_true : forall ex s, (forall n, In n ex -> bound (GB n) s) -> check_all ex s = true.
Proof.
  induction ex as [|n r IH]; intros s Hb; cbn; [reflexivity|].
  pose proof (Hb n (or_introl eq_refl)) as Hn. unfold bound in Hn.
  destruct (ns_get (GB n) s); [apply IH; intros x Hx; apply Hb; right; exact Hx | contradiction].
Qed.
Lemma mem_id_In : forall n l, In n l -> mem_id n l = true.
Proof.
  induction l as [|x l IH]; intro H; [destruct H|].
  destruct H as [<-|H]; cbn; [rewrite N.eqb_refl; reflexivity | rewrite IH by assumption; apply orb_true_r].
Qed.
Lemma check_syms_true : forall syms ex s, (forall n, In n syms -> In n ex /\ bound (GB n) s) -> check_syms syms ex s = true.
Proof.
  induction syms as [|n r IH]; intros ex s Hb; cbn; [reflexivity|].
  destruct (Hb n (or_introl eq_refl)) as [Hin Hn]. rewrite (mem_id_In _ _ Hin). cbn. unfold bound in Hn.
  destruct (ns_get (GB n) s); [apply IH; intros x Hx; apply Hb; right; exact Hx | contradiction].
Qed.
Lemma bind_exports_some : forall i ex s, (forall n, In n ex -> bound (GB n) s) ->
  (forall l n, i_form i = FSymbols l -> In n l -> In n ex) ->
  exists s', bind_exports i ex s = Some s' /\ nsmono s s'.
Proof.
  intros i ex s Hb Hsy. unfold bind_exports. destruct (i_form i) as [|a|l|] eqn:Ef.
  - apply bind_all_some; exact Hb.
  - apply bind_all_some; exact Hb.
  - rewrite check_syms_true; [exists s; split; [reflexivity | intros g Hg; exact Hg]|].
    intros n Hn. split; [eapply Hsy; eauto | apply Hb; eapply Hsy; eauto].
  - rewrite check_all_true by exact Hb. exists s; split; [reflexivity | intros g Hg; exact Hg].
Qed.

Hypothesis HC : clean fs E.

Definition ninv (st : lstate) : Prop :=
  forall k info, lookup k (loaded st) = Some info -> ~ In k (stack st) ->
                 forall n, In n (mi_exports info) -> bound (GB n) (ns st).

Definition epost {A} (st : lstate) (r : res (lstate * A)) : Prop :=
  match r with
  | Ok (st', _) => ninv st' /\ nsmono (ns st) (ns st')
  | Err e _ => e = ECircular
  | Fuel => True
  end.

Definition egood (ld : loader) : Prop :=
  forall cur m i st, reachable fs E cur -> find_file fs cur = Some m -> In i (m_imports m) ->
                     inv st -> base st = dir_of cur -> ninv st -> epost st (ld i st).

Lemma go_mod_e : forall ld file m, vgood ld -> egood ld -> reachable fs E file -> find_file fs file = Some m ->
  forall imps s acc, incl imps (m_imports m) -> inv s -> base s = dir_of file -> ninv s ->
  epost s (go_mod fs root ld imps s acc).
Proof.
  intros ld file m Hv He Hr Hm imps; induction imps as [|j r IH]; intros s acc Hincl Hinv Hb Hn; cbn.
  - split; [exact Hn | intros g Hg; exact Hg].
  - pose proof (Hv file m j s Hr Hm (Hincl j (or_introl eq_refl)) Hinv Hb) as Hvj.
    pose proof (He file m j s Hr Hm (Hincl j (or_introl eq_refl)) Hinv Hb Hn) as Hej.
    destruct (ld j s) as [[s' lr]| |]; cbn in *; auto.
    destruct Hvj as ((Hi' & Hs' & Hb' & _) & _). destruct Hej as [Hn' Hmono].
    pose proof (IH s' (contrib_mod acc j lr (module_for fs root (base s') j (loaded s')))
                  (fun x Hx => Hincl x (or_intror Hx)) Hi' (eq_trans Hb' Hb) Hn') as Hrest.
    destruct (go_mod fs root ld r s' _) as [[s2 a2]| |]; cbn in *; auto.
    destruct Hrest as [Hn2 Hm2]. split; [exact Hn2 | intros g Hg; apply Hm2, Hmono, Hg].
Qed.

Lemma compile_e : forall ld cur mc i g fm mg st eimp,
  vgood ld -> egood ld -> reachable fs E cur -> find_file fs cur = Some mc -> In i (m_imports mc) ->
  meaning fs root cur i = Some (g, fm) -> i_path i <> [] -> inv st -> base st = dir_of cur -> ninv st ->
  ~ In g (stack st) -> lookup g (loaded st) = None -> find_file fs g = Some mg ->
  i_form eimp = fm -> i_path eimp <> [] -> lres_of eimp = lres_spec cur i ->
  (forall l s, fm = FSymbols l -> In s l -> In s (pub_names mg)) ->
  epost st (compile fs root ld g eimp mg st).
Proof.
  intros ld cur mc i g fm mg st eimp Hv He Hr Hmc Hi Hmean Hne Hinv Hb Hn Emem El Hmg Hef Hep Hlr Hsy.
  pose proof (push_inv cur mc i g fm mg st (last_seg (i_path eimp)) Hr Hmc Hi Hmean Hinv Emem El Hmg) as Hinv1.
  unfold compile.
  set (info := {| mi_file := g; mi_exports := pub_names mg; mi_name := _ |}) in *.
  set (st1 := {| loaded := (g, info) :: loaded st; stack := g :: stack st;
                 base := dir_of g; ns := ns st; events := events st |}) in *.
  assert (Hrg : reachable fs E g) by (eapply r_step; [exact Hr | eapply edge_of_meaning; eauto]).
  assert (Hn1 : ninv st1).
  { intros k inf Hl Hk n Hin. unfold st1 in *; cbn in *.
    destruct (key_eqb k g) eqn:Ek.
    - apply key_eqb_eq in Ek; subst k. exfalso; apply Hk; left; reflexivity.
    - eapply Hn; eauto. }
  pose proof (go_mod_e ld g mg Hv He Hrg Hmg (m_imports mg) st1 ([], []) (fun x Hx => Hx) Hinv1 eq_refl Hn1) as Hge.
  pose proof (go_mod_v ld g mg Hv Hrg Hmg (m_imports mg) [] st1 ([], []) eq_refl Hinv1 eq_refl
                (fun j Hj => match Hj with end) (fun _ _ => names_spec_nil _)) as Hgv.
  destruct (go_mod fs root ld (m_imports mg) st1 ([], [])) as [[st2 acc]| |]; cbn in Hge; auto.
  destruct Hge as [Hn2 Hmono2]. destruct Hgv as ((Hi2 & Hs2 & _ & Hm2 & _) & _).
  set (s1 := write_defs g mg (ns st2)).
  destruct (bind_exports_some eimp (pub_names mg) s1) as (s2 & Hs2' & Hmono3).
  { intros n Hin. destruct (pub_names_defs _ _ Hin) as (d & Hd & <-). apply write_defs_binds; exact Hd. }
  { intros l n Hf Hin. eapply Hsy; eauto. congruence. }
  rewrite Hs2'. cbn.
  assert (Hw : nsmono (ns st2) s1) by apply write_defs_fold_mono.
  split.
  - intros k inf Hl Hk n Hin. cbn in Hl, Hk |- *. rewrite Hs2 in Hk. cbn in Hk.
    destruct (key_eqb k g) eqn:Ek.
    + apply key_eqb_eq in Ek; subst k.
      assert (Hlp : lookup g (loaded st2) = Some info) by (apply Hm2; cbn; apply lookup_cons_eq).
      rewrite Hlp in Hl; inversion Hl; subst inf. cbn in Hin.
      apply Hmono3. destruct (pub_names_defs _ _ Hin) as (d & Hd & <-). apply write_defs_binds; exact Hd.
    + apply Hmono3, Hw. eapply Hn2; eauto. rewrite Hs2. cbn. intros [Heq|Hin']; [| contradiction].
      apply key_eqb_neq in Ek. congruence.
  - intros x Hx. apply Hmono3, Hw, Hmono2. exact Hx.
Qed.

Lemma load_step_e : forall ld, vgood ld -> egood ld -> egood (load_step fs root ld).
Proof.
  intros ld Hv He cur mc i st Hr Hmc Hi Hinv Hb Hn. unfold load_step. cbv zeta.
  remember (i_path i) as p eqn:Ep in |- *. symmetry in Ep.
  destruct (is_std p) eqn:Estd.
  { destruct p; [discriminate|]. cbn. split; [exact Hn | intros g Hg; exact Hg]. }
  assert (Hstd : is_std (i_path i) = false) by (rewrite Ep; exact Estd).
  destruct (HC cur mc i Hr Hmc Hi Hstd) as (Hne & g & fm & mg & Hmean & Hmg & Hsy). fold root in Hmean.
  destruct p as [|x p']; [congruence|].
  rewrite Hb. pose proof Hmean as Hmean0. unfold meaning in Hmean. rewrite Hstd, Ep in Hmean.
  destruct (resolve_fb fs root (dir_of cur) (x :: p')) as [[[file actual] sym]|] eqn:Er; [| discriminate].
  set (eimp := match sym with Some s => {| i_path := actual; i_form := FSymbols [s] |} | None => i end).
  assert (Hfg : file = g /\ fm = match sym with Some s => FSymbols [s] | None => i_form i end).
  { destruct sym; inversion Hmean; auto. }
  destruct Hfg as [-> Hfm].
  assert (Hef : i_form eimp = fm) by (unfold eimp; rewrite Hfm; destruct sym; reflexivity).
  assert (Hlr : lres_of eimp = lres_spec cur i).
  { unfold lres_spec. rewrite Hmean0, Hfm. unfold eimp, lres_of. destruct sym; reflexivity. }
  assert (Hep : i_path eimp <> []).
  { unfold eimp. destruct (resolve_fb_shape _ _ _ _ _ _ _ Er) as [_ [(_ & -> & ->)|(_ & _ & -> & Hne')]]; cbn.
    - rewrite Ep; discriminate.
    - exact Hne'. }
  destruct (mem_key g (stack st)) eqn:Emem; [reflexivity|].
  apply mem_key_false in Emem.
  destruct (lookup g (loaded st)) as [info|] eqn:El.
  - destruct (v_info _ Hinv _ _ El) as (_ & m' & Hm' & Hex). rewrite Hmg in Hm'. inversion Hm'; subst m'.
    destruct (bind_exports_some eimp (mi_exports info) (ns st)) as (s' & Hs' & Hmono).
    { intros n Hin. eapply Hn; eauto. }
    { intros l n Hf Hin. rewrite Hex. eapply Hsy; eauto. congruence. }
    rewrite Hs'. cbn. split; [| exact Hmono].
    intros k inf Hl Hk n Hin. apply Hmono. eapply Hn; eauto.
  - rewrite Hmg. eapply compile_e; eauto.
Qed.

Lemma load_e : forall n, egood (load fs root n).
Proof.
  induction n as [|n IH]; [intros cur m i st _ _ _ _ _ _; exact I|].
  cbn [load]. apply load_step_e; [apply load_v | exact IH].
Qed.

Lemma entry_go_e : forall n me, find_file fs E = Some me ->
  forall imps s acc orig, incl imps (m_imports me) -> inv s -> base s = dir_of E -> ninv s ->
  match entry_go fs root n imps s acc orig with
  | Err e _ => e = ECircular \/ e = ESymbolConflict
  | _ => True
  end.
Proof.
  intros n me Hme imps; induction imps as [|j r IH]; intros s acc orig Hincl Hinv Hb Hn; cbn; [exact I|].
  pose proof (load_v n E me j s (r_refl fs E) Hme (Hincl j (or_introl eq_refl)) Hinv Hb) as Hvj.
  pose proof (load_e n E me j s (r_refl fs E) Hme (Hincl j (or_introl eq_refl)) Hinv Hb Hn) as Hej.
  destruct (load fs root n j s) as [[s' lr]| |]; cbn in *; auto.
  destruct Hvj as ((Hi' & Hs' & Hb' & _) & _). destruct Hej as [Hn' _].
  destruct (contrib_entry acc orig j lr _) as [[acc' orig']|]; [| right; reflexivity].
  apply IH; auto. - intros x Hx; apply Hincl; right; exact Hx. - congruence.
Qed.

Lemma run_err_kind : forall fuel e tr, run fs E fuel = Err e tr -> find_file fs E <> None ->
  e = ECircular \/ e = ESymbolConflict.
Proof.
  intros fuel e tr. unfold run. fold root. destruct (find_file fs E) as [me|] eqn:Hme; [| intros _ H; contradiction].
  pose proof (entry_go_e fuel me Hme (m_imports me) (init_state E) ([], []) [] (fun x Hx => Hx) init_inv eq_refl) as Hg.
  destruct (entry_go fs root fuel (m_imports me) (init_state E) ([], []) []) as [[st acc]| |]; try discriminate.
  intros H _; inversion H; subst. apply Hg. intros k info Hl; discriminate.
Qed.
End Dfs.

(* ================================================================ the property theorems' lemmas *)
Lemma init_once_lemma : forall fs E fuel evs, run fs E fuel = Ok evs ->
  let tr := map ev_file evs in
  NoDup tr /\ (forall f, In f tr <-> reachable fs E f) /\ postorder fs E tr /\ (exists l, tr = l ++ [E]).
Proof. intros fs E fuel evs Hrun. eapply run_trace; eauto. Qed.

Lemma cycle_never_ok_lemma : forall fs E fuel f,
  reachable fs E f -> path_plus fs E f f -> forall evs, run fs E fuel <> Ok evs.
Proof. intros fs E fuel f Hr Hp evs Hrun. eapply run_cycle; eauto. Qed.

Lemma cycle_reported_lemma : forall fs E fuel f, (fuel >= fuel_bound fs)%nat ->
  reachable fs E f -> path_plus fs E f f -> exists e tr, run fs E fuel = Err e tr.
Proof.
  intros fs E fuel f Hf Hr Hp.
  destruct (run fs E fuel) as [evs|e tr|] eqn:Hrun.
  - exfalso. eapply cycle_never_ok_lemma; eauto.
  - eauto.
  - exfalso. eapply no_divergence_lemma; eauto.
Qed.

Lemma clean_b_sound : forall fs E, clean_b fs (dir_of E) = true -> clean fs E.
Proof.
  intros fs E Hc f m i _ Hm Hi Hstd. unfold clean_b in Hc. rewrite forallb_forall in Hc.
  apply lookup_In in Hm. apply Hc in Hm. cbn in Hm. rewrite forallb_forall in Hm. apply Hm in Hi.
  rewrite Hstd in Hi. cbn in Hi. apply andb_true_iff in Hi as [Hne Hi].
  split; [destruct (i_path i); [discriminate | discriminate]|].
  destruct (meaning fs (dir_of E) f i) as [[g fm]|]; [| discriminate].
  destruct (find_file fs g) as [mg|] eqn:Eg; [| discriminate].
  exists g, fm, mg. split; [reflexivity|]. split; [exact Eg|].
  intros l s Hf Hs. rewrite Hf in Hi. rewrite forallb_forall in Hi. apply mem_id_true_In, Hi, Hs.
Qed.

Lemma reach_src : forall fs E f, reachable fs E f -> f = E \/ find_file fs E <> None.
Proof.
  intros fs E f Hr; induction Hr as [|g h Hr IH He]; [left; reflexivity|].
  destruct IH as [->|IH]; [| right; exact IH]. destruct He as (m & i & Hm & _). right; congruence.
Qed.
Lemma pp_src : forall fs E f g, path_plus fs E f g -> find_file fs f <> None.
Proof.
  intros fs E f g Hp; induction Hp as [f g He | f g h Hp IH He]; [| exact IH].
  destruct He as (m & i & Hm & _). congruence.
Qed.

Lemma cycle_circular_lemma : forall fs E fuel f, clean fs E ->
  (fuel >= fuel_bound fs)%nat -> reachable fs E f -> path_plus fs E f f ->
  exists tr, run fs E fuel = Err ECircular tr \/ run fs E fuel = Err ESymbolConflict tr.
Proof.
  intros fs E fuel f Hc Hf Hr Hp.
  destruct (cycle_reported_lemma fs E fuel f Hf Hr Hp) as (e & tr & Hrun).
  assert (HE : find_file fs E <> None).
  { destruct (reach_src fs E f Hr) as [->|H]; [eapply pp_src; eauto | exact H]. }
  exists tr. destruct (run_err_kind fs E Hc fuel e tr Hrun HE) as [->| ->]; auto.
Qed.

Lemma visibility_lemma : forall fs E fuel evs, run fs E fuel = Ok evs -> forall ev, In ev evs ->
  names_ok fs E ev /\ selected_are_pub fs E (ev_file ev).
Proof. intros fs E fuel evs Hrun ev Hev. eapply run_names; eauto. Qed.

(* every bare name a top level knows is its own or a pub name of a module one of its imports means *)
Lemma known_are_pub_lemma : forall fs E fuel evs, run fs E fuel = Ok evs -> forall ev m, In ev evs ->
  find_file fs (ev_file ev) = Some m -> no_std_imports m -> nonempty_symbols m ->
  forall n, In n (ev_known ev) ->
    In n (map d_name (m_defs m)) \/
    exists j g fm mg, In j (m_imports m) /\ meaning fs (dir_of E) (ev_file ev) j = Some (g, fm) /\
                      find_file fs g = Some mg /\ In n (pub_names mg).
Proof.
  intros fs E fuel evs Hrun ev m Hev Hm Hns Hne n Hn.
  destruct (visibility_lemma fs E fuel evs Hrun ev Hev) as [Hnames Hpub].
  destruct (Hnames m Hm Hns Hne) as [_ HK]. apply HK in Hn as [Hn|(j & Hj & Hn)]; [left; exact Hn|].
  right. destruct (Hpub m j Hm Hj (Hns j Hj)) as (g & fm & mg & Hmean & Hmg & Hsy).
  exists j, g, fm, mg. split; [exact Hj|]. split; [exact Hmean|]. split; [exact Hmg|].
  unfold granted_bare in Hn. rewrite Hmean, Hmg in Hn.
  destruct fm as [|a|l|]; try exact Hn; [destruct Hn | eapply Hsy; eauto].
Qed.

(* a qualifier that no import grants names nothing *)
Lemma qualifier_exact_lemma : forall ev q n, ~ In q (ev_aliases ev) -> probe ev (SQual q n) = None.
Proof.
  intros ev q n Hq. unfold probe. destruct (mem_id q (ev_aliases ev)) eqn:Em; [| reflexivity].
  apply mem_id_true_In in Em. contradiction.
Qed.

(* ================================================================ witnesses (computation) *)
Ltac solve_edge :=
  eexists; eexists; split; [vm_compute; reflexivity | split; [cbn; eauto 10 | vm_compute; reflexivity]].

(* still false of the loader: the one VM namespace (KF-C19-3, KF-C19-8) *)
Lemma flat_namespace_collision_refuted_lemma : exists fs E evs ev,
  run fs E (fuel_bound fs) = Ok evs /\
  In ev evs /\ ev_file ev = [12] /\ meaning fs (dir_of E) [12] (imp [10] (FAlias 73)) = Some ([10], FAlias 73) /\
  find_file fs [11] = Some (M [] [D 40 false; D 45 true]) /\
  probe ev (SQual 73 40) = Some ([11], 40).
Proof.
  exists w_flatns, E9. eexists. eexists.
  split; [vm_compute; reflexivity|]. split. { right; right; left; reflexivity. }
  vm_compute. repeat split; reflexivity.
Qed.

Lemma shared_qualifier_refuted_lemma : exists fs E evs ev,
  unique_defs fs = true /\
  run fs E (fuel_bound fs) = Ok evs /\ In ev evs /\ ev_file ev = [12] /\
  find_file fs [12] = Some (M [imp [10] (FAlias 70)] [D 46 true]) /\
  meaning fs (dir_of E) [12] (imp [10] (FAlias 70)) = Some ([10], FAlias 70) /\
  probe ev (SQual 70 44) = Some ([11], 44).
Proof.
  exists w_shared_q, E9. eexists. eexists.
  split; [reflexivity|].
  split; [vm_compute; reflexivity|].
  split. { right; right; right; left; reflexivity. }
  vm_compute. repeat split; reflexivity.
Qed.

(* the trees that used to refute the property (kept as regression examples): what the repaired
   loader does with them *)
Lemma repaired_examples_lemma :
  (* two directories with a file of the same name: both initialise, each importer gets its own *)
  (exists evs ev, run w_collision E9 (fuel_bound w_collision) = Ok evs /\
     map ev_file evs = [[20;12]; [20;10]; [21;12]; [21;11]; [9]] /\ In ev evs /\ ev_file ev = [21;11] /\
     probe ev (SQual 12 40) = Some ([21;12], 40) /\ probe ev (SQual 12 42) = Some ([21;12], 42)) /\
  (* one file under two dotted paths: once *)
  (exists evs, run w_twokeys E9 (fuel_bound w_twokeys) = Ok evs /\ map ev_file evs = [[20;10]; [20;11]; [9]]) /\
  (* a cycle written `needs mod.symbol`: CircularDependency *)
  (exists tr, run w_pscycle E9 (fuel_bound w_pscycle) = Err ECircular tr) /\
  (* `needs m` then `needs m.private`: SymbolNotFound *)
  (exists tr, run w_leak E9 (fuel_bound w_leak) = Err ESymbolNotFound tr) /\
  (* two selected symbols inside a module: both usable *)
  (exists evs ev, run w_second E9 (fuel_bound w_second) = Ok evs /\ In ev evs /\ ev_file ev = [11] /\
     probe ev (SBare 40) = Some ([10], 40) /\ probe ev (SBare 42) = Some ([10], 42)) /\
  (* `needs n40 from n10`: only the bare spelling *)
  (exists evs ev, run w_qual E9 (fuel_bound w_qual) = Ok evs /\ In ev evs /\ ev_file ev = E9 /\
     probe ev (SBare 40) = Some ([10], 40) /\ probe ev (SQual 10 40) = None /\ probe ev (SQual 99 40) = None).
Proof.
  split. { eexists. eexists. split; [vm_compute; reflexivity|]. split; [reflexivity|].
           split; [right; right; right; left; reflexivity|]. vm_compute. repeat split; reflexivity. }
  split. { eexists. split; vm_compute; reflexivity. }
  split. { eexists. vm_compute; reflexivity. }
  split. { eexists. vm_compute; reflexivity. }
  split. { eexists. eexists. split; [vm_compute; reflexivity|]. split; [right; left; reflexivity|].
           vm_compute. repeat split; reflexivity. }
  eexists. eexists. split; [vm_compute; reflexivity|]. split; [right; left; reflexivity|].
  vm_compute. repeat split; reflexivity.
Qed.

(* non-vacuity: a diamond with all import forms initialises in post-order; a 6-cycle behind a
   tail is reported; both trees are clean *)
Lemma nonvacuous_lemma :
  clean_b w_diamond [] = true /\
  (exists evs, run w_diamond E9 (fuel_bound w_diamond) = Ok evs /\
               map ev_file evs = [[19]; [10]; [11]; [12]; [9]]) /\
  clean_b w_cycle6 [] = true /\
  reachable w_cycle6 E9 [11] /\ path_plus w_cycle6 E9 [11] [11] /\
  (exists tr, run w_cycle6 E9 (fuel_bound w_cycle6) = Err ECircular tr /\ map ev_file tr = [[19]]).
Proof.
  split; [reflexivity|].
  split. { eexists. split; vm_compute; reflexivity. }
  split; [reflexivity|].
  split. { eapply r_step; [eapply r_step; [apply r_refl | solve_edge] | solve_edge]. }
  split. { eapply pp_step; [eapply pp_step; [eapply pp_step; [eapply pp_step; [eapply pp_step;
           [apply pp_one; solve_edge | solve_edge] | solve_edge] | solve_edge] | solve_edge] | solve_edge]. }
  eexists. split; vm_compute; reflexivity.
Qed.
