(* C19 -- proofs about the loader model (Model/Modules.v) against Model/ModulesSpec.v. *)
From Aelys Require Import Base.Tactics Extracted.ModulesTables Model.Modules Model.ModulesSpec Model.ModulesObs.
Local Open Scope N_scope.

(* ---------------------------------------------------------------- basics *)
Lemma key_eqb_eq : forall a b, key_eqb a b = true <-> a = b.
Proof.
  induction a as [|x a IH]; destruct b as [|y b]; cbn; split; intro H; try congruence; try discriminate.
  - apply andb_true_iff in H as [H1 H2]. apply N.eqb_eq in H1. apply IH in H2. congruence.
  - inversion H; subst. apply andb_true_iff; split; [apply N.eqb_refl | apply IH; reflexivity].
Qed.
Lemma key_eqb_refl : forall a, key_eqb a a = true.
Proof. intro; apply key_eqb_eq; reflexivity. Qed.
Lemma key_eqb_neq : forall a b, key_eqb a b = false <-> a <> b.
Proof.
  intros; split; intro H.
  - intro E; apply key_eqb_eq in E; congruence.
  - destruct (key_eqb a b) eqn:E; [apply key_eqb_eq in E; contradiction | reflexivity].
Qed.

Lemma mem_key_In : forall k l, mem_key k l = true <-> In k l.
Proof.
  induction l as [|x l IH]; cbn; [split; [discriminate | tauto]|].
  rewrite orb_true_iff, IH, key_eqb_eq. split; intros [H|H]; auto.
Qed.
Lemma mem_key_false : forall k l, mem_key k l = false <-> ~ In k l.
Proof.
  intros; rewrite <- mem_key_In. destruct (mem_key k l); split; intro; congruence.
Qed.

Lemma lookup_cons_eq : forall A k (v : A) l, lookup k ((k, v) :: l) = Some v.
Proof. intros; cbn; rewrite key_eqb_refl; reflexivity. Qed.
Lemma lookup_cons_neq : forall A k k' (v : A) l, k <> k' -> lookup k ((k', v) :: l) = lookup k l.
Proof. intros A k k' v l H; cbn. apply key_eqb_neq in H. rewrite H; reflexivity. Qed.
Lemma lookup_In : forall A k (v : A) l, lookup k l = Some v -> In (k, v) l.
Proof.
  induction l as [|[k' v'] l IH]; cbn; [discriminate|].
  destruct (key_eqb k k') eqn:E; intro H.
  - apply key_eqb_eq in E; inversion H; subst; auto.
  - auto.
Qed.

(* ---------------------------------------------------------------- resolution facts *)
Lemma try_path_find : forall fs r c f, try_path fs r c = RFound f -> exists m, find_file fs f = Some m.
Proof.
  unfold try_path; intros fs r c f. destruct (find_file fs c) eqn:E; [| discriminate].
  destruct (is_prefix r c); [| discriminate]. intro H; inversion H; subst; eauto.
Qed.

Lemma resolve_pats_find : forall fs pats d p f, resolve_pats fs pats d p = RFound f -> exists m, find_file fs f = Some m.
Proof.
  intros fs pats; induction pats as [|pat r IH]; intros d p f; cbn [resolve_pats]; [discriminate|].
  destruct (try_path fs d (canon fs (pattern_path pat d p))) eqn:E1; try discriminate.
  - intro H; inversion H; subst. eapply try_path_find. exact E1.
  - apply IH.
Qed.

Lemma resolve_in_find : forall fs d p f, resolve_in fs d p = RFound f -> exists m, find_file fs f = Some m.
Proof. intros fs d p f. apply resolve_pats_find. Qed.

Lemma search_find : forall fs r b p f, search fs r b p = Some f -> exists m, find_file fs f = Some m.
Proof.
  unfold search; intros fs r b p f.
  destruct (resolve_in fs b p) eqn:E1.
  - intro H; inversion H; subst. eapply resolve_in_find; eauto.
  - destruct (key_eqb b r); [discriminate|]. destruct (resolve_in fs r p) eqn:E2; try discriminate.
    intro H; inversion H; subst. eapply resolve_in_find; eauto.
  - destruct (key_eqb b r); [discriminate|]. destruct (resolve_in fs r p) eqn:E2; try discriminate.
    intro H; inversion H; subst. eapply resolve_in_find; eauto.
Qed.

Lemma resolve_direct_find : forall fs r b p f, resolve_direct fs r b p = Some f -> exists m, find_file fs f = Some m.
Proof.
  unfold resolve_direct; intros fs r b p f.
  destruct (lookup p (hints fs)) as [ex|]; [| apply search_find].
  destruct (follow fs b ex) as [c|]; [| apply search_find].
  destruct (try_path fs b c) eqn:Et; [| discriminate | apply search_find].
  intro H; inversion H; subst. eapply try_path_find; eauto.
Qed.

Lemma resolve_fb_shape : forall fs r b p f a s, resolve_fb fs r b p = Some (f, a, s) ->
  (exists m, find_file fs f = Some m) /\
  ((resolve_direct fs r b p = Some f /\ a = p /\ s = None) \/
   (resolve_direct fs r b p = None /\ a = removelast p /\ s = Some (last_seg p) /\ a <> [])).
Proof.
  unfold resolve_fb; intros fs r b p f a s.
  destruct (resolve_direct fs r b p) eqn:E1.
  - intro H; inversion H; subst. split; [eapply resolve_direct_find; eauto | auto].
  - destruct p as [|x [|y t]]; try discriminate.
    destruct (resolve_direct fs r b (removelast (x :: y :: t))) eqn:E2; try discriminate.
    intro H; inversion H; subst. split; [eapply resolve_direct_find; eauto|].
    right. repeat split; auto. cbn. discriminate.
Qed.

(* ================================================================ no divergence (any tree) *)
Definition has_key {A} (k : key) (l : list (key * A)) : Prop := lookup k l <> None.

Lemma has_key_cons : forall A k k' (v : A) l, has_key k l -> has_key k ((k', v) :: l).
Proof.
  unfold has_key; intros A k k' v l H. cbn. destruct (key_eqb k k'); [discriminate | exact H].
Qed.

Definition all_files (fs : fsys) : list fpath := map fst (files fs).

Lemma NoDup_snoc0 : forall A (l : list A) x, NoDup l -> ~ In x l -> NoDup (l ++ [x]).
Proof.
  induction l as [|y l IH]; intros x Hn Hx; cbn.
  - constructor; [intros [] | constructor].
  - inversion Hn; subst. constructor.
    + intro H. apply in_app_or in H as [H|[H|[]]]; [contradiction | subst; apply Hx; left; reflexivity].
    + apply IH; [assumption | intro; apply Hx; right; assumption].
Qed.

(* the top levels of MODULES in an event list (an entry's / a REPL input's own event has key []) *)
Definition mtrace (st : lstate) : list fpath := mtrace_of (events st).

Lemma mtrace_of_app : forall a b, mtrace_of (a ++ b) = mtrace_of a ++ mtrace_of b.
Proof. intros a b. unfold mtrace_of. rewrite filter_app, map_app. reflexivity. Qed.

(* the part of the loader's invariant that does not depend on which program is being run: it
   carries termination AND "at most once", and it holds across the inputs of a REPL session *)
Record dinv (fs : fsys) (st : lstate) : Prop := {
  d_nodup : NoDup (stack st);
  d_incl : incl (stack st) (all_files fs);
  d_loaded : forall k, In k (stack st) -> has_key k (loaded st);
  d_tnodup : NoDup (mtrace st);
  d_towner : forall g, In g (mtrace st) -> has_key g (loaded st) /\ ~ In g (stack st)
}.

Definition extends (st : lstate) (evs : list event) : Prop := exists ext, evs = events st ++ ext.

(* what an error leaves behind: the completed module top levels are still distinct, each is still
   recorded as loaded, none of them is a module that was being loaded when the call started *)
Definition errpost (st s : lstate) : Prop :=
  NoDup (mtrace s) /\
  (forall g, In g (mtrace s) -> has_key g (loaded s) /\ ~ In g (stack st)) /\
  extends st (events s).

Definition dpost {A} (fs : fsys) (st : lstate) (r : res (lstate * A)) : Prop :=
  match r with
  | Ok (st', _) => dinv fs st' /\ stack st' = stack st /\
                   (forall k, has_key k (loaded st) -> has_key k (loaded st')) /\ extends st (events st')
  | Err _ s => errpost st s
  | Fuel => False
  end.

Definition dgood (fs : fsys) (ld : loader) (n : nat) : Prop :=
  forall j s, dinv fs s -> (n + length (stack s) > length (all_files fs))%nat -> dpost fs s (ld j s).

Lemma extends_refl : forall st, extends st (events st).
Proof. intro st; exists []; rewrite app_nil_r; reflexivity. Qed.

Lemma extends_trans : forall a b evs, extends a (events b) -> extends b evs -> extends a evs.
Proof. intros a b evs [e1 H1] [e2 H2]. exists (e1 ++ e2). rewrite H2, H1, app_assoc. reflexivity. Qed.

Lemma dinv_err : forall fs st, dinv fs st -> errpost st st.
Proof.
  intros fs st H. split; [apply (d_tnodup _ _ H)|]. split; [apply (d_towner _ _ H) | apply extends_refl].
Qed.

Lemma errpost_trans : forall a b s, stack b = stack a -> extends a (events b) -> errpost b s -> errpost a s.
Proof.
  intros a b s Hs He (Hn & Ht & Hx). split; [exact Hn|]. split.
  - intros g Hg. destruct (Ht g Hg) as [H1 H2]. rewrite Hs in H2. auto.
  - eapply extends_trans; eauto.
Qed.

Lemma lookup_remove : forall A k f (l : list (key * A)),
  lookup k (remove_key f l) = if key_eqb k f then None else lookup k l.
Proof.
  intros A k f l; induction l as [|[k' v] r IH]; cbn; [destruct (key_eqb k f); reflexivity|].
  destruct (key_eqb f k') eqn:E1.
  - apply key_eqb_eq in E1; subst k'. rewrite IH. destruct (key_eqb k f) eqn:E2; reflexivity.
  - cbn. rewrite IH. destruct (key_eqb k k') eqn:E3; [| reflexivity].
    apply key_eqb_eq in E3; subst k'. destruct (key_eqb k f) eqn:E4; [| reflexivity].
    apply key_eqb_eq in E4; subst. rewrite key_eqb_refl in E1; discriminate.
Qed.

Lemma has_key_remove : forall A k f (l : list (key * A)), k <> f -> has_key k l -> has_key k (remove_key f l).
Proof.
  unfold has_key; intros A k f l Hne H. rewrite lookup_remove. apply key_eqb_neq in Hne. rewrite Hne. exact H.
Qed.

(* forgetting the module that was being loaded keeps the error facts, now relative to the caller *)
Lemma errpost_forget : forall st file s,
  errpost {| loaded := loaded st; stack := file :: stack st; base := base st; ns := ns st; events := events st |} s ->
  errpost st (forget file s).
Proof.
  intros st file s (Hn & Ht & Hx). unfold forget. split; [exact Hn|]. split; [| exact Hx].
  intros g Hg. destruct (Ht g Hg) as [H1 H2]. cbn in H2. split.
  - cbn. apply has_key_remove; [intro; subst; apply H2; left; reflexivity | exact H1].
  - intro Hin. apply H2. right; exact Hin.
Qed.

Lemma go_mod_d : forall fs root ld n imps s acc,
  dgood fs ld n -> dinv fs s -> (n + length (stack s) > length (all_files fs))%nat ->
  dpost fs s (go_mod fs root ld imps s acc).
Proof.
  intros fs root ld n imps; induction imps as [|j r IH]; intros s acc Hld Hinv Hf; cbn.
  - split; [exact Hinv|]. split; [reflexivity|]. split; [auto | apply extends_refl].
  - pose proof (Hld j s Hinv Hf) as Hj.
    destruct (ld j s) as [[s' lr]| |]; cbn in Hj; [| exact Hj | contradiction].
    destruct Hj as (Hinv' & Hs & Hl & He).
    assert (Hf' : (n + length (stack s') > length (all_files fs))%nat) by (rewrite Hs; exact Hf).
    pose proof (IH s' (contrib_mod acc j lr (module_for fs root (base s') j (loaded s'))) Hld Hinv' Hf') as Hr.
    destruct (go_mod fs root ld r s' _) as [[s2 a2]| |]; cbn in *; auto.
    + destruct Hr as (Hi2 & Hs2 & Hl2 & He2). split; [exact Hi2|]. split; [congruence|].
      split; [auto | eapply extends_trans; eauto].
    + eapply errpost_trans; eauto.
Qed.

Lemma compile_d : forall fs root ld n file eimp m st,
  dgood fs ld n -> In file (all_files fs) -> lookup file (loaded st) = None -> i_path eimp <> [] ->
  dinv fs st -> (S n + length (stack st) > length (all_files fs))%nat ->
  dpost fs st (compile fs root ld file eimp m st).
Proof.
  intros fs root ld n file eimp m st Hld Ha Hnl Hep Hinv Hf.
  unfold compile.
  set (info := {| mi_file := file; mi_exports := pub_names m; mi_name := _ |}).
  set (st1 := {| loaded := (file, info) :: loaded st; stack := file :: stack st;
                 base := dir_of file; ns := ns st; events := events st |}).
  assert (Hni : ~ In file (stack st)).
  { intro Hin. apply (d_loaded _ _ Hinv) in Hin. unfold has_key in Hin. congruence. }
  assert (Hinv1 : dinv fs st1).
  { split; cbn.
    - constructor; [exact Hni | apply (d_nodup _ _ Hinv)].
    - intros k [<-|Hk]; [exact Ha | apply (d_incl _ _ Hinv); exact Hk].
    - intros k [<-|Hk]; unfold has_key.
      + rewrite lookup_cons_eq; discriminate.
      + apply has_key_cons. apply (d_loaded _ _ Hinv); exact Hk.
    - apply (d_tnodup _ _ Hinv).
    - intros g Hg. destruct (d_towner _ _ Hinv g Hg) as [Hk Hnk]. split; [apply has_key_cons; exact Hk|].
      intros [<-|Hin]; [unfold has_key in Hk; congruence | contradiction]. }
  assert (Hf1 : (n + length (stack st1) > length (all_files fs))%nat) by (cbn; lia).
  (* an error below: this module is forgotten on the way out *)
  assert (Hforget : forall s, errpost st1 s -> errpost st (forget file s)).
  { intros s (Hn & Ht & Hx). unfold forget. split; [exact Hn|]. split; [| exact Hx].
    intros g Hg. destruct (Ht g Hg) as [H1 H2]. cbn in H2. split.
    - cbn. apply has_key_remove; [intro; subst; apply H2; left; reflexivity | exact H1].
    - intro Hin. apply H2. right; exact Hin. }
  pose proof (go_mod_d fs root ld n (m_imports m) st1 ([], []) Hld Hinv1 Hf1) as Hg.
  destruct (go_mod fs root ld (m_imports m) st1 ([], [])) as [[st2 acc]| |]; cbn in Hg;
    [| apply Hforget; exact Hg | contradiction].
  destruct Hg as (Hi2 & Hs & Hl & He).
  assert (Herr2 : errpost st1 st2).
  { split; [apply (d_tnodup _ _ Hi2)|]. split; [| exact He].
    intros g Hg. destruct (d_towner _ _ Hi2 g Hg) as [H1 H2]. rewrite Hs in H2. auto. }
  destruct (m_fault m =? 1); [apply Hforget; exact Herr2|].
  destruct (m_fault m =? 2).
  { (* it starts and raises: seen, not completed *)
    apply Hforget. destruct Herr2 as (Hn & Ht & [e Hx]).
    assert (Hmt : forall ev0, ev_done ev0 = false -> mtrace_of (events st2 ++ [ev0]) = mtrace st2).
    { intros ev0 Hd. rewrite mtrace_of_app. unfold mtrace_of at 2, is_mod_event. cbn. rewrite Hd, andb_false_r. cbn.
      rewrite app_nil_r. reflexivity. }
    unfold errpost, mtrace. cbn [events loaded]. rewrite Hmt by reflexivity.
    split; [exact Hn|]. split; [exact Ht|]. exists (e ++ [{| ev_file := file; ev_key := i_path eimp; ev_aliases := fst acc;
      ev_known := map d_name (m_defs m) ++ snd acc; ev_ns := ns st2; ev_done := false |}]).
    rewrite Hx. cbn. rewrite app_assoc. reflexivity. }
  set (ev := {| ev_file := file; ev_key := i_path eimp; ev_aliases := fst acc; ev_known := _; ev_ns := _; ev_done := true |}).
  assert (Hmod : is_mod_event ev = true).
  { unfold is_mod_event, ev; cbn. destruct (key_eqb (i_path eimp) []) eqn:Ek; [apply key_eqb_eq in Ek; contradiction | reflexivity]. }
  assert (Hmt : mtrace_of (events st2 ++ [ev]) = mtrace st2 ++ [file]).
  { rewrite mtrace_of_app. unfold mtrace_of at 2. cbn [filter]. rewrite Hmod. reflexivity. }
  assert (Hnotin : ~ In file (mtrace st2)).
  { intro Hin. destruct (d_towner _ _ Hi2 file Hin) as [_ Hnk]. apply Hnk. rewrite Hs. left; reflexivity. }
  assert (Hnd : NoDup (mtrace_of (events st2 ++ [ev]))).
  { rewrite Hmt. apply NoDup_snoc0; [apply (d_tnodup _ _ Hi2) | exact Hnotin]. }
  assert (Hext : extends st (events st2 ++ [ev])).
  { destruct He as [e He]. exists (e ++ [ev]). rewrite He. cbn. rewrite app_assoc. reflexivity. }
  assert (Hown : forall g, In g (mtrace st2 ++ [file]) -> has_key g (loaded st2) /\ ~ In g (stack st)).
  { intros g Hg. apply in_app_or in Hg as [Hg|[<-|[]]].
    - destruct (d_towner _ _ Hi2 g Hg) as [Hk Hnk]. split; [exact Hk|]. intro Hin. apply Hnk. rewrite Hs. right; exact Hin.
    - split; [apply Hl; cbn; unfold has_key; rewrite lookup_cons_eq; discriminate | exact Hni]. }
  match goal with |- context [bind_exports ?a ?b ?c] => destruct (bind_exports a b c) end; cbn.
  - split; [| split; [rewrite Hs; reflexivity | split; [| exact Hext]]].
    + split.
      * cbn. rewrite Hs. cbn. apply (d_nodup _ _ Hinv).
      * cbn. rewrite Hs. cbn. apply (d_incl _ _ Hinv).
      * cbn. rewrite Hs. cbn. intros k Hk. apply Hl. cbn. apply has_key_cons. apply (d_loaded _ _ Hinv); exact Hk.
      * exact Hnd.
      * unfold mtrace; cbn [events stack loaded]. rewrite Hmt, Hs. cbn [tl stack]. exact Hown.
    + intros k Hk. apply Hl. cbn. apply has_key_cons; exact Hk.
  - (* register_exports failed after the body ran: the module IS initialised and stays loaded *)
    unfold errpost, mtrace. cbn [events loaded]. rewrite Hmt. split; [rewrite <- Hmt; exact Hnd|]. split; [exact Hown | exact Hext].
Qed.

Lemma load_step_d : forall fs root ld n, dgood fs ld n -> dgood fs (load_step fs root ld) (S n).
Proof.
  intros fs root ld n Hld i st Hinv Hf. unfold load_step. cbv zeta.
  remember (i_path i) as p eqn:Ep in |- *. symmetry in Ep.
  destruct p as [|x p']; [exact (dinv_err fs st Hinv)|].
  destruct (is_std (x :: p')).
  { cbn. split; [exact Hinv|]. split; [reflexivity|]. split; [auto | apply extends_refl]. }
  destruct (resolve_fb fs root (base st) (x :: p')) as [[[file actual] sym]|] eqn:Er; [| exact (dinv_err fs st Hinv)].
  destruct (resolve_fb_shape _ _ _ _ _ _ _ Er) as [[m Hm] Hshape].
  set (eimp := match sym with Some s => {| i_path := actual; i_form := FSymbols [s] |} | None => i end).
  assert (Hep : i_path eimp <> []).
  { unfold eimp. destruct Hshape as [(_ & -> & ->)|(_ & _ & -> & Hne)]; cbn; [rewrite Ep; discriminate | exact Hne]. }
  destruct (mem_key file (stack st)); [exact (dinv_err fs st Hinv)|].
  destruct (lookup file (loaded st)) as [info|] eqn:El.
  - match goal with |- context [bind_exports ?a ?b ?c] => destruct (bind_exports a b c) end; cbn;
      [| exact (dinv_err fs st Hinv)].
    split; [destruct Hinv; split; assumption|]. split; [reflexivity|]. split; [auto | apply extends_refl].
  - rewrite Hm. eapply compile_d; eauto.
    apply lookup_In in Hm. unfold all_files. change file with (fst (file, m)). apply in_map; exact Hm.
Qed.

Lemma load_d : forall fs root n, dgood fs (load fs root n) n.
Proof.
  intros fs root n; induction n as [|n IH].
  - intros j s Hinv Hf. exfalso.
    pose proof (NoDup_incl_length (d_nodup _ _ Hinv) (d_incl _ _ Hinv)). cbn in Hf. lia.
  - cbn [load]. apply load_step_d; exact IH.
Qed.

Lemma entry_go_d : forall fs root n imps s acc orig,
  dinv fs s -> (n + length (stack s) > length (all_files fs))%nat ->
  match entry_go fs root n imps s acc orig with
  | Ok (s2, _) => dinv fs s2 /\ stack s2 = stack s /\ extends s (events s2)
  | Err _ e => errpost s e
  | Fuel => False
  end.
Proof.
  intros fs root n imps; induction imps as [|j r IH]; intros s acc orig Hinv Hf; cbn.
  - split; [exact Hinv|]. split; [reflexivity | apply extends_refl].
  - pose proof (load_d fs root n j s Hinv Hf) as Hj.
    destruct (load fs root n j s) as [[s' lr]| |]; cbn in Hj; [| exact Hj | contradiction].
    destruct Hj as (Hinv' & Hs & Hl & He).
    destruct (contrib_entry acc orig j lr _) as [[acc' orig']|].
    + assert (Hf' : (n + length (stack s') > length (all_files fs))%nat) by (rewrite Hs; exact Hf).
      pose proof (IH s' acc' orig' Hinv' Hf') as Hr.
      destruct (entry_go fs root n r s' acc' orig') as [[s2 a2]| |]; auto.
      * destruct Hr as (Hi2 & Hs2 & He2). split; [exact Hi2|]. split; [congruence | eapply extends_trans; eauto].
      * eapply errpost_trans; eauto.
    + eapply errpost_trans; [exact Hs | exact He | exact (dinv_err fs s' Hinv')].
Qed.

Lemma init_dinv : forall fs root, dinv fs {| loaded := []; stack := []; base := root; ns := []; events := [] |}.
Proof.
  intros fs root. split; cbn.
  - constructor.
  - intros k [].
  - intros k [].
  - constructor.
  - intros g [].
Qed.

Lemma no_divergence_lemma : forall fs entry fuel,
  (fuel >= fuel_bound fs)%nat -> run fs entry fuel <> Fuel.
Proof.
  intros fs entry fuel Hf. unfold run.
  destruct (find_file fs entry) as [m|] eqn:Em; [| discriminate].
  pose proof (entry_go_d fs (dir_of entry) fuel (m_imports m) (init_state entry) ([], []) []
                (init_dinv fs (dir_of entry))) as H.
  destruct (entry_go fs (dir_of entry) fuel (m_imports m) (init_state entry) ([], []) []) as [[st acc]| |]; try discriminate.
  exfalso. apply H. cbn. unfold fuel_bound, all_files in *. rewrite map_length. lia.
Qed.

(* ---- REPL sessions: at most once over the whole session *)
Lemma skipn_app_length : forall A (a b : list A), skipn (length a) (a ++ b) = b.
Proof. induction a as [|x a IH]; intro b; cbn; [reflexivity | apply IH]. Qed.

Lemma run_input_d : forall fs root fuel name m ss,
  dinv fs (ss_st ss) -> stack (ss_st ss) = [] -> (fuel > length (all_files fs))%nat ->
  match run_input fs root fuel name m ss with
  | Ok (ss', _) => dinv fs (ss_st ss') /\ stack (ss_st ss') = [] /\ extends (ss_st ss) (events (ss_st ss'))
  | Err _ s => errpost (ss_st ss) s
  | Fuel => False
  end.
Proof.
  intros fs root fuel name m ss Hinv Hstk Hf. unfold run_input.
  pose proof (entry_go_d fs root fuel (m_imports m) (ss_st ss) (ss_names ss) [] Hinv) as Hg.
  rewrite Hstk in Hg. cbn in Hg. specialize (Hg ltac:(lia)).
  destruct (entry_go fs root fuel (m_imports m) (ss_st ss) (ss_names ss) []) as [[st acc]| |]; auto.
  destruct Hg as (Hi & Hs & He). cbn.
  destruct (m_fault m =? 1).
  { (* rejected after its imports loaded *)
    split; [apply (d_tnodup _ _ Hi) | split; [| exact He]].
    intros g Hg. split; [apply (d_towner _ _ Hi g Hg) | rewrite Hstk; intros []]. }
  set (ev := {| ev_file := name; ev_key := []; ev_aliases := fst acc; ev_known := _; ev_ns := _; ev_done := true |}).
  assert (Hmt : mtrace_of (events st ++ [ev]) = mtrace st).
  { rewrite mtrace_of_app. unfold mtrace_of at 2. cbn. rewrite app_nil_r. reflexivity. }
  split; [| split; [reflexivity|]].
  - split.
    + cbn. constructor.
    + cbn. intros k [].
    + cbn. intros k [].
    + unfold mtrace; cbn [events ss_st]. rewrite Hmt. apply (d_tnodup _ _ Hi).
    + unfold mtrace; cbn [events ss_st stack loaded]. rewrite Hmt. intros g Hg. split; [apply (d_towner _ _ Hi g Hg) | intros []].
  - destruct He as [e He]. exists (e ++ [ev]). cbn. rewrite He, app_assoc. reflexivity.
Qed.

(* the session record is put back on the error path too (Extracted/ModulesTables.v, from repl.rs):
   what a failing input initialised stays known *)
Lemma after_error_d : forall fs root ss s rej, errpost (ss_st ss) s ->
  dinv fs (ss_st (after_error root ss s rej)) /\ stack (ss_st (after_error root ss s rej)) = [] /\
  events (ss_st (after_error root ss s rej)) = events s.
Proof.
  intros fs root ss s rej (Hn & Ht & _). unfold after_error.
  destruct rej; cbn; (split; [| auto]); split; cbn;
    [constructor | intros k [] | intros k [] | exact Hn | intros g Hg; split; [apply (Ht g Hg) | intros []]
    |constructor | intros k [] | intros k [] | exact Hn | intros g Hg; split; [apply (Ht g Hg) | intros []]].
Qed.

Lemma run_session_d : forall fs root fuel inputs ss,
  dinv fs (ss_st ss) -> stack (ss_st ss) = [] -> (fuel > length (all_files fs))%nat ->
  let rs := run_session fs root fuel inputs ss in
  (forall r, In r rs -> r <> Fuel) /\ NoDup (mtrace_of (events (ss_st ss) ++ session_events rs)).
Proof.
  intros fs root fuel inputs; induction inputs as [|[name m] r IH]; intros ss Hinv Hstk Hf; cbn.
  - split; [intros x [] | rewrite app_nil_r; apply (d_tnodup _ _ Hinv)].
  - pose proof (run_input_d fs root fuel name m ss Hinv Hstk Hf) as Hi.
    destruct (run_input fs root fuel name m ss) as [[ss' ev]|e s|]; [| | contradiction].
    + destruct Hi as (Hinv' & Hstk' & [ext He]).
      destruct (IH ss' Hinv' Hstk' Hf) as [Hnf Hnd]. cbn. rewrite He, skipn_app_length.
      split.
      * intros x [<-|Hx]; [discriminate | apply Hnf; exact Hx].
      * rewrite He in Hnd. rewrite <- app_assoc in Hnd. exact Hnd.
    + set (rej := rejected_after_load fs root fuel m ss).
      destruct (after_error_d fs root ss s rej Hi) as (Hinv' & Hstk' & Hev).
      destruct Hi as (_ & _ & [ext He]).
      destruct (IH (after_error root ss s rej) Hinv' Hstk' Hf) as [Hnf Hnd]. cbn. rewrite He, skipn_app_length.
      split.
      * intros x [<-|Hx]; [discriminate | apply Hnf; exact Hx].
      * rewrite Hev, He in Hnd. rewrite <- app_assoc in Hnd. exact Hnd.
Qed.

Lemma session_init_once_lemma : forall fs root fuel inputs, (fuel >= fuel_bound fs)%nat ->
  let rs := run_session fs root fuel inputs (session_start root) in
  (forall r, In r rs -> r <> Fuel) /\ NoDup (mtrace_of (session_events rs)).
Proof.
  intros fs root fuel inputs Hf.
  apply (run_session_d fs root fuel inputs (session_start root)); cbn.
  - apply init_dinv.
  - reflexivity.
  - unfold fuel_bound, all_files in *. rewrite map_length. lia.
Qed.

(* ================================================================ the DFS is right, for every tree *)
Lemma app_snoc_split : forall A (l : list A) x l1 g l2,
  l ++ [x] = l1 ++ g :: l2 ->
  (l2 = [] /\ l1 = l /\ g = x) \/ (exists l2', l2 = l2' ++ [x] /\ l = l1 ++ g :: l2').
Proof.
  intros A l x l1 g l2. destruct l2 as [|y l2' _] using rev_ind; intro H.
  - left. apply app_inj_tail in H as [H1 H2]. auto.
  - right. exists l2'. replace (l1 ++ g :: l2' ++ [y]) with ((l1 ++ g :: l2') ++ [y]) in H
      by (rewrite <- app_assoc; reflexivity).
    apply app_inj_tail in H as [H1 H2]. subst; auto.
Qed.

Lemma NoDup_snoc : forall A (l : list A) x, NoDup l -> ~ In x l -> NoDup (l ++ [x]).
Proof.
  induction l as [|y l IH]; intros x Hn Hx; cbn.
  - constructor; [intros [] | constructor].
  - inversion Hn; subst. constructor.
    + intro H. apply in_app_or in H as [H|[H|[]]]; [contradiction | subst; apply Hx; left; reflexivity].
    + apply IH; [assumption | intro; apply Hx; right; assumption].
Qed.

Lemma meaning_cases : forall fs root f i g fm, meaning fs root f i = Some (g, fm) ->
  is_std (i_path i) = false /\ (exists m, find_file fs g = Some m) /\
  ((resolve_direct fs root (dir_of f) (i_path i) = Some g /\ fm = i_form i) \/
   (resolve_direct fs root (dir_of f) (i_path i) = None /\ fm = FSymbols [last_seg (i_path i)])).
Proof.
  unfold meaning; intros fs root f i g fm.
  destruct (is_std (i_path i)); [discriminate|].
  destruct (resolve_fb fs root (dir_of f) (i_path i)) as [[[g' a] s]|] eqn:Er; [| discriminate].
  apply resolve_fb_shape in Er as [Hm [(Hd & -> & ->)|(Hd & -> & -> & _)]]; intro H; inversion H; subst; auto.
Qed.

Lemma target_meaning : forall fs root f i g, target fs root f i = Some g <-> exists fm, meaning fs root f i = Some (g, fm).
Proof.
  unfold target; intros fs root f i g. destruct (meaning fs root f i) as [[g' fm]|]; split.
  - intro H; inversion H; eauto.
  - intros [fm' H]; inversion H; reflexivity.
  - discriminate.
  - intros [fm' H]; discriminate.
Qed.

Lemma mem_id_true_In : forall n l, mem_id n l = true -> In n l.
Proof.
  induction l as [|x l IH]; cbn; [discriminate|]. intro H. apply orb_true_iff in H as [H|H].
  - apply N.eqb_eq in H; auto.
  - auto.
Qed.

Lemma check_syms_in : forall l ex s, check_syms l ex s = true -> forall x, In x l -> In x ex.
Proof.
  induction l as [|n r IH]; intros ex s H x Hx; [destruct Hx|]. cbn in H.
  apply andb_true_iff in H as [H1 H2]. destruct Hx as [<-|Hx]; [apply mem_id_true_In; exact H1|].
  destruct (ns_get (GB n) s); [eapply IH; eauto | discriminate].
Qed.

Section Dfs.
Variable fs : fsys.
Variable E : fpath.
Let root := dir_of E.

Definition trace (st : lstate) : list fpath := map ev_file (events st).

Definition info_ok (k : fpath) (info : minfo) : Prop :=
  mi_file info = k /\ exists m', find_file fs k = Some m' /\ mi_exports info = pub_names m'.

Definition ev_ok (ev : event) : Prop :=
  ev_key ev <> [] /\ names_ok fs E ev /\ selected_are_pub fs E (ev_file ev).

Record inv (st : lstate) : Prop := {
  v_nodup : NoDup (stack st);
  v_stack : forall k, In k (stack st) -> has_key k (loaded st);
  v_key : forall k info, lookup k (loaded st) = Some info -> exists f, reachable fs E f /\ edge fs E f k;
  v_done : forall k info, lookup k (loaded st) = Some info -> In k (stack st) \/ In k (trace st);
  v_tnodup : NoDup (trace st);
  v_towner : forall g, In g (trace st) -> has_key g (loaded st) /\ ~ In g (stack st);
  v_post : postorder fs E (trace st);
  v_info : forall k info, lookup k (loaded st) = Some info -> info_ok k info;
  v_evs : forall ev, In ev (events st) -> ev_ok ev
}.

Definition mono (st st' : lstate) : Prop :=
  forall k info, lookup k (loaded st) = Some info -> lookup k (loaded st') = Some info.

Definition frame (st st' : lstate) : Prop :=
  inv st' /\ stack st' = stack st /\ base st' = base st /\ mono st st' /\ (exists ext, trace st' = trace st ++ ext).

(* what a successful load of import i written in file cur guarantees *)
Definition loaded_as (cur : fpath) (i : import) (st' : lstate) : Prop :=
  exists g fm info, meaning fs root cur i = Some (g, fm) /\ In g (trace st') /\
    lookup g (loaded st') = Some info /\
    (forall l s, fm = FSymbols l -> In s l -> In s (mi_exports info)).

Definition lres_spec (cur : fpath) (i : import) : lres :=
  match meaning fs root cur i with
  | Some (_, fm) => lres_of {| i_path := i_path i; i_form := fm |}
  | None => lres_of i
  end.

(* what has run when an error is raised: still at most once, only reachable files, dependencies first *)
Definition errinv (tr : list event) : Prop :=
  let t := map ev_file tr in
  NoDup t /\ (forall f, In f t -> reachable fs E f) /\ postorder fs E t.

Definition vpost (cur : fpath) (i : import) (st : lstate) (r : res (lstate * lres)) : Prop :=
  match r with
  | Ok (st', lr) => frame st st' /\ lr = lres_spec cur i /\ (is_std (i_path i) = false -> loaded_as cur i st')
  | Err _ s => errinv (events s)
  | Fuel => True
  end.

Lemma inv_errinv : forall st, inv st -> errinv (events st).
Proof.
  intros st Hinv. split; [apply (v_tnodup _ Hinv)|]. split; [| apply (v_post _ Hinv)].
  intros f Hf. destruct (v_towner _ Hinv f Hf) as (Hk & _). unfold has_key in Hk.
  destruct (lookup f (loaded st)) as [info|] eqn:Hl; [| contradiction].
  destruct (v_key _ Hinv _ _ Hl) as (f' & Hr' & He'). eapply r_step; eauto.
Qed.

Definition vgood (ld : loader) : Prop :=
  forall cur m i st, reachable fs E cur -> find_file fs cur = Some m -> In i (m_imports m) ->
                     inv st -> base st = dir_of cur -> vpost cur i st (ld i st).

Lemma frame_refl : forall st, inv st -> frame st st.
Proof.
  intros st H. split; [exact H|]. split; [reflexivity|]. split; [reflexivity|]. split.
  - intros k info Hk; exact Hk.
  - exists []; rewrite app_nil_r; reflexivity.
Qed.

Lemma frame_trans : forall a b c, frame a b -> frame b c -> frame a c.
Proof.
  intros a b c (Hi1 & Hs1 & Hb1 & Hm1 & [e1 He1]) (Hi2 & Hs2 & Hb2 & Hm2 & [e2 He2]).
  split; [exact Hi2|]. split; [congruence|]. split; [congruence|]. split.
  - intros k info Hk; auto.
  - exists (e1 ++ e2). rewrite He2, He1, app_assoc; reflexivity.
Qed.

Lemma loaded_as_frame : forall cur i a b, frame a b -> loaded_as cur i a -> loaded_as cur i b.
Proof.
  intros cur i a b (_ & _ & _ & Hm & [ext He]) (g & fm & info & Ht & Hin & Hl & Hsy).
  exists g, fm, info. split; [exact Ht|]. split; [rewrite He; apply in_or_app; left; exact Hin|]. auto.
Qed.

Lemma loaded_as_pub : forall st f m, inv st ->
  (forall j, In j (m_imports m) -> is_std (i_path j) = false -> loaded_as f j st) ->
  find_file fs f = Some m -> selected_are_pub fs E f.
Proof.
  intros st f m Hinv Hall Hm m' j Hm' Hj Hstd. rewrite Hm in Hm'; inversion Hm'; subst m'.
  destruct (Hall j Hj Hstd) as (g & fm & info & Hmean & _ & Hl & Hsy).
  destruct (v_info _ Hinv _ _ Hl) as (_ & mg & Hmg & Hex).
  exists g, fm, mg. split; [exact Hmean|]. split; [exact Hmg|]. intros l s Hf Hs. rewrite <- Hex. eauto.
Qed.

Lemma edge_of_meaning : forall cur m i g fm, find_file fs cur = Some m -> In i (m_imports m) ->
  meaning fs root cur i = Some (g, fm) -> edge fs E cur g.
Proof.
  intros cur m i g fm Hm Hi Hmean. exists m, i. split; [exact Hm|]. split; [exact Hi|].
  apply target_meaning. eauto.
Qed.

(* ---- name sets *)
Ltac iff_tac :=
  let HH := fresh "HH" in
  split; intro HH; repeat (destruct HH as [HH|HH]); subst; auto; try discriminate;
  try (inversion HH; subst; auto); try contradiction.

Definition names_spec (f : fpath) (imps : list import) (acc : names) : Prop :=
  (forall q, In q (fst acc) <-> exists j, In j imps /\ granted_qualifier fs root f j = Some q) /\
  (forall n, In n (snd acc) <-> exists j, In j imps /\ In n (granted_bare fs root f j)).

Lemma names_spec_nil : forall f, names_spec f [] ([], []).
Proof. intro f; split; intro x; cbn; (split; [intros [] | intros (j & [] & _)]). Qed.

Lemma names_spec_snoc : forall f done acc j A' K',
  names_spec f done acc ->
  (forall q, In q A' <-> In q (fst acc) \/ granted_qualifier fs root f j = Some q) ->
  (forall n, In n K' <-> In n (snd acc) \/ In n (granted_bare fs root f j)) ->
  names_spec f (done ++ [j]) (A', K').
Proof.
  intros f done acc j A' K' [H1 H2] HA HK. split; cbn [fst snd].
  - intro q. rewrite HA, H1. split.
    + intros [(x & Hx & Hq)|Hq]; [exists x | exists j]; split; auto; apply in_or_app; [left | right; left]; auto.
    + intros (x & Hx & Hq). apply in_app_or in Hx as [Hx|[<-|[]]]; [left; eauto | right; exact Hq].
  - intro n. rewrite HK, H2. split.
    + intros [(x & Hx & Hq)|Hq]; [exists x | exists j]; split; auto; apply in_or_app; [left | right; left]; auto.
    + intros (x & Hx & Hq). apply in_app_or in Hx as [Hx|[<-|[]]]; [left; eauto | right; exact Hq].
Qed.

(* the grant tables taken from needs.rs / compile.rs are the documented ones *)
Definition documented_grants (tbl : form_kind -> grant) : Prop :=
  tbl KModule = GExports /\ tbl KAlias = GNone /\ tbl KSymbols = GSymbols /\ tbl KWildcard = GExports.
Lemma entry_grant_documented : documented_grants entry_grant.
Proof. repeat split; reflexivity. Qed.
Lemma module_grant_documented : documented_grants module_grant.
Proof. repeat split; reflexivity. Qed.

(* the name sets after one more import, for any loop that uses a documented grant table *)
Lemma contrib_names_spec : forall tbl f done acc j ld g fm info mg,
  documented_grants tbl ->
  names_spec f done acc ->
  meaning fs root f j = Some (g, fm) -> lookup g ld = Some info -> mi_exports info = pub_names mg ->
  find_file fs g = Some mg -> (forall l, i_form j = FSymbols l -> l <> []) ->
  names_spec f (done ++ [j])
    (let acc1 := add_lres acc (lres_of {| i_path := i_path j; i_form := fm |}) in
     match module_for fs root (dir_of f) j ld with
     | Some inf => (fst acc1, granted_names (tbl (kind_of (i_form j))) j inf ++ snd acc1)
     | None => acc1
     end).
Proof.
  intros tbl f done acc j ld g fm info mg (T1 & T2 & T3 & T4) Hs Hmean Hl He Hg Hne.
  destruct (meaning_cases _ _ _ _ _ _ Hmean) as (Hstd & _ & [[Hd ->]|[Hd ->]]).
  - (* the path names a module *)
    assert (HG : granted_bare fs root f j =
                 match i_form j with FModule | FWildcard => pub_names mg | FSymbols l => l | FAlias _ => [] end).
    { unfold granted_bare. rewrite Hmean, Hg. reflexivity. }
    assert (HQ : granted_qualifier fs root f j =
                 match i_form j with FModule | FWildcard => Some (last_seg (i_path j)) | FAlias a => Some a | FSymbols _ => None end).
    { unfold granted_qualifier. rewrite Hstd, Hmean. destruct (i_form j); reflexivity. }
    unfold module_for. rewrite Hd, Hl. unfold lres_of. cbn [i_form i_path].
    destruct (i_form j) as [|a|l|] eqn:Ef; cbn [add_lres fst snd kind_of]; rewrite ?T1, ?T2, ?T3, ?T4;
      cbn [granted_names]; rewrite ?Ef, ?He;
      apply (names_spec_snoc _ done acc j _ _ Hs); rewrite ?HG, ?HQ; clear HG HQ;
      intro x; cbn [In]; rewrite ?in_app_iff; cbn [In].
    all: try solve [iff_tac].
    iff_tac. right. destruct l as [|y l']; [exfalso; eapply Hne; eauto | left; reflexivity].
  - (* `needs m.s`: one selected symbol *)
    assert (HG : granted_bare fs root f j = [last_seg (i_path j)]).
    { unfold granted_bare. rewrite Hmean, Hg. reflexivity. }
    assert (HQ : granted_qualifier fs root f j = None).
    { unfold granted_qualifier. rewrite Hstd, Hmean. reflexivity. }
    unfold module_for. rewrite Hd. unfold lres_of. cbn [i_form i_path hd add_lres fst snd].
    apply (names_spec_snoc _ done acc j _ _ Hs); rewrite ?HG, ?HQ; clear HG HQ; intro x; cbn [In fst snd]; iff_tac.
Qed.

Lemma contrib_mod_spec : forall f done acc j ld g fm info mg,
  names_spec f done acc ->
  meaning fs root f j = Some (g, fm) -> lookup g ld = Some info -> mi_exports info = pub_names mg ->
  find_file fs g = Some mg -> (forall l, i_form j = FSymbols l -> l <> []) ->
  names_spec f (done ++ [j])
    (contrib_mod acc j (lres_of {| i_path := i_path j; i_form := fm |}) (module_for fs root (dir_of f) j ld)).
Proof.
  intros f done acc j ld g fm info mg Hs Hmean Hl He Hg Hne.
  exact (contrib_names_spec module_grant f done acc j ld g fm info mg module_grant_documented Hs Hmean Hl He Hg Hne).
Qed.

Lemma contrib_entry_spec : forall f done acc orig j ld g fm info mg acc' orig',
  names_spec f done acc ->
  meaning fs root f j = Some (g, fm) -> lookup g ld = Some info -> mi_exports info = pub_names mg ->
  find_file fs g = Some mg -> (forall l, i_form j = FSymbols l -> l <> []) ->
  contrib_entry acc orig j (lres_of {| i_path := i_path j; i_form := fm |}) (module_for fs root (dir_of f) j ld)
    = Some (acc', orig') ->
  names_spec f (done ++ [j]) acc'.
Proof.
  intros f done acc orig j ld g fm info mg acc' orig' Hs Hmean Hl He Hg Hne Hc.
  pose proof (contrib_names_spec entry_grant f done acc j ld g fm info mg entry_grant_documented Hs Hmean Hl He Hg Hne) as Hm.
  cbv zeta in Hm. unfold contrib_entry in Hc.
  destruct (module_for fs root (dir_of f) j ld) as [inf|]; [| inversion Hc; subst; exact Hm].
  match type of Hc with (if ?c then _ else _) = _ => destruct c end; [discriminate|].
  inversion Hc; subst. exact Hm.
Qed.

Lemma go_mod_v : forall ld file m, vgood ld -> reachable fs E file -> find_file fs file = Some m ->
  forall imps done s acc, done ++ imps = m_imports m -> inv s -> base s = dir_of file ->
  (forall j, In j done -> is_std (i_path j) = false -> loaded_as file j s) ->
  (no_std_imports m -> nonempty_symbols m -> names_spec file done acc) ->
  match go_mod fs root ld imps s acc with
  | Ok (s2, acc2) => frame s s2 /\
      (forall j, In j (m_imports m) -> is_std (i_path j) = false -> loaded_as file j s2) /\
      (no_std_imports m -> nonempty_symbols m -> names_spec file (m_imports m) acc2)
  | Err _ s => errinv (events s)
  | Fuel => True
  end.
Proof.
  intros ld file m Hld Hr Hm imps; induction imps as [|j r IH]; intros done s acc Hsplit Hinv Hb Hdone Hacc; cbn.
  - rewrite app_nil_r in Hsplit; subst done. split; [apply frame_refl; exact Hinv | auto].
  - assert (Hjin : In j (m_imports m)) by (rewrite <- Hsplit; apply in_or_app; right; left; reflexivity).
    pose proof (Hld file m j s Hr Hm Hjin Hinv Hb) as Hj.
    destruct (ld j s) as [[s' lr]| |]; cbn in Hj; auto.
    destruct Hj as (Hfr & -> & Htj). pose proof Hfr as (Hi' & Hs' & Hb' & Hm' & He').
    assert (Hb2 : base s' = dir_of file) by congruence.
    assert (Hsplit2 : (done ++ [j]) ++ r = m_imports m) by (rewrite <- app_assoc; exact Hsplit).
    assert (Hdone2 : forall x, In x (done ++ [j]) -> is_std (i_path x) = false -> loaded_as file x s').
    { intros x Hx Hstd. apply in_app_or in Hx as [Hx|[<-|[]]].
      - eapply loaded_as_frame; eauto.
      - auto. }
    assert (Hacc2 : no_std_imports m -> nonempty_symbols m ->
              names_spec file (done ++ [j]) (contrib_mod acc j (lres_spec file j) (module_for fs root (base s') j (loaded s')))).
    { intros Hns Hne. destruct (Htj (Hns j Hjin)) as (g & fm & info & Hmean & _ & Hl & _).
      destruct (v_info _ Hi' _ _ Hl) as (_ & mg & Hmg & Hex).
      unfold lres_spec. rewrite Hmean, Hb2.
      eapply contrib_mod_spec; eauto. }
    pose proof (IH (done ++ [j]) s' _ Hsplit2 Hi' Hb2 Hdone2 Hacc2) as Hrest.
    destruct (go_mod fs root ld r s' _) as [[s2 a2]| |]; auto.
    destruct Hrest as (Hfr2 & Hall & Hnames). split; [eapply frame_trans; eauto | auto].
Qed.

Lemma snoc_errinv : forall st2 file ev, inv st2 -> ~ In file (trace st2) -> reachable fs E file ->
  (forall h, edge fs E file h -> In h (trace st2)) -> ev_file ev = file -> errinv (events st2 ++ [ev]).
Proof.
  intros st2 file ev Hinv Hn Hr Hed Hev. destruct (inv_errinv st2 Hinv) as (Hnd & Hre & Hpo).
  unfold errinv. rewrite map_app. cbn [map]. rewrite Hev. fold (trace st2) in *.
  split; [apply NoDup_snoc; assumption|]. split.
  - intros f Hf. apply in_app_or in Hf as [Hf|[<-|[]]]; auto.
  - intros l1 g l2 Heq h Hgh. apply app_snoc_split in Heq as [(-> & -> & ->)|(l2' & -> & Heq)].
    + apply Hed; exact Hgh.
    + eapply Hpo; eauto.
Qed.

Lemma push_inv : forall cur mc i file fm m st nm,
  reachable fs E cur -> find_file fs cur = Some mc -> In i (m_imports mc) ->
  meaning fs root cur i = Some (file, fm) -> inv st ->
  ~ In file (stack st) -> lookup file (loaded st) = None -> find_file fs file = Some m ->
  inv {| loaded := (file, {| mi_file := file; mi_exports := pub_names m; mi_name := nm |}) :: loaded st;
         stack := file :: stack st; base := dir_of file; ns := ns st; events := events st |}.
Proof.
  intros cur mc i file fm m st nm Hr Hmc Hi Hmean Hinv Hns Hnl Hm.
  pose proof (edge_of_meaning cur mc i file fm Hmc Hi Hmean) as Hedge.
  split; cbn.
  - constructor; [exact Hns | apply (v_nodup _ Hinv)].
  - intros k [<-|Hk]; unfold has_key.
    + rewrite lookup_cons_eq; discriminate.
    + apply has_key_cons, (v_stack _ Hinv), Hk.
  - intros k inf. destruct (key_eqb k file) eqn:Ek.
    + apply key_eqb_eq in Ek; subst k. intros _. eauto.
    + apply (v_key _ Hinv).
  - intros k inf. destruct (key_eqb k file) eqn:Ek.
    + apply key_eqb_eq in Ek; subst k. intros _; left; left; reflexivity.
    + intro H. destruct (v_done _ Hinv k inf H) as [H1|H1]; [left; right; exact H1 | right; exact H1].
  - apply (v_tnodup _ Hinv).
  - intros g Hg. destruct (v_towner _ Hinv g Hg) as (Hk & Hnk).
    assert (g <> file) by (intro; subst g; unfold has_key in Hk; congruence).
    split; [apply has_key_cons; exact Hk | intros [Heq|Hin]; [congruence | contradiction]].
  - apply (v_post _ Hinv).
  - intros k inf. destruct (key_eqb k file) eqn:Ek.
    + apply key_eqb_eq in Ek; subst k. intro H; inversion H; subst inf. split; [reflexivity | exists m; auto].
    + apply (v_info _ Hinv).
  - apply (v_evs _ Hinv).
Qed.

Lemma compile_v : forall ld cur mc i file fm m st,
  vgood ld -> reachable fs E cur -> find_file fs cur = Some mc -> In i (m_imports mc) ->
  meaning fs root cur i = Some (file, fm) -> i_path i <> [] -> inv st -> base st = dir_of cur ->
  ~ In file (stack st) -> lookup file (loaded st) = None -> find_file fs file = Some m ->
  forall eimp, i_form eimp = fm -> i_path eimp <> [] -> lres_of eimp = lres_spec cur i ->
  vpost cur i st (compile fs root ld file eimp m st).
Proof.
  intros ld cur mc i file fm m st Hld Hr Hmc Hi Hmean Hne Hinv Hb Hns Hnl Hm eimp Hef Hep Hlr.
  unfold compile.
  set (info := {| mi_file := file; mi_exports := pub_names m; mi_name := _ |}).
  set (st1 := {| loaded := (file, info) :: loaded st; stack := file :: stack st;
                 base := dir_of file; ns := ns st; events := events st |}).
  assert (Hrf : reachable fs E file) by (eapply r_step; [exact Hr | eapply edge_of_meaning; eauto]).
  assert (Hinv1 : inv st1) by exact (push_inv cur mc i file fm m st _ Hr Hmc Hi Hmean Hinv Hns Hnl Hm).
  pose proof (go_mod_v ld file m Hld Hrf Hm (m_imports m) [] st1 ([], []) eq_refl Hinv1 eq_refl
                (fun j Hj => match Hj with end) (fun _ _ => names_spec_nil _)) as Hg.
  destruct (go_mod fs root ld (m_imports m) st1 ([], [])) as [[st2 acc]| |]; auto.
  destruct Hg as ((Hi2 & Hs2 & Hb2 & Hm2 & [ext Hext]) & Hall & Hnames).
  assert (Hnotin0 : ~ In file (trace st2)).
  { intro Hin. destruct (v_towner _ Hi2 file Hin) as (_ & Hnk). apply Hnk. rewrite Hs2. left; reflexivity. }
  assert (Hdeps : forall h, edge fs E file h -> In h (trace st2)).
  { intros h (m' & j & Hm' & Hj & Htj). rewrite Hm in Hm'; inversion Hm'; subst m'.
    apply target_meaning in Htj as [fmj Hmj].
    destruct (meaning_cases _ _ _ _ _ _ Hmj) as (Hstdj & _).
    destruct (Hall j Hj Hstdj) as (g' & fm' & inf & Hg' & Hin & _). fold root in Hmj. congruence. }
  destruct (m_fault m =? 1); [exact (inv_errinv st2 Hi2)|].
  destruct (m_fault m =? 2); [cbn; apply (snoc_errinv st2 file); auto|].
  destruct (bind_exports eimp (pub_names m) (write_defs file m (ns st2))) as [s2|] eqn:Hbind; cbn;
    [| apply (snoc_errinv st2 file); auto].
  set (ev := {| ev_file := file; ev_key := i_path eimp; ev_aliases := fst acc; ev_known := _; ev_ns := _ |}).
  set (st' := {| loaded := loaded st2; stack := tl (stack st2); base := base st; ns := s2; events := events st2 ++ [ev] |}).
  assert (Htr : trace st' = trace st2 ++ [file]) by (unfold trace, st'; cbn; rewrite map_app; reflexivity).
  assert (Hstk : stack st' = stack st) by (unfold st'; cbn; rewrite Hs2; reflexivity).
  assert (Hlp : lookup file (loaded st2) = Some info) by (apply Hm2; cbn; apply lookup_cons_eq).
  assert (Hnotin : ~ In file (trace st2)).
  { intro Hin. destruct (v_towner _ Hi2 file Hin) as (_ & Hnk). apply Hnk. rewrite Hs2. left; reflexivity. }
  assert (Hinv' : inv st').
  { split.
    - rewrite Hstk; apply (v_nodup _ Hinv).
    - rewrite Hstk. intros k Hk. unfold st'; cbn. pose proof (v_stack _ Hinv k Hk) as Hh.
      unfold has_key in *. destruct (lookup k (loaded st)) as [inf|] eqn:El; [| contradiction].
      assert (lookup k (loaded st1) = Some inf).
      { cbn. destruct (key_eqb k file) eqn:Ek; [apply key_eqb_eq in Ek; subst; congruence | exact El]. }
      rewrite (Hm2 _ _ H); discriminate.
    - unfold st'; cbn. apply (v_key _ Hi2).
    - rewrite Hstk, Htr. unfold st'; cbn. intros k inf Hl.
      destruct (v_done _ Hi2 k inf Hl) as [Hk|Hk].
      + rewrite Hs2 in Hk. destruct Hk as [<-|Hk]; [| left; exact Hk].
        right. apply in_or_app; right; left; reflexivity.
      + right; apply in_or_app; left; exact Hk.
    - rewrite Htr. apply NoDup_snoc; [apply (v_tnodup _ Hi2) | exact Hnotin].
    - rewrite Hstk, Htr. unfold st'; cbn. intros g Hg. apply in_app_or in Hg as [Hg|[<-|[]]].
      + destruct (v_towner _ Hi2 g Hg) as (Hk & Hnk). split; [exact Hk|].
        intro Hin. apply Hnk. rewrite Hs2. right; exact Hin.
      + split; [unfold has_key; rewrite Hlp; discriminate | exact Hns].
    - rewrite Htr. intros l1 g l2 Heq h Hed.
      apply app_snoc_split in Heq as [(-> & -> & ->)|(l2' & -> & Heq)].
      + destruct Hed as (m' & j & Hm' & Hj & Htj). rewrite Hm in Hm'; inversion Hm'; subst m'.
        apply target_meaning in Htj as [fmj Hmj].
        destruct (meaning_cases _ _ _ _ _ _ Hmj) as (Hstdj & _).
        destruct (Hall j Hj Hstdj) as (g' & fm' & inf & Hg' & Hin & _). fold root in Hmj. congruence.
      + eapply (v_post _ Hi2); eauto.
    - unfold st'; cbn. apply (v_info _ Hi2).
    - unfold st'; cbn. intros e He. apply in_app_or in He as [He|[<-|[]]]; [apply (v_evs _ Hi2); exact He|].
      split; [exact Hep|]. split; [| exact (loaded_as_pub st2 file m Hi2 Hall Hm)].
      intros m' Hm' Hnostd Hnes. cbn in Hm'. rewrite Hm in Hm'; inversion Hm'; subst m'.
      destruct (Hnames Hnostd Hnes) as [HA HK]. split; cbn [ev_aliases ev_known ev ev_file]; [exact HA|].
      intro n. rewrite in_app_iff, HK. reflexivity. }
  split.
  - split; [exact Hinv'|]. split; [exact Hstk|]. split; [reflexivity|]. split.
    + intros k inf Hl. unfold st'; cbn. apply Hm2. cbn.
      destruct (key_eqb k file) eqn:Ek; [apply key_eqb_eq in Ek; subst; congruence | exact Hl].
    + exists (ext ++ [file]). change (trace st' = trace st ++ ext ++ [file]). rewrite Htr, Hext. unfold st1, trace; cbn. rewrite app_assoc; reflexivity.
  - split; [exact Hlr|]. intros _. exists file, fm, info. split; [exact Hmean|].
    split; [change (In file (trace st')); rewrite Htr; apply in_or_app; right; left; reflexivity|].
    split; [exact Hlp|].
    (* the selected symbols were checked against the exports by register_exports *)
    intros l s Hfm Hs. unfold bind_exports in Hbind. rewrite Hef, Hfm in Hbind.
    destruct (check_syms l (pub_names m) (write_defs file m (ns st2))) eqn:Hc; [| discriminate].
    cbn. eapply check_syms_in; eauto.
Qed.

Lemma load_step_v : forall ld, vgood ld -> vgood (load_step fs root ld).
Proof.
  intros ld Hld cur mc i st Hr Hmc Hi Hinv Hb. unfold load_step. cbv zeta.
  remember (i_path i) as p eqn:Ep in |- *. symmetry in Ep. destruct p as [|x p']; [exact (inv_errinv st Hinv)|].
  destruct (is_std (x :: p')) eqn:Estd.
  { cbn. split; [apply frame_refl; exact Hinv|]. split.
    - unfold lres_spec, meaning. rewrite Ep, Estd. reflexivity.
    - rewrite Ep, Estd; discriminate. }
  assert (Hstd : is_std (i_path i) = false) by (rewrite Ep; exact Estd).
  rewrite Hb. destruct (resolve_fb fs root (dir_of cur) (x :: p')) as [[[file actual] sym]|] eqn:Er; [| exact (inv_errinv st Hinv)].
  set (eimp := match sym with Some s => {| i_path := actual; i_form := FSymbols [s] |} | None => i end).
  set (fm := match sym with Some s => FSymbols [s] | None => i_form i end).
  assert (Hmean : meaning fs root cur i = Some (file, fm)).
  { unfold meaning, fm. rewrite Hstd, Ep, Er. destruct sym; reflexivity. }
  assert (Hef : i_form eimp = fm) by (unfold eimp, fm; destruct sym; reflexivity).
  assert (Hlr : lres_of eimp = lres_spec cur i).
  { unfold lres_spec. rewrite Hmean. unfold eimp, fm, lres_of. destruct sym; reflexivity. }
  assert (Hep : i_path eimp <> []).
  { unfold eimp. destruct (resolve_fb_shape _ _ _ _ _ _ _ Er) as [_ [(_ & -> & ->)|(_ & _ & -> & Hne)]]; cbn.
    - rewrite Ep; discriminate.
    - exact Hne. }
  destruct (mem_key file (stack st)) eqn:Emem; [exact (inv_errinv st Hinv)|].
  apply mem_key_false in Emem.
  destruct (lookup file (loaded st)) as [info|] eqn:El.
  - destruct (bind_exports eimp (mi_exports info) (ns st)) as [s|] eqn:Hbind; cbn; [| exact (inv_errinv st Hinv)].
    assert (Hinv' : inv (set_ns st s)) by (destruct Hinv; split; assumption).
    split.
    + split; [exact Hinv'|]. split; [reflexivity|]. split; [reflexivity|]. split.
      * intros k inf Hk; exact Hk.
      * exists []; rewrite app_nil_r; reflexivity.
    + split; [exact Hlr|].
      intros _. exists file, fm, info. split; [exact Hmean|].
      split; [destruct (v_done _ Hinv _ _ El) as [Hk|Hk]; [contradiction | exact Hk]|].
      split; [exact El|].
      intros l s0 Hfm Hs. unfold bind_exports in Hbind. rewrite Hef, Hfm in Hbind.
      destruct (check_syms l (mi_exports info) (ns st)) eqn:Hc; [| discriminate].
      eapply check_syms_in; eauto.
  - pose proof Er as Er'. apply resolve_fb_shape in Er' as [[m Hm] _]. rewrite Hm.
    eapply compile_v; eauto. rewrite Ep; discriminate.
Qed.

Lemma load_v : forall n, vgood (load fs root n).
Proof.
  induction n as [|n IH]; [intros cur m i st _ _ _ _ _; exact I | cbn [load]; apply load_step_v; exact IH].
Qed.

Lemma entry_go_v : forall n me, find_file fs E = Some me ->
  forall imps done s acc orig, done ++ imps = m_imports me -> inv s -> base s = dir_of E ->
  (forall j, In j done -> is_std (i_path j) = false -> loaded_as E j s) ->
  (no_std_imports me -> nonempty_symbols me -> names_spec E done acc) ->
  match entry_go fs root n imps s acc orig with
  | Ok (s2, acc2) => frame s s2 /\
      (forall j, In j (m_imports me) -> is_std (i_path j) = false -> loaded_as E j s2) /\
      (no_std_imports me -> nonempty_symbols me -> names_spec E (m_imports me) acc2)
  | Err _ s => errinv (events s)
  | Fuel => True
  end.
Proof.
  intros n me Hme imps; induction imps as [|j r IH]; intros done s acc orig Hsplit Hinv Hb Hdone Hacc; cbn.
  - rewrite app_nil_r in Hsplit; subst done. split; [apply frame_refl; exact Hinv | auto].
  - assert (Hjin : In j (m_imports me)) by (rewrite <- Hsplit; apply in_or_app; right; left; reflexivity).
    pose proof (load_v n E me j s (r_refl fs E) Hme Hjin Hinv Hb) as Hj.
    destruct (load fs root n j s) as [[s' lr]| |]; cbn in Hj; auto.
    destruct Hj as (Hfr & -> & Htj). pose proof Hfr as (Hi' & Hs' & Hb' & Hm' & He').
    destruct (contrib_entry acc orig j (lres_spec E j) (module_for fs root (base s') j (loaded s')))
      as [[acc' orig']|] eqn:Ec; [| exact (inv_errinv s' Hi')].
    assert (Hb2 : base s' = dir_of E) by congruence.
    assert (Hsplit2 : (done ++ [j]) ++ r = m_imports me) by (rewrite <- app_assoc; exact Hsplit).
    assert (Hdone2 : forall x, In x (done ++ [j]) -> is_std (i_path x) = false -> loaded_as E x s').
    { intros x Hx Hstd. apply in_app_or in Hx as [Hx|[<-|[]]].
      - eapply loaded_as_frame; eauto.
      - auto. }
    assert (Hacc2 : no_std_imports me -> nonempty_symbols me -> names_spec E (done ++ [j]) acc').
    { intros Hns Hnes. destruct (Htj (Hns j Hjin)) as (g & fm & info & Hmean & _ & Hl & _).
      destruct (v_info _ Hi' _ _ Hl) as (_ & mg & Hmg & Hex).
      unfold lres_spec in Ec. rewrite Hmean, Hb2 in Ec.
      eapply contrib_entry_spec; eauto. }
    pose proof (IH (done ++ [j]) s' acc' orig' Hsplit2 Hi' Hb2 Hdone2 Hacc2) as Hrest.
    destruct (entry_go fs root n r s' acc' orig') as [[s2 a2]| |]; auto.
    destruct Hrest as (Hfr2 & Hall & Hnames). split; [eapply frame_trans; eauto | auto].
Qed.

Lemma reach_edge_plus : forall f h, reachable fs E f -> edge fs E f h -> path_plus fs E E h.
Proof.
  intros f h Hr; revert h. induction Hr as [|g f Hr IH Hgf]; intros h Hh.
  - apply pp_one; exact Hh.
  - eapply pp_step; [apply IH; exact Hgf | exact Hh].
Qed.

Lemma po_before : forall l, postorder fs E l -> forall g h, path_plus fs E g h -> In g l ->
  exists l1 l2, l = l1 ++ g :: l2 /\ In h l1.
Proof.
  intros l Hpo g h Hp; induction Hp as [g h He | g g' h Hp IH He]; intro Hin.
  - apply in_split in Hin as (l1 & l2 & ->). exists l1, l2; split; [reflexivity|]. eapply Hpo; eauto.
  - destruct (IH Hin) as (l1 & l2 & -> & Hg'). exists l1, l2; split; [reflexivity|].
    apply in_split in Hg' as (a & b & ->).
    assert (In h a).
    { eapply (Hpo a g' (b ++ g :: l2)); [| exact He]. rewrite <- app_assoc; reflexivity. }
    apply in_or_app; left; assumption.
Qed.

Lemma po_no_cycle : forall l, postorder fs E l -> NoDup l -> forall g, path_plus fs E g g -> ~ In g l.
Proof.
  intros l Hpo Hnd g Hp Hin. destruct (po_before l Hpo g g Hp Hin) as (l1 & l2 & -> & Hg).
  apply NoDup_remove_2 in Hnd. apply Hnd. apply in_or_app; left; exact Hg.
Qed.

Lemma init_inv : inv (init_state E).
Proof.
  split; cbn.
  - constructor.
  - intros k [].
  - intros k info Hl; discriminate.
  - intros k info Hl; discriminate.
  - constructor.
  - intros g [].
  - intros l1 g l2 Hl. destruct l1; discriminate.
  - intros k info Hl; discriminate.
  - intros ev [].
Qed.

Lemma run_trace : forall fuel evs, run fs E fuel = Ok evs ->
  let tr := map ev_file evs in
  NoDup tr /\ (forall f, In f tr <-> reachable fs E f) /\ postorder fs E tr /\ (exists l, tr = l ++ [E]).
Proof.
  intros fuel evs. unfold run. fold root.
  destruct (find_file fs E) as [me|] eqn:Hme; [| discriminate].
  pose proof (entry_go_v fuel me Hme (m_imports me) [] (init_state E) ([], []) [] eq_refl init_inv eq_refl
                (fun j Hj => match Hj with end) (fun _ _ => names_spec_nil _)) as Hg.
  destruct (entry_go fs root fuel (m_imports me) (init_state E) ([], []) []) as [[st acc]| |]; try discriminate.
  destruct Hg as ((Hinv & _ & _ & _ & _) & Hall & _).
  intro Hev; inversion Hev; subst evs; clear Hev. cbv zeta. rewrite map_app. cbn [map ev_file].
  fold (trace st).
  assert (Hpo : postorder fs E (trace st ++ [E])).
  { intros l1 g l2 Heq h Hed.
    apply app_snoc_split in Heq as [(-> & -> & ->)|(l2' & -> & Heq)].
    - destruct Hed as (m' & j & Hm' & Hj & Htj). rewrite Hme in Hm'; inversion Hm'; subst m'.
      apply target_meaning in Htj as [fmj Hmj].
      destruct (meaning_cases _ _ _ _ _ _ Hmj) as (Hstdj & _).
      destruct (Hall j Hj Hstdj) as (g' & fm' & inf & Hg' & Hin & _). fold root in Hmj. congruence.
    - eapply (v_post _ Hinv); eauto. }
  assert (Hreach : forall f, In f (trace st) -> exists f', reachable fs E f' /\ edge fs E f' f).
  { intros f Hf. destruct (v_towner _ Hinv f Hf) as (Hk & _). unfold has_key in Hk.
    destruct (lookup f (loaded st)) as [info|] eqn:Hl; [| contradiction].
    eapply (v_key _ Hinv); eauto. }
  assert (HnE : ~ In E (trace st)).
  { intro HE. destruct (Hreach E HE) as (f' & Hr' & He').
    eapply (po_no_cycle (trace st) (v_post _ Hinv) (v_tnodup _ Hinv) E); [| exact HE].
    eapply reach_edge_plus; eauto. }
  split; [apply NoDup_snoc; [apply (v_tnodup _ Hinv) | exact HnE]|].
  split; [| split; [exact Hpo | eexists; reflexivity]].
  intro f; split.
  - intro Hf. apply in_app_or in Hf as [Hf|[<-|[]]]; [| apply r_refl].
    destruct (Hreach f Hf) as (f' & Hr' & He'). eapply r_step; eauto.
  - intro Hr. induction Hr as [|g h Hr IH Hgh].
    + apply in_or_app; right; left; reflexivity.
    + apply in_split in IH as (l1 & l2 & Heq). rewrite Heq.
      apply in_or_app; left. eapply Hpo; eauto.
Qed.

(* whatever the outcome: what ran, ran once, is reachable, and ran after its dependencies *)
Lemma run_err_trace : forall fuel e s, run fs E fuel = Err e s ->
  let t := map ev_file (events s) in
  NoDup t /\ (forall f, In f t -> reachable fs E f) /\ postorder fs E t.
Proof.
  intros fuel e s0. unfold run. fold root.
  destruct (find_file fs E) as [me|] eqn:Hme.
  - pose proof (entry_go_v fuel me Hme (m_imports me) [] (init_state E) ([], []) [] eq_refl init_inv eq_refl
                  (fun j Hj => match Hj with end) (fun _ _ => names_spec_nil _)) as Hg.
    destruct (entry_go fs root fuel (m_imports me) (init_state E) ([], []) []) as [[st acc]| |]; try discriminate.
    intro H; inversion H; subst. exact Hg.
  - intro H; inversion H; subst. cbn. split; [constructor|]. split; [intros f []|].
    intros l1 g l2 Hl. destruct l1; discriminate.
Qed.

Lemma run_cycle : forall fuel evs f, run fs E fuel = Ok evs -> reachable fs E f -> path_plus fs E f f -> False.
Proof.
  intros fuel evs f Hrun Hr Hp. destruct (run_trace fuel evs Hrun) as (Hnd & Hcov & Hpo & _).
  eapply po_no_cycle; eauto. apply Hcov; exact Hr.
Qed.

(* compile-time name sets of every top level that ran *)
Lemma run_names : forall fuel evs, run fs E fuel = Ok evs -> forall ev, In ev evs ->
  names_ok fs E ev /\ selected_are_pub fs E (ev_file ev).
Proof.
  intros fuel evs. unfold run. fold root.
  destruct (find_file fs E) as [me|] eqn:Hme; [| discriminate].
  pose proof (entry_go_v fuel me Hme (m_imports me) [] (init_state E) ([], []) [] eq_refl init_inv eq_refl
                (fun j Hj => match Hj with end) (fun _ _ => names_spec_nil _)) as Hg.
  destruct (entry_go fs root fuel (m_imports me) (init_state E) ([], []) []) as [[st acc]| |]; try discriminate.
  destruct Hg as ((Hinv & _ & _ & _ & _) & Hall & Hnames).
  intro Hrun; inversion Hrun; subst evs; clear Hrun.
  intros ev Hev. apply in_app_or in Hev as [Hev|[<-|[]]].
  - destruct (v_evs _ Hinv ev Hev) as (_ & H1 & H2). auto.
  - split; [| exact (loaded_as_pub st E me Hinv Hall Hme)].
    intros m' Hm' Hns Hne. cbn [ev_file] in Hm'. rewrite Hme in Hm'; inversion Hm'; subst m'.
    destruct (Hnames Hns Hne) as [HA HK]. split; cbn [ev_aliases ev_known ev_file]; [exact HA|].
    intro n. rewrite in_app_iff, HK. reflexivity.
Qed.

(* ---- boundness of global names *)
Definition bound (g : gname) (s : nsmap) : Prop := ns_get g s <> None.
Definition nsmono (s s' : nsmap) : Prop := forall g, bound g s -> bound g s'.

Lemma bound_set : forall g g' v s, bound g s -> bound g (ns_set g' v s).
Proof. unfold bound, ns_set; intros g g' v s H; cbn. destruct (gname_eqb g g'); [discriminate | exact H]. Qed.
Lemma gname_eqb_refl : forall g, gname_eqb g g = true.
Proof. destruct g; cbn; rewrite ?N.eqb_refl; reflexivity. Qed.
Lemma bound_set_same : forall g v s, bound g (ns_set g v s).
Proof. unfold bound, ns_set; intros; cbn. rewrite gname_eqb_refl; discriminate. Qed.

Lemma write_defs_fold_mono : forall f ds s, nsmono s (fold_left (fun s d => ns_set (GB (d_name d)) (f, d_name d) s) ds s).
Proof.
  intros f ds; induction ds as [|d r IH]; intros s g Hg; cbn; [exact Hg|]. apply IH. apply bound_set; exact Hg.
Qed.
Lemma write_defs_binds : forall f m s d, In d (m_defs m) -> bound (GB (d_name d)) (write_defs f m s).
Proof.
  intros f m s d. unfold write_defs. generalize (m_defs m) s. intros ds; induction ds as [|x r IH]; intros s0 Hd; [destruct Hd|].
  destruct Hd as [<-|Hd]; cbn.
  - apply write_defs_fold_mono. apply bound_set_same.
  - apply IH; exact Hd.
Qed.
Lemma pub_names_defs : forall m n, In n (pub_names m) -> exists d, In d (m_defs m) /\ d_name d = n.
Proof.
  unfold pub_names; intros m n H. apply in_map_iff in H as (d & Hn & Hd). apply filter_In in Hd as [Hd _]. eauto.
Qed.

Lemma bind_all_some : forall al bare ex s, (forall n, In n ex -> bound (GB n) s) ->
  exists s', bind_all al bare ex s = Some s' /\ nsmono s s'.
Proof.
  intros al bare ex; induction ex as [|n r IH]; intros s Hb; cbn.
  - exists s; split; [reflexivity | intros g Hg; exact Hg].
  - pose proof (Hb n (or_introl eq_refl)) as Hn. unfold bound in Hn.
    destruct (ns_get (GB n) s) as [v|] eqn:Ev; [| contradiction].
    set (s1 := if bare then ns_set (GB n) v (ns_set (GQ al n) v s) else ns_set (GQ al n) v s).
    assert (Hm : nsmono s s1) by (intros g Hg; unfold s1; destruct bare; repeat apply bound_set; exact Hg).
    destruct (IH s1 (fun x Hx => Hm _ (Hb x (or_intror Hx)))) as (s' & Hs' & Hm').
    exists s'; split; [exact Hs' | intros g Hg; apply Hm', Hm, Hg].
Qed.
Lemma check_all_true : forall ex s, (forall n, In n ex -> bound (GB n) s) -> check_all ex s = true.
Proof.
  induction ex as [|n r IH]; intros s Hb; cbn; [reflexivity|].
  pose proof (Hb n (or_introl eq_refl)) as Hn. unfold bound in Hn.
  destruct (ns_get (GB n) s); [apply IH; intros x Hx; apply Hb; right; exact Hx | contradiction].
Qed.
Lemma mem_id_In : forall n l, In n l -> mem_id n l = true.
Proof.
  induction l as [|x l IH]; intro H; [destruct H|].
  destruct H as [<-|H]; cbn; [rewrite N.eqb_refl; reflexivity | rewrite IH by assumption; apply orb_true_r].
Qed.
Lemma check_syms_true : forall syms ex s, (forall n, In n syms -> In n ex /\ bound (GB n) s) -> check_syms syms ex s = true.
Proof.
  induction syms as [|n r IH]; intros ex s Hb; cbn; [reflexivity|].
  destruct (Hb n (or_introl eq_refl)) as [Hin Hn]. rewrite (mem_id_In _ _ Hin). cbn. unfold bound in Hn.
  destruct (ns_get (GB n) s); [apply IH; intros x Hx; apply Hb; right; exact Hx | contradiction].
Qed.
Lemma bind_exports_some : forall i ex s, (forall n, In n ex -> bound (GB n) s) ->
  (forall l n, i_form i = FSymbols l -> In n l -> In n ex) ->
  exists s', bind_exports i ex s = Some s' /\ nsmono s s'.
Proof.
  intros i ex s Hb Hsy. unfold bind_exports. destruct (i_form i) as [|a|l|] eqn:Ef.
  - apply bind_all_some; exact Hb.
  - apply bind_all_some; exact Hb.
  - rewrite check_syms_true; [exists s; split; [reflexivity | intros g Hg; exact Hg]|].
    intros n Hn. split; [eapply Hsy; eauto | apply Hb; eapply Hsy; eauto].
  - rewrite check_all_true by exact Hb. exists s; split; [reflexivity | intros g Hg; exact Hg].
Qed.

(* ---- which value a spelling reads *)
Lemma gname_eqb_eq : forall a b, gname_eqb a b = true <-> a = b.
Proof.
  destruct a as [x|q x], b as [y|r y]; cbn; split; intro H; try discriminate; try congruence.
  - apply N.eqb_eq in H; congruence.
  - inversion H; apply N.eqb_refl.
  - apply andb_true_iff in H as [H1 H2]. apply N.eqb_eq in H1, H2. congruence.
  - inversion H; subst. rewrite !N.eqb_refl; reflexivity.
Qed.

Lemma ns_get_set : forall g g' v s, ns_get g (ns_set g' v s) = if gname_eqb g g' then Some v else ns_get g s.
Proof. reflexivity. Qed.

Lemma ns_get_set_same : forall g v s, ns_get g (ns_set g v s) = Some v.
Proof. intros. rewrite ns_get_set. replace (gname_eqb g g) with true; [reflexivity|]. symmetry; apply gname_eqb_eq; reflexivity. Qed.

Lemma ns_get_set_other : forall g g' v s, g <> g' -> ns_get g (ns_set g' v s) = ns_get g s.
Proof.
  intros g g' v s H. rewrite ns_get_set. destruct (gname_eqb g g') eqn:Eg; [apply gname_eqb_eq in Eg; contradiction | reflexivity].
Qed.

Lemma mem_id_iff : forall n l, mem_id n l = true <-> In n l.
Proof.
  split; [apply mem_id_true_In|]. induction l as [|x l IH]; intro H; [destruct H|].
  destruct H as [<-|H]; cbn; [rewrite N.eqb_refl; reflexivity | rewrite IH by assumption; apply orb_true_r].
Qed.

Lemma write_defs_fold_qual : forall f ds s q n,
  ns_get (GQ q n) (fold_left (fun s d => ns_set (GB (d_name d)) (f, d_name d) s) ds s) = ns_get (GQ q n) s.
Proof.
  intros f ds; induction ds as [|d r IH]; intros s q n; cbn; [reflexivity|].
  rewrite IH. apply ns_get_set_other. discriminate.
Qed.

Lemma write_defs_fold_bare : forall f ds s n,
  ns_get (GB n) (fold_left (fun s d => ns_set (GB (d_name d)) (f, d_name d) s) ds s) =
  if mem_id n (map d_name ds) then Some (f, n) else ns_get (GB n) s.
Proof.
  intros f ds; induction ds as [|d r IH]; intros s n; cbn; [reflexivity|].
  rewrite IH. destruct (mem_id n (map d_name r)) eqn:Er; [rewrite orb_true_r; reflexivity|].
  rewrite orb_false_r. rewrite ns_get_set. cbn [gname_eqb].
  destruct (n =? d_name d) eqn:En; [apply N.eqb_eq in En; subst; reflexivity | reflexivity].
Qed.

Lemma write_defs_qual : forall f m s q n, ns_get (GQ q n) (write_defs f m s) = ns_get (GQ q n) s.
Proof. intros; apply write_defs_fold_qual. Qed.
Lemma write_defs_bare : forall f m s n,
  ns_get (GB n) (write_defs f m s) = if mem_id n (map d_name (m_defs m)) then Some (f, n) else ns_get (GB n) s.
Proof. intros; apply write_defs_fold_bare. Qed.

(* register_exports / the memo-hit re-binding: q::n := the current bare n, for n in the exports;
   bare names keep their values *)
Lemma bind_all_get : forall al bare ex s s', bind_all al bare ex s = Some s' ->
  (forall n, ns_get (GB n) s' = ns_get (GB n) s) /\
  (forall q n, ns_get (GQ q n) s' =
               if (q =? al) && mem_id n ex then ns_get (GB n) s else ns_get (GQ q n) s).
Proof.
  intros al bare ex; induction ex as [|x r IH]; intros s s' H; cbn in H.
  - inversion H; subst. split; [reflexivity|]. intros q n. cbn. rewrite andb_false_r; reflexivity.
  - destruct (ns_get (GB x) s) as [v|] eqn:Ev; [| discriminate].
    set (s1 := if bare then ns_set (GB x) v (ns_set (GQ al x) v s) else ns_set (GQ al x) v s) in H.
    assert (Hb1 : forall n, ns_get (GB n) s1 = ns_get (GB n) s).
    { intro n. unfold s1. destruct bare.
      - rewrite ns_get_set. cbn [gname_eqb]. destruct (n =? x) eqn:En.
        + apply N.eqb_eq in En; subst; auto.
        + apply ns_get_set_other; discriminate.
      - apply ns_get_set_other; discriminate. }
    assert (Hq1 : forall q n, ns_get (GQ q n) s1 = if (q =? al) && (n =? x) then Some v else ns_get (GQ q n) s).
    { intros q n. unfold s1. destruct bare.
      - rewrite ns_get_set_other by discriminate. rewrite ns_get_set. reflexivity.
      - rewrite ns_get_set. reflexivity. }
    destruct (IH s1 s' H) as [Hb Hq]. split.
    + intro n. rewrite Hb. apply Hb1.
    + intros q n. rewrite Hq, Hb1, Hq1. cbn [mem_id].
      destruct (q =? al) eqn:Eq; cbn [andb]; [| reflexivity].
      destruct (mem_id n r) eqn:Er; [rewrite orb_true_r; reflexivity|]. rewrite orb_false_r.
      destruct (n =? x) eqn:En; [apply N.eqb_eq in En; subst; auto | reflexivity].
Qed.

Lemma bind_exports_get : forall i ex s s', bind_exports i ex s = Some s' ->
  (forall n, ns_get (GB n) s' = ns_get (GB n) s) /\
  (forall q n, ns_get (GQ q n) s' =
     if match i_form i with
        | FModule => (q =? last_seg (i_path i)) && mem_id n ex
        | FAlias a => (q =? a) && mem_id n ex
        | _ => false
        end
     then ns_get (GB n) s else ns_get (GQ q n) s).
Proof.
  intros i ex s s'. unfold bind_exports, alias_of. destruct (i_form i) as [|a|l|] eqn:Ef.
  - apply bind_all_get.
  - apply bind_all_get.
  - destruct (check_syms l ex s); [| discriminate]. intro H; inversion H; subst. split; reflexivity.
  - destruct (check_all ex s); [| discriminate]. intro H; inversion H; subst. split; reflexivity.
Qed.

(* ---- the value pass: shapes of what is stored under a name, and that granted names are bound *)
Definition binding (fm : form) (q : ident) (i : import) : Prop :=
  (fm = FModule /\ q = last_seg (i_path i)) \/ fm = FAlias q.

Definition binds (q n : ident) (g : fpath) : Prop :=
  exists f mf j fm mg, find_file fs f = Some mf /\ In j (m_imports mf) /\ meaning fs root f j = Some (g, fm) /\
    binding fm q j /\ find_file fs g = Some mg /\ In n (pub_names mg).

Lemma pub_in_defs : forall m n, In n (pub_names m) -> In n (map d_name (m_defs m)).
Proof.
  unfold pub_names; intros m n H. apply in_map_iff in H as (d & Hn & Hd). apply filter_In in Hd as [Hd _].
  apply in_map_iff. eauto.
Qed.

Lemma binding_qualifier : forall f j g fm q, meaning fs root f j = Some (g, fm) -> binding fm q j ->
  granted_qualifier fs root f j = Some q /\ fm <> FWildcard.
Proof.
  intros f j g fm q Hm Hb. destruct (meaning_cases _ _ _ _ _ _ Hm) as (Hstd & _).
  unfold granted_qualifier. rewrite Hstd, Hm. destruct Hb as [[-> ->]| ->]; split; try reflexivity; discriminate.
Qed.

Record binv (st : lstate) : Prop := {
  b_bare : forall n v, ns_get (GB n) (ns st) = Some v -> exists g, v = (g, n) /\ defines fs g n;
  b_qual : forall q n v, ns_get (GQ q n) (ns st) = Some v ->
             exists g', v = (g', n) /\ defines fs g' n /\ exists g, binds q n g;
  b_init : forall g n, In g (trace st) -> defines fs g n -> bound (GB n) (ns st);
  b_evs : forall ev, In ev (events st) -> values_ok fs E ev
}.

Definition qbound (cur : fpath) (i : import) (s : nsmap) : Prop :=
  forall g fm q mg n, meaning fs root cur i = Some (g, fm) -> binding fm q i ->
    find_file fs g = Some mg -> In n (pub_names mg) -> bound (GQ q n) s.

Definition bpost (cur : fpath) (i : import) (st : lstate) (r : res (lstate * lres)) : Prop :=
  match r with
  | Ok (st', _) => binv st' /\ nsmono (ns st) (ns st') /\ qbound cur i (ns st')
  | _ => True
  end.

Definition bgood (ld : loader) : Prop :=
  forall cur m i st, reachable fs E cur -> find_file fs cur = Some m -> In i (m_imports m) ->
                     inv st -> base st = dir_of cur -> binv st -> bpost cur i st (ld i st).

Lemma bind_all_bound : forall al bare ex s s', bind_all al bare ex s = Some s' ->
  forall n, In n ex -> bound (GB n) s.
Proof.
  intros al bare ex; induction ex as [|x r IH]; intros s s' H n Hn; [destruct Hn|]. cbn in H.
  destruct (ns_get (GB x) s) as [v|] eqn:Ev; [| discriminate].
  destruct Hn as [<-|Hn]; [unfold bound; congruence|].
  pose proof (IH _ _ H n Hn) as Hb. unfold bound in *.
  destruct bare.
  - rewrite ns_get_set in Hb. cbn [gname_eqb] in Hb. destruct (n =? x) eqn:En.
    + apply N.eqb_eq in En; subst; congruence.
    + rewrite ns_get_set_other in Hb by discriminate. exact Hb.
  - rewrite ns_get_set_other in Hb by discriminate. exact Hb.
Qed.

(* the effect of register_exports / re-binding on the shapes *)
Lemma bind_shapes : forall cur mc i g fm mg eimp s s',
  find_file fs cur = Some mc -> In i (m_imports mc) -> meaning fs root cur i = Some (g, fm) ->
  find_file fs g = Some mg -> i_form eimp = fm ->
  (forall q, binding fm q eimp -> binding fm q i) ->
  (forall n v, ns_get (GB n) s = Some v -> exists g0, v = (g0, n) /\ defines fs g0 n) ->
  (forall q n v, ns_get (GQ q n) s = Some v -> exists g', v = (g', n) /\ defines fs g' n /\ exists g0, binds q n g0) ->
  bind_exports eimp (pub_names mg) s = Some s' ->
  (forall n v, ns_get (GB n) s' = Some v -> exists g0, v = (g0, n) /\ defines fs g0 n) /\
  (forall q n v, ns_get (GQ q n) s' = Some v -> exists g', v = (g', n) /\ defines fs g' n /\ exists g0, binds q n g0) /\
  nsmono s s' /\
  (forall q n, binding fm q eimp -> In n (pub_names mg) -> bound (GQ q n) s').
Proof.
  intros cur mc i g fm mg eimp s s' Hmc Hi Hmean Hmg Hef Hbi Hb Hq Hbind.
  destruct (bind_exports_get _ _ _ _ Hbind) as [HB HQ].
  assert (Hbound : forall n, In n (pub_names mg) ->
                   (i_form eimp = FModule \/ exists a, i_form eimp = FAlias a) -> bound (GB n) s).
  { intros n Hn Hf. unfold bind_exports in Hbind.
    destruct Hf as [Hf|[a Hf]]; rewrite Hf in Hbind; eapply bind_all_bound; eauto. }
  split; [| split; [| split]].
  - intros n v. rewrite HB. apply Hb.
  - intros q n v. rewrite HQ.
    destruct (i_form eimp) as [|a|l|] eqn:Ef.
    + destruct ((q =? last_seg (i_path eimp)) && mem_id n (pub_names mg)) eqn:Ec; [| apply Hq].
      apply andb_true_iff in Ec as [Eq En]. apply N.eqb_eq in Eq. apply mem_id_iff in En.
      intro Hv. destruct (Hb n v Hv) as (g0 & -> & Hd). exists g0. split; [reflexivity|]. split; [exact Hd|].
      exists g. exists cur, mc, i, fm, mg. repeat split; auto. apply Hbi. left. split; congruence.
    + destruct ((q =? a) && mem_id n (pub_names mg)) eqn:Ec; [| apply Hq].
      apply andb_true_iff in Ec as [Eq En]. apply N.eqb_eq in Eq. apply mem_id_iff in En.
      intro Hv. destruct (Hb n v Hv) as (g0 & -> & Hd). exists g0. split; [reflexivity|]. split; [exact Hd|].
      exists g. exists cur, mc, i, fm, mg. repeat split; auto. apply Hbi. right. congruence.
    + apply Hq.
    + apply Hq.
  - intros x Hx. unfold bound in *. destruct x as [n|q n].
    + rewrite HB; exact Hx.
    + rewrite HQ. match goal with |- (if ?c then _ else _) <> None => destruct c eqn:Ec end; [| exact Hx].
      destruct (i_form eimp) as [|a|l|] eqn:Ef; try discriminate;
        apply andb_true_iff in Ec as [_ En]; apply mem_id_iff in En;
        (apply Hbound; [exact En | eauto]).
  - intros q n Hbq Hn. unfold bound. rewrite HQ.
    assert (Hc : (match i_form eimp with
                  | FModule => (q =? last_seg (i_path eimp)) && mem_id n (pub_names mg)
                  | FAlias a => (q =? a) && mem_id n (pub_names mg)
                  | _ => false end) = true).
    { destruct Hbq as [[Hf ->]|Hf]; rewrite Hef, Hf; rewrite N.eqb_refl; cbn; apply mem_id_iff; exact Hn. }
    rewrite Hc. apply Hbound; [exact Hn|].
    destruct Hbq as [[Hf _]|Hf]; [left; congruence | right; exists q; congruence].
Qed.

Lemma granted_qualifier_meaning : forall f j q, is_std (i_path j) = false ->
  granted_qualifier fs root f j = Some q ->
  exists g fm, meaning fs root f j = Some (g, fm) /\ (binding fm q j \/ (fm = FWildcard /\ q = last_seg (i_path j))).
Proof.
  intros f j q Hstd. unfold granted_qualifier. rewrite Hstd.
  destruct (meaning fs root f j) as [[g fm]|]; [| discriminate].
  destruct fm as [|a|l|]; intro H; inversion H; subst; exists g; eexists; split; try reflexivity.
  - left; left; auto.
  - left; right; reflexivity.
  - right; auto.
Qed.

Lemma granted_bare_pub : forall f m j g fm mg n, selected_are_pub fs E f -> find_file fs f = Some m ->
  In j (m_imports m) -> meaning fs root f j = Some (g, fm) -> find_file fs g = Some mg ->
  In n (granted_bare fs root f j) -> In n (pub_names mg).
Proof.
  intros f m j g fm mg n Hsel Hm Hj Hmean Hmg Hn.
  destruct (meaning_cases _ _ _ _ _ _ Hmean) as (Hstd & _).
  destruct (Hsel m j Hm Hj Hstd) as (g' & fm' & mg' & Hmean' & Hmg' & Hsy). fold root in Hmean'.
  rewrite Hmean in Hmean'; inversion Hmean'; subst g' fm'. rewrite Hmg in Hmg'; inversion Hmg'; subst mg'.
  unfold granted_bare in Hn. rewrite Hmean, Hmg in Hn.
  destruct fm as [|a|l|]; try exact Hn; [destruct Hn | eapply Hsy; eauto].
Qed.

(* what the top level of file f reads, given the namespace s it starts from *)
Lemma event_values : forall f m s tr ev,
  find_file fs f = Some m -> ev_file ev = f -> ev_ns ev = write_defs f m s ->
  names_ok fs E ev -> selected_are_pub fs E f ->
  (forall n v, ns_get (GB n) s = Some v -> exists g0, v = (g0, n) /\ defines fs g0 n) ->
  (forall q n v, ns_get (GQ q n) s = Some v -> exists g', v = (g', n) /\ defines fs g' n /\ exists g0, binds q n g0) ->
  (forall g n, In g tr -> defines fs g n -> bound (GB n) s) ->
  ~ In f tr ->
  (forall j g fm, In j (m_imports m) -> meaning fs root f j = Some (g, fm) -> In g tr) ->
  (forall j, In j (m_imports m) -> qbound f j s) ->
  values_ok fs E ev.
Proof.
  intros f m s tr ev Hm Hef Hens Hnames Hsel Hb Hq Hinit Hnf Htr Hqb.
  intros m' Hm' Hns Hne sp Hg v. rewrite Hef in Hm'. rewrite Hm in Hm'; inversion Hm'; subst m'.
  rewrite Hef. fold root.
  destruct (Hnames m) as [HA HK]; [rewrite Hef; exact Hm | exact Hns | exact Hne |]. rewrite Hef in HA, HK. fold root in HA, HK.
  destruct sp as [n|q n]; cbn [probe sp_guard grants_sp] in *.
  - (* bare *)
    rewrite Hens, write_defs_bare.
    destruct (mem_id n (ev_known ev)) eqn:Ek.
    + apply mem_id_iff in Ek. apply HK in Ek.
      destruct (mem_id n (map d_name (m_defs m))) eqn:Eo.
      * apply mem_id_iff in Eo. split.
        -- intro H; inversion H; subst. left; auto.
        -- intros [[_ ->]|(j & g & fm & Hj & Hmean & Hn & ->)]; [reflexivity|].
           exfalso. destruct (meaning_cases _ _ _ _ _ _ Hmean) as (_ & [mg Hmg] & _).
           assert (defines fs g n) by (exists mg; split; [exact Hmg | apply pub_in_defs; eapply granted_bare_pub; eauto]).
           assert (defines fs f n) by (exists m; auto).
           assert (f = g) by (apply Hg; auto). subst g. apply Hnf. eapply Htr; eauto.
      * assert (Hno : ~ In n (map d_name (m_defs m))) by (intro Hx; apply mem_id_iff in Hx; congruence).
        split.
        -- intro Hv. destruct Ek as [Ek|(j & Hj & Hn)]; [contradiction|].
           destruct (Hsel m j Hm Hj (Hns j Hj)) as (g & fm & mg & Hmean & Hmg & _). fold root in Hmean.
           destruct (Hb n v Hv) as (g0 & -> & Hd0).
           assert (defines fs g n) by (exists mg; split; [exact Hmg | apply pub_in_defs; eapply granted_bare_pub; eauto]).
           assert (g0 = g) by (apply Hg; auto). subst g0.
           right. exists j, g, fm. auto.
        -- intros [[Ho _]|(j & g & fm & Hj & Hmean & Hn & ->)]; [contradiction|].
           destruct (meaning_cases _ _ _ _ _ _ Hmean) as (_ & [mg Hmg] & _).
           assert (Hd : defines fs g n) by (exists mg; split; [exact Hmg | apply pub_in_defs; eapply granted_bare_pub; eauto]).
           pose proof (Hinit g n (Htr j g fm Hj Hmean) Hd) as Hbd. unfold bound in Hbd.
           destruct (ns_get (GB n) s) as [v0|] eqn:Ev; [| contradiction].
           destruct (Hb n v0 Ev) as (g0 & -> & Hd0). assert (g0 = g) by (apply Hg; auto). subst; reflexivity.
    + split; [discriminate|].
      assert (Hnk : ~ In n (ev_known ev)) by (intro Hx; apply mem_id_iff in Hx; congruence).
      intros [[Ho _]|(j & g & fm & Hj & Hmean & Hn & _)]; exfalso; apply Hnk, HK; [left; exact Ho | right; eauto].
  - (* qualified *)
    destruct Hg as [Hun Hqok].
    rewrite Hens, write_defs_qual.
    destruct (mem_id q (ev_aliases ev)) eqn:Ea.
    + apply mem_id_iff in Ea. apply HA in Ea as (j & Hj & Hgq).
      destruct (granted_qualifier_meaning f j q (Hns j Hj) Hgq) as (gj & fmj & Hmj & Hform).
      split.
      * intro Hv. destruct (Hq q n v Hv) as (g' & -> & Hd' & gb & (fb & mfb & jb & fmb & mgb & Hfb & Hjb & Hmb & Hbb & Hmgb & Hnb)).
        destruct (binding_qualifier fb jb gb fmb q Hmb Hbb) as [Hgqb Hnw].
        destruct (Hqok f m j fb mfb jb gj fmj gb fmb Hm Hj Hmj Hfb Hjb Hmb Hgq Hgqb) as [-> Hw].
        assert (Hbj : binding fmj q j).
        { destruct Hform as [Hbj|[Hwj _]]; [exact Hbj | exfalso; apply Hnw, Hw, Hwj]. }
        assert (g' = gb) by (apply Hun; [exact Hd' | exists mgb; split; [exact Hmgb | apply pub_in_defs; exact Hnb]]).
        subst g'. exists j, gb, fmj, mgb. auto 10.
      * intros (j' & g & fm & mg & Hj' & Hmean & Hbnd & Hmg & Hn & ->).
        pose proof (Hqb j' Hj' g fm q mg n Hmean Hbnd Hmg Hn) as Hbd. unfold bound in Hbd.
        destruct (ns_get (GQ q n) s) as [v0|] eqn:Ev; [| contradiction].
        destruct (Hq q n v0 Ev) as (g' & -> & Hd' & _).
        assert (g' = g) by (apply Hun; [exact Hd' | exists mg; split; [exact Hmg | apply pub_in_defs; exact Hn]]).
        subst; reflexivity.
    + split; [discriminate|].
      assert (Hna : ~ In q (ev_aliases ev)) by (intro Hx; apply mem_id_iff in Hx; congruence).
      intros (j & g & fm & mg & Hj & Hmean & Hbnd & _). exfalso. apply Hna, HA.
      exists j; split; [exact Hj|]. eapply binding_qualifier; eauto.
Qed.

Lemma qbound_mono : forall cur i s s', nsmono s s' -> qbound cur i s -> qbound cur i s'.
Proof. intros cur i s s' Hm Hq g fm q mg n H1 H2 H3 H4. apply Hm. eapply Hq; eauto. Qed.

Lemma go_mod_b : forall ld file m, vgood ld -> bgood ld -> reachable fs E file -> find_file fs file = Some m ->
  forall imps done s acc, done ++ imps = m_imports m -> inv s -> base s = dir_of file -> binv s ->
  (forall j, In j done -> qbound file j (ns s)) ->
  match go_mod fs root ld imps s acc with
  | Ok (s2, _) => binv s2 /\ nsmono (ns s) (ns s2) /\ (forall j, In j (m_imports m) -> qbound file j (ns s2))
  | _ => True
  end.
Proof.
  intros ld file m Hv Hbg Hr Hm imps; induction imps as [|j r IH]; intros done s acc Hsplit Hinv Hb Hbinv Hdone; cbn.
  - rewrite app_nil_r in Hsplit; subst done. split; [exact Hbinv|]. split; [intros g Hg; exact Hg | exact Hdone].
  - assert (Hjin : In j (m_imports m)) by (rewrite <- Hsplit; apply in_or_app; right; left; reflexivity).
    pose proof (Hv file m j s Hr Hm Hjin Hinv Hb) as Hvj.
    pose proof (Hbg file m j s Hr Hm Hjin Hinv Hb Hbinv) as Hbj.
    destruct (ld j s) as [[s' lr]| |]; cbn in *; auto.
    destruct Hvj as ((Hi' & Hs' & Hb' & _) & _). destruct Hbj as (Hbinv' & Hmono & Hqb).
    assert (Hsplit2 : (done ++ [j]) ++ r = m_imports m) by (rewrite <- app_assoc; exact Hsplit).
    assert (Hdone2 : forall x, In x (done ++ [j]) -> qbound file x (ns s')).
    { intros x Hx. apply in_app_or in Hx as [Hx|[<-|[]]]; [eapply qbound_mono; eauto | exact Hqb]. }
    pose proof (IH (done ++ [j]) s' (contrib_mod acc j lr (module_for fs root (base s') j (loaded s')))
                  Hsplit2 Hi' (eq_trans Hb' Hb) Hbinv' Hdone2) as Hrest.
    destruct (go_mod fs root ld r s' _) as [[s2 a2]| |]; auto.
    destruct Hrest as (Hb2 & Hm2 & Hall). split; [exact Hb2|]. split; [intros g Hg; apply Hm2, Hmono, Hg | exact Hall].
Qed.

Lemma write_defs_shapes : forall f m s, find_file fs f = Some m ->
  (forall n v, ns_get (GB n) s = Some v -> exists g0, v = (g0, n) /\ defines fs g0 n) ->
  (forall n v, ns_get (GB n) (write_defs f m s) = Some v -> exists g0, v = (g0, n) /\ defines fs g0 n).
Proof.
  intros f m s Hm Hb n v. rewrite write_defs_bare.
  destruct (mem_id n (map d_name (m_defs m))) eqn:Eo; [| apply Hb].
  apply mem_id_iff in Eo. intro H; inversion H; subst. exists f; split; [reflexivity | exists m; auto].
Qed.

Lemma compile_b : forall ld cur mc i file fm m st eimp,
  vgood ld -> bgood ld -> reachable fs E cur -> find_file fs cur = Some mc -> In i (m_imports mc) ->
  meaning fs root cur i = Some (file, fm) -> i_path i <> [] -> inv st -> base st = dir_of cur -> binv st ->
  ~ In file (stack st) -> lookup file (loaded st) = None -> find_file fs file = Some m ->
  i_form eimp = fm -> i_path eimp <> [] -> lres_of eimp = lres_spec cur i ->
  (forall q, binding fm q eimp <-> binding fm q i) ->
  bpost cur i st (compile fs root ld file eimp m st).
Proof.
  intros ld cur mc i file fm m st eimp Hv Hbg Hr Hmc Hi Hmean Hne Hinv Hb Hbinv Emem El Hm Hef Hep Hlr Hbi.
  pose proof (compile_v ld cur mc i file fm m st Hv Hr Hmc Hi Hmean Hne Hinv Hb Emem El Hm eimp Hef Hep Hlr) as Hcv.
  pose proof (push_inv cur mc i file fm m st (last_seg (i_path eimp)) Hr Hmc Hi Hmean Hinv Emem El Hm) as Hinv1.
  unfold compile in *.
  set (info := {| mi_file := file; mi_exports := pub_names m; mi_name := _ |}) in *.
  set (st1 := {| loaded := (file, info) :: loaded st; stack := file :: stack st;
                 base := dir_of file; ns := ns st; events := events st |}) in *.
  assert (Hrf : reachable fs E file) by (eapply r_step; [exact Hr | eapply edge_of_meaning; eauto]).
  assert (Hbinv1 : binv st1) by (destruct Hbinv; split; assumption).
  pose proof (go_mod_b ld file m Hv Hbg Hrf Hm (m_imports m) [] st1 ([], []) eq_refl Hinv1 eq_refl Hbinv1
                (fun j Hj => match Hj with end)) as Hgb.
  pose proof (go_mod_v ld file m Hv Hrf Hm (m_imports m) [] st1 ([], []) eq_refl Hinv1 eq_refl
                (fun j Hj => match Hj with end) (fun _ _ => names_spec_nil _)) as Hgv.
  destruct (go_mod fs root ld (m_imports m) st1 ([], [])) as [[st2 acc]| |]; auto.
  destruct Hgb as (Hb2 & Hmono2 & Hqall). destruct Hgv as ((Hi2 & Hs2 & _ & Hm2 & _) & Hall & _).
  destruct (m_fault m =? 1); [exact I|]. destruct (m_fault m =? 2); [exact I|].
  destruct (bind_exports eimp (pub_names m) (write_defs file m (ns st2))) as [s2|] eqn:Hbind; cbn in *; auto.
  destruct Hcv as ((Hinv' & _) & _).
  set (s1 := write_defs file m (ns st2)) in *.
  assert (Hnotin : ~ In file (trace st2)).
  { intro Hin. destruct (v_towner _ Hi2 file Hin) as (_ & Hnk). apply Hnk. rewrite Hs2. left; reflexivity. }
  destruct (bind_shapes cur mc i file fm m eimp s1 s2 Hmc Hi Hmean Hm Hef (fun q H => proj1 (Hbi q) H)
              (write_defs_shapes file m (ns st2) Hm (b_bare _ Hb2))
              (fun q n v H => b_qual _ Hb2 q n v (eq_trans (eq_sym (write_defs_qual file m (ns st2) q n)) H))
              Hbind) as (HB & HQ & Hmono3 & Hnew).
  assert (Hw : nsmono (ns st2) s1) by apply write_defs_fold_mono.
  split; [| split].
  - split; cbn.
    + exact HB.
    + exact HQ.
    + intros g n Hg Hd. unfold trace in Hg; cbn in Hg. rewrite map_app in Hg. apply in_app_or in Hg as [Hg|[<-|[]]].
      * apply Hmono3, Hw. apply (b_init _ Hb2 g n); assumption.
      * apply Hmono3. destruct Hd as (mg & Hmg & Hn). cbn in Hmg. rewrite Hm in Hmg; inversion Hmg; subst mg.
        apply in_map_iff in Hn as (d & <- & Hd). apply write_defs_binds; exact Hd.
    + intros e He. apply in_app_or in He as [He|[<-|[]]]; [apply (b_evs _ Hb2); exact He|].
      match goal with |- values_ok _ _ ?e0 =>
        assert (Hin0 : In e0 (events st2 ++ [e0])) by (apply in_or_app; right; left; reflexivity);
        destruct (v_evs _ Hinv' e0 Hin0) as (_ & Hnames & Hsel) end.
      eapply (event_values file m (ns st2) (trace st2)); eauto.
      * apply (b_bare _ Hb2).
      * apply (b_qual _ Hb2).
      * apply (b_init _ Hb2).
      * intros j g fmj Hj Hmj. destruct (meaning_cases _ _ _ _ _ _ Hmj) as (Hstdj & _).
        destruct (Hall j Hj Hstdj) as (g' & fm' & inf & Hg' & Hin & _). congruence.
  - intros x Hx. apply Hmono3, Hw, Hmono2. exact Hx.
  - intros g fm' q mg n Hmean' Hbnd Hmg Hn. rewrite Hmean in Hmean'; inversion Hmean'; subst g fm'.
    rewrite Hm in Hmg; inversion Hmg; subst mg. apply Hnew; [apply Hbi; exact Hbnd | exact Hn].
Qed.

Lemma load_step_b : forall ld, vgood ld -> bgood ld -> bgood (load_step fs root ld).
Proof.
  intros ld Hv Hbg cur mc i st Hr Hmc Hi Hinv Hb Hbinv. unfold load_step. cbv zeta.
  remember (i_path i) as p eqn:Ep in |- *. symmetry in Ep. destruct p as [|x p']; [exact I|].
  destruct (is_std (x :: p')) eqn:Estd.
  { cbn. split; [exact Hbinv|]. split; [intros g Hg; exact Hg|].
    intros g fm q mg n Hmean. unfold meaning in Hmean. rewrite Ep, Estd in Hmean. discriminate. }
  assert (Hstd : is_std (i_path i) = false) by (rewrite Ep; exact Estd).
  rewrite Hb. destruct (resolve_fb fs root (dir_of cur) (x :: p')) as [[[file actual] sym]|] eqn:Er; [| exact I].
  set (eimp := match sym with Some s => {| i_path := actual; i_form := FSymbols [s] |} | None => i end).
  set (fm := match sym with Some s => FSymbols [s] | None => i_form i end).
  assert (Hmean : meaning fs root cur i = Some (file, fm)).
  { unfold meaning, fm. rewrite Hstd, Ep, Er. destruct sym; reflexivity. }
  assert (Hef : i_form eimp = fm) by (unfold eimp, fm; destruct sym; reflexivity).
  assert (Hlr : lres_of eimp = lres_spec cur i).
  { unfold lres_spec. rewrite Hmean. unfold eimp, fm, lres_of. destruct sym; reflexivity. }
  assert (Hep : i_path eimp <> []).
  { unfold eimp. destruct (resolve_fb_shape _ _ _ _ _ _ _ Er) as [_ [(_ & -> & ->)|(_ & _ & -> & Hne)]]; cbn.
    - rewrite Ep; discriminate.
    - exact Hne. }
  assert (Hbi : forall q, binding fm q eimp <-> binding fm q i).
  { intro q. unfold eimp, fm. destruct sym; [| tauto].
    split; intros [[Hx _]|Hx]; discriminate. }
  destruct (mem_key file (stack st)) eqn:Emem; [exact I|].
  apply mem_key_false in Emem.
  pose proof Er as Er'. apply resolve_fb_shape in Er' as [[m Hm] _].
  destruct (lookup file (loaded st)) as [info|] eqn:El.
  - destruct (bind_exports eimp (mi_exports info) (ns st)) as [s|] eqn:Hbind; cbn; [| exact I].
    destruct (v_info _ Hinv _ _ El) as (_ & m' & Hm' & Hex). rewrite Hm in Hm'; inversion Hm'; subst m'.
    rewrite Hex in Hbind.
    destruct (bind_shapes cur mc i file fm m eimp (ns st) s Hmc Hi Hmean Hm Hef (fun q H => proj1 (Hbi q) H)
                (b_bare _ Hbinv) (b_qual _ Hbinv) Hbind) as (HB & HQ & Hmono & Hnew).
    split; [| split].
    + split; cbn.
      * exact HB.
      * exact HQ.
      * intros g n Hg Hd. apply Hmono. apply (b_init _ Hbinv g n); assumption.
      * apply (b_evs _ Hbinv).
    + exact Hmono.
    + intros g fm' q mg n Hmean' Hbnd Hmg Hn. rewrite Hmean in Hmean'; inversion Hmean'; subst g fm'.
      rewrite Hm in Hmg; inversion Hmg; subst mg. apply Hnew; [apply Hbi; exact Hbnd | exact Hn].
  - rewrite Hm. eapply compile_b; eauto. rewrite Ep; discriminate.
Qed.

Lemma load_b : forall n, bgood (load fs root n).
Proof.
  induction n as [|n IH]; [intros cur m i st _ _ _ _ _ _; exact I|].
  cbn [load]. apply load_step_b; [apply load_v | exact IH].
Qed.

Lemma entry_go_b : forall n me, find_file fs E = Some me ->
  forall imps done s acc orig, done ++ imps = m_imports me -> inv s -> base s = dir_of E -> binv s ->
  (forall j, In j done -> qbound E j (ns s)) ->
  match entry_go fs root n imps s acc orig with
  | Ok (s2, _) => binv s2 /\ (forall j, In j (m_imports me) -> qbound E j (ns s2))
  | _ => True
  end.
Proof.
  intros n me Hme imps; induction imps as [|j r IH]; intros done s acc orig Hsplit Hinv Hb Hbinv Hdone; cbn.
  - rewrite app_nil_r in Hsplit; subst done. auto.
  - assert (Hjin : In j (m_imports me)) by (rewrite <- Hsplit; apply in_or_app; right; left; reflexivity).
    pose proof (load_v n E me j s (r_refl fs E) Hme Hjin Hinv Hb) as Hvj.
    pose proof (load_b n E me j s (r_refl fs E) Hme Hjin Hinv Hb Hbinv) as Hbj.
    destruct (load fs root n j s) as [[s' lr]| |]; cbn in *; auto.
    destruct Hvj as ((Hi' & Hs' & Hb' & _) & _). destruct Hbj as (Hbinv' & Hmono & Hqb).
    destruct (contrib_entry acc orig j lr _) as [[acc' orig']|]; [| exact I].
    assert (Hsplit2 : (done ++ [j]) ++ r = m_imports me) by (rewrite <- app_assoc; exact Hsplit).
    assert (Hdone2 : forall x, In x (done ++ [j]) -> qbound E x (ns s')).
    { intros x Hx. apply in_app_or in Hx as [Hx|[<-|[]]]; [eapply qbound_mono; eauto | exact Hqb]. }
    apply (IH (done ++ [j]) s' acc' orig' Hsplit2 Hi' (eq_trans Hb' Hb) Hbinv' Hdone2).
Qed.

Lemma init_binv : binv (init_state E).
Proof.
  split; cbn; try discriminate.
  - intros g n [].
  - intros ev [].
Qed.

Lemma run_values : forall fuel evs, run fs E fuel = Ok evs -> forall ev, In ev evs -> values_ok fs E ev.
Proof.
  intros fuel evs Hrun. pose proof (run_names fuel evs Hrun) as Hnames. revert Hrun. unfold run. fold root.
  destruct (find_file fs E) as [me|] eqn:Hme; [| discriminate].
  pose proof (entry_go_v fuel me Hme (m_imports me) [] (init_state E) ([], []) [] eq_refl init_inv eq_refl
                (fun j Hj => match Hj with end) (fun _ _ => names_spec_nil _)) as Hg.
  pose proof (entry_go_b fuel me Hme (m_imports me) [] (init_state E) ([], []) [] eq_refl init_inv eq_refl
                init_binv (fun j Hj => match Hj with end)) as Hgb.
  destruct (entry_go fs root fuel (m_imports me) (init_state E) ([], []) []) as [[st acc]| |]; try discriminate.
  destruct Hg as ((Hinv & _ & _ & _ & _) & Hall & _). destruct Hgb as [Hbinv Hqall].
  intro Hrun; inversion Hrun; subst evs; clear Hrun.
  intros ev Hev. pose proof (Hnames ev Hev) as [Hn Hsel].
  apply in_app_or in Hev as [Hev|[<-|[]]]; [apply (b_evs _ Hbinv); exact Hev|].
  assert (HnE : ~ In E (trace st)).
  { intro HE. destruct (v_towner _ Hinv E HE) as (Hk & _). unfold has_key in Hk.
    destruct (lookup E (loaded st)) as [info|] eqn:Hl; [| contradiction].
    destruct (v_key _ Hinv _ _ Hl) as (f' & Hr' & He').
    eapply (po_no_cycle (trace st) (v_post _ Hinv) (v_tnodup _ Hinv) E); [| exact HE].
    eapply reach_edge_plus; eauto. }
  eapply (event_values E me (ns st) (trace st)); eauto.
  - apply (b_bare _ Hbinv).
  - apply (b_qual _ Hbinv).
  - apply (b_init _ Hbinv).
  - intros j g fmj Hj Hmj. destruct (meaning_cases _ _ _ _ _ _ Hmj) as (Hstdj & _).
    destruct (Hall j Hj Hstdj) as (g' & fm' & inf & Hg' & Hin & _). congruence.
Qed.

(* ---- which error: with every import resolvable and selecting pub symbols only, the loader can
        only fail with CircularDependency (and the entry with SymbolConflict) *)
Hypothesis HC : clean fs E.

Definition ninv (st : lstate) : Prop :=
  forall k info, lookup k (loaded st) = Some info -> ~ In k (stack st) ->
                 forall n, In n (mi_exports info) -> bound (GB n) (ns st).

Definition epost {A} (st : lstate) (r : res (lstate * A)) : Prop :=
  match r with
  | Ok (st', _) => ninv st' /\ nsmono (ns st) (ns st')
  | Err e _ => e = ECircular
  | Fuel => True
  end.

Definition egood (ld : loader) : Prop :=
  forall cur m i st, reachable fs E cur -> find_file fs cur = Some m -> In i (m_imports m) ->
                     inv st -> base st = dir_of cur -> ninv st -> epost st (ld i st).

Lemma go_mod_e : forall ld file m, vgood ld -> egood ld -> reachable fs E file -> find_file fs file = Some m ->
  forall imps s acc, incl imps (m_imports m) -> inv s -> base s = dir_of file -> ninv s ->
  epost s (go_mod fs root ld imps s acc).
Proof.
  intros ld file m Hv He Hr Hm imps; induction imps as [|j r IH]; intros s acc Hincl Hinv Hb Hn; cbn.
  - split; [exact Hn | intros g Hg; exact Hg].
  - pose proof (Hv file m j s Hr Hm (Hincl j (or_introl eq_refl)) Hinv Hb) as Hvj.
    pose proof (He file m j s Hr Hm (Hincl j (or_introl eq_refl)) Hinv Hb Hn) as Hej.
    destruct (ld j s) as [[s' lr]| |]; cbn in *; auto.
    destruct Hvj as ((Hi' & Hs' & Hb' & _) & _). destruct Hej as [Hn' Hmono].
    pose proof (IH s' (contrib_mod acc j lr (module_for fs root (base s') j (loaded s')))
                  (fun x Hx => Hincl x (or_intror Hx)) Hi' (eq_trans Hb' Hb) Hn') as Hrest.
    destruct (go_mod fs root ld r s' _) as [[s2 a2]| |]; cbn in *; auto.
    destruct Hrest as [Hn2 Hm2]. split; [exact Hn2 | intros g Hg; apply Hm2, Hmono, Hg].
Qed.

Lemma compile_e : forall ld cur mc i g fm mg st eimp,
  vgood ld -> egood ld -> reachable fs E cur -> find_file fs cur = Some mc -> In i (m_imports mc) ->
  meaning fs root cur i = Some (g, fm) -> i_path i <> [] -> inv st -> base st = dir_of cur -> ninv st ->
  ~ In g (stack st) -> lookup g (loaded st) = None -> find_file fs g = Some mg ->
  i_form eimp = fm -> i_path eimp <> [] -> lres_of eimp = lres_spec cur i ->
  (forall l s, fm = FSymbols l -> In s l -> In s (pub_names mg)) -> m_fault mg = 0 ->
  epost st (compile fs root ld g eimp mg st).
Proof.
  intros ld cur mc i g fm mg st eimp Hv He Hr Hmc Hi Hmean Hne Hinv Hb Hn Emem El Hmg Hef Hep Hlr Hsy Hflt.
  pose proof (push_inv cur mc i g fm mg st (last_seg (i_path eimp)) Hr Hmc Hi Hmean Hinv Emem El Hmg) as Hinv1.
  unfold compile.
  set (info := {| mi_file := g; mi_exports := pub_names mg; mi_name := _ |}) in *.
  set (st1 := {| loaded := (g, info) :: loaded st; stack := g :: stack st;
                 base := dir_of g; ns := ns st; events := events st |}) in *.
  assert (Hrg : reachable fs E g) by (eapply r_step; [exact Hr | eapply edge_of_meaning; eauto]).
  assert (Hn1 : ninv st1).
  { intros k inf Hl Hk n Hin. unfold st1 in *; cbn in *.
    destruct (key_eqb k g) eqn:Ek.
    - apply key_eqb_eq in Ek; subst k. exfalso; apply Hk; left; reflexivity.
    - eapply Hn; eauto. }
  pose proof (go_mod_e ld g mg Hv He Hrg Hmg (m_imports mg) st1 ([], []) (fun x Hx => Hx) Hinv1 eq_refl Hn1) as Hge.
  pose proof (go_mod_v ld g mg Hv Hrg Hmg (m_imports mg) [] st1 ([], []) eq_refl Hinv1 eq_refl
                (fun j Hj => match Hj with end) (fun _ _ => names_spec_nil _)) as Hgv.
  destruct (go_mod fs root ld (m_imports mg) st1 ([], [])) as [[st2 acc]| |]; cbn in Hge; auto.
  destruct Hge as [Hn2 Hmono2]. destruct Hgv as ((Hi2 & Hs2 & _ & Hm2 & _) & _).
  rewrite Hflt. cbn [N.eqb Pos.eqb].
  set (s1 := write_defs g mg (ns st2)).
  destruct (bind_exports_some eimp (pub_names mg) s1) as (s2 & Hs2' & Hmono3).
  { intros n Hin. destruct (pub_names_defs _ _ Hin) as (d & Hd & <-). apply write_defs_binds; exact Hd. }
  { intros l n Hf Hin. eapply Hsy; eauto. congruence. }
  rewrite Hs2'. cbn.
  assert (Hw : nsmono (ns st2) s1) by apply write_defs_fold_mono.
  split.
  - intros k inf Hl Hk n Hin. cbn in Hl, Hk |- *. rewrite Hs2 in Hk. cbn in Hk.
    destruct (key_eqb k g) eqn:Ek.
    + apply key_eqb_eq in Ek; subst k.
      assert (Hlp : lookup g (loaded st2) = Some info) by (apply Hm2; cbn; apply lookup_cons_eq).
      rewrite Hlp in Hl; inversion Hl; subst inf. cbn in Hin.
      apply Hmono3. destruct (pub_names_defs _ _ Hin) as (d & Hd & <-). apply write_defs_binds; exact Hd.
    + apply Hmono3, Hw. eapply Hn2; eauto. rewrite Hs2. cbn. intros [Heq|Hin']; [| contradiction].
      apply key_eqb_neq in Ek. congruence.
  - intros x Hx. apply Hmono3, Hw, Hmono2. exact Hx.
Qed.

Lemma load_step_e : forall ld, vgood ld -> egood ld -> egood (load_step fs root ld).
Proof.
  intros ld Hv He cur mc i st Hr Hmc Hi Hinv Hb Hn. unfold load_step. cbv zeta.
  remember (i_path i) as p eqn:Ep in |- *. symmetry in Ep.
  destruct (is_std p) eqn:Estd.
  { destruct p; [discriminate|]. cbn. split; [exact Hn | intros g Hg; exact Hg]. }
  assert (Hstd : is_std (i_path i) = false) by (rewrite Ep; exact Estd).
  destruct (HC cur mc i Hr Hmc Hi Hstd) as (Hne & g & fm & mg & Hmean & Hmg & Hflt & Hsy). fold root in Hmean.
  destruct p as [|x p']; [congruence|].
  rewrite Hb. pose proof Hmean as Hmean0. unfold meaning in Hmean. rewrite Hstd, Ep in Hmean.
  destruct (resolve_fb fs root (dir_of cur) (x :: p')) as [[[file actual] sym]|] eqn:Er; [| discriminate].
  set (eimp := match sym with Some s => {| i_path := actual; i_form := FSymbols [s] |} | None => i end).
  assert (Hfg : file = g /\ fm = match sym with Some s => FSymbols [s] | None => i_form i end).
  { destruct sym; inversion Hmean; auto. }
  destruct Hfg as [-> Hfm].
  assert (Hef : i_form eimp = fm) by (unfold eimp; rewrite Hfm; destruct sym; reflexivity).
  assert (Hlr : lres_of eimp = lres_spec cur i).
  { unfold lres_spec. rewrite Hmean0, Hfm. unfold eimp, lres_of. destruct sym; reflexivity. }
  assert (Hep : i_path eimp <> []).
  { unfold eimp. destruct (resolve_fb_shape _ _ _ _ _ _ _ Er) as [_ [(_ & -> & ->)|(_ & _ & -> & Hne')]]; cbn.
    - rewrite Ep; discriminate.
    - exact Hne'. }
  destruct (mem_key g (stack st)) eqn:Emem; [reflexivity|].
  apply mem_key_false in Emem.
  destruct (lookup g (loaded st)) as [info|] eqn:El.
  - destruct (v_info _ Hinv _ _ El) as (_ & m' & Hm' & Hex). rewrite Hmg in Hm'. inversion Hm'; subst m'.
    destruct (bind_exports_some eimp (mi_exports info) (ns st)) as (s' & Hs' & Hmono).
    { intros n Hin. eapply Hn; eauto. }
    { intros l n Hf Hin. rewrite Hex. eapply Hsy; eauto. congruence. }
    rewrite Hs'. cbn. split; [| exact Hmono].
    intros k inf Hl Hk n Hin. apply Hmono. eapply Hn; eauto.
  - rewrite Hmg. eapply compile_e; eauto.
Qed.

Lemma load_e : forall n, egood (load fs root n).
Proof.
  induction n as [|n IH]; [intros cur m i st _ _ _ _ _ _; exact I|].
  cbn [load]. apply load_step_e; [apply load_v | exact IH].
Qed.

Lemma entry_go_e : forall n me, find_file fs E = Some me ->
  forall imps s acc orig, incl imps (m_imports me) -> inv s -> base s = dir_of E -> ninv s ->
  match entry_go fs root n imps s acc orig with
  | Err e _ => e = ECircular \/ e = ESymbolConflict
  | _ => True
  end.
Proof.
  intros n me Hme imps; induction imps as [|j r IH]; intros s acc orig Hincl Hinv Hb Hn; cbn; [exact I|].
  pose proof (load_v n E me j s (r_refl fs E) Hme (Hincl j (or_introl eq_refl)) Hinv Hb) as Hvj.
  pose proof (load_e n E me j s (r_refl fs E) Hme (Hincl j (or_introl eq_refl)) Hinv Hb Hn) as Hej.
  destruct (load fs root n j s) as [[s' lr]| |]; cbn in *; auto.
  destruct Hvj as ((Hi' & Hs' & Hb' & _) & _). destruct Hej as [Hn' _].
  destruct (contrib_entry acc orig j lr _) as [[acc' orig']|]; [| right; reflexivity].
  apply IH; auto. - intros x Hx; apply Hincl; right; exact Hx. - congruence.
Qed.

Lemma run_err_kind : forall fuel e tr, run fs E fuel = Err e tr -> find_file fs E <> None ->
  e = ECircular \/ e = ESymbolConflict.
Proof.
  intros fuel e tr. unfold run. fold root. destruct (find_file fs E) as [me|] eqn:Hme; [| intros _ H; contradiction].
  pose proof (entry_go_e fuel me Hme (m_imports me) (init_state E) ([], []) [] (fun x Hx => Hx) init_inv eq_refl) as Hg.
  destruct (entry_go fs root fuel (m_imports me) (init_state E) ([], []) []) as [[st acc]| |]; try discriminate.
  intros H _; inversion H; subst. apply Hg. intros k info Hl; discriminate.
Qed.
End Dfs.

(* ================================================================ the property theorems' lemmas *)
Lemma init_once_lemma : forall fs E fuel evs, run fs E fuel = Ok evs ->
  let tr := map ev_file evs in
  NoDup tr /\ (forall f, In f tr <-> reachable fs E f) /\ postorder fs E tr /\ (exists l, tr = l ++ [E]).
Proof. intros fs E fuel evs Hrun. eapply run_trace; eauto. Qed.

Lemma at_most_once_on_error_lemma : forall fs E fuel e s, run fs E fuel = Err e s ->
  let t := map ev_file (events s) in
  NoDup t /\ (forall f, In f t -> reachable fs E f) /\ postorder fs E t.
Proof. intros fs E fuel e s H. eapply run_err_trace; eauto. Qed.

Lemma cycle_never_ok_lemma : forall fs E fuel f,
  reachable fs E f -> path_plus fs E f f -> forall evs, run fs E fuel <> Ok evs.
Proof. intros fs E fuel f Hr Hp evs Hrun. eapply run_cycle; eauto. Qed.

Lemma cycle_reported_lemma : forall fs E fuel f, (fuel >= fuel_bound fs)%nat ->
  reachable fs E f -> path_plus fs E f f -> exists e tr, run fs E fuel = Err e tr.
Proof.
  intros fs E fuel f Hf Hr Hp.
  destruct (run fs E fuel) as [evs|e tr|] eqn:Hrun.
  - exfalso. eapply cycle_never_ok_lemma; eauto.
  - eauto.
  - exfalso. eapply no_divergence_lemma; eauto.
Qed.

Lemma clean_b_sound : forall fs E, clean_b fs (dir_of E) = true -> clean fs E.
Proof.
  intros fs E Hc f m i _ Hm Hi Hstd. unfold clean_b in Hc. rewrite forallb_forall in Hc.
  apply lookup_In in Hm. apply Hc in Hm. cbn in Hm. rewrite forallb_forall in Hm. apply Hm in Hi.
  rewrite Hstd in Hi. cbn in Hi. apply andb_true_iff in Hi as [Hne Hi].
  split; [destruct (i_path i); [discriminate | discriminate]|].
  destruct (meaning fs (dir_of E) f i) as [[g fm]|]; [| discriminate].
  destruct (find_file fs g) as [mg|] eqn:Eg; [| discriminate].
  apply andb_true_iff in Hi as [Hflt Hi]. apply N.eqb_eq in Hflt.
  exists g, fm, mg. split; [reflexivity|]. split; [exact Eg|]. split; [exact Hflt|].
  intros l s Hf Hs. rewrite Hf in Hi. rewrite forallb_forall in Hi. apply mem_id_true_In, Hi, Hs.
Qed.

Lemma reach_src : forall fs E f, reachable fs E f -> f = E \/ find_file fs E <> None.
Proof.
  intros fs E f Hr; induction Hr as [|g h Hr IH He]; [left; reflexivity|].
  destruct IH as [->|IH]; [| right; exact IH]. destruct He as (m & i & Hm & _). right; congruence.
Qed.
Lemma pp_src : forall fs E f g, path_plus fs E f g -> find_file fs f <> None.
Proof.
  intros fs E f g Hp; induction Hp as [f g He | f g h Hp IH He]; [| exact IH].
  destruct He as (m & i & Hm & _). congruence.
Qed.

Lemma cycle_circular_lemma : forall fs E fuel f, clean fs E ->
  (fuel >= fuel_bound fs)%nat -> reachable fs E f -> path_plus fs E f f ->
  exists tr, run fs E fuel = Err ECircular tr \/ run fs E fuel = Err ESymbolConflict tr.
Proof.
  intros fs E fuel f Hc Hf Hr Hp.
  destruct (cycle_reported_lemma fs E fuel f Hf Hr Hp) as (e & tr & Hrun).
  assert (HE : find_file fs E <> None).
  { destruct (reach_src fs E f Hr) as [->|H]; [eapply pp_src; eauto | exact H]. }
  exists tr. destruct (run_err_kind fs E Hc fuel e tr Hrun HE) as [->| ->]; auto.
Qed.

Lemma visibility_lemma : forall fs E fuel evs, run fs E fuel = Ok evs -> forall ev, In ev evs ->
  names_ok fs E ev /\ selected_are_pub fs E (ev_file ev).
Proof. intros fs E fuel evs Hrun ev Hev. eapply run_names; eauto. Qed.

Lemma values_lemma : forall fs E fuel evs, run fs E fuel = Ok evs -> forall ev, In ev evs -> values_ok fs E ev.
Proof. intros fs E fuel evs Hrun ev Hev. eapply run_values; eauto. Qed.

(* ---- the guards of the value clause are decidable *)
Lemma count_id_app : forall n a b, count_id n (a ++ b) = (count_id n a + count_id n b)%nat.
Proof. induction a as [|x a IH]; intro b; cbn; [reflexivity | rewrite IH; lia]. Qed.

Lemma count_id_In : forall n l, In n l -> (count_id n l >= 1)%nat.
Proof.
  induction l as [|x l IH]; intro H; [destruct H|]. cbn. destruct H as [->|H].
  - rewrite N.eqb_refl. lia.
  - specialize (IH H). lia.
Qed.

Lemma in_two_split : forall A (a b : A) l, In a l -> In b l -> a <> b ->
  exists l1 l2 l3, l = l1 ++ a :: l2 ++ b :: l3 \/ l = l1 ++ b :: l2 ++ a :: l3.
Proof.
  intros A a b l Ha Hb Hne. apply in_split in Ha as (l1 & l2 & ->).
  apply in_app_or in Hb as [Hb|[Hb|Hb]]; [| congruence |].
  - apply in_split in Hb as (x & y & ->). exists x, y, l2. right. rewrite <- app_assoc. reflexivity.
  - apply in_split in Hb as (x & y & ->). exists l1, x, y. left. reflexivity.
Qed.

Lemma unique_defs_sound : forall fs, unique_defs fs = true -> forall n, name_unique fs n.
Proof.
  intros fs Hu n g1 g2 (m1 & Hm1 & Hn1) (m2 & Hm2 & Hn2).
  destruct (key_eqb g1 g2) eqn:Eg; [apply key_eqb_eq; exact Eg|]. exfalso.
  apply key_eqb_neq in Eg. apply lookup_In in Hm1, Hm2.
  assert (Hne : (g1, m1) <> (g2, m2)) by congruence.
  destruct (in_two_split _ _ _ _ Hm1 Hm2 Hne) as (l1 & l2 & l3 & Hsplit).
  unfold unique_defs in Hu. rewrite forallb_forall in Hu.
  assert (Hin : In n (all_def_names fs)).
  { unfold all_def_names. apply in_flat_map. exists (g1, m1); split; [exact Hm1 | exact Hn1]. }
  specialize (Hu n Hin). apply Nat.eqb_eq in Hu.
  assert (Hge : (count_id n (all_def_names fs) >= 2)%nat).
  { unfold all_def_names. pose proof (count_id_In n _ Hn1). pose proof (count_id_In n _ Hn2).
    destruct Hsplit as [Hs|Hs]; rewrite Hs; rewrite !flat_map_app; cbn [flat_map]; rewrite !flat_map_app;
      cbn [flat_map]; rewrite !count_id_app; cbn [snd] in *; lia. }
  lia.
Qed.

Lemma quals_ok_sound : forall fs root, quals_ok_b fs root = true -> forall q, qual_ok fs root q.
Proof.
  intros fs root Hb q f1 m1 j1 f2 m2 j2 g1 fm1 g2 fm2 Hf1 Hj1 Hm1 Hf2 Hj2 Hm2 Hq1 Hq2.
  unfold quals_ok_b in Hb. rewrite forallb_forall in Hb.
  assert (Huse : forall f m j g fm, find_file fs f = Some m -> In j (m_imports m) ->
            meaning fs root f j = Some (g, fm) -> granted_qualifier fs root f j = Some q ->
            In (q, g, fm) (qual_uses fs root)).
  { intros f m j g fm Hf Hj Hm Hq. unfold qual_uses. apply in_flat_map. exists (f, m).
    split; [apply lookup_In; exact Hf|]. apply in_flat_map. exists j. split; [exact Hj|].
    cbn [fst]. rewrite Hq, Hm. left; reflexivity. }
  pose proof (Hb _ (Huse _ _ _ _ _ Hf1 Hj1 Hm1 Hq1)) as H1. rewrite forallb_forall in H1.
  specialize (H1 _ (Huse _ _ _ _ _ Hf2 Hj2 Hm2 Hq2)). cbn [fst snd] in H1.
  rewrite N.eqb_refl in H1. cbn in H1. apply andb_true_iff in H1 as [Hk Hw].
  apply key_eqb_eq in Hk. split; [exact Hk|].
  intros ->. cbn in Hw. destruct fm2; try discriminate; reflexivity.
Qed.

(* collect_exports keeps exactly the definitions marked pub (the two guards come from the source) *)
Lemma pub_names_pub : forall m n, In n (pub_names m) <->
  exists d, In d (m_defs m) /\ d_name d = n /\ d_pub d = true.
Proof.
  intros m n. unfold pub_names. rewrite in_map_iff. split.
  - intros (d & Hn & Hd). apply filter_In in Hd as [Hd He]. exists d. split; [exact Hd|]. split; [exact Hn|].
    unfold exported in He. destruct (d_fn d); exact He.
  - intros (d & Hd & Hn & Hp). exists d. split; [exact Hn|]. apply filter_In. split; [exact Hd|].
    unfold exported. destruct (d_fn d); rewrite Hp; apply orb_true_r.
Qed.

(* every bare name a top level knows is its own or a definition marked pub in a module one of its
   imports means *)
Lemma known_are_pub_lemma : forall fs E fuel evs, run fs E fuel = Ok evs -> forall ev m, In ev evs ->
  find_file fs (ev_file ev) = Some m -> no_std_imports m -> nonempty_symbols m ->
  forall n, In n (ev_known ev) ->
    In n (map d_name (m_defs m)) \/
    exists j g fm mg d, In j (m_imports m) /\ meaning fs (dir_of E) (ev_file ev) j = Some (g, fm) /\
                        find_file fs g = Some mg /\ In d (m_defs mg) /\ d_name d = n /\ d_pub d = true.
Proof.
  intros fs E fuel evs Hrun ev m Hev Hm Hns Hne n Hn.
  destruct (visibility_lemma fs E fuel evs Hrun ev Hev) as [Hnames Hpub].
  destruct (Hnames m Hm Hns Hne) as [_ HK]. apply HK in Hn as [Hn|(j & Hj & Hn)]; [left; exact Hn|].
  right. destruct (Hpub m j Hm Hj (Hns j Hj)) as (g & fm & mg & Hmean & Hmg & Hsy).
  assert (Hp : In n (pub_names mg)).
  { unfold granted_bare in Hn. rewrite Hmean, Hmg in Hn.
    destruct fm as [|a|l|]; try exact Hn; [destruct Hn | eapply Hsy; eauto]. }
  apply pub_names_pub in Hp as (d & Hd & Hdn & Hdp).
  exists j, g, fm, mg, d. auto 10.
Qed.

(* a qualifier that no import grants names nothing *)
Lemma qualifier_exact_lemma : forall ev q n, ~ In q (ev_aliases ev) -> probe ev (SQual q n) = None.
Proof.
  intros ev q n Hq. unfold probe. destruct (mem_id q (ev_aliases ev)) eqn:Em; [| reflexivity].
  apply mem_id_true_In in Em. contradiction.
Qed.

(* ================================================================ witnesses (computation) *)
Ltac solve_edge :=
  eexists; eexists; split; [vm_compute; reflexivity | split; [cbn; eauto 10 | vm_compute; reflexivity]].

(* still false of the loader: the one VM namespace (KF-C19-3, KF-C19-8) *)
Lemma flat_namespace_collision_refuted_lemma : exists fs E evs ev,
  run fs E (fuel_bound fs) = Ok evs /\
  In ev evs /\ ev_file ev = [12] /\ meaning fs (dir_of E) [12] (imp [10] (FAlias 73)) = Some ([10], FAlias 73) /\
  find_file fs [11] = Some (M [] [D 40 false; D 45 true]) /\
  probe ev (SQual 73 40) = Some ([11], 40).
Proof.
  exists w_flatns, E9. eexists. eexists.
  split; [vm_compute; reflexivity|]. split. { right; right; left; reflexivity. }
  vm_compute. repeat split; reflexivity.
Qed.

Lemma shared_qualifier_refuted_lemma : exists fs E evs ev,
  unique_defs fs = true /\
  run fs E (fuel_bound fs) = Ok evs /\ In ev evs /\ ev_file ev = [12] /\
  find_file fs [12] = Some (M [imp [10] (FAlias 70)] [D 46 true]) /\
  meaning fs (dir_of E) [12] (imp [10] (FAlias 70)) = Some ([10], FAlias 70) /\
  probe ev (SQual 70 44) = Some ([11], 44).
Proof.
  exists w_shared_q, E9. eexists. eexists.
  split; [reflexivity|].
  split; [vm_compute; reflexivity|].
  split. { right; right; right; left; reflexivity. }
  vm_compute. repeat split; reflexivity.
Qed.

(* the trees that used to refute the property (kept as regression examples): what the repaired
   loader does with them *)
Lemma repaired_examples_lemma :
  (* two directories with a file of the same name: both initialise, each importer gets its own *)
  (exists evs ev, run w_collision E9 (fuel_bound w_collision) = Ok evs /\
     map ev_file evs = [[20;12]; [20;10]; [21;12]; [21;11]; [9]] /\ In ev evs /\ ev_file ev = [21;11] /\
     probe ev (SQual 12 40) = Some ([21;12], 40) /\ probe ev (SQual 12 42) = Some ([21;12], 42)) /\
  (* one file under two dotted paths: once *)
  (exists evs, run w_twokeys E9 (fuel_bound w_twokeys) = Ok evs /\ map ev_file evs = [[20;10]; [20;11]; [9]]) /\
  (* a cycle written `needs mod.symbol`: CircularDependency *)
  (exists tr, run w_pscycle E9 (fuel_bound w_pscycle) = Err ECircular tr) /\
  (* `needs m` then `needs m.private`: SymbolNotFound *)
  (exists tr, run w_leak E9 (fuel_bound w_leak) = Err ESymbolNotFound tr) /\
  (* two selected symbols inside a module: both usable *)
  (exists evs ev, run w_second E9 (fuel_bound w_second) = Ok evs /\ In ev evs /\ ev_file ev = [11] /\
     probe ev (SBare 40) = Some ([10], 40) /\ probe ev (SBare 42) = Some ([10], 42)) /\
  (* `needs n40 from n10`: only the bare spelling *)
  (exists evs ev, run w_qual E9 (fuel_bound w_qual) = Ok evs /\ In ev evs /\ ev_file ev = E9 /\
     probe ev (SBare 40) = Some ([10], 40) /\ probe ev (SQual 10 40) = None /\ probe ev (SQual 99 40) = None).
Proof.
  split. { eexists. eexists. split; [vm_compute; reflexivity|]. split; [reflexivity|].
           split; [right; right; right; left; reflexivity|]. vm_compute. repeat split; reflexivity. }
  split. { eexists. split; vm_compute; reflexivity. }
  split. { eexists. vm_compute; reflexivity. }
  split. { eexists. vm_compute; reflexivity. }
  split. { eexists. eexists. split; [vm_compute; reflexivity|]. split; [right; left; reflexivity|].
           vm_compute. repeat split; reflexivity. }
  eexists. eexists. split; [vm_compute; reflexivity|]. split; [right; left; reflexivity|].
  vm_compute. repeat split; reflexivity.
Qed.

(* non-vacuity: a diamond with all import forms initialises in post-order; a 6-cycle behind a
   tail is reported; both trees are clean *)
Lemma nonvacuous_lemma :
  clean_b w_diamond [] = true /\ unique_defs w_diamond = true /\ quals_ok_b w_diamond [] = true /\
  (exists evs, run w_diamond E9 (fuel_bound w_diamond) = Ok evs /\
               map ev_file evs = [[19]; [10]; [11]; [12]; [9]]) /\
  clean_b w_cycle6 [] = true /\
  reachable w_cycle6 E9 [11] /\ path_plus w_cycle6 E9 [11] [11] /\
  (exists tr, run w_cycle6 E9 (fuel_bound w_cycle6) = Err ECircular tr /\ map ev_file (events tr) = [[19]]).
Proof.
  split; [reflexivity|]. split; [reflexivity|]. split; [reflexivity|].
  split. { eexists. split; vm_compute; reflexivity. }
  split; [reflexivity|].
  split. { eapply r_step; [eapply r_step; [apply r_refl | solve_edge] | solve_edge]. }
  split. { eapply pp_step; [eapply pp_step; [eapply pp_step; [eapply pp_step; [eapply pp_step;
           [apply pp_one; solve_edge | solve_edge] | solve_edge] | solve_edge] | solve_edge] | solve_edge]. }
  eexists. split; vm_compute; reflexivity.
Qed.
