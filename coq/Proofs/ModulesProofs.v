(* C19 -- proofs about the loader model (Model/Modules.v) against Model/ModulesSpec.v. *)
From Aelys Require Import Base.Tactics Model.Modules Model.ModulesSpec Model.ModulesObs.
Local Open Scope N_scope.

(* ---------------------------------------------------------------- basics *)
Lemma key_eqb_eq : forall a b, key_eqb a b = true <-> a = b.
Proof.
  induction a as [|x a IH]; destruct b as [|y b]; cbn; split; intro H; try congruence; try discriminate.
  - apply andb_true_iff in H as [H1 H2]. apply N.eqb_eq in H1. apply IH in H2. congruence.
  - inversion H; subst. apply andb_true_iff; split; [apply N.eqb_refl | apply IH; reflexivity].
Qed.
Lemma key_eqb_refl : forall a, key_eqb a a = true.
Proof. intro; apply key_eqb_eq; reflexivity. Qed.
Lemma key_eqb_neq : forall a b, key_eqb a b = false <-> a <> b.
Proof.
  intros; split; intro H.
  - intro E; apply key_eqb_eq in E; congruence.
  - destruct (key_eqb a b) eqn:E; [apply key_eqb_eq in E; contradiction | reflexivity].
Qed.

Lemma mem_key_In : forall k l, mem_key k l = true <-> In k l.
Proof.
  induction l as [|x l IH]; cbn; [split; [discriminate | tauto]|].
  rewrite orb_true_iff, IH, key_eqb_eq. split; intros [H|H]; auto.
Qed.
Lemma mem_key_false : forall k l, mem_key k l = false <-> ~ In k l.
Proof.
  intros; rewrite <- mem_key_In. destruct (mem_key k l); split; intro; congruence.
Qed.

Lemma lookup_cons_eq : forall A k (v : A) l, lookup k ((k, v) :: l) = Some v.
Proof. intros; cbn; rewrite key_eqb_refl; reflexivity. Qed.
Lemma lookup_cons_neq : forall A k k' (v : A) l, k <> k' -> lookup k ((k', v) :: l) = lookup k l.
Proof. intros A k k' v l H; cbn. apply key_eqb_neq in H. rewrite H; reflexivity. Qed.
Lemma lookup_In : forall A k (v : A) l, lookup k l = Some v -> In (k, v) l.
Proof.
  induction l as [|[k' v'] l IH]; cbn; [discriminate|].
  destruct (key_eqb k k') eqn:E; intro H.
  - apply key_eqb_eq in E; inversion H; subst; auto.
  - auto.
Qed.

(* ---------------------------------------------------------------- resolution facts *)
Lemma resolve_direct_find : forall fs b p f, resolve_direct fs b p = Some f -> exists m, find_file fs f = Some m.
Proof.
  unfold resolve_direct; intros fs b p f.
  destruct (find_file fs (b ++ p)) eqn:E1.
  - intro H; inversion H; subst; eauto.
  - destruct (find_file fs (b ++ p ++ [MODSEG])) eqn:E2; intro H; inversion H; subst; eauto.
Qed.

Lemma resolve_fb_shape : forall fs b p f a s, resolve_fb fs b p = Some (f, a, s) ->
  (exists m, find_file fs f = Some m) /\ ((a = p /\ s = None) \/ (a = removelast p /\ s = Some (last_seg p))).
Proof.
  unfold resolve_fb; intros fs b p f a s.
  destruct (resolve_direct fs b p) eqn:E1.
  - intro H; inversion H; subst. split; [eapply resolve_direct_find; eauto | auto].
  - destruct p as [|x [|y r]]; try discriminate.
    destruct (resolve_direct fs b (removelast (x :: y :: r))) eqn:E2; try discriminate.
    intro H; inversion H; subst. split; [eapply resolve_direct_find; eauto | auto].
Qed.

(* ================================================================ no divergence (any tree) *)
Definition keys_of_import (i : import) : list key := [i_path i; removelast (i_path i)].

Lemma all_keys_In : forall fs f m i, In (f, m) fs -> In i (m_imports m) ->
  incl (keys_of_import i) (all_keys fs).
Proof.
  intros fs f m i Hf Hi k Hk. unfold all_keys. apply in_flat_map. exists (f, m); split; [exact Hf|].
  apply in_flat_map. exists i; split; [exact Hi | exact Hk].
Qed.

Definition has_key {A} (k : key) (l : list (key * A)) : Prop := lookup k l <> None.

Lemma has_key_cons : forall A k k' (v : A) l, has_key k l -> has_key k ((k', v) :: l).
Proof.
  unfold has_key; intros A k k' v l H. cbn. destruct (key_eqb k k'); [discriminate | exact H].
Qed.

Record dinv (fs : fsys) (st : lstate) : Prop := {
  d_nodup : NoDup (stack st);
  d_incl : incl (stack st) (all_keys fs);
  d_loaded : forall k, In k (stack st) -> has_key k (loaded st)
}.

Definition dpost {A} (st : lstate) (r : res (lstate * A)) : Prop :=
  match r with
  | Ok (st', _) => stack st' = stack st /\ (forall k, has_key k (loaded st) -> has_key k (loaded st'))
  | Err _ _ => True
  | Fuel => False
  end.

Definition dgood (fs : fsys) (ld : loader) (n : nat) : Prop :=
  forall j s, incl (keys_of_import j) (all_keys fs) -> dinv fs s ->
              (n + length (stack s) > length (all_keys fs))%nat -> dpost s (ld j s).

Lemma dinv_step : forall fs s s', dinv fs s -> stack s' = stack s ->
  (forall k, has_key k (loaded s) -> has_key k (loaded s')) -> dinv fs s'.
Proof.
  intros fs s s' [H1 H2 H3] Hs Hl. split; rewrite Hs; auto.
Qed.

Lemma go_mod_d : forall fs ld n imps s acc,
  dgood fs ld n ->
  (forall j, In j imps -> incl (keys_of_import j) (all_keys fs)) ->
  dinv fs s -> (n + length (stack s) > length (all_keys fs))%nat ->
  dpost s (go_mod ld imps s acc).
Proof.
  intros fs ld n imps; induction imps as [|j r IH]; intros s acc Hld Hk Hinv Hf; cbn.
  - split; auto.
  - pose proof (Hld j s (Hk j (or_introl eq_refl)) Hinv Hf) as Hj.
    destruct (ld j s) as [[s' lr]| |]; cbn in Hj; [| exact I | contradiction].
    destruct Hj as [Hs Hl].
    assert (Hinv' : dinv fs s') by (eapply dinv_step; eauto).
    assert (Hf' : (n + length (stack s') > length (all_keys fs))%nat) by (rewrite Hs; exact Hf).
    pose proof (IH s' (contrib_mod acc j lr (loaded s')) Hld (fun j' Hj' => Hk j' (or_intror Hj')) Hinv' Hf') as Hr.
    destruct (go_mod ld r s' (contrib_mod acc j lr (loaded s'))) as [[s2 a2]| |]; cbn in *; auto.
    destruct Hr as [Hs2 Hl2]. split; [congruence | auto].
Qed.

Lemma compile_d : forall fs ld n file actual sym i m st,
  dgood fs ld n ->
  In (file, m) fs -> In actual (all_keys fs) -> lookup actual (loaded st) = None ->
  dinv fs st -> (S n + length (stack st) > length (all_keys fs))%nat ->
  dpost st (compile ld file actual sym i m st).
Proof.
  intros fs ld n file actual sym i m st Hld Hm Ha Hnl Hinv Hf.
  unfold compile.
  set (info := {| mi_file := file; mi_exports := pub_names m; mi_name := _ |}).
  set (st1 := {| loaded := (actual, info) :: loaded st; stack := actual :: stack st;
                 base := dir_of file; ns := ns st; events := events st |}).
  assert (Hni : ~ In actual (stack st)).
  { intro Hin. apply (d_loaded _ _ Hinv) in Hin. unfold has_key in Hin. congruence. }
  assert (Hinv1 : dinv fs st1).
  { split; cbn.
    - constructor; [exact Hni | apply (d_nodup _ _ Hinv)].
    - intros k [<-|Hk]; [exact Ha | apply (d_incl _ _ Hinv); exact Hk].
    - intros k [<-|Hk]; unfold has_key.
      + rewrite lookup_cons_eq; discriminate.
      + apply has_key_cons. apply (d_loaded _ _ Hinv); exact Hk. }
  assert (Hf1 : (n + length (stack st1) > length (all_keys fs))%nat) by (cbn; lia).
  pose proof (go_mod_d fs ld n (m_imports m) st1 ([], []) Hld
                (fun j Hj => all_keys_In fs file m j Hm Hj) Hinv1 Hf1) as Hg.
  destruct (go_mod ld (m_imports m) st1 ([], [])) as [[st2 acc]| |]; cbn in Hg; [| exact I | contradiction].
  destruct Hg as [Hs Hl].
  match goal with |- context [bind_exports ?a ?b ?c] => destruct (bind_exports a b c) end; cbn; [| exact I].
  split.
  - rewrite Hs; reflexivity.
  - intros k Hk. apply Hl. cbn. apply has_key_cons; exact Hk.
Qed.

Lemma load_step_d : forall fs ld n, dgood fs ld n -> dgood fs (load_step fs ld) (S n).
Proof.
  intros fs ld n Hld i st Hk Hinv Hf. unfold load_step. cbv zeta.
  remember (i_path i) as p eqn:Ep in |- *. symmetry in Ep. destruct p as [|x p']; [exact I|].
  destruct (is_std (x :: p')); [cbn; auto|].
  destruct (mem_key (x :: p') (stack st)); [exact I|].
  destruct (lookup (x :: p') (loaded st)) as [info|] eqn:El.
  - destruct (bind_exports i (mi_exports info) (ns st)); cbn; auto.
  - destruct (resolve_fb fs (base st) (x :: p')) as [[[file actual] sym]|] eqn:Er; [| exact I].
    apply resolve_fb_shape in Er as [[m Hm] Hshape].
    assert (Hact : In actual (all_keys fs) /\ lookup actual (loaded st) = None \/
                   (exists s, sym = Some s) /\ lookup actual (loaded st) <> None).
    { destruct Hshape as [[-> ->]|[-> ->]].
      - left; split; [apply Hk; unfold keys_of_import; rewrite Ep; left; reflexivity | exact El].
      - destruct (lookup (removelast (x :: p')) (loaded st)) eqn:E2.
        + right; split; [eauto | discriminate].
        + left; split; [apply Hk; unfold keys_of_import; rewrite Ep; right; left; reflexivity | reflexivity]. }
    destruct Hact as [[Ha Hn]|[[s ->] Hn]].
    + rewrite Hn. rewrite Hm.
      assert (Hc : dpost st (compile ld file actual sym i m st)).
      { eapply compile_d; eauto. apply lookup_In; exact Hm. }
      destruct sym; exact Hc.
    + destruct (lookup actual (loaded st)); [cbn; auto | contradiction].
Qed.

Lemma load_d : forall fs n, dgood fs (load fs n) n.
Proof.
  intros fs n; induction n as [|n IH].
  - intros j s _ Hinv Hf. exfalso.
    pose proof (NoDup_incl_length (d_nodup _ _ Hinv) (d_incl _ _ Hinv)). cbn in Hf. lia.
  - cbn [load]. apply load_step_d; exact IH.
Qed.

Lemma entry_go_d : forall fs n imps s acc orig,
  (forall j, In j imps -> incl (keys_of_import j) (all_keys fs)) ->
  dinv fs s -> (n + length (stack s) > length (all_keys fs))%nat ->
  entry_go fs n imps s acc orig <> Fuel.
Proof.
  intros fs n imps; induction imps as [|j r IH]; intros s acc orig Hk Hinv Hf; cbn; [discriminate|].
  pose proof (load_d fs n j s (Hk j (or_introl eq_refl)) Hinv Hf) as Hj.
  destruct (load fs n j s) as [[s' lr]| |]; cbn in Hj; [| discriminate | contradiction].
  destruct Hj as [Hs Hl].
  destruct (contrib_entry acc orig j lr (loaded s')) as [[acc' orig']|]; [| discriminate].
  apply IH.
  - intros j' Hj'; apply Hk; right; exact Hj'.
  - eapply dinv_step; eauto.
  - rewrite Hs; exact Hf.
Qed.

Lemma no_divergence_lemma : forall fs entry fuel,
  (fuel >= fuel_bound fs)%nat -> run fs entry fuel <> Fuel.
Proof.
  intros fs entry fuel Hf. unfold run.
  destruct (find_file fs entry) as [m|] eqn:Em; [| discriminate].
  pose proof (entry_go_d fs fuel (m_imports m) (init_state entry) ([], []) []) as H.
  destruct (entry_go fs fuel (m_imports m) (init_state entry) ([], []) []) as [[st acc]| |]; try discriminate.
  exfalso. apply H; auto.
  - intros j Hj. eapply all_keys_In; [apply lookup_In; exact Em | exact Hj].
  - split; cbn; [constructor | intros k [] | intros k []].
  - cbn. unfold fuel_bound in Hf. lia.
Qed.

(* ================================================================ the DFS is right when keys name files *)
Lemma app_snoc_split : forall A (l : list A) x l1 g l2,
  l ++ [x] = l1 ++ g :: l2 ->
  (l2 = [] /\ l1 = l /\ g = x) \/ (exists l2', l2 = l2' ++ [x] /\ l = l1 ++ g :: l2').
Proof.
  intros A l x l1 g l2. destruct l2 as [|y l2' _] using rev_ind; intro H.
  - left. change (l1 ++ [g]) with (l1 ++ [g]) in H. apply app_inj_tail in H as [H1 H2]. auto.
  - right. exists l2'. replace (l1 ++ g :: l2' ++ [y]) with ((l1 ++ g :: l2') ++ [y]) in H
      by (rewrite <- app_assoc; reflexivity).
    apply app_inj_tail in H as [H1 H2]. subst; auto.
Qed.

Lemma NoDup_snoc : forall A (l : list A) x, NoDup l -> ~ In x l -> NoDup (l ++ [x]).
Proof.
  induction l as [|y l IH]; intros x Hn Hx; cbn.
  - constructor; [intros [] | constructor].
  - inversion Hn; subst. constructor.
    + intro H. apply in_app_or in H as [H|[H|[]]]; [contradiction | subst; apply Hx; left; reflexivity].
    + apply IH; [assumption | intro; apply Hx; right; assumption].
Qed.

Section Dfs.
Variable fs : fsys.
Variable E : fpath.

Definition imp_of (f : fpath) (i : import) : Prop :=
  exists m, find_file fs f = Some m /\ In i (m_imports m) /\ is_std (i_path i) = false.

Hypothesis HP : forall f i, imp_of f i -> forall g a s,
  resolve_fb fs (dir_of f) (i_path i) = Some (g, a, s) -> s = None.
Hypothesis HF : forall f i f' i', imp_of f i -> imp_of f' i' -> i_path i = i_path i' ->
  target fs f i = target fs f' i'.
Hypothesis HI : forall f i f' i' g, imp_of f i -> imp_of f' i' ->
  target fs f i = Some g -> target fs f' i' = Some g -> i_path i = i_path i'.

Definition trace (st : lstate) : list fpath := map ev_file (events st).

Definition key_of (k : key) (g : fpath) : Prop :=
  exists f i, reachable fs E f /\ imp_of f i /\ i_path i = k /\ target fs f i = Some g.

Definition info_ok (info : minfo) : Prop :=
  exists m', find_file fs (mi_file info) = Some m' /\ mi_exports info = pub_names m'.

(* compile-time name sets against a grant function G, for the imports `imps` *)
Definition names_spec (G : import -> list ident) (imps : list import) (acc : names) : Prop :=
  (forall q, In q (fst acc) <-> exists j, In j imps /\ granted_qualifier j = Some q) /\
  (forall n, In n (snd acc) <-> exists j, In j imps /\ In n (G j)).

Local Notation ev_ok_mod := (ModulesSpec.ev_ok_mod fs).

Record inv (st : lstate) : Prop := {
  v_nodup : NoDup (stack st);
  v_stack : forall k, In k (stack st) -> has_key k (loaded st);
  v_key : forall k info, lookup k (loaded st) = Some info -> key_of k (mi_file info);
  v_done : forall k info, lookup k (loaded st) = Some info -> In k (stack st) \/ In (mi_file info) (trace st);
  v_tnodup : NoDup (trace st);
  v_towner : forall g, In g (trace st) ->
     exists k info, lookup k (loaded st) = Some info /\ mi_file info = g /\ ~ In k (stack st);
  v_post : postorder fs (trace st);
  v_info : forall k info, lookup k (loaded st) = Some info -> info_ok info;
  v_evs : forall ev, In ev (events st) -> ev_ok_mod ev
}.

Definition mono (st st' : lstate) : Prop :=
  forall k info, lookup k (loaded st) = Some info -> lookup k (loaded st') = Some info.

Definition frame (st st' : lstate) : Prop :=
  inv st' /\ stack st' = stack st /\ base st' = base st /\ mono st st' /\ (exists ext, trace st' = trace st ++ ext).

(* what a successful load of import i written in file cur guarantees *)
Definition loaded_as (cur : fpath) (i : import) (st' : lstate) : Prop :=
  exists g info, target fs cur i = Some g /\ In g (trace st') /\
                 lookup (i_path i) (loaded st') = Some info /\ mi_file info = g.

Definition vpost (cur : fpath) (i : import) (st : lstate) (r : res (lstate * lres)) : Prop :=
  match r with
  | Ok (st', lr) => frame st st' /\ lr = lres_of i /\ (is_std (i_path i) = false -> loaded_as cur i st')
  | _ => True
  end.

Definition vgood (ld : loader) : Prop :=
  forall cur m i st, reachable fs E cur -> find_file fs cur = Some m -> In i (m_imports m) ->
                     inv st -> base st = dir_of cur -> vpost cur i st (ld i st).

Lemma frame_refl : forall st, inv st -> frame st st.
Proof.
  intros st H. split; [exact H|]. split; [reflexivity|]. split; [reflexivity|]. split.
  - intros k info Hk; exact Hk.
  - exists []; rewrite app_nil_r; reflexivity.
Qed.

Lemma frame_trans : forall a b c, frame a b -> frame b c -> frame a c.
Proof.
  intros a b c (Hi1 & Hs1 & Hb1 & Hm1 & [e1 He1]) (Hi2 & Hs2 & Hb2 & Hm2 & [e2 He2]).
  split; [exact Hi2|]. split; [congruence|]. split; [congruence|]. split.
  - intros k info Hk; auto.
  - exists (e1 ++ e2). rewrite He2, He1, app_assoc; reflexivity.
Qed.

Lemma loaded_as_frame : forall cur i a b, frame a b -> loaded_as cur i a -> loaded_as cur i b.
Proof.
  intros cur i a b (_ & _ & _ & Hm & [ext He]) (g & info & Ht & Hin & Hl & Hf).
  exists g, info. split; [exact Ht|]. split; [rewrite He; apply in_or_app; left; exact Hin|]. auto.
Qed.

Lemma imp_of_file : forall f m i, find_file fs f = Some m -> In i (m_imports m) ->
  is_std (i_path i) = false -> imp_of f i.
Proof. intros f m i Hf Hi Hs. exists m; auto. Qed.

Lemma target_nonstd : forall f i g, target fs f i = Some g -> is_std (i_path i) = false.
Proof. unfold target; intros f i g. destruct (is_std (i_path i)); [discriminate | reflexivity]. Qed.

(* ---- name sets *)
Lemma names_spec_nil : forall G, names_spec G [] ([], []).
Proof. intro G; split; intro x; cbn; (split; [intros [] | intros (j & [] & _)]). Qed.

Lemma names_spec_snoc : forall G done acc j A' K',
  names_spec G done acc ->
  (forall q, In q A' <-> In q (fst acc) \/ granted_qualifier j = Some q) ->
  (forall n, In n K' <-> In n (snd acc) \/ In n (G j)) ->
  names_spec G (done ++ [j]) (A', K').
Proof.
  intros G done acc j A' K' [H1 H2] HA HK. split; cbn [fst snd].
  - intro q. rewrite HA, H1. split.
    + intros [(x & Hx & Hq)|Hq]; [exists x | exists j]; split; auto; apply in_or_app; [left | right; left]; auto.
    + intros (x & Hx & Hq). apply in_app_or in Hx as [Hx|[<-|[]]]; [left; eauto | right; exact Hq].
  - intro n. rewrite HK, H2. split.
    + intros [(x & Hx & Hq)|Hq]; [exists x | exists j]; split; auto; apply in_or_app; [left | right; left]; auto.
    + intros (x & Hx & Hq). apply in_app_or in Hx as [Hx|[<-|[]]]; [left; eauto | right; exact Hq].
Qed.

Lemma contrib_mod_spec : forall file done acc j ld info g mg,
  names_spec (granted_bare_nested fs file) done acc ->
  lookup (i_path j) ld = Some info -> mi_exports info = pub_names mg ->
  target fs file j = Some g -> find_file fs g = Some mg ->
  names_spec (granted_bare_nested fs file) (done ++ [j]) (contrib_mod acc j (lres_of j) ld).
Proof.
  intros file done acc j ld info g mg Hs Hl He Ht Hg.
  unfold contrib_mod. rewrite Hl, He.
  assert (HG : granted_bare_nested fs file j =
               match i_form j with FModule | FWildcard => pub_names mg | FSymbols l => [hd 0 l] | FAlias _ => [] end).
  { unfold granted_bare_nested. rewrite Ht, Hg. reflexivity. }
  unfold lres_of.
  destruct (i_form j) as [|a|l|] eqn:Ef; cbn [add_lres fst snd];
    apply (names_spec_snoc _ done acc j _ _ Hs); unfold granted_qualifier; rewrite ?Ef, ?HG;
    intro x; cbn [In]; rewrite ?in_app_iff; cbn [In].
  - split; [intros [<-|H']; auto | intros [H'|H']; [auto | inversion H'; auto]].
  - tauto.
  - split; [intros [<-|H']; auto | intros [H'|H']; [auto | inversion H'; auto]].
  - tauto.
  - split; [auto | intros [H'|H']; [auto | discriminate]].
  - tauto.
  - split; [intros [<-|H']; auto | intros [H'|H']; [auto | inversion H'; auto]].
  - tauto.
Qed.

Lemma go_mod_v : forall ld file m, vgood ld -> reachable fs E file -> find_file fs file = Some m ->
  forall imps done s acc, done ++ imps = m_imports m -> inv s -> base s = dir_of file ->
  (forall j, In j done -> is_std (i_path j) = false -> loaded_as file j s) ->
  (no_std_imports m -> names_spec (granted_bare_nested fs file) done acc) ->
  match go_mod ld imps s acc with
  | Ok (s2, acc2) => frame s s2 /\
      (forall j, In j (m_imports m) -> is_std (i_path j) = false -> loaded_as file j s2) /\
      (no_std_imports m -> names_spec (granted_bare_nested fs file) (m_imports m) acc2)
  | _ => True
  end.
Proof.
  intros ld file m Hld Hr Hm imps; induction imps as [|j r IH]; intros done s acc Hsplit Hinv Hb Hdone Hacc; cbn.
  - rewrite app_nil_r in Hsplit; subst done. split; [apply frame_refl; exact Hinv | auto].
  - assert (Hjin : In j (m_imports m)) by (rewrite <- Hsplit; apply in_or_app; right; left; reflexivity).
    pose proof (Hld file m j s Hr Hm Hjin Hinv Hb) as Hj.
    destruct (ld j s) as [[s' lr]| |]; cbn in Hj; auto.
    destruct Hj as (Hfr & -> & Htj). pose proof Hfr as (Hi' & Hs' & Hb' & Hm' & He').
    assert (Hb2 : base s' = dir_of file) by congruence.
    assert (Hsplit2 : (done ++ [j]) ++ r = m_imports m) by (rewrite <- app_assoc; exact Hsplit).
    assert (Hdone2 : forall x, In x (done ++ [j]) -> is_std (i_path x) = false -> loaded_as file x s').
    { intros x Hx Hstd. apply in_app_or in Hx as [Hx|[<-|[]]].
      - eapply loaded_as_frame; eauto.
      - auto. }
    assert (Hacc2 : no_std_imports m -> names_spec (granted_bare_nested fs file) (done ++ [j])
                                                   (contrib_mod acc j (lres_of j) (loaded s'))).
    { intro Hns. destruct (Htj (Hns j Hjin)) as (g & info & Ht & _ & Hl & Hfi).
      destruct (v_info _ Hi' _ _ Hl) as (mg & Hmg & Hex). rewrite Hfi in Hmg.
      eapply contrib_mod_spec; eauto. }
    pose proof (IH (done ++ [j]) s' (contrib_mod acc j (lres_of j) (loaded s')) Hsplit2 Hi' Hb2 Hdone2 Hacc2) as Hrest.
    destruct (go_mod ld r s' (contrib_mod acc j (lres_of j) (loaded s'))) as [[s2 a2]| |]; auto.
    destruct Hrest as (Hfr2 & Hall & Hnames). split; [eapply frame_trans; eauto | auto].
Qed.

Lemma push_inv : forall cur mc i file m st,
  reachable fs E cur -> find_file fs cur = Some mc -> In i (m_imports mc) ->
  is_std (i_path i) = false -> inv st ->
  ~ In (i_path i) (stack st) -> lookup (i_path i) (loaded st) = None ->
  target fs cur i = Some file -> find_file fs file = Some m ->
  inv {| loaded := (i_path i, {| mi_file := file; mi_exports := pub_names m; mi_name := last_seg (i_path i) |}) :: loaded st;
         stack := i_path i :: stack st; base := dir_of file; ns := ns st; events := events st |}.
Proof.
  intros cur mc i file m st Hr Hmc Hi Hstd Hinv Hns Hnl Ht Hm.
  pose proof (imp_of_file cur mc i Hmc Hi Hstd) as Himp.
  assert (Hkf : key_of (i_path i) file) by (exists cur, i; auto).
  split; cbn.
    - constructor; [exact Hns | apply (v_nodup _ Hinv)].
    - intros k [<-|Hk]; unfold has_key.
      + rewrite lookup_cons_eq; discriminate.
      + apply has_key_cons, (v_stack _ Hinv), Hk.
    - intros k inf. destruct (key_eqb k (i_path i)) eqn:Ek.
      + apply key_eqb_eq in Ek; subst k. intro H; inversion H; subst inf. exact Hkf.
      + apply (v_key _ Hinv).
    - intros k inf. destruct (key_eqb k (i_path i)) eqn:Ek.
      + apply key_eqb_eq in Ek; subst k. intros _; left; left; reflexivity.
      + intro H. destruct (v_done _ Hinv k inf H) as [H1|H1]; [left; right; exact H1 | right; exact H1].
    - apply (v_tnodup _ Hinv).
    - intros g Hg. destruct (v_towner _ Hinv g Hg) as (k & inf & Hl & Hfi & Hnk).
      exists k, inf. assert (k <> i_path i) by (intro; subst k; congruence).
      split; [apply key_eqb_neq in H; rewrite H; exact Hl|]. split; [exact Hfi|].
      intros [Heq|Hin]; [apply key_eqb_neq in H; congruence | contradiction].
    - apply (v_post _ Hinv).
    - intros k inf. destruct (key_eqb k (i_path i)) eqn:Ek.
      + intro H; inversion H; subst inf. exists m; auto.
      + apply (v_info _ Hinv).
    - apply (v_evs _ Hinv). Qed.

Lemma compile_v : forall ld cur mc i file m st,
  vgood ld -> reachable fs E cur -> find_file fs cur = Some mc -> In i (m_imports mc) ->
  is_std (i_path i) = false -> i_path i <> [] -> inv st -> base st = dir_of cur ->
  ~ In (i_path i) (stack st) -> lookup (i_path i) (loaded st) = None ->
  target fs cur i = Some file -> find_file fs file = Some m ->
  vpost cur i st (compile ld file (i_path i) None i m st).
Proof.
  intros ld cur mc i file m st Hld Hr Hmc Hi Hstd Hne Hinv Hb Hns Hnl Ht Hm.
  unfold compile.
  set (info := {| mi_file := file; mi_exports := pub_names m; mi_name := _ |}).
  set (st1 := {| loaded := (i_path i, info) :: loaded st; stack := i_path i :: stack st;
                 base := dir_of file; ns := ns st; events := events st |}).
  pose proof (imp_of_file cur mc i Hmc Hi Hstd) as Himp.
  assert (Hedge : edge fs cur file) by (exists mc, i; auto).
  assert (Hrf : reachable fs E file) by (eapply r_step; eauto).
  assert (Hkf : key_of (i_path i) file) by (exists cur, i; auto).
  assert (Hinv1 : inv st1) by exact (push_inv cur mc i file m st Hr Hmc Hi Hstd Hinv Hns Hnl Ht Hm).
  pose proof (go_mod_v ld file m Hld Hrf Hm (m_imports m) [] st1 ([], []) eq_refl Hinv1 eq_refl
                (fun j Hj => match Hj with end) (fun _ => names_spec_nil _)) as Hg.
  destruct (go_mod ld (m_imports m) st1 ([], [])) as [[st2 acc]| |]; auto.
  destruct Hg as ((Hi2 & Hs2 & Hb2 & Hm2 & [ext Hext]) & Hall & Hnames).
  match goal with |- context [bind_exports ?a ?b ?c] => destruct (bind_exports a b c) as [s2|] end; cbn; auto.
  set (ev := {| ev_file := file; ev_key := i_path i; ev_aliases := fst acc; ev_known := _; ev_ns := _ |}).
  set (st' := {| loaded := loaded st2; stack := tl (stack st2); base := base st; ns := s2; events := events st2 ++ [ev] |}).
  assert (Htr : trace st' = trace st2 ++ [file]) by (unfold trace, st'; cbn; rewrite map_app; reflexivity).
  assert (Hstk : stack st' = stack st) by (unfold st'; cbn; rewrite Hs2; reflexivity).
  assert (Hlp : lookup (i_path i) (loaded st2) = Some info) by (apply Hm2; cbn; apply lookup_cons_eq).
  assert (Hnotin : ~ In file (trace st2)).
  { intro Hin. destruct (v_towner _ Hi2 file Hin) as (k & inf & Hl & Hfi & Hnk).
    destruct (v_key _ Hi2 k inf Hl) as (f' & i' & _ & Himp' & Hp' & Ht'). rewrite Hfi in Ht'.
    assert (i_path i' = i_path i) by (eapply HI; eauto). apply Hnk. rewrite Hs2. left. congruence. }
  assert (Hinv' : inv st').
  { split.
    - rewrite Hstk; apply (v_nodup _ Hinv).
    - rewrite Hstk. intros k Hk. unfold st'; cbn. pose proof (v_stack _ Hinv k Hk) as Hh.
      unfold has_key in *. destruct (lookup k (loaded st)) as [inf|] eqn:El; [| contradiction].
      assert (lookup k (loaded st1) = Some inf).
      { cbn. destruct (key_eqb k (i_path i)) eqn:Ek; [apply key_eqb_eq in Ek; subst; congruence | exact El]. }
      rewrite (Hm2 _ _ H); discriminate.
    - unfold st'; cbn. apply (v_key _ Hi2).
    - rewrite Hstk, Htr. unfold st'; cbn. intros k inf Hl.
      destruct (v_done _ Hi2 k inf Hl) as [Hk|Hk].
      + rewrite Hs2 in Hk. destruct Hk as [<-|Hk]; [| left; exact Hk].
        right. rewrite Hlp in Hl; inversion Hl; subst inf. apply in_or_app; right; left; reflexivity.
      + right; apply in_or_app; left; exact Hk.
    - rewrite Htr. apply NoDup_snoc; [apply (v_tnodup _ Hi2) | exact Hnotin].
    - rewrite Hstk, Htr. unfold st'; cbn. intros g Hg. apply in_app_or in Hg as [Hg|[<-|[]]].
      + destruct (v_towner _ Hi2 g Hg) as (k & inf & Hl & Hfi & Hnk).
        exists k, inf. split; [exact Hl|]. split; [exact Hfi|].
        intro Hk. apply Hnk. rewrite Hs2. right; exact Hk.
      + exists (i_path i), info. auto.
    - rewrite Htr. intros l1 g l2 Heq h Hed.
      apply app_snoc_split in Heq as [(-> & -> & ->)|(l2' & -> & Heq)].
      + destruct Hed as (m' & j & Hm' & Hj & Htj). rewrite Hm in Hm'; inversion Hm'; subst m'.
        destruct (Hall j Hj (target_nonstd _ _ _ Htj)) as (g' & inf & Hg' & Hin & _). congruence.
      + eapply (v_post _ Hi2); eauto.
    - unfold st'; cbn. apply (v_info _ Hi2).
    - unfold st'; cbn. intros e He. apply in_app_or in He as [He|[<-|[]]]; [apply (v_evs _ Hi2); exact He|].
      split; [exact Hne|]. cbn. intros m' Hm' Hnostd. rewrite Hm in Hm'; inversion Hm'; subst m'.
      destruct (Hnames Hnostd) as [HA HK]. split; [exact HA|].
      intro n. rewrite in_app_iff, HK. reflexivity. }
  split.
  - split; [exact Hinv'|]. split; [exact Hstk|]. split; [reflexivity|]. split.
    + intros k inf Hl. unfold st'; cbn. apply Hm2. cbn.
      destruct (key_eqb k (i_path i)) eqn:Ek; [apply key_eqb_eq in Ek; subst; congruence | exact Hl].
    + exists (ext ++ [file]). change (trace st' = trace st ++ ext ++ [file]). rewrite Htr, Hext. unfold st1, trace; cbn. rewrite app_assoc; reflexivity.
  - split; [reflexivity|]. intros _. exists file, info. split; [exact Ht|].
    split; [change (In file (trace st')); rewrite Htr; apply in_or_app; right; left; reflexivity|].
    split; [exact Hlp | reflexivity].
Qed.

Lemma load_step_v : forall ld, vgood ld -> vgood (load_step fs ld).
Proof.
  intros ld Hld cur mc i st Hr Hmc Hi Hinv Hb. unfold load_step. cbv zeta.
  remember (i_path i) as p eqn:Ep in |- *. symmetry in Ep. destruct p as [|x p']; [exact I|].
  destruct (is_std (x :: p')) eqn:Estd.
  { cbn. split; [apply frame_refl; exact Hinv|]. split; [reflexivity|]. rewrite Ep, Estd; discriminate. }
  assert (Hstd : is_std (i_path i) = false) by (rewrite Ep; exact Estd).
  pose proof (imp_of_file cur mc i Hmc Hi Hstd) as Himp.
  destruct (mem_key (x :: p') (stack st)) eqn:Emem; [exact I|].
  apply mem_key_false in Emem.
  destruct (lookup (x :: p') (loaded st)) as [info|] eqn:El.
  - destruct (bind_exports i (mi_exports info) (ns st)) as [s|]; cbn; [| exact I].
    assert (Hinv' : inv (set_ns st s)) by (destruct Hinv; split; assumption).
    split.
    + split; [exact Hinv'|]. split; [reflexivity|]. split; [reflexivity|]. split.
      * intros k inf Hk; exact Hk.
      * exists []; rewrite app_nil_r; reflexivity.
    + split; [reflexivity|].
      intros _. destruct (v_key _ Hinv _ _ El) as (f' & i' & Hr' & Himp' & Hp' & Ht').
      exists (mi_file info), info. split.
      * rewrite <- Ht'. apply HF; auto. congruence.
      * split; [destruct (v_done _ Hinv _ _ El) as [Hk|Hk]; [contradiction | exact Hk]|].
        split; [rewrite Ep; exact El | reflexivity].
  - rewrite Hb. destruct (resolve_fb fs (dir_of cur) (x :: p')) as [[[file actual] sym]|] eqn:Er; [| exact I].
    rewrite <- Ep in Er. pose proof (HP cur i Himp _ _ _ Er) as ->.
    pose proof Er as Er'. apply resolve_fb_shape in Er' as [[m Hm] [[-> _]|[_ Hbad]]]; [| discriminate].
    rewrite Hm. rewrite <- Ep in *.
    eapply compile_v; eauto.
    + rewrite Ep; discriminate.
    + unfold target. rewrite Hstd, Er. reflexivity.
Qed.

Lemma load_v : forall n, vgood (load fs n).
Proof.
  induction n as [|n IH]; [intros cur m i st _ _ _ _ _; exact I | cbn [load]; apply load_step_v; exact IH].
Qed.

Lemma contrib_entry_spec : forall done acc orig j ld info g mg acc' orig',
  names_spec (granted_bare fs E) done acc ->
  lookup (i_path j) ld = Some info -> mi_exports info = pub_names mg ->
  target fs E j = Some g -> find_file fs g = Some mg ->
  (forall l, i_form j = FSymbols l -> l <> []) ->
  contrib_entry acc orig j (lres_of j) ld = Some (acc', orig') ->
  names_spec (granted_bare fs E) (done ++ [j]) acc'.
Proof.
  intros done acc orig j ld info g mg acc' orig' Hs Hl He Ht Hg Hne.
  unfold contrib_entry. rewrite Hl, He.
  assert (HG : granted_bare fs E j =
               match i_form j with FModule | FWildcard => pub_names mg | FSymbols l => l | FAlias _ => [] end).
  { unfold granted_bare. rewrite Ht, Hg. reflexivity. }
  unfold lres_of, granted_qualifier in *.
  destruct (i_form j) as [|a|l|] eqn:Ef; cbn [add_lres fst snd].
  - destruct (inter_nonempty (pub_names mg) orig); [discriminate|]. intro H; inversion H; subst acc' orig'.
    apply (names_spec_snoc _ done acc j _ _ Hs); unfold granted_qualifier; rewrite ?Ef, ?HG; cbn [fst snd];
      intro x; cbn [In]; rewrite ?in_app_iff.
    + split; [intros [<-|H']; auto | intros [H'|H']; [auto | inversion H'; auto]].
    + tauto.
  - intro H; inversion H; subst acc' orig'.
    apply (names_spec_snoc _ done acc j _ _ Hs); unfold granted_qualifier; rewrite ?Ef, ?HG; cbn [fst snd];
      intro x; cbn [In].
    + split; [intros [<-|H']; auto | intros [H'|H']; [auto | inversion H'; auto]].
    + tauto.
  - intro H; inversion H; subst acc' orig'.
    apply (names_spec_snoc _ done acc j _ _ Hs); unfold granted_qualifier; rewrite ?Ef, ?HG; cbn [fst snd];
      intro x; cbn [In]; rewrite ?in_app_iff; cbn [In].
    + split; [auto | intros [H'|H']; [auto | discriminate]].
    + split; [intros [H'|[<-|H']]; auto | tauto].
      right. destruct l as [|y l']; [exfalso; eapply Hne; eauto | left; reflexivity].
  - intro H; inversion H; subst acc' orig'.
    apply (names_spec_snoc _ done acc j _ _ Hs); unfold granted_qualifier; rewrite ?Ef, ?HG; cbn [fst snd];
      intro x; cbn [In]; rewrite ?in_app_iff.
    + split; [intros [<-|H']; auto | intros [H'|H']; [auto | inversion H'; auto]].
    + tauto.
Qed.

Lemma entry_go_v : forall n me, find_file fs E = Some me ->
  forall imps done s acc orig, done ++ imps = m_imports me -> inv s -> base s = dir_of E ->
  (forall j, In j done -> is_std (i_path j) = false -> loaded_as E j s) ->
  (no_std_imports me -> nonempty_symbols me -> names_spec (granted_bare fs E) done acc) ->
  match entry_go fs n imps s acc orig with
  | Ok (s2, acc2) => frame s s2 /\
      (forall j, In j (m_imports me) -> is_std (i_path j) = false -> loaded_as E j s2) /\
      (no_std_imports me -> nonempty_symbols me -> names_spec (granted_bare fs E) (m_imports me) acc2)
  | _ => True
  end.
Proof.
  intros n me Hme imps; induction imps as [|j r IH]; intros done s acc orig Hsplit Hinv Hb Hdone Hacc; cbn.
  - rewrite app_nil_r in Hsplit; subst done. split; [apply frame_refl; exact Hinv | auto].
  - assert (Hjin : In j (m_imports me)) by (rewrite <- Hsplit; apply in_or_app; right; left; reflexivity).
    pose proof (load_v n E me j s (r_refl fs E) Hme Hjin Hinv Hb) as Hj.
    destruct (load fs n j s) as [[s' lr]| |]; cbn in Hj; auto.
    destruct Hj as (Hfr & -> & Htj). pose proof Hfr as (Hi' & Hs' & Hb' & Hm' & He').
    destruct (contrib_entry acc orig j (lres_of j) (loaded s')) as [[acc' orig']|] eqn:Ec; [| exact I].
    assert (Hb2 : base s' = dir_of E) by congruence.
    assert (Hsplit2 : (done ++ [j]) ++ r = m_imports me) by (rewrite <- app_assoc; exact Hsplit).
    assert (Hdone2 : forall x, In x (done ++ [j]) -> is_std (i_path x) = false -> loaded_as E x s').
    { intros x Hx Hstd. apply in_app_or in Hx as [Hx|[<-|[]]].
      - eapply loaded_as_frame; eauto.
      - auto. }
    assert (Hacc2 : no_std_imports me -> nonempty_symbols me -> names_spec (granted_bare fs E) (done ++ [j]) acc').
    { intros Hns Hnes. destruct (Htj (Hns j Hjin)) as (g & info & Ht & _ & Hl & Hfi).
      destruct (v_info _ Hi' _ _ Hl) as (mg & Hmg & Hex). rewrite Hfi in Hmg.
      eapply contrib_entry_spec; eauto. }
    pose proof (IH (done ++ [j]) s' acc' orig' Hsplit2 Hi' Hb2 Hdone2 Hacc2) as Hrest.
    destruct (entry_go fs n r s' acc' orig') as [[s2 a2]| |]; auto.
    destruct Hrest as (Hfr2 & Hall & Hnames). split; [eapply frame_trans; eauto | auto].
Qed.

Lemma reach_edge_plus : forall f h, reachable fs E f -> edge fs f h -> path_plus fs E h.
Proof.
  intros f h Hr; revert h. induction Hr as [|g f Hr IH Hgf]; intros h Hh.
  - apply pp_one; exact Hh.
  - eapply pp_step; [apply IH; exact Hgf | exact Hh].
Qed.

Lemma po_before : forall l, postorder fs l -> forall g h, path_plus fs g h -> In g l ->
  exists l1 l2, l = l1 ++ g :: l2 /\ In h l1.
Proof.
  intros l Hpo g h Hp; induction Hp as [g h He | g g' h Hp IH He]; intro Hin.
  - apply in_split in Hin as (l1 & l2 & ->). exists l1, l2; split; [reflexivity|]. eapply Hpo; eauto.
  - destruct (IH Hin) as (l1 & l2 & -> & Hg'). exists l1, l2; split; [reflexivity|].
    apply in_split in Hg' as (a & b & ->).
    assert (In h a).
    { eapply (Hpo a g' (b ++ g :: l2)); [| exact He]. rewrite <- app_assoc; reflexivity. }
    apply in_or_app; left; assumption.
Qed.

Lemma po_no_cycle : forall l, postorder fs l -> NoDup l -> forall g, path_plus fs g g -> ~ In g l.
Proof.
  intros l Hpo Hnd g Hp Hin. destruct (po_before l Hpo g g Hp Hin) as (l1 & l2 & -> & Hg).
  apply NoDup_remove_2 in Hnd. apply Hnd. apply in_or_app; left; exact Hg.
Qed.

Lemma init_inv : inv (init_state E).
Proof.
  split; cbn.
  - constructor.
  - intros k [].
  - intros k info Hl; discriminate.
  - intros k info Hl; discriminate.
  - constructor.
  - intros g [].
  - intros l1 g l2 Hl. destruct l1; discriminate.
  - intros k info Hl; discriminate.
  - intros ev [].
Qed.

Lemma run_trace : forall fuel evs, run fs E fuel = Ok evs ->
  let tr := map ev_file evs in
  NoDup tr /\ (forall f, In f tr <-> reachable fs E f) /\ postorder fs tr /\ (exists l, tr = l ++ [E]).
Proof.
  intros fuel evs. unfold run.
  destruct (find_file fs E) as [me|] eqn:Hme; [| discriminate].
  pose proof (entry_go_v fuel me Hme (m_imports me) [] (init_state E) ([], []) [] eq_refl init_inv eq_refl
                (fun j Hj => match Hj with end) (fun _ _ => names_spec_nil _)) as Hg.
  destruct (entry_go fs fuel (m_imports me) (init_state E) ([], []) []) as [[st acc]| |]; try discriminate.
  destruct Hg as ((Hinv & _ & _ & _ & _) & Hall & _).
  intro Hev; inversion Hev; subst evs; clear Hev. cbv zeta. rewrite map_app. cbn [map ev_file].
  fold (trace st).
  assert (Hpo : postorder fs (trace st ++ [E])).
  { intros l1 g l2 Heq h Hed.
    apply app_snoc_split in Heq as [(-> & -> & ->)|(l2' & -> & Heq)].
    - destruct Hed as (m' & j & Hm' & Hj & Htj). rewrite Hme in Hm'; inversion Hm'; subst m'.
      destruct (Hall j Hj (target_nonstd _ _ _ Htj)) as (g' & inf & Hg' & Hin & _). congruence.
    - eapply (v_post _ Hinv); eauto. }
  assert (Hreach : forall f, In f (trace st) -> exists f', reachable fs E f' /\ edge fs f' f).
  { intros f Hf. destruct (v_towner _ Hinv f Hf) as (k & info & Hl & Hfi & _).
    destruct (v_key _ Hinv k info Hl) as (f' & i' & Hr' & (m' & Hm' & Hi' & Hs') & _ & Ht'). rewrite Hfi in Ht'.
    exists f'; split; [exact Hr'|]. exists m', i'. auto. }
  assert (HnE : ~ In E (trace st)).
  { intro HE. destruct (Hreach E HE) as (f' & Hr' & He').
    eapply (po_no_cycle (trace st) (v_post _ Hinv) (v_tnodup _ Hinv) E); [| exact HE].
    eapply reach_edge_plus; eauto. }
  split; [apply NoDup_snoc; [apply (v_tnodup _ Hinv) | exact HnE]|].
  split; [| split; [exact Hpo | eexists; reflexivity]].
  intro f; split.
  - intro Hf. apply in_app_or in Hf as [Hf|[<-|[]]]; [| apply r_refl].
    destruct (Hreach f Hf) as (f' & Hr' & He'). eapply r_step; eauto.
  - intro Hr. induction Hr as [|g h Hr IH Hgh].
    + apply in_or_app; right; left; reflexivity.
    + apply in_split in IH as (l1 & l2 & Heq). rewrite Heq.
      apply in_or_app; left. eapply Hpo; eauto.
Qed.

Lemma run_cycle : forall fuel evs f, run fs E fuel = Ok evs -> reachable fs E f -> path_plus fs f f -> False.
Proof.
  intros fuel evs f Hrun Hr Hp. destruct (run_trace fuel evs Hrun) as (Hnd & Hcov & Hpo & _).
  eapply po_no_cycle; eauto. apply Hcov; exact Hr.
Qed.
(* ---- which error: with every import resolvable and selecting pub symbols only, the loader can
        only fail with CircularDependency (and the entry with SymbolConflict) *)
Definition bound (g : gname) (s : nsmap) : Prop := ns_get g s <> None.
Definition nsmono (s s' : nsmap) : Prop := forall g, bound g s -> bound g s'.

Lemma bound_set : forall g g' v s, bound g s -> bound g (ns_set g' v s).
Proof. unfold bound, ns_set; intros g g' v s H; cbn. destruct (gname_eqb g g'); [discriminate | exact H]. Qed.
Lemma gname_eqb_refl : forall g, gname_eqb g g = true.
Proof. destruct g; cbn; rewrite ?N.eqb_refl; reflexivity. Qed.
Lemma bound_set_same : forall g v s, bound g (ns_set g v s).
Proof. unfold bound, ns_set; intros; cbn. rewrite gname_eqb_refl; discriminate. Qed.

Lemma write_defs_fold_mono : forall f ds s, nsmono s (fold_left (fun s d => ns_set (GB (d_name d)) (f, d_name d) s) ds s).
Proof.
  intros f ds; induction ds as [|d r IH]; intros s g Hg; cbn; [exact Hg|]. apply IH. apply bound_set; exact Hg.
Qed.
Lemma write_defs_binds : forall f m s d, In d (m_defs m) -> bound (GB (d_name d)) (write_defs f m s).
Proof.
  intros f m s d. unfold write_defs. generalize (m_defs m) s. intros ds; induction ds as [|x r IH]; intros s0 Hd; [destruct Hd|].
  destruct Hd as [<-|Hd]; cbn.
  - apply write_defs_fold_mono. apply bound_set_same.
  - apply IH; exact Hd.
Qed.
Lemma pub_names_defs : forall m n, In n (pub_names m) -> exists d, In d (m_defs m) /\ d_name d = n.
Proof.
  unfold pub_names; intros m n H. apply in_map_iff in H as (d & Hn & Hd). apply filter_In in Hd as [Hd _]. eauto.
Qed.

Lemma bind_all_some : forall al bare ex s, (forall n, In n ex -> bound (GB n) s) ->
  exists s', bind_all al bare ex s = Some s' /\ nsmono s s'.
Proof.
  intros al bare ex; induction ex as [|n r IH]; intros s Hb; cbn.
  - exists s; split; [reflexivity | intros g Hg; exact Hg].
  - pose proof (Hb n (or_introl eq_refl)) as Hn. unfold bound in Hn.
    destruct (ns_get (GB n) s) as [v|] eqn:Ev; [| contradiction].
    set (s1 := if bare then ns_set (GB n) v (ns_set (GQ al n) v s) else ns_set (GQ al n) v s).
    assert (Hm : nsmono s s1) by (intros g Hg; unfold s1; destruct bare; repeat apply bound_set; exact Hg).
    destruct (IH s1 (fun x Hx => Hm _ (Hb x (or_intror Hx)))) as (s' & Hs' & Hm').
    exists s'; split; [exact Hs' | intros g Hg; apply Hm', Hm, Hg].
Qed.
Lemma check_all_true : forall ex s, (forall n, In n ex -> bound (GB n) s) -> check_all ex s = true.
Proof.
  induction ex as [|n r IH]; intros s Hb; cbn; [reflexivity|].
  pose proof (Hb n (or_introl eq_refl)) as Hn. unfold bound in Hn.
  destruct (ns_get (GB n) s); [apply IH; intros x Hx; apply Hb; right; exact Hx | contradiction].
Qed.
Lemma mem_id_In : forall n l, In n l -> mem_id n l = true.
Proof.
  induction l as [|x l IH]; intro H; [destruct H|].
  destruct H as [<-|H]; cbn; [rewrite N.eqb_refl; reflexivity | rewrite IH by assumption; apply orb_true_r].
Qed.
Lemma check_syms_true : forall syms ex s, (forall n, In n syms -> In n ex /\ bound (GB n) s) -> check_syms syms ex s = true.
Proof.
  induction syms as [|n r IH]; intros ex s Hb; cbn; [reflexivity|].
  destruct (Hb n (or_introl eq_refl)) as [Hin Hn]. rewrite (mem_id_In _ _ Hin). cbn. unfold bound in Hn.
  destruct (ns_get (GB n) s); [apply IH; intros x Hx; apply Hb; right; exact Hx | contradiction].
Qed.
Lemma bind_exports_some : forall i ex s, (forall n, In n ex -> bound (GB n) s) ->
  (forall l n, i_form i = FSymbols l -> In n l -> In n ex) ->
  exists s', bind_exports i ex s = Some s' /\ nsmono s s'.
Proof.
  intros i ex s Hb Hsy. unfold bind_exports. destruct (i_form i) as [|a|l|] eqn:Ef.
  - apply bind_all_some; exact Hb.
  - apply bind_all_some; exact Hb.
  - rewrite check_syms_true; [exists s; split; [reflexivity | intros g Hg; exact Hg]|].
    intros n Hn. split; [eapply Hsy; eauto | apply Hb; eapply Hsy; eauto].
  - rewrite check_all_true by exact Hb. exists s; split; [reflexivity | intros g Hg; exact Hg].
Qed.

Hypothesis HC : clean fs E.

Definition ninv (st : lstate) : Prop :=
  forall k info, lookup k (loaded st) = Some info -> ~ In k (stack st) ->
                 forall n, In n (mi_exports info) -> bound (GB n) (ns st).

Definition epost {A} (st : lstate) (r : res (lstate * A)) : Prop :=
  match r with
  | Ok (st', _) => ninv st' /\ nsmono (ns st) (ns st')
  | Err e _ => e = ECircular
  | Fuel => True
  end.

Definition egood (ld : loader) : Prop :=
  forall cur m i st, reachable fs E cur -> find_file fs cur = Some m -> In i (m_imports m) ->
                     inv st -> base st = dir_of cur -> ninv st -> epost st (ld i st).

Lemma go_mod_e : forall ld file m, vgood ld -> egood ld -> reachable fs E file -> find_file fs file = Some m ->
  forall imps s acc, incl imps (m_imports m) -> inv s -> base s = dir_of file -> ninv s ->
  epost s (go_mod ld imps s acc).
Proof.
  intros ld file m Hv He Hr Hm imps; induction imps as [|j r IH]; intros s acc Hincl Hinv Hb Hn; cbn.
  - split; [exact Hn | intros g Hg; exact Hg].
  - pose proof (Hv file m j s Hr Hm (Hincl j (or_introl eq_refl)) Hinv Hb) as Hvj.
    pose proof (He file m j s Hr Hm (Hincl j (or_introl eq_refl)) Hinv Hb Hn) as Hej.
    destruct (ld j s) as [[s' lr]| |]; cbn in *; auto.
    destruct Hvj as ((Hi' & Hs' & Hb' & _) & _). destruct Hej as [Hn' Hmono].
    pose proof (IH s' (contrib_mod acc j lr (loaded s')) (fun x Hx => Hincl x (or_intror Hx)) Hi' (eq_trans Hb' Hb) Hn') as Hrest.
    destruct (go_mod ld r s' (contrib_mod acc j lr (loaded s'))) as [[s2 a2]| |]; cbn in *; auto.
    destruct Hrest as [Hn2 Hm2]. split; [exact Hn2 | intros g Hg; apply Hm2, Hmono, Hg].
Qed.

Lemma compile_e : forall ld cur mc i g mg st,
  vgood ld -> egood ld -> reachable fs E cur -> find_file fs cur = Some mc -> In i (m_imports mc) ->
  is_std (i_path i) = false -> i_path i <> [] -> inv st -> base st = dir_of cur -> ninv st ->
  ~ In (i_path i) (stack st) -> lookup (i_path i) (loaded st) = None ->
  target fs cur i = Some g -> find_file fs g = Some mg ->
  (forall l s, i_form i = FSymbols l -> In s l -> In s (pub_names mg)) ->
  epost st (compile ld g (i_path i) None i mg st).
Proof.
  intros ld cur mc i g mg st Hv He Hr Hmc Hi Hstd Hne Hinv Hb Hn Emem El Htgt Hmg Hsy.
  pose proof (push_inv cur mc i g mg st Hr Hmc Hi Hstd Hinv Emem El Htgt Hmg) as Hinv1.
  unfold compile.
  set (info := {| mi_file := g; mi_exports := pub_names mg; mi_name := _ |}) in *.
  set (st1 := {| loaded := (i_path i, info) :: loaded st; stack := i_path i :: stack st;
                 base := dir_of g; ns := ns st; events := events st |}) in *.
  assert (Hrg : reachable fs E g) by (eapply r_step; [exact Hr | exists mc, i; auto]).
  assert (Hn1 : ninv st1).
  { intros k inf Hl Hk n Hin. unfold st1 in *; cbn in *.
    destruct (key_eqb k (i_path i)) eqn:Ek.
    - apply key_eqb_eq in Ek; subst k. exfalso; apply Hk; left; reflexivity.
    - eapply Hn; eauto. }
  pose proof (go_mod_e ld g mg Hv He Hrg Hmg (m_imports mg) st1 ([], []) (fun x Hx => Hx) Hinv1 eq_refl Hn1) as Hge.
  pose proof (go_mod_v ld g mg Hv Hrg Hmg (m_imports mg) [] st1 ([], []) eq_refl Hinv1 eq_refl
                (fun j Hj => match Hj with end) (fun _ => names_spec_nil _)) as Hgv.
  destruct (go_mod ld (m_imports mg) st1 ([], [])) as [[st2 acc]| |]; cbn in Hge; auto.
  destruct Hge as [Hn2 Hmono2]. destruct Hgv as ((Hi2 & Hs2 & _ & Hm2 & _) & _).
  set (s1 := write_defs g mg (ns st2)).
  destruct (bind_exports_some i (pub_names mg) s1) as (s2 & Hs2' & Hmono3).
  { intros n Hin. destruct (pub_names_defs _ _ Hin) as (d & Hd & <-). apply write_defs_binds; exact Hd. }
  { exact Hsy. }
  rewrite Hs2'. cbn.
  assert (Hw : nsmono (ns st2) s1) by apply write_defs_fold_mono.
  split.
  - intros k inf Hl Hk n Hin. cbn in Hl, Hk |- *. rewrite Hs2 in Hk. cbn in Hk.
    destruct (key_eqb k (i_path i)) eqn:Ek.
    + apply key_eqb_eq in Ek; subst k.
      assert (Hlp : lookup (i_path i) (loaded st2) = Some info) by (apply Hm2; cbn; apply lookup_cons_eq).
      rewrite Hlp in Hl; inversion Hl; subst inf. cbn in Hin.
      apply Hmono3. destruct (pub_names_defs _ _ Hin) as (d & Hd & <-). apply write_defs_binds; exact Hd.
    + apply Hmono3, Hw. eapply Hn2; eauto. rewrite Hs2. cbn. intros [Heq|Hin']; [| contradiction].
      apply key_eqb_neq in Ek. congruence.
  - intros x Hx. apply Hmono3, Hw, Hmono2. exact Hx.
Qed.

Lemma load_step_e : forall ld, vgood ld -> egood ld -> egood (load_step fs ld).
Proof.
  intros ld Hv He cur mc i st Hr Hmc Hi Hinv Hb Hn. unfold load_step. cbv zeta.
  remember (i_path i) as p eqn:Ep in |- *. symmetry in Ep.
  destruct (is_std p) eqn:Estd.
  { destruct p; [discriminate|]. cbn. split; [exact Hn | intros g Hg; exact Hg]. }
  assert (Hstd : is_std (i_path i) = false) by (rewrite Ep; exact Estd).
  destruct (HC cur mc i Hr Hmc Hi Hstd) as (Hne & g & mg & Ht & Hmg & Hsy).
  destruct p as [|x p']; [congruence|].
  pose proof (imp_of_file cur mc i Hmc Hi Hstd) as Himp.
  destruct (mem_key (x :: p') (stack st)) eqn:Emem; [reflexivity|].
  apply mem_key_false in Emem.
  destruct (lookup (x :: p') (loaded st)) as [info|] eqn:El.
  - destruct (v_key _ Hinv _ _ El) as (f' & i' & Hr' & Himp' & Hp' & Ht').
    assert (Hfile : mi_file info = g).
    { assert (target fs cur i = target fs f' i') by (apply HF; auto; congruence). congruence. }
    destruct (v_info _ Hinv _ _ El) as (m' & Hm' & Hex). rewrite Hfile, Hmg in Hm'. inversion Hm'; subst m'.
    destruct (bind_exports_some i (mi_exports info) (ns st)) as (s' & Hs' & Hmono).
    { intros n Hin. eapply Hn; eauto. }
    { intros l n Hf Hin. rewrite Hex. eapply Hsy; eauto. }
    rewrite Hs'. cbn. split; [| exact Hmono].
    intros k inf Hl Hk n Hin. apply Hmono. eapply Hn; eauto.
  - rewrite Hb. pose proof Ht as Ht0. unfold target in Ht. rewrite Hstd, Ep in Ht.
    destruct (resolve_fb fs (dir_of cur) (x :: p')) as [[[file actual] sym]|] eqn:Er; [| discriminate].
    inversion Ht; subst file. rewrite <- Ep in Er. pose proof (HP cur i Himp _ _ _ Er) as ->.
    pose proof Er as Er'. apply resolve_fb_shape in Er' as [_ [[-> _]|[_ Hbad]]]; [| discriminate].
    rewrite Hmg. rewrite <- Ep in *.
    eapply compile_e; eauto.
Qed.

Lemma load_e : forall n, egood (load fs n).
Proof.
  induction n as [|n IH]; [intros cur m i st _ _ _ _ _ _; exact I|].
  cbn [load]. apply load_step_e; [apply load_v | exact IH].
Qed.

Lemma entry_go_e : forall n me, find_file fs E = Some me ->
  forall imps s acc orig, incl imps (m_imports me) -> inv s -> base s = dir_of E -> ninv s ->
  match entry_go fs n imps s acc orig with
  | Err e _ => e = ECircular \/ e = ESymbolConflict
  | _ => True
  end.
Proof.
  intros n me Hme imps; induction imps as [|j r IH]; intros s acc orig Hincl Hinv Hb Hn; cbn; [exact I|].
  pose proof (load_v n E me j s (r_refl fs E) Hme (Hincl j (or_introl eq_refl)) Hinv Hb) as Hvj.
  pose proof (load_e n E me j s (r_refl fs E) Hme (Hincl j (or_introl eq_refl)) Hinv Hb Hn) as Hej.
  destruct (load fs n j s) as [[s' lr]| |]; cbn in *; auto.
  destruct Hvj as ((Hi' & Hs' & Hb' & _) & _). destruct Hej as [Hn' _].
  destruct (contrib_entry acc orig j lr (loaded s')) as [[acc' orig']|]; [| right; reflexivity].
  apply IH; auto. - intros x Hx; apply Hincl; right; exact Hx. - congruence.
Qed.

Lemma run_err_kind : forall fuel e tr, run fs E fuel = Err e tr -> find_file fs E <> None ->
  e = ECircular \/ e = ESymbolConflict.
Proof.
  intros fuel e tr. unfold run. destruct (find_file fs E) as [me|] eqn:Hme; [| intros _ H; contradiction].
  pose proof (entry_go_e fuel me Hme (m_imports me) (init_state E) ([], []) [] (fun x Hx => Hx) init_inv eq_refl) as Hg.
  destruct (entry_go fs fuel (m_imports me) (init_state E) ([], []) []) as [[st acc]| |]; try discriminate.
  intros H _; inversion H; subst. apply Hg. intros k info Hl; discriminate.
Qed.

(* compile-time name sets of every top level that ran *)
Local Notation entry_names_ok := (ModulesSpec.entry_names_ok fs E).

Lemma run_names : forall fuel evs me, run fs E fuel = Ok evs -> find_file fs E = Some me ->
  exists evs0 ev, evs = evs0 ++ [ev] /\ ev_file ev = E /\ ev_key ev = [] /\
    (forall e, In e evs0 -> ev_ok_mod e) /\
    (no_std_imports me -> nonempty_symbols me -> entry_names_ok me ev).
Proof.
  intros fuel evs me. unfold run. intros Hrun Hme. rewrite Hme in Hrun.
  pose proof (entry_go_v fuel me Hme (m_imports me) [] (init_state E) ([], []) [] eq_refl init_inv eq_refl
                (fun j Hj => match Hj with end) (fun _ _ => names_spec_nil _)) as Hg.
  destruct (entry_go fs fuel (m_imports me) (init_state E) ([], []) []) as [[st acc]| |]; try discriminate.
  destruct Hg as ((Hinv & _ & _ & _ & _) & _ & Hnames).
  inversion Hrun; subst evs; clear Hrun.
  eexists. eexists. split; [reflexivity|]. cbn [ev_file ev_key]. split; [reflexivity|]. split; [reflexivity|].
  split; [apply (v_evs _ Hinv)|].
  intros Hns Hne. destruct (Hnames Hns Hne) as [HA HK]. split; cbn [ev_aliases ev_known]; [exact HA|].
  intro n. rewrite in_app_iff, HK. reflexivity.
Qed.
End Dfs.

(* ---- the guard keys_ok discharges the three hypotheses *)
Lemma imports_of_In : forall fs f m i, In (f, m) fs -> In i (m_imports m) -> is_std (i_path i) = false ->
  In (f, i) (imports_of fs).
Proof.
  intros fs f m i Hf Hi Hs. unfold imports_of. apply in_flat_map. exists (f, m); split; [exact Hf|].
  cbn. apply in_map. apply filter_In; split; [exact Hi | rewrite Hs; reflexivity].
Qed.

Lemma keys_ok_sound : forall fs, keys_ok fs = true ->
  (forall f i, imp_of fs f i -> forall g a s, resolve_fb fs (dir_of f) (i_path i) = Some (g, a, s) -> s = None) /\
  (forall f i f' i', imp_of fs f i -> imp_of fs f' i' -> i_path i = i_path i' -> target fs f i = target fs f' i') /\
  (forall f i f' i' g, imp_of fs f i -> imp_of fs f' i' -> target fs f i = Some g -> target fs f' i' = Some g ->
                       i_path i = i_path i').
Proof.
  intros fs Hk. unfold keys_ok in Hk. apply andb_true_iff in Hk as [Hpl Hpair].
  rewrite forallb_forall in Hpl. rewrite forallb_forall in Hpair.
  assert (Hin : forall f i, imp_of fs f i -> In (f, i) (imports_of fs)).
  { intros f i (m & Hm & Hi & Hs). eapply imports_of_In; eauto. apply lookup_In; exact Hm. }
  assert (Hpo : forall f i f' i', imp_of fs f i -> imp_of fs f' i' -> pair_ok fs (f, i) (f', i') = true).
  { intros f i f' i' H1 H2. pose proof (Hpair _ (Hin _ _ H1)) as H. rewrite forallb_forall in H. apply H, Hin, H2. }
  split; [| split].
  - intros f i H g a s Hr. pose proof (Hpl _ (Hin _ _ H)) as Hp. unfold plain_b, res_of in Hp; cbn [fst snd] in Hp.
    rewrite Hr in Hp. destruct s; [discriminate | reflexivity].
  - intros f i f' i' H1 H2 Hp. pose proof (Hpo _ _ _ _ H1 H2) as Hq.
    destruct H1 as (_ & _ & _ & Hs1). destruct H2 as (_ & _ & _ & Hs2).
    unfold target. rewrite Hs1, Hs2. unfold pair_ok, res_of in Hq; cbn [fst snd] in Hq.
    assert (Hsame : key_eqb (i_path i) (i_path i') = true) by (apply key_eqb_eq; exact Hp).
    rewrite Hsame in Hq.
    destruct (resolve_fb fs (dir_of f) (i_path i)) as [[[g a] s]|];
      destruct (resolve_fb fs (dir_of f') (i_path i')) as [[[g' a'] s']|]; try discriminate; try reflexivity.
    destruct (key_eqb g g') eqn:Eg; [apply key_eqb_eq in Eg; subst; reflexivity | discriminate].
  - intros f i f' i' g H1 H2 Ht1 Ht2. pose proof (Hpo _ _ _ _ H1 H2) as Hq.
    destruct H1 as (_ & _ & _ & Hs1). destruct H2 as (_ & _ & _ & Hs2).
    unfold target in Ht1, Ht2. rewrite Hs1 in Ht1. rewrite Hs2 in Ht2.
    unfold pair_ok, res_of in Hq; cbn [fst snd] in Hq.
    destruct (resolve_fb fs (dir_of f) (i_path i)) as [[[g1 a] s]|]; [| discriminate].
    destruct (resolve_fb fs (dir_of f') (i_path i')) as [[[g2 a'] s']|]; [| discriminate].
    inversion Ht1; inversion Ht2; subst g1 g2. rewrite key_eqb_refl in Hq.
    destruct (key_eqb (i_path i) (i_path i')) eqn:Ek; [apply key_eqb_eq in Ek; exact Ek | discriminate].
Qed.

(* ================================================================ the property theorems' lemmas *)
Lemma init_once_lemma : forall fs E fuel evs, keys_ok fs = true -> run fs E fuel = Ok evs ->
  let tr := map ev_file evs in
  NoDup tr /\ (forall f, In f tr <-> reachable fs E f) /\ postorder fs tr /\ (exists l, tr = l ++ [E]).
Proof.
  intros fs E fuel evs Hk Hrun. destruct (keys_ok_sound fs Hk) as (HP & HF & HI).
  eapply run_trace; eauto.
Qed.

Lemma visibility_lemma : forall fs E fuel evs me, keys_ok fs = true ->
  run fs E fuel = Ok evs -> find_file fs E = Some me ->
  exists evs0 ev, evs = evs0 ++ [ev] /\ ev_file ev = E /\ ev_key ev = [] /\
    (forall e, In e evs0 -> ev_ok_mod fs e) /\
    (no_std_imports me -> nonempty_symbols me -> entry_names_ok fs E me ev).
Proof.
  intros fs E fuel evs me Hk Hrun Hme. destruct (keys_ok_sound fs Hk) as (HP & HF & HI).
  eapply run_names; eauto.
Qed.

(* with one selected symbol per `needs .. from ..` a module gets exactly what the entry would *)
Lemma nested_eq_single : forall fs f m j, single_symbols m -> In j (m_imports m) ->
  granted_bare_nested fs f j = granted_bare fs f j.
Proof.
  intros fs f m j Hs Hj. unfold granted_bare_nested, granted_bare.
  destruct (target fs f j); [| reflexivity]. destruct (find_file fs f0); [| reflexivity].
  destruct (i_form j) as [|a|l|] eqn:Ef; try reflexivity.
  destruct (Hs j l Hj Ef) as [x ->]. reflexivity.
Qed.

Lemma cycle_never_ok_lemma : forall fs E fuel f, keys_ok fs = true ->
  reachable fs E f -> path_plus fs f f -> forall evs, run fs E fuel <> Ok evs.
Proof.
  intros fs E fuel f Hk Hr Hp evs Hrun. destruct (keys_ok_sound fs Hk) as (HP & HF & HI).
  eapply run_cycle; eauto.
Qed.

Lemma cycle_reported_lemma : forall fs E fuel f, keys_ok fs = true -> (fuel >= fuel_bound fs)%nat ->
  reachable fs E f -> path_plus fs f f -> exists e tr, run fs E fuel = Err e tr.
Proof.
  intros fs E fuel f Hk Hf Hr Hp.
  destruct (run fs E fuel) as [evs|e tr|] eqn:Hrun.
  - exfalso. eapply cycle_never_ok_lemma; eauto.
  - eauto.
  - exfalso. eapply no_divergence_lemma; eauto.
Qed.

(* ---- error kind *)
Lemma mem_id_true_In : forall n l, mem_id n l = true -> In n l.
Proof.
  induction l as [|x l IH]; cbn; [discriminate|]. intro H. apply orb_true_iff in H as [H|H].
  - apply N.eqb_eq in H; auto.
  - auto.
Qed.

Lemma clean_b_sound : forall fs E, clean_b fs = true -> clean fs E.
Proof.
  intros fs E Hc f m i _ Hm Hi Hstd. unfold clean_b in Hc. rewrite forallb_forall in Hc.
  apply lookup_In in Hm. apply Hc in Hm. cbn in Hm. rewrite forallb_forall in Hm. apply Hm in Hi.
  rewrite Hstd in Hi. cbn in Hi. apply andb_true_iff in Hi as [Hne Hi].
  split; [destruct (i_path i); [discriminate | discriminate]|].
  destruct (target fs f i) as [g|]; [| discriminate]. destruct (find_file fs g) as [mg|] eqn:Eg; [| discriminate].
  exists g, mg. split; [reflexivity|]. split; [exact Eg|].
  intros l s Hf Hs. rewrite Hf in Hi. rewrite forallb_forall in Hi. apply mem_id_true_In, Hi, Hs.
Qed.

Lemma reach_src : forall fs E f, reachable fs E f -> f = E \/ find_file fs E <> None.
Proof.
  intros fs E f Hr; induction Hr as [|g h Hr IH He]; [left; reflexivity|].
  destruct IH as [->|IH]; [| right; exact IH]. destruct He as (m & i & Hm & _). right; congruence.
Qed.
Lemma pp_src : forall fs f g, path_plus fs f g -> find_file fs f <> None.
Proof.
  intros fs f g Hp; induction Hp as [f g He | f g h Hp IH He]; [| exact IH].
  destruct He as (m & i & Hm & _). congruence.
Qed.

Lemma cycle_circular_lemma : forall fs E fuel f, keys_ok fs = true -> clean fs E ->
  (fuel >= fuel_bound fs)%nat -> reachable fs E f -> path_plus fs f f ->
  exists tr, run fs E fuel = Err ECircular tr \/ run fs E fuel = Err ESymbolConflict tr.
Proof.
  intros fs E fuel f Hk Hc Hf Hr Hp. destruct (keys_ok_sound fs Hk) as (HP & HF & HI).
  destruct (cycle_reported_lemma fs E fuel f Hk Hf Hr Hp) as (e & tr & Hrun).
  assert (HE : find_file fs E <> None).
  { destruct (reach_src fs E f Hr) as [->|H]; [eapply pp_src; eauto | exact H]. }
  exists tr. destruct (run_err_kind fs E HP HF HI Hc fuel e tr Hrun HE) as [->| ->]; auto.
Qed.

(* ---- the flat case: every file in the entry's directory, single-segment imports *)
Lemma flat_facts : forall fs, flat fs = true ->
  (forall f m, find_file fs f = Some m -> exists x, f = [x]) /\
  (forall f i, imp_of fs f i -> exists y, i_path i = [y] /\ dir_of f = []).
Proof.
  intros fs Hfl. unfold flat in Hfl. rewrite forallb_forall in Hfl.
  assert (H1 : forall f m, find_file fs f = Some m -> exists x, f = [x]).
  { intros f m Hm. apply lookup_In in Hm. apply Hfl in Hm. cbn in Hm. apply andb_true_iff in Hm as [Hm _].
    destruct f as [|x [|? ?]]; try discriminate. eauto. }
  split; [exact H1|].
  intros f i (m & Hm & Hi & Hs). destruct (H1 f m Hm) as [x ->].
  apply lookup_In in Hm. apply Hfl in Hm. cbn in Hm.
  rewrite forallb_forall in Hm. apply Hm in Hi. rewrite Hs in Hi. cbn in Hi.
  destruct (i_path i) as [|y [|? ?]]; try discriminate. exists y; auto.
Qed.

Lemma flat_resolve : forall fs y, flat fs = true ->
  resolve_fb fs [] [y] = match find_file fs [y] with Some _ => Some ([y], [y], None) | None => None end.
Proof.
  intros fs y Hfl. destruct (flat_facts fs Hfl) as [H1 _].
  unfold resolve_fb, resolve_direct. cbn [app].
  destruct (find_file fs [y]); [reflexivity|].
  destruct (find_file fs [y; MODSEG]) eqn:E2; [| reflexivity].
  destruct (H1 _ _ E2) as [x Hx]; discriminate.
Qed.

Lemma flat_sound : forall fs, flat fs = true ->
  (forall f i, imp_of fs f i -> forall g a s, resolve_fb fs (dir_of f) (i_path i) = Some (g, a, s) -> s = None) /\
  (forall f i f' i', imp_of fs f i -> imp_of fs f' i' -> i_path i = i_path i' -> target fs f i = target fs f' i') /\
  (forall f i f' i' g, imp_of fs f i -> imp_of fs f' i' -> target fs f i = Some g -> target fs f' i' = Some g ->
                       i_path i = i_path i').
Proof.
  intros fs Hfl. destruct (flat_facts fs Hfl) as [_ H2].
  split; [| split].
  - intros f i H g a s. destruct (H2 f i H) as (y & -> & ->). rewrite flat_resolve by assumption.
    destruct (find_file fs [y]); intro Hr; inversion Hr; reflexivity.
  - intros f i f' i' H H' Hp. destruct (H2 f i H) as (y & Hy & Hd). destruct (H2 f' i' H') as (y' & Hy' & Hd').
    destruct H as (_ & _ & _ & Hs). destruct H' as (_ & _ & _ & Hs').
    unfold target. rewrite Hs, Hs', Hd, Hd', <- Hp. reflexivity.
  - intros f i f' i' g H H' Ht Ht'. destruct (H2 f i H) as (y & Hy & Hd). destruct (H2 f' i' H') as (y' & Hy' & Hd').
    unfold target in Ht, Ht'. destruct H as (_ & _ & _ & Hs). destruct H' as (_ & _ & _ & Hs').
    rewrite Hs, Hd, Hy, flat_resolve in Ht by assumption. rewrite Hs', Hd', Hy', flat_resolve in Ht' by assumption.
    destruct (find_file fs [y]); [| discriminate]. destruct (find_file fs [y']); [| discriminate].
    inversion Ht; inversion Ht'; subst. congruence.
Qed.

Lemma init_once_flat_lemma : forall fs E fuel evs, flat fs = true -> run fs E fuel = Ok evs ->
  let tr := map ev_file evs in
  NoDup tr /\ (forall f, In f tr <-> reachable fs E f) /\ postorder fs tr /\ (exists l, tr = l ++ [E]).
Proof.
  intros fs E fuel evs Hk Hrun. destruct (flat_sound fs Hk) as (HP & HF & HI).
  eapply run_trace; eauto.
Qed.

Lemma cycle_reported_flat_lemma : forall fs E fuel f, flat fs = true -> (fuel >= fuel_bound fs)%nat ->
  reachable fs E f -> path_plus fs f f -> exists e tr, run fs E fuel = Err e tr.
Proof.
  intros fs E fuel f Hk Hf Hr Hp. destruct (flat_sound fs Hk) as (HP & HF & HI).
  destruct (run fs E fuel) as [evs|e tr|] eqn:Hrun.
  - exfalso. eapply run_cycle; eauto.
  - eauto.
  - exfalso. eapply no_divergence_lemma; eauto.
Qed.

(* ================================================================ witnesses (computation) *)
Ltac solve_edge :=
  eexists; eexists; split; [vm_compute; reflexivity | split; [cbn; eauto 10 | vm_compute; reflexivity]].


Lemma key_collision_refuted_lemma : exists fs E evs ev,
  run fs E (fuel_bound fs) = Ok evs /\
  reachable fs E [21;12] /\ ~ In [21;12] (map ev_file evs) /\
  In ev evs /\ ev_file ev = [21;11] /\
  target fs [21;11] (imp [12] FModule) = Some [21;12] /\
  probe ev (SQual 12 40) = Some ([20;12], 40) /\ probe ev (SQual 12 41) = Some ([20;12], 41) /\
  probe ev (SQual 12 42) = None.
Proof.
  exists w_collision, E9. eexists. eexists. split; [vm_compute; reflexivity|].
  split. { eapply r_step; [eapply r_step; [apply r_refl | solve_edge] | solve_edge]. }
  split. { cbn. intros [H|[H|[H|[H|[]]]]]; discriminate. }
  split. { right; right; left; reflexivity. }
  vm_compute. repeat split; reflexivity.
Qed.


Lemma one_file_two_keys_refuted_lemma : exists fs E evs,
  run fs E (fuel_bound fs) = Ok evs /\ map ev_file evs = [[20;10]; [20;10]; [20;11]; [9]] /\
  target fs E (imp [20;10] (FAlias 70)) = Some [20;10] /\ target fs [20;11] (imp [10] FModule) = Some [20;10].
Proof.
  exists w_twokeys, E9. eexists. split; [vm_compute; reflexivity|]. vm_compute. repeat split; reflexivity.
Qed.


Lemma flat_namespace_collision_refuted_lemma : exists fs E evs ev,
  flat fs = true /\ keys_ok fs = true /\ run fs E (fuel_bound fs) = Ok evs /\
  In ev evs /\ ev_file ev = [12] /\ target fs [12] (imp [10] (FAlias 73)) = Some [10] /\
  find_file fs [11] = Some (M [] [D 40 false; D 45 true]) /\
  probe ev (SQual 73 40) = Some ([11], 40).
Proof.
  exists w_flatns, E9. eexists. eexists. split; [reflexivity|]. split; [reflexivity|].
  split; [vm_compute; reflexivity|]. split. { right; right; left; reflexivity. }
  vm_compute. repeat split; reflexivity.
Qed.


Lemma cycle_reported_refuted_lemma : exists fs E evs,
  flat fs = false /\ keys_ok fs = false /\
  reachable fs E [10] /\ path_plus fs [10] [10] /\ run fs E (fuel_bound fs) = Ok evs /\
  map ev_file evs = [[11]; [10]; [9]].
Proof.
  exists w_pscycle, E9. eexists. split; [reflexivity|]. split; [reflexivity|].
  split. { eapply r_step; [apply r_refl | solve_edge]. }
  split. { eapply pp_step; [apply pp_one; solve_edge | solve_edge]. }
  split; vm_compute; reflexivity.
Qed.


Lemma private_leak_refuted_lemma : exists fs E evs ev m,
  run fs E (fuel_bound fs) = Ok evs /\ In ev evs /\ ev_file ev = E /\
  find_file fs [10] = Some m /\ ~ In 42 (pub_names m) /\ probe ev (SBare 42) = Some ([10], 42).
Proof.
  exists w_leak, E9. eexists. eexists. eexists. split; [vm_compute; reflexivity|].
  split. { right; left; reflexivity. }
  split; [reflexivity|]. split; [vm_compute; reflexivity|].
  split. { cbn. intros [H|[]]; discriminate. }
  vm_compute; reflexivity.
Qed.


Lemma nested_second_symbol_refuted_lemma : exists fs E evs ev ev',
  flat fs = true /\ keys_ok fs = true /\ unique_defs fs = true /\
  run fs E (fuel_bound fs) = Ok evs /\
  In ev evs /\ ev_file ev = E /\ probe ev (SBare 42) = Some ([10], 42) /\
  In ev' evs /\ ev_file ev' = [11] /\ In 42 (granted_bare fs [11] (imp [10] (FSymbols [40;42]))) /\
  probe ev' (SBare 40) = Some ([10], 40) /\ probe ev' (SBare 42) = None.
Proof.
  exists w_second, E9. eexists. eexists. eexists.
  split; [reflexivity|]. split; [reflexivity|]. split; [reflexivity|].
  split; [vm_compute; reflexivity|].
  split. { right; right; left; reflexivity. }
  split; [reflexivity|]. split; [vm_compute; reflexivity|].
  split. { right; left; reflexivity. }
  split; [reflexivity|]. split. { vm_compute. auto. }
  split; vm_compute; reflexivity.
Qed.


Lemma qualifier_dropped_refuted_lemma : exists fs E evs ev,
  flat fs = true /\ keys_ok fs = true /\ unique_defs fs = true /\
  run fs E (fuel_bound fs) = Ok evs /\ In ev evs /\ ev_file ev = E /\
  (forall i, In i [imp [10] (FSymbols [40])] -> granted_qualifier i = None) /\
  probe ev (SQual 10 40) = Some ([10], 40) /\ probe ev (SQual 99 40) = Some ([10], 40).
Proof.
  exists w_qual, E9. eexists. eexists.
  split; [reflexivity|]. split; [reflexivity|]. split; [reflexivity|].
  split; [vm_compute; reflexivity|].
  split. { right; left; reflexivity. }
  split; [reflexivity|].
  split. { intros i [<-|[]]; reflexivity. }
  split; vm_compute; reflexivity.
Qed.


Lemma shared_qualifier_refuted_lemma : exists fs E evs ev,
  flat fs = true /\ keys_ok fs = true /\ unique_defs fs = true /\
  run fs E (fuel_bound fs) = Ok evs /\ In ev evs /\ ev_file ev = [12] /\
  find_file fs [12] = Some (M [imp [10] (FAlias 70)] [D 46 true]) /\
  target fs [12] (imp [10] (FAlias 70)) = Some [10] /\
  probe ev (SQual 70 44) = Some ([11], 44).
Proof.
  exists w_shared_q, E9. eexists. eexists.
  split; [reflexivity|]. split; [reflexivity|]. split; [reflexivity|].
  split; [vm_compute; reflexivity|].
  split. { right; right; right; left; reflexivity. }
  vm_compute. repeat split; reflexivity.
Qed.



Lemma nonvacuous_lemma :
  flat w_diamond = true /\ keys_ok w_diamond = true /\
  (exists evs, run w_diamond E9 (fuel_bound w_diamond) = Ok evs /\
               map ev_file evs = [[19]; [10]; [11]; [12]; [9]]) /\
  flat w_cycle6 = true /\ keys_ok w_cycle6 = true /\ clean_b w_cycle6 = true /\
  reachable w_cycle6 E9 [11] /\ path_plus w_cycle6 [11] [11] /\
  (exists tr, run w_cycle6 E9 (fuel_bound w_cycle6) = Err ECircular tr /\ map ev_file tr = [[19]]).
Proof.
  split; [reflexivity|]. split; [reflexivity|].
  split. { eexists. split; vm_compute; reflexivity. }
  split; [reflexivity|]. split; [reflexivity|]. split; [reflexivity|].
  split. { eapply r_step; [eapply r_step; [apply r_refl | solve_edge] | solve_edge]. }
  split. { eapply pp_step; [eapply pp_step; [eapply pp_step; [eapply pp_step; [eapply pp_step;
           [apply pp_one; solve_edge | solve_edge] | solve_edge] | solve_edge] | solve_edge] | solve_edge]. }
  eexists. split; vm_compute; reflexivity.
Qed.
