(* Lemmas about the .avbc codec model: the reader inverts the writer up to normalize
   (C08), for every function, by structural induction including nested functions. *)
From Aelys Require Import Base.Tactics Extracted.ValueConsts Extracted.AvbcLayout
  Model.Value Model.Avbc Proofs.ValueProofs.
Local Open Scope N_scope.

(* ------------------------------------------------------------------ facts about the extracted layout *)
Lemma layout_facts :
  TAGR_NULL = TAGW_NULL /\ TAGR_BOOL = TAGW_BOOL /\ TAGR_INT = TAGW_INT /\ TAGR_FLOAT = TAGW_FLOAT
  /\ TAGR_STRING = TAGW_STRING /\ TAGR_FUNC = TAGW_FUNC /\ TAGR_PTR = TAGW_PTR
  /\ NoDup [TAGW_NULL; TAGW_BOOL; TAGW_INT; TAGW_FLOAT; TAGW_STRING; TAGW_FUNC; TAGW_PTR]
  /\ lenN MAGIC = 4 /\ VERSION < W16 /\ OP_REWRITE < 256 /\ LIM_PTR = W48 - 1.
Proof.
  repeat split; try reflexivity.
  repeat constructor; cbn; intuition discriminate.
Qed.

(* ------------------------------------------------------------------ lists *)
Lemma lenN_length {A} (l : list A) : lenN l = N.of_nat (length l).
Proof. induction l as [|x l IH]; [reflexivity|]. cbn [lenN length]. rewrite IH. lia. Qed.

Lemma lenN_to_nat {A} (l : list A) : N.to_nat (lenN l) = length l.
Proof. rewrite lenN_length. apply Nat2N.id. Qed.

Lemma lenN_app {A} (a b : list A) : lenN (a ++ b) = lenN a + lenN b.
Proof. rewrite !lenN_length, app_length. lia. Qed.

Lemma fold_conj_Forall {A} (P : A -> Prop) (l : list A) :
  fold_right (fun g acc => P g /\ acc) True l <-> Forall P l.
Proof.
  induction l as [|x l IH]; cbn [fold_right].
  - split; intros; [constructor | exact I].
  - split.
    + intros [H1 H2]. constructor; [exact H1 | apply IH; exact H2].
    + intro H. inversion H; subst. split; [assumption | apply IH; assumption].
Qed.

Lemma func_ind' (P : func -> Prop) :
  (forall name a r cs consts code nested upv lines globals,
      Forall P nested -> P (Func name a r cs consts code nested upv lines globals)) ->
  forall f, P f.
Proof.
  intro H. fix IH 1. intros [name a r cs consts code nested upv lines globals].
  apply H. induction nested as [|g nested IHn]; constructor; [apply IH | exact IHn].
Qed.

(* ------------------------------------------------------------------ little-endian *)
Fixpoint pow256 (k : nat) : N := match k with O => 1 | S k' => 256 * pow256 k' end.

Lemma pow256_pos k : 0 < pow256 k.
Proof. induction k; cbn [pow256]; lia. Qed.

Lemma le_val_le_bytes k v : le_val (le_bytes k v) = v mod pow256 k.
Proof.
  revert v; induction k as [|k IH]; intro v; cbn [le_bytes le_val pow256].
  - rewrite N.mod_1_r. reflexivity.
  - rewrite IH. pose proof (pow256_pos k).
    rewrite N.mod_mul_r by lia. reflexivity.
Qed.

Lemma le_bytes_len k v : lenN (le_bytes k v) = N.of_nat k.
Proof. revert v; induction k as [|k IH]; intro v; cbn [le_bytes lenN]; [reflexivity|]. rewrite IH. lia. Qed.

Lemma le_bytes_byte k v : Forall (fun b => b < 256) (le_bytes k v).
Proof.
  revert v; induction k as [|k IH]; intro v; cbn [le_bytes]; constructor; [|apply IH].
  apply N.mod_lt. lia.
Qed.

(* ------------------------------------------------------------------ the parses relation *)
Definition parses {A} (m : M A) (bytes : list N) (v : A) : Prop :=
  forall tl a mx, exists a' mx', m (St (bytes ++ tl) a mx) = Ok v (St tl a' mx').

Lemma parses_ret {A} (v : A) : parses (ret v) [] v.
Proof. intros tl a mx. exists a, mx. reflexivity. Qed.

Lemma parses_bind {A B} (m : M A) (k : A -> M B) b1 b2 v1 v2 :
  parses m b1 v1 -> parses (k v1) b2 v2 -> parses (bind m k) (b1 ++ b2) v2.
Proof.
  intros H1 H2 tl a mx. unfold bind. rewrite <- app_assoc.
  destruct (H1 (b2 ++ tl) a mx) as (a1 & m1 & E1). rewrite E1. apply H2.
Qed.

Lemma parses_bind0 {A B} (m : M A) (k : A -> M B) b v1 v2 :
  parses m [] v1 -> parses (k v1) b v2 -> parses (bind m k) b v2.
Proof. intros H1 H2. change b with ([] ++ b). eapply parses_bind; eassumption. Qed.

Lemma parses_bind_end {A B} (m : M A) (k : A -> M B) b v1 v2 :
  parses m b v1 -> parses (k v1) [] v2 -> parses (bind m k) b v2.
Proof. intros H1 H2. rewrite <- (app_nil_r b). eapply parses_bind; eassumption. Qed.

Lemma parses_alloc n : parses (alloc n) [] tt.
Proof. intros tl a mx. exists (a + n), (N.max mx n). reflexivity. Qed.

Lemma parses_check n lim w : n <= lim -> parses (check_limit n lim w) [] tt.
Proof.
  intro H. unfold check_limit. destruct (N.ltb_spec lim n) as [L|L]; [lia|]. apply parses_ret.
Qed.

Lemma take_n_app (s tl : list N) : take_n (lenN s) (s ++ tl) = Some (s, tl).
Proof.
  induction s as [|x s IH].
  - cbn [lenN app]. destruct tl; reflexivity.
  - cbn [lenN app take_n].
    destruct (N.eqb_spec (N.succ (lenN s)) 0) as [E|E]; [lia|].
    replace (N.succ (lenN s) - 1) with (lenN s) by lia. rewrite IH. reflexivity.
Qed.

Lemma parses_exact (s : list N) : parses (rd_exact (lenN s)) s s.
Proof. intros tl a mx. exists a, mx. unfold rd_exact. cbn [s_in s_alloc s_max]. rewrite take_n_app. reflexivity. Qed.

Lemma parses_bytes (s : list N) : parses (rd_bytes (lenN s)) s s.
Proof.
  unfold rd_bytes. eapply parses_bind0; [apply parses_alloc|]. apply parses_exact.
Qed.

Lemma parses_le_mod k v : parses (rd_le k) (le_bytes k v) (v mod pow256 k).
Proof.
  unfold rd_le. rewrite <- (le_bytes_len k v). eapply parses_bind_end; [apply parses_exact|].
  rewrite le_val_le_bytes. apply parses_ret.
Qed.

Lemma parses_le k v : v < pow256 k -> parses (rd_le k) (le_bytes k v) v.
Proof. intro H. pose proof (parses_le_mod k v) as P. rewrite N.mod_small in P by exact H. exact P. Qed.

Lemma parses_byte t : parses (rd_le 1) [t] t.
Proof.
  unfold rd_le. change (N.of_nat 1) with (lenN [t]). eapply parses_bind_end; [apply parses_exact|].
  cbn [le_val]. replace (t + 256 * 0) with t by lia. apply parses_ret.
Qed.

Lemma parses_list {A B} (elem : M B) (w : A -> list N) (g : A -> B) (xs : list A) :
  Forall (fun x => parses elem (w x) (g x)) xs ->
  parses (rd_list (length xs) elem) (flat_map w xs) (map g xs).
Proof.
  induction 1 as [|x xs Hx _ IH]; cbn [length rd_list flat_map map].
  - apply parses_ret.
  - eapply parses_bind; [exact Hx|]. eapply parses_bind_end; [exact IH|]. apply parses_ret.
Qed.

Lemma parses_vec {A B} esz (elem : M B) (w : A -> list N) (g : A -> B) (xs : list A) :
  Forall (fun x => parses elem (w x) (g x)) xs ->
  parses (rd_vec esz (lenN xs) elem) (flat_map w xs) (map g xs).
Proof.
  intro H. unfold rd_vec. eapply parses_bind0; [apply parses_alloc|].
  rewrite lenN_to_nat. apply parses_list. exact H.
Qed.

Lemma parses_vec_id {A} esz (elem : M A) (w : A -> list N) (xs : list A) :
  Forall (fun x => parses elem (w x) x) xs ->
  parses (rd_vec esz (lenN xs) elem) (flat_map w xs) xs.
Proof.
  intro H. pose proof (parses_vec esz elem w (fun x => x) xs H) as P.
  rewrite map_id in P. exact P.
Qed.

(* ------------------------------------------------------------------ elements *)
Lemma parses_upval (u : bool * N) : snd u < W8 -> parses rd_upval (write_upval u) u.
Proof.
  destruct u as [b i]. cbn [snd]. intro Hi. unfold rd_upval, write_upval. cbn [fst snd].
  eapply parses_bind; [apply parses_le; destruct b; cbn; lia|].
  eapply parses_bind_end; [apply parses_le; exact Hi|].
  destruct b; apply parses_ret.
Qed.

Lemma parses_line (l : N * N) : fst l < W16 -> snd l < W32 -> parses rd_line (write_line l) l.
Proof.
  destruct l as [c n]. cbn [fst snd]. intros Hc Hn. unfold rd_line, write_line. cbn [fst snd].
  eapply parses_bind; [apply parses_le; exact Hc|].
  eapply parses_bind_end; [apply parses_le; exact Hn|]. apply parses_ret.
Qed.

Lemma lenN_zero {A} (l : list A) : lenN l = 0 -> l = [].
Proof. destruct l; [reflexivity|]. cbn [lenN]. lia. Qed.

Lemma parses_gname (g : list N) :
  lenN g < W16 -> lenN g <= LIM_GLOBAL_NAME_LEN -> utf8_valid g = true ->
  parses rd_gname (write_str16 g) g.
Proof.
  intros H1 H2 H3. unfold rd_gname, write_str16.
  eapply parses_bind; [apply parses_le; exact H1|].
  eapply parses_bind0; [apply parses_check; exact H2|].
  destruct (N.ltb_spec 0 (lenN g)) as [L|L].
  - eapply parses_bind_end; [apply parses_bytes|]. rewrite H3. apply parses_ret.
  - rewrite (lenN_zero g) by lia. apply parses_ret.
Qed.

Lemma parses_name (n : option (list N)) :
  name_typed n -> name_sized n -> parses rd_name (write_name n) (norm_name n).
Proof.
  intros T S. unfold rd_name. destruct n as [s|]; cbn [write_name name_typed name_sized norm_name] in *.
  - destruct S as [S1 S2]. unfold write_str16.
    eapply parses_bind; [apply parses_le; exact S1|].
    eapply parses_bind0; [apply parses_check; exact S2|].
    destruct (N.ltb_spec 0 (lenN s)) as [L|L].
    + eapply parses_bind_end; [apply parses_bytes|]. rewrite T.
      destruct s; [cbn [lenN] in L; lia|]. apply parses_ret.
    + rewrite (lenN_zero s) by lia. apply parses_ret.
  - rewrite <- (app_nil_r (le_bytes 2 0)).
    eapply parses_bind; [apply parses_le; cbn; lia|].
    eapply parses_bind0; [apply parses_check; lia|].
    destruct (N.ltb_spec 0 0) as [L|L]; [lia|]. apply parses_ret.
Qed.

(* ---- constants *)
Lemma excl (w : N) :
  kind_count w = 1 ->
  (is_null w = true -> is_bool w = false /\ is_int w = false /\ is_float w = false /\ is_nested w = false /\ is_ptr w = false)
  /\ (is_int w = true -> is_null w = false /\ is_bool w = false)
  /\ (is_float w = true -> is_null w = false /\ is_bool w = false /\ is_int w = false)
  /\ (is_nested w = true -> is_null w = false /\ is_bool w = false /\ is_int w = false /\ is_float w = false)
  /\ (is_ptr w = true -> is_null w = false /\ is_bool w = false /\ is_int w = false /\ is_float w = false /\ is_nested w = false).
Proof.
  unfold kind_count, b2n.
  destruct (is_float w), (is_int w), (is_bool w), (is_null w), (is_ptr w), (is_nested w);
    intro K; repeat split; intros; try reflexivity; try discriminate; lia.
Qed.

Lemma cow_int z : int48 z -> const_of_word (v_int z) = CInt z.
Proof.
  intro H. destruct (excl (v_int z) (int_kind_count z)) as (_ & E & _).
  destruct (E (int_is_int z)) as [E1 E2].
  unfold const_of_word, as_bool. rewrite E1, E2, (int_roundtrip_lemma z H). reflexivity.
Qed.

Lemma cow_float b : b < W64 -> v_float b = b -> is_float b = true -> const_of_word (v_float b) = CFloat b.
Proof.
  intros Hb Hv Hf. rewrite Hv.
  destruct (excl b (kind_partition_lemma b Hb)) as (_ & _ & E & _).
  destruct (E Hf) as (E1 & E2 & E3).
  unfold const_of_word, as_bool, as_int. rewrite E1, E2, E3, Hf. reflexivity.
Qed.

Lemma cow_nested i : i < W48 -> const_of_word (v_nested i) = CFunc i.
Proof.
  intro H. destruct (nested_roundtrip_lemma i H) as [R K].
  destruct (excl _ K) as (_ & _ & _ & E & _).
  assert (is_nested (v_nested i) = true) as Hn.
  { unfold as_nested in R. destruct (is_nested (v_nested i)); [reflexivity|discriminate]. }
  destruct (E Hn) as (E1 & E2 & E3 & E4).
  unfold const_of_word, as_bool, as_int. rewrite E1, E2, E3, E4, R. reflexivity.
Qed.

Lemma i64_u64_roundtrip z : int48 z -> i64_of_u64 (u64_of_i64 z) = z.
Proof.
  unfold int48, i64_of_u64, u64_of_i64. intro H.
  destruct (N.ltb_spec (Z.to_N (z mod 18446744073709551616)) 9223372036854775808); lia.
Qed.

Lemma u64_of_i64_lt z : u64_of_i64 z < pow256 8.
Proof.
  unfold u64_of_i64. cbn [pow256].
  pose proof (Z.mod_pos_bound z 18446744073709551616 ltac:(lia)). lia.
Qed.

Ltac is_tag a :=
  match a with
  | TAGW_NULL => idtac | TAGW_BOOL => idtac | TAGW_INT => idtac | TAGW_FLOAT => idtac
  | TAGW_STRING => idtac | TAGW_FUNC => idtac | TAGW_PTR => idtac
  | TAGR_NULL => idtac | TAGR_BOOL => idtac | TAGR_INT => idtac | TAGR_FLOAT => idtac
  | TAGR_STRING => idtac | TAGR_FUNC => idtac | TAGR_PTR => idtac
  end.
Ltac tagred :=
  repeat match goal with
         | |- context [N.eqb ?a ?b] =>
             is_tag a; is_tag b;
             let v := eval vm_compute in (N.eqb a b) in change (N.eqb a b) with v
         end; cbv iota.

Lemma parses_const dbg nn (c : const) :
  const_typed c -> const_sized nn c -> parses (rd_const dbg) (write_const c) c.
Proof.
  intros T S. unfold rd_const.
  destruct c as [|b|z|bits|s|i|p]; cbn [write_const const_typed const_sized] in *.
  - eapply parses_bind_end; [apply parses_byte|]. tagred. apply parses_ret.
  - change [TAGW_BOOL; if b then 1 else 0] with ([TAGW_BOOL] ++ [if b then 1 else 0]).
    eapply parses_bind; [apply parses_byte|]. tagred.
    eapply parses_bind_end; [apply parses_byte|].
    destruct b; apply parses_ret.
  - change (TAGW_INT :: le_bytes 8 (u64_of_i64 z)) with ([TAGW_INT] ++ le_bytes 8 (u64_of_i64 z)).
    eapply parses_bind; [apply parses_byte|]. tagred.
    eapply parses_bind_end; [apply parses_le; apply u64_of_i64_lt|].
    rewrite i64_u64_roundtrip by exact T. rewrite cow_int by exact T. apply parses_ret.
  - destruct T as (T1 & T2 & T3).
    change (TAGW_FLOAT :: le_bytes 8 bits) with ([TAGW_FLOAT] ++ le_bytes 8 bits).
    eapply parses_bind; [apply parses_byte|]. tagred.
    eapply parses_bind_end; [apply parses_le; exact T1|].
    rewrite cow_float by assumption. apply parses_ret.
  - destruct S as [S1 S2].
    change (TAGW_STRING :: le_bytes 4 (lenN s) ++ s) with ([TAGW_STRING] ++ le_bytes 4 (lenN s) ++ s).
    eapply parses_bind; [apply parses_byte|]. tagred.
    eapply parses_bind; [apply parses_le; exact S1|].
    eapply parses_bind0; [apply parses_check; exact S2|].
    eapply parses_bind_end; [apply parses_bytes|]. rewrite T. apply parses_ret.
  - destruct S as [S1 S2].
    change (TAGW_FUNC :: le_bytes 4 i) with ([TAGW_FUNC] ++ le_bytes 4 i).
    eapply parses_bind; [apply parses_byte|]. tagred.
    eapply parses_bind_end; [apply parses_le; exact S1|].
    rewrite cow_nested by exact T. apply parses_ret.
  - change (TAGW_PTR :: le_bytes 8 p) with ([TAGW_PTR] ++ le_bytes 8 p).
    eapply parses_bind; [apply parses_byte|]. tagred.
    eapply parses_bind_end; [apply parses_le; unfold W48 in T; cbn [pow256]; lia|].
    destruct layout_facts as (_ & _ & _ & _ & _ & _ & _ & _ & _ & _ & _ & HP).
    destruct (N.ltb_spec LIM_PTR p) as [L|L].
    + exfalso. unfold W48 in *. lia.
    + apply parses_ret.
Qed.

Lemma markers_ok nn (cs : list const) :
  Forall (const_sized nn) cs -> existsb (marker_bad nn) cs = false.
Proof.
  induction 1 as [|c cs Hc _ IH]; [reflexivity|]. cbn [existsb]. rewrite IH, orb_false_r.
  destruct c; try reflexivity. cbn [const_sized marker_bad] in *.
  destruct (N.leb_spec nn i); [lia | reflexivity].
Qed.

Lemma parses_markers nn cs : Forall (const_sized nn) cs -> parses (check_markers cs nn) [] tt.
Proof. intro H. unfold check_markers. rewrite markers_ok by exact H. apply parses_ret. Qed.

(* ---- code *)
Lemma norm_code_len skip ws : lenN (norm_code skip ws) = lenN ws.
Proof.
  revert skip; induction ws as [|w r IH]; intro skip; [reflexivity|]. cbn [norm_code].
  destruct (0 <? skip); [|destruct (opcode_of w =? OP_MONO); [|destruct (opcode_of w =? OP_CG)]];
    cbn [lenN]; rewrite IH; reflexivity.
Qed.

Lemma rewrite_lt w : N.lor (N.land w 16777215) (OP_REWRITE * 16777216) < W32.
Proof.
  destruct layout_facts as (_ & _ & _ & _ & _ & _ & _ & _ & _ & _ & HR & _).
  assert (N.land w 16777215 < 2 ^ 32) as H1.
  { change 16777215 with (N.ones 24). rewrite N.land_ones.
    pose proof (N.mod_lt w (2 ^ 24) ltac:(lia)). lia. }
  assert (OP_REWRITE * 16777216 < 2 ^ 32) as H2 by lia.
  unfold W32. change 4294967296 with (2 ^ 32).
  destruct (N.eq_dec (N.lor (N.land w 16777215) (OP_REWRITE * 16777216)) 0) as [E|E]; [rewrite E; lia|].
  apply N.log2_lt_pow2; [lia|]. rewrite N.log2_lor.
  apply N.max_lub_lt.
  - destruct (N.eq_dec (N.land w 16777215) 0) as [Z|Z]; [rewrite Z; cbn; lia|].
    apply N.log2_lt_pow2; lia.
  - destruct (N.eq_dec (OP_REWRITE * 16777216) 0) as [Z|Z]; [rewrite Z; cbn; lia|].
    apply N.log2_lt_pow2; lia.
Qed.

Lemma norm_code_words skip ws : Forall (fun w => w < W32) ws -> Forall (fun w => w < W32) (norm_code skip ws).
Proof.
  intro H; revert skip; induction H as [|w r Hw _ IH]; intro skip; cbn [norm_code]; [constructor|].
  destruct (0 <? skip); [constructor; [unfold W32; lia | apply IH]|].
  destruct (opcode_of w =? OP_MONO); [constructor; [apply rewrite_lt | apply IH]|].
  destruct (opcode_of w =? OP_CG); constructor; try exact Hw; apply IH.
Qed.

Lemma parses_code ws :
  Forall (fun w => w < W32) ws ->
  parses (rd_vec SZ_WORD (lenN ws) (rd_le 4)) (flat_map (le_bytes 4) (norm_code 0 ws)) (norm_code 0 ws).
Proof.
  intro H. rewrite <- (norm_code_len 0 ws). apply parses_vec_id.
  eapply Forall_impl; [|apply norm_code_words; exact H].
  intros w Hw. apply parses_le. exact Hw.
Qed.

(* ------------------------------------------------------------------ read_function *)
Lemma height_nested g nested : In g nested ->
  1 + height g <= fold_right (fun g acc => N.max (1 + height g) acc) 0 nested.
Proof.
  induction nested as [|x r IH]; [intros []|]. cbn [fold_right]. intros [->|Hin]; [lia|].
  specialize (IH Hin). lia.
Qed.

Lemma rd_func_parses dbg : forall f d fuel,
  in_types f -> wf_sizes_at d f -> height f < N.of_nat fuel ->
  parses (rd_func dbg fuel d) (write_func f) (normalize f).
Proof.
  induction f as [name ar nr cs consts code nested upv lines globals IH] using func_ind'.
  intros d fuel T S Hf.
  destruct fuel as [|fuel']; [cbn in Hf; lia|].
  cbn [in_types] in T. destruct T as (Tn & Ta & Tr & _ & Tc & Tw & Tnest & Tu & Tl & Tg).
  cbn [wf_sizes_at] in S.
  destruct S as (Sd & Sn & Sc1 & Sc2 & Sc & Sw1 & Sw2 & Sn1 & Sn2 & Snest & Su1 & Su2 & Sl1 & Sl2 & Sg1 & Sg2 & Sg).
  apply fold_conj_Forall in Tnest. apply fold_conj_Forall in Snest.
  cbn [write_func rd_func normalize].
  eapply parses_bind0; [apply parses_check; exact Sd|].
  eapply parses_bind; [apply parses_name; assumption|].
  eapply parses_bind; [apply parses_le; exact Ta|].
  eapply parses_bind; [apply parses_le; exact Tr|].
  eapply parses_bind; [apply parses_le; exact Sc1|].
  eapply parses_bind0; [apply parses_check; exact Sc2|].
  eapply parses_bind.
  { apply parses_vec_id. rewrite Forall_forall in *. intros c Hc.
    apply parses_const with (nn := lenN nested); auto. }
  eapply parses_bind; [apply parses_le; exact Sw1|].
  eapply parses_bind0; [apply parses_check; exact Sw2|].
  eapply parses_bind; [apply parses_code; exact Tw|].
  eapply parses_bind; [apply parses_le; exact Sn1|].
  eapply parses_bind0; [apply parses_check; exact Sn2|].
  eapply parses_bind0; [apply parses_markers; exact Sc|].
  eapply parses_bind.
  { apply parses_vec. rewrite Forall_forall in *. intros g Hg.
    apply IH; auto.
    pose proof (height_nested g nested Hg) as Hh. cbn [height] in Hf. lia. }
  eapply parses_bind; [apply parses_le; exact Su1|].
  eapply parses_bind0; [apply parses_check; exact Su2|].
  eapply parses_bind.
  { apply parses_vec_id. rewrite Forall_forall in *. intros u Hu. apply parses_upval. auto. }
  eapply parses_bind; [apply parses_le; exact Sl1|].
  eapply parses_bind0; [apply parses_check; exact Sl2|].
  eapply parses_bind.
  { apply parses_vec_id. rewrite Forall_forall in *. intros l Hl.
    destruct (Tl l Hl). apply parses_line; assumption. }
  eapply parses_bind; [apply parses_le; exact Sg1|].
  eapply parses_bind0; [apply parses_check; exact Sg2|].
  eapply parses_bind_end.
  { apply parses_vec_id. rewrite Forall_forall in *. intros g Hg.
    destruct (Sg g Hg). apply parses_gname; auto. }
  apply parses_ret.
Qed.

Lemma wf_height d f : wf_sizes_at d f -> d + height f <= LIM_DEPTH.
Proof.
  revert d. induction f as [name ar nr cs consts code nested upv lines globals IH] using func_ind'.
  intros d S. cbn [wf_sizes_at] in S. destruct S as (Sd & _ & _ & _ & _ & _ & _ & _ & _ & Snest & _).
  apply fold_conj_Forall in Snest. cbn [height].
  induction nested as [|g r IHr]; cbn [fold_right]; [lia|].
  inversion IH; subst. inversion Snest; subst.
  specialize (IHr H2 H4). specialize (H1 (d + 1) H3). lia.
Qed.

Lemma list_eqbN_refl l : list_eqbN l l = true.
Proof. induction l as [|x l IH]; [reflexivity|]. cbn [list_eqbN]. rewrite N.eqb_refl, IH. reflexivity. Qed.

Lemma rd_program_parses dbg f :
  in_types f -> wf_sizes f -> parses (rd_program dbg) (write_bytes f) (normalize f).
Proof.
  intros T S. destruct layout_facts as (_ & _ & _ & _ & _ & _ & _ & _ & HM & HV & _).
  unfold rd_program, write_bytes.
  eapply parses_bind; [rewrite <- HM; apply parses_exact|].
  rewrite list_eqbN_refl.
  eapply parses_bind; [apply parses_le; exact HV|].
  rewrite N.eqb_refl.
  eapply parses_bind; [apply parses_le_mod|].
  eapply parses_bind; [apply parses_le_mod|].
  eapply parses_bind; [apply parses_le_mod|].
  apply rd_func_parses; [exact T | exact S |].
  pose proof (wf_height 0 f S). unfold read_fuel. rewrite N2Nat.id. lia.
Qed.

Lemma read_write_lemma dbg f : in_types f -> wf_sizes f -> read dbg (write_bytes f) = ROk (normalize f).
Proof.
  intros T S. destruct (rd_program_parses dbg f T S [] 0 0) as (a' & m' & E).
  unfold read. rewrite app_nil_r in E. rewrite E. reflexivity.
Qed.

(* ------------------------------------------------------------------ the validating writer *)
Lemma wlim_facts :
  WLIM_DEPTH = LIM_DEPTH
  /\ WLIM_NAME_LEN = N.min (W16 - 1) LIM_NAME_LEN /\ WLIM_CONSTS = N.min (W16 - 1) LIM_CONSTS
  /\ WLIM_CODE = N.min (W32 - 1) LIM_CODE /\ WLIM_NESTED = N.min (W16 - 1) LIM_NESTED
  /\ WLIM_UPVALS = N.min (W16 - 1) LIM_UPVALS /\ WLIM_LINES = N.min (W16 - 1) LIM_LINES
  /\ WLIM_GLOBALS = N.min (W16 - 1) LIM_GLOBALS
  /\ WLIM_GLOBAL_NAME_LEN = N.min (W16 - 1) LIM_GLOBAL_NAME_LEN
  /\ WLIM_STRING_LEN = N.min (W32 - 1) LIM_STRING_LEN.
Proof. repeat split; reflexivity. Qed.

Lemma first_err_none l : first_err l = None <-> Forall (fun x => x = None) l.
Proof.
  induction l as [|x l IH]; cbn [first_err].
  - split; [constructor | reflexivity].
  - destruct x as [e|].
    + split; [discriminate | intro H; inversion H; discriminate].
    + rewrite IH. split; [intro H; constructor; [reflexivity | exact H] | intro H; inversion H; assumption].
Qed.

Lemma lim_err_none n lim w : lim_err n lim w = None <-> n <= lim.
Proof. unfold lim_err. destruct (N.ltb_spec lim n); split; intro; try lia; try discriminate; reflexivity. Qed.

Lemma first_err_map_none {A} (g : A -> option err_w) l :
  first_err (map g l) = None <-> Forall (fun x => g x = None) l.
Proof. rewrite first_err_none, Forall_map. reflexivity. Qed.

Lemma wcheck_wf : forall f d, wcheck d f = None -> wf_sizes_at d f.
Proof.
  destruct wlim_facts as (Fd & Fn & Fc & Fw & Fne & Fu & Fl & Fg & Fgn & Fs).
  induction f as [name ar nr cs consts code nested upv lines globals IH] using func_ind'.
  intros d H. cbn [wcheck] in H. apply first_err_none in H.
  repeat (apply Forall_cons_iff in H; destruct H as [?H H]).
  repeat match goal with X : lim_err _ _ _ = None |- _ => apply lim_err_none in X end.
  repeat match goal with X : first_err (map _ _) = None |- _ => apply first_err_map_none in X end.
  rewrite Fd in *. rewrite Fn in *. rewrite Fc in *. rewrite Fw in *. rewrite Fne in *.
  rewrite Fu in *. rewrite Fl in *. rewrite Fg in *.
  cbn [wf_sizes_at]. unfold W16, W32 in *.
  repeat split; try lia.
  - destruct name as [s|]; cbn [name_sized name_len] in *; [unfold W16; lia | exact I].
  - rewrite Forall_forall in *. intros c Hc.
    match goal with X : forall x, In x consts -> wcheck_const _ x = None |- _ => specialize (X c Hc); rename X into Hw end.
    destruct c; cbn [wcheck_const const_sized] in *; try exact I.
    + rewrite Fs in Hw. apply lim_err_none in Hw. unfold W32 in *. lia.
    + destruct (N.leb_spec (lenN nested) i); [discriminate|]. unfold W32. lia.
  - apply fold_conj_Forall. rewrite Forall_forall in *. intros g Hg. apply (IH g Hg). auto.
  - rewrite Forall_forall in *. intros g Hg.
    match goal with X : forall x, In x globals -> lim_err _ _ _ = None |- _ => specialize (X g Hg); rename X into Hw end.
    rewrite Fgn in Hw. apply lim_err_none in Hw. unfold W16 in *. lia.
Qed.

Lemma wf_wcheck : forall f d, wf_sizes_at d f -> wcheck d f = None.
Proof.
  destruct wlim_facts as (Fd & Fn & Fc & Fw & Fne & Fu & Fl & Fg & Fgn & Fs).
  induction f as [name ar nr cs consts code nested upv lines globals IH] using func_ind'.
  intros d S. cbn [wf_sizes_at] in S.
  destruct S as (Sd & Sn & Sc1 & Sc2 & Sc & Sw1 & Sw2 & Sn1 & Sn2 & Snest & Su1 & Su2 & Sl1 & Sl2 & Sg1 & Sg2 & Sg).
  apply fold_conj_Forall in Snest.
  cbn [wcheck]. apply first_err_none.
  rewrite Fd, Fn, Fc, Fw, Fne, Fu, Fl, Fg. unfold W16, W32 in *.
  repeat (apply Forall_cons); try (apply lim_err_none; lia); try constructor.
  - apply lim_err_none. destruct name as [s|]; cbn [name_sized name_len] in *; unfold W16 in *; lia.
  - apply first_err_map_none. rewrite Forall_forall in *. intros g Hg. destruct (Sg g Hg).
    rewrite Fgn. apply lim_err_none. unfold W16 in *. lia.
  - apply first_err_map_none. rewrite Forall_forall in *. intros c Hc. specialize (Sc c Hc).
    destruct c; cbn [wcheck_const const_sized] in *; try reflexivity.
    + rewrite Fs. apply lim_err_none. unfold W32 in *. lia.
    + destruct (N.leb_spec (lenN nested) i); [lia | reflexivity].
  - apply first_err_map_none. rewrite Forall_forall in *. intros g Hg. apply (IH g Hg). auto.
Qed.

Lemma read_write_full dbg f bs :
  in_types f -> write f = WOk bs -> read dbg bs = ROk (normalize f).
Proof.
  intros T W. unfold write in W. destruct (wcheck 0 f) as [e|] eqn:C; [discriminate|].
  inversion W; subst. apply read_write_lemma; [exact T | apply wcheck_wf; exact C].
Qed.

Lemma write_accepts_wf f : wf_sizes f -> write f = WOk (write_bytes f).
Proof. intro S. unfold write. rewrite (wf_wcheck f 0 S). reflexivity. Qed.

Lemma write_rejects f : ~ wf_sizes f -> exists e, write f = WErr e.
Proof.
  intro N. unfold write. destruct (wcheck 0 f) as [e|] eqn:C; [exists e; reflexivity|].
  exfalso. apply N. apply wcheck_wf. exact C.
Qed.

(* the reader never runs out of fuel: the depth guard fires first *)
Definition no_fuel_err {A} (r : res A) : Prop := match r with Err EFuel _ _ => False | _ => True end.

Lemma bind_no_fuel {A B} (m : M A) (k : A -> M B) s :
  no_fuel_err (m s) -> (forall a s', no_fuel_err (k a s')) -> no_fuel_err (bind m k s).
Proof. intros H1 H2. unfold bind. destruct (m s); [apply H2 | exact H1 | exact I]. Qed.

(* ------------------------------------------------------------------ witnesses *)
Definition repN {A} (x : A) (n : N) : list A := N.iter n (cons x) [].

Lemma Forall_repN {A} (P : A -> Prop) x n : P x -> Forall P (repN x n).
Proof.
  intro H. unfold repN. apply N.iter_invariant; [|constructor].
  intros l Hl. constructor; assumption.
Qed.

Definition leaf0 : func := Func None 0 0 0 [] [] [] [] [] [].

(* 65 536 line-table entries: the count is written `as u16` (= 0) but all entries follow *)
Definition trunc_witness : func := Func None 0 0 0 [] [] [] [] (repN (1, 0) 65536) [].
Definition trunc_result : func := Func None 0 0 0 [] [] [] [] [] [[]].

Lemma trunc_in_types : in_types trunc_witness.
Proof.
  unfold trunc_witness. cbn [in_types name_typed fold_right]. unfold W8, W16.
  refine (conj I (conj _ (conj _ (conj _ (conj (Forall_nil _) (conj (Forall_nil _) (conj I (conj (Forall_nil _) (conj _ (Forall_nil _)))))))))); try lia.
  apply Forall_repN. cbn [fst snd]. unfold W32. lia.
Qed.

Lemma write_truncates_lemma :
  exists f, in_types f /\ exists g, read true (write_bytes f) = ROk g /\ read false (write_bytes f) = ROk g
                                     /\ g <> normalize f.
Proof.
  exists trunc_witness. split; [exact trunc_in_types|]. exists trunc_result.
  split; [vm_compute; reflexivity|]. split; [vm_compute; reflexivity|].
  intro E. apply (f_equal (fun f => lenN (f_lines f))) in E. vm_compute in E. discriminate.
Qed.

Lemma writer_rejects_truncation : write trunc_witness = WErr (WLimit 6).
Proof. vm_compute. reflexivity. Qed.

(* 4 097 nested functions: the unchecked writer wrote them, the reader's limit rejects them *)
Definition toomany_witness : func := Func None 0 0 0 [] [] (repN leaf0 4097) [] [] [].

Lemma leaf0_in_types : in_types leaf0.
Proof.
  unfold leaf0. cbn [in_types name_typed fold_right]. unfold W8, W16.
  refine (conj I (conj _ (conj _ (conj _ (conj (Forall_nil _) (conj (Forall_nil _) (conj I (conj (Forall_nil _) (conj (Forall_nil _) (Forall_nil _)))))))))); lia.
Qed.

Lemma toomany_in_types : in_types toomany_witness.
Proof.
  unfold toomany_witness. cbn [in_types name_typed]. unfold W8, W16.
  refine (conj I (conj _ (conj _ (conj _ (conj (Forall_nil _) (conj (Forall_nil _) (conj _ (conj (Forall_nil _) (conj (Forall_nil _) (Forall_nil _)))))))))); try lia.
  apply fold_conj_Forall. apply Forall_repN. exact leaf0_in_types.
Qed.

Lemma read_back_fails_lemma :
  exists f, in_types f /\ read true (write_bytes f) = RErr (ELimit 4) /\ read false (write_bytes f) = RErr (ELimit 4).
Proof.
  exists toomany_witness. split; [exact toomany_in_types|]. split; vm_compute; reflexivity.
Qed.

Lemma writer_rejects_toomany : write toomany_witness = WErr (WLimit 4).
Proof. vm_compute. reflexivity. Qed.

(* non-vacuity: a function with two levels of nesting and every constant kind *)
Definition ex_leaf : func :=
  Func (Some [97; 195; 169]) 1 3 0
       [CInt (-5)%Z; CStr [104; 105; 240; 159; 152; 128]; CFloat 4614253070214989087; CBool true; CNull; CPtr 7;
        CFloat CANONICAL_NAN]
       [1291845637; 11; 12; 16777216] [] [(true, 0); (false, 3)] [(2, 7); (2, 8)] [[103]; []].
Definition ex_top : func :=
  Func None 0 4 2 [CFunc 0; CFunc 1; CInt 140737488355327%Z]
       [1308622849; 5; 6; 3; 1744830464; 9; 9]
       [ex_leaf; Func (Some []) 0 0 0 [CFunc 0] [] [ex_leaf] [] [] []] [] [(7, 1)] [[97]; []; [109; 58; 58; 102]].

Lemma ex_top_ok :
  in_types ex_top /\ wf_sizes ex_top
  /\ (exists bs, write ex_top = WOk bs /\ read true bs = ROk (normalize ex_top))
  /\ normalize ex_top <> ex_top /\ height ex_top = 2.
Proof.
  split; [|split; [|split; [|split]]].
  - cbn. unfold W8, W16, W32, W48, W64, int48. repeat split; try lia; repeat constructor; try reflexivity; cbn; try lia.
  - cbn. unfold W16, W32. repeat split; try lia; repeat constructor; cbn; try lia; vm_compute; intro; discriminate.
  - exists (write_bytes ex_top). split; vm_compute; reflexivity.
  - intro E. apply (f_equal f_code) in E. vm_compute in E. discriminate.
  - vm_compute. reflexivity.
Qed.
