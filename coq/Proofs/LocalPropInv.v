(* Local constant propagation: two invariants of the walk, for every program.
   (1) the scope stack keeps its depth across every expression and statement (what a construct
       opens it closes), so "depth = 1" in the `let` rule means exactly "a top-level statement";
   (2) only literals are ever recorded, hence every substitution the pass performs replaces a
       variable by a literal. *)
From Coq Require Import String Arith.
From Aelys Require Import Base.Tactics Model.Lang Model.Opt.Fold Model.Opt.GlobalProp Model.Opt.LocalProp
  Proofs.LangInd Proofs.LocalPropProofs.

Definition lit_entry (xv : string * option expr) : Prop :=
  match snd xv with Some k => is_simple_constant k = true | None => True end.
Definition lits (ss : scopes) : Prop := Forall (Forall lit_entry) ss.

Definition Inv (ss ss' : scopes) : Prop := length ss' = length ss /\ (lits ss -> lits ss').
(* inside a scope opened on top of [ss] *)
Definition Inv1 (ss s : scopes) : Prop := length s = S (length ss) /\ (lits ss -> lits s).

Lemma Inv_refl ss : Inv ss ss. Proof. split; auto. Qed.
Lemma Inv_trans a b c : Inv a b -> Inv b c -> Inv a c.
Proof. intros [A1 A2] [B1 B2]. split; [congruence | auto]. Qed.
Lemma Inv_nonempty a b : Inv a b -> a <> [] -> b <> [].
Proof. intros [L _] N. destruct a; [congruence|]. destruct b; [discriminate | discriminate]. Qed.
Lemma Inv1_nonempty a s : Inv1 a s -> s <> [].
Proof. intros [L _]. destruct s; [discriminate | discriminate]. Qed.

Lemma sc_set_lits x v s : Forall lit_entry s -> lit_entry (x, v) -> Forall lit_entry (sc_set x v s).
Proof.
  intros Hs Hv. induction s as [|[y w] r IH]; cbn [sc_set]; [constructor; [exact Hv | constructor]|].
  inversion Hs; subst. destruct (String.eqb x y); constructor; auto.
Qed.

Lemma Inv_put x v ss : ss <> [] -> lit_entry (x, v) -> Inv ss (ss_put x v ss).
Proof.
  intros N Hv. destruct ss as [|s r]; [congruence|]. split; [reflexivity|].
  intro L. inversion L; subst. constructor; [apply sc_set_lits; assumption | assumption].
Qed.

Lemma lits_inval x ss : lits ss -> lits (ss_inval x ss).
Proof.
  induction ss as [|s r IH]; cbn [ss_inval]; intro L; [exact L|].
  inversion L; subst. destruct (sc_find x s).
  - constructor; [apply sc_set_lits; [assumption | exact I] | assumption].
  - constructor; [assumption | apply IH; assumption].
Qed.

Lemma Inv_inval x ss : Inv ss (ss_inval x ss).
Proof. split; [apply ss_inval_length | apply lits_inval]. Qed.

Lemma Inv_fold_inval l : forall ss, Inv ss (fold_left (fun s x => ss_inval x s) l ss).
Proof.
  induction l as [|x r IH]; intro ss; cbn [fold_left]; [apply Inv_refl|].
  eapply Inv_trans; [apply Inv_inval | apply IH].
Qed.

Lemma Inv1_start ss : Inv1 ss (ss_push ss).
Proof. split; [reflexivity|]. intro L. constructor; [constructor | exact L]. Qed.
Lemma Inv1_step ss s s' : Inv1 ss s -> Inv s s' -> Inv1 ss s'.
Proof. intros [A1 A2] [B1 B2]. split; [congruence | auto]. Qed.
Lemma Inv1_put ss s x : Inv1 ss s -> Inv1 ss (ss_put x None s).
Proof. intro H. eapply Inv1_step; [exact H|]. apply Inv_put; [exact (Inv1_nonempty _ _ H) | exact I]. Qed.
Lemma Inv1_fold_put (ps : list (string * bool)) : forall ss s, Inv1 ss s ->
  Inv1 ss (fold_left (fun s p => ss_put (fst p) None s) ps s).
Proof.
  induction ps as [|p r IH]; intros ss s H; cbn [fold_left]; [exact H|]. apply IH. apply Inv1_put. exact H.
Qed.
Lemma Inv1_end ss s : ss <> [] -> Inv1 ss s -> Inv ss (ss_pop s).
Proof.
  intros N [L1 L2]. destruct ss as [|s0 r0]; [congruence|].
  destruct s as [|a [|b r]]; cbn [length] in L1; [discriminate | discriminate |].
  cbn [ss_pop]. split; [cbn [length] in *; lia|]. intro L. specialize (L2 L). inversion L2; subst. assumption.
Qed.

(* threading a walk through a list *)
Definition thread {A} (f : scopes -> A -> A * scopes) : list A -> scopes -> list A * scopes :=
  fix go (l : list A) (s : scopes) : list A * scopes :=
    match l with
    | [] => ([], s)
    | x :: r => let '(x', sa) := f s x in let '(r', sb) := go r sa in (x' :: r', sb)
    end.

Lemma thread_Inv {A} (f : scopes -> A -> A * scopes) (l : list A) :
  Forall (fun x => forall s x' s', s <> [] -> f s x = (x', s') -> Inv s s') l ->
  forall s l' s', s <> [] -> thread f l s = (l', s') -> Inv s s'.
Proof.
  induction 1 as [|x r Hx Hr IH]; intros s l' s' N H; cbn [thread] in H.
  - inversion H; subst. apply Inv_refl.
  - destruct (f s x) as [x' sa] eqn:E. fold (thread f) in H. destruct (thread f r sa) as [r' sb] eqn:E2.
    inversion H; subst. pose proof (Hx _ _ _ N E) as I1.
    eapply Inv_trans; [exact I1 | apply (IH _ _ _ (Inv_nonempty _ _ I1 N) E2)].
Qed.

Definition thread_parts (f : scopes -> expr -> expr * scopes) : list fpart -> scopes -> list fpart * scopes :=
  fix go (l : list fpart) (s : scopes) : list fpart * scopes :=
    match l with
    | [] => ([], s)
    | PExpr x :: r => let '(x', sa) := f s x in let '(r', sb) := go r sa in (PExpr x' :: r', sb)
    | q :: r => let '(r', sb) := go r s in (q :: r', sb)
    end.

Lemma thread_parts_Inv (f : scopes -> expr -> expr * scopes) (l : list fpart) :
  Forall (part_all (fun x => forall s x' s', s <> [] -> f s x = (x', s') -> Inv s s')) l ->
  forall s l' s', s <> [] -> thread_parts f l s = (l', s') -> Inv s s'.
Proof.
  induction 1 as [|p r Hp Hr IH]; intros s l' s' N H; cbn [thread_parts] in H.
  - inversion H; subst. apply Inv_refl.
  - fold (thread_parts f) in H. destruct p as [t|x|].
    + destruct (thread_parts f r s) as [r' sb] eqn:E2. inversion H; subst. exact (IH _ _ _ N E2).
    + destruct (f s x) as [x' sa] eqn:E. destruct (thread_parts f r sa) as [r' sb] eqn:E2.
      inversion H; subst. pose proof (Hp _ _ _ N E) as I1.
      eapply Inv_trans; [exact I1 | apply (IH _ _ _ (Inv_nonempty _ _ I1 N) E2)].
    + destruct (thread_parts f r s) as [r' sb] eqn:E2. inversion H; subst. exact (IH _ _ _ N E2).
Qed.

Definition PE (e : expr) : Prop :=
  forall open bs d ss e' ss', ss <> [] -> lp_expr open bs d ss e = (e', ss') -> Inv ss ss'.
Definition QS (s : stmt) : Prop :=
  forall open bs d ss s' ss', ss <> [] -> lp_stmt open bs d ss s = (s', ss') -> Inv ss ss'.

(* one sub-walk: destruct it, get its Inv from an induction hypothesis, extend the chain *)
Ltac walk H :=
  match type of H with
  | context [lp_expr ?o ?b ?d ?s ?a] =>
      let E := fresh "E" in let a' := fresh "a'" in let s1 := fresh "s" in
      destruct (lp_expr o b d s a) as [a' s1] eqn:E;
      match goal with
      | IH : PE a, Qc : Inv ?s0 s, Nc : s <> [] |- _ =>
          let Q := fresh "Qs" in let N := fresh "Nc" in let Q2 := fresh "Qc" in
          pose proof (IH o b d s a' s1 Nc E) as Q;
          pose proof (Inv_nonempty _ _ Q Nc) as N;
          pose proof (Inv_trans _ _ _ Qc Q) as Q2; clear Qc E Q
      end
  end.

Lemma thread_expr_Inv o b d l : Forall PE l ->
  forall s l' s', s <> [] -> thread (fun s x => lp_expr o b d s x) l s = (l', s') -> Inv s s'.
Proof.
  intro F. apply thread_Inv. eapply Forall_impl; [|exact F]. intros x Hx s x' s' N E. exact (Hx o b d s x' s' N E).
Qed.
Lemma thread_stmt_Inv o b d l : Forall QS l ->
  forall s l' s', s <> [] -> thread (fun s x => lp_stmt o b d s x) l s = (l', s') -> Inv s s'.
Proof.
  intro F. apply thread_Inv. eapply Forall_impl; [|exact F]. intros x Hx s x' s' N E. exact (Hx o b d s x' s' N E).
Qed.
Lemma thread_parts_expr_Inv o b d l : Forall (part_all PE) l ->
  forall s l' s', s <> [] -> thread_parts (fun s x => lp_expr o b d s x) l s = (l', s') -> Inv s s'.
Proof.
  intro F. apply thread_parts_Inv. eapply Forall_impl; [|exact F].
  intros [t|x|] Hx; cbn [part_all] in *; [exact I | | exact I]. intros s x' s' N E. exact (Hx o b d s x' s' N E).
Qed.

(* unfolding equations for the constructors that walk a list *)
Lemma lp_call o b d ss f args : lp_expr o b d ss (ECall f args) =
  let '(f', s1) := lp_expr o b d ss f in
  let '(args', s2) := thread (fun s x => lp_expr o b d s x) args s1 in (ECall f' args', s2).
Proof. reflexivity. Qed.
Lemma lp_arr o b d ss es : lp_expr o b d ss (EArr es) =
  let '(es', s1) := thread (fun s x => lp_expr o b d s x) es ss in (EArr es', s1).
Proof. reflexivity. Qed.
Lemma lp_vec o b d ss es : lp_expr o b d ss (EVec es) =
  let '(es', s1) := thread (fun s x => lp_expr o b d s x) es ss in (EVec es', s1).
Proof. reflexivity. Qed.
Lemma lp_fmt o b d ss parts : lp_expr o b d ss (EFmt parts) =
  let '(parts', s1) := thread_parts (fun s x => lp_expr o b d s x) parts ss in (EFmt parts', s1).
Proof. reflexivity. Qed.
Lemma lp_lam o b d ss ps body : lp_expr o b d ss (ELam ps body) =
  let s0 := fold_left (fun s p => ss_put (fst p) None s) ps (ss_push ss) in
  let '(body', s1) := thread (fun s x => lp_stmt o b true s x) body s0 in (ELam ps body', ss_pop s1).
Proof. reflexivity. Qed.
Lemma lp_block o b d ss l : lp_stmt o b d ss (SBlock l) =
  let '(l', s1) := thread (fun s x => lp_stmt o b d s x) l (ss_push ss) in (SBlock l', ss_pop s1).
Proof. reflexivity. Qed.
Lemma lp_fun o b d ss n ps body dc : lp_stmt o b d ss (SFun n ps body dc) =
  let s0 := fold_left (fun s p => ss_put (fst p) None s) ps (ss_push (ss_put n None ss)) in
  let '(body', s1) := thread (fun s x => lp_stmt o b true s x) body s0 in (SFun n ps body' dc, ss_pop s1).
Proof. reflexivity. Qed.

Ltac walks H :=
  match type of H with
  | context [lp_stmt ?o ?b ?d ?s ?a] =>
      let E := fresh "E" in let a' := fresh "a'" in let s1 := fresh "s" in
      destruct (lp_stmt o b d s a) as [a' s1] eqn:E
  end.

Lemma lp_inv : (forall e, PE e) /\ (forall s, QS s).
Proof.
  apply lang_mutind.
  (* literals, variables, EOther *)
  1-6: (unfold PE; intros; cbn [lp_expr] in *; match goal with H : (_, _) = (_, _) |- _ => inversion H; subst; apply Inv_refl end).
  - (* EBin *) intros op a b IHa IHb o bs d ss e' ss' Nc H. cbn [lp_expr] in H. pose proof (Inv_refl ss) as Qc.
    walk H. walk H. inversion H; subst. assumption.
  - (* EUn *) intros op a IHa o bs d ss e' ss' Nc H. cbn [lp_expr] in H. pose proof (Inv_refl ss) as Qc.
    walk H. inversion H; subst. assumption.
  - (* EAnd *) intros a b IHa IHb o bs d ss e' ss' Nc H. cbn [lp_expr] in H. pose proof (Inv_refl ss) as Qc.
    walk H. walk H. inversion H; subst. assumption.
  - (* EOr *) intros a b IHa IHb o bs d ss e' ss' Nc H. cbn [lp_expr] in H. pose proof (Inv_refl ss) as Qc.
    walk H. walk H. inversion H; subst. assumption.
  - (* ECall *) intros f args IHf IHargs o bs d ss e' ss' Nc H. rewrite lp_call in H. pose proof (Inv_refl ss) as Qc.
    walk H. destruct (thread _ args _) as [args' s2] eqn:E2. inversion H; subst.
    eapply Inv_trans; [eassumption | eapply thread_expr_Inv; eassumption].
  - (* EAssign *) intros x a IHa o bs d ss e' ss' Nc H. cbn [lp_expr] in H. pose proof (Inv_refl ss) as Qc.
    walk H. inversion H; subst. eapply Inv_trans; [eassumption | apply Inv_inval].
  - (* EIf *) intros c a b IHc IHa IHb o bs d ss e' ss' Nc H. cbn [lp_expr] in H. pose proof (Inv_refl ss) as Qc.
    walk H. walk H. walk H. inversion H; subst. assumption.
  - (* EFmt *) intros parts IH o bs d ss e' ss' Nc H. rewrite lp_fmt in H.
    destruct (thread_parts _ parts _) as [parts' s1] eqn:E. inversion H; subst.
    eapply thread_parts_expr_Inv; eassumption.
  - (* ELam *) intros ps body IH o bs d ss e' ss' Nc H. rewrite lp_lam in H. cbv zeta in H.
    destruct (thread _ body _) as [body' s1] eqn:E. inversion H; subst.
    apply Inv1_end; [exact Nc|].
    pose proof (Inv1_fold_put ps ss _ (Inv1_start ss)) as I0.
    eapply Inv1_step; [exact I0|]. eapply thread_stmt_Inv; [exact IH | exact (Inv1_nonempty _ _ I0) | exact E].
  - (* EMember *) intros ob m IHo o bs d ss e' ss' Nc H. cbn [lp_expr] in H. pose proof (Inv_refl ss) as Qc.
    walk H. inversion H; subst. assumption.
  - (* EArr *) intros es IH o bs d ss e' ss' Nc H. rewrite lp_arr in H.
    destruct (thread _ es _) as [es' s1] eqn:E. inversion H; subst. eapply thread_expr_Inv; eassumption.
  - (* EVec *) intros es IH o bs d ss e' ss' Nc H. rewrite lp_vec in H.
    destruct (thread _ es _) as [es' s1] eqn:E. inversion H; subst. eapply thread_expr_Inv; eassumption.
  - (* EArrSized *) intros n IHn o bs d ss e' ss' Nc H. cbn [lp_expr] in H. pose proof (Inv_refl ss) as Qc.
    walk H. inversion H; subst. assumption.
  - (* EIdx *) intros a i IHa IHi o bs d ss e' ss' Nc H. cbn [lp_expr] in H. pose proof (Inv_refl ss) as Qc.
    walk H. walk H. inversion H; subst. assumption.
  - (* EIdxSet *) intros a i v IHa IHi IHv o bs d ss e' ss' Nc H. cbn [lp_expr] in H. pose proof (Inv_refl ss) as Qc.
    walk H. walk H. walk H. inversion H; subst. assumption.
  - (* EOther *) unfold PE; intros; cbn [lp_expr] in *; match goal with H : (_, _) = (_, _) |- _ => inversion H; subst; apply Inv_refl end.
  - (* SExpr *) intros e IHe o bs d ss s' ss' Nc H. cbn [lp_stmt] in H. pose proof (Inv_refl ss) as Qc.
    walk H. inversion H; subst. assumption.
  - (* SLet *) intros x m e IHe o bs d ss s' ss' Nc H. rewrite lp_stmt_let in H. pose proof (Inv_refl ss) as Qc.
    walk H. cbv zeta in H.
    match type of H with context [if ?c then _ else _] => destruct c eqn:G end; inversion H; subst.
    + eapply Inv_trans; [eassumption|]. apply Inv_put; [assumption|].
      apply andb_true_iff in G as [G1 _]. apply andb_true_iff in G1 as [_ Gc]. exact Gc.
    + eapply Inv_trans; [eassumption|]. apply Inv_put; [assumption | exact I].
  - (* SBlock *) intros l IH o bs d ss s' ss' Nc H. rewrite lp_block in H.
    destruct (thread _ l _) as [l' s1] eqn:E. inversion H; subst.
    apply Inv1_end; [exact Nc|]. eapply Inv1_step; [apply Inv1_start|].
    eapply thread_stmt_Inv; [exact IH | discriminate | exact E].
  - (* SIf *) intros c t e IHc IHt IHe o bs d ss s' ss' Nc H. cbn [lp_stmt] in H. pose proof (Inv_refl ss) as Qc.
    walk H. walks H.
    assert (I2 : Inv ss (ss_pop s0)).
    { eapply Inv_trans; [eassumption|]. apply Inv1_end; [assumption|].
      eapply Inv1_step; [apply Inv1_start|]. eapply IHt; [discriminate | eassumption]. }
    destruct e as [el|]; [|inversion H; subst; exact I2].
    walks H. inversion H; subst. eapply Inv_trans; [exact I2|].
    pose proof (Inv_nonempty _ _ I2 Nc) as N2.
    apply Inv1_end; [exact N2|]. eapply Inv1_step; [apply Inv1_start|]. eapply IHe; [discriminate | eassumption].
  - (* SWhile *) intros c b IHc IHb o bs d ss s' ss' Nc H. cbn [lp_stmt] in H.
    pose proof (Inv_fold_inval (asg_stmt b) ss) as Qc. pose proof (Inv_nonempty _ _ Qc Nc) as Nc'. clear Nc.
    walk H. walks H. inversion H; subst. eapply Inv_trans; [eassumption|].
    apply Inv1_end; [assumption|]. eapply Inv1_step; [apply Inv1_start|]. eapply IHb; [discriminate | eassumption].
  - (* SFor *) intros x lo hi incl step b IHlo IHhi IHstep IHb o bs d ss s' ss' Nc H. cbn [lp_stmt] in H.
    pose proof (Inv_refl ss) as Qc. walk H. walk H.
    destruct step as [k|]; cbn [opt_all] in IHstep.
    + walk H. walks H. inversion H; subst.
      eapply Inv_trans; [eassumption|].
      pose proof (Inv_fold_inval (asg_stmt b) s1) as I4. eapply Inv_trans; [exact I4|].
      apply Inv1_end; [exact (Inv_nonempty _ _ I4 ltac:(assumption))|].
      eapply Inv1_step; [apply Inv1_put; apply Inv1_start|].
      eapply IHb; [|eassumption]. apply (Inv1_nonempty (fold_left (fun s y => ss_inval y s) (asg_stmt b) s1)).
      apply Inv1_put; apply Inv1_start.
    + walks H. inversion H; subst.
      eapply Inv_trans; [eassumption|].
      pose proof (Inv_fold_inval (asg_stmt b) s0) as I4. eapply Inv_trans; [exact I4|].
      apply Inv1_end; [exact (Inv_nonempty _ _ I4 ltac:(assumption))|].
      eapply Inv1_step; [apply Inv1_put; apply Inv1_start|].
      eapply IHb; [|eassumption]. apply (Inv1_nonempty (fold_left (fun s y => ss_inval y s) (asg_stmt b) s0)).
      apply Inv1_put; apply Inv1_start.
  - (* SForEach *) intros x e b IHe IHb o bs d ss s' ss' Nc H. cbn [lp_stmt] in H. pose proof (Inv_refl ss) as Qc.
    walk H. walks H. inversion H; subst.
    eapply Inv_trans; [eassumption|].
    pose proof (Inv_fold_inval (asg_stmt b) s) as I4. eapply Inv_trans; [exact I4|].
    apply Inv1_end; [exact (Inv_nonempty _ _ I4 ltac:(assumption))|].
    eapply Inv1_step; [apply Inv1_put; apply Inv1_start|].
    eapply IHb; [|eassumption]. apply (Inv1_nonempty (fold_left (fun s y => ss_inval y s) (asg_stmt b) s)).
    apply Inv1_put; apply Inv1_start.
  - (* SRet *) intros e IHe o bs d ss s' ss' Nc H. destruct e as [k|]; cbn [lp_stmt opt_all] in *.
    + pose proof (Inv_refl ss) as Qc. walk H. inversion H; subst. assumption.
    + inversion H; subst. apply Inv_refl.
  - (* SBreak *) unfold QS; intros; cbn [lp_stmt] in *; match goal with H : (_, _) = (_, _) |- _ => inversion H; subst; apply Inv_refl end.
  - (* SCont *) unfold QS; intros; cbn [lp_stmt] in *; match goal with H : (_, _) = (_, _) |- _ => inversion H; subst; apply Inv_refl end.
  - (* SFun *) intros n ps body dc IH o bs d ss s' ss' Nc H. rewrite lp_fun in H. cbv zeta in H.
    destruct (thread _ body _) as [body' s1] eqn:E. inversion H; subst.
    pose proof (Inv_put n None ss Nc I) as I0. pose proof (Inv_nonempty _ _ I0 Nc) as N0.
    eapply Inv_trans; [exact I0|]. apply Inv1_end; [exact N0|].
    pose proof (Inv1_fold_put ps _ _ (Inv1_start (ss_put n None ss))) as I1.
    eapply Inv1_step; [exact I1|]. eapply thread_stmt_Inv; [exact IH | exact (Inv1_nonempty _ _ I1) | exact E].
  - (* SOther *) unfold QS; intros; cbn [lp_stmt] in *; match goal with H : (_, _) = (_, _) |- _ => inversion H; subst; apply Inv_refl end.
Qed.

(* ------------------------------------------------------------------ corollaries *)
Theorem lp_expr_keeps_depth o b d ss e : ss <> [] -> length (snd (lp_expr o b d ss e)) = length ss.
Proof.
  intro N. destruct (lp_expr o b d ss e) as [e' ss'] eqn:E. exact (proj1 (proj1 lp_inv e o b d ss e' ss' N E)).
Qed.
Theorem lp_stmt_keeps_depth o b d ss s : ss <> [] -> length (snd (lp_stmt o b d ss s)) = length ss.
Proof.
  intro N. destruct (lp_stmt o b d ss s) as [s' ss'] eqn:E. exact (proj1 (proj2 lp_inv s o b d ss s' ss' N E)).
Qed.
Theorem lp_stmt_keeps_literals o b d ss s : ss <> [] -> lits ss -> lits (snd (lp_stmt o b d ss s)).
Proof.
  intros N L. destruct (lp_stmt o b d ss s) as [s' ss'] eqn:E. exact (proj2 (proj2 lp_inv s o b d ss s' ss' N E) L).
Qed.

Lemma sc_find_lit x s v : Forall lit_entry s -> sc_find x s = Some (Some v) -> is_simple_constant v = true.
Proof.
  induction 1 as [|[y w] r Hy Hr IH]; cbn [sc_find]; [discriminate|].
  destruct (String.eqb x y); [|exact IH]. intro H. inversion H; subst. exact Hy.
Qed.

Lemma ss_get_lit x ss k : lits ss -> ss_get x ss = Some k -> is_simple_constant k = true.
Proof.
  induction 1 as [|s r Hs Hr IH]; cbn [ss_get]; [discriminate|].
  destruct (sc_find x s) as [v|] eqn:F; [|exact IH].
  intro H. subst v. exact (sc_find_lit x s k Hs F).
Qed.

Lemma lits_removelast ss : lits ss -> lits (removelast ss).
Proof.
  induction 1 as [|s r Hs Hr IH]; cbn [removelast]; [constructor|].
  destruct r; [constructor | constructor; assumption].
Qed.

(* whatever the pass substitutes for a variable is a literal *)
Theorem substituted_value_is_literal open d ss x k :
  lits ss -> known open d ss x = Some k -> is_simple_constant k = true.
Proof.
  intros L H. unfold known in H. destruct (open && d).
  - unfold ss_get_above in H. exact (ss_get_lit x _ k (lits_removelast ss L) H).
  - exact (ss_get_lit x ss k L H).
Qed.

(* the walk over the top-level list: every state it reaches records literals only and has depth 1 *)
Lemma lp_top_states o b : forall l ss, length ss = 1%nat -> lits ss ->
  forall k s, nth_error l k = Some s ->
  exists ssk, length ssk = 1%nat /\ lits ssk /\
              nth_error (lp_top o b ss l) k = Some (fst (lp_stmt o b false ssk s)).
Proof.
  induction l as [|a r IH]; intros ss L1 LL k s Hk; [destruct k; discriminate|].
  cbn [lp_top]. destruct (lp_stmt o b false ss a) as [a' s1] eqn:E.
  assert (N : ss <> []) by (destruct ss; [discriminate | discriminate]).
  destruct k as [|k]; cbn [nth_error] in *.
  - inversion Hk; subst. exists ss. rewrite E. auto.
  - apply (IH s1); [| | exact Hk].
    + pose proof (lp_stmt_keeps_depth o b false ss a N) as D. rewrite E in D. cbn [snd] in D. congruence.
    + pose proof (lp_stmt_keeps_literals o b false ss a N LL) as D. rewrite E in D. exact D.
Qed.

Theorem lprop_program_top_level_states open p k s :
  nth_error p k = Some s ->
  exists ssk, length ssk = 1%nat /\ lits ssk /\
              nth_error (lprop_program open p) k = Some (fst (lp_stmt open (binders_block p) false ssk s)).
Proof.
  intro H. unfold lprop_program. apply lp_top_states; [reflexivity | constructor; constructor | exact H].
Qed.

(* the `let` rule, unconditionally: at top level a name that the program binds more than once (or
   a mutable one, or one whose folded initializer is no literal) is never recorded *)
Theorem top_level_rebindable_never_recorded open bs (top : scope) x m e :
  bound_once bs x = false -> ss_get x (snd (lp_stmt open bs false [top] (SLet x m e))) = None.
Proof.
  intro B. destruct (lp_stmt open bs false [top] (SLet x m e)) as [s' ss'] eqn:E. cbn [snd].
  apply (rebindable_global_not_recorded open bs false top x m e s' ss' E); [|exact B].
  apply lp_expr_keeps_depth. discriminate.
Qed.

(* ------------------------------------------------------------------ the pure fragment *)
From Aelys Require Import Model.Eval Model.PureEval Proofs.GlobalPropProofs.

(* on expressions that neither call nor assign, the walk IS the substitution kernel and leaves the
   scope stack alone ... *)
Lemma lp_expr_pure o b d ss e : pure e = true ->
  lp_expr o b d ss e = (subst_consts (known o d ss) e, ss).
Proof.
  induction e; cbn [pure]; intro H; try discriminate; cbn [lp_expr subst_consts]; try reflexivity.
  - apply andb_true_iff in H as [H1 H2]. rewrite (IHe1 H1), (IHe2 H2). reflexivity.
  - rewrite (IHe H). reflexivity.
  - apply andb_true_iff in H as [H1 H2]. rewrite (IHe1 H1), (IHe2 H2). reflexivity.
  - apply andb_true_iff in H as [H1 H2]. rewrite (IHe1 H1), (IHe2 H2). reflexivity.
  - apply andb_true_iff in H as [H12 H3]. apply andb_true_iff in H12 as [H1 H2].
    rewrite (IHe1 H1), (IHe2 H2), (IHe3 H3). reflexivity.
Qed.

(* ... so it preserves meaning wherever every recorded constant is the value its variable holds *)
Theorem lp_expr_preserves_pure o b d ss rho e :
  pure e = true ->
  (forall x k, known o d ss x = Some k -> exists v, peval rho k = ROk v /\ rho x = Some v) ->
  peval rho (fst (lp_expr o b d ss e)) = peval rho e /\ snd (lp_expr o b d ss e) = ss.
Proof.
  intros Hp A. rewrite lp_expr_pure by exact Hp. cbn [fst snd]. split; [|reflexivity].
  apply subst_agree_preserves. exact A.
Qed.
