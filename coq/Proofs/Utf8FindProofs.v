(* find returns a byte offset that is always a character boundary: the offset of the k-th item
   for the k at which the needle's characters occur. *)
From Aelys Require Import Base.Tactics Model.Utf8 Model.Utf8Find Proofs.Utf8Proofs.
Local Open Scope N_scope.

Lemma is_prefix_iff n : forall s, is_prefix n s = true <-> exists t, s = n ++ t.
Proof.
  induction n as [|x n IH]; intro s.
  - cbn [is_prefix]. split; [intros _; exists s; reflexivity|reflexivity].
  - destruct s as [|y s]; cbn [is_prefix].
    + split; [discriminate|intros [t H]; discriminate].
    + rewrite andb_true_iff, N.eqb_eq, IH. split.
      * intros [-> [t ->]]. exists t. reflexivity.
      * intros [t H]. cbn [app] in H. injection H as -> ->. split; [reflexivity|exists t; reflexivity].
Qed.

Lemma find_go_spec n : forall s off p, find_go n s off = Some p ->
  exists q, p = (off + q)%nat /\ (q <= length s)%nat /\ is_prefix n (skipn q s) = true.
Proof.
  induction s as [|y s IH]; intros off p H; cbn [find_go] in H.
  - destruct (is_prefix n []) eqn:E; [|discriminate]. injection H as <-.
    exists O. split; [lia|]. split; [cbn; lia|exact E].
  - destruct (is_prefix n (y :: s)) eqn:E.
    + injection H as <-. exists O. split; [lia|]. split; [cbn; lia|exact E].
    + destruct (IH (S off) p H) as [q [Hp [Hq Hpre]]].
      exists (S q). split; [lia|]. split; [cbn [length]; lia|exact Hpre].
Qed.

(* a position is a character boundary when it is the end or holds a non-continuation byte *)
Lemma boundary_lemma : forall cs q, all_valid cs -> (q <= length (utf8 cs))%nat ->
  (q = length (utf8 cs) \/ is_cont (nth q (utf8 cs) 0) = false) ->
  exists k, (k <= length cs)%nat /\ q = length (utf8 (firstn k cs)) /\ skipn q (utf8 cs) = utf8 (skipn k cs).
Proof.
  induction cs as [|c r IH]; intros q V Hq Hb.
  - cbn in Hq. assert (q = O) as -> by lia. exists O. repeat split; cbn; lia.
  - inversion V as [|? ? Vc Vr]; subst.
    rewrite utf8_cons in *. rewrite app_length, encode_length in Hq.
    pose proof (len_utf8_pos c) as Lp.
    destruct (Nat.eq_dec q 0) as [->|Hq0].
    { exists O. repeat split; cbn [firstn skipn length]; lia. }
    destruct (Nat.lt_ge_cases q (len_utf8 c)) as [Hlt|Hge].
    + (* strictly inside the encoding of c: a continuation byte, and not the end *)
      exfalso. destruct Hb as [Hb|Hb].
      * rewrite app_length, encode_length in Hb. lia.
      * rewrite app_nth1 in Hb by (rewrite encode_length; exact Hlt).
        destruct (encode_bytes c (valid_scalar_bound c Vc)) as [_ T].
        destruct (encode c) as [|x tl] eqn:E; [exact T|]. destruct T as [_ Tl].
        destruct q as [|q']; [lia|]. cbn [nth] in Hb.
        assert (Lq : (q' < length tl)%nat).
        { pose proof (encode_length c) as EL. rewrite E in EL. cbn [length] in EL. lia. }
        rewrite Forall_forall in Tl. specialize (Tl (nth q' tl 0) (nth_In tl 0 Lq)). congruence.
    + assert (Hq' : (q - len_utf8 c <= length (utf8 r))%nat) by lia.
      assert (Hb' : (q - len_utf8 c)%nat = length (utf8 r) \/ is_cont (nth (q - len_utf8 c) (utf8 r) 0) = false).
      { destruct Hb as [Hb|Hb].
        - left. rewrite app_length, encode_length in Hb. lia.
        - right. rewrite app_nth2 in Hb by (rewrite encode_length; exact Hge).
          rewrite encode_length in Hb. exact Hb. }
      destruct (IH (q - len_utf8 c)%nat Vr Hq' Hb') as [k [Hk [Hlen Hskip]]].
      exists (S k). split; [cbn [length]; lia|]. split.
      * cbn [firstn]. rewrite utf8_cons, app_length, encode_length. lia.
      * cbn [skipn]. rewrite skipn_app, encode_length.
        rewrite skipn_all2 by (rewrite encode_length; exact Hge). cbn [app]. exact Hskip.
Qed.

(* the needle's encoding at the head of an encoding: the needle's characters at the head *)
Lemma prefix_chars_lemma : forall ns cs, all_valid ns -> all_valid cs ->
  is_prefix (utf8 ns) (utf8 cs) = true -> firstn (length ns) cs = ns.
Proof.
  induction ns as [|n0 nr IH]; intros cs Vn Vc H; [reflexivity|].
  inversion Vn as [|? ? Vn0 Vnr]; subst.
  apply is_prefix_iff in H as [t Ht].
  destruct cs as [|c0 cr].
  - exfalso. rewrite utf8_cons in Ht. pose proof (len_utf8_pos n0) as Lp.
    apply (f_equal (@length N)) in Ht. rewrite !app_length, encode_length in Ht. cbn in Ht. lia.
  - inversion Vc as [|? ? Vc0 Vcr]; subst.
    rewrite !utf8_cons in Ht.
    pose proof (decode_encode_gen c0 (utf8 cr) (valid_scalar_bound c0 Vc0)) as D1.
    rewrite Ht, <- app_assoc in D1.
    rewrite (decode_encode_gen n0 (utf8 nr ++ t) (valid_scalar_bound n0 Vn0)) in D1.
    injection D1 as E _. subst c0.
    rewrite <- app_assoc in Ht. apply app_inv_head in Ht.
    cbn [length firstn]. f_equal. apply IH; [exact Vnr|exact Vcr|].
    apply is_prefix_iff. exists t. exact Ht.
Qed.

Lemma utf8_nonempty_head c r : valid_scalar c = true ->
  exists x tl, utf8 (c :: r) = x :: tl /\ is_cont x = false.
Proof.
  intro V. rewrite utf8_cons. destruct (encode_bytes c (valid_scalar_bound c V)) as [_ T].
  destruct (encode c) as [|x tl]; [contradiction|]. destruct T as [Hx _].
  exists x, (tl ++ utf8 r). split; [reflexivity|exact Hx].
Qed.

Lemma find_boundary_lemma cs ns p : all_valid cs -> all_valid ns -> ns <> [] ->
  find_go (utf8 ns) (utf8 cs) 0 = Some p ->
  exists k, (k + length ns <= length cs)%nat
            /\ p = byte_len (utf8 (firstn k cs))
            /\ firstn (length ns) (skipn k cs) = ns.
Proof.
  intros Vc Vn Hne H.
  destruct (find_go_spec _ _ _ _ H) as [q [Hp [Hq Hpre]]]. cbn in Hp. subst p.
  destruct ns as [|n0 nr]; [congruence|]. inversion Vn as [|? ? Vn0 Vnr]; subst.
  destruct (utf8_nonempty_head n0 nr Vn0) as [x [tl [Hx Hc]]].
  (* the byte at q is the needle's first byte: not a continuation byte *)
  assert (Hb : q = length (utf8 cs) \/ is_cont (nth q (utf8 cs) 0) = false).
  { right. rewrite Hx in Hpre.
    destruct (skipn q (utf8 cs)) as [|y s'] eqn:S; [discriminate|].
    cbn [is_prefix] in Hpre. apply andb_true_iff in Hpre as [Hxy _]. apply N.eqb_eq in Hxy. subst y.
    assert (E : nth q (utf8 cs) 0 = x).
    { rewrite <- (firstn_skipn q (utf8 cs)) at 1. rewrite S.
      rewrite app_nth2 by (rewrite firstn_length; lia).
      rewrite firstn_length, Nat.min_l by lia. rewrite Nat.sub_diag. reflexivity. }
    rewrite E. exact Hc. }
  destruct (boundary_lemma cs q Vc Hq Hb) as [k [Hk [Hlen Hskip]]].
  rewrite Hskip in Hpre.
  assert (Vs : all_valid (skipn k cs)).
  { unfold all_valid in *. rewrite <- (firstn_skipn k cs) in Vc. apply Forall_app in Vc. apply Vc. }
  pose proof (prefix_chars_lemma (n0 :: nr) (skipn k cs) Vn Vs Hpre) as P.
  exists k. split; [|split; [exact Hlen|exact P]].
  apply (f_equal (@length N)) in P. rewrite firstn_length, skipn_length in P. lia.
Qed.
