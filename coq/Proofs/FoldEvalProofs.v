(* The constant folder preserves the FULL evaluator on every program that creates no function
   values (no lambda, no fn declaration) and uses member access only as a method-call callee:
   same final state (store, objects, globals, output) and same result or error, for every
   fuel with which the original program produces an answer. *)
From Coq Require Import String.
From Aelys Require Import Base.Tactics Model.Lang Model.Eval Extracted.OptConsts Model.Opt.Fold
  Model.PureEval Proofs.EvalProofs Proofs.FoldProofs Proofs.PureProofs Proofs.EvalMono.
Local Open Scope Z_scope.

Fixpoint nofun_e (e : expr) : bool :=
  match e with
  | EInt _ | EFlt _ | EBool _ | EStr _ | ENull | EVar _ | EOther _ => true
  | EBin _ a b | EAnd a b | EOr a b | EIdx a b => nofun_e a && nofun_e b
  | EUn _ a | EAssign _ a | EArrSized a => nofun_e a
  | EIf c a b | EIdxSet c a b => nofun_e c && nofun_e a && nofun_e b
  | ECall (EMember o _) args => nofun_e o && forallb nofun_e args
  | ECall f args => nofun_e f && forallb nofun_e args
  | EFmt parts => forallb (fun p => match p with PExpr a => nofun_e a | _ => true end) parts
  | EArr es | EVec es => forallb nofun_e es
  | ELam _ _ => false
  | EMember _ _ => false
  end.

Fixpoint nofun_s (s : stmt) : bool :=
  match s with
  | SExpr e | SLet _ _ e => nofun_e e
  | SBlock b => forallb nofun_s b
  | SIf c t e => nofun_e c && nofun_s t && match e with Some x => nofun_s x | None => true end
  | SWhile c b => nofun_e c && nofun_s b
  | SFor _ lo hi _ step b => nofun_e lo && nofun_e hi && match step with Some x => nofun_e x | None => true end && nofun_s b
  | SForEach _ e b => nofun_e e && nofun_s b
  | SRet (Some e) => nofun_e e
  | SRet None | SBreak | SCont | SOther _ => true
  | SFun _ _ _ _ => false
  end.

Definition fold_part (p : fpart) : fpart := match p with PExpr a => PExpr (fold_expr a) | q => q end.

Lemma fold_expr_fmt parts : fold_expr (EFmt parts) = EFmt (map fold_part parts).
Proof. reflexivity. Qed.

(* a function-free expression is not a bare member access, before or after folding *)
Lemma nofun_fold_not_member (e : expr) : nofun_e e = true -> forall o' m', fold_expr e <> EMember o' m'.
Proof.
  induction e; cbn [nofun_e fold_expr]; intros NF o' m'; try discriminate.
  - destruct (fold_binary_node op (fold_expr e1) (fold_expr e2)) eqn:F; [|discriminate].
    apply fold_binary_node_lit in F. destruct e; discriminate.
  - destruct (fold_unary_node op (fold_expr e)) eqn:F; [|discriminate].
    apply fold_unary_node_lit in F. destruct e0; discriminate.
  - apply andb_true_iff in NF as [N1 N2].
    unfold fold_and_node. destruct (fold_expr e1); try discriminate.
    destruct b; [apply IHe2; exact N2 | discriminate].
  - apply andb_true_iff in NF as [N1 N2].
    unfold fold_or_node. destruct (fold_expr e1); try discriminate.
    destruct b; [discriminate | apply IHe2; exact N2].
Qed.

(* ------------------------------------------------------------------ literals *)
Lemma lit_eval e v : lit_value e = Some v -> forall f d env st, eval_expr (S f) d env st e = (st, ROk v).
Proof. destruct e; cbn [lit_value]; intro H; try discriminate; injection H as <-; reflexivity. Qed.

Lemma fold_binary_node_values op l r e :
  fold_binary_node op l r = Some e ->
  exists vl vr v, lit_value l = Some vl /\ lit_value r = Some vr /\ lit_value e = Some v /\ eval_binop op vl vr = ROk v.
Proof.
  unfold fold_binary_node. destruct l; try discriminate; destruct r; try discriminate; intro H.
  - destruct (fold_int_binary_sound op n n0 e H) as (v & Hl & He & Ra & Rb).
    exists (VInt (wrap48 n)), (VInt (wrap48 n0)), v. cbn [lit_value].
    rewrite (in_vm_range_wrap n Ra), (in_vm_range_wrap n0 Rb). repeat split; try reflexivity; assumption.
  - destruct (fold_bool_comparison_sound op b b0 e H) as (v & Hl & He).
    exists (VBool b), (VBool b0), v. repeat split; try reflexivity; assumption.
  - destruct op; try discriminate.
    destruct (fold_string_concat_sound s s0 e H) as (v & Hl & He).
    exists (VStr s), (VStr s0), v. repeat split; try reflexivity; assumption.
Qed.

Lemma fold_unary_node_values op a e :
  fold_unary_node op a = Some e ->
  exists va v, lit_value a = Some va /\ lit_value e = Some v /\ eval_unop op va = ROk v.
Proof.
  intro H. destruct a; try (destruct op; discriminate).
  - destruct (fold_unary_sound op n e H) as (v & Hl & He).
    exists (VInt (wrap48 n)), v. repeat split; try reflexivity; assumption.
  - destruct op; try discriminate. cbn in H. injection H as <-.
    exists (VBool b), (VBool (negb b)). repeat split; reflexivity.
Qed.

(* ------------------------------------------------------------------ the simulation *)
Record foldok (f : nat) : Prop := {
  fo_expr : forall d env st e st' r, eval_expr f d env st e = (st', r) -> nf r -> nofun_e e = true ->
            eval_expr f d env st (fold_expr e) = (st', r);
  fo_args : forall d env st es st' r, eval_args f d env st es = (st', r) -> nf r -> forallb nofun_e es = true ->
            eval_args f d env st (map fold_expr es) = (st', r);
  fo_fmt : forall d env st ps st' r, eval_fmt f d env st ps = (st', r) -> nf r ->
            forallb (fun p => match p with PExpr a => nofun_e a | _ => true end) ps = true ->
            eval_fmt f d env st (map fold_part ps) = (st', r);
  fo_stmt : forall d top env st s st' r, exec_stmt f d top env st s = (st', r) -> nf r -> nofun_s s = true ->
            exec_stmt f d top env st (fold_stmt s) = (st', r);
  fo_stmts : forall d top mode env st ss st' r, exec_stmts f d top mode env st ss = (st', r) -> nf r -> forallb nofun_s ss = true ->
            exec_stmts f d top mode env st (map fold_stmt ss) = (st', r);
  fo_branch : forall d env st s st' r, exec_branch f d env st s = (st', r) -> nf r -> nofun_s s = true ->
            exec_branch f d env st (fold_stmt s) = (st', r);
  fo_while : forall d env st c b st' r, exec_while f d env st c b = (st', r) -> nf r -> nofun_e c = true -> nofun_s b = true ->
            exec_while f d env st (fold_expr c) (fold_stmt b) = (st', r);
  fo_for : forall d env st x i hi incl step b st' r, exec_for f d env st x i hi incl step b = (st', r) -> nf r -> nofun_s b = true ->
            exec_for f d env st x i hi incl step (fold_stmt b) = (st', r);
  fo_foreach : forall d env st x items b st' r, exec_foreach f d env st x items b = (st', r) -> nf r -> nofun_s b = true ->
            exec_foreach f d env st x items (fold_stmt b) = (st', r)
}.

Lemma foldok_O : foldok O.
Proof.
  constructor; intros;
    match goal with H : _ = (_, ?r), N : nf ?r |- _ => cbn in H; inversion H; subst; exfalso; apply N; reflexivity end.
Qed.

(* split the function-freeness hypothesis into its conjuncts *)
Ltac nfsplit :=
  repeat match goal with
         | H : _ && _ = true |- _ => apply andb_true_iff in H; destruct H
         | H : forallb _ (_ :: _) = true |- _ => cbn [forallb] in H
         end.

Ltac nfs := solve [ assumption | cbn [nofun_s nofun_e forallb]; rewrite ?andb_true_iff; repeat split; first [assumption | reflexivity] ].

Ltac rw L := let P := fresh "P" in pose proof L as P; cbn [fold_stmt option_map map] in P; rewrite P; clear P.

Ltac fsub IH H N :=
  lazymatch type of H with
  | context [eval_expr ?f ?a0 ?a1 ?a2 ?a3] =>
      let E := fresh "E" in let s1 := fresh "st" in let r1 := fresh "r" in
      destruct (eval_expr f a0 a1 a2 a3) as [s1 r1] eqn:E; destruct r1;
      [ rw (fo_expr _ IH _ _ _ _ _ _ E (nf_ok _) ltac:(nfs)); clear E
      | cbn beta iota zeta in H; inversion H; subst;
        rw (fo_expr _ IH _ _ _ _ _ _ E (nf_err _) ltac:(nfs)); reflexivity
      | cbn beta iota zeta in H; inversion H; subst; exfalso; apply N; reflexivity ]
  | context [eval_args ?f ?a0 ?a1 ?a2 ?a3] =>
      let E := fresh "E" in let s1 := fresh "st" in let r1 := fresh "r" in
      destruct (eval_args f a0 a1 a2 a3) as [s1 r1] eqn:E; destruct r1;
      [ rw (fo_args _ IH _ _ _ _ _ _ E (nf_ok _) ltac:(nfs)); clear E
      | cbn beta iota zeta in H; inversion H; subst;
        rw (fo_args _ IH _ _ _ _ _ _ E (nf_err _) ltac:(nfs)); reflexivity
      | cbn beta iota zeta in H; inversion H; subst; exfalso; apply N; reflexivity ]
  | context [eval_fmt ?f ?a0 ?a1 ?a2 ?a3] =>
      let E := fresh "E" in let s1 := fresh "st" in let r1 := fresh "r" in
      destruct (eval_fmt f a0 a1 a2 a3) as [s1 r1] eqn:E; destruct r1;
      [ rw (fo_fmt _ IH _ _ _ _ _ _ E (nf_ok _) ltac:(nfs)); clear E
      | cbn beta iota zeta in H; inversion H; subst;
        rw (fo_fmt _ IH _ _ _ _ _ _ E (nf_err _) ltac:(nfs)); reflexivity
      | cbn beta iota zeta in H; inversion H; subst; exfalso; apply N; reflexivity ]
  | context [apply_fun ?f ?a0 ?a1 ?a2 ?a3] =>
      let s1 := fresh "st" in let r1 := fresh "r" in
      destruct (apply_fun f a0 a1 a2 a3) as [s1 r1]; destruct r1
  | context [exec_stmt ?f ?a0 ?a1 ?a2 ?a3 ?a4] =>
      let E := fresh "E" in let s1 := fresh "st" in let r1 := fresh "r" in
      destruct (exec_stmt f a0 a1 a2 a3 a4) as [s1 r1] eqn:E; destruct r1;
      [ rw (fo_stmt _ IH _ _ _ _ _ _ _ E (nf_ok _) ltac:(nfs)); clear E
      | cbn beta iota zeta in H; inversion H; subst;
        rw (fo_stmt _ IH _ _ _ _ _ _ _ E (nf_err _) ltac:(nfs)); reflexivity
      | cbn beta iota zeta in H; inversion H; subst; exfalso; apply N; reflexivity ]
  | context [exec_stmts ?f ?a0 ?a1 ?a2 ?a3 ?a4 ?a5] =>
      let E := fresh "E" in let s1 := fresh "st" in let r1 := fresh "r" in
      destruct (exec_stmts f a0 a1 a2 a3 a4 a5) as [s1 r1] eqn:E; destruct r1;
      [ rw (fo_stmts _ IH _ _ _ _ _ _ _ _ E (nf_ok _) ltac:(nfs)); clear E
      | cbn beta iota zeta in H; inversion H; subst;
        rw (fo_stmts _ IH _ _ _ _ _ _ _ _ E (nf_err _) ltac:(nfs)); reflexivity
      | cbn beta iota zeta in H; inversion H; subst; exfalso; apply N; reflexivity ]
  | context [exec_branch ?f ?a0 ?a1 ?a2 ?a3] =>
      let E := fresh "E" in let s1 := fresh "st" in let r1 := fresh "r" in
      destruct (exec_branch f a0 a1 a2 a3) as [s1 r1] eqn:E; destruct r1;
      [ rw (fo_branch _ IH _ _ _ _ _ _ E (nf_ok _) ltac:(nfs)); clear E
      | cbn beta iota zeta in H; inversion H; subst;
        rw (fo_branch _ IH _ _ _ _ _ _ E (nf_err _) ltac:(nfs)); reflexivity
      | cbn beta iota zeta in H; inversion H; subst; exfalso; apply N; reflexivity ]
  | context [exec_while ?f ?a0 ?a1 ?a2 ?a3 ?a4] =>
      let E := fresh "E" in let s1 := fresh "st" in let r1 := fresh "r" in
      destruct (exec_while f a0 a1 a2 a3 a4) as [s1 r1] eqn:E; destruct r1;
      [ rw (fo_while _ IH _ _ _ _ _ _ _ E (nf_ok _) ltac:(nfs) ltac:(nfs)); clear E
      | cbn beta iota zeta in H; inversion H; subst;
        rw (fo_while _ IH _ _ _ _ _ _ _ E (nf_err _) ltac:(nfs) ltac:(nfs)); reflexivity
      | cbn beta iota zeta in H; inversion H; subst; exfalso; apply N; reflexivity ]
  | context [exec_for ?f ?a0 ?a1 ?a2 ?a3 ?a4 ?a5 ?a6 ?a7 ?a8] =>
      let E := fresh "E" in let s1 := fresh "st" in let r1 := fresh "r" in
      destruct (exec_for f a0 a1 a2 a3 a4 a5 a6 a7 a8) as [s1 r1] eqn:E; destruct r1;
      [ rw (fo_for _ IH _ _ _ _ _ _ _ _ _ _ _ E (nf_ok _) ltac:(nfs)); clear E
      | cbn beta iota zeta in H; inversion H; subst;
        rw (fo_for _ IH _ _ _ _ _ _ _ _ _ _ _ E (nf_err _) ltac:(nfs)); reflexivity
      | cbn beta iota zeta in H; inversion H; subst; exfalso; apply N; reflexivity ]
  | context [exec_foreach ?f ?a0 ?a1 ?a2 ?a3 ?a4 ?a5] =>
      let E := fresh "E" in let s1 := fresh "st" in let r1 := fresh "r" in
      destruct (exec_foreach f a0 a1 a2 a3 a4 a5) as [s1 r1] eqn:E; destruct r1;
      [ rw (fo_foreach _ IH _ _ _ _ _ _ _ _ E (nf_ok _) ltac:(nfs)); clear E
      | cbn beta iota zeta in H; inversion H; subst;
        rw (fo_foreach _ IH _ _ _ _ _ _ _ _ E (nf_err _) ltac:(nfs)); reflexivity
      | cbn beta iota zeta in H; inversion H; subst; exfalso; apply N; reflexivity ]
  end; cbn beta iota zeta in H |- *.

Ltac fsplit H :=
  lazymatch type of H with
  | context [if ?c then _ else _] => destruct c eqn:?
  | context [let (_, _) := alloc_cell ?s ?v in _] => destruct (alloc_cell s v) eqn:?
  | context [let (_, _) := alloc_obj ?s ?v in _] => destruct (alloc_obj s v) eqn:?
  | context [let (_, _) := bind_params ?a ?b ?c ?d in _] => destruct (bind_params a b c d) eqn:?
  | context [match ?x with _ => _ end] => is_var x; destruct x
  end; cbn [option_map map forallb] in *; cbn beta iota zeta in *; nfsplit.

Ltac ifsplit H :=
  lazymatch type of H with
  | context [if ?c then _ else _] => destruct c eqn:?
  end; cbn beta iota zeta in *.

Ltac fgo IH H N := rewrite ?declares_fold; repeat (first [ fin H | ifsplit H | fsub IH H N | fsplit H ]; rewrite ?declares_fold).

(* statements first: their folded form is the same constructor *)
Lemma fo_stmt_S f (IH : foldok f) : forall d top env st s st' r,
  exec_stmt (S f) d top env st s = (st', r) -> nf r -> nofun_s s = true ->
  exec_stmt (S f) d top env st (fold_stmt s) = (st', r).
Proof.
  intros d top env st s st' r H N NF.
  destruct s; cbn [nofun_s] in NF; try discriminate; cbn [fold_stmt option_map];
    rewrite exec_stmt_S in H; rewrite exec_stmt_S; nfsplit; cbn beta iota zeta in H |- *.
  all: try solve [fgo IH H N].
Qed.

Lemma fo_args_S f (IH : foldok f) : forall d env st es st' r,
  eval_args (S f) d env st es = (st', r) -> nf r -> forallb nofun_e es = true ->
  eval_args (S f) d env st (map fold_expr es) = (st', r).
Proof.
  intros d env st es st' r H N NF. destruct es; cbn [map forallb] in *;
    rewrite eval_args_S in H; rewrite eval_args_S; nfsplit; cbn beta iota zeta in H |- *; fgo IH H N.
Qed.

Lemma fo_fmt_S f (IH : foldok f) : forall d env st ps st' r,
  eval_fmt (S f) d env st ps = (st', r) -> nf r ->
  forallb (fun p => match p with PExpr a => nofun_e a | _ => true end) ps = true ->
  eval_fmt (S f) d env st (map fold_part ps) = (st', r).
Proof.
  intros d env st ps st' r H N NF. destruct ps as [|p ps]; cbn [map forallb] in *;
    [exact H|]. destruct p; cbn [fold_part] in *;
    rewrite eval_fmt_S in H; rewrite eval_fmt_S; nfsplit; cbn beta iota zeta in H |- *; fgo IH H N.
Qed.

Lemma fo_stmts_S f (IH : foldok f) : forall d top mode env st ss st' r,
  exec_stmts (S f) d top mode env st ss = (st', r) -> nf r -> forallb nofun_s ss = true ->
  exec_stmts (S f) d top mode env st (map fold_stmt ss) = (st', r).
Proof.
  intros d top mode env st ss st' r H N NF.
  destruct ss as [|s ss]; cbn [map forallb] in *; [exact H|].
  destruct ss as [|s2 ss]; cbn [map forallb] in *.
  - (* single statement: the tail rules look at its shape *)
    rewrite exec_stmts_S in H; rewrite exec_stmts_S. nfsplit.
    destruct mode as [|mode]; cbn beta iota zeta in H |- *.
    + fgo IH H N.
    + destruct s; cbn [nofun_s] in *; try discriminate; cbn [fold_stmt option_map] in *; nfsplit;
        cbn beta iota zeta in H |- *; fgo IH H N.
  - rewrite exec_stmts_S in H; rewrite exec_stmts_S. nfsplit. cbn beta iota zeta in H |- *. fgo IH H N.
Qed.

Lemma fo_branch_S f (IH : foldok f) : forall d env st s st' r,
  exec_branch (S f) d env st s = (st', r) -> nf r -> nofun_s s = true ->
  exec_branch (S f) d env st (fold_stmt s) = (st', r).
Proof.
  intros d env st s st' r H N NF.
  destruct s; cbn [nofun_s] in NF; try discriminate; cbn [fold_stmt option_map];
    rewrite exec_branch_S in H; rewrite exec_branch_S; nfsplit; cbn beta iota zeta in H |- *; fgo IH H N.
Qed.

Lemma fo_while_S f (IH : foldok f) : forall d env st c b st' r,
  exec_while (S f) d env st c b = (st', r) -> nf r -> nofun_e c = true -> nofun_s b = true ->
  exec_while (S f) d env st (fold_expr c) (fold_stmt b) = (st', r).
Proof.
  intros d env st c b st' r H N NF1 NF2.
  rewrite exec_while_S in H; rewrite exec_while_S; cbn beta iota zeta in H |- *; fgo IH H N.
Qed.

Lemma fo_for_S f (IH : foldok f) : forall d env st x i hi incl step b st' r,
  exec_for (S f) d env st x i hi incl step b = (st', r) -> nf r -> nofun_s b = true ->
  exec_for (S f) d env st x i hi incl step (fold_stmt b) = (st', r).
Proof.
  intros d env st x i hi incl step b st' r H N NF.
  rewrite exec_for_S in H; rewrite exec_for_S; cbn beta iota zeta in H |- *; fgo IH H N.
Qed.

Lemma fo_foreach_S f (IH : foldok f) : forall d env st x items b st' r,
  exec_foreach (S f) d env st x items b = (st', r) -> nf r -> nofun_s b = true ->
  exec_foreach (S f) d env st x items (fold_stmt b) = (st', r).
Proof.
  intros d env st x items b st' r H N NF.
  rewrite exec_foreach_S in H; rewrite exec_foreach_S; cbn beta iota zeta in H |- *; fgo IH H N.
Qed.

(* ------------------------------------------------------------------ expressions *)
Lemma eval_call_general f d env st fe args :
  (forall o m, fe <> EMember o m) ->
  eval_expr (S f) d env st (ECall fe args) =
  match eval_expr f d env st fe with
  | (st1, ROk vf) =>
      match eval_args f d env st1 args with
      | (st2, ROk vs) => apply_fun f d st2 vf vs
      | (st2, RErr k) => (st2, RErr k)
      | (st2, RFuel) => (st2, RFuel)
      end
  | r => r
  end.
Proof.
  intro NM. rewrite eval_expr_S. destruct fe; try reflexivity. exfalso. eapply NM. reflexivity.
Qed.

Lemma nofun_call_general fe args :
  (forall o m, fe <> EMember o m) -> nofun_e (ECall fe args) = nofun_e fe && forallb nofun_e args.
Proof. intro NM. destruct fe; try reflexivity. exfalso. eapply NM. reflexivity. Qed.

(* a literal evaluates to its value with any positive fuel, leaving the state alone; so when
   the original evaluated an operand that folds to a literal, we know what it got *)
Lemma lit_eval_inv f (IH : foldok f) d env st a st1 r1 va :
  eval_expr f d env st a = (st1, r1) -> nf r1 -> nofun_e a = true ->
  lit_value (fold_expr a) = Some va -> st1 = st /\ r1 = ROk va.
Proof.
  intros E N NF L.
  pose proof (fo_expr _ IH _ _ _ _ _ _ E N NF) as P.
  destruct f as [|f0]; [cbn in E; inversion E; subst; exfalso; apply N; reflexivity|].
  rewrite (lit_eval _ _ L) in P. inversion P. split; reflexivity.
Qed.

Lemma fo_expr_S f (IH : foldok f) : forall d env st e st' r,
  eval_expr (S f) d env st e = (st', r) -> nf r -> nofun_e e = true ->
  eval_expr (S f) d env st (fold_expr e) = (st', r).
Proof.
  intros d env st e st' r H N NF.
  destruct e; cbn [fold_expr]; try exact H.
  - (* EBin *)
    cbn [nofun_e] in NF. nfsplit.
    destruct (fold_binary_node op (fold_expr e1) (fold_expr e2)) as [lit|] eqn:F.
    + destruct (fold_binary_node_values _ _ _ _ F) as (vl & vr & v & L1 & L2 & L3 & EV).
      rewrite eval_expr_S in H. cbn beta iota zeta in H.
      destruct (eval_expr f d env st e1) as [s1 r1] eqn:E1. destruct r1 as [va|k|].
      * destruct (lit_eval_inv f IH _ _ _ _ _ _ _ E1 (nf_ok _) ltac:(assumption) L1) as [-> Ea]. injection Ea as ->.
        cbn beta iota zeta in H.
        destruct (eval_expr f d env st e2) as [s2 r2] eqn:E2. destruct r2 as [vb|k|].
        -- destruct (lit_eval_inv f IH _ _ _ _ _ _ _ E2 (nf_ok _) ltac:(assumption) L2) as [-> Eb]. injection Eb as ->.
           cbn beta iota zeta in H. rewrite EV in H. rewrite (lit_eval _ _ L3). exact H.
        -- destruct (lit_eval_inv f IH _ _ _ _ _ _ _ E2 (nf_err _) ltac:(assumption) L2) as [_ Eb]. discriminate.
        -- cbn beta iota zeta in H. inversion H; subst. exfalso; apply N; reflexivity.
      * destruct (lit_eval_inv f IH _ _ _ _ _ _ _ E1 (nf_err _) ltac:(assumption) L1) as [_ Ea]. discriminate.
      * cbn beta iota zeta in H. inversion H; subst. exfalso; apply N; reflexivity.
    + rewrite eval_expr_S in H; rewrite eval_expr_S; cbn beta iota zeta in H |- *; fgo IH H N.
  - (* EUn *)
    cbn [nofun_e] in NF.
    destruct (fold_unary_node op (fold_expr e)) as [lit|] eqn:F.
    + destruct (fold_unary_node_values _ _ _ F) as (va & v & L1 & L3 & EV).
      rewrite eval_expr_S in H. cbn beta iota zeta in H.
      destruct (eval_expr f d env st e) as [s1 r1] eqn:E1. destruct r1 as [va'|k|].
      * destruct (lit_eval_inv f IH _ _ _ _ _ _ _ E1 (nf_ok _) NF L1) as [-> Ea]. injection Ea as ->.
        cbn beta iota zeta in H. rewrite EV in H. rewrite (lit_eval _ _ L3). exact H.
      * destruct (lit_eval_inv f IH _ _ _ _ _ _ _ E1 (nf_err _) NF L1) as [_ Ea]. discriminate.
      * cbn beta iota zeta in H. inversion H; subst. exfalso; apply N; reflexivity.
    + rewrite eval_expr_S in H; rewrite eval_expr_S; cbn beta iota zeta in H |- *; fgo IH H N.
  - (* EAnd *)
    cbn [nofun_e] in NF. nfsplit.
    destruct (fold_and_node_cases (fold_expr e1) (fold_expr e2)) as [F|[[EL F]|[EL F]]]; rewrite F.
    + rewrite eval_expr_S in H; rewrite eval_expr_S; cbn beta iota zeta in H |- *; fgo IH H N.
    + (* false and X = false *)
      rewrite eval_expr_S in H. cbn beta iota zeta in H.
      destruct (eval_expr f d env st e1) as [s1 r1] eqn:E1. destruct r1 as [va|k|].
      * assert (L1 : lit_value (fold_expr e1) = Some (VBool false)) by (rewrite EL; reflexivity).
        destruct (lit_eval_inv f IH _ _ _ _ _ _ _ E1 (nf_ok _) ltac:(assumption) L1) as [-> Ea]. injection Ea as ->.
        cbn [truthy] in H. cbn beta iota zeta in H. exact H.
      * assert (L1 : lit_value (fold_expr e1) = Some (VBool false)) by (rewrite EL; reflexivity).
        destruct (lit_eval_inv f IH _ _ _ _ _ _ _ E1 (nf_err _) ltac:(assumption) L1) as [_ Ea]. discriminate.
      * cbn beta iota zeta in H. inversion H; subst. exfalso; apply N; reflexivity.
    + (* true and X = X : the folded operand runs with one more unit of fuel *)
      rewrite eval_expr_S in H. cbn beta iota zeta in H.
      destruct (eval_expr f d env st e1) as [s1 r1] eqn:E1. destruct r1 as [va|k|].
      * assert (L1 : lit_value (fold_expr e1) = Some (VBool true)) by (rewrite EL; reflexivity).
        destruct (lit_eval_inv f IH _ _ _ _ _ _ _ E1 (nf_ok _) ltac:(assumption) L1) as [-> Ea]. injection Ea as ->.
        cbn [truthy] in H. cbn beta iota zeta in H.
        apply (m_expr _ (mono_all f)); [|exact N].
        apply (fo_expr _ IH); assumption.
      * assert (L1 : lit_value (fold_expr e1) = Some (VBool true)) by (rewrite EL; reflexivity).
        destruct (lit_eval_inv f IH _ _ _ _ _ _ _ E1 (nf_err _) ltac:(assumption) L1) as [_ Ea]. discriminate.
      * cbn beta iota zeta in H. inversion H; subst. exfalso; apply N; reflexivity.
  - (* EOr *)
    cbn [nofun_e] in NF. nfsplit.
    destruct (fold_or_node_cases (fold_expr e1) (fold_expr e2)) as [F|[[EL F]|[EL F]]]; rewrite F.
    + rewrite eval_expr_S in H; rewrite eval_expr_S; cbn beta iota zeta in H |- *; fgo IH H N.
    + rewrite eval_expr_S in H. cbn beta iota zeta in H.
      destruct (eval_expr f d env st e1) as [s1 r1] eqn:E1. destruct r1 as [va|k|].
      * assert (L1 : lit_value (fold_expr e1) = Some (VBool true)) by (rewrite EL; reflexivity).
        destruct (lit_eval_inv f IH _ _ _ _ _ _ _ E1 (nf_ok _) ltac:(assumption) L1) as [-> Ea]. injection Ea as ->.
        cbn [truthy] in H. cbn beta iota zeta in H. exact H.
      * assert (L1 : lit_value (fold_expr e1) = Some (VBool true)) by (rewrite EL; reflexivity).
        destruct (lit_eval_inv f IH _ _ _ _ _ _ _ E1 (nf_err _) ltac:(assumption) L1) as [_ Ea]. discriminate.
      * cbn beta iota zeta in H. inversion H; subst. exfalso; apply N; reflexivity.
    + rewrite eval_expr_S in H. cbn beta iota zeta in H.
      destruct (eval_expr f d env st e1) as [s1 r1] eqn:E1. destruct r1 as [va|k|].
      * assert (L1 : lit_value (fold_expr e1) = Some (VBool false)) by (rewrite EL; reflexivity).
        destruct (lit_eval_inv f IH _ _ _ _ _ _ _ E1 (nf_ok _) ltac:(assumption) L1) as [-> Ea]. injection Ea as ->.
        cbn [truthy] in H. cbn beta iota zeta in H.
        apply (m_expr _ (mono_all f)); [|exact N].
        apply (fo_expr _ IH); assumption.
      * assert (L1 : lit_value (fold_expr e1) = Some (VBool false)) by (rewrite EL; reflexivity).
        destruct (lit_eval_inv f IH _ _ _ _ _ _ _ E1 (nf_err _) ltac:(assumption) L1) as [_ Ea]. discriminate.
      * cbn beta iota zeta in H. inversion H; subst. exfalso; apply N; reflexivity.
  - (* ECall *)
    destruct (match e with EMember _ _ => true | _ => false end) eqn:IsM.
    + destruct e; try discriminate. cbn [nofun_e fold_expr] in *. nfsplit.
      rewrite eval_expr_S in H; rewrite eval_expr_S; cbn beta iota zeta in H |- *; fgo IH H N.
    + assert (NM : forall o m, e <> EMember o m) by (intros o m ->; discriminate).
      rewrite (nofun_call_general _ _ NM) in NF. nfsplit.
      rewrite (eval_call_general _ _ _ _ _ _ NM) in H.
      rewrite (eval_call_general _ _ _ _ _ _ (nofun_fold_not_member e ltac:(assumption))).
      cbn beta iota zeta in H |- *. fgo IH H N.
  - (* EAssign *) cbn [nofun_e] in NF. rewrite eval_expr_S in H; rewrite eval_expr_S; cbn beta iota zeta in H |- *; fgo IH H N.
  - (* EIf *) cbn [nofun_e] in NF. nfsplit. rewrite eval_expr_S in H; rewrite eval_expr_S; cbn beta iota zeta in H |- *; fgo IH H N.
  - (* EFmt *) cbn [nofun_e] in NF.
    rewrite eval_expr_S in H; rewrite eval_expr_S; cbn beta iota zeta in H |- *.
    change (eval_fmt f d env st (map _ parts)) with (eval_fmt f d env st (map fold_part parts)).
    fgo IH H N.
  - (* ELam *) cbn [nofun_e] in NF. congruence.
  - (* EArr *) cbn [nofun_e] in NF. rewrite eval_expr_S in H; rewrite eval_expr_S; cbn beta iota zeta in H |- *; fgo IH H N.
  - (* EVec *) cbn [nofun_e] in NF. rewrite eval_expr_S in H; rewrite eval_expr_S; cbn beta iota zeta in H |- *; fgo IH H N.
  - (* EIdx *) cbn [nofun_e] in NF. nfsplit. rewrite eval_expr_S in H; rewrite eval_expr_S; cbn beta iota zeta in H |- *; fgo IH H N.
  - (* EIdxSet *) cbn [nofun_e] in NF. nfsplit. rewrite eval_expr_S in H; rewrite eval_expr_S; cbn beta iota zeta in H |- *; fgo IH H N.
Qed.

Lemma foldok_S f : foldok f -> foldok (S f).
Proof.
  intro IH. constructor.
  - apply fo_expr_S; exact IH.
  - apply fo_args_S; exact IH.
  - apply fo_fmt_S; exact IH.
  - apply fo_stmt_S; exact IH.
  - apply fo_stmts_S; exact IH.
  - apply fo_branch_S; exact IH.
  - apply fo_while_S; exact IH.
  - apply fo_for_S; exact IH.
  - apply fo_foreach_S; exact IH.
Qed.

Theorem foldok_all : forall f, foldok f.
Proof. induction f; [exact foldok_O | apply foldok_S; assumption]. Qed.

(* whole programs: the folded program gives the same outcome (class, everything printed, final
   value) as the original, for every fuel with which the original gives an answer *)
Theorem fold_program_preserves (fuel : nat) (p : program) :
  forallb nofun_s p = true ->
  oc_class (run_program fuel p) <> OcFuel ->
  run_program fuel (fold_program p) = run_program fuel p.
Proof.
  intros NF NFuel. unfold run_program, fold_program in *.
  destruct (exec_stmts fuel 0 true 2 [] empty_state p) as [st' r] eqn:E.
  assert (N : nf r).
  { intro Hr. subst r. apply NFuel. reflexivity. }
  rewrite (fo_stmts _ (foldok_all fuel) _ _ _ _ _ _ _ _ E N NF). reflexivity.
Qed.
