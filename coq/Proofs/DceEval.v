(* Facts about the evaluator alone that dead-code elimination relies on:
   - a terminator (return / break / continue, a block ending in one, an if/else whose branches
     both are) never completes normally;
   - a statement list whose last statement is a terminator gives the same answer in every
     result mode (its implicit result is never produced);
   - cutting a list after its first terminator, and dropping empty blocks that are not last,
     change nothing. *)
From Coq Require Import String.
From Aelys Require Import Base.Tactics Model.Lang Model.Eval Model.Opt.Dce Proofs.EvalMono.
Local Open Scope Z_scope.

Lemma is_terminator_block b : is_terminator (SBlock b) = last_term b.
Proof. reflexivity. Qed.

Lemma last_term_cons s r : r <> [] -> last_term (s :: r) = last_term r.
Proof. destruct r; [congruence | reflexivity]. Qed.

Lemma term_not_decl s : is_terminator s = true -> declares s = false.
Proof. destruct s; cbn; congruence. Qed.

Definition nn_ce (r : res (ctl * list (string * nat))) : Prop := forall v e, r <> ROk (CNormal v, e).
Definition nn_c (r : res ctl) : Prop := forall v, r <> ROk (CNormal v).

Record term_ok (f : nat) : Prop := {
  t_stmt : forall d top env st s st' r, is_terminator s = true ->
           exec_stmt f d top env st s = (st', r) -> nn_ce r;
  t_stmts : forall d top mode env st ss st' r, last_term ss = true ->
           exec_stmts f d top mode env st ss = (st', r) -> nn_c r;
  t_branch : forall d env st s st' r, is_terminator s = true ->
           exec_branch f d env st s = (st', r) -> nn_c r
}.

Ltac inv H := inversion H; subst; clear H.

Lemma term_ok_O : term_ok O.
Proof. constructor; intros; cbn in *; match goal with H : (_, _) = (_, _) |- _ => inv H end; intros ? ; try intros ?; discriminate. Qed.

Lemma term_ok_S f : term_ok f -> term_ok (S f).
Proof.
  intro IH. constructor.
  - (* statements *)
    intros d top env st s st' r T H. rewrite exec_stmt_S in H.
    destruct s; cbn [is_terminator] in T; try discriminate.
    + (* SBlock *)
      change ((fix last_term (l : list stmt) : bool := match l with [] => false | [x] => is_terminator x | _ :: r => last_term r end) b) with (last_term b) in T.
      destruct (exec_stmts f d false 0 env st b) as [s1 r1] eqn:E.
      pose proof (t_stmts _ IH _ _ _ _ _ _ _ _ T E) as N.
      destruct r1 as [c|k|]; inv H; intros ? ? X; try discriminate. inv X. eapply N; reflexivity.
    + (* SIf *)
      destruct e as [e|]; [|discriminate]. apply andb_true_iff in T as [T1 T2].
      destruct (eval_expr f d env st c) as [s1 r1]. destruct r1 as [vc|k|]; [|inv H; intros ? ? X; discriminate..].
      rewrite (term_not_decl _ T1), (term_not_decl _ T2) in H.
      destruct (truthy vc).
      * destruct (exec_stmt f d false env s1 s) as [s2 r2] eqn:E.
        pose proof (t_stmt _ IH _ _ _ _ _ _ _ T1 E) as N.
        destruct r2 as [[c2 e2]|k|]; inv H; intros ? ? X; try discriminate. inv X. eapply N; reflexivity.
      * destruct (exec_stmt f d false env s1 e) as [s2 r2] eqn:E.
        pose proof (t_stmt _ IH _ _ _ _ _ _ _ T2 E) as N.
        destruct r2 as [[c2 e2]|k|]; inv H; intros ? ? X; try discriminate. inv X. eapply N; reflexivity.
    + (* SRet *)
      destruct e as [e|]; [|inv H; intros ? ? X; discriminate].
      destruct (eval_expr f d env st e) as [s1 r1]. destruct r1; inv H; intros ? ? X; discriminate.
    + inv H; intros ? ? X; discriminate.
    + inv H; intros ? ? X; discriminate.
  - (* lists *)
    intros d top mode env st ss st' r T H. rewrite exec_stmts_S in H.
    destruct ss as [|s ss]; [discriminate|].
    destruct ss as [|s2 ss].
    + cbn [last_term] in T.
      assert (G : forall st' r, (let (st1, r0) := exec_stmt f d top env st s in
                  match r0 with
                  | ROk (CNormal _, _) => (st1, ROk (CNormal VNull))
                  | ROk (c, _) => (st1, ROk c)
                  | RErr k => (st1, RErr k)
                  | RFuel => (st1, RFuel)
                  end) = (st', r) -> nn_c r).
      { intros st0 r0 H0. destruct (exec_stmt f d top env st s) as [s1 r1] eqn:E.
        pose proof (t_stmt _ IH _ _ _ _ _ _ _ T E) as N.
        destruct r1 as [[c e1]|k|]; [destruct c|..]; inv H0; intros ? X; try discriminate.
        exfalso. eapply N; reflexivity. }
      assert (SIF : forall c t e, s = SIf c t (Some e) ->
                (let (st1, r0) := eval_expr f d env st c in
                 match r0 with
                 | ROk vc => exec_branch f d env st1 (if truthy vc then t else e)
                 | RErr k => (st1, RErr k)
                 | RFuel => (st1, RFuel)
                 end) = (st', r) -> nn_c r).
      { intros c t e -> H0. cbn [is_terminator] in T. apply andb_true_iff in T as [T1 T2].
        destruct (eval_expr f d env st c) as [s1 r1]. cbn beta iota zeta in H0.
        destruct r1 as [vc|k|]; [|inv H0; intros ? X; discriminate..].
        destruct (truthy vc); [exact (t_branch _ IH _ _ _ _ _ _ T1 H0) | exact (t_branch _ IH _ _ _ _ _ _ T2 H0)]. }
      destruct mode as [|[|[|mode]]]; [apply (G _ _ H)|..];
        (destruct s as [ | | b | c t [e|] | | | | | | | | ]; try (apply (G _ _ H)); try (eapply SIF; [reflexivity | exact H]); try (cbn [is_terminator] in T; discriminate)).
      (* a block as the program's last statement *)
      cbn [is_terminator] in T.
      change ((fix last_term (l : list stmt) : bool := match l with [] => false | [x] => is_terminator x | _ :: r => last_term r end) b) with (last_term b) in T.
      eapply (t_stmts _ IH); eauto.
    + rewrite last_term_cons in T by discriminate.
      destruct (exec_stmt f d top env st s) as [s1 r1] eqn:E.
      destruct r1 as [[c e1]|k|]; [destruct c|..]; try (inv H; intros ? X; discriminate).
      eapply (t_stmts _ IH); eauto.
  - (* branches *)
    intros d env st s st' r T H. rewrite exec_branch_S in H.
    assert (G : forall st' r, (let (st1, r0) := exec_stmt f d false env st s in
                match r0 with
                | ROk (CNormal _, _) => (st1, ROk (CNormal VNull))
                | ROk (c, _) => (st1, ROk c)
                | RErr k => (st1, RErr k)
                | RFuel => (st1, RFuel)
                end) = (st', r) -> nn_c r).
    { intros st0 r0 H0. destruct (exec_stmt f d false env st s) as [s1 r1] eqn:E.
      pose proof (t_stmt _ IH _ _ _ _ _ _ _ T E) as N.
      destruct r1 as [[c e1]|k|]; [destruct c|..]; inv H0; intros ? X; try discriminate.
      exfalso. eapply N; reflexivity. }
    destruct s; try (apply (G _ _ H)); cbn [is_terminator] in T; try discriminate.
    change ((fix last_term (l : list stmt) : bool := match l with [] => false | [x] => is_terminator x | _ :: r => last_term r end) b) with (last_term b) in T.
    eapply (t_stmts _ IH); eauto.
Qed.

Theorem term_ok_all : forall f, term_ok f.
Proof. induction f; [exact term_ok_O | apply term_ok_S; assumption]. Qed.

(* ------------------------------------------------------------------ result modes *)
Definition fmap_c (r : res (ctl * list (string * nat))) : res ctl :=
  match r with ROk (c, _) => ROk c | RErr k => RErr k | RFuel => RFuel end.

(* what a non-last / mode-0 / generic position makes of a statement's outcome *)
Definition drop_val (r : res (ctl * list (string * nat))) : res ctl :=
  match r with
  | ROk (CNormal _, _) => ROk (CNormal VNull)
  | ROk (c, _) => ROk c
  | RErr k => RErr k
  | RFuel => RFuel
  end.

Lemma drop_val_nn r : nn_ce r -> drop_val r = fmap_c r.
Proof. intro N. destruct r as [[c e]|k|]; [destruct c|..]; try reflexivity. exfalso. eapply N; reflexivity. Qed.

Lemma nf_fmap_c r : nf r -> nf (fmap_c r).
Proof. destruct r as [[c e]|k|]; unfold nf; cbn; congruence. Qed.
Lemma nf_drop_val r : nf (drop_val r) -> nf r.
Proof. destruct r as [[c e]|k|]; [destruct c|..]; unfold nf; cbn; congruence. Qed.

Lemma exec_stmts_single_generic f d top mode env st s :
  (mode = O \/ (forall e, s <> SExpr e) /\ (forall c t e, s <> SIf c t (Some e)) /\ (mode = 2%nat -> forall b, s <> SBlock b)) ->
  exec_stmts (S f) d top mode env st [s] =
  (fst (exec_stmt f d top env st s), drop_val (snd (exec_stmt f d top env st s))).
Proof.
  intro C. rewrite exec_stmts_S.
  assert (G : (let (st1, r0) := exec_stmt f d top env st s in
               match r0 with
               | ROk (CNormal _, _) => (st1, ROk (CNormal VNull))
               | ROk (c, _) => (st1, ROk c)
               | RErr k => (st1, RErr k)
               | RFuel => (st1, RFuel)
               end) = (fst (exec_stmt f d top env st s), drop_val (snd (exec_stmt f d top env st s)))).
  { destruct (exec_stmt f d top env st s) as [s1 r1]. destruct r1 as [[c e]|k|]; [destruct c|..]; reflexivity. }
  destruct C as [->|(C1 & C2 & C3)]; [exact G|].
  destruct mode as [|[|[|mode]]]; [exact G|..];
    (destruct s as [ | | b | c t [e|] | | | | | | | | ]; try exact G;
     try (exfalso; eapply C1; reflexivity); try (exfalso; eapply C2; reflexivity)).
  exfalso. eapply (C3 eq_refl). reflexivity.
Qed.

Record modeok (k : nat) : Prop := {
  mo_stmts : forall d top env st b st' r, last_term b = true ->
             exec_stmts k d top 0 env st b = (st', r) -> nf r ->
             forall mode, exec_stmts (S k) d top mode env st b = (st', r);
  mo_branch : forall d env st t st' r, is_terminator t = true ->
             exec_stmt k d false env st t = (st', r) -> nf r ->
             exec_branch (S k) d env st t = (st', fmap_c r)
}.

Lemma modeok_O : modeok O.
Proof. constructor; intros; cbn in *; match goal with H : (_, _) = (_, _), N : nf _ |- _ => inv H; exfalso; apply N; reflexivity end. Qed.

Lemma exec_branch_generic f d env st s :
  (forall b, s <> SBlock b) -> (forall e, s <> SExpr e) ->
  exec_branch (S f) d env st s = (fst (exec_stmt f d false env st s), drop_val (snd (exec_stmt f d false env st s))).
Proof.
  intros C1 C2. rewrite exec_branch_S.
  destruct s; try (exfalso; eapply C1; reflexivity); try (exfalso; eapply C2; reflexivity);
    (destruct (exec_stmt f d false env st _) as [s1 r1]; destruct r1 as [[c0 e0]|kk|]; [destruct c0|..]; reflexivity).
Qed.

Lemma modeok_S k : modeok k -> modeok (S k).
Proof.
  intro IH. pose proof (mono_all k) as MK. pose proof (term_ok_all k) as TK. constructor.
  - (* lists *)
    intros d top env st b st' r T H N mode.
    destruct b as [|s b]; [discriminate|]. destruct b as [|s2 b].
    + (* the last statement *)
      cbn [last_term] in T.
      rewrite (exec_stmts_single_generic k d top 0 env st s (or_introl eq_refl)) in H.
      destruct (exec_stmt k d top env st s) as [s1 r1] eqn:E. cbn [fst snd] in H. inv H.
      pose proof (t_stmt _ TK _ _ _ _ _ _ _ T E) as NN.
      rewrite (drop_val_nn _ NN) in *.
      assert (N1 : nf r1). { destruct r1 as [[c e]|kk|]; unfold nf in *; cbn in *; congruence. }
      pose proof (m_stmt _ MK _ _ _ _ _ _ _ E N1) as E'.
      (* which shape decides *)
      destruct s as [ e0 | x m e0 | b | c t oe | c b | x lo hi incl step b | x e0 b | oe | | | nm ps body dd | kk ];
        cbn [is_terminator] in T; try discriminate.
      * (* SBlock *)
        destruct mode as [|[|[|mode]]].
        1,2,4: rewrite exec_stmts_single_generic by (right; repeat split; intros; try discriminate; congruence);
               rewrite E'; cbn [fst snd]; rewrite (drop_val_nn _ NN); reflexivity.
        (* mode 2: the block is opened in result mode *)
        rewrite exec_stmts_S. cbn beta iota zeta.
        change ((fix last_term (l : list stmt) : bool := match l with [] => false | [x] => is_terminator x | _ :: r => last_term r end) b) with (last_term b) in T.
        destruct k as [|k1]; [cbn in E; inv E; exfalso; apply N1; reflexivity|].
        rewrite exec_stmt_S in E.
        destruct (exec_stmts k1 d false 0 env st b) as [s2 r2] eqn:E2.
        assert (N2 : nf r2). { destruct r2; inv E; unfold nf in *; cbn in *; congruence. }
        pose proof (m_stmts _ (mono_all k1) _ _ _ _ _ _ _ _ E2 N2) as E2'.
        rewrite (mo_stmts _ IH _ _ _ _ _ _ _ T E2' N2 3%nat).
        destruct r2; inv E; reflexivity.
      * (* SIf *)
        destruct oe as [e|]; [|discriminate]. apply andb_true_iff in T as [T1 T2].
        destruct mode as [|mode].
        { rewrite exec_stmts_single_generic by (left; reflexivity). rewrite E'. cbn [fst snd]. rewrite (drop_val_nn _ NN). reflexivity. }
        assert (RHS : exec_stmts (S (S k)) d top (S mode) env st [SIf c t (Some e)] =
                      (let (st1, r0) := eval_expr (S k) d env st c in
                       match r0 with
                       | ROk vc => exec_branch (S k) d env st1 (if truthy vc then t else e)
                       | RErr kk => (st1, RErr kk)
                       | RFuel => (st1, RFuel)
                       end)).
        { rewrite exec_stmts_S. destruct mode as [|[|mode]]; reflexivity. }
        rewrite RHS. clear RHS.
        destruct k as [|k1]; [cbn in E; inv E; exfalso; apply N1; reflexivity|].
        rewrite exec_stmt_S in E.
        destruct (eval_expr k1 d env st c) as [s2 r2] eqn:E2.
        assert (N2 : nf r2). { destruct r2; inv E; unfold nf in *; cbn in *; congruence. }
        rewrite (m_expr _ MK _ _ _ _ _ _ (m_expr _ (mono_all k1) _ _ _ _ _ _ E2 N2) N2).
        destruct r2 as [vc|kk|]; [|inv E; reflexivity|inv E; reflexivity].
        rewrite (term_not_decl _ T1), (term_not_decl _ T2) in E.
        destruct (truthy vc).
        -- destruct (exec_stmt k1 d false env s2 t) as [s3 r3] eqn:E3.
           assert (N3 : nf r3). { destruct r3 as [[c3 e3]|kk|]; inv E; unfold nf in *; cbn in *; congruence. }
           pose proof (m_stmt _ (mono_all k1) _ _ _ _ _ _ _ E3 N3) as E3'.
           rewrite (mo_branch _ IH _ _ _ _ _ _ T1 E3' N3).
           destruct r3 as [[c3 e3]|kk|]; inv E; reflexivity.
        -- destruct (exec_stmt k1 d false env s2 e) as [s3 r3] eqn:E3.
           assert (N3 : nf r3). { destruct r3 as [[c3 e3]|kk|]; inv E; unfold nf in *; cbn in *; congruence. }
           pose proof (m_stmt _ (mono_all k1) _ _ _ _ _ _ _ E3 N3) as E3'.
           rewrite (mo_branch _ IH _ _ _ _ _ _ T2 E3' N3).
           destruct r3 as [[c3 e3]|kk|]; inv E; reflexivity.
      * (* SRet *)
        rewrite exec_stmts_single_generic by (right; repeat split; intros; discriminate).
        rewrite E'. cbn [fst snd]. rewrite (drop_val_nn _ NN). reflexivity.
      * rewrite exec_stmts_single_generic by (right; repeat split; intros; discriminate).
        rewrite E'. cbn [fst snd]. rewrite (drop_val_nn _ NN). reflexivity.
      * rewrite exec_stmts_single_generic by (right; repeat split; intros; discriminate).
        rewrite E'. cbn [fst snd]. rewrite (drop_val_nn _ NN). reflexivity.
    + (* a statement that is not last *)
      rewrite last_term_cons in T by discriminate.
      rewrite exec_stmts_S in H. rewrite exec_stmts_S.
      destruct (exec_stmt k d top env st s) as [s1 r1] eqn:E.
      assert (N1 : nf r1). { destruct r1 as [[c e]|kk|]; [destruct c|..]; try (inv H; unfold nf in *; cbn in *; congruence); unfold nf; discriminate. }
      rewrite (m_stmt _ MK _ _ _ _ _ _ _ E N1).
      destruct r1 as [[c e]|kk|]; [destruct c|..]; try exact H.
      apply (mo_stmts _ IH); assumption.
  - (* branches *)
    intros d env st t st' r T H N.
    pose proof (t_stmt _ (term_ok_all (S k)) _ _ _ _ _ _ _ T H) as NN.
    destruct t as [ e0 | x m e0 | b | c t oe | c b | x lo hi incl step b | x e0 b | oe | | | nm ps body dd | kk ];
      cbn [is_terminator] in T; try discriminate.
    + (* SBlock *)
      change ((fix last_term (l : list stmt) : bool := match l with [] => false | [x] => is_terminator x | _ :: r => last_term r end) b) with (last_term b) in T.
      rewrite exec_branch_S. rewrite exec_stmt_S in H.
      destruct (exec_stmts k d false 0 env st b) as [s2 r2] eqn:E2.
      assert (N2 : nf r2). { destruct r2; inv H; unfold nf in *; cbn in *; congruence. }
      rewrite (mo_stmts _ IH _ _ _ _ _ _ _ T E2 N2 3%nat).
      destruct r2; inv H; reflexivity.
    + rewrite exec_branch_generic by (intros; discriminate). rewrite H. cbn [fst snd]. rewrite (drop_val_nn _ NN). reflexivity.
    + rewrite exec_branch_generic by (intros; discriminate). rewrite H. cbn [fst snd]. rewrite (drop_val_nn _ NN). reflexivity.
    + rewrite exec_branch_generic by (intros; discriminate). rewrite H. cbn [fst snd]. rewrite (drop_val_nn _ NN). reflexivity.
    + rewrite exec_branch_generic by (intros; discriminate). rewrite H. cbn [fst snd]. rewrite (drop_val_nn _ NN). reflexivity.
Qed.

Theorem modeok_all : forall k, modeok k.
Proof. induction k; [exact modeok_O | apply modeok_S; assumption]. Qed.

(* ------------------------------------------------------------------ cutting after a terminator *)
Lemma cut_nonempty s r : cut (s :: r) <> [].
Proof. cbn. destruct (is_terminator s); discriminate. Qed.

Lemma exec_stmts_cons f d top mode env st s s2 r :
  exec_stmts (S f) d top mode env st (s :: s2 :: r) =
  (let (st1, r0) := exec_stmt f d top env st s in
   match r0 with
   | ROk (CNormal _, env1) => exec_stmts f d top mode env1 st1 (s2 :: r)
   | ROk (c, _) => (st1, ROk c)
   | RErr k => (st1, RErr k)
   | RFuel => (st1, RFuel)
   end).
Proof. rewrite exec_stmts_S. reflexivity. Qed.

Lemma cut_preserves : forall L f d top mode env st st' r,
  exec_stmts f d top mode env st L = (st', r) -> nf r ->
  exec_stmts f d top mode env st (cut L) = (st', r).
Proof.
  induction L as [|s L IHL]; intros f d top mode env st st' r H N; [exact H|].
  cbn [cut]. destruct (is_terminator s) eqn:T.
  - (* everything behind s is dropped *)
    destruct L as [|s2 L]; [exact H|].
    destruct f as [|f1]; [cbn in H; inv H; exfalso; apply N; reflexivity|].
    rewrite exec_stmts_cons in H.
    destruct (exec_stmt f1 d top env st s) as [s1 r1] eqn:E.
    pose proof (t_stmt _ (term_ok_all f1) _ _ _ _ _ _ _ T E) as NN.
    assert (HR : (s1, drop_val r1) = (st', r)).
    { destruct r1 as [[c e]|k|]; [destruct c|..]; try exact H. exfalso. eapply NN; reflexivity. }
    inv HR. rewrite (drop_val_nn _ NN) in *.
    assert (N1 : nf r1). { destruct r1 as [[c e]|kk|]; unfold nf in *; cbn in *; congruence. }
    destruct s as [ e0 | x m e0 | b | c t oe | c b | x lo hi incl step b | x e0 b | oe | | | nm ps body dd | kk ];
      cbn [is_terminator] in T; try discriminate.
    + (* SBlock *)
      destruct mode as [|[|[|mode]]].
      1,2,4: rewrite exec_stmts_single_generic by (right; repeat split; intros; try discriminate; congruence);
             rewrite E; cbn [fst snd]; rewrite (drop_val_nn _ NN); reflexivity.
      rewrite exec_stmts_S. cbn beta iota zeta.
      change ((fix last_term (l : list stmt) : bool := match l with [] => false | [x] => is_terminator x | _ :: r => last_term r end) b) with (last_term b) in T.
      destruct f1 as [|f2]; [cbn in E; inv E; exfalso; apply N1; reflexivity|].
      rewrite exec_stmt_S in E.
      destruct (exec_stmts f2 d false 0 env st b) as [s3 r3] eqn:E3.
      assert (N3 : nf r3). { destruct r3; inv E; unfold nf in *; cbn in *; congruence. }
      rewrite (mo_stmts _ (modeok_all f2) _ _ _ _ _ _ _ T E3 N3 3%nat).
      destruct r3; inv E; reflexivity.
    + (* SIf *)
      destruct oe as [e|]; [|discriminate]. apply andb_true_iff in T as [T1 T2].
      destruct mode as [|mode].
      { rewrite exec_stmts_single_generic by (left; reflexivity). rewrite E. cbn [fst snd]. rewrite (drop_val_nn _ NN). reflexivity. }
      assert (RHS : exec_stmts (S f1) d top (S mode) env st [SIf c t (Some e)] =
                    (let (st1, r0) := eval_expr f1 d env st c in
                     match r0 with
                     | ROk vc => exec_branch f1 d env st1 (if truthy vc then t else e)
                     | RErr kk => (st1, RErr kk)
                     | RFuel => (st1, RFuel)
                     end)).
      { rewrite exec_stmts_S. destruct mode as [|[|mode]]; reflexivity. }
      rewrite RHS. clear RHS.
      destruct f1 as [|f2]; [cbn in E; inv E; exfalso; apply N1; reflexivity|].
      rewrite exec_stmt_S in E.
      destruct (eval_expr f2 d env st c) as [s2' r2] eqn:E2.
      assert (N2 : nf r2). { destruct r2; inv E; unfold nf in *; cbn in *; congruence. }
      rewrite (m_expr _ (mono_all f2) _ _ _ _ _ _ E2 N2).
      destruct r2 as [vc|kk|]; [|inv E; reflexivity|inv E; reflexivity].
      rewrite (term_not_decl _ T1), (term_not_decl _ T2) in E.
      destruct (truthy vc).
      * destruct (exec_stmt f2 d false env s2' t) as [s3 r3] eqn:E3.
        assert (N3 : nf r3). { destruct r3 as [[c3 e3]|kk|]; inv E; unfold nf in *; cbn in *; congruence. }
        rewrite (mo_branch _ (modeok_all f2) _ _ _ _ _ _ T1 E3 N3).
        destruct r3 as [[c3 e3]|kk|]; inv E; reflexivity.
      * destruct (exec_stmt f2 d false env s2' e) as [s3 r3] eqn:E3.
        assert (N3 : nf r3). { destruct r3 as [[c3 e3]|kk|]; inv E; unfold nf in *; cbn in *; congruence. }
        rewrite (mo_branch _ (modeok_all f2) _ _ _ _ _ _ T2 E3 N3).
        destruct r3 as [[c3 e3]|kk|]; inv E; reflexivity.
    + rewrite exec_stmts_single_generic by (right; repeat split; intros; discriminate).
      rewrite E. cbn [fst snd]. rewrite (drop_val_nn _ NN). reflexivity.
    + rewrite exec_stmts_single_generic by (right; repeat split; intros; discriminate).
      rewrite E. cbn [fst snd]. rewrite (drop_val_nn _ NN). reflexivity.
    + rewrite exec_stmts_single_generic by (right; repeat split; intros; discriminate).
      rewrite E. cbn [fst snd]. rewrite (drop_val_nn _ NN). reflexivity.
  - (* s stays; the rest is cut *)
    destruct L as [|s2 L]; [exact H|].
    destruct f as [|f1]; [cbn in H; inv H; exfalso; apply N; reflexivity|].
    pose proof (cut_nonempty s2 L) as NE.
    destruct (cut (s2 :: L)) as [|c1 cl] eqn:EC; [congruence|].
    rewrite exec_stmts_cons in H. rewrite exec_stmts_cons.
    destruct (exec_stmt f1 d top env st s) as [s1 r1] eqn:E.
    destruct r1 as [[c e]|k|]; [destruct c|..]; try exact H.
    apply IHL; assumption.
Qed.

(* ------------------------------------------------------------------ dropping empty blocks *)
Lemma drop_empty_nonempty s r : drop_empty (s :: r) <> [].
Proof.
  revert s; induction r as [|s2 r IH]; intro s; [discriminate|].
  cbn [drop_empty]. destruct (is_empty_block s); [apply IH | discriminate].
Qed.

Lemma exec_empty_block f d top env st : exec_stmt (S (S f)) d top env st (SBlock []) = (st, ROk (CNormal VNull, env)).
Proof. reflexivity. Qed.

Lemma drop_empty_preserves : forall L f d top mode env st st' r,
  exec_stmts f d top mode env st L = (st', r) -> nf r ->
  exec_stmts f d top mode env st (drop_empty L) = (st', r).
Proof.
  induction L as [|s L IHL]; intros f d top mode env st st' r H N; [exact H|].
  destruct L as [|s2 L]; [exact H|].
  change (drop_empty (s :: s2 :: L)) with (if is_empty_block s then drop_empty (s2 :: L) else s :: drop_empty (s2 :: L)).
  destruct f as [|f1]; [cbn in H; inv H; exfalso; apply N; reflexivity|].
  rewrite exec_stmts_cons in H.
  destruct (is_empty_block s) eqn:EB.
  - destruct s as [ | | b | | | | | | | | | ]; try discriminate. destruct b; [|discriminate].
    destruct f1 as [|[|f3]].
    + cbn in H. inv H. exfalso; apply N; reflexivity.
    + cbn in H. inv H. exfalso; apply N; reflexivity.
    + rewrite exec_empty_block in H.
      apply (m_stmts _ (mono_all (S (S f3)))); [|exact N].
      apply IHL; assumption.
  - pose proof (drop_empty_nonempty s2 L) as NE.
    destruct (drop_empty (s2 :: L)) as [|c1 cl] eqn:EC; [congruence|].
    rewrite exec_stmts_cons.
    destruct (exec_stmt f1 d top env st s) as [s1 r1] eqn:E.
    destruct r1 as [[c e]|k|]; [destruct c|..]; try exact H.
    apply IHL; assumption.
Qed.

Theorem post_preserves L f d top mode env st st' r :
  exec_stmts f d top mode env st L = (st', r) -> nf r ->
  exec_stmts f d top mode env st (post L) = (st', r).
Proof. intros H N. unfold post. apply drop_empty_preserves; [apply cut_preserves; assumption | exact N]. Qed.

(* ------------------------------------------------------------------ statements complete with null *)
Record nullok (f : nat) : Prop := {
  n_stmt : forall d top env st s st' v e, exec_stmt f d top env st s = (st', ROk (CNormal v, e)) -> v = VNull;
  n_stmts0 : forall d top env st ss st' v, exec_stmts f d top 0 env st ss = (st', ROk (CNormal v)) -> v = VNull;
  n_while : forall d env st c b st' v, exec_while f d env st c b = (st', ROk (CNormal v)) -> v = VNull;
  n_for : forall d env st x i hi incl step b st' v, exec_for f d env st x i hi incl step b = (st', ROk (CNormal v)) -> v = VNull;
  n_foreach : forall d env st x items b st' v, exec_foreach f d env st x items b = (st', ROk (CNormal v)) -> v = VNull
}.

Lemma nullok_O : nullok O.
Proof. constructor; intros; cbn in *; discriminate. Qed.

Ltac nsplit H :=
  lazymatch type of H with
  | context [if ?c then _ else _] => destruct c eqn:?
  | context [let (_, _) := alloc_cell ?s ?v in _] => destruct (alloc_cell s v) eqn:?
  | context [match ?x with _ => _ end] => is_var x; destruct x
  end; cbn beta iota zeta in H.

Ltac ncall IH H :=
  lazymatch type of H with
  | context [eval_expr ?f ?a0 ?a1 ?a2 ?a3] => destruct (eval_expr f a0 a1 a2 a3) as [? [?| |]]
  | context [exec_stmt ?f ?a0 ?a1 ?a2 ?a3 ?a4] =>
      let E := fresh "E" in destruct (exec_stmt f a0 a1 a2 a3 a4) as [? [[[?| | |?] ?]| |]] eqn:E;
      [ pose proof (n_stmt _ IH _ _ _ _ _ _ _ _ E); subst | .. ]
  | context [exec_stmts ?f ?a0 ?a1 0%nat ?a3 ?a4 ?a5] =>
      let E := fresh "E" in destruct (exec_stmts f a0 a1 0%nat a3 a4 a5) as [? [[?| | |?]| |]] eqn:E;
      [ pose proof (n_stmts0 _ IH _ _ _ _ _ _ _ E); subst | .. ]
  | context [exec_while ?f ?a0 ?a1 ?a2 ?a3 ?a4] =>
      let E := fresh "E" in destruct (exec_while f a0 a1 a2 a3 a4) as [? [[?| | |?]| |]] eqn:E;
      [ pose proof (n_while _ IH _ _ _ _ _ _ _ E); subst | .. ]
  | context [exec_for ?f ?a0 ?a1 ?a2 ?a3 ?a4 ?a5 ?a6 ?a7 ?a8] =>
      let E := fresh "E" in destruct (exec_for f a0 a1 a2 a3 a4 a5 a6 a7 a8) as [? [[?| | |?]| |]] eqn:E;
      [ pose proof (n_for _ IH _ _ _ _ _ _ _ _ _ _ _ E); subst | .. ]
  | context [exec_foreach ?f ?a0 ?a1 ?a2 ?a3 ?a4 ?a5] =>
      let E := fresh "E" in destruct (exec_foreach f a0 a1 a2 a3 a4 a5) as [? [[?| | |?]| |]] eqn:E;
      [ pose proof (n_foreach _ IH _ _ _ _ _ _ _ _ E); subst | .. ]
  end; cbn beta iota zeta in H.

Ltac nfin H := first [ discriminate H | (inversion H; subst; reflexivity) | (inversion H; subst; congruence) ].
Ltac ngo IH H := repeat (first [ nfin H | ncall IH H | nsplit H ]).

Lemma nullok_S f : nullok f -> nullok (S f).
Proof.
  intro IH. constructor.
  - intros d top env st s st' v e H. rewrite exec_stmt_S in H.
    destruct s; cbn beta iota zeta in H; ngo IH H.
  - intros d top env st ss st' v H. rewrite exec_stmts_S in H.
    destruct ss as [|s [|s2 ss]]; cbn beta iota zeta in H; ngo IH H.
  - intros d env st c b st' v H. rewrite exec_while_S in H. cbn beta iota zeta in H. ngo IH H.
  - intros d env st x i hi incl step b st' v H. rewrite exec_for_S in H. cbn beta iota zeta in H. ngo IH H.
  - intros d env st x items b st' v H. rewrite exec_foreach_S in H. cbn beta iota zeta in H. ngo IH H.
Qed.

Theorem nullok_all : forall f, nullok f.
Proof. induction f; [exact nullok_O | apply nullok_S; assumption]. Qed.

(* ------------------------------------------------------------------ statements that declare nothing *)
Lemma nondecl_top f d top env st s : declares s = false ->
  exec_stmt f d top env st s = exec_stmt f d false env st s.
Proof. intro D. destruct f; [reflexivity|]. rewrite !exec_stmt_S. destruct s; try reflexivity; discriminate. Qed.

Ltac dcall H :=
  lazymatch type of H with
  | context [eval_expr ?f ?a0 ?a1 ?a2 ?a3] => destruct (eval_expr f a0 a1 a2 a3) as [? [?| |]]
  | context [exec_stmt ?f ?a0 ?a1 ?a2 ?a3 ?a4] => destruct (exec_stmt f a0 a1 a2 a3 a4) as [? [[? ?]| |]]
  | context [exec_stmts ?f ?a0 ?a1 ?a2 ?a3 ?a4 ?a5] => destruct (exec_stmts f a0 a1 a2 a3 a4 a5) as [? [?| |]]
  | context [exec_while ?f ?a0 ?a1 ?a2 ?a3 ?a4] => destruct (exec_while f a0 a1 a2 a3 a4) as [? [?| |]]
  | context [exec_for ?f ?a0 ?a1 ?a2 ?a3 ?a4 ?a5 ?a6 ?a7 ?a8] => destruct (exec_for f a0 a1 a2 a3 a4 a5 a6 a7 a8) as [? [?| |]]
  | context [exec_foreach ?f ?a0 ?a1 ?a2 ?a3 ?a4 ?a5] => destruct (exec_foreach f a0 a1 a2 a3 a4 a5) as [? [?| |]]
  end; cbn beta iota zeta in H.

Lemma nondecl_env f d top env st s st' c e : declares s = false ->
  exec_stmt f d top env st s = (st', ROk (c, e)) -> e = env.
Proof.
  intros D H. destruct f; [discriminate|]. rewrite exec_stmt_S in H.
  destruct s; try discriminate; cbn beta iota zeta in H;
    repeat (first [ nfin H | dcall H | nsplit H ]).
Qed.

(* `if <const> { s }` replaced by `s` (or by the branch itself) *)
Lemma unwrap_exec f d top env st X st' r : declares X = false ->
  exec_stmt f d false env st X = (st', r) -> nf r ->
  exec_stmt (S f) d top env st (unwrap X) = (st', r).
Proof.
  intros D H N.
  assert (KEEP : exec_stmt (S f) d top env st X = (st', r)).
  { rewrite (nondecl_top (S f) d top env st X D). apply (m_stmt _ (mono_all f)); assumption. }
  unfold unwrap. destruct X as [ | | b | | | | | | | | | ]; try exact KEEP.
  destruct b as [|s1 [|s2 b]]; try exact KEEP.
  destruct (declares s1) eqn:D1; [exact KEEP|].
  destruct f as [|f1]; [cbn in H; inv H; exfalso; apply N; reflexivity|].
  rewrite exec_stmt_S in H.
  destruct f1 as [|f2]; [cbn in H; inv H; exfalso; apply N; reflexivity|].
  rewrite (exec_stmts_single_generic f2 d false 0 env st s1 (or_introl eq_refl)) in H.
  destruct (exec_stmt f2 d false env st s1) as [sa ra] eqn:E. cbn [fst snd] in H.
  assert (Na : nf ra). { destruct ra as [[c e]|k|]; [destruct c|..]; unfold nf in *; try discriminate; cbn in H; inv H; congruence. }
  rewrite (nondecl_top _ d top env st s1 D1).
  rewrite (m_stmt _ (mono_all _) _ _ _ _ _ _ _ (m_stmt _ (mono_all _) _ _ _ _ _ _ _ (m_stmt _ (mono_all _) _ _ _ _ _ _ _ E Na) Na) Na).
  destruct ra as [[c e]|k|].
  - pose proof (nondecl_env _ _ _ _ _ _ _ _ _ D1 E) as ->.
    destruct c; cbn in H; inv H; try reflexivity.
    rewrite (n_stmt _ (nullok_all f2) _ _ _ _ _ _ _ _ E). reflexivity.
  - cbn in H. inv H. reflexivity.
  - cbn in H. inv H. reflexivity.
Qed.

(* a constant `if` whose taken branch is (or hides) a declaration leaves the fragment when run *)
Fixpoint hidden_decl (s : stmt) : bool :=
  match s with
  | SIf (EBool true) t _ => declares t || hidden_decl t
  | SIf (EBool false) _ (Some e) => declares e || hidden_decl e
  | _ => false
  end.

Definition bad {A} (r : res A) : Prop := r = RFuel \/ r = RErr EUnsupported.

Lemma hidden_decl_bad : forall s, hidden_decl s = true ->
  forall f d top env st st' r, exec_stmt f d top env st s = (st', r) -> bad r.
Proof.
  fix IH 1. intros s HD f d top env st st' r H.
  destruct s as [ | | | c t oe | | | | | | | | ]; cbn [hidden_decl] in HD; try discriminate.
  destruct c; try discriminate.
  destruct f as [|f1]; [cbn in H; inv H; left; reflexivity|].
  rewrite exec_stmt_S in H.
  destruct f1 as [|f2]; [cbn in H; inv H; left; reflexivity|].
  rewrite eval_expr_S in H. cbn beta iota zeta in H.
  destruct b; cbn [truthy] in H; cbn beta iota zeta in H.
  - destruct (declares t) eqn:D1; [inv H; right; reflexivity|].
    cbn [orb] in HD.
    destruct (exec_stmt (S f2) d false env st t) as [s2 r2] eqn:E.
    destruct (IH t HD _ _ _ _ _ _ _ E) as [->| ->]; inv H; [left|right]; reflexivity.
  - destruct oe as [e|]; [|discriminate].
    destruct (declares e) eqn:D1; [inv H; right; reflexivity|].
    cbn [orb] in HD.
    destruct (exec_stmt (S f2) d false env st e) as [s2 r2] eqn:E.
    destruct (IH e HD _ _ _ _ _ _ _ E) as [->| ->]; inv H; [left|right]; reflexivity.
Qed.
