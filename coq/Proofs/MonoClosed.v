(* C17 -- UNBOUNDED: monomorphisation closes every program outside the two open classes
   (generic structs, KF-C17-5; non-generic functions mentioning a type parameter, i.e. closures
   nested in generic functions, KF-C17-11), provided every generic call could be resolved. *)
From Aelys Require Import Base.Tactics Model.AirLower Model.Mono Proofs.AirLowerProofs Proofs.MonoProofs.
Local Open Scope N_scope.

(* ---- decidable description of the admissible inputs *)
Fixpoint params_within (tp : list N) (t : ty) : bool :=
  match t with
  | TParam i => memN i tp
  | TPtr x | TSlice x | TArr x _ => params_within tp x
  | TFn ps r => params_within_l tp ps && params_within tp r
  | _ => true
  end
with params_within_l (tp : list N) (l : tys) : bool :=
  match l with TNil => true | TCons t r => params_within tp t && params_within_l tp r end.

Definition structs_in (S : list N) (t : ty) : bool := forallb (fun n => memN n S) (struct_names t).
Definition closedb (S : list N) (t : ty) : bool := negb (has_param t) && structs_in S t.

Definition struct_ids (p : mprog) : list N :=
  flat_map (fun s => match s_name s with NPlain k => [k] | _ => [] end) (p_structs p).

Definition stmt_ok (S : list N) (s : mstmt) : bool :=
  match s with
  | MCall _ args => forallb (fun a => match a with AConst t => closedb S t | ALocal _ => true end) args
  | MInit (NPlain k) => memN k S
  | MInit (NMono _ _) => false
  | MCast _ _ => true
  end.

Definition fn_input_ok (S : list N) (f : mfn) : bool :=
  forallb (stmt_ok S) (m_body f)
  && if is_generic f
     then forallb (fun t => params_within (m_tparams f) t && structs_in S t) (fn_types f)
     else forallb (closedb S) (fn_types f).

(* no generic struct (excludes KF-C17-5); no non-generic function mentioning a type parameter
   (excludes KF-C17-11); every struct named exists; call sites name functions as written *)
Definition mono_input_ok (p : mprog) : bool :=
  let S := struct_ids p in
  plain_prog p
  && forallb (fun s => match s_tparams s with [] => true | _ => false end && forallb (closedb S) (s_fields s)) (p_structs p)
  && forallb (fn_input_ok S) (p_fns p).

(* every call of a generic function was given an instance (fails for uninferable type parameters
   and for polymorphic recursion beyond MAX_MONO_ROUNDS) *)
Definition calls_resolved (p : mprog) : bool :=
  forallb (fun f => forallb (fun s => match s with
                                      | MCall (NPlain n) _ => match generic_fn (p_fns p) n with Some _ => false | None => true end
                                      | _ => true
                                      end) (m_body f)) (p_fns (monomorphize p)).

(* ---- type algebra *)
Scheme ty_ind2 := Induction for ty Sort Prop with tys_ind2 := Induction for tys Sort Prop.
Combined Scheme ty_mutind2 from ty_ind2, tys_ind2.

Definition CT (S : list N) (t : ty) : Prop := closedb S t = true.

Lemma CT_split S t : CT S t <-> has_param t = false /\ structs_in S t = true.
Proof. unfold CT, closedb. rewrite andb_true_iff, negb_true_iff. tauto. Qed.

Lemma index_of_lt i : forall l k n, index_of i l k = Some n -> (k <= n < k + length l)%nat.
Proof.
  induction l as [|x r IH]; intros k n H; cbn in *; [discriminate|].
  destruct (x =? i); [inversion H; subst; lia|]. apply IH in H. lia.
Qed.
Lemma index_of_mem i : forall l k, memN i l = true -> exists n, index_of i l k = Some n.
Proof.
  induction l as [|x r IH]; intros k H; [discriminate|]. cbn in *.
  destruct (x =? i) eqn:E; [eexists; reflexivity|].
  apply orb_true_iff in H as [H|H]; [rewrite N.eqb_sym in H; congruence|]. apply IH. exact H.
Qed.

Lemma structs_in_app S a b : forallb (fun n => memN n S) (a ++ b) = forallb (fun n => memN n S) a && forallb (fun n => memN n S) b.
Proof. apply forallb_app. Qed.

(* substitution of closed arguments into a type whose parameters are all bound closes it *)
Lemma subst_closed S tp ta : length ta = length tp -> Forall (CT S) ta ->
  (forall t, params_within tp t = true -> structs_in S t = true -> CT S (subst tp ta t))
  /\ (forall l, params_within_l tp l = true -> forallb (fun n => memN n S) (struct_names_list l) = true ->
        has_params (subst_list tp ta l) = false
        /\ forallb (fun n => memN n S) (struct_names_list (subst_list tp ta l)) = true).
Proof.
  intros Hlen Hta. apply ty_mutind2; unfold structs_in; cbn [params_within params_within_l subst subst_list struct_names struct_names_list].
  - intros k _ _. apply CT_split. split; reflexivity.
  - intros s _ H. apply CT_split. split; [reflexivity|exact H].
  - intros i Hm _. destruct (index_of_mem i tp 0%nat Hm) as [n Hn]. rewrite Hn.
    apply index_of_lt in Hn. destruct (nth_error ta n) as [r|] eqn:En.
    + rewrite Forall_forall in Hta. apply Hta. eapply nth_error_In; eassumption.
    + apply nth_error_None in En. lia.
  - intros t IH Hp Hs. specialize (IH Hp Hs). apply CT_split in IH as [A B]. apply CT_split. split; assumption.
  - intros t IH Hp Hs. specialize (IH Hp Hs). apply CT_split in IH as [A B]. apply CT_split. split; assumption.
  - intros t IH n Hp Hs. specialize (IH Hp Hs). apply CT_split in IH as [A B]. apply CT_split. split; assumption.
  - intros ps IHps r IHr Hp Hs. apply andb_true_iff in Hp as [Hp1 Hp2].
    rewrite structs_in_app in Hs. apply andb_true_iff in Hs as [Hs1 Hs2].
    destruct (IHps Hp1 Hs1) as [A1 B1]. specialize (IHr Hp2 Hs2). apply CT_split in IHr as [A2 B2].
    apply CT_split. unfold structs_in. cbn [has_param has_params struct_names struct_names_list subst subst_list].
    rewrite structs_in_app, A1, A2, B1. split; [reflexivity|exact B2].
  - intros _ _. split; reflexivity.
  - intros t IHt r IHr Hp Hs. apply andb_true_iff in Hp as [Hp1 Hp2].
    rewrite structs_in_app in Hs. apply andb_true_iff in Hs as [Hs1 Hs2].
    specialize (IHt Hp1 Hs1). apply CT_split in IHt as [A1 B1]. destruct (IHr Hp2 Hs2) as [A2 B2].
    cbn [has_params]. rewrite structs_in_app, A1, A2. split; [reflexivity|]. unfold structs_in in B1. rewrite B1, B2. reflexivity.
Qed.

Definition RC (S : list N) (r : list (N * ty)) : Prop := forall i t, In (i, t) r -> CT S t.
Definition CTL (S : list N) (l : tys) : Prop :=
  has_params l = false /\ forallb (fun n => memN n S) (struct_names_list l) = true.

Lemma lookup_ty_In l i t : lookup_ty l i = Some t -> In (i, t) l.
Proof.
  unfold lookup_ty. destruct (find _ l) as [[j u]|] eqn:E; [|discriminate]. intro H. inversion H; subst.
  apply find_some in E as [E1 E2]. cbn in E2. apply N.eqb_eq in E2. subst. exact E1.
Qed.

Lemma bind_RC S r i a : RC S r -> CT S a -> RC S (bind r i a).
Proof.
  intros Hr Ha. unfold bind. destruct (lookup_ty r i); [exact Hr|].
  intros j t H. apply in_app_or in H as [H|[H|[]]]; [eapply Hr; exact H|inversion H; subst; exact Ha].
Qed.

Lemma CT_inner S (t : ty) :
  (forall x, t = TPtr x -> CT S t -> CT S x) /\ (forall x, t = TSlice x -> CT S t -> CT S x)
  /\ (forall x n, t = TArr x n -> CT S t -> CT S x)
  /\ (forall ps r, t = TFn ps r -> CT S t -> CTL S ps /\ CT S r).
Proof.
  repeat split; intros; subst; apply CT_split in H0 as [A B]; unfold structs_in in *; cbn [has_param struct_names] in *;
    try (apply CT_split; split; assumption).
  - apply orb_false_iff in A. apply A.
  - rewrite structs_in_app in B. apply andb_true_iff in B. apply B.
  - apply orb_false_iff in A as [_ A]. rewrite structs_in_app in B. apply andb_true_iff in B as [_ B].
    apply CT_split. split; assumption.
Qed.

Lemma unify_closed S :
  (forall p a r, CT S a -> RC S r -> RC S (unify p a r))
  /\ (forall ps qs r, CTL S qs -> RC S r -> RC S (unify_list ps qs r)).
Proof.
  apply ty_mutind2; cbn [unify unify_list]; intros; try assumption.
  - apply bind_RC; assumption.
  - destruct a; try assumption. apply H; [|assumption]. eapply (proj1 (CT_inner S (TPtr a))); [reflexivity|assumption].
  - destruct a; try assumption. apply H; [|assumption]. eapply (proj1 (proj2 (CT_inner S (TSlice a)))); [reflexivity|assumption].
  - destruct a; try assumption. apply H; [|assumption]. eapply (proj1 (proj2 (proj2 (CT_inner S (TArr a n0))))); [reflexivity|assumption].
  - destruct a; try assumption.
    destruct (proj2 (proj2 (proj2 (CT_inner S (TFn ps0 a)))) ps0 a eq_refl H1) as [A B].
    apply H0; [exact B|]. apply H; assumption.
  - destruct qs as [|q qs']; [assumption|].
    destruct H1 as [A B]. cbn [has_params struct_names_list] in A, B.
    apply orb_false_iff in A as [A1 A2]. rewrite structs_in_app in B. apply andb_true_iff in B as [B1 B2].
    apply H0; [split; assumption|]. apply H; [apply CT_split; split; assumption|assumption].
Qed.

Lemma unify_args_closed S : forall ps args r, Forall (CT S) args -> RC S r -> RC S (unify_args ps args r).
Proof.
  induction ps as [|[i p] ps IH]; intros args r Ha Hr; cbn [unify_args]; [exact Hr|].
  destruct args as [|a args']; [exact Hr|]. inversion Ha; subst.
  apply IH; [assumption|]. apply (proj1 (unify_closed S)); assumption.
Qed.

Lemma all_some_spec {A} : forall (l : list (option A)) xs, all_some l = Some xs ->
  length xs = length l /\ forall x, In x xs -> In (Some x) l.
Proof.
  induction l as [|o r IH]; intros xs H; cbn in H.
  - inversion H; subst. split; [reflexivity|intros x []].
  - destruct o as [a|]; [|discriminate]. destruct (all_some r) as [ys|] eqn:E; [|discriminate].
    inversion H; subst. destruct (IH ys eq_refl) as [L I]. split; [cbn; lia|].
    intros x [<-|Hx]; [left; reflexivity|right; apply I; exact Hx].
Qed.

(* a non-generic function whose types and constants are closed *)
Definition FOK (S : list N) (f : mfn) : Prop :=
  is_generic f = false /\ (forall t, In t (fn_types f) -> CT S t)
  /\ forallb (stmt_ok S) (m_body f) = true.

Lemma T_I64_closed S : CT S T_I64. Proof. reflexivity. Qed.

Lemma lookup_in_types f id t :
  lookup_ty (m_params f) id = Some t \/ lookup_ty (m_locals f) id = Some t -> In t (fn_types f).
Proof.
  intros [H|H]; apply lookup_ty_In in H; unfold fn_types; right.
  - apply in_or_app. left. apply (in_map snd) in H. exact H.
  - apply in_or_app. right. apply in_or_app. left. apply (in_map snd) in H. exact H.
Qed.

Lemma operand_type_closed S f a : FOK S f ->
  (match a with AConst t => closedb S t = true | ALocal _ => True end) -> CT S (operand_type f a).
Proof.
  intros (_ & Ht & _) Ha. destruct a as [id|t]; [|exact Ha]. cbn [operand_type].
  destruct (lookup_ty (m_params f) id) eqn:E1; [apply Ht; apply lookup_in_types with id; left; exact E1|].
  destruct (lookup_ty (m_locals f) id) eqn:E2; [apply Ht; apply lookup_in_types with id; right; exact E2|].
  apply T_I64_closed.
Qed.

Lemma infer_closed S g f args ta : FOK S f ->
  forallb (fun a => match a with AConst t => closedb S t | ALocal _ => true end) args = true ->
  infer_type_args g f args = Some ta -> Forall (CT S) ta /\ length ta = length (m_tparams g).
Proof.
  intros Hf Ha Hi. unfold infer_type_args in Hi.
  apply all_some_spec in Hi as [L I]. rewrite map_length in L. split; [|exact L].
  apply Forall_forall. intros t Ht. apply I in Ht. apply in_map_iff in Ht as [i [Hl _]].
  apply lookup_ty_In in Hl.
  assert (R : RC S (unify_args (paired_params g) (map (operand_type f) args) [])).
  { apply unify_args_closed; [|intros ? ? []].
    apply Forall_forall. intros u Hu. apply in_map_iff in Hu as [a [<- Hin]].
    apply operand_type_closed; [exact Hf|]. rewrite forallb_forall in Ha. specialize (Ha a Hin).
    destruct a; [exact Logic.I|exact Ha]. }
  eapply R. exact Hl.
Qed.

(* a generic function: parameters of its types are its own, structs exist, constants closed *)
Definition GOK (S : list N) (g : mfn) : Prop :=
  (forall t, In t (fn_types g) -> params_within (m_tparams g) t = true /\ structs_in S t = true)
  /\ forallb (stmt_ok S) (m_body g) = true.

Lemma subst_stmt_ok S tp ta s : stmt_ok S s = true -> stmt_ok S (subst_stmt tp ta s) = true.
Proof. destruct s as [c args|n|a b]; cbn; auto. Qed.

Lemma instance_types g n ta t : In t (fn_types (instance_of g n ta)) ->
  exists t0, In t0 (fn_types g) /\ t = subst (m_tparams g) ta t0.
Proof.
  unfold fn_types, instance_of. cbn [m_ret m_params m_locals m_body].
  intros [H|H].
  - exists (m_ret g). split; [left; reflexivity|symmetry; exact H].
  - apply in_app_or in H as [H|H].
    + rewrite map_map in H. cbn [snd] in H. apply in_map_iff in H as [q [<- Hq]].
      exists (snd q). split; [right; apply in_or_app; left; apply in_map; exact Hq|reflexivity].
    + apply in_app_or in H as [H|H].
      * rewrite map_map in H. cbn [snd] in H. apply in_map_iff in H as [q [<- Hq]].
        exists (snd q). split; [right; apply in_or_app; right; apply in_or_app; left; apply in_map; exact Hq|reflexivity].
      * apply in_flat_map in H as [s [Hs Ht]]. apply in_map_iff in Hs as [s0 [<- Hs0]].
        destruct s0 as [c args|nm|a b]; cbn in Ht; try contradiction.
        assert (Hin : forall u, In u [a; b] -> In u (fn_types g)).
        { intros u Hu. unfold fn_types. right. apply in_or_app. right. apply in_or_app. right.
          apply in_flat_map. exists (MCast a b). split; [exact Hs0|exact Hu]. }
        destruct Ht as [<-|[<-|[]]]; [exists a|exists b]; (split; [apply Hin; cbn; tauto|reflexivity]).
Qed.

Lemma instance_FOK S g n ta : GOK S g -> Forall (CT S) ta -> length ta = length (m_tparams g) ->
  FOK S (instance_of g n ta).
Proof.
  intros (Ht & Hb) Hta Hl. split; [reflexivity|split].
  - intros t Hin. apply instance_types in Hin as [t0 [H0 ->]]. destruct (Ht t0 H0) as [A B].
    apply (proj1 (subst_closed S (m_tparams g) ta Hl Hta)); assumption.
  - cbn [instance_of m_body]. apply forallb_forall. intros s Hs. apply in_map_iff in Hs as [s0 [<- Hs0]].
    apply subst_stmt_ok. rewrite forallb_forall in Hb. apply Hb. exact Hs0.
Qed.

Definition REQ (S : list N) (fs : list mfn) (reqs : list (N * list ty)) : Prop :=
  forall n ta, In (n, ta) reqs ->
    exists g, generic_fn fs n = Some g /\ Forall (CT S) ta /\ length ta = length (m_tparams g).

Lemma requests_of_fn_REQ S fs f : FOK S f -> REQ S fs (requests_of_fn fs f).
Proof.
  intros Hf n ta Hin. unfold requests_of_fn in Hin. apply in_flat_map in Hin as [s [Hs Hin]].
  destruct s as [[m|m k] args|nm|a b]; try contradiction.
  destruct (generic_fn fs m) as [g|] eqn:Eg; [|contradiction].
  destruct (infer_type_args g f args) as [ta'|] eqn:Ei; [|contradiction].
  destruct Hin as [Hin|[]]. inversion Hin; subst. exists g. split; [exact Eg|].
  eapply infer_closed; [exact Hf| |exact Ei].
  destruct Hf as (_ & _ & Hb). rewrite forallb_forall in Hb. exact (Hb _ Hs).
Qed.

Lemma requests_from_REQ S fs callers : Forall (FOK S) callers -> REQ S fs (requests_from fs callers).
Proof.
  intros Hc n ta Hin. unfold requests_from in Hin. apply in_flat_map in Hin as [f [Hf Hin]].
  destruct (is_generic f); [contradiction|]. rewrite Forall_forall in Hc.
  exact (requests_of_fn_REQ S fs f (Hc f Hf) n ta Hin).
Qed.

Lemma generic_fn_generic fs n g : generic_fn fs n = Some g -> is_generic g = true.
Proof. unfold generic_fn. intro H. apply find_some in H as [_ H]. apply andb_true_iff in H. apply H. Qed.

Definition GALL (S : list N) (fs : list mfn) : Prop := forall g, In g fs -> is_generic g = true -> GOK S g.

Lemma instantiate_FOK S fs : GALL S fs -> forall reqs done newf,
  REQ S fs reqs -> Forall (FOK S) newf -> Forall (FOK S) (snd (instantiate fs reqs done newf)).
Proof.
  intros HG. induction reqs as [|[n ta] r IH]; intros done newf HR Hn; cbn [instantiate]; [exact Hn|].
  assert (HR' : REQ S fs r) by (intros m tb Hm; apply HR; right; exact Hm).
  destruct (has_inst done n (key ta)); [apply IH; assumption|].
  destruct (HR n ta (or_introl eq_refl)) as (g & Eg & Hta & Hl). rewrite Eg.
  apply IH; [exact HR'|]. apply Forall_app. split; [exact Hn|]. constructor; [|constructor].
  apply instance_FOK; [|exact Hta|exact Hl].
  apply HG; [eapply generic_fn_In; exact Eg|eapply generic_fn_generic; exact Eg].
Qed.

Lemma rounds_FOK S fs : GALL S fs -> forall fuel reqs done allnew,
  REQ S fs reqs -> Forall (FOK S) allnew -> Forall (FOK S) (snd (rounds fuel fs reqs done allnew)).
Proof.
  intros HG. induction fuel as [|k IH]; intros reqs done allnew HR Ha; cbn [rounds]; [exact Ha|].
  pose proof (instantiate_FOK S fs HG reqs done [] HR (Forall_nil _)) as Hn.
  destruct (instantiate fs reqs done []) as [done' newf]. cbn [snd] in Hn.
  destruct newf as [|f0 r0]; [exact Ha|].
  apply IH; [apply requests_from_REQ; exact Hn|apply Forall_app; split; assumption].
Qed.

Lemma requests_from_REQ' S fs callers : (forall f, In f callers -> is_generic f = false -> FOK S f) ->
  REQ S fs (requests_from fs callers).
Proof.
  intros Hc n ta Hin. unfold requests_from in Hin. apply in_flat_map in Hin as [f [Hf Hin]].
  destruct (is_generic f) eqn:Eg; [contradiction|].
  exact (requests_of_fn_REQ S fs f (Hc f Hf Eg) n ta Hin).
Qed.

(* ---- consequences of the input guard *)
Lemma input_ok_fns p : mono_input_ok p = true ->
  (forall f, In f (p_fns p) -> is_generic f = false -> FOK (struct_ids p) f)
  /\ GALL (struct_ids p) (p_fns p).
Proof.
  unfold mono_input_ok. intro H. apply andb_true_iff in H as [H Hf]. clear H.
  rewrite forallb_forall in Hf. split.
  - intros f Hin Hg. specialize (Hf f Hin). unfold fn_input_ok in Hf. rewrite Hg in Hf.
    apply andb_true_iff in Hf as [Hb Ht]. split; [exact Hg|split; [|exact Hb]].
    intros t Hi. rewrite forallb_forall in Ht. apply Ht. exact Hi.
  - intros g Hin Hg. specialize (Hf g Hin). unfold fn_input_ok in Hf. rewrite Hg in Hf.
    apply andb_true_iff in Hf as [Hb Ht]. split; [|exact Hb].
    intros t Hi. rewrite forallb_forall in Ht. specialize (Ht t Hi). apply andb_true_iff in Ht. exact Ht.
Qed.

Lemma input_ok_structs p s : mono_input_ok p = true -> In s (p_structs p) ->
  forallb (fun t => negb (has_param t)) (s_fields s) = true.
Proof.
  unfold mono_input_ok. intros H Hin. apply andb_true_iff in H as [H _]. apply andb_true_iff in H as [_ H].
  rewrite forallb_forall in H. specialize (H s Hin). apply andb_true_iff in H as [_ H].
  apply forallb_forall. intros t Ht. rewrite forallb_forall in H. specialize (H t Ht).
  unfold closedb in H. apply andb_true_iff in H. apply H.
Qed.

Lemma input_ok_plain p : mono_input_ok p = true -> plain_prog p = true.
Proof. unfold mono_input_ok. intro H. apply andb_true_iff in H as [H _]. apply andb_true_iff in H. apply H. Qed.

Lemma find_struct_id p k : In k (struct_ids p) -> exists s, find_struct p (NPlain k) = Some s.
Proof.
  unfold struct_ids. intro H. apply in_flat_map in H as [s [Hs Hk]].
  destruct (s_name s) as [j|j l] eqn:En; [|contradiction]. destruct Hk as [<-|[]].
  unfold find_struct. apply find_exists with (x := s); [exact Hs|].
  rewrite En. cbn. apply N.eqb_refl.
Qed.

(* rewriting call sites leaves types and struct literals alone *)
Lemma rewrite_stmt_casts fs insts f s :
  match rewrite_stmt fs insts f s with MCast a b => [a; b] | _ => [] end = match s with MCast a b => [a; b] | _ => [] end
  /\ match rewrite_stmt fs insts f s with MInit n => [n] | _ => [] end = match s with MInit n => [n] | _ => [] end.
Proof.
  destruct s as [[n|n k] args|n|a b]; cbn; try (split; reflexivity).
  destruct (generic_fn fs n); [|split; reflexivity].
  destruct (infer_type_args _ f args); [|split; reflexivity].
  destruct (has_inst insts n _); split; reflexivity.
Qed.

Lemma fn_types_rewrite fs insts f : fn_types (rewrite_fn fs insts f) = fn_types f.
Proof.
  unfold rewrite_fn. destruct (is_generic f); [reflexivity|]. unfold fn_types. cbn [m_ret m_params m_locals m_body].
  f_equal. f_equal. f_equal. induction (m_body f) as [|s r IH]; [reflexivity|].
  cbn [map flat_map]. rewrite IH. f_equal. apply (proj1 (rewrite_stmt_casts fs insts f s)).
Qed.

Lemma inits_rewrite fs insts f :
  flat_map (fun s => match s with MInit n => [n] | _ => [] end) (m_body (rewrite_fn fs insts f))
  = flat_map (fun s => match s with MInit n => [n] | _ => [] end) (m_body f).
Proof.
  unfold rewrite_fn. destruct (is_generic f); [reflexivity|]. cbn [m_body].
  induction (m_body f) as [|s r IH]; [reflexivity|].
  cbn [map flat_map]. rewrite IH. f_equal. apply (proj2 (rewrite_stmt_casts fs insts f s)).
Qed.

Lemma is_generic_rewrite fs insts f : is_generic (rewrite_fn fs insts f) = is_generic f.
Proof. unfold rewrite_fn. destruct (is_generic f) eqn:E; [exact E|]. unfold is_generic in *. exact E. Qed.

(* ---- the theorem *)
Theorem mono_closed_outside_open_classes p :
  mono_input_ok p = true -> calls_resolved p = true -> wf_mono p (monomorphize p) = true.
Proof.
  intros Hok Hres. set (S := struct_ids p).
  destruct (input_ok_fns p Hok) as [Horig HG].
  (* every function the loop creates is closed *)
  assert (Hnew : Forall (FOK S) (snd (mono_insts p))).
  { unfold mono_insts. apply rounds_FOK; [exact HG| |constructor].
    change (requests (p_fns p)) with (requests_from (p_fns p) (p_fns p)).
    apply requests_from_REQ'. exact Horig. }
  (* every function of the result comes from a closed one *)
  assert (Hout : forall f, In f (p_fns (monomorphize p)) ->
            exists f0, FOK S f0 /\ fn_types f = fn_types f0
              /\ flat_map (fun s => match s with MInit n => [n] | _ => [] end) (m_body f)
                 = flat_map (fun s => match s with MInit n => [n] | _ => [] end) (m_body f0)
              /\ is_generic f = false).
  { intros f Hf. unfold monomorphize in Hf. destruct (mono_insts p) as [insts newf]. cbn [snd p_fns] in *.
    apply filter_In in Hf as [Hf Hng]. apply in_map_iff in Hf as [f0 [<- H0]].
    rewrite is_generic_rewrite in Hng. apply negb_true_iff in Hng.
    exists f0. split; [|split; [apply fn_types_rewrite|split; [apply inits_rewrite|rewrite is_generic_rewrite; exact Hng]]].
    apply in_app_or in H0 as [H0|H0]; [apply Horig; assumption|].
    rewrite Forall_forall in Hnew. apply Hnew. exact H0. }
  assert (Hst : p_structs (monomorphize p) = p_structs p).
  { unfold monomorphize. destruct (mono_insts p). reflexivity. }
  unfold wf_mono. apply andb_true_iff. split; [apply andb_true_iff; split; [apply andb_true_iff; split|]|].
  - (* no type parameter left *)
    apply forallb_forall. intros f Hf. destruct (Hout f Hf) as (f0 & (_ & Ht & _) & Et & _ & Hg).
    unfold no_params_fn. rewrite Hg. cbn [negb andb]. rewrite Et. apply forallb_forall. intros t Hi.
    specialize (Ht t Hi). apply CT_split in Ht as [A _]. rewrite A. reflexivity.
  - (* every struct named exists *)
    apply forallb_forall. intros f Hf. destruct (Hout f Hf) as (f0 & (_ & Ht & Hb) & Et & Ei & _).
    unfold structs_exist_fn, named_structs. rewrite Et, Ei. apply forallb_forall. intros nm Hn.
    assert (Hk : exists k, nm = NPlain k /\ In k S).
    { apply in_app_or in Hn as [Hn|Hn].
      - apply in_map_iff in Hn as [k [<- Hk]]. exists k. split; [reflexivity|].
        apply in_flat_map in Hk as [t [Hi Hk]]. specialize (Ht t Hi). apply CT_split in Ht as [_ B].
        unfold structs_in in B. rewrite forallb_forall in B. apply memN_In. apply B. exact Hk.
      - apply in_flat_map in Hn as [s [Hs Hn]]. destruct s as [c a|n0|a b]; try contradiction.
        destruct Hn as [<-|[]]. rewrite forallb_forall in Hb. specialize (Hb _ Hs). cbn in Hb.
        destruct n0 as [k|k l]; [|discriminate]. exists k. split; [reflexivity|apply memN_In; exact Hb]. }
    destruct Hk as (k & -> & Hk). unfold find_struct. rewrite Hst.
    destruct (find_struct_id p k Hk) as [s Hs]. unfold find_struct in Hs. rewrite Hs. reflexivity.
  - (* reachable structs have no type-parameter field: there is no generic struct at all *)
    unfold reachable_fields_closed. apply forallb_forall. intros nm _.
    unfold find_struct. rewrite Hst. destruct (find _ (p_structs p)) as [s|] eqn:Ef; [|reflexivity].
    apply find_some in Ef as [Ef _]. exact (input_ok_structs p s Hok Ef).
  - (* every generic call targets the instance for its argument types *)
    apply forallb_forall. intros f Hf. unfold calls_exact_fn. apply forallb_forall. intros s Hs.
    destruct s as [[n|n k] args|nm|a b]; try reflexivity.
    + cbn [call_exact]. unfold calls_resolved in Hres. rewrite forallb_forall in Hres.
      specialize (Hres f Hf). rewrite forallb_forall in Hres. exact (Hres _ Hs).
    + apply mono_redirected_calls_exact; [apply input_ok_plain; exact Hok|exact Hf|exact Hs].
Qed.

(* ---- the exclusions are exactly the two open findings: witnesses *)
Lemma generic_struct_excluded : mono_input_ok w_generic_struct = false.
Proof. vm_compute. reflexivity. Qed.

(* fn g<T>(x: T) { let cl = fn() -> T { return x } }: the lambda (name 7) is a non-generic function
   whose parameter (the environment) and local mention T0 *)
Definition w_closure_in_generic : mprog :=
  mkmp [mkmfn (NPlain 7) [] [(0, TPtr (TStruct 8))] (TParam 0) [(1, TParam 0)] [] one_block false;
        mkmfn (NPlain 2) [0] [(0, TParam 0)] (TParam 0) [(0, TParam 0)] [] one_block false;
        mkmfn (NPlain 1) [] [] T_I64 [(0, T_I64)] [MCall (NPlain 2) [AConst T_I64]] one_block false]
       [mkms (NPlain 8) [] [TParam 0]] [].
Lemma closure_in_generic_excluded :
  mono_input_ok w_closure_in_generic = false /\ wf_mono w_closure_in_generic (monomorphize w_closure_in_generic) = false.
Proof. vm_compute. split; reflexivity. Qed.

(* and the guard is satisfiable by non-trivial programs: the whole swept family, e.g. *)
Lemma guard_nonvacuous :
  mono_input_ok w_two_types = true /\ calls_resolved w_two_types = true
  /\ mono_input_ok w_generic_calls_generic = true /\ calls_resolved w_generic_calls_generic = true
  /\ forallb (fun b => mono_input_ok (prog_with b) && calls_resolved (prog_with b)) bodies = true.
Proof. vm_compute. repeat split; reflexivity. Qed.

(* used by the check: the guard of the theorem, evaluated on the program the real lower() produced *)
Definition mono_guard (p : mprog) : bool := mono_input_ok p && calls_resolved p.
