(* C11 -- proofs about the capability gating model (Model/Caps.v). *)
From Aelys Require Import Base.Tactics Extracted.StdModules Model.Caps.
From Coq Require Import String Ascii.
Local Open Scope string_scope.
Local Open Scope list_scope.

(* ---------------------------------------------------------------- membership helpers *)
Lemma smem_In (x : string) (l : list string) : smem x l = true <-> In x l.
Proof.
  induction l as [|y l IH]; cbn [smem In]; [split; [discriminate|tauto]|].
  rewrite orb_true_iff, IH, String.eqb_eq. split; intros [H|H]; auto.
Qed.

Lemma native_eqb_eq (a b : native) : native_eqb a b = true <-> a = b.
Proof.
  destruct a as [m n], b as [m' n']; unfold native_eqb; cbn [fst snd].
  rewrite andb_true_iff, !String.eqb_eq. split; [intros [-> ->]; reflexivity|intro E; inversion E; auto].
Qed.

Lemma nmem_In (x : native) (l : list native) : nmem x l = true <-> In x l.
Proof.
  induction l as [|y l IH]; cbn [nmem In]; [split; [discriminate|tauto]|].
  rewrite orb_true_iff, IH, native_eqb_eq. split; intros [H|H]; auto.
Qed.

Lemma natives_of_module (m m' n : string) : In (m', n) (natives_of m) -> m' = m.
Proof.
  unfold natives_of. destruct (sassoc m module_natives) as [ns|]; [|intros []].
  intro H. apply in_map_iff in H as (x & E & _). inversion E; reflexivity.
Qed.

Lemma add_new_In (ns st : list native) (x : native) : In x (add_new ns st) -> In x st \/ In x ns.
Proof.
  revert st; induction ns as [|n ns IH]; intros st H; cbn [add_new] in H; [auto|].
  apply IH in H as [H|H]; [|right; right; exact H].
  destruct (nmem n st); [left; exact H|].
  apply in_app_or in H as [H|[<-|[]]]; [left; exact H|right; left; reflexivity].
Qed.

(* ---------------------------------------------------------------- std modules *)
Definition gate_of (m : string) : option string := sassoc m gated_arms.

(* a module whose arm is gated by bit `bit` yields no natives when the bit is off *)
Lemma register_gated_denied (c : config) (m bit : string) :
  gate_of m = Some bit -> cap_bit c bit = false -> register c m = RErrR ECapabilityDenied \/ register c m = RErrR EUndefined.
Proof.
  intros Hg Hb. unfold register. destruct (smem m register_arms); [|right; reflexivity].
  unfold gate_of in Hg. rewrite Hg, Hb. left; reflexivity.
Qed.

Lemma std_natives_module (c : config) (m m' n : string) : In (m', n) (std_natives c m) -> m' = m.
Proof.
  unfold std_natives. destruct (smem m std_modules); [|intros []].
  unfold register. destruct (smem m register_arms); [|intros []].
  destruct (sassoc m gated_arms) as [bit|].
  - destruct (cap_bit c bit); [apply natives_of_module|intros []].
  - apply natives_of_module.
Qed.

Lemma std_natives_gated_empty (c : config) (m bit : string) :
  gate_of m = Some bit -> cap_bit c bit = false -> std_natives c m = [].
Proof.
  intros Hg Hb. unfold std_natives. destruct (smem m std_modules); [|reflexivity].
  destruct (register_gated_denied c m bit Hg Hb) as [-> | ->]; reflexivity.
Qed.

Lemma request_natives_gated (c : config) (m bit : string) (r : load_request) (n : string) :
  gate_of m = Some bit -> cap_bit c bit = false -> ~ In (m, n) (request_natives c r).
Proof.
  intros Hg Hb Hin. destruct r as [m0|gs]; cbn [request_natives] in Hin.
  - pose proof (std_natives_module c m0 m n Hin) as ->. rewrite (std_natives_gated_empty c m0 bit Hg Hb) in Hin. exact Hin.
  - apply in_flat_map in Hin as (m0 & _ & Hin).
    pose proof (std_natives_module c m0 m n Hin) as ->. rewrite (std_natives_gated_empty c m0 bit Hg Hb) in Hin. exact Hin.
Qed.

Lemma reachable_from_gated (c : config) (m bit : string) :
  gate_of m = Some bit -> cap_bit c bit = false ->
  forall reqs st n, In (m, n) (reachable_from st c reqs) -> In (m, n) st.
Proof.
  intros Hg Hb reqs; induction reqs as [|r reqs IH]; intros st n H; unfold reachable_from in *; cbn [fold_left] in H; [exact H|].
  apply IH in H. apply add_new_In in H as [H|H]; [exact H|].
  exfalso. exact (request_natives_gated c m bit r n Hg Hb H).
Qed.

(* the initial VM registers nothing of a gated module *)
Definition init_free_of (m : string) : bool := forallb (fun x => negb (String.eqb (fst x) m)) vm_init.

Lemma init_free_spec (m n : string) : init_free_of m = true -> ~ In (m, n) vm_init.
Proof.
  intros H Hin. unfold init_free_of in H. rewrite forallb_forall in H. specialize (H _ Hin).
  cbn [fst] in H. rewrite String.eqb_refl in H. discriminate H.
Qed.

Lemma gated_unreachable (c : config) (m bit : string) :
  gate_of m = Some bit -> init_free_of m = true -> cap_bit c bit = false ->
  forall reqs n, ~ In (m, n) (reachable_natives c reqs).
Proof.
  intros Hg Hi Hb reqs n H. apply (reachable_from_gated c m bit Hg Hb) in H. exact (init_free_spec m n Hi H).
Qed.

Lemma fs_unreachable_lemma (c : config) :
  caps_fs c = false -> forall reqs n, ~ In ("fs", n) (reachable_natives c reqs).
Proof. intro H. apply (gated_unreachable c "fs" "fs"); [reflexivity|vm_compute; reflexivity|exact H]. Qed.

Lemma net_unreachable_lemma (c : config) :
  caps_net c = false -> forall reqs n, ~ In ("net", n) (reachable_natives c reqs).
Proof. intro H. apply (gated_unreachable c "net" "net"); [reflexivity|vm_compute; reflexivity|exact H]. Qed.

(* sessions: if the bit is off in every segment nothing of the module is ever registered *)
Lemma session_unreachable (m bit : string) :
  gate_of m = Some bit -> init_free_of m = true ->
  forall segs, Forall (fun seg => cap_bit (fst seg) bit = false) segs ->
  forall n, ~ In (m, n) (reachable_session segs).
Proof.
  intros Hg Hi segs Hall n. unfold reachable_session.
  assert (G : forall st, ~ In (m, n) st -> ~ In (m, n) (fold_left (fun st seg => reachable_from st (fst seg) (snd seg)) segs st)).
  { induction Hall as [|seg segs Hseg _ IH]; intros st Hst; cbn [fold_left]; [exact Hst|].
    apply IH. intro H. apply Hst. exact (reachable_from_gated (fst seg) m bit Hg Hseg (snd seg) st n H). }
  apply G. apply init_free_spec; exact Hi.
Qed.

Lemma fs_session_unreachable_lemma :
  forall segs, Forall (fun seg => caps_fs (fst seg) = false) segs -> forall n, ~ In ("fs", n) (reachable_session segs).
Proof. apply (session_unreachable "fs" "fs"); [reflexivity|vm_compute; reflexivity]. Qed.

(* what is registered is a std native or was there from the start *)
Lemma std_natives_known (c : config) (m m' n : string) : In (m', n) (std_natives c m) -> In (m', n) (natives_of m').
Proof.
  intro H. pose proof (std_natives_module c m m' n H) as ->. revert H.
  unfold std_natives. destruct (smem m std_modules); [|intros []].
  unfold register. destruct (smem m register_arms); [|intros []].
  destruct (sassoc m gated_arms) as [bit|]; [destruct (cap_bit c bit); [auto|intros []]|auto].
Qed.

Lemma request_natives_known (c : config) (r : load_request) (m n : string) :
  In (m, n) (request_natives c r) -> In (m, n) (natives_of m).
Proof.
  destruct r as [m0|gs]; cbn [request_natives]; intro H.
  - exact (std_natives_known c m0 m n H).
  - apply in_flat_map in H as (m0 & _ & H). exact (std_natives_known c m0 m n H).
Qed.

Lemma reachable_from_known (c : config) (reqs : list load_request) :
  forall st m n, In (m, n) (reachable_from st c reqs) -> In (m, n) st \/ In (m, n) (natives_of m).
Proof.
  induction reqs as [|r reqs IH]; intros st m n H; unfold reachable_from in *; cbn [fold_left] in H; [left; exact H|].
  apply IH in H as [H|H]; [|right; exact H].
  apply add_new_In in H as [H|H]; [left; exact H|right; exact (request_natives_known c r m n H)].
Qed.

Lemma reachable_session_known (segs : list (config * list load_request)) (m n : string) :
  In (m, n) (reachable_session segs) -> In (m, n) vm_init \/ In (m, n) (natives_of m).
Proof.
  unfold reachable_session.
  assert (G : forall st, In (m, n) (fold_left (fun st seg => reachable_from st (fst seg) (snd seg)) segs st) ->
                         In (m, n) st \/ In (m, n) (natives_of m)).
  { induction segs as [|seg segs IH]; intros st H; cbn [fold_left] in H; [left; exact H|].
    apply IH in H as [H|H]; [|right; exact H]. exact (reachable_from_known (fst seg) (snd seg) st m n H). }
  apply G.
Qed.

(* every native of a gated module re-checks its capability on each call *)
Definition gated_natives_percall (m : string) : bool := forallb (fun n => nmem n percall_guarded) (natives_of m).

Lemma call_guard_denied (c : config) (m bit n : string) :
  gate_of m = Some bit -> gated_natives_percall m = true -> cap_bit c bit = false ->
  In (m, n) (natives_of m) -> call_guard c (m, n) = CallDenied.
Proof.
  intros Hg Hp Hb Hin. unfold call_guard; cbn [fst]. unfold gate_of in Hg. rewrite Hg.
  unfold gated_natives_percall in Hp. rewrite forallb_forall in Hp. rewrite (Hp _ Hin), Hb. reflexivity.
Qed.

(* whatever the history of the session -- including configurations that permitted the module --
   a gated native that is registered refuses when called under a configuration without the bit *)
Lemma revoked_capability_refused (m bit : string) :
  gate_of m = Some bit -> gated_natives_percall m = true -> init_free_of m = true ->
  forall (segs : list (config * list load_request)) (c : config) (n : string),
    cap_bit c bit = false -> In (m, n) (reachable_session segs) -> call_guard c (m, n) = CallDenied.
Proof.
  intros Hg Hp Hi segs c n Hb Hin.
  apply reachable_session_known in Hin as [Hin|Hin]; [exfalso; exact (init_free_spec m n Hi Hin)|].
  exact (call_guard_denied c m bit n Hg Hp Hb Hin).
Qed.

Lemma fs_revoked_refused :
  forall segs c n, caps_fs c = false -> In ("fs", n) (reachable_session segs) -> call_guard c ("fs", n) = CallDenied.
Proof. apply (revoked_capability_refused "fs" "fs"); [reflexivity|vm_compute; reflexivity|vm_compute; reflexivity]. Qed.

Lemma net_revoked_refused :
  forall segs c n, caps_net c = false -> In ("net", n) (reachable_session segs) -> call_guard c ("net", n) = CallDenied.
Proof. apply (revoked_capability_refused "net" "net"); [reflexivity|vm_compute; reflexivity|vm_compute; reflexivity]. Qed.

(* lowering the capability later does not UNREGISTER anything (still true, and harmless now:
   see fs_revoked_refused) *)
Definition cfg_fs_on : config :=
  {| caps_fs := true; caps_net := false; caps_exec := false; allowed := []; denied := []; hot_reload := false |}.

Lemma lowering_caps_keeps_natives :
  caps_fs default_config = false /\
  In ("fs", "write_text") (reachable_session [(cfg_fs_on, [LStd "fs"]); (default_config, [])]).
Proof. split; [reflexivity|]. refine (proj1 (nmem_In _ _) _). vm_compute. reflexivity. Qed.

(* ---------------------------------------------------------------- exec *)
Lemma spawners_guarded : forallb (fun n => nmem n exec_guarded) spawning_natives = true.
Proof. vm_compute. reflexivity. Qed.

Lemma exec_refuses_lemma (c : config) : caps_exec c = false -> forall n, exec_guard c n <> Spawned.
Proof.
  intros H n. unfold exec_guard. destruct (nmem n exec_guarded) eqn:G; [rewrite H; discriminate|].
  destruct (nmem n spawning_natives) eqn:S; [|discriminate].
  exfalso. apply nmem_In in S. pose proof spawners_guarded as F. rewrite forallb_forall in F.
  rewrite (F _ S) in G. discriminate G.
Qed.

Lemma exec_guarded_denied (c : config) (n : native) :
  caps_exec c = false -> In n exec_guarded -> exec_guard c n = DeniedE.
Proof. intros H Hin. unfold exec_guard. apply nmem_In in Hin. rewrite Hin, H. reflexivity. Qed.

(* ---------------------------------------------------------------- effects vs gates, for every registered native *)
Lemma gates_cover_effects_true : gates_cover_effects = true.
Proof. vm_compute. reflexivity. Qed.

Lemma denied_capability_cannot_be_exercised_lemma (c : config) (n : native) (e b : string) :
  bit_of_effect e = Some b -> cap_bit c b = false -> can_perform c n e = false.
Proof.
  intros Hb Hc. unfold can_perform.
  destruct (smem e (effects_of n)) eqn:He; [|reflexivity]. cbn [andb].
  unfold effects_of in He.
  destruct (find (fun p => native_eqb (fst p) n) native_effects) as [p|] eqn:F; [|discriminate He].
  apply find_some in F as [Hin Heq]. apply native_eqb_eq in Heq.
  pose proof gates_cover_effects_true as G. unfold gates_cover_effects in G. rewrite forallb_forall in G.
  specialize (G p Hin). rewrite forallb_forall in G. apply smem_In in He. specialize (G e He). rewrite Hb in G.
  rewrite Heq in G. apply smem_In in G.
  destruct (forallb (cap_bit c) (percall_bits n)) eqn:FA; [|reflexivity].
  rewrite forallb_forall in FA. rewrite (FA b G) in Hc. discriminate Hc.
Qed.

Lemma registration_sites_known : unknown_registrations registration_sites = [].
Proof. vm_compute. reflexivity. Qed.

(* ---------------------------------------------------------------- native capabilities *)
Lemma deny_beats_allow_lemma (c : config) (cap : string) :
  In cap (denied c) -> check_native_capability c cap = false.
Proof. intro H. unfold check_native_capability. apply smem_In in H. rewrite H. destruct (std_bit_off c cap); reflexivity. Qed.

Lemma std_bits_deny_native_lemma (c : config) (cap bit : string) :
  native_caps_consult_std_bits = true -> sassoc cap cap_bits = Some bit -> cap_bit c bit = false ->
  check_native_capability c cap = false.
Proof. intros F A B. unfold check_native_capability, std_bit_off. rewrite F, A, B. reflexivity. Qed.

Lemma check_caps_denied (c : config) (caps : list string) (cap : string) :
  In cap caps -> In cap (denied c) -> exists bad, check_native_capabilities c caps = Some bad.
Proof.
  intros Hin Hd. unfold check_native_capabilities.
  destruct (find (fun cap0 => negb (check_native_capability c cap0)) caps) as [bad|] eqn:F; [exists bad; reflexivity|].
  exfalso. pose proof (find_none _ _ F cap Hin) as H. cbv beta in H.
  rewrite (deny_beats_allow_lemma c cap Hd) in H. discriminate H.
Qed.

(* ---------------------------------------------------------------- FNV-1a: file = bytes *)
Lemma fold_left_concat {A B} (f : A -> B -> A) (ls : list (list B)) (a : A) :
  fold_left (fun h l => fold_left f l h) ls a = fold_left f (List.concat ls) a.
Proof.
  revert a; induction ls as [|l ls IH]; intro a; cbn [fold_left List.concat]; [reflexivity|].
  rewrite fold_left_app. apply IH.
Qed.

Lemma fnv_file_eq_fnv_bytes_lemma (chunks : list (list N)) : fnv_file chunks = fnv_bytes (List.concat chunks).
Proof.
  unfold fnv_file, fnv_bytes.
  change fnv_prime_file with fnv_prime_bytes. change fnv_offset_file with fnv_offset_bytes.
  apply fold_left_concat.
Qed.

(* ---------------------------------------------------------------- native module decisions *)
Section Decisions.
  Variables (vreq ver : Type).
  Variable sat : vreq -> ver -> bool.
  Notation decision := (native_module_decision vreq ver sat).
  Notation policy := (policy vreq).
  Notation nfile := (nfile ver).

  Lemma cap_denied_refuses (c : config) (p : policy) (f : nfile) (cap : string) :
    In cap (p_caps p) -> In cap (denied c) ->
    exists bad, decision c (Some p) f = [ERefusedCap bad].
  Proof.
    intros Hin Hd. destruct (check_caps_denied c (p_caps p) cap Hin Hd) as (bad & E).
    exists bad. unfold native_module_decision. destruct (p_caps p) as [|x xs] eqn:Ec; [destruct Hin|].
    rewrite E. reflexivity.
  Qed.

  Lemma checksum_mismatch_refuses_lemma (c : config) (p : policy) (f : nfile) (expected : N) :
    p_checksum p = Some expected -> fnv_bytes (List.concat (f_chunks f)) <> expected ->
    has_event ELoaded (decision c (Some p) f) = false /\ has_event ERegistered (decision c (Some p) f) = false
    /\ has_event EInit (decision c (Some p) f) = false.
  Proof.
    intros Hc Hne. unfold native_module_decision. rewrite Hc.
    assert (K : forall r : list event, (if (fnv_file (f_chunks f) =? expected)%N then r else [ERefusedChecksum]) = [ERefusedChecksum]).
    { intro r. rewrite fnv_file_eq_fnv_bytes_lemma.
      destruct (N.eqb_spec (fnv_bytes (List.concat (f_chunks f))) expected) as [E|_]; [contradiction|reflexivity]. }
    destruct (p_caps p) as [|x xs]; [rewrite K; repeat split; reflexivity|].
    destruct (check_native_capabilities c (x :: xs)) as [bad|]; [repeat split; reflexivity|].
    rewrite K; repeat split; reflexivity.
  Qed.

  Definition version_ok (p : policy) (f : nfile) : bool :=
    match p_version p with
    | Some rq => match f_version f with Some v => sat rq v | None => false end
    | None => true
    end.

  (* an unsatisfied version requirement is never registered or initialised ... *)
  Lemma version_unsatisfied_refuses_lemma (c : config) (p : policy) (f : nfile) :
    version_ok p f = false ->
    has_event ERegistered (decision c (Some p) f) = false /\ has_event EInit (decision c (Some p) f) = false.
  Proof.
    intro Hv. unfold version_ok in Hv. unfold native_module_decision.
    destruct (p_version p) as [rq|]; [|discriminate Hv]. rewrite Hv.
    assert (K : forall e : N, has_event ERegistered (if (fnv_file (f_chunks f) =? e)%N then [ELoaded; ERefusedVersion] else [ERefusedChecksum]) = false
                              /\ has_event EInit (if (fnv_file (f_chunks f) =? e)%N then [ELoaded; ERefusedVersion] else [ERefusedChecksum]) = false).
    { intro e. destruct (fnv_file (f_chunks f) =? e)%N; split; reflexivity. }
    destruct (p_caps p) as [|x xs].
    - destruct (p_checksum p) as [e|]; [apply K|split; reflexivity].
    - destruct (check_native_capabilities c (x :: xs)) as [bad|]; [split; reflexivity|].
      destruct (p_checksum p) as [e|]; [apply K|split; reflexivity].
  Qed.

  (* ... but it is loaded first, whenever the capability and checksum checks pass *)
  Lemma version_checked_after_load (c : config) (p : policy) (f : nfile) :
    version_ok p f = false -> p_caps p = [] -> p_checksum p = None ->
    decision c (Some p) f = [ELoaded; ERefusedVersion].
  Proof.
    intros Hv Hc Hs. unfold version_ok in Hv. unfold native_module_decision.
    destruct (p_version p) as [rq|]; [|discriminate Hv]. rewrite Hv, Hc, Hs. reflexivity.
  Qed.

  (* every route consults the project manifest when the bytecode embeds none *)
  Lemma route_applies_project_manifest (r : route) (c : config) (project : option (manifest vreq)) (path : list string) (f : nfile) :
    route_decision vreq ver sat r c project None path f
    = decision c (match project with Some m => module_policy vreq m path | None => None end) f.
  Proof.
    destruct r; unfold route_decision, manifest_for;
      try (destruct avbc_route_project_manifest_wins); destruct project; reflexivity.
  Qed.

  (* read from the source (it is the repair of KF-C11-8): run_avbc_file looks the project manifest up first *)
  Lemma project_manifest_wins_flag : avbc_route_project_manifest_wins = true.
  Proof. reflexivity. Qed.

  (* an embedded manifest speaks for bytecode only, and only where no project manifest is *)
  Lemma avbc_route_embedded_manifest (c : config) (emb : manifest vreq) (path : list string) (f : nfile) :
    route_decision vreq ver sat RAvbc c None (Some emb) path f = decision c (module_policy vreq emb path) f.
  Proof. unfold route_decision, manifest_for. rewrite ?project_manifest_wins_flag. reflexivity. Qed.

  (* on every route, whatever manifest the file carries itself, a project manifest that is there decides *)
  Lemma project_manifest_decides (r : route) (c : config) (m : manifest vreq) (emb : option (manifest vreq))
        (path : list string) (f : nfile) :
    route_decision vreq ver sat r c (Some m) emb path f = decision c (module_policy vreq m path) f.
  Proof.
    destruct r; unfold route_decision, manifest_for; rewrite ?project_manifest_wins_flag; reflexivity.
  Qed.

  (* hence: a capability the configuration denies, listed by the project manifest's entry, refuses on every
     route and under every embedded manifest *)
  Lemma denied_capability_refuses_on_every_route (r : route) (c : config) (m : manifest vreq) (emb : option (manifest vreq))
        (p : policy) (path : list string) (f : nfile) (cap : string) :
    module_policy vreq m path = Some p -> In cap (p_caps p) -> In cap (denied c) ->
    exists bad, route_decision vreq ver sat r c (Some m) emb path f = [ERefusedCap bad].
  Proof.
    intros Hm Hin Hd. rewrite project_manifest_decides, Hm. exact (cap_denied_refuses c p f cap Hin Hd).
  Qed.

End Decisions.

(* concrete witnesses (versions as triples, requirement `>= v`) *)
Definition w_policy_version : policy ver3 := {| p_caps := []; p_checksum := None; p_version := Some (9, 0, 0)%N |}.
Definition w_policy_denied : policy ver3 := {| p_caps := ["danger"]; p_checksum := None; p_version := None |}.
Definition w_file : nfile ver3 := {| f_chunks := [[1; 2; 3]; [4]]%N; f_version := Some (0, 1, 0)%N |}.
Definition w_cfg_deny : config :=
  {| caps_fs := false; caps_net := false; caps_exec := false; allowed := []; denied := ["danger"]; hot_reload := false |}.

Lemma version_after_load_witness :
  version_ok ver3 ver3 ver_geb w_policy_version w_file = false /\
  has_event ELoaded (native_module_decision ver3 ver3 ver_geb default_config (Some w_policy_version) w_file) = true.
Proof. vm_compute. split; reflexivity. Qed.

Lemma routes_agree_witness :
  route_decision ver3 ver3 ver_geb RSource w_cfg_deny (Some [("sentry", w_policy_denied)]) None ["sentry"] w_file = [ERefusedCap "danger"] /\
  route_decision ver3 ver3 ver_geb RAasm w_cfg_deny (Some [("sentry", w_policy_denied)]) None ["sentry"] w_file = [ERefusedCap "danger"] /\
  route_decision ver3 ver3 ver_geb RAvbc w_cfg_deny (Some [("sentry", w_policy_denied)]) None ["sentry"] w_file = [ERefusedCap "danger"].
Proof. vm_compute. repeat split; reflexivity. Qed.

(* OLD DEFINITION ONLY (before the repair of KF-C11-2) *)
Lemma old_routes_ignored_manifest :
  route_decision_before_fix ver3 ver3 ver_geb RAasm w_cfg_deny (Some [("sentry", w_policy_denied)]) None ["sentry"] w_file = [ELoaded; EInit; ERegistered] /\
  route_decision_before_fix ver3 ver3 ver_geb RAvbc w_cfg_deny (Some [("sentry", w_policy_denied)]) None ["sentry"] w_file = [ELoaded; EInit; ERegistered].
Proof. vm_compute. split; reflexivity. Qed.

(* ---------------------------------------------------------------- flag spellings *)
Definition caps_of (r : presult) : option (bool * bool * bool) :=
  match r with POk c _ => Some (caps_fs c, caps_net c, caps_exec c) | _ => None end.

Definition bstr (b : bool) : string := if b then "true" else "false".
(* the three documented ways to say "fs = a, net = b, exec = x" *)
Definition spelling_caps (a b x : bool) : list string :=
  (if a then ["--allow-caps=fs"] else ["--deny-caps=fs"]) ++
  (if b then ["--allow-caps=net"] else ["--deny-caps=net"]) ++
  (if x then ["--allow-caps=exec"] else ["--deny-caps=exec"]).
Definition spelling_list (a b x : bool) : list string :=
  let on := (if a then ["fs"] else []) ++ (if b then ["net"] else []) ++ (if x then ["exec"] else []) in
  match on with [] => [] | _ => [("--allow-caps=" ++ String.concat "," on)%string] end.
Definition spelling_dash (a b x : bool) : list string :=
  [("--ae-allow-fs=" ++ bstr a)%string; ("--ae-allow-net=" ++ bstr b)%string; ("--ae-allow-exec=" ++ bstr x)%string].
Definition spelling_dot (a b x : bool) : list string :=
  [("-ae.allow-fs=" ++ bstr a)%string; ("-ae.allow-net=" ++ bstr b)%string; ("-ae.allow-exec=" ++ bstr x)%string].

Lemma flag_spellings_agree_lemma (a b x : bool) :
  caps_of (parse_args (spelling_caps a b x)) = Some (a, b, x) /\
  caps_of (parse_args (spelling_list a b x)) = Some (a, b, x) /\
  caps_of (parse_args (spelling_dash a b x)) = Some (a, b, x) /\
  caps_of (parse_args (spelling_dot a b x)) = Some (a, b, x).
Proof. destruct a, b, x; vm_compute; repeat split; reflexivity. Qed.

Lemma default_denies_everything : caps_of (parse_args []) = Some (false, false, false).
Proof. reflexivity. Qed.

Lemma trusted_enables_everything (a b x : bool) :
  caps_of (parse_args (spelling_dash a b x ++ ["--ae-trusted=true"])) = Some (true, true, true) /\
  caps_of (parse_args ("-ae.trusted=true" :: spelling_caps a b x)) = Some (true, true, true).
Proof. destruct a, b, x; vm_compute; split; reflexivity. Qed.

(* the bits follow the LAST flag; the native deny-set keeps the earlier deny *)
Lemma deny_then_allow_is_order_dependent :
  caps_of (parse_args ["--deny-caps=fs"; "--allow-caps=fs"]) = Some (true, false, false) /\
  caps_of (parse_args ["--allow-caps=fs"; "--deny-caps=fs"]) = Some (false, false, false) /\
  (match parse_args ["--deny-caps=fs"; "--allow-caps=fs"] with
   | POk c _ => check_native_capability c "fs" | _ => true end) = false.
Proof. vm_compute. repeat split; reflexivity. Qed.

(* ---------------------------------------------------------------- the extracted tables have the shape the model assumes *)
Definition tables_ok : bool :=
  (* every std module has a registration arm and vice versa *)
  forallb (fun m => smem m register_arms) std_modules && forallb (fun m => smem m std_modules) register_arms &&
  (* fs and net are gated by their own bit; nothing else is gated *)
  (match gated_arms with [("fs", "fs"); ("net", "net")] => true | _ => false end) &&
  (* auto-registered modules are not gated *)
  forallb (fun m => match sassoc m gated_arms with None => true | Some _ => false end) auto_registered &&
  (* the capability names and --ae keys denote the three bits *)
  (match cap_bits with [("fs", "fs"); ("net", "net"); ("exec", "exec")] => true | _ => false end) &&
  (match ae_keys with [("allow-fs", "fs"); ("allow-net", "net"); ("allow-exec", "exec")] => true | _ => false end) &&
  (* every native that spawns a process tests allow_exec first *)
  forallb (fun n => nmem n exec_guarded) spawning_natives &&
  (* check order *)
  slist_eqb native_cap_check_order ["Denied"; "AllowedEmpty"; "Allowed"] &&
  slist_eqb dynamic_check_order ["Caps"; "Checksum"; "Load"; "Version"] &&
  slist_eqb embedded_check_order ["Caps"; "Checksum"; "Load"; "Version"] &&
  (* every policy component (capabilities, checksum, required_version) is looked up under one and the same key,
     and that key is the last segment of the import path (native_module_decision takes ONE policy) *)
  (match dynamic_policy_lookup_keys with k :: r => forallb (String.eqb k) r && negb (match r with [] => true | _ => false end) | [] => false end) &&
  (match embedded_policy_lookup_keys with k :: r => forallb (String.eqb k) r | [] => false end) &&
  dynamic_policy_key_is_last_segment &&
  empty_capability_list_skips_check && source_route_uses_project_manifest &&
  aasm_route_uses_project_manifest && avbc_route_falls_back_to_project_manifest && avbc_route_project_manifest_wins &&
  (* manifest discovery and embedding: `<file name>.toml` for any entry file, then aelys.toml; compile embeds whatever it found *)
  per_file_manifest_is_filename_dot_toml && directory_manifest_is_aelys_toml && compile_embeds_manifest_whenever_present &&
  (* round-4 repairs: std capability bits govern native modules, the policy lookup tries the dotted key, an unreadable manifest is an error *)
  native_caps_consult_std_bits && policy_lookup_tries_dotted_path && unparsable_manifest_is_an_error &&
  (* the import spelling `needs m.symbol` reaches load_native_module with the path of the module m (route_decision takes the MODULE path) *)
  symbol_import_keeps_module_path &&
  (* every native of std.fs / std.net re-checks its capability per call *)
  gated_natives_percall "fs" && gated_natives_percall "net" &&
  (* no native outside the gated modules touches files / processes / sockets unchecked *)
  (match ungated_effectful with [] => true | _ => false end) &&
  N.eqb fnv_offset_file fnv_offset_bytes && N.eqb fnv_prime_file fnv_prime_bytes.

Lemma tables_ok_true : tables_ok = true.
Proof. vm_compute. reflexivity. Qed.

(* concrete non-trivial instance: all three capabilities off, many requests, 159 natives, none of fs/net *)
Definition nv_requests : list load_request :=
  [LStd "sys"; LStd "fs"; LNames ["fs::write_text"; "net::connect"; "bytes::alloc"]; LStd "net"; LStd "bytes"].
Lemma nonvacuous :
  caps_fs default_config = false /\ caps_net default_config = false /\
  List.length (reachable_natives default_config nv_requests) = 209 /\
  forallb (fun n => negb (String.eqb (fst n) "fs") && negb (String.eqb (fst n) "net")) (reachable_natives default_config nv_requests) = true /\
  nmem ("sys", "exec") (reachable_natives default_config nv_requests) = true /\
  exec_guard default_config ("sys", "exec") = DeniedE.
Proof. vm_compute. repeat split; reflexivity. Qed.
