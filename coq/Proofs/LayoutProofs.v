(* Lemmas for C18: the bit trick of align_to, struct_layout against the System V rules,
   correctness of compute_layouts for whole environments, Kahn's algorithm (soundness,
   completeness), diagnosis of by-value recursion and of sizes that do not fit u32. *)
From Coq Require Import Permutation.
From Aelys Require Import Base.Tactics Extracted.LayoutTable Model.Layout Model.SysV.
Local Open Scope N_scope.

(* ------------------------------------------------------------------ part a *)
Lemma round_up_spec x a : 0 < a ->
  (round_up x a) mod a = 0 /\ x <= round_up x a /\ round_up x a < x + a /\
  (forall m, m mod a = 0 -> x <= m -> round_up x a <= m).
Proof.
  intro Ha. unfold round_up.
  pose proof (N.div_mod (x + (a - 1)) a ltac:(lia)) as E.
  pose proof (N.mod_upper_bound (x + (a - 1)) a ltac:(lia)) as R.
  set (q := (x + (a - 1)) / a) in *. set (r := (x + (a - 1)) mod a) in *.
  repeat split.
  - rewrite N.mul_comm. apply N.mod_mul. lia.
  - lia.
  - lia.
  - intros m Hm Hx.
    pose proof (N.div_mod m a ltac:(lia)) as Em. rewrite Hm in Em.
    destruct (N.le_gt_cases q (m / a)) as [L|G].
    + rewrite Em. rewrite N.add_0_r. apply N.mul_le_mono_l. exact L.
    + assert (m / a + 1 <= q) by lia.
      assert (a * (m / a + 1) <= a * q) by (apply N.mul_le_mono_l; assumption).
      lia.
Qed.

Lemma land_not32 u k : u < 2^32 -> k <= 32 ->
  N.land u (not32 (N.ones k)) = N.shiftl (N.shiftr u k) k.
Proof.
  intros Hu Hk. apply N.bits_inj. intro n.
  rewrite N.land_spec. unfold not32. rewrite N.lxor_spec.
  destruct (N.lt_ge_cases n k) as [L|G].
  - rewrite N.shiftl_spec_low by exact L.
    rewrite (N.ones_spec_low k n) by exact L.
    rewrite (N.ones_spec_low 32 n) by lia. cbn. apply andb_false_r.
  - rewrite N.shiftl_spec_high' by exact G.
    rewrite N.shiftr_spec'. replace (n - k + k) with n by lia.
    rewrite (N.ones_spec_high k n) by exact G.
    destruct (N.lt_ge_cases n 32) as [L2|G2].
    + rewrite (N.ones_spec_low 32 n) by exact L2. cbn. apply andb_true_r.
    + rewrite (N.ones_spec_high 32 n) by exact G2. cbn. rewrite andb_false_r.
      symmetry. rewrite <- (N.mod_small u (2^32)) by exact Hu.
      apply N.mod_pow2_bits_high. exact G2.
Qed.


(* ------------------------------------------------------------------ align_to *)
Lemma W32_pow : W32 = 2^32. Proof. reflexivity. Qed.

Lemma mask_down u k : u < W32 -> k <= 32 ->
  N.land u (not32 (2^k - 1)) = 2^k * (u / 2^k).
Proof.
  intros Hu Hk. replace (2^k - 1) with (N.ones k) by (rewrite N.ones_equiv; lia).
  rewrite land_not32; [|exact Hu|exact Hk].
  rewrite N.shiftl_mul_pow2, N.shiftr_div_pow2. apply N.mul_comm.
Qed.

Lemma pow2_divides_W32 k : k <= 32 -> 2^k * 2^(32 - k) = W32.
Proof. intro H. rewrite <- N.pow_add_r. replace (k + (32 - k)) with 32 by lia. reflexivity. Qed.

Definition is_al (a : N) : Prop := exists k, k < 32 /\ a = 2^k.
Lemma is_al_max a b : is_al a -> is_al b -> is_al (N.max a b).
Proof. intros Ha Hb. destruct (N.max_spec a b) as [[_ ->]|[_ ->]]; assumption. Qed.
Lemma is_al_1 : is_al 1. Proof. exists 0. split; [lia|reflexivity]. Qed.
Lemma is_al_pos a : is_al a -> 0 < a.
Proof. intros [k [_ ->]]. apply N.neq_0_lt_0. apply N.pow_nonzero. lia. Qed.

(* the rounded value fits u32 exactly when the intermediate sum does *)
Lemma round_up_fits x a : is_al a -> (W32 <=? x + (a - 1)) = (W32 <=? round_up x a).
Proof.
  intros [k [Hk ->]]. set (a := 2^k).
  assert (Ha : 0 < a) by (apply N.neq_0_lt_0; apply N.pow_nonzero; lia).
  pose proof (pow2_divides_W32 k ltac:(lia)) as Hc. fold a in Hc. set (c := 2^(32-k)) in *.
  unfold round_up.
  pose proof (N.mul_div_le (x + (a - 1)) a ltac:(lia)) as Le.
  destruct (W32 <=? x + (a - 1)) eqn:C1; symmetry.
  - apply N.leb_le. apply N.leb_le in C1.
    assert (c <= (x + (a - 1)) / a).
    { replace c with (W32 / a); [apply N.div_le_mono; lia|]. rewrite <- Hc. rewrite N.mul_comm. apply N.div_mul. lia. }
    rewrite <- Hc. apply N.mul_le_mono_l. assumption.
  - apply N.leb_gt. apply N.leb_gt in C1. lia.
Qed.

Lemma bind_ok {A B} (r : res A) (f : A -> res B) b :
  bind r f = Ok b -> exists a, r = Ok a /\ f a = Ok b.
Proof. destruct r; cbn; [eauto|discriminate]. Qed.

(* align_to, exactly: the least multiple if it fits u32, TooLarge otherwise *)
Lemma align_to_char o a : is_al a -> o < W32 ->
  align_to o a = if W32 <=? round_up o a then Fail ETooLarge else Ok (round_up o a).
Proof.
  intros Hal Ho. rewrite <- (round_up_fits o a Hal). destruct Hal as [k [Hk ->]].
  unfold align_to, add32. destruct (W32 <=? o + (2^k - 1)) eqn:C; [reflexivity|].
  cbn [bind]. apply N.leb_gt in C. rewrite mask_down by lia. reflexivity.
Qed.

Lemma align_to_exact o k : k < 32 -> o + 2^k <= W32 -> align_to o (2^k) = Ok (round_up o (2^k)).
Proof.
  intros Hk G. assert (Ha : 0 < 2^k) by (apply N.neq_0_lt_0; apply N.pow_nonzero; lia).
  assert (Hal : is_al (2^k)) by (exists k; auto).
  rewrite align_to_char by (auto; lia). rewrite <- (round_up_fits o _ Hal).
  replace (W32 <=? o + (2^k - 1)) with false by lia. reflexivity.
Qed.

(* ------------------------------------------------------------------ struct level *)
Definition als (ms : c_members_t) : Prop := Forall (fun sa => is_al (snd sa)) ms.

Lemma Forall2_imp {A B} (P Q : A -> B -> Prop) l l' :
  (forall a b, P a b -> Q a b) -> Forall2 P l l' -> Forall2 Q l l'.
Proof. intros H F. induction F; constructor; auto. Qed.

Lemma c_align_ge1 ms : 1 <= c_align ms.
Proof. induction ms as [|[s a] r IH]; [cbn; lia|]. unfold c_align in *. cbn [fold_right]. lia. Qed.

Lemma c_align_is_al ms : als ms -> is_al (c_align ms).
Proof.
  induction 1 as [|[s a] r H _ IH]; [apply is_al_1|]. unfold c_align in *. cbn [fold_right]. apply is_al_max; assumption.
Qed.

Lemma round_up_ge x a : is_al a -> x <= round_up x a.
Proof. intro H. apply (round_up_spec x a (is_al_pos a H)). Qed.

Lemma c_offsets_bounds ms : als ms -> forall e,
  e <= snd (c_offsets ms e) /\
  Forall2 (fun o sa => e <= o /\ o + fst sa <= snd (c_offsets ms e)) (fst (c_offsets ms e)) ms.
Proof.
  induction 1 as [|[s a] r Ha Hr IH]; intro e; cbn [c_offsets]; [cbn; split; [lia|constructor]|].
  specialize (IH (round_up e a + s)). destruct (c_offsets r (round_up e a + s)) as [os e'].
  cbn [fst snd] in *. destruct IH as [I1 I2]. pose proof (round_up_ge e a Ha) as G.
  split; [lia|]. constructor; [cbn; lia|].
  eapply Forall2_imp; [|exact I2]. cbn. intros o sa [X Y]. lia.
Qed.

Definition fields_resolve (m : rmap) (fs : list ty) (ms : c_members_t) : Prop :=
  Forall2 (fun t sa => resolved_layout m t = Ok sa) fs ms.

(* the field loop, exactly: the C offsets if the end of the last member fits u32 *)
Lemma fields_layout_char m fs ms : fields_resolve m fs ms -> als ms -> forall e ma, 1 <= ma -> e < W32 ->
  fields_layout m fs e ma =
  if W32 <=? snd (c_offsets ms e) then Fail ETooLarge
  else Ok (fst (c_offsets ms e), snd (c_offsets ms e), N.max ma (c_align ms)).
Proof.
  induction 1 as [|t [s a] fs ms Ht Hr IH]; intros Hal e ma Hma He.
  - cbn. replace (W32 <=? e) with false by lia. f_equal. f_equal. lia.
  - inversion Hal as [|x y Ha Hal']; subst x y. cbn [snd] in Ha.
    pose proof (c_offsets_bounds ms Hal' (round_up e a + s)) as [B1 _].
    pose proof (round_up_ge e a Ha) as Ge.
    cbn [c_offsets]. destruct (c_offsets ms (round_up e a + s)) as [os e'] eqn:CO. cbn [fst snd] in *.
    cbn [fields_layout]. rewrite Ht. cbn [bind fst snd].
    rewrite align_to_char by assumption.
    destruct (W32 <=? round_up e a) eqn:C1.
    { cbn [bind]. replace (W32 <=? e') with true by lia. reflexivity. }
    cbn [bind]. unfold add32. destruct (W32 <=? round_up e a + s) eqn:C2.
    { cbn [bind]. replace (W32 <=? e') with true by lia. reflexivity. }
    cbn [bind]. rewrite IH by (try assumption; lia). rewrite CO. cbn [fst snd].
    destruct (W32 <=? e'); cbn [bind]; [reflexivity|].
    unfold c_align. cbn [fold_right snd]. fold (c_align ms). f_equal. f_equal. lia.
Qed.

(* struct_layout, exactly: the C layout if sizeof fits u32, TooLarge otherwise *)
Lemma struct_layout_char m fs ms : fields_resolve m fs ms -> als ms ->
  struct_layout m fs =
  if W32 <=? snd (fst (c_struct_of ms)) then Fail ETooLarge else Ok (c_struct_of ms).
Proof.
  intros Hr Hal. unfold c_struct_of, struct_layout.
  pose proof (c_offsets_bounds ms Hal 0) as [B1 _].
  rewrite (fields_layout_char m fs ms Hr Hal 0 1) by (unfold W32; lia).
  destruct (c_offsets ms 0) as [os e] eqn:CO. cbn [fst snd] in *.
  pose proof (c_align_ge1 ms) as A1. pose proof (c_align_is_al ms Hal) as AL.
  pose proof (round_up_ge e (c_align ms) AL) as Ge.
  destruct (W32 <=? e) eqn:C1; cbn [bind].
  { replace (W32 <=? round_up e (c_align ms)) with true by lia. reflexivity. }
  replace (N.max 1 (c_align ms)) with (c_align ms) by lia.
  rewrite align_to_char by (auto; lia).
  destruct (W32 <=? round_up e (c_align ms)); reflexivity.
Qed.

Lemma struct_layout_exact m fs ms : fields_resolve m fs ms -> als ms ->
  snd (fst (c_struct_of ms)) < W32 -> struct_layout m fs = Ok (c_struct_of ms).
Proof.
  intros Hr Hal G. rewrite (struct_layout_char m fs ms Hr Hal).
  replace (W32 <=? snd (fst (c_struct_of ms))) with false by lia. reflexivity.
Qed.

(* ---- the extracted table is the System V table *)
Lemma prim_table_sysv p : prim_layout p = sysv_prim p.
Proof. destruct p; reflexivity. Qed.
Lemma sysv_prim_facts p : is_al (snd (sysv_prim p)) /\ fst (sysv_prim p) < W32
  /\ fst (sysv_prim p) mod snd (sysv_prim p) = 0.
Proof.
  assert (A1 : is_al 1) by (exists 0; split; [lia|reflexivity]).
  assert (A2 : is_al 2) by (exists 1; split; [lia|reflexivity]).
  assert (A4 : is_al 4) by (exists 2; split; [lia|reflexivity]).
  assert (A8 : is_al 8) by (exists 3; split; [lia|reflexivity]).
  destruct p; vm_compute; repeat split; assumption || reflexivity.
Qed.

(* ---- fuel monotonicity of the specification *)
Lemma ty_sa_ext (sl sl' : N -> option (N * N)) t v :
  (forall nm w, sl nm = Some w -> sl' nm = Some w) -> ty_sa sl t = Some v -> ty_sa sl' t = Some v.
Proof.
  intro H. revert v. induction t; intros v Hv; cbn [ty_sa] in *; auto.
  destruct (ty_sa sl t) as [[s a]|]; [|discriminate]. rewrite (IHt _ eq_refl). exact Hv.
Qed.

Lemma seq_opt_map_ext {A B} (g g' : A -> option B) l r :
  (forall x y, g x = Some y -> g' x = Some y) -> seq_opt (map g l) = Some r -> seq_opt (map g' l) = Some r.
Proof.
  intro H. revert r. induction l as [|x l IH]; intros r Hr; cbn in *; auto.
  destruct (g x) as [y|] eqn:G; [|discriminate]. rewrite (H _ _ G).
  destruct (seq_opt (map g l)) as [ys|]; [|discriminate]. rewrite (IH _ eq_refl). exact Hr.
Qed.

Lemma c_struct_sa_unfold f E nm : c_struct_sa (S f) E nm =
  match find_def E nm with
  | None => None
  | Some fs => match seq_opt (map (ty_sa (c_struct_sa f E)) fs) with
               | Some ms => let '(_, s, a) := c_struct_of ms in Some (s, a)
               | None => None end
  end.
Proof. reflexivity. Qed.

Lemma c_struct_sa_S E f : forall nm v, c_struct_sa f E nm = Some v -> c_struct_sa (S f) E nm = Some v.
Proof.
  induction f as [|f IH]; intros nm v H; [discriminate|].
  rewrite c_struct_sa_unfold in H. rewrite c_struct_sa_unfold. destruct (find_def E nm) as [fs|]; [|discriminate].
  destruct (seq_opt (map (ty_sa (c_struct_sa f E)) fs)) as [ms|] eqn:S1; [|discriminate].
  rewrite (seq_opt_map_ext _ (ty_sa (c_struct_sa (S f) E)) _ _ (fun t w => ty_sa_ext _ _ t w IH) S1).
  exact H.
Qed.

Lemma c_struct_sa_mono E f f' nm v : (f <= f')%nat -> c_struct_sa f E nm = Some v -> c_struct_sa f' E nm = Some v.
Proof. induction 1 as [|k L IH]; auto. intro Hv. apply c_struct_sa_S. auto. Qed.

Lemma ty_sa_mono E f f' t v : (f <= f')%nat ->
  ty_sa (c_struct_sa f E) t = Some v -> ty_sa (c_struct_sa f' E) t = Some v.
Proof. intro L. apply ty_sa_ext. intros nm w. apply c_struct_sa_mono. exact L. Qed.

Lemma c_struct_mono E f f' fs v : (f <= f')%nat -> c_struct f E fs = Some v -> c_struct f' E fs = Some v.
Proof.
  intros L. unfold c_struct. destruct (seq_opt (map (ty_sa (c_struct_sa f E)) fs)) as [ms|] eqn:S1; [|discriminate].
  rewrite (seq_opt_map_ext _ (ty_sa (c_struct_sa f' E)) _ _ (fun t w => ty_sa_mono E f f' t w L) S1). auto.
Qed.

(* any two defined answers agree: the fuel only decides definedness *)
Lemma c_struct_det E f f' fs v v' : c_struct f E fs = Some v -> c_struct f' E fs = Some v' -> v = v'.
Proof.
  intros H H'. apply (c_struct_mono E f (Nat.max f f')) in H; [|lia].
  apply (c_struct_mono E f' (Nat.max f f')) in H'; [|lia]. congruence.
Qed.


Lemma c_struct_sa_is_al E f : forall nm s a, c_struct_sa f E nm = Some (s, a) -> is_al a.
Proof.
  induction f as [|f IH]; intros nm s a H; [discriminate|].
  rewrite c_struct_sa_unfold in H. destruct (find_def E nm) as [fs|]; [|discriminate].
  destruct (seq_opt (map (ty_sa (c_struct_sa f E)) fs)) as [ms|] eqn:S1; [|discriminate].
  assert (Hal : als ms).
  { clear H. revert ms S1. induction fs as [|t fs IHfs]; intros ms S1; cbn in S1.
    - inversion S1. constructor.
    - destruct (ty_sa (c_struct_sa f E) t) as [[s0 a0]|] eqn:T; [|discriminate].
      destruct (seq_opt (map (ty_sa (c_struct_sa f E)) fs)) as [ms'|]; [|discriminate].
      inversion S1; subst. constructor; [|apply IHfs; reflexivity]. cbn [snd].
      clear - T IH. revert s0 a0 T. induction t; intros s0 a0 T; cbn [ty_sa] in T.
      + inversion T as [T']. pose proof (proj1 (sysv_prim_facts p)) as A. rewrite T' in A. exact A.
      + inversion T; subst. exact (proj1 (sysv_prim_facts PPtr)).
      + inversion T; subst. exact (proj1 (sysv_prim_facts PSlice)).
      + eapply IH; eauto.
      + destruct (ty_sa (c_struct_sa f E) t) as [[s1 a1]|]; [|discriminate]. inversion T; subst. eapply IHt; eauto. }
  unfold c_struct_of in H. destruct (c_offsets ms 0). inversion H; subst. apply c_align_is_al. exact Hal.
Qed.

Lemma ty_fits_mono E f f' t v : (f <= f')%nat -> ty_sa (c_struct_sa f E) t = Some v ->
  ty_fits (c_struct_sa f E) t = true -> ty_fits (c_struct_sa f' E) t = true.
Proof.
  intro L. revert v. induction t; intros v Hv Hf; cbn [ty_fits] in *; auto.
  apply andb_true_iff in Hf as [F1 F2].
  destruct (ty_sa (c_struct_sa f E) (TArray t n)) as [[s a]|] eqn:T; [|discriminate].
  rewrite (ty_sa_mono E f f' _ _ L T).
  cbn [ty_sa] in T. destruct (ty_sa (c_struct_sa f E) t) as [[s0 a0]|] eqn:T0; [|discriminate].
  rewrite (IHt _ eq_refl F1). exact F2.
Qed.

(* ---- from a successful run of the model to the specification (exact values) *)
Definition m_ok (E : list sdef) (m : rmap) : Prop :=
  forall nm s a, rlookup m nm = Some (s, a) ->
    exists f, c_struct_sa f E nm = Some (s, a) /\ s < W32 /\ is_al a.

Lemma resolved_to_spec E m : m_ok E m -> forall t s a,
  resolved_layout m t = Ok (s, a) ->
  exists f, ty_sa (c_struct_sa f E) t = Some (s, a) /\ ty_fits (c_struct_sa f E) t = true /\ s < W32 /\ is_al a.
Proof.
  intros Hm. induction t; intros s a H; cbn [resolved_layout] in H.
  - exists 0%nat. destruct (sysv_prim_facts p) as [A [B _]].
    rewrite prim_table_sysv in H. cbn [ty_sa ty_fits]. destruct (sysv_prim p) as [s0 a0]. cbn [fst snd] in *.
    inversion H; subst. auto.
  - exists 0%nat. destruct (sysv_prim_facts PPtr) as [A [B _]].
    rewrite prim_table_sysv in H. cbn [ty_sa ty_fits]. destruct (sysv_prim PPtr) as [s0 a0]. cbn [fst snd] in *.
    inversion H; subst. auto.
  - exists 0%nat. destruct (sysv_prim_facts PSlice) as [A [B _]].
    rewrite prim_table_sysv in H. cbn [ty_sa ty_fits]. destruct (sysv_prim PSlice) as [s0 a0]. cbn [fst snd] in *.
    inversion H; subst. auto.
  - destruct (rlookup m name) as [[s0 a0]|] eqn:L; [|discriminate]. inversion H; subst.
    destruct (Hm _ _ _ L) as [f [H1 [H2 H3]]]. exists f. cbn [ty_sa ty_fits]. auto.
  - apply bind_ok in H as [[s0 a0] [H1 H]]. destruct (IHt _ _ H1) as [f [T1 [T2 [T3 T4]]]].
    unfold array_layout in H. cbn [fst snd] in H. destruct (W32 <=? s0 * n) eqn:C; [discriminate|].
    inversion H; subst. exists f. cbn [ty_sa ty_fits]. rewrite T1, T2. cbn [andb].
    repeat split; auto; lia.
Qed.

Lemma fields_layout_inv m fs : forall e ma r, fields_layout m fs e ma = Ok r ->
  exists ls, Forall2 (fun t sa => resolved_layout m t = Ok sa) fs ls.
Proof.
  induction fs as [|t fs IH]; intros e ma r H; [exists []; constructor|].
  cbn [fields_layout] in H. apply bind_ok in H as [fl [H1 H]]. apply bind_ok in H as [o [H2 H]].
  apply bind_ok in H as [e' [H3 H]]. apply bind_ok in H as [x [H4 H]].
  destruct (IH _ _ _ H4) as [ls L]. exists (fl :: ls). constructor; assumption.
Qed.

Lemma fields_to_spec E m fs ms : m_ok E m -> fields_resolve m fs ms ->
  exists f, Forall2 (fun t sa => ty_sa (c_struct_sa f E) t = Some sa /\ ty_fits (c_struct_sa f E) t = true) fs ms
            /\ als ms.
Proof.
  intros Hm. induction 1 as [|t [s a] fs ms Ht _ IH].
  - exists 0%nat. split; constructor.
  - destruct IH as [f [I1 I2]].
    destruct (resolved_to_spec E m Hm _ _ _ Ht) as [f0 [T1 [T2 [T3 T4]]]].
    exists (Nat.max f f0). split.
    + constructor.
      * split; [apply (ty_sa_mono E f0); [lia|exact T1]|eapply (ty_fits_mono E f0); [lia|exact T1|exact T2]].
      * eapply Forall2_imp; [|exact I1]. intros t' sa X. cbv beta in X. destruct X as [A B]. split; [eapply ty_sa_mono; [|exact A]; lia|eapply ty_fits_mono; [|exact A|exact B]; lia].
    + constructor; [exact T4|exact I2].
Qed.

Lemma Forall2_seq_opt {A B} (g : A -> option B) l r :
  Forall2 (fun x y => g x = Some y) l r -> seq_opt (map g l) = Some r.
Proof. induction 1 as [|x y l r H _ IH]; cbn; [reflexivity|]. rewrite H, IH. reflexivity. Qed.

Lemma struct_layout_to_spec E m fs os sz al : m_ok E m ->
  struct_layout m fs = Ok (os, sz, al) ->
  exists f, c_struct f E fs = Some (os, sz, al) /\ sz < W32 /\ is_al al
            /\ (forall t, In t fs -> ty_fits (c_struct_sa f E) t = true).
Proof.
  intros Hm H. pose proof H as H0. unfold struct_layout in H0. apply bind_ok in H0 as [x [H1 _]].
  destruct (fields_layout_inv _ _ _ _ _ H1) as [ms L].
  destruct (fields_to_spec E m fs ms Hm L) as [f [S1 S3]].
  rewrite (struct_layout_char m fs ms L S3) in H.
  destruct (W32 <=? snd (fst (c_struct_of ms))) eqn:C; [discriminate|]. inversion H as [H'].
  exists f. unfold c_struct.
  rewrite (Forall2_seq_opt _ _ _ (Forall2_imp _ _ _ _ (fun t sa (X : _ /\ _) => proj1 X) S1)).
  rewrite H'. split; [reflexivity|]. rewrite H' in C. cbn [fst snd] in C. split; [lia|]. split.
  - assert (A : is_al (snd (c_struct_of ms))).
    { unfold c_struct_of. destruct (c_offsets ms 0). cbn [snd]. apply c_align_is_al. exact S3. }
    rewrite H' in A. exact A.
  - clear - S1. induction S1 as [|t sa fs ms [_ F] _ IH]; intros t' Hin; [destruct Hin|]. destruct Hin as [<-|Hin]; auto.
Qed.
Lemma find_def_nth E : NoDup (map sname E) -> forall i d, nth_error E i = Some d ->
  find_def E (sname d) = Some (sfields d).
Proof.
  induction E as [|x E IH]; intros ND i d H; [destruct i; discriminate|].
  inversion ND as [|y l Hnin ND']; subst. destruct i as [|i]; cbn in H.
  - inversion H; subst. cbn [find_def]. rewrite N.eqb_refl. reflexivity.
  - cbn [find_def]. destruct (sname x =? sname d) eqn:Eq.
    + exfalso. apply Hnin. apply N.eqb_eq in Eq. rewrite Eq. apply in_map. eapply nth_error_In; eauto.
    + eapply IH; eauto.
Qed.

Lemma nth_error_set_nth {A} (l : list A) i x : forall j y,
  nth_error (set_nth l i x) j = Some y -> (i = j /\ y = x) \/ nth_error l j = Some y.
Proof.
  revert i. induction l as [|a l IH]; intros i j y H; [destruct i; cbn in H; destruct j; discriminate|].
  destruct i as [|i]; cbn [set_nth] in H.
  - destruct j as [|j]; cbn in *; [left; split; congruence|right; exact H].
  - destruct j as [|j]; cbn in *; [right; exact H|].
    destruct (IH _ _ _ H) as [[-> ->]|R]; auto.
Qed.


Definition offs_ok (E : list sdef) (offs : list (option (list N))) : Prop :=
  forall i d os, nth_error E i = Some d -> nth_error offs i = Some (Some os) ->
    exists f s a, c_struct f E (sfields d) = Some (os, s, a) /\ struct_fits f E d.

Lemma lay_ok E : NoDup (map sname E) -> forall order m offs offs' m',
  lay E order m offs = Ok (offs', m') -> m_ok E m -> offs_ok E offs ->
  m_ok E m' /\ offs_ok E offs'.
Proof.
  intros ND. induction order as [|i order IH]; intros m offs offs' m' H Hm Ho; cbn [lay] in H.
  - inversion H; subst. auto.
  - destruct (nth_error E i) as [d|] eqn:Ed; [|discriminate].
    apply bind_ok in H as [[[os sz] al] [H1 H]].
    destruct (struct_layout_to_spec E m _ _ _ _ Hm H1) as [f [S1 [S2 [S3 S4]]]].
    apply (IH _ _ _ _ H).
    + intros nm sz' al' L. cbn [rlookup] in L. destruct (sname d =? nm) eqn:Eq; [|eapply Hm; eauto].
      inversion L; subst. apply N.eqb_eq in Eq. subst nm.
      exists (S f). split; [|auto]. rewrite c_struct_sa_unfold.
      rewrite (find_def_nth E ND i d Ed). unfold c_struct in S1.
      destruct (seq_opt (map (ty_sa (c_struct_sa f E)) (sfields d))) as [ms|]; [|discriminate].
      inversion S1 as [S1']. rewrite S1'. reflexivity.
    + intros j d' os' Ed' Hn. apply nth_error_set_nth in Hn as [[-> Hx]|Hn]; [|eapply Ho; eauto].
      inversion Hx; subst. rewrite Ed in Ed'. inversion Ed'; subst. exists f, sz, al.
      split; [exact S1|]. split; [exact S4|]. eexists. eexists. eexists. split; [exact S1|exact S2].
Qed.

Lemma nth_error_all_none {A} (E : list A) i (x : list N) :
  nth_error (map (fun _ => @None (list N)) E) i = Some (Some x) -> False.
Proof. revert i. induction E; intros [|i] H; cbn in H; try discriminate. eauto. Qed.

(* partial correctness of compute_layouts w.r.t. the specification: exact values *)
Lemma compute_layouts_sound E offs m : NoDup (map sname E) ->
  compute_layouts E = Ok (offs, m) ->
  (forall i d os, nth_error E i = Some d -> nth_error offs i = Some (Some os) ->
     exists f s a, c_struct f E (sfields d) = Some (os, s, a) /\ struct_fits f E d) /\
  (forall nm s a, rlookup m nm = Some (s, a) -> exists f, c_struct_sa f E nm = Some (s, a) /\ s < W32).
Proof.
  intros ND H. unfold compute_layouts in H. destruct (has_self_ref E); [discriminate|].
  apply bind_ok in H as [order [_ H]].
  destruct (lay_ok E ND _ _ _ _ _ H) as [Hm Ho].
  - intros nm sz al L. discriminate.
  - intros i d os _ Hn. exfalso. eapply nth_error_all_none; eauto.
  - split; [exact Ho|]. intros nm s a L. destruct (Hm _ _ _ L) as [f [S1 [S2 _]]]. eauto.
Qed.

Lemma self_ref_diagnosed E d t :
  In d E -> In t (sfields d) -> refs_by_value t (sname d) = true ->
  compute_layouts E = Fail ESelfRef.
Proof.
  intros Hd Ht Hr. unfold compute_layouts.
  assert (H : has_self_ref E = true).
  { unfold has_self_ref. apply existsb_exists. exists d. split; [exact Hd|].
    unfold self_ref. apply existsb_exists. exists t. auto. }
  rewrite H. reflexivity.
Qed.

(* ------------------------------------------------------------------ part k *)
Local Open Scope nat_scope.
(* ---- small list facts *)
Lemma natmem_In x l : natmem x l = true <-> In x l.
Proof.
  induction l as [|y l IH]; cbn; [split; [discriminate|tauto]|].
  rewrite orb_true_iff, IH, Nat.eqb_eq. split; intros [H|H]; auto.
Qed.
Lemma natmem_false x l : natmem x l = false <-> ~ In x l.
Proof. rewrite <- natmem_In. destruct (natmem x l); split; congruence. Qed.

Lemma nmem_In x l : nmem x l = true <-> In x l.
Proof.
  induction l as [|y l IH]; cbn; [split; [discriminate|tauto]|].
  rewrite orb_true_iff, IH, N.eqb_eq. split; intros [H|H]; auto.
Qed.

Lemma ndedup_In x l : In x (ndedup l) <-> In x l.
Proof.
  induction l as [|y l IH]; cbn; [tauto|].
  destruct (nmem y l) eqn:M.
  - rewrite IH. split; [auto|]. intros [<-|H]; [apply nmem_In; exact M|exact H].
  - cbn. rewrite IH. tauto.
Qed.
Lemma ndedup_NoDup l : NoDup (ndedup l).
Proof.
  induction l as [|y l IH]; cbn; [constructor|].
  destruct (nmem y l) eqn:M; [exact IH|]. constructor; [|exact IH].
  rewrite ndedup_In. rewrite <- nmem_In. congruence.
Qed.

Lemma omap_In {A B} (f : A -> option B) l y : In y (omap f l) <-> exists x, In x l /\ f x = Some y.
Proof.
  induction l as [|a l IH]; cbn; [split; [tauto|intros [x [[] _]]]|].
  destruct (f a) as [b|] eqn:F.
  - cbn. rewrite IH. split.
    + intros [<-|[x [H1 H2]]]; [exists a; auto|exists x; auto].
    + intros [x [[<-|H1] H2]]; [left; congruence|right; exists x; auto].
  - rewrite IH. split; intros [x [H1 H2]]; [exists x; auto|].
    destruct H1 as [<-|H1]; [congruence|exists x; auto].
Qed.

Lemma omap_NoDup {A B} (f : A -> option B) l :
  (forall x x' y, In x l -> In x' l -> f x = Some y -> f x' = Some y -> x = x') ->
  NoDup l -> NoDup (omap f l).
Proof.
  intros Inj ND. induction ND as [|a l Hn ND IH]; cbn; [constructor|].
  assert (IH' : NoDup (omap f l)) by (apply IH; intros; eapply Inj; eauto; right; auto).
  destruct (f a) as [b|] eqn:F; [|exact IH'].
  constructor; [|exact IH']. rewrite omap_In. intros [x [H1 H2]].
  apply Hn. rewrite (Inj a x b); auto; [left; auto|right; auto].
Qed.

(* ---- name -> index *)
Lemma idx_from_spec E nm : forall i acc j, idx_from E nm i acc = Some j ->
  (acc = Some j) \/ (i <= j /\ exists d, nth_error E (j - i) = Some d /\ sname d = nm).
Proof.
  induction E as [|d E IH]; intros i acc j H; cbn in H; [auto|].
  apply IH in H as [H|[L [d' [H1 H2]]]].
  - destruct (N.eqb_spec (sname d) nm) as [Eq|Ne]; [|auto].
    inversion H; subst. right. split; [lia|]. exists d. rewrite Nat.sub_diag. auto.
  - right. split; [lia|]. exists d'. replace (j - i) with (S (j - S i)) by lia. auto.
Qed.
Lemma idx_of_spec E nm j : idx_of E nm = Some j -> exists d, nth_error E j = Some d /\ sname d = nm.
Proof.
  unfold idx_of. intro H. apply idx_from_spec in H as [H|[_ [d [H1 H2]]]]; [discriminate|].
  rewrite Nat.sub_0_r in H1. eauto.
Qed.
Lemma idx_from_some E nm : forall i acc, acc <> None -> idx_from E nm i acc <> None.
Proof.
  induction E as [|d E IH]; intros i acc H; cbn; [exact H|]. apply IH.
  destruct (sname d =? nm)%N; [discriminate|exact H].
Qed.
Lemma idx_from_defined E nm : forall i acc, In nm (map sname E) -> idx_from E nm i acc <> None.
Proof.
  induction E as [|d E IH]; intros i acc H; [destruct H|].
  cbn. destruct H as [H|H].
  - rewrite H, N.eqb_refl. apply idx_from_some. discriminate.
  - apply IH. exact H.
Qed.
Lemma idx_of_defined E nm : In nm (map sname E) -> idx_of E nm <> None.
Proof. apply idx_from_defined. Qed.

(* ------------------------------------------------------------------ part k2 *)
Local Open Scope nat_scope.
Section Kahn.
Variable E : list sdef.
Let n := length E.
Definition deps (i : nat) : list nat :=
  match nth_error E i with Some d => dep_idxs E d | None => [] end.

Lemma dep_names_NoDup d : NoDup (dep_names d).
Proof. unfold dep_names. apply NoDup_filter. apply ndedup_NoDup. Qed.

Lemma deps_NoDup i : NoDup (deps i).
Proof.
  unfold deps. destruct (nth_error E i) as [d|]; [|constructor].
  unfold dep_idxs. apply omap_NoDup; [|apply dep_names_NoDup].
  intros x x' y _ _ H H'. apply idx_of_spec in H as [d1 [A1 A2]]. apply idx_of_spec in H' as [d2 [B1 B2]].
  congruence.
Qed.

Lemma deps_lt i j : In j (deps i) -> j < n.
Proof.
  unfold deps. destruct (nth_error E i) as [d|]; [|intros []].
  unfold dep_idxs. rewrite omap_In. intros [nm [_ H]]. apply idx_of_spec in H as [d' [H _]].
  apply nth_error_Some. congruence.
Qed.

Lemma deps_irrefl i : ~ In i (deps i).
Proof.
  unfold deps. destruct (nth_error E i) as [d|] eqn:Ed; [|intros []].
  unfold dep_idxs. rewrite omap_In. intros [nm [H1 H2]]. apply idx_of_spec in H2 as [d' [A1 A2]].
  unfold dep_names in H1. apply filter_In in H1 as [_ H1]. rewrite Ed in A1. inversion A1; subst.
  rewrite N.eqb_refl in H1. discriminate.
Qed.

Lemma dependents_In v i : In i (dependents E v) <-> i < n /\ In v (deps i).
Proof.
  unfold dependents. rewrite filter_In, in_seq. unfold deps. fold n.
  destruct (nth_error E i) as [d|] eqn:Ed.
  - rewrite natmem_In. split; intros [A B]; split; auto; lia.
  - split; [intros [_ H]; discriminate|intros [_ []]].
Qed.
Lemma dependents_NoDup v : NoDup (dependents E v).
Proof. unfold dependents. apply NoDup_filter. apply seq_NoDup. Qed.

(* number of dependencies of i not yet emitted *)
Definition cnt (i : nat) (out : list nat) : nat :=
  length (filter (fun d => negb (natmem d out)) (deps i)).

Lemma natmem_cons x y l : natmem x (y :: l) = Nat.eqb x y || natmem x l.
Proof. reflexivity. Qed.
Lemma cnt_cons_gen l v out : NoDup l -> ~ In v out ->
  length (filter (fun d => negb (natmem d out)) l) =
  length (filter (fun d => negb (natmem d (v :: out))) l) + (if natmem v l then 1 else 0).
Proof.
  intros ND Hv. induction ND as [|x l Hx ND IH]; [reflexivity|].
  cbn [filter]. rewrite !natmem_cons. destruct (Nat.eqb_spec x v) as [->|Ne].
  - apply natmem_false in Hv. apply natmem_false in Hx. rewrite Nat.eqb_refl, Hv. rewrite Hx in IH.
    cbn [negb orb length]. rewrite IH. lia.
  - replace (Nat.eqb v x) with false by (symmetry; apply Nat.eqb_neq; auto). cbn [orb].
    destruct (natmem x out); cbn [negb length]; rewrite IH; lia.
Qed.
Lemma cnt_cons i v out : ~ In v out ->
  cnt i out = cnt i (v :: out) + (if natmem v (deps i) then 1 else 0).
Proof. intro H. apply cnt_cons_gen; [apply deps_NoDup|exact H]. Qed.

Lemma cnt_zero i out : cnt i out = 0 <-> forall d, In d (deps i) -> In d out.
Proof.
  unfold cnt. generalize (deps i) as l. induction l as [|x l IH]; cbn [filter]; [cbn; split; [intros _ d []|auto]|].
  destruct (natmem x out) eqn:M; cbn [negb].
  - rewrite IH. apply natmem_In in M. split; intros H d; [intros [<-|Hd]; auto|intro Hd; apply H; right; auto].
  - cbn [length]. split; [discriminate|]. intro H. exfalso. apply natmem_false in M. apply M. apply H. left. auto.
Qed.

Lemma cnt_nil i : cnt i [] = length (deps i).
Proof. unfold cnt. generalize (deps i) as l. induction l; cbn; auto. Qed.

Fixpoint topo (out : list nat) : Prop :=
  match out with
  | [] => True
  | v :: r => (forall d, In d (deps v) -> In d r) /\ topo r
  end.

Lemma topo_closed out : topo out -> forall v d, In v out -> In d (deps v) -> In d out.
Proof.
  induction out as [|x r IH]; intros T v d Hv Hd; [destruct Hv|].
  destruct T as [T1 T2]. destruct Hv as [->|Hv]; [right; auto|right; eapply IH; eauto].
Qed.

(* dec_nth *)
Lemma dec_nth_length l i : length (dec_nth l i) = length l.
Proof. revert i. induction l as [|x l IH]; intros [|i]; cbn; auto. Qed.
Lemma nth_dec_nth l i j : i < length l ->
  nth j (dec_nth l i) 1 = if Nat.eqb j i then Nat.pred (nth i l 1) else nth j l 1.
Proof.
  revert i j. induction l as [|x l IH]; intros i j H; [cbn in H; lia|].
  destruct i as [|i]; destruct j as [|j]; cbn; auto. apply IH. cbn in H. lia.
Qed.

(* invariant while relaxing the dependents ds of the node just emitted (out' already has it) *)
Definition eff (ds : list nat) (out : list nat) (i : nat) : nat :=
  cnt i out + (if natmem i ds then 1 else 0).
Record RInv (ds indeg stack out : list nat) : Prop := {
  r_len : length indeg = n;
  r_deg : forall i, i < n -> nth i indeg 1 = eff ds out i;
  r_stk : forall i, i < n -> (In i stack <-> (eff ds out i = 0 /\ ~ In i out));
  r_nd : NoDup stack;
  r_lt : forall i, In i stack -> i < n }.

Lemma relax_inv out ds : NoDup ds -> (forall d, In d ds -> d < n /\ ~ In d out) ->
  forall indeg stack, RInv ds indeg stack out ->
  RInv [] (fst (relax ds indeg stack)) (snd (relax ds indeg stack)) out.
Proof.
  intros ND. induction ND as [|d ds Hd ND IH]; intros Hds indeg stack R; [exact R|].
  destruct (Hds d (or_introl eq_refl)) as [Dn Dout].
  cbn [relax].
  assert (Ld : d < length indeg) by (rewrite (r_len _ _ _ _ R); exact Dn).
  assert (Nd : nth d (dec_nth indeg d) 1 = cnt d out).
  { rewrite nth_dec_nth by exact Ld. rewrite Nat.eqb_refl. rewrite (r_deg _ _ _ _ R d Dn).
    unfold eff. cbn [natmem]. rewrite Nat.eqb_refl. cbn [orb]. lia. }
  assert (Eff : forall i, i <> d -> eff (d :: ds) out i = eff ds out i).
  { intros i Hi. unfold eff. cbn [natmem]. replace (Nat.eqb i d) with false by (symmetry; apply Nat.eqb_neq; auto). reflexivity. }
  assert (Effd : eff ds out d = cnt d out).
  { unfold eff. apply natmem_false in Hd. rewrite Hd. lia. }
  assert (Deg' : forall i, i < n -> nth i (dec_nth indeg d) 1 = eff ds out i).
  { intros i Hi. destruct (Nat.eq_dec i d) as [->|Ne]; [rewrite Nd, Effd; reflexivity|].
    rewrite nth_dec_nth by exact Ld. replace (Nat.eqb i d) with false by (symmetry; apply Nat.eqb_neq; auto).
    rewrite (r_deg _ _ _ _ R i Hi). apply Eff. exact Ne. }
  assert (Dnot : ~ In d stack).
  { intro H. apply (r_stk _ _ _ _ R d Dn) in H as [H _]. unfold eff in H. cbn [natmem] in H.
    rewrite Nat.eqb_refl in H. cbn in H. lia. }
  rewrite Nd. destruct (Nat.eqb (cnt d out) 0) eqn:Z.
  - apply Nat.eqb_eq in Z. apply IH; [intros; apply Hds; right; auto|].
    constructor.
    + rewrite dec_nth_length. apply (r_len _ _ _ _ R).
    + exact Deg'.
    + intros i Hi. destruct (Nat.eq_dec i d) as [->|Ne].
      * rewrite Effd. split; [auto|]. intros _. left. reflexivity.
      * rewrite <- (Eff i Ne). rewrite <- (r_stk _ _ _ _ R i Hi). cbn. split; [intros [H|H]; [congruence|auto]|auto].
    + constructor; [exact Dnot|apply (r_nd _ _ _ _ R)].
    + intros i [<-|H]; [exact Dn|apply (r_lt _ _ _ _ R); exact H].
  - apply Nat.eqb_neq in Z. apply IH; [intros; apply Hds; right; auto|].
    constructor.
    + rewrite dec_nth_length. apply (r_len _ _ _ _ R).
    + exact Deg'.
    + intros i Hi. destruct (Nat.eq_dec i d) as [->|Ne].
      * rewrite Effd. split; [intro H; contradiction|intros [H _]; contradiction].
      * rewrite <- (Eff i Ne). apply (r_stk _ _ _ _ R i Hi).
    + apply (r_nd _ _ _ _ R).
    + apply (r_lt _ _ _ _ R).
Qed.

(* loop invariant of kahn *)
Record KInv (indeg stack out : list nat) : Prop := {
  k_r : RInv [] indeg stack out;
  k_nd : NoDup out;
  k_lt : forall i, In i out -> i < n;
  k_topo : topo out }.

Lemma kinv_step indeg v st out : KInv indeg (v :: st) out ->
  KInv (fst (relax (dependents E v) indeg st)) (snd (relax (dependents E v) indeg st)) (v :: out).
Proof.
  intros [R ND LT T].
  assert (Vn : v < n) by (apply (r_lt _ _ _ _ R); left; auto).
  assert (Vs : eff [] out v = 0 /\ ~ In v out) by (apply (r_stk _ _ _ _ R v Vn); left; auto).
  destruct Vs as [Vc Vout]. unfold eff in Vc. cbn in Vc. rewrite Nat.add_0_r in Vc.
  assert (Vst : ~ In v st) by (pose proof (r_nd _ _ _ _ R) as X; inversion X; auto).
  assert (Cn : forall i, cnt i out = eff (dependents E v) (v :: out) i \/ ~ i < n).
  { intro i. destruct (Nat.lt_ge_cases i n) as [Hi|Hi]; [left|right; lia].
    unfold eff. rewrite (cnt_cons i v out Vout). f_equal.
    destruct (natmem v (deps i)) eqn:M1; destruct (natmem i (dependents E v)) eqn:M2; auto.
    - apply natmem_In in M1. apply natmem_false in M2. exfalso. apply M2. apply dependents_In. auto.
    - apply natmem_false in M1. apply natmem_In in M2. apply dependents_In in M2. tauto. }
  constructor.
  - apply relax_inv.
    + apply dependents_NoDup.
    + intros d Hd. apply dependents_In in Hd as [Dn Dv]. split; [exact Dn|].
      intros [<-|Hin]; [exact (deps_irrefl v Dv)|].
      apply Vout. eapply topo_closed; eauto.
    + constructor.
      * apply (r_len _ _ _ _ R).
      * intros i Hi. rewrite (r_deg _ _ _ _ R i Hi). unfold eff at 1. cbn [natmem]. rewrite Nat.add_0_r.
        destruct (Cn i); [assumption|contradiction].
      * intros i Hi. destruct (Cn i) as [C|C]; [|contradiction]. rewrite <- C.
        pose proof (r_stk _ _ _ _ R i Hi) as S. unfold eff in S. cbn [natmem] in S. rewrite Nat.add_0_r in S.
        split.
        -- intro H. assert (H' : In i (v :: st)) by (right; exact H). apply S in H' as [H1 H2].
           split; [exact H1|]. intros [<-|H3]; [contradiction|contradiction].
        -- intros [H1 H2]. assert (H' : In i (v :: st)).
           { apply S. split; [exact H1|]. intro. apply H2. right. auto. }
           destruct H' as [<-|H']; [exfalso; apply H2; left; auto|exact H'].
      * pose proof (r_nd _ _ _ _ R) as X. inversion X; auto.
      * intros i H. apply (r_lt _ _ _ _ R). right. exact H.
  - constructor; assumption.
  - intros i [<-|H]; auto.
  - split; [|exact T]. apply cnt_zero. exact Vc.
Qed.

Lemma nodup_bound l : NoDup l -> (forall i, In i l -> i < n) -> length l <= n.
Proof.
  intros ND H. rewrite <- (seq_length n 0). apply NoDup_incl_length; [exact ND|].
  intros i Hi. apply in_seq. specialize (H i Hi). lia.
Qed.

Lemma kahn_total : forall fuel indeg stack out, KInv indeg stack out -> n < fuel + length out ->
  exists indeg' out', kahn E fuel indeg stack out = Some out' /\ KInv indeg' [] out'.
Proof.
  induction fuel as [|f IH]; intros indeg stack out K F.
  - destruct stack as [|v st]; [exists indeg, out; split; [reflexivity|exact K]|].
    exfalso. pose proof (kinv_step _ _ _ _ K) as K'.
    pose proof (nodup_bound _ (k_nd _ _ _ K') (k_lt _ _ _ K')) as B. cbn in B. cbn in F. lia.
  - destruct stack as [|v st]; [exists indeg, out; split; [reflexivity|exact K]|].
    cbn [kahn]. pose proof (kinv_step _ _ _ _ K) as K'.
    destruct (relax (dependents E v) indeg st) as [indeg' st'] eqn:RX. cbn [fst snd] in K'.
    apply (IH _ _ _ K'). cbn [length]. lia.
Qed.

Lemma nth_in_degree0 i : i < n -> nth i (in_degree0 E) 1 = length (deps i).
Proof.
  intro Hi. unfold in_degree0, deps.
  destruct (nth_error E i) as [d|] eqn:Ed; [|apply nth_error_None in Ed; fold n in Ed; lia].
  apply nth_error_nth. exact (map_nth_error (fun d => length (dep_idxs E d)) i E Ed).
Qed.

Lemma kinv_init : KInv (in_degree0 E) (init_stack (in_degree0 E)) [].
Proof.
  assert (L : length (in_degree0 E) = n) by (unfold in_degree0; apply map_length).
  constructor; [constructor| constructor | intros i [] | exact I].
  - exact L.
  - intros i Hi. unfold eff. cbn [natmem]. rewrite cnt_nil, Nat.add_0_r. apply nth_in_degree0. exact Hi.
  - intros i Hi. unfold init_stack. rewrite <- in_rev, filter_In, in_seq, L.
    unfold eff. cbn [natmem]. rewrite cnt_nil, Nat.add_0_r, Nat.eqb_eq, nth_in_degree0 by exact Hi.
    split; [intros [_ H]; split; [exact H|intros []]|intros [H _]; split; [lia|exact H]].
  - unfold init_stack. apply NoDup_rev. apply NoDup_filter. apply seq_NoDup.
  - intros i. unfold init_stack. rewrite <- in_rev, filter_In, in_seq, L. lia.
Qed.

(* the final state: nothing emitted depends on something that is not, and nothing is ready *)
Record KFinal (out : list nat) : Prop := {
  f_nd : NoDup out;
  f_lt : forall i, In i out -> i < n;
  f_topo : topo out;
  f_stuck : forall i, i < n -> ~ In i out -> exists d, In d (deps i) /\ ~ In d out }.

Lemma kahn_final : exists out, kahn E (S n) (in_degree0 E) (init_stack (in_degree0 E)) [] = Some out /\ KFinal out.
Proof.
  destruct (kahn_total (S n) _ _ _ kinv_init) as [indeg' [out [H K]]]; [cbn; lia|].
  exists out. split; [exact H|]. destruct K as [R ND LT T]. constructor; auto.
  intros i Hi Hout. destruct (Nat.eq_dec (cnt i out) 0) as [Z|NZ].
  - exfalso. assert (X : In i []) by (apply (r_stk _ _ _ _ R i Hi); unfold eff; cbn [natmem]; split; [lia|exact Hout]).
    destruct X.
  - unfold cnt in NZ. destruct (filter (fun d => negb (natmem d out)) (deps i)) as [|d l] eqn:Fl; [cbn in NZ; lia|].
    assert (Hd : In d (filter (fun d => negb (natmem d out)) (deps i))) by (rewrite Fl; left; auto).
    apply filter_In in Hd as [H1 H2]. exists d. split; [exact H1|]. apply natmem_false.
    destruct (natmem d out); [discriminate|reflexivity].
Qed.
End Kahn.

(* ------------------------------------------------------------------ part k4 *)
Local Open Scope nat_scope.
Lemma topological_order_cases E :
  exists out, KFinal E out /\
    ((length out = length E /\ topological_order E = Ok (rev out)) \/
     (length out <> length E /\ topological_order E = Fail ECycle)).
Proof.
  destruct (kahn_final E) as [out [H F]]. exists out. split; [exact F|].
  unfold topological_order. rewrite H. destruct (Nat.eqb_spec (length out) (length E)); auto.
Qed.

Lemma kfinal_full E out : KFinal E out -> length out = length E -> forall i, i < length E -> In i out.
Proof.
  intros F L i Hi.
  assert (Inc : incl (seq 0 (length E)) out).
  { apply NoDup_length_incl; [apply (f_nd _ _ F)| rewrite seq_length; lia |].
    intros j Hj. apply in_seq. pose proof (f_lt _ _ F j Hj). lia. }
  apply Inc. apply in_seq. lia.
Qed.

(* ---- a set of structs each of which contains another member by value is never emitted *)
Lemma topo_avoids E (C : nat -> Prop) : (forall i, C i -> exists j, In j (deps E i) /\ C j) ->
  forall out, topo E out -> forall v, C v -> ~ In v out.
Proof.
  intros HC. induction out as [|x r IH]; intros T v Cv Hin; [destruct Hin|].
  destruct T as [T1 T2]. destruct Hin as [->|Hin]; [|exact (IH T2 v Cv Hin)].
  destruct (HC v Cv) as [j [J1 J2]]. exact (IH T2 j J2 (T1 j J1)).
Qed.

Lemma cycle_order E (C : nat -> Prop) i0 : C i0 -> i0 < length E ->
  (forall i, C i -> exists j, In j (deps E i) /\ C j) ->
  topological_order E = Fail ECycle.
Proof.
  intros C0 L0 HC. destruct (topological_order_cases E) as [out [F [[L _]|[_ H]]]]; [|exact H].
  exfalso. apply (topo_avoids E C HC out (f_topo _ _ F) i0 C0). apply (kfinal_full E out F L). exact L0.
Qed.

Lemma refs_by_value_dep t nm : refs_by_value t nm = true <-> field_dep t = Some nm.
Proof.
  induction t; cbn; try (split; discriminate); auto.
  rewrite N.eqb_eq. split; congruence.
Qed.

Lemma no_self_ref E : has_self_ref E = false -> forall d t, In d E -> In t (sfields d) -> field_dep t <> Some (sname d).
Proof.
  intros H d t Hd Ht Hf. apply refs_by_value_dep in Hf.
  assert (X : has_self_ref E = true); [|congruence].
  unfold has_self_ref. apply existsb_exists. exists d. split; [exact Hd|].
  unfold self_ref. apply existsb_exists. exists t. auto.
Qed.

(* a by-value dependency on a defined name, other than the own name, is an edge of the graph *)
Lemma dep_edge E i d t nm : nth_error E i = Some d -> In t (sfields d) -> field_dep t = Some nm ->
  nm <> sname d -> In nm (map sname E) ->
  exists j d', idx_of E nm = Some j /\ In j (deps E i) /\ nth_error E j = Some d' /\ sname d' = nm.
Proof.
  intros Ed Ht Hf Hne Hdef. destruct (idx_of E nm) as [j|] eqn:Ij; [|exfalso; exact (idx_of_defined E nm Hdef Ij)].
  destruct (idx_of_spec E nm j Ij) as [d' [A1 A2]]. exists j, d'. repeat split; auto.
  unfold deps. rewrite Ed. unfold dep_idxs. apply omap_In. exists nm. split; [|exact Ij].
  unfold dep_names. apply filter_In. split.
  - apply ndedup_In. apply omap_In. exists t. auto.
  - apply negb_true_iff. apply N.eqb_neq. exact Hne.
Qed.

Lemma cycle_diagnosed_lemma E : NoDup (map sname E) -> byvalue_cycle E ->
  compute_layouts E = Fail ESelfRef \/ compute_layouts E = Fail ECycle.
Proof.
  intros ND [C [[nm0 C0] HC]]. unfold compute_layouts.
  destruct (has_self_ref E) eqn:SR; [left; reflexivity|right].
  pose proof (no_self_ref E SR) as NS.
  set (C' := fun i => exists d, nth_error E i = Some d /\ C (sname d)).
  assert (Step : forall i, C' i -> exists j, In j (deps E i) /\ C' j).
  { intros i [d [Ed Cd]]. destruct (HC _ Cd) as [d0 [t [nm' [D1 [D2 [D3 [D4 D5]]]]]]].
    assert (d0 = d).
    { apply In_nth_error in D1 as [k Ek]. assert (k = i); [|congruence].
      apply (proj1 (NoDup_nth_error (map sname E)) ND).
      - rewrite map_length. apply nth_error_Some. congruence.
      - rewrite (map_nth_error sname k E Ek), (map_nth_error sname i E Ed). congruence. }
    subst d0. destruct (HC _ D5) as [d1 [_ [_ [E1 [E2 _]]]]].
    assert (Def : In nm' (map sname E)) by (rewrite <- E2; apply in_map; exact E1).
    assert (Ne : nm' <> sname d) by (intro X; apply (NS d t (nth_error_In _ _ Ed) D3); congruence).
    destruct (dep_edge E i d t nm' Ed D3 D4 Ne Def) as [j [d' [_ [J1 [J2 J3]]]]].
    exists j. split; [exact J1|]. exists d'. split; [exact J2|]. rewrite J3. exact D5. }
  destruct (HC _ C0) as [d [_ [_ [D1 [D2 _]]]]]. apply In_nth_error in D1 as [i0 Ei].
  rewrite (cycle_order E C' i0); [reflexivity| exists d; split; [exact Ei|rewrite D2; exact C0] | apply nth_error_Some; congruence | exact Step].
Qed.

(* ------------------------------------------------------------------ part k5 *)
Local Open Scope nat_scope.
Lemma wf_no_self_ref E : wf_env E -> has_self_ref E = false.
Proof.
  intros [_ _ [rank R]]. destruct (has_self_ref E) eqn:H; [|reflexivity]. exfalso.
  unfold has_self_ref in H. apply existsb_exists in H as [d [Hd H]].
  unfold self_ref in H. apply existsb_exists in H as [t [Ht H]]. apply refs_by_value_dep in H.
  specialize (R d t _ Hd Ht H). lia.
Qed.

(* every edge of the graph goes down in rank *)
Lemma deps_rank E (rank : N -> nat) :
  (forall d t nm, In d E -> In t (sfields d) -> field_dep t = Some nm -> rank nm < rank (sname d)) ->
  forall i j d d', nth_error E i = Some d -> nth_error E j = Some d' -> In j (deps E i) -> rank (sname d') < rank (sname d).
Proof.
  intros R i j d d' Ed Ed' H. unfold deps in H. rewrite Ed in H. unfold dep_idxs in H.
  apply (proj1 (omap_In _ _ _)) in H as [nm [H1 H2]]. apply idx_of_spec in H2 as [d2 [A1 A2]].
  unfold dep_names in H1. apply filter_In in H1 as [H1 _]. apply (proj1 (ndedup_In _ _)) in H1. apply (proj1 (omap_In _ _ _)) in H1 as [t [T1 T2]].
  assert (d2 = d') by congruence. subst d2. rewrite A2. eapply R; eauto. eapply nth_error_In; eauto.
Qed.

Lemma wf_order E : wf_env E -> exists out, KFinal E out /\ topological_order E = Ok (rev out)
  /\ forall i, i < length E -> In i out.
Proof.
  intros W. destruct (wf_acyclic _ W) as [rank R].
  destruct (topological_order_cases E) as [out [F Cs]].
  assert (All : forall r i d, nth_error E i = Some d -> rank (sname d) < r -> In i out).
  { induction r as [|r IH]; intros i d Ed Hr; [lia|].
    destruct (in_dec Nat.eq_dec i out) as [Hin|Hout]; [exact Hin|exfalso].
    assert (Hi : i < length E) by (apply nth_error_Some; congruence).
    destruct (f_stuck _ _ F i Hi Hout) as [j [J1 J2]].
    assert (Hj : j < length E) by (eapply deps_lt; eauto).
    destruct (nth_error E j) as [d'|] eqn:Ed'; [|apply nth_error_None in Ed'; lia].
    pose proof (deps_rank E rank R i j d d' Ed Ed' J1). apply J2. apply (IH j d' Ed'). lia. }
  assert (Full : forall i, i < length E -> In i out).
  { intros i Hi. destruct (nth_error E i) as [d|] eqn:Ed; [|apply nth_error_None in Ed; lia].
    apply (All (S (rank (sname d))) i d Ed). lia. }
  exists out. split; [exact F|]. split; [|exact Full].
  destruct Cs as [[_ H]|[L _]]; [exact H|exfalso]. apply L.
  apply Nat.le_antisymm.
  - apply nodup_bound; [apply (f_nd _ _ F)|apply (f_lt _ _ F)].
  - rewrite <- (seq_length (length E) 0). apply NoDup_incl_length; [apply seq_NoDup|].
    intros i Hi. apply in_seq in Hi. apply Full. lia.
Qed.


Local Close Scope nat_scope.
Local Open Scope N_scope.

(* ---- every step either succeeds or reports TooLarge, when the by-value dependencies are resolved *)
Definition okf {A} (r : res A) : Prop := (exists x, r = Ok x) \/ r = Fail ETooLarge.

Lemma add32_okf a b : okf (add32 a b).
Proof. unfold okf, add32. destruct (W32 <=? a + b); eauto. Qed.
Lemma align_to_okf o a : okf (align_to o a).
Proof. unfold align_to. destruct (add32_okf o (a - 1)) as [[u ->]| ->]; cbn [bind]; unfold okf; eauto. Qed.
Lemma array_layout_okf el n : okf (array_layout el n).
Proof. unfold okf, array_layout. destruct (W32 <=? fst el * n); eauto. Qed.

Lemma resolved_okf m t : (forall nm, field_dep t = Some nm -> rlookup m nm <> None) ->
  okf (resolved_layout m t).
Proof.
  induction t; intros H; cbn [resolved_layout]; try (left; eauto; fail).
  - cbn in H. destruct (rlookup m name) as [l|] eqn:L; [left; eauto|]. exfalso. exact (H name eq_refl L).
  - destruct (IHt H) as [[r ->]| ->]; cbn [bind]; [apply array_layout_okf|right; reflexivity].
Qed.

Lemma fields_okf m fs : (forall t nm, In t fs -> field_dep t = Some nm -> rlookup m nm <> None) ->
  forall e ma, okf (fields_layout m fs e ma).
Proof.
  induction fs as [|t fs IH]; intros H e ma; cbn [fields_layout]; [left; eauto|].
  destruct (resolved_okf m t (fun nm => H t nm (or_introl eq_refl))) as [[fl ->]| ->]; cbn [bind]; [|right; reflexivity].
  destruct (align_to_okf e (snd fl)) as [[o ->]| ->]; cbn [bind]; [|right; reflexivity].
  destruct (add32_okf o (fst fl)) as [[e' ->]| ->]; cbn [bind]; [|right; reflexivity].
  destruct (IH (fun t' nm Ht => H t' nm (or_intror Ht)) e' (N.max ma (snd fl))) as [[[[offs e2] ma'] ->]| ->]; cbn [bind];
    [left; eauto|right; reflexivity].
Qed.

Lemma struct_okf m fs : (forall t nm, In t fs -> field_dep t = Some nm -> rlookup m nm <> None) ->
  okf (struct_layout m fs).
Proof.
  intro H. unfold struct_layout. destruct (fields_okf m fs H 0 1) as [[[[offs e] ma] ->]| ->]; cbn [bind]; [|right; reflexivity].
  destruct (align_to_okf e ma) as [[sz ->]| ->]; cbn [bind]; [left; eauto|right; reflexivity].
Qed.

(* ---- a struct that fits is laid out *)
Lemma c_struct_sa_det E f f' nm v v' : c_struct_sa f E nm = Some v -> c_struct_sa f' E nm = Some v' -> v = v'.
Proof.
  intros H H'. apply (c_struct_sa_mono E f (Nat.max f f')) in H; [|lia].
  apply (c_struct_sa_mono E f' (Nat.max f f')) in H'; [|lia]. congruence.
Qed.

Lemma ty_sa_is_al E f t s a : ty_sa (c_struct_sa f E) t = Some (s, a) -> is_al a.
Proof.
  revert s a. induction t; intros s a T; cbn [ty_sa] in T.
  - inversion T as [T']. pose proof (proj1 (sysv_prim_facts p)) as A. rewrite T' in A. exact A.
  - inversion T; subst. exact (proj1 (sysv_prim_facts PPtr)).
  - inversion T; subst. exact (proj1 (sysv_prim_facts PSlice)).
  - eapply c_struct_sa_is_al; eauto.
  - destruct (ty_sa (c_struct_sa f E) t) as [[s1 a1]|]; [|discriminate]. inversion T; subst. eapply IHt; eauto.
Qed.

Lemma resolved_fits E m f : m_ok E m -> forall t s a,
  (forall nm, field_dep t = Some nm -> rlookup m nm <> None) ->
  ty_sa (c_struct_sa f E) t = Some (s, a) -> ty_fits (c_struct_sa f E) t = true ->
  resolved_layout m t = Ok (s, a).
Proof.
  intros Hm. induction t; intros s a Hd T F; cbn [resolved_layout ty_sa] in *.
  - rewrite prim_table_sysv. congruence.
  - rewrite prim_table_sysv. congruence.
  - rewrite prim_table_sysv. congruence.
  - destruct (rlookup m name) as [[s' a']|] eqn:L; [|exfalso; exact (Hd name eq_refl L)].
    destruct (Hm _ _ _ L) as [f' [H1 _]]. rewrite (c_struct_sa_det E _ _ _ _ _ H1 T). reflexivity.
  - cbn [ty_fits] in F. apply andb_true_iff in F as [F1 F2]. cbn [ty_sa] in F2.
    destruct (ty_sa (c_struct_sa f E) t) as [[s0 a0]|] eqn:T0; [|discriminate]. inversion T; subst.
    rewrite (IHt s0 a Hd eq_refl F1). cbn [bind]. unfold array_layout. cbn [fst snd].
    replace (W32 <=? s0 * n) with false by lia. reflexivity.
Qed.

Lemma seq_opt_Forall2 {A B} (g : A -> option B) l r :
  seq_opt (map g l) = Some r -> Forall2 (fun x y => g x = Some y) l r.
Proof.
  revert r. induction l as [|x l IH]; intros r H; cbn in H; [inversion H; constructor|].
  destruct (g x) as [y|] eqn:G; [|discriminate]. destruct (seq_opt (map g l)) as [ys|]; [|discriminate].
  inversion H; subst. constructor; auto.
Qed.

Lemma struct_fits_ok E m f d : m_ok E m ->
  (forall t nm, In t (sfields d) -> field_dep t = Some nm -> rlookup m nm <> None) ->
  struct_fits f E d -> exists r, struct_layout m (sfields d) = Ok r.
Proof.
  intros Hm Hd [F1 [cos [s [a [C Hs]]]]]. unfold c_struct in C.
  destruct (seq_opt (map (ty_sa (c_struct_sa f E)) (sfields d))) as [ms|] eqn:S1; [|discriminate].
  apply seq_opt_Forall2 in S1. inversion C as [C'].
  assert (R : fields_resolve m (sfields d) ms /\ als ms).
  { clear C C' Hs. revert F1 Hd. induction S1 as [|t [s0 a0] fs ms T _ IH]; intros F1 Hd; [split; constructor|].
    destruct IH as [I1 I2]; [intros; apply F1; right; auto|intros t' nm Ht; apply (Hd t' nm); right; auto|].
    split; constructor; auto.
    - apply (resolved_fits E m f Hm); auto; [intros nm; apply (Hd t nm); left; auto|apply F1; left; auto].
    - cbn [snd]. eapply ty_sa_is_al; eauto. }
  destruct R as [R1 R2]. exists (c_struct_of ms). apply struct_layout_exact; auto. rewrite C'. exact Hs.
Qed.

Lemma m_ok_step E m i d os sz al : NoDup (map sname E) -> nth_error E i = Some d -> m_ok E m ->
  struct_layout m (sfields d) = Ok (os, sz, al) -> m_ok E ((sname d, (sz, al)) :: m).
Proof.
  intros ND Ed Hm H1. destruct (struct_layout_to_spec E m _ _ _ _ Hm H1) as [f [S1 [S2 [S3 S4]]]].
  intros nm sz' al' L. cbn [rlookup] in L. destruct (sname d =? nm) eqn:Eq; [|eapply Hm; eauto].
  inversion L; subst. apply N.eqb_eq in Eq. subst nm.
  exists (S f). split; [|auto]. rewrite c_struct_sa_unfold.
  rewrite (find_def_nth E ND i d Ed). unfold c_struct in S1.
  destruct (seq_opt (map (ty_sa (c_struct_sa f E)) (sfields d))) as [ms|]; [|discriminate].
  inversion S1 as [S1']. rewrite S1'. reflexivity.
Qed.
Local Open Scope nat_scope.
Fixpoint ready (E : list sdef) (done order : list nat) : Prop :=
  match order with
  | [] => True
  | i :: r => (forall d, In d (deps E i) -> In d done) /\ ready E (i :: done) r
  end.

Lemma topo_app E a b : topo E (a ++ b) -> topo E b.
Proof. induction a as [|x a IH]; cbn; [auto|]. intros [_ T]. auto. Qed.

Lemma topo_ready E : forall order done, topo E (rev order ++ done) -> ready E done order.
Proof.
  induction order as [|i r IH]; intros done T; cbn [ready]; [exact I|].
  cbn [rev] in T. rewrite <- app_assoc in T. cbn [app] in T. split; [|apply IH; exact T].
  apply topo_app in T. destruct T as [T _]. exact T.
Qed.

Lemma set_nth_length {A} (l : list A) i x : length (set_nth l i x) = length l.
Proof. revert i. induction l as [|a l IH]; intros [|i]; cbn; auto. Qed.
Lemma nth_error_set_nth_same {A} (l : list A) i x : i < length l -> nth_error (set_nth l i x) i = Some x.
Proof. revert i. induction l as [|a l IH]; intros [|i] H; cbn in *; try lia; auto. apply IH. lia. Qed.
Lemma nth_error_set_nth_other {A} (l : list A) i j x : i <> j -> nth_error (set_nth l i x) j = nth_error l j.
Proof. revert i j. induction l as [|a l IH]; intros [|i] [|j] H; cbn; auto; try lia. Qed.

Definition filled (offs : list (option (list N))) (i : nat) : Prop := exists os, nth_error offs i = Some (Some os).


Lemma lay_total E : wf_env E -> forall order done m offs,
  ready E done order -> (forall i, In i order -> i < length E) -> length offs = length E ->
  m_ok E m ->
  (forall j d, In j done -> nth_error E j = Some d -> rlookup m (sname d) <> None) ->
  (exists offs' m', lay E order m offs = Ok (offs', m') /\ length offs' = length E /\
    (forall i, In i order \/ filled offs i -> filled offs' i) /\
    (forall j d, In j done \/ In j order -> nth_error E j = Some d -> rlookup m' (sname d) <> None))
  \/ (lay E order m offs = Fail ETooLarge /\ ~ env_fits E).
Proof.
  intros W. pose proof (wf_no_self_ref E W) as SR. pose proof (no_self_ref E SR) as NS.
  induction order as [|i r IH]; intros done m offs R Lt Len Hok Hm; cbn [lay].
  - left. exists offs, m. repeat split; auto. + intros i [[]|H]; exact H. + intros j d [H|[]]; eauto.
  - destruct R as [R1 R2]. assert (Hi : i < length E) by (apply Lt; left; auto).
    destruct (nth_error E i) as [d|] eqn:Ed; [|apply nth_error_None in Ed; lia].
    assert (Hd : In d E) by (eapply nth_error_In; eauto).
    assert (Dep : forall t nm, In t (sfields d) -> field_dep t = Some nm -> rlookup m nm <> None).
    { intros t nm Ht Hf. assert (Ne : nm <> sname d) by (intro X; apply (NS d t Hd Ht); congruence).
      destruct (dep_edge E i d t nm Ed Ht Hf Ne (wf_defined _ W d t nm Hd Ht Hf)) as [j [d' [_ [J1 [J2 J3]]]]].
      rewrite <- J3. apply (Hm j d' (R1 j J1) J2). }
    destruct (struct_okf m (sfields d) Dep) as [[[[os sz] al] Hs]|Hs]; rewrite Hs; cbn [bind].
    2:{ right. split; [reflexivity|]. intro Fit. destruct (Fit d Hd) as [f SF].
        destruct (struct_fits_ok E m f d Hok Dep SF) as [rr Hr]. congruence. }
    destruct (IH (i :: done) ((sname d, (sz, al)) :: m) (set_nth offs i (Some os)) R2) as [[offs' [m' [H1 [H2 [H3 H4]]]]]|Bad].
    + intros k Hk. apply Lt. right. exact Hk.
    + rewrite set_nth_length. exact Len.
    + eapply m_ok_step; eauto. apply (wf_names _ W).
    + intros j d' [<-|Hj] Ej; cbn [rlookup].
      * assert (d' = d) by congruence. subst. rewrite N.eqb_refl. discriminate.
      * destruct (sname d =? sname d')%N; [discriminate|]. eapply Hm; eauto.
    + left. exists offs', m'. repeat split; auto.
      * intros k [[<-|Hk]|Hk]; apply H3.
        -- right. exists os. apply nth_error_set_nth_same. lia.
        -- left. exact Hk.
        -- destruct (Nat.eq_dec i k) as [<-|Ne]; [right; exists os; apply nth_error_set_nth_same; lia|].
           right. destruct Hk as [x Hx]. exists x. rewrite nth_error_set_nth_other by exact Ne. exact Hx.
      * intros j d' Hj Ej. apply (H4 j d'); [|exact Ej]. destruct Hj as [Hj|[<-|Hj]]; [left; right; auto|left; left; auto|right; auto].
    + right. exact Bad.
Qed.

Lemma compute_layouts_total E : wf_env E ->
  (exists offs m, compute_layouts E = Ok (offs, m) /\
    forall i d, nth_error E i = Some d ->
      (exists os, nth_error offs i = Some (Some os)) /\ rlookup m (sname d) <> None)
  \/ (compute_layouts E = Fail ETooLarge /\ ~ env_fits E).
Proof.
  intros W. unfold compute_layouts. rewrite (wf_no_self_ref E W).
  destruct (wf_order E W) as [out [F [HO Full]]]. rewrite HO. cbn [bind].
  destruct (lay_total E W (rev out) [] [] (map (fun _ => None) E)) as [[offs [m [H1 [H2 [H3 H4]]]]]|Bad].
  - apply topo_ready. rewrite rev_involutive, app_nil_r. apply (f_topo _ _ F).
  - intros i Hi. apply in_rev in Hi. apply (f_lt _ _ F). exact Hi.
  - apply map_length.
  - intros nm s a L. discriminate.
  - intros j d [].
  - left. exists offs, m. split; [exact H1|]. intros i d Ed.
    assert (Hi : In i (rev out)) by (apply -> in_rev; apply Full; apply nth_error_Some; congruence).
    split; [apply H3; left; exact Hi|apply (H4 i d); [right; exact Hi|exact Ed]].
  - right. exact Bad.
Qed.

Local Close Scope nat_scope.
Local Open Scope N_scope.

Lemma c_struct_sa_of_c_struct E f i d cos s a : NoDup (map sname E) -> nth_error E i = Some d ->
  c_struct f E (sfields d) = Some (cos, s, a) -> c_struct_sa (S f) E (sname d) = Some (s, a).
Proof.
  intros ND Ed H. rewrite c_struct_sa_unfold. rewrite (find_def_nth E ND i d Ed). unfold c_struct in H.
  destruct (seq_opt (map (ty_sa (c_struct_sa f E)) (sfields d))) as [ms|]; [|discriminate].
  inversion H as [H']. rewrite H'. reflexivity.
Qed.

(* layout_matches_sysv for whole environments *)
Lemma layout_matches_sysv_lemma E : wf_env E ->
  (env_fits E /\ exists offs m, compute_layouts E = Ok (offs, m) /\
     forall i d, nth_error E i = Some d ->
       exists os f s a,
         nth_error offs i = Some (Some os) /\ c_struct f E (sfields d) = Some (os, s, a) /\
         s < W32 /\ rlookup m (sname d) = Some (s, a))
  \/ (~ env_fits E /\ compute_layouts E = Fail ETooLarge).
Proof.
  intros W. destruct (compute_layouts_total E W) as [[offs [m [H T]]]|[H NF]]; [left|right; auto].
  destruct (compute_layouts_sound E offs m (wf_names _ W) H) as [S1 S2].
  split.
  - intros d Hd. apply In_nth_error in Hd as [i Ed]. destruct (T i d Ed) as [[os Hos] _].
    destruct (S1 i d os Ed Hos) as [f [s [a [_ SF]]]]. exists f. exact SF.
  - exists offs, m. split; [exact H|]. intros i d Ed.
    destruct (T i d Ed) as [[os Hos] Hm].
    destruct (S1 i d os Ed Hos) as [f [s [a [C1 [_ [cos [s' [a' [C2 Hs]]]]]]]]].
    rewrite C1 in C2. inversion C2; subst cos s' a'.
    destruct (rlookup m (sname d)) as [[sz al]|] eqn:L; [|congruence].
    destruct (S2 _ _ _ L) as [f' [D1 D2]].
    pose proof (c_struct_sa_of_c_struct E f i d os s a (wf_names _ W) Ed C1) as D4.
    pose proof (c_struct_sa_det E _ _ _ _ _ D1 D4) as X. inversion X; subst sz al.
    exists os, f, s, a. auto.
Qed.

(* no guard needed to state it: when everything fits the result is the C layout *)
Lemma layout_fits_lemma E : wf_env E -> env_fits E ->
  exists offs m, compute_layouts E = Ok (offs, m) /\
     forall i d, nth_error E i = Some d ->
       exists os f s a,
         nth_error offs i = Some (Some os) /\ c_struct f E (sfields d) = Some (os, s, a) /\
         s < W32 /\ rlookup m (sname d) = Some (s, a).
Proof. intros W F. destruct (layout_matches_sysv_lemma E W) as [[_ H]|[NF _]]; [exact H|contradiction]. Qed.

Lemma layout_too_large_lemma E : wf_env E -> ~ env_fits E -> compute_layouts E = Fail ETooLarge.
Proof. intros W NF. destruct (layout_matches_sysv_lemma E W) as [[F _]|[_ H]]; [contradiction|exact H]. Qed.
(* ---- the specification does not mention the declaration order *)
Lemma find_def_some_In E nm fs : find_def E nm = Some fs -> In (nm, fs) E.
Proof.
  induction E as [|d E IH]; cbn; [discriminate|]. destruct (N.eqb_spec (sname d) nm) as [Eq|Ne].
  - intro H. inversion H. left. destruct d as [a b]. cbn in *. congruence.
  - intro H. right. auto.
Qed.
Lemma find_def_In E nm fs : NoDup (map sname E) -> In (nm, fs) E -> find_def E nm = Some fs.
Proof. intros ND H. apply In_nth_error in H as [i Ei]. exact (find_def_nth E ND i (nm, fs) Ei). Qed.

Lemma find_def_perm E E' nm : NoDup (map sname E) -> Permutation E E' -> find_def E nm = find_def E' nm.
Proof.
  intros ND P. assert (ND' : NoDup (map sname E')) by (eapply Permutation_NoDup; [apply Permutation_map; exact P|exact ND]).
  destruct (find_def E nm) as [fs|] eqn:F.
  - symmetry. apply find_def_In; [exact ND'|]. eapply Permutation_in; [exact P|]. apply find_def_some_In. exact F.
  - destruct (find_def E' nm) as [fs'|] eqn:F'; [|reflexivity]. exfalso.
    apply find_def_some_In in F'. apply (Permutation_in _ (Permutation_sym P)) in F'.
    rewrite (find_def_In E nm fs' ND F') in F. discriminate.
Qed.

Lemma ty_sa_cong (sl sl' : N -> option (N * N)) t : (forall nm, sl nm = sl' nm) -> ty_sa sl t = ty_sa sl' t.
Proof. intro H. induction t; cbn [ty_sa]; auto. rewrite IHt. reflexivity. Qed.

Lemma c_struct_sa_perm E E' : NoDup (map sname E) -> Permutation E E' ->
  forall f nm, c_struct_sa f E nm = c_struct_sa f E' nm.
Proof.
  intros ND P. induction f as [|f IH]; intro nm; [reflexivity|].
  rewrite !c_struct_sa_unfold. rewrite <- (find_def_perm E E' nm ND P).
  destruct (find_def E nm) as [fs|]; [|reflexivity].
  rewrite (map_ext _ _ (fun t => ty_sa_cong _ _ t IH)). reflexivity.
Qed.
Lemma c_struct_perm E E' f fs : NoDup (map sname E) -> Permutation E E' -> c_struct f E fs = c_struct f E' fs.
Proof.
  intros ND P. unfold c_struct. rewrite (map_ext _ _ (fun t => ty_sa_cong _ _ t (c_struct_sa_perm E E' ND P f))). reflexivity.
Qed.

Lemma wf_env_perm E E' : wf_env E -> Permutation E E' -> wf_env E'.
Proof.
  intros [W1 W2 [rank W3]] P. pose proof (Permutation_sym P) as P'. constructor.
  - eapply Permutation_NoDup; [apply Permutation_map; exact P|exact W1].
  - intros d t nm Hd Ht Hf. eapply Permutation_in; [apply Permutation_map; exact P|].
    eapply W2; eauto. eapply Permutation_in; eauto.
  - exists rank. intros d t nm Hd. apply W3. eapply Permutation_in; eauto.
Qed.

(* layout_order_independent: the same definitions in any two declaration orders get the same
   offsets, sizes and alignments (no size guard: also the wrapped values coincide) *)

Lemma ty_fits_cong (sl sl' : N -> option (N * N)) t : (forall nm, sl nm = sl' nm) -> ty_fits sl t = ty_fits sl' t.
Proof. intro H. induction t; cbn [ty_fits]; auto. rewrite IHt, (ty_sa_cong sl sl' _ H). reflexivity. Qed.

Lemma env_fits_perm E E' : NoDup (map sname E) -> Permutation E E' -> env_fits E -> env_fits E'.
Proof.
  intros ND P F d Hd. apply (Permutation_in _ (Permutation_sym P)) in Hd.
  destruct (F d Hd) as [f [F1 [cos [s [a [C Hs]]]]]]. exists f. split.
  - intros t Ht. rewrite <- (ty_fits_cong _ _ t (c_struct_sa_perm E E' ND P f)). auto.
  - exists cos, s, a. rewrite <- (c_struct_perm E E' f _ ND P). auto.
Qed.

(* layout_order_independent: the same definitions in any two declaration orders get the same
   outcome: the same offsets, sizes and alignments, or TooLarge both times *)
Lemma layout_order_independent_lemma E E' : wf_env E -> Permutation E E' ->
  (exists offs m offs' m',
     compute_layouts E = Ok (offs, m) /\ compute_layouts E' = Ok (offs', m') /\
     forall i i' d, nth_error E i = Some d -> nth_error E' i' = Some d ->
       nth_error offs i = nth_error offs' i' /\ rlookup m (sname d) = rlookup m' (sname d))
  \/ (compute_layouts E = Fail ETooLarge /\ compute_layouts E' = Fail ETooLarge).
Proof.
  intros W P. pose proof (wf_env_perm E E' W P) as W'.
  destruct (layout_matches_sysv_lemma E W) as [[F [offs [m [H S]]]]|[NF H]].
  - left. destruct (layout_fits_lemma E' W' (env_fits_perm E E' (wf_names _ W) P F)) as [offs' [m' [H' S']]].
    exists offs, m, offs', m'. split; [exact H|]. split; [exact H'|]. intros i i' d Ed Ed'.
    destruct (S i d Ed) as [os [f [s [a [A1 [A2 [A3 A4]]]]]]].
    destruct (S' i' d Ed') as [os' [f' [s' [a' [B1 [B2 [B3 B4]]]]]]].
    rewrite <- (c_struct_perm E E' f' _ (wf_names _ W) P) in B2.
    pose proof (c_struct_det E _ _ _ _ _ A2 B2) as X. inversion X; subst. split; congruence.
  - right. split; [exact H|]. apply (layout_too_large_lemma E' W'). intro F'. apply NF.
    apply (env_fits_perm E' E (wf_names _ W') (Permutation_sym P) F').
Qed.

Lemma topological_order_outcomes E :
  (exists order, topological_order E = Ok order) \/ topological_order E = Fail ECycle.
Proof. destruct (topological_order_cases E) as [out [_ [[_ H]|[_ H]]]]; eauto. Qed.

(* ------------------------------------------------------------------ diagnostics exactly for cycles; outcome table *)
Local Open Scope nat_scope.
(* some index below n is missing from a short duplicate-free list *)
Lemma missing_index (out : list nat) : forall n, NoDup out -> (forall i, In i out -> i < n) -> length out <> n ->
  exists i, i < n /\ ~ In i out.
Proof.
  intros n ND LT NE.
  assert (D : (forall i, i < n -> In i out) \/ exists i, i < n /\ ~ In i out).
  { clear ND LT NE. induction n as [|n IH]; [left; intros; lia|].
    destruct IH as [All|[i [Hi Hn]]]; [|right; exists i; split; [lia|exact Hn]].
    destruct (in_dec Nat.eq_dec n out) as [Hin|Hout]; [left|right; exists n; split; [lia|exact Hout]].
    intros i Hi. destruct (Nat.eq_dec i n) as [->|Ne]; [exact Hin|apply All; lia]. }
  destruct D as [All|Ex]; [exfalso|exact Ex]. apply NE. apply Nat.le_antisymm.
  - rewrite <- (seq_length n 0). apply NoDup_incl_length; [exact ND|]. intros i Hi. apply in_seq. specialize (LT i Hi). lia.
  - rewrite <- (seq_length n 0). apply NoDup_incl_length; [apply seq_NoDup|]. intros i Hi. apply in_seq in Hi. apply All. lia.
Qed.

(* an edge of the graph comes from a field that contains the target by value *)
Lemma deps_field E i j d : nth_error E i = Some d -> In j (deps E i) ->
  exists t d', In t (sfields d) /\ nth_error E j = Some d' /\ field_dep t = Some (sname d').
Proof.
  intros Ed H. unfold deps in H. rewrite Ed in H. unfold dep_idxs in H.
  apply (proj1 (omap_In _ _ _)) in H as [nm [H1 H2]]. apply idx_of_spec in H2 as [d' [A1 A2]].
  unfold dep_names in H1. apply filter_In in H1 as [H1 _]. apply (proj1 (ndedup_In _ _)) in H1.
  apply (proj1 (omap_In _ _ _)) in H1 as [t [T1 T2]]. exists t, d'. rewrite A2. auto.
Qed.

(* the layout loop only ever fails with Unresolved / TooLarge (EInternal: index out of range, never happens) *)
Lemma bind_fail {A B} (r : res A) (f : A -> res B) e :
  bind r f = Fail e -> r = Fail e \/ exists a, r = Ok a /\ f a = Fail e.
Proof. destruct r as [a|e']; cbn; [intro H; right; exists a; auto|intro H; left; inversion H; reflexivity]. Qed.

Definition lay_err (e : err) : Prop := e = EUnresolved \/ e = ETooLarge \/ e = EInternal.

Lemma add32_err a b e : add32 a b = Fail e -> lay_err e.
Proof. unfold add32. destruct (W32 <=? a + b)%N; [|discriminate]. intro H. inversion H. right. left. auto. Qed.
Lemma align_to_err o a e : align_to o a = Fail e -> lay_err e.
Proof.
  unfold align_to. intro H. apply bind_fail in H as [H|[u [_ H]]]; [eapply add32_err; eauto|discriminate].
Qed.
Lemma resolved_err m t e : resolved_layout m t = Fail e -> lay_err e.
Proof.
  induction t; cbn [resolved_layout]; try discriminate.
  - destruct (rlookup m name); [discriminate|]. intro H. inversion H. left. auto.
  - intro H. apply bind_fail in H as [H|[el [_ H]]]; [auto|].
    unfold array_layout in H. destruct (W32 <=? fst el * n)%N; [|discriminate]. inversion H. right. left. auto.
Qed.
Lemma fields_err m fs : forall o ma e, fields_layout m fs o ma = Fail e -> lay_err e.
Proof.
  induction fs as [|t fs IH]; intros o ma e H; cbn [fields_layout] in H; [discriminate|].
  apply bind_fail in H as [H|[fl [_ H]]]; [eapply resolved_err; eauto|].
  apply bind_fail in H as [H|[o' [_ H]]]; [eapply align_to_err; eauto|].
  apply bind_fail in H as [H|[e' [_ H]]]; [eapply add32_err; eauto|].
  apply bind_fail in H as [H|[[[offs e2] ma'] [_ H]]]; [eapply IH; eauto|discriminate].
Qed.
Lemma struct_err m fs e : struct_layout m fs = Fail e -> lay_err e.
Proof.
  unfold struct_layout. intro H. apply bind_fail in H as [H|[[[offs e2] ma] [_ H]]]; [eapply fields_err; eauto|].
  apply bind_fail in H as [H|[sz [_ H]]]; [eapply align_to_err; eauto|discriminate].
Qed.
Lemma lay_fail E order : forall m offs e, lay E order m offs = Fail e -> lay_err e.
Proof.
  induction order as [|i order IH]; intros m offs e H; cbn [lay] in H; [discriminate|].
  destruct (nth_error E i) as [d|]; [|inversion H; right; right; auto].
  apply bind_fail in H as [H|[[[os sz] al] [_ H]]]; [eapply struct_err; eauto|eapply IH; eauto].
Qed.

(* the two recursion diagnostics are only ever given for a by-value cycle *)
Lemma diagnostic_sound E :
  compute_layouts E = Fail ESelfRef \/ compute_layouts E = Fail ECycle -> byvalue_cycle E.
Proof.
  unfold compute_layouts. destruct (has_self_ref E) eqn:SR.
  - intros _. unfold has_self_ref in SR. apply existsb_exists in SR as [d [Hd H]].
    unfold self_ref in H. apply existsb_exists in H as [t [Ht H]]. apply refs_by_value_dep in H.
    exists (fun nm => nm = sname d). split; [eauto|]. intros nm ->. exists d, t, (sname d). auto.
  - intro H.
    assert (T : topological_order E = Fail ECycle).
    { destruct (topological_order_cases E) as [out [_ [[_ X]|[_ X]]]]; [|exact X]. exfalso.
      rewrite X in H. cbn [bind] in H.
      destruct H as [H|H]; apply lay_fail in H; destruct H as [H|[H|H]]; discriminate. }
    clear H. destruct (topological_order_cases E) as [out [F [[_ X]|[L _]]]]; [congruence|].
    destruct (missing_index out (length E) (f_nd _ _ F) (f_lt _ _ F) L) as [i0 [Hi0 Hn0]].
    exists (fun nm => exists i d, nth_error E i = Some d /\ sname d = nm /\ ~ In i out). split.
    + destruct (nth_error E i0) as [d0|] eqn:E0; [|apply nth_error_None in E0; lia]. exists (sname d0), i0, d0. auto.
    + intros nm [i [d [Ed [<- Hn]]]].
      assert (Hi : i < length E) by (apply nth_error_Some; congruence).
      destruct (f_stuck _ _ F i Hi Hn) as [j [J1 J2]].
      destruct (deps_field E i j d Ed J1) as [t [d' [T1 [T2 T3]]]].
      exists d, t, (sname d'). repeat split; auto; [eapply nth_error_In; eauto|]. exists j, d'. auto.
Qed.

(* the recursion diagnostics are given exactly for the by-value cycles *)
Lemma diagnostic_iff_cycle E : NoDup (map sname E) ->
  (compute_layouts E = Fail ESelfRef \/ compute_layouts E = Fail ECycle) <-> byvalue_cycle E.
Proof. intro ND. split; [apply diagnostic_sound|apply cycle_diagnosed_lemma; exact ND]. Qed.

(* well-formed environments have no by-value cycle, and are never diagnosed as recursive *)
Lemma wf_env_acyclic E : wf_env E -> ~ byvalue_cycle E.
Proof.
  intros W C. destruct (cycle_diagnosed_lemma E (wf_names _ W) C) as [H|H];
    destruct (layout_matches_sysv_lemma E W) as [[_ [offs [m [X _]]]]|[_ X]]; congruence.
Qed.

(* conversely: unique names, by-value names defined and no by-value cycle make a well-formed environment *)
Lemma acyclic_wf_env E : NoDup (map sname E) ->
  (forall d t nm, In d E -> In t (sfields d) -> field_dep t = Some nm -> In nm (map sname E)) ->
  ~ byvalue_cycle E -> wf_env E.
Proof.
  intros ND Def NC. constructor; auto.
  assert (SR : has_self_ref E = false).
  { destruct (has_self_ref E) eqn:SR; [|reflexivity]. exfalso. apply NC. apply diagnostic_sound.
    left. unfold compute_layouts. rewrite SR. reflexivity. }
  destruct (topological_order_cases E) as [out [F [[L X]|[L X]]]].
  2:{ exfalso. apply NC. apply diagnostic_sound. right. unfold compute_layouts. rewrite SR, X. reflexivity. }
  (* rank = position from the end of the emitted list: dependencies were emitted earlier *)
  pose (pos := fix pos (l : list nat) (i : nat) : nat :=
                 match l with [] => 0 | x :: r => if Nat.eqb x i then S (length r) else pos r i end).
  assert (P1 : forall l i, In i l -> 0 < pos l i <= length l).
  { induction l as [|x r IH]; intros i Hi; [destruct Hi|]. cbn [pos length]. destruct (Nat.eqb_spec x i); [lia|].
    destruct Hi as [->|Hi]; [congruence|]. specialize (IH i Hi). lia. }
  assert (P2 : forall l, NoDup l -> topo E l -> forall i j, In i l -> In j (deps E i) -> pos l j < pos l i).
  { induction l as [|x r IH]; intros NDl T i j Hi Hj; [destruct Hi|]. inversion NDl as [|? ? Hx NDr]; subst.
    destruct T as [T1 T2]. cbn [pos]. destruct (Nat.eqb_spec x i) as [->|Ne].
    - specialize (T1 j Hj). destruct (Nat.eqb_spec i j) as [->|Nij]; [contradiction|]. specialize (P1 r j T1). lia.
    - destruct Hi as [->|Hi]; [congruence|]. destruct (Nat.eqb_spec x j) as [->|Nxj].
      + exfalso. apply Hx. eapply topo_closed; eauto.
      + eapply IH; eauto. }
  exists (fun nm => match idx_of E nm with Some i => pos out i | None => 0 end).
  intros d t nm Hd Ht Hf. apply In_nth_error in Hd as [i Ed].
  assert (Ne : nm <> sname d) by (intro X'; apply (no_self_ref E SR d t (nth_error_In _ _ Ed) Ht); congruence).
  destruct (dep_edge E i d t nm Ed Ht Hf Ne (Def d t nm (nth_error_In _ _ Ed) Ht Hf)) as [j [d' [J0 [J1 [J2 J3]]]]].
  rewrite J0.
  assert (Ii : idx_of E (sname d) = Some i).
  { destruct (idx_of E (sname d)) as [k|] eqn:K; [|exfalso; eapply idx_of_defined; [|exact K]; apply in_map; eapply nth_error_In; eauto].
    destruct (idx_of_spec E _ k K) as [dk [K1 K2]]. f_equal.
    apply (proj1 (NoDup_nth_error (map sname E)) ND).
    - rewrite map_length. apply nth_error_Some. congruence.
    - rewrite (map_nth_error sname k E K1), (map_nth_error sname i E Ed). congruence. }
  rewrite Ii. apply (P2 out (f_nd _ _ F) (f_topo _ _ F)); [|exact J1].
  apply (kfinal_full E out F L). apply nth_error_Some. congruence.
Qed.

Lemma wf_env_iff_acyclic E :
  wf_env E <-> (NoDup (map sname E) /\ all_defined E /\ ~ byvalue_cycle E).
Proof.
  split.
  - intro W. split; [apply (wf_names _ W)|]. split; [exact (wf_defined _ W)|apply wf_env_acyclic; exact W].
  - intros [ND [Def NC]]. apply acyclic_wf_env; assumption.
Qed.

(* the complete outcome table of compute_layouts on uniquely named, fully defined definitions *)
Lemma outcome_table E : NoDup (map sname E) -> all_defined E ->
  (byvalue_cycle E /\ (compute_layouts E = Fail ESelfRef \/ compute_layouts E = Fail ECycle))
  \/ (~ byvalue_cycle E /\ ~ env_fits E /\ compute_layouts E = Fail ETooLarge)
  \/ (~ byvalue_cycle E /\ env_fits E /\ exists offs m, compute_layouts E = Ok (offs, m)).
Proof.
  intros ND Def.
  destruct (compute_layouts E) as [[offs m]|e] eqn:R.
  - right. right.
    assert (NC : ~ byvalue_cycle E) by (intro C; destruct (cycle_diagnosed_lemma E ND C); congruence).
    pose proof (acyclic_wf_env E ND Def NC) as W.
    destruct (layout_matches_sysv_lemma E W) as [[F _]|[_ X]]; [|congruence]. eauto.
  - destruct e.
    + left. split; [apply diagnostic_sound; auto|auto].
    + left. split; [apply diagnostic_sound; auto|auto].
    + exfalso. assert (NC : ~ byvalue_cycle E) by (intro C; destruct (cycle_diagnosed_lemma E ND C); congruence).
      destruct (layout_matches_sysv_lemma E (acyclic_wf_env E ND Def NC)) as [[_ [o [m [X _]]]]|[_ X]]; congruence.
    + right. left. assert (NC : ~ byvalue_cycle E) by (intro C; destruct (cycle_diagnosed_lemma E ND C); congruence).
      destruct (layout_matches_sysv_lemma E (acyclic_wf_env E ND Def NC)) as [[_ [o [m [X _]]]]|[NF X]]; [congruence|auto].
    + exfalso. assert (NC : ~ byvalue_cycle E) by (intro C; destruct (cycle_diagnosed_lemma E ND C); congruence).
      destruct (layout_matches_sysv_lemma E (acyclic_wf_env E ND Def NC)) as [[_ [o [m [X _]]]]|[_ X]]; congruence.
    + exfalso. assert (NC : ~ byvalue_cycle E) by (intro C; destruct (cycle_diagnosed_lemma E ND C); congruence).
      destruct (layout_matches_sysv_lemma E (acyclic_wf_env E ND Def NC)) as [[_ [o [m [X _]]]]|[_ X]]; congruence.
Qed.
Local Close Scope nat_scope.
Local Open Scope N_scope.

(* ------------------------------------------------------------------ concrete environments *)
Definition example_env : list sdef :=
  [(2, [TPrim PU8; TArray (TStruct 1) 3; TPrim PU8; TPtr (TStruct 2)]);
   (1, [TPrim PI8; TPrim PI32; TPrim PI16])].
Lemma example_wf : wf_env example_env.
Proof.
  constructor.
  - repeat constructor; cbn; intuition discriminate.
  - intros d t nm [<-|[<-|[]]] Ht Hf; cbn in Ht; intuition; subst; cbn in Hf; try discriminate;
      inversion Hf; subst; cbn; auto.
  - exists N.to_nat. intros d t nm [<-|[<-|[]]] Ht Hf; cbn in Ht; intuition; subst; cbn in Hf; try discriminate;
      inversion Hf; subst; cbn; lia.
Qed.
Lemma example_fits : env_fits example_env.
Proof.
  intros d [<-|[<-|[]]]; exists 3%nat; (split;
    [intros t Ht; cbn in Ht; intuition; subst; vm_compute; reflexivity
    |eexists; eexists; eexists; split; [vm_compute; reflexivity|vm_compute; reflexivity]]).
Qed.
Lemma example_cycle : byvalue_cycle [(1, [TStruct 2]); (2, [TArray (TStruct 1) 0])].
Proof.
  exists (fun nm => nm = 1 \/ nm = 2). split; [exists 1; auto|].
  intros nm [->| ->].
  - exists (1, [TStruct 2]), (TStruct 2), 2. cbn. intuition.
  - exists (2, [TArray (TStruct 1) 0]), (TArray (TStruct 1) 0), 1. cbn. intuition.
Qed.

(* the inputs of the repaired defect KF-C18-1 (u32 wrap-around / silent truncation of the array
   length): now diagnosed *)
Definition overflow_witness : list sdef := [(1, [TArray (TPrim PU8) 4294967297; TPrim PU8])].
Fixpoint doubling (k : nat) (n : N) : list sdef :=
  match k with
  | O => [(n, [TPrim PI64])]
  | S k' => (n, [TStruct (n - 1); TStruct (n - 1)]) :: doubling k' (n - 1)
  end.
Definition doubling_witness : list sdef := (99, [TStruct 29; TPrim PU8]) :: doubling 29 29.
Lemma former_overflow_inputs_diagnosed :
  compute_layouts overflow_witness = Fail ETooLarge /\
  compute_layouts [(1, [TArray (TPrim PI64) 536870912; TPrim PU8])] = Fail ETooLarge /\
  compute_layouts doubling_witness = Fail ETooLarge.
Proof. repeat split; vm_compute; reflexivity. Qed.

(* ... and the largest struct that fits is still laid out exactly *)
Lemma largest_struct_laid_out :
  bind (compute_layouts [(1, [TArray (TPrim PU8) 4294967294; TPrim PU8])])
       (fun r => Ok (fst r, rlookup (snd r) 1))
  = Ok ([Some [0; 4294967294]], Some (4294967295, 1)).
Proof. vm_compute. reflexivity. Qed.
