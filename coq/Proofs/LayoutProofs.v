(* Lemmas for C18: the bit trick of align_to, struct_layout against the System V rules,
   checked arithmetic refines wrapping arithmetic, partial correctness of compute_layouts,
   Kahn's algorithm (soundness, completeness), diagnosis of by-value recursion. *)
From Aelys Require Import Base.Tactics Extracted.LayoutTable Model.Layout Model.SysV.
Local Open Scope N_scope.

(* ------------------------------------------------------------------ part a *)
Lemma round_up_spec x a : 0 < a ->
  (round_up x a) mod a = 0 /\ x <= round_up x a /\ round_up x a < x + a /\
  (forall m, m mod a = 0 -> x <= m -> round_up x a <= m).
Proof.
  intro Ha. unfold round_up.
  pose proof (N.div_mod (x + (a - 1)) a ltac:(lia)) as E.
  pose proof (N.mod_upper_bound (x + (a - 1)) a ltac:(lia)) as R.
  set (q := (x + (a - 1)) / a) in *. set (r := (x + (a - 1)) mod a) in *.
  repeat split.
  - rewrite N.mul_comm. apply N.mod_mul. lia.
  - lia.
  - lia.
  - intros m Hm Hx.
    pose proof (N.div_mod m a ltac:(lia)) as Em. rewrite Hm in Em.
    destruct (N.le_gt_cases q (m / a)) as [L|G].
    + rewrite Em. rewrite N.add_0_r. apply N.mul_le_mono_l. exact L.
    + assert (m / a + 1 <= q) by lia.
      assert (a * (m / a + 1) <= a * q) by (apply N.mul_le_mono_l; assumption).
      lia.
Qed.

Lemma land_not32 u k : u < 2^32 -> k <= 32 ->
  N.land u (not32 (N.ones k)) = N.shiftl (N.shiftr u k) k.
Proof.
  intros Hu Hk. apply N.bits_inj. intro n.
  rewrite N.land_spec. unfold not32. rewrite N.lxor_spec.
  destruct (N.lt_ge_cases n k) as [L|G].
  - rewrite N.shiftl_spec_low by exact L.
    rewrite (N.ones_spec_low k n) by exact L.
    rewrite (N.ones_spec_low 32 n) by lia. cbn. apply andb_false_r.
  - rewrite N.shiftl_spec_high' by exact G.
    rewrite N.shiftr_spec'. replace (n - k + k) with n by lia.
    rewrite (N.ones_spec_high k n) by exact G.
    destruct (N.lt_ge_cases n 32) as [L2|G2].
    + rewrite (N.ones_spec_low 32 n) by exact L2. cbn. apply andb_true_r.
    + rewrite (N.ones_spec_high 32 n) by exact G2. cbn. rewrite andb_false_r.
      symmetry. rewrite <- (N.mod_small u (2^32)) by exact Hu.
      apply N.mod_pow2_bits_high. exact G2.
Qed.

(* ------------------------------------------------------------------ part b *)
Lemma W32_pow : W32 = 2^32. Proof. reflexivity. Qed.

Lemma mask_down u k : u < W32 -> k <= 32 ->
  N.land u (not32 (2^k - 1)) = 2^k * (u / 2^k).
Proof.
  intros Hu Hk. replace (2^k - 1) with (N.ones k) by (rewrite N.ones_equiv; lia).
  rewrite land_not32; [|exact Hu|exact Hk].
  rewrite N.shiftl_mul_pow2, N.shiftr_div_pow2. apply N.mul_comm.
Qed.

(* a divides 2^32: rounding down to a multiple of a commutes with reduction mod 2^32 *)
Lemma down_mod a c x : a * c = W32 -> 0 < a ->
  (a * (x / a)) mod W32 = a * ((x mod W32) / a).
Proof.
  intros Hac Ha.
  pose proof (N.div_mod x W32 ltac:(unfold W32; lia)) as E.
  pose proof (N.mod_upper_bound x W32 ltac:(unfold W32; lia)) as R.
  set (q := x / W32) in *. set (r := x mod W32) in *.
  assert (Hx : x / a = c * q + r / a).
  { rewrite E. rewrite <- Hac. rewrite <- N.mul_assoc.
    rewrite (N.mul_comm a (c * q)). rewrite N.div_add_l by lia. reflexivity. }
  rewrite Hx. rewrite N.mul_add_distr_l. rewrite N.mul_assoc. rewrite Hac.
  pose proof (N.mul_div_le r a ltac:(lia)) as L.
  replace (W32 * q + a * (r / a)) with (a * (r / a) + q * W32) by lia.
  rewrite N.mod_add by (unfold W32; lia).
  apply N.mod_small. lia.
Qed.

Lemma pow2_divides_W32 k : k <= 32 -> 2^k * 2^(32 - k) = W32.
Proof. intro H. rewrite <- N.pow_add_r. replace (k + (32 - k)) with 32 by lia. reflexivity. Qed.

Lemma align_to_wrap x k : k < 32 ->
  align_to false (x mod W32) (2^k) = Ok ((round_up x (2^k)) mod W32).
Proof.
  intro Hk.
  assert (Ha : 0 < 2^k) by (apply N.neq_0_lt_0; apply N.pow_nonzero; lia).
  assert (Ha32 : 2^k < W32) by (rewrite W32_pow; apply N.pow_lt_mono_r; lia).
  set (a := 2^k) in *.
  unfold align_to, add32, sub32, bind. cbn [andb].
  replace (1 <=? a) with true by lia.
  assert (U : (if 1 <=? (x mod W32 + a) mod W32 then Ok ((x mod W32 + a) mod W32 - 1)
               else Ok ((x mod W32 + a) mod W32 + W32 - 1)) = Ok ((x + (a - 1)) mod W32)).
  { pose proof (N.div_mod x W32 ltac:(unfold W32; lia)) as E.
    pose proof (N.mod_upper_bound x W32 ltac:(unfold W32; lia)) as R.
    set (r := x mod W32) in *. set (q := x / W32) in *.
    assert (M : (x + (a - 1)) mod W32 = (r + (a - 1)) mod W32).
    { rewrite E. replace (W32 * q + r + (a - 1)) with (r + (a - 1) + q * W32) by lia.
      apply N.mod_add. unfold W32; lia. }
    rewrite M. unfold W32 in *. destruct (1 <=? (r + a) mod 4294967296) eqn:C; f_equal; lia. }
  rewrite U.
  f_equal. unfold a. rewrite mask_down by (try apply N.mod_upper_bound; unfold W32; lia).
  unfold round_up. fold a.
  symmetry. apply (down_mod a (2^(32-k))); [apply pow2_divides_W32; lia|exact Ha].
Qed.

(* ------------------------------------------------------------------ part c *)
Definition is_al (a : N) : Prop := exists k, k < 32 /\ a = 2^k.

Lemma is_al_max a b : is_al a -> is_al b -> is_al (N.max a b).
Proof. intros Ha Hb. destruct (N.max_spec a b) as [[_ ->]|[_ ->]]; assumption. Qed.
Lemma is_al_1 : is_al 1. Proof. exists 0. split; [lia|reflexivity]. Qed.
Lemma is_al_pos a : is_al a -> 0 < a.
Proof. intros [k [_ ->]]. apply N.neq_0_lt_0. apply N.pow_nonzero. lia. Qed.

(* checked arithmetic refines wrapping arithmetic *)
Lemma add32_chk a b r : add32 true a b = Ok r -> add32 false a b = Ok r.
Proof. unfold add32. cbn [andb]. destruct (W32 <=? a + b); [discriminate|auto]. Qed.
Lemma sub32_chk a b r : sub32 true a b = Ok r -> sub32 false a b = Ok r.
Proof. unfold sub32. destruct (b <=? a); [auto|discriminate]. Qed.
Lemma mul32_chk a b r : mul32 true a b = Ok r -> mul32 false a b = Ok r.
Proof. unfold mul32. cbn [andb]. destruct (W32 <=? a * b); [discriminate|auto]. Qed.

Lemma bind_ok {A B} (r : res A) (f : A -> res B) b :
  bind r f = Ok b -> exists a, r = Ok a /\ f a = Ok b.
Proof. destruct r; cbn; [eauto|discriminate]. Qed.

Lemma align_to_chk o a r : align_to true o a = Ok r -> align_to false o a = Ok r.
Proof.
  unfold align_to. intro H.
  apply bind_ok in H as [t [H1 H]]. apply bind_ok in H as [u [H2 H]]. apply bind_ok in H as [m [H3 H]].
  rewrite (add32_chk _ _ _ H1). cbn [bind]. rewrite (sub32_chk _ _ _ H2). cbn [bind].
  rewrite (sub32_chk _ _ _ H3). cbn [bind]. exact H.
Qed.

Lemma array_layout_chk el n r : array_layout true el n = Ok r -> array_layout false el n = Ok r.
Proof.
  unfold array_layout. intro H. apply bind_ok in H as [s [H1 H]].
  rewrite (mul32_chk _ _ _ H1). exact H.
Qed.

Lemma resolved_layout_chk m t r : resolved_layout true m t = Ok r -> resolved_layout false m t = Ok r.
Proof.
  revert r. induction t; intros r H; cbn [resolved_layout] in *; auto.
  apply bind_ok in H as [el [H1 H]]. rewrite (IHt _ H1). cbn [bind]. apply array_layout_chk. exact H.
Qed.

Lemma fields_layout_chk m fs : forall o ma r,
  fields_layout true m fs o ma = Ok r -> fields_layout false m fs o ma = Ok r.
Proof.
  induction fs as [|t fs IH]; intros o ma r H; cbn [fields_layout] in *; auto.
  apply bind_ok in H as [fl [H1 H]]. apply bind_ok in H as [o' [H2 H]].
  apply bind_ok in H as [e [H3 H]]. apply bind_ok in H as [x [H4 H]].
  rewrite (resolved_layout_chk _ _ _ H1). cbn [bind].
  rewrite (align_to_chk _ _ _ H2). cbn [bind].
  rewrite (add32_chk _ _ _ H3). cbn [bind].
  rewrite (IH _ _ _ H4). cbn [bind]. exact H.
Qed.

Lemma struct_layout_chk m fs r : struct_layout true m fs = Ok r -> struct_layout false m fs = Ok r.
Proof.
  unfold struct_layout. intro H. apply bind_ok in H as [x [H1 H]].
  rewrite (fields_layout_chk _ _ _ _ _ H1). cbn [bind].
  destruct x as [[offs e] ma]. apply bind_ok in H as [sz [H2 H]].
  rewrite (align_to_chk _ _ _ H2). exact H.
Qed.

Lemma lay_chk E order : forall m offs r,
  lay true E order m offs = Ok r -> lay false E order m offs = Ok r.
Proof.
  induction order as [|i order IH]; intros m offs r H; cbn [lay] in *; auto.
  destruct (nth_error E i) as [d|]; [|discriminate].
  apply bind_ok in H as [x [H1 H]]. rewrite (struct_layout_chk _ _ _ H1). cbn [bind].
  destruct x as [[os sz] al]. apply IH. exact H.
Qed.

Lemma compute_layouts_chk E r : compute_layouts true E = Ok r -> compute_layouts false E = Ok r.
Proof.
  unfold compute_layouts. destruct (has_self_ref E); [discriminate|].
  intro H. apply bind_ok in H as [order [H1 H]]. rewrite H1. cbn [bind]. apply lay_chk. exact H.
Qed.

(* ---- exact form of align_to *)
Lemma align_to_exact (chk : bool) o k : k < 32 ->
  o + 2^k < W32 + (if chk then 0 else 1)%N ->
  align_to chk o (2^k) = Ok (round_up o (2^k)).
Proof.
  intros Hk Hg.
  assert (Ha : 0 < 2^k) by (apply N.neq_0_lt_0; apply N.pow_nonzero; lia).
  pose proof (round_up_spec o (2^k) Ha) as [_ [Hge [Hlt _]]].
  assert (W : align_to false o (2^k) = Ok (round_up o (2^k))).
  { rewrite <- (N.mod_small o W32) at 1 by (destruct chk; lia).
    rewrite align_to_wrap by exact Hk. f_equal. apply N.mod_small. destruct chk; lia. }
  destruct chk; [|exact W].
  revert W. unfold align_to, add32, sub32, bind. cbn [andb].
  replace (W32 <=? o + 2^k) with false by lia.
  rewrite (N.mod_small (o + 2^k) W32) by lia.
  replace (1 <=? o + 2^k) with true by lia. replace (1 <=? 2^k) with true by lia.
  exact (fun W => W).
Qed.

(* ------------------------------------------------------------------ part d *)
Definition m32 (x : N) : N := x mod W32.
Definition als (ms : c_members_t) : Prop := Forall (fun sa => is_al (snd sa)) ms.

Lemma Forall2_imp {A B} (P Q : A -> B -> Prop) l l' :
  (forall a b, P a b -> Q a b) -> Forall2 P l l' -> Forall2 Q l l'.
Proof. intros H F. induction F; constructor; auto. Qed.

Lemma c_align_ge1 ms : 1 <= c_align ms.
Proof. induction ms as [|[s a] r IH]; [cbn; lia|]. unfold c_align in *. cbn [fold_right]. lia. Qed.

Lemma c_align_is_al ms : als ms -> is_al (c_align ms).
Proof.
  induction 1 as [|[s a] r H _ IH]; [apply is_al_1|]. unfold c_align in *. cbn [fold_right]. apply is_al_max; assumption.
Qed.

Lemma round_up_ge x a : is_al a -> x <= round_up x a.
Proof. intro H. apply (round_up_spec x a (is_al_pos a H)). Qed.

(* every member lies inside [start, end]; the end does not move backwards *)
Lemma c_offsets_bounds ms : als ms -> forall e,
  e <= snd (c_offsets ms e) /\
  Forall2 (fun o sa => e <= o /\ o + fst sa <= snd (c_offsets ms e)) (fst (c_offsets ms e)) ms.
Proof.
  induction 1 as [|[s a] r Ha Hr IH]; intro e; cbn [c_offsets]; [cbn; split; [lia|constructor]|].
  specialize (IH (round_up e a + s)). destruct (c_offsets r (round_up e a + s)) as [os e'].
  cbn [fst snd] in *. destruct IH as [I1 I2]. pose proof (round_up_ge e a Ha) as G.
  split; [lia|]. constructor; [cbn; lia|].
  eapply Forall2_imp; [|exact I2]. cbn. intros o sa [X Y]. lia.
Qed.

Lemma c_align_ge_members ms : Forall (fun sa => snd sa <= c_align ms) ms.
Proof.
  induction ms as [|[s a] r IH]; constructor; cbn [c_align fold_right snd]; [lia|].
  eapply Forall_impl; [|exact IH]. cbn. intros sa H. fold (c_align r). lia.
Qed.

Definition fields_resolve (chk : bool) (m : rmap) (fs : list ty) (ms : c_members_t) : Prop :=
  Forall2 (fun t sa => resolved_layout chk m t = Ok sa) fs ms.
(* ... up to reduction mod 2^32 of the sizes *)
Definition fields_resolve32 (m : rmap) (fs : list ty) (ms : c_members_t) : Prop :=
  Forall2 (fun t sa => resolved_layout false m t = Ok (m32 (fst sa), snd sa)) fs ms.

Lemma fields_layout_wrap m fs ms : fields_resolve32 m fs ms -> als ms -> forall e ma, 1 <= ma ->
  fields_layout false m fs (m32 e) ma =
  Ok (map m32 (fst (c_offsets ms e)), m32 (snd (c_offsets ms e)), N.max ma (c_align ms)).
Proof.
  induction 1 as [|t [s a] fs ms Ht Hr IH]; intros Hal e ma Hma.
  - cbn. f_equal. f_equal. lia.
  - inversion Hal as [|x y [k [Hk Ea]] Hal']; subst x y. cbn [snd] in Ea.
    cbn [fields_layout]. rewrite Ht. cbn [bind fst snd].
    unfold m32 at 1. rewrite Ea. rewrite align_to_wrap by exact Hk. cbn [bind].
    unfold add32. cbn [andb]. fold (m32 (round_up e (2^k))). unfold m32 at 1 2.
    rewrite <- N.add_mod by (unfold W32; lia). fold (m32 (round_up e (2 ^ k) + s)).
    cbn [bind]. rewrite IH by (try assumption; lia). cbn [bind].
    cbn [c_offsets].
    destruct (c_offsets ms (round_up e (2 ^ k) + s)) as [os e'].
    cbn [fst snd map c_align fold_right]. fold (c_align ms). unfold m32.
    f_equal. f_equal. lia.
Qed.

Lemma struct_layout_wrap m fs ms : fields_resolve32 m fs ms -> als ms ->
  struct_layout false m fs =
  Ok (map m32 (fst (fst (c_struct_of ms))), m32 (snd (fst (c_struct_of ms))), snd (c_struct_of ms)).
Proof.
  intros Hr Hal. unfold struct_layout.
  change 0 with (m32 0) at 1. rewrite (fields_layout_wrap m fs ms Hr Hal 0 1) by lia.
  cbn [bind]. unfold c_struct_of. destruct (c_offsets ms 0) as [os e]. cbn [fst snd].
  pose proof (c_align_ge1 ms). replace (N.max 1 (c_align ms)) with (c_align ms) by lia.
  destruct (c_align_is_al ms Hal) as [k [Hk Ea]]. rewrite Ea.
  unfold m32 at 1. rewrite align_to_wrap by exact Hk. reflexivity.
Qed.

(* exact version, both arithmetic modes, under the no-overflow guard *)
Lemma fields_layout_exact chk m fs ms : fields_resolve chk m fs ms -> als ms -> forall e ma, 1 <= ma ->
  snd (c_offsets ms e) + N.max ma (c_align ms) < W32 + (if chk then 0 else 1)%N ->
  fields_layout chk m fs e ma = Ok (fst (c_offsets ms e), snd (c_offsets ms e), N.max ma (c_align ms)).
Proof.
  induction 1 as [|t [s a] fs ms Ht Hr IH]; intros Hal e ma Hma G.
  - cbn. f_equal. f_equal. lia.
  - inversion Hal as [|x y Ha Hal']; subst x y. cbn [snd] in Ha.
    pose proof (c_offsets_bounds ms Hal' (round_up e a + s)) as [B1 _].
    pose proof (round_up_ge e a Ha) as Ge.
    pose proof (c_align_ge1 ms) as A1.
    cbn [c_offsets c_align fold_right] in G. fold (c_align ms) in G.
    destruct (c_offsets ms (round_up e a + s)) as [os e'] eqn:CO. cbn [fst snd] in *.
    cbn [fields_layout]. rewrite Ht. cbn [bind fst snd].
    destruct Ha as [k [Hk Ea]]. rewrite Ea in *.
    rewrite align_to_exact; [|exact Hk|destruct chk; lia]. cbn [bind].
    unfold add32. replace (W32 <=? round_up e (2^k) + s) with false by (destruct chk; lia).
    rewrite andb_false_r. rewrite N.mod_small by (destruct chk; lia). cbn [bind].
    rewrite IH; [| exact Hal' | lia | rewrite CO; cbn [snd]; destruct chk; lia ].
    cbn [bind]. cbn [c_offsets]. rewrite CO. cbn [fst snd c_align fold_right]. fold (c_align ms).
    f_equal. f_equal. lia.
Qed.

Lemma struct_layout_exact chk m fs ms : fields_resolve chk m fs ms -> als ms ->
  snd (fst (c_struct_of ms)) + snd (c_struct_of ms) < W32 + (if chk then 0 else 1)%N ->
  struct_layout chk m fs = Ok (c_struct_of ms).
Proof.
  intros Hr Hal. unfold c_struct_of, struct_layout.
  pose proof (c_offsets_bounds ms Hal 0) as [B1 _].
  destruct (c_offsets ms 0) as [os e] eqn:CO. cbn [fst snd] in *. intro G.
  pose proof (c_align_ge1 ms) as A1.
  destruct (c_align_is_al ms Hal) as [k [Hk Ea]].
  pose proof (round_up_ge e (c_align ms) (c_align_is_al ms Hal)) as Ge.
  rewrite (fields_layout_exact chk m fs ms Hr Hal 0 1); [| lia | rewrite CO; cbn [snd]; destruct chk; lia].
  rewrite CO. cbn [bind fst snd]. replace (N.max 1 (c_align ms)) with (c_align ms) by lia.
  rewrite Ea in *. rewrite align_to_exact; [reflexivity|exact Hk|destruct chk; lia].
Qed.

(* ------------------------------------------------------------------ part e *)
(* ---- the extracted table is the System V table *)
Lemma prim_table_sysv p : prim_layout p = sysv_prim p.
Proof. destruct p; reflexivity. Qed.
Lemma sysv_prim_facts p : is_al (snd (sysv_prim p)) /\ fst (sysv_prim p) < W32
  /\ fst (sysv_prim p) mod snd (sysv_prim p) = 0.
Proof.
  assert (A1 : is_al 1) by (exists 0; split; [lia|reflexivity]).
  assert (A2 : is_al 2) by (exists 1; split; [lia|reflexivity]).
  assert (A4 : is_al 4) by (exists 2; split; [lia|reflexivity]).
  assert (A8 : is_al 8) by (exists 3; split; [lia|reflexivity]).
  destruct p; vm_compute; repeat split; assumption || reflexivity.
Qed.

(* ---- fuel monotonicity of the specification *)
Lemma ty_sa_ext (sl sl' : N -> option (N * N)) t v :
  (forall nm w, sl nm = Some w -> sl' nm = Some w) -> ty_sa sl t = Some v -> ty_sa sl' t = Some v.
Proof.
  intro H. revert v. induction t; intros v Hv; cbn [ty_sa] in *; auto.
  destruct (ty_sa sl t) as [[s a]|]; [|discriminate]. rewrite (IHt _ eq_refl). exact Hv.
Qed.

Lemma seq_opt_map_ext {A B} (g g' : A -> option B) l r :
  (forall x y, g x = Some y -> g' x = Some y) -> seq_opt (map g l) = Some r -> seq_opt (map g' l) = Some r.
Proof.
  intro H. revert r. induction l as [|x l IH]; intros r Hr; cbn in *; auto.
  destruct (g x) as [y|] eqn:G; [|discriminate]. rewrite (H _ _ G).
  destruct (seq_opt (map g l)) as [ys|]; [|discriminate]. rewrite (IH _ eq_refl). exact Hr.
Qed.

Lemma c_struct_sa_unfold f E nm : c_struct_sa (S f) E nm =
  match find_def E nm with
  | None => None
  | Some fs => match seq_opt (map (ty_sa (c_struct_sa f E)) fs) with
               | Some ms => let '(_, s, a) := c_struct_of ms in Some (s, a)
               | None => None end
  end.
Proof. reflexivity. Qed.

Lemma c_struct_sa_S E f : forall nm v, c_struct_sa f E nm = Some v -> c_struct_sa (S f) E nm = Some v.
Proof.
  induction f as [|f IH]; intros nm v H; [discriminate|].
  rewrite c_struct_sa_unfold in H. rewrite c_struct_sa_unfold. destruct (find_def E nm) as [fs|]; [|discriminate].
  destruct (seq_opt (map (ty_sa (c_struct_sa f E)) fs)) as [ms|] eqn:S1; [|discriminate].
  rewrite (seq_opt_map_ext _ (ty_sa (c_struct_sa (S f) E)) _ _ (fun t w => ty_sa_ext _ _ t w IH) S1).
  exact H.
Qed.

Lemma c_struct_sa_mono E f f' nm v : (f <= f')%nat -> c_struct_sa f E nm = Some v -> c_struct_sa f' E nm = Some v.
Proof. induction 1 as [|k L IH]; auto. intro Hv. apply c_struct_sa_S. auto. Qed.

Lemma ty_sa_mono E f f' t v : (f <= f')%nat ->
  ty_sa (c_struct_sa f E) t = Some v -> ty_sa (c_struct_sa f' E) t = Some v.
Proof. intro L. apply ty_sa_ext. intros nm w. apply c_struct_sa_mono. exact L. Qed.

Lemma c_struct_mono E f f' fs v : (f <= f')%nat -> c_struct f E fs = Some v -> c_struct f' E fs = Some v.
Proof.
  intros L. unfold c_struct. destruct (seq_opt (map (ty_sa (c_struct_sa f E)) fs)) as [ms|] eqn:S1; [|discriminate].
  rewrite (seq_opt_map_ext _ (ty_sa (c_struct_sa f' E)) _ _ (fun t w => ty_sa_mono E f f' t w L) S1). auto.
Qed.

(* any two defined answers agree: the fuel only decides definedness *)
Lemma c_struct_det E f f' fs v v' : c_struct f E fs = Some v -> c_struct f' E fs = Some v' -> v = v'.
Proof.
  intros H H'. apply (c_struct_mono E f (Nat.max f f')) in H; [|lia].
  apply (c_struct_mono E f' (Nat.max f f')) in H'; [|lia]. congruence.
Qed.

(* ---- from a successful run of the model to the specification *)
Definition m_ok (E : list sdef) (m : rmap) : Prop :=
  forall nm sz al, rlookup m nm = Some (sz, al) ->
    exists f s, c_struct_sa f E nm = Some (s, al) /\ sz = m32 s /\ is_al al.

Lemma m32_small x : x < W32 -> m32 x = x.
Proof. apply N.mod_small. Qed.

Lemma resolved_to_spec E m : m_ok E m -> forall t sz al,
  resolved_layout false m t = Ok (sz, al) ->
  exists f s, ty_sa (c_struct_sa f E) t = Some (s, al) /\ sz = m32 s /\ is_al al.
Proof.
  intros Hm. induction t; intros sz al H; cbn [resolved_layout] in H.
  - exists 0%nat, (fst (sysv_prim p)). destruct (sysv_prim_facts p) as [A [B _]].
    rewrite prim_table_sysv in H. cbn [ty_sa]. destruct (sysv_prim p) as [s a]. cbn [fst snd] in *.
    inversion H; subst. rewrite m32_small by exact B. auto.
  - exists 0%nat, (fst (sysv_prim PPtr)). destruct (sysv_prim_facts PPtr) as [A [B _]].
    rewrite prim_table_sysv in H. cbn [ty_sa]. destruct (sysv_prim PPtr) as [s a]. cbn [fst snd] in *.
    inversion H; subst. rewrite m32_small by exact B. auto.
  - exists 0%nat, (fst (sysv_prim PSlice)). destruct (sysv_prim_facts PSlice) as [A [B _]].
    rewrite prim_table_sysv in H. cbn [ty_sa]. destruct (sysv_prim PSlice) as [s a]. cbn [fst snd] in *.
    inversion H; subst. rewrite m32_small by exact B. auto.
  - destruct (rlookup m name) as [[s0 a0]|] eqn:L; [|discriminate]. inversion H; subst.
    destruct (Hm _ _ _ L) as [f [s [H1 [H2 H3]]]]. exists f, s. cbn [ty_sa]. auto.
  - apply bind_ok in H as [[s0 a0] [H1 H]]. destruct (IHt _ _ H1) as [f [s [T1 [T2 T3]]]].
    unfold array_layout, mul32 in H. cbn [andb bind fst snd] in H. inversion H; subst.
    exists f, (s * n). cbn [ty_sa]. rewrite T1. split; [reflexivity|]. split; [|assumption].
    unfold m32. rewrite <- N.mul_mod by (unfold W32; lia). reflexivity.
Qed.

Lemma fields_layout_inv m fs : forall e ma r, fields_layout false m fs e ma = Ok r ->
  exists ls, Forall2 (fun t sa => resolved_layout false m t = Ok sa) fs ls.
Proof.
  induction fs as [|t fs IH]; intros e ma r H; [exists []; constructor|].
  cbn [fields_layout] in H. apply bind_ok in H as [fl [H1 H]]. apply bind_ok in H as [o [H2 H]].
  apply bind_ok in H as [e' [H3 H]]. apply bind_ok in H as [x [H4 H]].
  destruct (IH _ _ _ H4) as [ls L]. exists (fl :: ls). constructor; assumption.
Qed.

Lemma fields_to_spec E m fs ls : m_ok E m ->
  Forall2 (fun t sa => resolved_layout false m t = Ok sa) fs ls ->
  exists f ms, Forall2 (fun t sa => ty_sa (c_struct_sa f E) t = Some sa) fs ms
               /\ fields_resolve32 m fs ms /\ als ms.
Proof.
  intros Hm. induction 1 as [|t [sz al] fs ls Ht _ IH].
  - exists 0%nat, []. repeat split; constructor.
  - destruct IH as [f [ms [I1 [I2 I3]]]].
    destruct (resolved_to_spec E m Hm _ _ _ Ht) as [f0 [s [T1 [T2 T3]]]].
    exists (Nat.max f f0), ((s, al) :: ms). repeat split.
    + constructor; [apply (ty_sa_mono E f0); [lia|exact T1]|].
      eapply Forall2_imp; [|exact I1]. intros a b. apply ty_sa_mono. lia.
    + constructor; [|exact I2]. cbn [fst snd]. rewrite <- T2. exact Ht.
    + constructor; [exact T3|exact I3].
Qed.

Lemma Forall2_seq_opt {A B} (g : A -> option B) l r :
  Forall2 (fun x y => g x = Some y) l r -> seq_opt (map g l) = Some r.
Proof. induction 1 as [|x y l r H _ IH]; cbn; [reflexivity|]. rewrite H, IH. reflexivity. Qed.

Lemma c_struct_offsets_le ms : als ms ->
  Forall (fun o => o <= snd (fst (c_struct_of ms))) (fst (fst (c_struct_of ms))).
Proof.
  intro Hal. unfold c_struct_of. pose proof (c_offsets_bounds ms Hal 0) as [_ B].
  destruct (c_offsets ms 0) as [os e]. cbn [fst snd] in *.
  pose proof (round_up_ge e (c_align ms) (c_align_is_al ms Hal)) as G.
  clear Hal. revert G. generalize (round_up e (c_align ms)). intros S G.
  induction B as [|o sa os ms [_ X] _ IH]; constructor; [lia|exact IH].
Qed.

Lemma struct_layout_to_spec E m fs os sz al : m_ok E m ->
  struct_layout false m fs = Ok (os, sz, al) ->
  exists f cos s, c_struct f E fs = Some (cos, s, al) /\ os = map m32 cos /\ sz = m32 s /\ is_al al
                  /\ Forall (fun o => o <= s) cos.
Proof.
  intros Hm H. pose proof H as H0. unfold struct_layout in H0. apply bind_ok in H0 as [x [H1 _]].
  destruct (fields_layout_inv _ _ _ _ _ H1) as [ls L].
  destruct (fields_to_spec E m fs ls Hm L) as [f [ms [S1 [S2 S3]]]].
  rewrite (struct_layout_wrap m fs ms S2 S3) in H.
  exists f, (fst (fst (c_struct_of ms))), (snd (fst (c_struct_of ms))).
  unfold c_struct. rewrite (Forall2_seq_opt _ _ _ S1).
  pose proof (c_struct_offsets_le ms S3) as LE.
  assert (A : is_al (snd (c_struct_of ms))).
  { unfold c_struct_of. destruct (c_offsets ms 0). cbn [snd]. apply c_align_is_al. exact S3. }
  destruct (c_struct_of ms) as [[cos s] a]. cbn [fst snd] in *. inversion H; subst. auto 6.
Qed.

(* ------------------------------------------------------------------ part f *)
Lemma find_def_nth E : NoDup (map sname E) -> forall i d, nth_error E i = Some d ->
  find_def E (sname d) = Some (sfields d).
Proof.
  induction E as [|x E IH]; intros ND i d H; [destruct i; discriminate|].
  inversion ND as [|y l Hnin ND']; subst. destruct i as [|i]; cbn in H.
  - inversion H; subst. cbn [find_def]. rewrite N.eqb_refl. reflexivity.
  - cbn [find_def]. destruct (sname x =? sname d) eqn:Eq.
    + exfalso. apply Hnin. apply N.eqb_eq in Eq. rewrite Eq. apply in_map. eapply nth_error_In; eauto.
    + eapply IH; eauto.
Qed.

Lemma nth_error_set_nth {A} (l : list A) i x : forall j y,
  nth_error (set_nth l i x) j = Some y -> (i = j /\ y = x) \/ nth_error l j = Some y.
Proof.
  revert i. induction l as [|a l IH]; intros i j y H; [destruct i; cbn in H; destruct j; discriminate|].
  destruct i as [|i]; cbn [set_nth] in H.
  - destruct j as [|j]; cbn in *; [left; split; congruence|right; exact H].
  - destruct j as [|j]; cbn in *; [right; exact H|].
    destruct (IH _ _ _ H) as [[-> ->]|R]; auto.
Qed.

Definition offs_ok (E : list sdef) (offs : list (option (list N))) : Prop :=
  forall i d os, nth_error E i = Some d -> nth_error offs i = Some (Some os) ->
    exists f cos s a, c_struct f E (sfields d) = Some (cos, s, a) /\ os = map m32 cos
                      /\ Forall (fun o => o <= s) cos.

Lemma lay_ok E : NoDup (map sname E) -> forall order m offs offs' m',
  lay false E order m offs = Ok (offs', m') -> m_ok E m -> offs_ok E offs ->
  m_ok E m' /\ offs_ok E offs'.
Proof.
  intros ND. induction order as [|i order IH]; intros m offs offs' m' H Hm Ho; cbn [lay] in H.
  - inversion H; subst. auto.
  - destruct (nth_error E i) as [d|] eqn:Ed; [|discriminate].
    apply bind_ok in H as [[[os sz] al] [H1 H]].
    destruct (struct_layout_to_spec E m _ _ _ _ Hm H1) as [f [cos [s [S1 [S2 [S3 [S4 S5]]]]]]].
    apply (IH _ _ _ _ H).
    + intros nm sz' al' L. cbn [rlookup] in L. destruct (sname d =? nm) eqn:Eq; [|eapply Hm; eauto].
      inversion L; subst. apply N.eqb_eq in Eq. subst nm.
      exists (S f), s. split; [|auto]. rewrite c_struct_sa_unfold.
      rewrite (find_def_nth E ND i d Ed). unfold c_struct in S1.
      destruct (seq_opt (map (ty_sa (c_struct_sa f E)) (sfields d))) as [ms|]; [|discriminate].
      inversion S1 as [S1']. rewrite S1'. reflexivity.
    + intros j d' os' Ed' Hn. apply nth_error_set_nth in Hn as [[-> Hx]|Hn]; [|eapply Ho; eauto].
      inversion Hx; subst. rewrite Ed in Ed'. inversion Ed'; subst. exists f, cos, s, al. auto.
Qed.

Lemma nth_error_all_none {A} (E : list A) i (x : list N) :
  nth_error (map (fun _ => @None (list N)) E) i = Some (Some x) -> False.
Proof. revert i. induction E; intros [|i] H; cbn in H; try discriminate. eauto. Qed.

(* partial correctness of compute_layouts w.r.t. the specification, both arithmetic modes *)
Lemma compute_layouts_sound chk E offs m : NoDup (map sname E) ->
  compute_layouts chk E = Ok (offs, m) ->
  (forall i d os, nth_error E i = Some d -> nth_error offs i = Some (Some os) ->
     exists f cos s a, c_struct f E (sfields d) = Some (cos, s, a) /\ os = map m32 cos
                       /\ (s < W32 -> os = cos)) /\
  (forall nm sz al, rlookup m nm = Some (sz, al) ->
     exists f s, c_struct_sa f E nm = Some (s, al) /\ sz = m32 s /\ (s < W32 -> sz = s)).
Proof.
  intros ND H. assert (H' : compute_layouts false E = Ok (offs, m)) by (destruct chk; [apply compute_layouts_chk|]; exact H).
  clear H. unfold compute_layouts in H'. destruct (has_self_ref E); [discriminate|].
  apply bind_ok in H' as [order [_ H]].
  destruct (lay_ok E ND _ _ _ _ _ H) as [Hm Ho].
  - intros nm sz al L. discriminate.
  - intros i d os _ Hn. exfalso. eapply nth_error_all_none; eauto.
  - split.
    + intros i d os Ed Hn. destruct (Ho _ _ _ Ed Hn) as [f [cos [s [a [S1 [S2 S3]]]]]].
      exists f, cos, s, a. repeat split; auto. intro Hs. subst os.
      clear - S3 Hs. induction S3 as [|o cos Ho _ IH]; cbn; [reflexivity|].
      rewrite IH. rewrite m32_small by lia. reflexivity.
    + intros nm sz al L. destruct (Hm _ _ _ L) as [f [s [S1 [S2 S3]]]]. exists f, s.
      repeat split; auto. intro. subst. apply m32_small. assumption.
Qed.

(* ------------------------------------------------------------------ diagnosis: direct self reference *)
Lemma self_ref_diagnosed chk E d t :
  In d E -> In t (sfields d) -> refs_by_value t (sname d) = true ->
  compute_layouts chk E = Fail ESelfRef.
Proof.
  intros Hd Ht Hr. unfold compute_layouts.
  assert (H : has_self_ref E = true).
  { unfold has_self_ref. apply existsb_exists. exists d. split; [exact Hd|].
    unfold self_ref. apply existsb_exists. exists t. auto. }
  rewrite H. reflexivity.
Qed.

(* ------------------------------------------------------------------ the u32 defect, concretely *)
Definition overflow_witness : list sdef := [(1, [TArray (TPrim PU8) 4294967297; TPrim PU8])].
Lemma overflow_witness_facts :
  (forall chk, exists m, compute_layouts chk overflow_witness = Ok ([Some [0; 1]], m)) /\
  c_struct 1 overflow_witness (sfields (1, [TArray (TPrim PU8) 4294967297; TPrim PU8]))
    = Some ([0; 4294967297], 4294967298, 1).
Proof.
  split; [intros [|]; eexists; vm_compute; reflexivity|vm_compute; reflexivity].
Qed.

(* 30 nested doublings of an 8-byte struct reach 2^32 bytes: reachable from source text *)
Fixpoint doubling (k : nat) (n : N) : list sdef :=
  match k with
  | O => [(n, [TPrim PI64])]
  | S k' => (n, [TStruct (n - 1); TStruct (n - 1)]) :: doubling k' (n - 1)
  end.
Definition doubling_witness : list sdef := (99, [TStruct 29; TPrim PU8]) :: doubling 29 29.
Lemma doubling_witness_facts :
  compute_layouts true doubling_witness = Fail EOverflow /\
  bind (compute_layouts false doubling_witness)
       (fun r => Ok (nth_error (fst r) 0, rlookup (snd r) 28, rlookup (snd r) 29))
  = Ok (Some (Some [0; 0]), Some (2147483648, 8), Some (0, 8)).
Proof. split; vm_compute; reflexivity. Qed.
