(* C18 -- Struct layouts follow the System V AMD64 C ABI.
   Property theorems only; proofs live in Proofs/LayoutProofs.v.
   Model/Layout.v = what air/src/layout.rs does (u32, bit trick, name maps, Kahn with a stack);
   Model/SysV.v  = what the psABI says (arithmetic, order-free); Extracted/LayoutTable.v = the
   (size, align) arms of layout_of as they are in the source today. *)
From Coq Require Import Permutation.
From Aelys Require Import Base.Tactics Extracted.LayoutTable Model.Layout Model.SysV Proofs.LayoutProofs.
Local Open Scope N_scope.

(* [round_up x a] of the specification really is "the least multiple of a that is >= x" *)
Theorem C18_round_up_least : forall x a, 0 < a ->
  (round_up x a) mod a = 0 /\ x <= round_up x a /\ round_up x a < x + a /\
  (forall m, m mod a = 0 -> x <= m -> round_up x a <= m).
Proof. exact round_up_spec. Qed.

(* align_to_spec: the bit trick (o + a - 1) & !(a - 1) in u32 is that least multiple, for every
   power of two a and every o, as long as o + a does not overflow (checked build: o + a < 2^32,
   release build: o + a - 1 < 2^32) *)
Theorem C18_align_to_spec : forall (chk : bool) o k, k < 32 ->
  o + 2^k < W32 + (if chk then 0 else 1)%N ->
  align_to chk o (2^k) = Ok (round_up o (2^k)).
Proof. exact align_to_exact. Qed.

(* release build, no guard at all: the result is congruent to the exact one modulo 2^32 *)
Theorem C18_align_to_wraps_congruent : forall x k, k < 32 ->
  align_to false (x mod W32) (2^k) = Ok ((round_up x (2^k)) mod W32).
Proof. exact align_to_wrap. Qed.

(* the table in layout_of today = sizeof/_Alignof of the C translation on x86-64 System V *)
Theorem C18_prim_table_is_sysv : forall p, prim_layout p = sysv_prim p.
Proof. exact prim_table_sysv. Qed.

(* struct_layout_matches_sysv: for any field list whose field types resolve to (size, align)
   pairs ms with power-of-two alignments, offsets / size / alignment computed by struct_layout
   are those of the C struct with these members, in both builds, provided the struct's size plus
   its alignment stays below 2^32 (release: does not exceed 2^32) *)
Theorem C18_struct_layout_matches_sysv : forall chk m fs ms,
  Forall2 (fun t sa => resolved_layout chk m t = Ok sa) fs ms ->
  Forall (fun sa => exists k, k < 32 /\ snd sa = 2^k) ms ->
  snd (fst (c_struct_of ms)) + snd (c_struct_of ms) < W32 + (if chk then 0 else 1)%N ->
  struct_layout chk m fs = Ok (c_struct_of ms).
Proof. exact struct_layout_exact. Qed.

(* ... and with no guard in the release build: congruent modulo 2^32, field by field *)
Theorem C18_struct_layout_wraps_congruent : forall m fs ms,
  Forall2 (fun t sa => resolved_layout false m t = Ok ((fst sa) mod W32, snd sa)) fs ms ->
  Forall (fun sa => exists k, k < 32 /\ snd sa = 2^k) ms ->
  struct_layout false m fs =
  Ok (map (fun o => o mod W32) (fst (fst (c_struct_of ms))), (snd (fst (c_struct_of ms))) mod W32, snd (c_struct_of ms)).
Proof. exact struct_layout_wrap. Qed.

(* a build with overflow checks either panics or computes what the release build computes *)
Theorem C18_checked_refines_wrapping : forall E r,
  compute_layouts true E = Ok r -> compute_layouts false E = Ok r.
Proof. exact compute_layouts_chk. Qed.

(* the specification's fuel only decides definedness, never the value *)
Theorem C18_spec_fuel_irrelevant : forall E f f' fs v v',
  c_struct f E fs = Some v -> c_struct f' E fs = Some v' -> v = v'.
Proof. exact c_struct_det. Qed.

(* layout_matches_sysv, soundness half: whenever compute_layouts returns (any build, any
   declaration order, any environment with unique names), every offset it stored is the C
   offset modulo 2^32 -- exactly the C offset when the struct is smaller than 4 GiB -- and every
   (size, align) it recorded is the C sizeof/_Alignof likewise.
   This half also covers environments outside the property's domain (undefined names, pointer
   soup) and the overflow-checked build. *)
Theorem C18_layout_sound_whenever_it_returns : forall chk E offs m,
  NoDup (map sname E) ->
  compute_layouts chk E = Ok (offs, m) ->
  (forall i d os, nth_error E i = Some d -> nth_error offs i = Some (Some os) ->
     exists f cos s a, c_struct f E (sfields d) = Some (cos, s, a) /\
                       os = map (fun o => o mod W32) cos /\ (s < W32 -> os = cos)) /\
  (forall nm sz al, rlookup m nm = Some (sz, al) ->
     exists f s, c_struct_sa f E nm = Some (s, al) /\ sz = s mod W32 /\ (s < W32 -> sz = s)).
Proof. exact compute_layouts_sound. Qed.

(* layout_matches_sysv: for EVERY well-formed environment (unique names, everything contained by
   value is defined, containment well-founded -- any size, any nesting, any declaration order)
   the release build returns, fills in the offsets of every struct, and offsets / size /
   alignment are those of the C struct modulo 2^32, exactly those when the struct is < 4 GiB. *)
Theorem C18_layout_matches_sysv : forall E, wf_env E ->
  exists offs m, compute_layouts false E = Ok (offs, m) /\
    forall i d, nth_error E i = Some d ->
      exists os f cos s a,
        nth_error offs i = Some (Some os) /\
        c_struct f E (sfields d) = Some (cos, s, a) /\
        os = map (fun o => o mod W32) cos /\ rlookup m (sname d) = Some (s mod W32, a) /\
        (s < W32 -> os = cos /\ rlookup m (sname d) = Some (s, a)).
Proof. exact layout_matches_sysv_lemma. Qed.

(* _partial: for the overflow-checked build only this is proved for whole environments: if it
   returns, it returns what the release build returns (hence the C layout, by the theorem above).
   Missing: that it does not panic when every struct is smaller than 2^32 - 8 bytes (proved per
   struct in C18_struct_layout_matches_sysv with chk = true, not composed over environments). *)
Theorem C18_layout_matches_sysv_checked_build_partial : forall E offs m, wf_env E ->
  compute_layouts true E = Ok (offs, m) ->
  forall i d, nth_error E i = Some d ->
    exists os f cos s a,
      nth_error offs i = Some (Some os) /\ c_struct f E (sfields d) = Some (cos, s, a) /\
      os = map (fun o => o mod W32) cos /\ (s < W32 -> os = cos /\ rlookup m (sname d) = Some (s, a)).
Proof. exact layout_checked_partial_lemma. Qed.

(* layout_order_independent: the same definitions in any two declaration orders get the same
   offsets, sizes and alignments (no size guard) *)
Theorem C18_layout_order_independent : forall E E', wf_env E -> Permutation E E' ->
  exists offs m offs' m',
    compute_layouts false E = Ok (offs, m) /\ compute_layouts false E' = Ok (offs', m') /\
    forall i i' d, nth_error E i = Some d -> nth_error E' i' = Some d ->
      nth_error offs i = nth_error offs' i' /\ rlookup m (sname d) = rlookup m' (sname d).
Proof. exact layout_order_independent_lemma. Qed.

(* cycle_diagnosed: if some non-empty set of structs is closed under "has a field that contains
   (directly or inside arrays) a member of the set", compute_layouts stops with one of its two
   diagnostics in both builds and lays nothing out *)
Theorem C18_cycle_diagnosed : forall chk E, NoDup (map sname E) -> byvalue_cycle E ->
  compute_layouts chk E = Fail ESelfRef \/ compute_layouts chk E = Fail ECycle.
Proof. exact cycle_diagnosed_lemma. Qed.

(* the fuel given to the model of the Kahn loop always suffices: the only outcomes are an order
   or the cycle diagnostic *)
Theorem C18_kahn_fuel_sufficient : forall E,
  (exists order, topological_order E = Ok order) \/ topological_order E = Fail ECycle.
Proof. exact topological_order_outcomes. Qed.

(* cycle_diagnosed, direct case: a struct that contains itself by value (possibly inside arrays) *)
Theorem C18_self_reference_diagnosed : forall chk E d t,
  In d E -> In t (sfields d) -> refs_by_value t (sname d) = true ->
  compute_layouts chk E = Fail ESelfRef.
Proof. exact self_ref_diagnosed. Qed.

(* the unguarded statement is false of the code: sizes are u32.  `n as u32` truncates silently in
   BOTH builds; 30 nested doublings of an 8-byte struct (expressible in source text) wrap to 0 in
   release and panic with an arithmetic overflow under overflow checks *)
Theorem C18_layout_matches_sysv_refuted :
  (forall chk, exists m, compute_layouts chk overflow_witness = Ok ([Some [0; 1]], m)) /\
  c_struct 1 overflow_witness (sfields (1, [TArray (TPrim PU8) 4294967297; TPrim PU8]))
    = Some ([0; 4294967297], 4294967298, 1).
Proof. exact overflow_witness_facts. Qed.

Theorem C18_doubling_chain_refuted :
  compute_layouts true doubling_witness = Fail EOverflow /\
  bind (compute_layouts false doubling_witness)
       (fun r => Ok (nth_error (fst r) 0, rlookup (snd r) 28, rlookup (snd r) 29))
  = Ok (Some (Some [0; 0]), Some (2147483648, 8), Some (0, 8)).
Proof. exact doubling_witness_facts. Qed.

(* non-vacuity: nested structs, array stride, tail padding, declared dependents-first *)
Example C18_nonvacuous :
  let E := [(2, [TPrim PU8; TArray (TStruct 1) 3; TPrim PU8; TPtr (TStruct 2)]);
            (1, [TPrim PI8; TPrim PI32; TPrim PI16])] in
  wf_env E /\ byvalue_cycle [(1, [TStruct 2]); (2, [TArray (TStruct 1) 0])] /\
  (exists m, compute_layouts true E = Ok ([Some [0; 4; 40; 48]; Some [0; 4; 8]], m)
             /\ rlookup m 1 = Some (12, 4) /\ rlookup m 2 = Some (56, 8)) /\
  c_struct 3 E (sfields (2, [TPrim PU8; TArray (TStruct 1) 3; TPrim PU8; TPtr (TStruct 2)]))
    = Some ([0; 4; 40; 48], 56, 8) /\
  compute_layouts true [(1, [TStruct 2]); (2, [TArray (TStruct 1) 0])] = Fail ECycle /\
  compute_layouts false [(1, [TPrim PU8; TArray (TStruct 1) 2])] = Fail ESelfRef.
Proof.
  cbv zeta. split; [exact example_wf|]. split; [exact example_cycle|].
  split; [eexists; vm_compute; repeat split; reflexivity|].
  vm_compute. repeat split; reflexivity.
Qed.
