(* C18 -- Struct layouts follow the System V AMD64 C ABI.
   Property theorems only; proofs live in Proofs/LayoutProofs.v.
   Model/Layout.v = what air/src/layout.rs does (checked u32 arithmetic, bit trick, name maps, Kahn
   with a stack, error values); Model/SysV.v = what the psABI says (arithmetic, order-free) and what
   fits u32; Extracted/LayoutTable.v = the (size, align) arms of layout_of as they are today. *)
From Coq Require Import Permutation.
From Aelys Require Import Base.Tactics Extracted.LayoutTable Model.Layout Model.SysV Proofs.LayoutProofs.
Local Open Scope N_scope.

(* [round_up x a] of the specification really is "the least multiple of a that is >= x" *)
Theorem C18_round_up_least : forall x a, 0 < a ->
  (round_up x a) mod a = 0 /\ x <= round_up x a /\ round_up x a < x + a /\
  (forall m, m mod a = 0 -> x <= m -> round_up x a <= m).
Proof. exact round_up_spec. Qed.

(* align_to_spec: offset.checked_add(align - 1)? & !(align - 1) is that least multiple, for every
   power of two a and every u32 o, whenever o + a - 1 fits u32 *)
Theorem C18_align_to_spec : forall o k, k < 32 -> o + 2^k <= W32 ->
  align_to o (2^k) = Ok (round_up o (2^k)).
Proof. exact align_to_exact. Qed.

(* ... and exactly: it is TooLarge iff the least multiple itself does not fit u32 *)
Theorem C18_align_to_exact : forall o a, (exists k, k < 32 /\ a = 2^k) -> o < W32 ->
  align_to o a = if W32 <=? round_up o a then Fail ETooLarge else Ok (round_up o a).
Proof. exact align_to_char. Qed.

(* the table in layout_of today = sizeof/_Alignof of the C translation on x86-64 System V *)
Theorem C18_prim_table_is_sysv : forall p, prim_layout p = sysv_prim p.
Proof. exact prim_table_sysv. Qed.

(* struct_layout_matches_sysv: for any field list whose field types resolve to (size, align) pairs
   ms with power-of-two alignments, struct_layout returns exactly the offsets / size / alignment of
   the C struct with these members when its sizeof fits u32, and TooLarge otherwise *)
Theorem C18_struct_layout_matches_sysv : forall m fs ms,
  Forall2 (fun t sa => resolved_layout m t = Ok sa) fs ms ->
  Forall (fun sa => exists k, k < 32 /\ snd sa = 2^k) ms ->
  struct_layout m fs =
  if W32 <=? snd (fst (c_struct_of ms)) then Fail ETooLarge else Ok (c_struct_of ms).
Proof. exact struct_layout_char. Qed.

(* the specification's fuel only decides definedness, never the value *)
Theorem C18_spec_fuel_irrelevant : forall E f f' fs v v',
  c_struct f E fs = Some v -> c_struct f' E fs = Some v' -> v = v'.
Proof. exact c_struct_det. Qed.

(* soundness for arbitrary environments with unique names (also outside the property's domain:
   undefined names, anything): whatever compute_layouts returns is exactly the C layout, and the
   definitions fit u32 *)
Theorem C18_layout_sound_whenever_it_returns : forall E offs m,
  NoDup (map sname E) ->
  compute_layouts E = Ok (offs, m) ->
  (forall i d os, nth_error E i = Some d -> nth_error offs i = Some (Some os) ->
     exists f s a, c_struct f E (sfields d) = Some (os, s, a) /\ struct_fits f E d) /\
  (forall nm s a, rlookup m nm = Some (s, a) -> exists f, c_struct_sa f E nm = Some (s, a) /\ s < W32).
Proof. exact compute_layouts_sound. Qed.

(* layout_matches_sysv: for EVERY well-formed environment (unique names, everything contained by
   value is defined, containment well-founded -- any size, nesting, declaration order):
   - if every struct and every array inside a field type is smaller than 2^32 bytes ([env_fits]),
     compute_layouts returns, fills in every struct, and each offset, size and alignment is
     exactly the C one;
   - otherwise it returns the diagnostic TooLarge and lays nothing out.
   There is no third outcome (no wrap-around, no panic, no other error). *)
Theorem C18_layout_matches_sysv : forall E, wf_env E ->
  (env_fits E /\ exists offs m, compute_layouts E = Ok (offs, m) /\
     forall i d, nth_error E i = Some d ->
       exists os f s a,
         nth_error offs i = Some (Some os) /\ c_struct f E (sfields d) = Some (os, s, a) /\
         s < W32 /\ rlookup m (sname d) = Some (s, a))
  \/ (~ env_fits E /\ compute_layouts E = Fail ETooLarge).
Proof. exact layout_matches_sysv_lemma. Qed.

Theorem C18_layout_fits_is_laid_out : forall E, wf_env E -> env_fits E ->
  exists offs m, compute_layouts E = Ok (offs, m) /\
     forall i d, nth_error E i = Some d ->
       exists os f s a,
         nth_error offs i = Some (Some os) /\ c_struct f E (sfields d) = Some (os, s, a) /\
         s < W32 /\ rlookup m (sname d) = Some (s, a).
Proof. exact layout_fits_lemma. Qed.

Theorem C18_too_large_diagnosed : forall E, wf_env E -> ~ env_fits E -> compute_layouts E = Fail ETooLarge.
Proof. exact layout_too_large_lemma. Qed.

(* layout_order_independent: the same definitions in any two declaration orders get the same
   outcome: the same offsets, sizes and alignments for every struct, or TooLarge both times *)
Theorem C18_layout_order_independent : forall E E', wf_env E -> Permutation E E' ->
  (exists offs m offs' m',
     compute_layouts E = Ok (offs, m) /\ compute_layouts E' = Ok (offs', m') /\
     forall i i' d, nth_error E i = Some d -> nth_error E' i' = Some d ->
       nth_error offs i = nth_error offs' i' /\ rlookup m (sname d) = rlookup m' (sname d))
  \/ (compute_layouts E = Fail ETooLarge /\ compute_layouts E' = Fail ETooLarge).
Proof. exact layout_order_independent_lemma. Qed.

(* cycle_diagnosed: if some non-empty set of structs is closed under "has a field that contains
   (directly or inside arrays) a member of the set", compute_layouts returns one of its two
   recursion diagnostics and lays nothing out *)
Theorem C18_cycle_diagnosed : forall E, NoDup (map sname E) -> byvalue_cycle E ->
  compute_layouts E = Fail ESelfRef \/ compute_layouts E = Fail ECycle.
Proof. exact cycle_diagnosed_lemma. Qed.

(* ... exactly then: the two recursion diagnostics are answered for every definition list with a
   by-value cycle and never for one without (any number of structs, any nesting depth, any order);
   the witness of a diagnostic is the set of structs Kahn's loop could not emit *)
Theorem C18_recursion_diagnosed_iff_cycle : forall E, NoDup (map sname E) ->
  (compute_layouts E = Fail ESelfRef \/ compute_layouts E = Fail ECycle) <-> byvalue_cycle E.
Proof. exact diagnostic_iff_cycle. Qed.

(* "acyclic set of struct definitions" of the property = [wf_env] of the theorems: the rank function
   of [wf_env] exists exactly when there is no by-value cycle *)
Theorem C18_wellformed_iff_acyclic : forall E,
  wf_env E <-> (NoDup (map sname E) /\ all_defined E /\ ~ byvalue_cycle E).
Proof. exact wf_env_iff_acyclic. Qed.

(* the complete outcome table on uniquely named, fully defined definitions: recursion diagnostic
   iff cycle; TooLarge iff acyclic and something does not fit u32; laid out iff acyclic and fits.
   No other error, no internal failure of the model. *)
Theorem C18_outcome_table : forall E, NoDup (map sname E) -> all_defined E ->
  (byvalue_cycle E /\ (compute_layouts E = Fail ESelfRef \/ compute_layouts E = Fail ECycle))
  \/ (~ byvalue_cycle E /\ ~ env_fits E /\ compute_layouts E = Fail ETooLarge)
  \/ (~ byvalue_cycle E /\ env_fits E /\ exists offs m, compute_layouts E = Ok (offs, m)).
Proof. exact outcome_table. Qed.

(* the direct case, without the unique-names hypothesis *)
Theorem C18_self_reference_diagnosed : forall E d t,
  In d E -> In t (sfields d) -> refs_by_value t (sname d) = true ->
  compute_layouts E = Fail ESelfRef.
Proof. exact self_ref_diagnosed. Qed.

(* the fuel given to the model of the Kahn loop always suffices *)
Theorem C18_kahn_fuel_sufficient : forall E,
  (exists order, topological_order E = Ok order) \/ topological_order E = Fail ECycle.
Proof. exact topological_order_outcomes. Qed.

(* regression: the inputs of the repaired defect KF-C18-1 (silent `n as u32` truncation, u32
   wrap-around, overflow panic; the last one is expressible in source text) are diagnosed now,
   and the largest struct that fits (2^32 - 1 bytes) is still laid out exactly *)
Theorem C18_former_overflow_inputs_diagnosed :
  compute_layouts overflow_witness = Fail ETooLarge /\
  compute_layouts [(1, [TArray (TPrim PI64) 536870912; TPrim PU8])] = Fail ETooLarge /\
  compute_layouts doubling_witness = Fail ETooLarge.
Proof. exact former_overflow_inputs_diagnosed. Qed.

Theorem C18_largest_struct_laid_out :
  bind (compute_layouts [(1, [TArray (TPrim PU8) 4294967294; TPrim PU8])])
       (fun r => Ok (fst r, rlookup (snd r) 1))
  = Ok ([Some [0; 4294967294]], Some (4294967295, 1)).
Proof. exact largest_struct_laid_out. Qed.

(* non-vacuity: a well-formed environment that fits, with nesting, array stride, tail padding,
   dependents declared first; a concrete by-value cycle *)
Example C18_nonvacuous :
  let E := [(2, [TPrim PU8; TArray (TStruct 1) 3; TPrim PU8; TPtr (TStruct 2)]);
            (1, [TPrim PI8; TPrim PI32; TPrim PI16])] in
  wf_env E /\ env_fits E /\ byvalue_cycle [(1, [TStruct 2]); (2, [TArray (TStruct 1) 0])] /\
  bind (compute_layouts E) (fun r => Ok (fst r, rlookup (snd r) 1, rlookup (snd r) 2))
    = Ok ([Some [0; 4; 40; 48]; Some [0; 4; 8]], Some (12, 4), Some (56, 8)) /\
  c_struct 3 E (sfields (2, [TPrim PU8; TArray (TStruct 1) 3; TPrim PU8; TPtr (TStruct 2)]))
    = Some ([0; 4; 40; 48], 56, 8) /\
  compute_layouts [(1, [TStruct 2]); (2, [TArray (TStruct 1) 0])] = Fail ECycle /\
  compute_layouts [(1, [TPrim PU8; TArray (TStruct 1) 2])] = Fail ESelfRef.
Proof.
  cbv zeta. split; [exact example_wf|]. split; [exact example_fits|]. split; [exact example_cycle|].
  vm_compute. repeat split; reflexivity.
Qed.
