(* C16 -- Compiling is deterministic and caching is invisible.
   Property theorems only; proofs live in Proofs/PipelineCacheProofs.v and
   Proofs/GlobalLayoutOrderProofs.v.

   What the theorems carry: the cache *protocol* of Pipeline::exec / compile_internal is
   transparent when the copy the cache makes is faithful on the outputs it accepts (and the
   key hash is injective on the sources used, stage names are distinct, every stage in front
   of a cacheable stage is stateless).  The copy the code makes -- Heap::clone() is
   Heap::new() -- is not faithful on Compiled outputs; since the repair of KF-C16-1/2 those
   are never cached, and transparency is stated for the code's actual clone.  Byte-for-byte determinism across processes is carried
   for build_global_layout (the one place where the compiler walks a HashMap to produce
   output); the rest of codegen is explored by the multi-process tie, not proved. *)
From Aelys Require Import Base.Tactics Extracted.PipelineStages Extracted.HashSites Model.PipelineCache Model.GlobalLayoutOrder Model.HashSites
  Proofs.PipelineCacheProofs Proofs.GlobalLayoutOrderProofs.
From Coq Require Import String Permutation.
Local Open Scope string_scope.
Local Open Scope list_scope.

(* One pipeline object serving any history of compile/execute requests gives the results of a
   fresh pipeline per request -- if cloning is faithful on the outputs the cache accepts. *)
Theorem cache_transparent :
  forall (src out err st : Type) (hash : src -> N) (inject : src -> out) (clone_out : out -> out) (cache_ok : out -> bool)
         (is_value is_compiled : out -> bool) (e_value_as_input e_missing e_not_compiled : err)
         (X : list src),
    (forall x y, In x X -> In y X -> hash x = hash y -> x = y) ->
    (forall o, cache_ok o = true -> clone_out o = o) ->
    forall ps : list (pstage out err), NoDup (map (p_name out err) ps) ->
    forall tail : list (stage out err st),
      Forall (fun t => s_cacheable out err st t = false) tail ->
      Forall (state_blind out err st) tail ->
      forall (s0 : st) (history : list (request src)),
        Forall (fun r => In (req_src r) X) history ->
        exec_cached src out err st hash inject clone_out cache_ok is_value is_compiled e_value_as_input e_missing e_not_compiled
                    (map (lift out err st) ps ++ tail) s0 history
        = exec_fresh src out err st hash inject clone_out cache_ok is_value is_compiled e_value_as_input e_missing e_not_compiled
                     (map (lift out err st) ps ++ tail) s0 history.
Proof. exact cached_eq_fresh. Qed.

(* The same statement with what a source IS written out: a (name, content) pair.  The hypothesis is
   injectivity of the key hash on PAIRS -- not on the text name ++ content. *)
Theorem cache_transparent_on_named_sources :
  forall (out err st : Type) (hash : string * string -> N) (inject : string * string -> out) (clone_out : out -> out) (cache_ok : out -> bool)
         (is_value is_compiled : out -> bool) (e_value_as_input e_missing e_not_compiled : err)
         (X : list (string * string)),
    (forall n1 c1 n2 c2, In (n1, c1) X -> In (n2, c2) X -> hash (n1, c1) = hash (n2, c2) -> n1 = n2 /\ c1 = c2) ->
    (forall o, cache_ok o = true -> clone_out o = o) ->
    forall ps : list (pstage out err), NoDup (map (p_name out err) ps) ->
    forall tail : list (stage out err st),
      Forall (fun t => s_cacheable out err st t = false) tail ->
      Forall (state_blind out err st) tail ->
      forall (s0 : st) (history : list (request (string * string))),
        Forall (fun r => In (req_src r) X) history ->
        exec_cached (string * string) out err st hash inject clone_out cache_ok is_value is_compiled e_value_as_input e_missing e_not_compiled
                    (map (lift out err st) ps ++ tail) s0 history
        = exec_fresh (string * string) out err st hash inject clone_out cache_ok is_value is_compiled e_value_as_input e_missing e_not_compiled
                     (map (lift out err st) ps ++ tail) s0 history.
Proof.
  intros out err st hash inject clone_out cache_ok is_value is_compiled e1 e2 e3 X Hinj.
  apply cached_eq_fresh. intros [n1 c1] [n2 c2] H1 H2 E. destruct (Hinj n1 c1 n2 c2 H1 H2 E) as [-> ->]. reflexivity.
Qed.

(* ... and a key that sees only the concatenation name ++ content can never satisfy that hypothesis on
   sources whose name/content boundary is shifted: ("chunk1", "2 - 3") and ("chunk12", " - 3") *)
Theorem concatenation_key_is_not_injective_on_pairs :
  forall h : string -> N,
    exists n1 c1 n2 c2, (n1, c1) <> (n2, c2) /\ h (n1 ++ c1)%string = h (n2 ++ c2)%string.
Proof.
  intro h. exists "chunk1", "2 - 3", "chunk12", " - 3". split; [discriminate|reflexivity].
Qed.

(* The cache alone (same stages, same VM, cache cleared before every request): no assumption
   on the uncacheable stages is needed. *)
Theorem cache_transparent_same_stage_state :
  forall (src out err st : Type) (hash : src -> N) (inject : src -> out) (clone_out : out -> out) (cache_ok : out -> bool)
         (is_value is_compiled : out -> bool) (e_value_as_input e_missing e_not_compiled : err)
         (X : list src),
    (forall x y, In x X -> In y X -> hash x = hash y -> x = y) ->
    (forall o, cache_ok o = true -> clone_out o = o) ->
    forall ps : list (pstage out err), NoDup (map (p_name out err) ps) ->
    forall tail : list (stage out err st),
      Forall (fun t => s_cacheable out err st t = false) tail ->
      forall (s0 : st) (history : list (request src)),
        Forall (fun r => In (req_src r) X) history ->
        exec_cached src out err st hash inject clone_out cache_ok is_value is_compiled e_value_as_input e_missing e_not_compiled
                    (map (lift out err st) ps ++ tail) s0 history
        = exec_uncached src out err st inject is_value is_compiled e_value_as_input e_missing e_not_compiled
                        (map (lift out err st) ps ++ tail) s0 history.
Proof. exact cached_eq_uncached. Qed.

(* The clone the code makes (Heap::clone() = Heap::new(), so a copied Compiled output loses its
   heap) is NOT faithful in general, but it is faithful on everything the cache accepts ... *)
Theorem clone_of_the_code_is_not_faithful : exists o, clone_code o <> o.
Proof. exact clone_code_not_faithful. Qed.

Theorem clone_of_the_code_is_faithful_where_cached : forall o : cout, c_cache_ok o = true -> clone_code o = o.
Proof. exact clone_code_faithful_on_cached. Qed.

(* ... hence transparency for the code's actual clone, with no faithfulness hypothesis *)
Theorem cache_transparent_for_the_codes_clone :
  forall (st : Type) (X : list N) (ps : list (pstage cout cerr)), NoDup (map (p_name cout cerr) ps) ->
    forall tail : list (stage cout cerr st),
      Forall (fun t => s_cacheable cout cerr st t = false) tail ->
      Forall (state_blind cout cerr st) tail ->
      forall (s0 : st) (history : list (request N)),
        Forall (fun r => In (req_src r) X) history ->
        exec_cached N cout cerr st (fun x => x) c_inject clone_code c_cache_ok c_is_value c_is_compiled EValueAsInput EMissing ENotCompiled
                    (map (lift cout cerr st) ps ++ tail) s0 history
        = exec_fresh N cout cerr st (fun x => x) c_inject clone_code c_cache_ok c_is_value c_is_compiled EValueAsInput EMissing ENotCompiled
                     (map (lift cout cerr st) ps ++ tail) s0 history.
Proof.
  intros st X ps ND tail Hu Hb s0 history Hh.
  exact (cached_eq_fresh N cout cerr st (fun x => x) c_inject clone_code c_cache_ok c_is_value c_is_compiled
           EValueAsInput EMissing ENotCompiled X (fun x y _ _ E => E) clone_code_faithful_on_cached ps ND tail Hu Hb s0 history Hh).
Qed.

(* the hypotheses are met by a concrete pipeline and a history with repeated and interleaved
   requests, with non-trivial results *)
Example cache_transparent_nonvacuous :
  (forall o : cout, (fun _ : cout => true) o = true -> (fun o => o) o = o) /\
  NoDup (map (p_name cout cerr) nv_ps) /\
  Forall (fun t => s_cacheable _ _ _ t = false) [nv_vm] /\
  Forall (state_blind cout cerr cst) [nv_vm] /\
  (forall x y : N, In x [0%N; 1%N] -> In y [0%N; 1%N] -> (fun x => x) x = (fun x => x) y -> x = y) /\
  Forall (fun r => In (req_src r) [0%N; 1%N]) nv_hist /\
  map res_payload (exec_cached N cout cerr cst (fun x => x) c_inject clone_code c_cache_ok c_is_value c_is_compiled
                     EValueAsInput EMissing ENotCompiled nv_stages mini_s0 nv_hist)
    = [Some 207%N; Some 208%N; Some 207%N; Some 2%N; Some 207%N].
Proof. exact nonvacuous_instance. Qed.

(* regression of the witnesses of KF-C16-1 (repaired): executing a source whose compiled unit owns
   heap constants three times, and compiling it twice, through one pipeline = fresh pipelines *)
Theorem cache_keeps_heap :
  map res_payload (mini_cached [RqExec 0%N; RqExec 0%N; RqExec 0%N]) = map res_payload (mini_fresh [RqExec 0%N; RqExec 0%N; RqExec 0%N]) /\
  map res_payload (mini_cached [RqCompile 0%N; RqCompile 0%N]) = [Some 2%N; Some 2%N].
Proof. exact (conj cache_keeps_heap_exec cache_keeps_heap_compile). Qed.

(* ABOUT THE OLD DEFINITION ONLY (before the repair every output of a cacheable stage was cached):
   the second result differed.  Kept to show what the insertion test protects against. *)
Theorem old_protocol_dropped_heap_witness :
  map res_payload (mini_cached_before_fix [RqExec 0%N; RqExec 0%N]) <> map res_payload (mini_fresh [RqExec 0%N; RqExec 0%N]) /\
  map res_payload (mini_cached_before_fix [RqCompile 0%N; RqCompile 0%N]) = [Some 2%N; Some 0%N].
Proof. exact old_protocol_dropped_heap. Qed.

(* ties to the source text (translator output): the clone modelled by clone_code is the one in
   bytecode/src/heap/mod.rs, the standard pipelines have the shape the theorem assumes, and
   compile_internal stops at the stage called "vm" *)
Theorem model_matches_source :
  heap_clone_is_empty = true /\ compiled_outputs_are_cached = false /\ cache_key_components_delimited = true /\ vm_stage_fresh_vm_per_run = true /\ cacheable_stages_stateless = true /\ compile_break_name = "vm" /\
  shape_ok standard_stages = true /\ shape_ok compilation_stages = true /\ shape_ok modules_stages = true.
Proof. vm_compute. repeat split. Qed.

(* determinism of the one HashMap walk that produces compiler output *)
Theorem layout_permutation_invariant :
  forall (n : nat) (gi gi' : list (string * nat)) (accessed : string -> bool),
    NoDup (map snd gi) -> (forall p, In p gi -> snd p < n) -> Permutation gi gi' ->
    build_layout n gi accessed = build_layout n gi' accessed.
Proof. exact layout_permutation_invariant_lemma. Qed.

(* ... and the indices the compiler's pre-pass hands out satisfy the hypothesis *)
Theorem layout_of_program_is_order_free :
  forall (decls : list string) (gi' : list (string * nat)) (accessed : string -> bool),
    Permutation (fst (assign_indices decls)) gi' ->
    build_layout (snd (assign_indices decls)) gi' accessed
    = build_layout (snd (assign_indices decls)) (fst (assign_indices decls)) accessed.
Proof. exact layout_of_decls_order_free. Qed.

(* the hypothesis is necessary: two names sharing an index make the iteration order visible *)
Theorem layout_needs_distinct_indices :
  exists gi gi', Permutation gi gi' /\ build_layout 1 gi (fun _ => true) <> build_layout 1 gi' (fun _ => true).
Proof. exact layout_order_visible_without_distinct_indices. Qed.

(* the other way a hash table's order could leak: merging a child compiler's table into the parent's
   (insert-if-absent per key) gives the same table for every iteration order of the child *)
Theorem merge_if_absent_permutation_invariant :
  forall (parent : table) (child child' : list (string * nat)),
    NoDup (map fst child) -> Permutation child child' ->
    forall k, merge_if_absent parent child k = merge_if_absent parent child' k.
Proof. exact merge_if_absent_permutation_invariant_lemma. Qed.

(* every iteration over a hash table that the translator finds on the compile path is in the
   classification table of Model/HashSites.v, and no serialized struct owns a hash table *)
Theorem every_hash_iteration_is_classified :
  unclassified hash_iteration_sites = [] /\ serialized_hash_fields = [].
Proof. vm_compute. split; reflexivity. Qed.

Example layout_example :
  layout_of_decls ["f"; "x"; "f"; "g"] = ["f"; "x"; "g"].
Proof. vm_compute. reflexivity. Qed.
