(* C04 -- Bytecode that passes verification executes without memory errors.
   Property theorems only; proofs live in Proofs/VerifierProofs.v and Proofs/FootprintProofs.v.

   What the theorems carry: index bounds of every raw-pointer access of the dispatch loop, over the
   verifier model (Model/Verifier.v) and the footprint model (Model/Footprint.v), both driven by tables
   regenerated from the Rust source.  What only the tie explores: that the models are the code, value
   semantics, natives, GC/lifetime of cached code pointers, and undefined behaviour other than
   out-of-range indices and the from_u8 transmute.

   The full statement (every reachable instruction of every accepted function stays in bounds) is FALSE
   of the faithful model, twice over: C04_jump_into_cache_word_refuted and C04_stale_constants_len_refuted.
   The strongest true statement is C04_verified_exec_in_bounds_on_grid under the explicit guards
   `on the verifier's grid` and `frame_inv` (loop-local constants_len <= true length). *)
From Aelys Require Import Base.Tactics Extracted.OpcodeNumbering Extracted.VerifierTable Extracted.DispatchSites
  Model.Verifier Model.Footprint Proofs.VerifierProofs Proofs.FootprintProofs.
Local Open Scope N_scope.

(* the scan checks every word on its linear grid: the opcode has a table entry and all its operand
   checks (registers, constant / upvalue index, jump range, call argument window, cache words) hold *)
Theorem C04_verifier_linear_sound : forall f : func, verify f = VOk ->
  forall ip w, on_grid (f_code f) ip = true -> nthN (f_code f) ip = Some w ->
  exists cs adv, decode (w_op w) = DEntry cs adv /\ forallb (check_ok (env_of f) ip w) cs = true.
Proof. intros f V. exact (verifier_linear_sound_lemma f (verify_body_of_verify f V)). Qed.

(* ... and nested functions of an accepted function are accepted *)
Theorem C04_verifier_nested : forall (d : N) (f g : func),
  verify_at d f = VOk -> In g (f_nested f) -> verify_at (d + 1) g = VOk.
Proof. exact verify_at_nested. Qed.

(* the instruction fetch is inside the bytecode buffer: all states, all words, no verifier needed *)
Theorem C04_fetch_in_bounds : forall (s : st) (w : N) (a : acc),
  In a (must s w) -> a_site a = S_FETCH -> in_bounds a = true.
Proof. exact fetch_in_bounds_lemma. Qed.

(* every access of a runtime-guarded site (fetch, constants, upvalues, registers, call-site cache) is
   inside its buffer for ALL states with a sound constants_len and ALL instruction words *)
Theorem C04_guarded_sites_in_bounds : forall (s : st) (w : N) (a : acc),
  frame_inv s -> footprint s w a -> guarded_site w a = true -> in_bounds a = true.
Proof. exact guarded_sites_in_bounds_lemma. Qed.

(* the unguarded inline cache-word reads of 77/78/104 are in bounds when the word is on the grid *)
Theorem C04_cache_words_in_bounds : forall (f : func) (s : st) (w : N) (a : acc),
  verify f = VOk -> on_grid (f_code f) (s_ip s) = true -> nthN (f_code f) (s_ip s) = Some w ->
  s_bclen s = len (f_code f) -> In a (cache_accs s w) -> in_bounds a = true.
Proof. intros f s w a V. exact (cache_words_in_bounds_lemma f s w a (verify_body_of_verify f V)). Qed.

(* strongest true statement: on the grid, with a sound constants_len, every raw access of the word
   (fetch, cache words read and patched in place, constants, upvalues, registers, call-site cache) is in bounds *)
Theorem C04_verified_exec_in_bounds_on_grid : forall (f : func) (s : st) (w : N) (a : acc),
  verify f = VOk -> on_grid (f_code f) (s_ip s) = true -> nthN (f_code f) (s_ip s) = Some w ->
  s_bclen s = len (f_code f) -> frame_inv s ->
  footprint s w a -> in_bounds a = true.
Proof. intros f s w a V. exact (on_grid_in_bounds_lemma f s w a (verify_body_of_verify f V)). Qed.

(* call paths that refresh the loop-local constants_len re-establish frame_inv ... *)
Theorem C04_refreshing_call_keeps_frame_inv : forall (op kind : N) (caller : st) (callee : func) (b : N),
  refreshes_clen op kind = true -> frame_inv (enter op kind caller callee b).
Proof. exact refreshing_call_keeps_inv. Qed.

(* FULL STATEMENT, refuted.  `verified_exec_in_bounds` would say: for every accepted f, every word
   reachable by f's own control flow, every state running it: all `must` accesses in bounds.
   Witness: [Jump +2][CallGlobal][w1][w2 = 0x4D......]: accepted; word 3 is reachable and off the grid;
   executing it reads word 5 of the 4-word buffer and (when the global resolves) writes words 4 and 5. *)
Theorem C04_jump_into_cache_word_refuted :
  exists (f : func) (s : st) (w : N) (a : acc),
    verify f = VOk /\ reach (f_code f) (s_ip s) /\ nthN (f_code f) (s_ip s) = Some w /\
    s_bclen s = len (f_code f) /\ frame_inv s /\
    In a (must s w) /\ in_bounds a = false /\
    may s w (S_PATCH_WR, 4, s_bclen s) = true /\ may s w (S_PATCH_WR, 5, s_bclen s) = true.
Proof.
  exists kf1_fn, kf1_st, 0x4d000000, (S_CACHE_RD, 5, 4).
  destruct kf1_facts as (V & _ & Hw & HI & HB & P4 & P5).
  repeat split; try assumption; try reflexivity. exact kf1_reach. unfold frame_inv. cbn. lia.
Qed.

(* Second refutation, ON the grid: Call(21) on a closure (likewise CallCached, CallUpval, TailCallUpval)
   switches constants_ptr but keeps the caller's constants_len; GetGlobal/SetGlobal index constants with
   imm16 while the verifier checks byte b only; the guard compares against the stale length. *)
Theorem C04_stale_constants_len_refuted :
  exists (f callee : func) (caller : st) (wcall w : N) (a : acc),
    verify f = VOk /\ In callee (f_nested f) /\ frame_inv caller /\
    nthN (f_code f) (s_ip caller) = Some wcall /\ In (w_op wcall, 1, false) call_paths /\
    let s := enter (w_op wcall) 1 caller callee 1 in
    on_grid (f_code callee) (s_ip s) = true /\ nthN (f_code callee) (s_ip s) = Some w /\
    In a (must s w) /\ in_bounds a = false /\ ~ frame_inv s.
Proof.
  exists kf2_fn, kf2_callee, kf2_caller_st, 0x15010000, 0x18000005, (S_CONST, 5, 1).
  destruct kf2_facts as (V & HN & FI & Hc & Hop & HP & G & Hw & HI & HB).
  rewrite Hop. repeat split; try assumption.
  unfold frame_inv. vm_compute. intros H. apply H. reflexivity.
Qed.

(* OpCode::from_u8 accepts (transmutes) bytes that are not discriminants; the verifier reaches it *)
Theorem C04_from_u8_gap :
  exists b : N, b <= from_u8_bound /\ is_discriminant b = false /\ In b gap_bytes /\
                verify (Func 1 [] 0 [b * 16777216] []) = VUndefined.
Proof. exists 122. exact gap_facts. Qed.

(* non-vacuity: compiler output is accepted, its grid skips cache words, guards are all present *)
Example C04_nonvacuous :
  verify sample_fn = VOk /\ on_grid (f_code sample_fn) 12 = true /\ on_grid (f_code sample_fn) 13 = false /\
  on_grid (f_code sample_fn) 15 = true /\ w_op 0x68000101 = OP_CallGlobalNative.
Proof. exact sample_facts. Qed.

Example C04_guards_present : guards_present = true.
Proof. exact guards_present_true. Qed.
