(* C04 -- Bytecode that passes verification executes without memory errors.
   Property theorems only; proofs live in Proofs/VerifierProofs.v and Proofs/FootprintProofs.v.

   What the theorems carry: index bounds of every raw-pointer access of the dispatch loop, over the
   verifier model (Model/Verifier.v), the footprint model and the frame machine (Model/Footprint.v), all
   driven by tables regenerated from the Rust source.  What only the tie explores: that the models are the
   code, value semantics, natives, GC/lifetime of cached code pointers, and undefined behaviour other than
   out-of-range indices and the from_u8 transmute.

   History: on the tree before the repairs (fix commits for KF-C04-1/2/3) the full statement was false
   (C04_jump_into_cache_word_refuted, C04_stale_constants_len_refuted, C04_from_u8_gap).  The code now
   (a) rejects jumps that do not land on an instruction start and bounds-checks the inline cache words,
   (b) refreshes constants_len on every frame switch and indexes GetGlobal/SetGlobal with byte b,
   (c) returns None from from_u8 for non-discriminants; the full statement is the theorem
   C04_verified_exec_in_bounds, without side conditions.  The former witnesses are kept as regression
   examples (C04_former_witnesses_now_safe). *)
From Aelys Require Import Base.Tactics Extracted.OpcodeNumbering Extracted.VerifierTable Extracted.DispatchSites
  Model.Verifier Model.Footprint Model.CallCacheLife Proofs.VerifierProofs Proofs.FootprintProofs Proofs.CallCacheLifeProofs.
Local Open Scope N_scope.

(* the scan checks every word on its linear grid: the opcode has a table entry and all its operand
   checks (registers, constant / upvalue index, jump range and landing, call argument window, cache words) hold *)
Theorem C04_verifier_linear_sound : forall f : func, verify f = VOk ->
  forall ip w, on_grid (f_code f) ip = true -> nthN (f_code f) ip = Some w ->
  exists cs adv, decode (w_op w) = DEntry cs adv /\ forallb (check_ok (env_of f) ip w) cs = true.
Proof. intros f V. exact (verifier_linear_sound_lemma f (verify_body_of_verify f V)). Qed.

(* ... and nested functions of an accepted function are accepted *)
Theorem C04_verifier_nested : forall (d : N) (f g : func),
  verify_at d f = VOk -> In g (f_nested f) -> verify_at (d + 1) g = VOk.
Proof. exact verify_at_nested. Qed.

(* control flow of an accepted function stays on the grid: every word reachable from word 0 through
   fall-through, the cache-word skip and jumps is an instruction start *)
Theorem C04_reachable_words_on_grid : forall (f : func) (ip : N),
  verify f = VOk -> reach (f_code f) ip -> ip < len (f_code f) -> grid (f_code f) ip.
Proof. intros f ip V. exact (reach_grid f ip (verify_body_of_verify f V)). Qed.

(* the instruction fetch is inside the bytecode buffer: all states, all words, no verifier needed *)
Theorem C04_fetch_in_bounds : forall (s : st) (w : N) (a : acc),
  In a (must s w) -> a_site a = S_FETCH -> in_bounds a = true.
Proof. exact fetch_in_bounds_lemma. Qed.

(* every access of a runtime-guarded site (fetch, inline cache words, constants, upvalues, registers,
   call-site cache) is inside its buffer for ALL states with a sound constants_len and ALL instruction words *)
Theorem C04_guarded_sites_in_bounds : forall (s : st) (w : N) (a : acc),
  frame_inv s -> footprint s w a -> guarded_site w a = true -> in_bounds a = true.
Proof. exact guarded_sites_in_bounds_lemma. Qed.

(* the inline cache-word reads of 77/78/104 are in bounds when the word is on the grid (verifier side) *)
Theorem C04_cache_words_in_bounds : forall (f : func) (s : st) (w : N) (a : acc),
  verify f = VOk -> on_grid (f_code f) (s_ip s) = true -> nthN (f_code f) (s_ip s) = Some w ->
  s_bclen s = len (f_code f) -> In a (cache_accs s w) -> in_bounds a = true.
Proof. intros f s w a V. exact (cache_words_in_bounds_lemma f s w a (verify_body_of_verify f V)). Qed.

(* every frame switch (Call, CallGlobal, CallGlobalMono, CallCached, CallUpval, TailCallUpval; function or
   closure) leaves the loop with constants_len = length of the callee's constant table *)
Theorem C04_calls_keep_frame_inv : forall (op kind : N) (caller : st) (callee : func) (b : N),
  frame_inv (enter op kind caller callee b).
Proof. exact enter_frame_inv. Qed.

(* one function, its own control flow: every reachable word has all raw accesses in bounds *)
Theorem C04_reachable_words_in_bounds : forall (f : func) (s : st) (w : N) (a : acc),
  verify f = VOk -> reach (f_code f) (s_ip s) -> nthN (f_code f) (s_ip s) = Some w ->
  s_bclen s = len (f_code f) -> frame_inv s -> footprint s w a -> in_bounds a = true.
Proof. intros f s w a V. exact (reach_in_bounds_lemma f s w a (verify_body_of_verify f V)). Qed.

(* FULL STATEMENT.  Start the loop on any accepted function (VM::execute); let it step, jump, call any
   accepted callee through any call path, tail-call, return, with registers.len() and the call-site cache
   changing arbitrarily: whatever word it fetches next, every raw access that word performs -- fetch, inline
   cache words read and patched in place, constants, upvalues, registers, call-site cache -- is inside its buffer. *)
Theorem C04_verified_exec_in_bounds : forall (f : func) (fr : frame) (rest : list frame) (w : N) (a : acc),
  verify f = VOk -> mreach f (fr :: rest) ->
  nthN (f_code (fr_fn fr)) (s_ip (fr_st fr)) = Some w ->
  footprint (fr_st fr) w a -> in_bounds a = true.
Proof. exact verified_exec_in_bounds_lemma. Qed.

(* OpCode::from_u8 returns Some only for declared discriminants; the verifier never meets an undefined opcode *)
Theorem C04_from_u8_total : forall b : N, from_u8_accepts b = true -> is_discriminant b = true.
Proof. exact from_u8_total_lemma. Qed.

Theorem C04_verifier_never_undefined : forall (e : venv) (code : list N) (fuel : nat) (i : N),
  scan fuel e code i <> VUndefined.
Proof. intros e code. exact (scan_never_undefined e code). Qed.

(* the witnesses that refuted the full statement before the repairs, on the code as it is now:
   the jump into a cache word is rejected (and off the grid the cache words are no longer touched);
   the closure call refreshes constants_len and GetGlobal reads constant b = 0; byte 0x7A is an invalid opcode *)
Example C04_former_witnesses_now_safe :
  (verify kf1_fn = VReject /\ on_grid (f_code kf1_fn) 3 = false /\ must kf1_st 0x4d000000 = [(S_FETCH, 3, 4)]) /\
  (verify kf2_fn = VOk /\
   must (enter OP_Call 1 kf2_caller_st kf2_callee 1) 0x18000005 = [(S_FETCH, 0, 2); (S_CONST, 0, 1)] /\
   s_clen (enter OP_Call 1 kf2_caller_st kf2_callee 1) = 1) /\
  (gap_bytes = [] /\ verify (Func 1 [] 0 [0x7a000000] []) = VReject).
Proof. exact (conj kf1_now (conj kf2_now gap_now)). Qed.

(* non-vacuity: compiler output is accepted, its grid skips cache words, the machine runs it *)
Example C04_nonvacuous :
  verify sample_fn = VOk /\ on_grid (f_code sample_fn) 12 = true /\ on_grid (f_code sample_fn) 13 = false /\
  on_grid (f_code sample_fn) 15 = true /\ w_op 0x68000101 = OP_CallGlobalNative.
Proof. exact sample_facts. Qed.

Example C04_machine_nonvacuous :
  exists cfg, mreach sample_fn cfg /\
    match cfg with fr :: _ => s_ip (fr_st fr) = 1 /\ fr_fn fr = sample_fn | [] => False end.
Proof. exact sample_machine. Qed.

(* every runtime guard and verifier check the proofs rely on is present in the source *)
Example C04_guards_present : guards_present = true /\ all_calls_refresh = true /\ jump_grid_checked = true.
Proof. exact (conj guards_present_true (conj all_calls_refresh_true jump_grid_present)). Qed.

(* ---- Phase 3 ---------------------------------------------------------------------------------------- *)

(* every raw access the translator finds in the dispatch arms (pointer dereference, get_unchecked; anything else
   raw is refused by the translator) has its entry in the tables the footprint is built from, and vice versa *)
Example C04_raw_census_covered : census_covered = true.
Proof. exact census_covered_true. Qed.

(* the dispatch arms that move ip by an immediate are all jump-checked by the verifier, and the arms that skip two
   cache words are exactly the verifier's skip set: the control flow the theorems walk is the loop's *)
Example C04_dispatch_control_flow_verified :
  forallb has_jump dispatch_jump_ops = true /\ (forall w, disp_adv w = adv_of w).
Proof. exact (conj dispatch_jumps_verified disp_adv_is_adv). Qed.

(* LIFETIME of the raw code pointers in the call-site cache.  Whatever the history of copies between the global
   tables and the layout snapshots, stores (which flush), collections (which may free anything no global names
   and no survivor points at, and may hand the index to a new object), allocations and fills: an entry the
   CallGlobalMono fast path is allowed to take describes live objects -- the callee cached at the site, the very
   object the entry was filled from, and the function object reachable from it, whose buffers the pointers address *)
Theorem C04_cache_hit_pointers_alive : forall (s : lstate) (slot ptr : N) (e : centry),
  lreach s -> hit_allowed s slot ptr e -> entry_valid s e.
Proof. exact hit_entry_valid_lemma. Qed.

(* generations are never reused, so "same generation" above means "same object" *)
Theorem C04_cache_generations_fresh : forall s s' : lstate, lstep s s' -> gens_below s -> gens_below s'.
Proof. exact lstep_keeps_gens. Qed.

Example C04_cache_nonvacuous : lreach ex_s1 /\ hit_allowed ex_s1 2 1 ex_e.
Proof. exact ex_reach. Qed.

Example C04_cache_protocol_present :
  stores_flush_cache = true /\ gc_roots_globals = true /\ mono_hit_guard = true /\ cache_fills_from_callee = true.
Proof. exact protocol_present. Qed.

(* the raw code pointer the loop reads, patches and caches is taken from the place of the boxed word slice: it carries
   write permission and taking it does not invalidate earlier ones (KF-C04-5, found by Miri, repaired by 92a073f);
   the aliasing discipline itself is checked by the Miri leg of the thorough tier, not by a model *)
Example C04_code_pointer_writable : code_ptr_writable = true.
Proof. reflexivity. Qed.

(* the dispatch loop splits an instruction word into opcode / a / b / c / imm exactly like the verifier (both read off the source) *)
Example C04_decode_fields_agree : disp_op_shift = op_shift /\ disp_a_shift = a_shift /\ disp_b_shift = b_shift.
Proof. exact decode_fields_agree. Qed.
