(* C12 -- Every value has exactly one type and survives boxing unchanged.
   Property theorems only; proofs live in Proofs/ValueProofs.v. *)
From Aelys Require Import Base.Tactics Extracted.ValueConsts Model.Value Proofs.ValueProofs.
From Aelys Require Import Model.ValuePool Proofs.ValuePoolProofs.
Local Open Scope N_scope.

(* every 64-bit word is exactly one of float / int / bool / null / pointer / nested marker *)
Theorem C12_kind_partition : forall w : N, w < W64 -> kind_count w = 1.
Proof. exact kind_partition_lemma. Qed.

(* any i64 passed to the unchecked constructor is an int and reads back wrapped to 48 bits *)
Theorem C12_int_wrap : forall n : Z,
  is_int (v_int n) = true /\ kind_count (v_int n) = 1 /\ as_int (v_int n) = Some (wrap48 n).
Proof. intro n. exact (conj (int_is_int n) (conj (int_kind_count n) (int_wrap_lemma n))). Qed.

(* ... and unchanged inside the 48-bit range *)
Theorem C12_int_roundtrip : forall n : Z, in48 n -> as_int (v_int n) = Some n.
Proof. exact int_roundtrip_lemma. Qed.

(* the checked constructor accepts exactly the 48-bit range *)
Theorem C12_int_checked : forall n : Z, is_i64 n = true ->
  (in48 n -> v_int_checked n = Some (v_int n)) /\ (~ in48 n -> v_int_checked n = None).
Proof. exact int_checked_lemma. Qed.

(* every f64 bit pattern: NaNs become the one canonical NaN, everything else reads back
   bit-identical; the result is a float and nothing else *)
Theorem C12_float_roundtrip : forall w : N, w < W64 ->
  (is_nan_bits w = true -> v_float w = CANONICAL_NAN) /\
  (is_nan_bits w = false -> v_float w = w /\ as_float (v_float w) = Some w) /\
  is_float (v_float w) = true /\ kind_count (v_float w) = 1.
Proof. exact float_roundtrip_lemma. Qed.

Theorem C12_canonical_nan :
  is_nan_bits CANONICAL_NAN = true /\ is_float CANONICAL_NAN = true
  /\ kind_count CANONICAL_NAN = 1 /\ CANONICAL_NAN < W64.
Proof. exact canonical_nan_facts. Qed.

Theorem C12_bool_roundtrip : forall b : bool, as_bool (v_bool b) = Some b /\ kind_count (v_bool b) = 1.
Proof. exact bool_roundtrip_lemma. Qed.

Theorem C12_null : is_null v_null = true /\ kind_count v_null = 1.
Proof. exact null_roundtrip_lemma. Qed.

Theorem C12_ptr_roundtrip : forall p : N, p < 281474976710656 ->
  as_ptr (v_ptr p) = Some p /\ kind_count (v_ptr p) = 1.
Proof. exact ptr_roundtrip_lemma. Qed.

Theorem C12_nested_roundtrip : forall i : N, i < 281474976710656 ->
  as_nested (v_nested i) = Some i /\ kind_count (v_nested i) = 1.
Proof. exact nested_roundtrip_lemma. Qed.

(* equality *)
Theorem C12_eq_int_int : forall a b : Z, in48 a -> in48 b ->
  value_eq (v_int a) (v_int b) = (a =? b)%Z.
Proof. exact eq_int_int_lemma. Qed.

Theorem C12_eq_float_float : forall a b : N, a < W64 -> b < W64 ->
  is_nan_bits a = false -> is_nan_bits b = false ->
  value_eq (v_float a) (v_float b) = f64_eq a b.
Proof. exact eq_float_float_lemma. Qed.

Theorem C12_eq_int_float : forall (n : Z) (f : N), in48 n -> f < W64 -> is_nan_bits f = false ->
  value_eq (v_int n) (v_float f) = int_eq_f64 n f /\
  value_eq (v_float f) (v_int n) = int_eq_f64 n f.
Proof. exact eq_int_float_lemma. Qed.

(* int_eq_f64 is exact numeric equality: n = sm * 2^e where (sm, e) is the float's exact value *)
Theorem C12_int_eq_f64_exact : forall (n : Z) (f : N),
  int_eq_f64 n f = true <->
  exists sm e, f_decode f = Some (sm, e) /\
               ((0 <= e)%Z /\ n = (sm * 2 ^ e)%Z \/ (e < 0)%Z /\ (n * 2 ^ (- e))%Z = sm).
Proof. exact int_eq_f64_spec. Qed.

(* non-vacuity: the hypotheses are met by concrete, non-trivial values *)
Example C12_nonvacuous :
  in48 (-140737488355328)%Z /\ as_int (v_int (-140737488355328)%Z) = Some (-140737488355328)%Z
  /\ as_int (v_int 140737488355328%Z) = Some (-140737488355328)%Z
  /\ is_nan_bits 0xFFF8000000000001 = true /\ is_ptr 0xFFF8000000000001 = true
  /\ v_float 0xFFF8000000000001 = CANONICAL_NAN
  /\ value_eq (v_int 3) (v_float 0x4008000000000000) = true
  /\ value_eq (v_float 0) (v_float 0x8000000000000000) = true.
Proof. vm_compute. repeat split; try reflexivity; discriminate. Qed.

(* a value stored as a constant of a compiled function is read back bit for bit (the pool merges
   two constants only when they are the same word: `==` would merge 0.0 with -0.0 and 1 with 1.0),
   and adding a constant never changes an earlier one *)
Theorem C12_constant_pool_reads_back : forall (p : list N) (w : N),
  let '(p', i) := pool_add p w in (i < length p')%nat /\ nth i p' 0%N = w.
Proof. exact pool_add_reads_back. Qed.

Theorem C12_constant_pool_keeps_earlier : forall (p : list N) (w : N) (j : nat), (j < length p)%nat ->
  nth j (fst (pool_add p w)) 0%N = nth j p 0%N.
Proof. exact pool_add_keeps_earlier. Qed.
