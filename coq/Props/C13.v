(* C13 -- @no_gc regions suspend collection and always restore it.
   Property theorems only; proofs live in Proofs/NoGcProofs.v.  `return_exit_order` (where
   compile_typed_return emits ExitNoGc relative to the returned expression) and the constants are
   regenerated from the Rust source by tools/extractors/c13.py on every run. *)
From Aelys Require Import Base.Tactics Extracted.NoGcConsts Model.NoGc Proofs.NoGcProofs.

(* ---- counter machine *)
Theorem opcode_exit_undoes_enter : forall d : N, op_exit (op_enter d) = Some d.
Proof. exact op_exit_enter. Qed.

(* opcode 27 fails (InvalidBytecode "no_gc underflow") exactly at depth 0 *)
Theorem opcode_exit_underflow : forall d : N, op_exit d = None <-> d = 0%N.
Proof. exact op_exit_none. Qed.

(* the host API pair is an inverse pair strictly below the saturation bound ... *)
Theorem api_enter_exit_guarded : forall d : N, (d < MAX_NO_GC_DEPTH)%N -> api_exit (api_enter d) = d.
Proof. exact api_enter_exit_below. Qed.

(* ... but enter saturates and exit does not: 65 nested enters followed by 64 exits leave depth 0
   although one region is still open *)
Theorem api_nesting_balanced_refuted :
  Nat.iter 65 api_enter 0%N = 64%N /\ Nat.iter 64 api_exit (Nat.iter 65 api_enter 0%N) = 0%N.
Proof. exact api_saturation_witness. Qed.

(* ---- collection is suspended while the depth is positive *)
Theorem no_collect_when_positive :
  forall (H : Type) (collect : H -> H) (should_collect : H -> bool) (force : option bool) (d : N) (h : H),
  (0 < d)%N -> maybe_collect H collect should_collect force d h = h.
Proof. exact maybe_collect_positive. Qed.

(* ---- emission: every entry -> Ret path of a compiled function body has as many EnterNoGc as ExitNoGc
   and the depth never goes below the entry depth -- for every body skeleton (sequence / if / loops /
   break / continue / return e / nested declarations / calls), @no_gc or not, inlining or not *)
Theorem balanced_all_paths :
  forall (inl : bool) (P : list fn) (f : fn) (t : list ev),
  path (emit_fn return_exit_order inl P f) t CReturned ->
  count_ev is_enter t = count_ev is_exit t /\ dmin 0 t = 0%Z.
Proof. exact (fun inl P f => balanced_lemma return_exit_order inl P f order_ok). Qed.

(* a run that ends with an error at any instruction never leaves the depth BELOW the entry depth *)
Theorem error_never_lowers_depth :
  forall (inl : bool) (P : list fn) (f : fn) (t : list ev),
  path (emit_fn return_exit_order inl P f) t CErr -> (0 <= dend 0 t)%Z /\ dmin 0 t = 0%Z.
Proof. exact (fun inl P f => error_path_lemma return_exit_order inl P f order_ok). Qed.

(* ---- lifting through calls (executable semantics over the emitted table, any fuel): a call that
   returns leaves the depth where it was, whatever the nesting / recursion of @no_gc and normal
   functions below it; ExitNoGc never underflows in compiled code; an error never lowers the depth *)
Theorem nested_calls_restore :
  forall (inl : bool) (P : list fn) (fuel : nat) (g : nat) (n i : Z) (st : vst),
  let r := vm_exec fuel (emit_tbl return_exit_order inl P) (KCall g) n i st in
  (fst r = ONormal -> v_depth (snd r) = v_depth st) /\
  (fst r = OErr -> (v_depth st <= v_depth (snd r))%N) /\
  fst r <> OUnder /\ fst r <> ORet /\ fst r <> OBrk /\ fst r <> OCont.
Proof. exact (fun inl P => call_restores return_exit_order inl P order_ok). Qed.

(* a top-level run / REPL input that ends Ok leaves no_gc_depth as it found it *)
Theorem ok_run_restores_depth :
  forall (inl : bool) (P : prog) (n0 : Z) (d0 : N),
  let r := run_vm return_exit_order inl P n0 d0 in
  (fst r = ONormal -> v_depth (snd r) = d0) /\ (fst r = OErr -> (d0 <= v_depth (snd r))%N) /\ fst r <> OUnder.
Proof. exact (fun inl P n0 d0 => run_vm_restores return_exit_order inl P n0 d0 order_ok). Qed.

Theorem session_of_ok_inputs_restores :
  forall (inl : bool) (inputs : list (prog * Z)) (d : N),
  Forall (fun r => fst r = ONormal) (session return_exit_order inl inputs d) ->
  Forall (fun r => snd r = d) (session return_exit_order inl inputs d).
Proof. exact (fun inl => session_ok_restores return_exit_order inl order_ok). Qed.

(* ---- the two facts that are FALSE of the faithful model, and the strongest true statements *)

(* (1) allocation points inside a region.  Refuted: `@no_gc fn f(a, b) { return a + b }` -- the
   concatenation is evaluated after ExitNoGc, at the caller's depth. *)
Theorem safepoint_in_return_expr_at_depth0_refuted :
  exists (f : fn) (t : list ev),
    f_nogc f = true /\ path (emit_fn return_exit_order false [] f) t CReturned /\ ~ alloc_pos 0 t.
Proof.
  exists w_leaf_ret, [VEnter; VExit; VSafe].
  exact (conj eq_refl (return_expr_path_witness eq_refl)).
Qed.

Theorem safepoint_in_return_expr_run_refuted :
  exists (P : prog) (n0 : Z),
    let '(o, st) := run_vm return_exit_order false P n0 0 in
    let '(_, ss) := run_src P n0 in
    o = ONormal /\ s_flag ss = 1%N /\ v_pos st = 0%N /\ v_depth st = 0%N.
Proof. exists (prog_call w_leaf_ret), 1%Z. exact return_expr_exec_witness. Qed.

(* guarded: when no `return e` of the @no_gc body has an allocation point or a call in e, every
   allocation point and every call of the body happens at depth > 0, on every path, also the ones
   that end with an error *)
Theorem region_safepoints_positive_guarded :
  forall (inl : bool) (P : list fn) (f : fn),
  f_nogc f = true -> ret_quiet (f_body f) = true ->
  forall (t : list ev) (m : cmp), path (emit_fn return_exit_order inl P f) t m -> alloc_pos 0 t.
Proof. exact (fun inl P f => region_alloc_pos_lemma return_exit_order inl P f order_ok). Qed.

(* (2) restore after an error.  Refuted: a division by zero inside a @no_gc function (REPL input 1)
   leaves no_gc_depth = 1 for all later inputs; their safepoints are all reached at depth > 0, i.e.
   the collector stays disabled. *)
Theorem error_restores_depth_refuted :
  exists (inputs : list (prog * Z)),
    session return_exit_order false inputs 0 = [(OErr, 1%N); (ONormal, 1%N); (ONormal, 1%N)].
Proof.
  exists [(prog_call w_fail_in_region, 1%Z); (prog_safe, 1%Z); (prog_safe, 1%Z)].
  exact (proj1 error_leak_witness).
Qed.

(* the two defects mask each other when the failing operation is inside the return expression *)
Theorem error_in_return_expr_is_masked :
  session return_exit_order false [(prog_call w_fail_in_return, 1%Z); (prog_safe, 1%Z)] 0
  = [(OErr, 0%N); (ONormal, 0%N)].
Proof. exact error_in_return_expr_masked. Qed.

(* guarded: without @no_gc functions nothing changes the depth, whatever the outcome *)
Theorem error_restores_depth_guarded :
  forall (inl : bool) (P : prog) (n0 : Z) (d0 : N),
  Forall (fun f => f_nogc f = false) (p_fns P) ->
  v_depth (snd (run_vm return_exit_order inl P n0 d0)) = d0.
Proof. exact (no_nogc_depth_constant return_exit_order). Qed.

(* (3) inlining: `@no_gc fn g(a, b) { a + b }` called once -- not inlined the concatenation is reached
   at depth 1, inlined (what -O1..-O3 do) at depth 0 *)
Theorem inline_preserves_region_refuted :
  exists (P : prog) (n0 : Z),
    let '(_, a) := run_vm return_exit_order false P n0 0 in
    let '(_, b) := run_vm return_exit_order true P n0 0 in
    let '(_, ss) := run_src P n0 in
    s_flag ss = 1%N /\ v_pos a = 1%N /\ v_pos b = 0%N /\ v_safes a = v_safes b.
Proof. exists (prog_call w_leaf_imp), 1%Z. exact inline_witness. Qed.

(* non-vacuity: a program with recursion, loops with break / continue and an early return inside a
   @no_gc function runs to completion in the model with safepoints on both sides of the region *)
Example C13_nonvacuous :
  let P := mkProg [mkFn true false
                     (sq [SExpr ESafe;
                          SLoop 0 3 (sq [SIf (CIeq 1) (sq [SContinue]) (sq []); SExpr ESafe;
                                         SIf (CIgt 1) (sq [SBreak]) (sq [])]);
                          SIf (CNgt 0) (sq [SExpr (ECall 0); SReturn EAtom]) (sq []);
                          SExpr ESafe])]
                  (sq [SExpr ESafe; SExpr (ECall 0); SExpr ESafe]) 1 in
  let '(o, st) := run_vm return_exit_order false P 2%Z 0 in
  o = ONormal /\ v_depth st = 0%N /\ v_safes st = 10%N /\ v_pos st = 7%N.
Proof. vm_compute. repeat split; reflexivity. Qed.
