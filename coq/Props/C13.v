(* C13 -- @no_gc regions suspend collection and always restore it.
   Property theorems only; proofs live in Proofs/NoGcProofs.v.  `return_exit_order` (where
   compile_typed_return emits ExitNoGc relative to the returned expression) and the constants are
   regenerated from the Rust source by tools/extractors/c13.py on every run. *)
From Aelys Require Import Base.Tactics Extracted.NoGcConsts Extracted.GcRootFields Model.NoGc Proofs.NoGcProofs.

(* ---- counter machine *)
Theorem opcode_exit_undoes_enter : forall d : N, op_exit (op_enter d) = Some d.
Proof. exact op_exit_enter. Qed.

(* opcode 27 fails (InvalidBytecode "no_gc underflow") exactly at depth 0 *)
Theorem opcode_exit_underflow : forall d : N, op_exit d = None <-> d = 0%N.
Proof. exact op_exit_none. Qed.

(* the host API pair VM::enter_no_gc / exit_no_gc is an inverse pair at every depth (KF: enter used to
   stop counting at MAX_NO_GC_DEPTH; repaired, see Proofs.old_api_saturation_witness for the old definition) *)
Theorem api_enter_exit_inverse : forall d : N, api_exit (api_enter d) = d.
Proof. exact NoGcProofs.api_enter_exit_inverse. Qed.

(* ---- collection is suspended while the depth is positive *)
Theorem no_collect_when_positive :
  forall (H : Type) (collect : H -> H) (should_collect : H -> bool) (force : option bool) (d : N) (h : H),
  (0 < d)%N -> maybe_collect H collect should_collect force d h = h.
Proof. exact maybe_collect_positive. Qed.

(* ... and maybe_collect is the ONLY way to a collection: the call sites of VM::collect / Heap::sweep, regenerated from every
   crate of the source on every run (Extracted.NoGcConsts.collect_paths), are the guarded calls in maybe_collect and the sweep
   inside VM::collect itself.  A new `self.collect()` anywhere else runs without looking at no_gc_depth and fails this *)
Example every_collection_path_is_guarded :
  List.forallb (fun s => snd s) collect_paths = true /\ (0 < List.length collect_paths)%nat.
Proof. vm_compute. split; [reflexivity | repeat constructor]. Qed.

(* ---- emission: every entry -> Ret path of a compiled function body has as many EnterNoGc as ExitNoGc
   and the depth never goes below the entry depth -- for every body skeleton (sequence / if / loops /
   break / continue / return e / nested declarations / calls), @no_gc or not, inlining or not *)
Theorem balanced_all_paths :
  forall (inl : bool) (P : list fn) (f : fn) (t : list ev),
  path (emit_fn return_exit_order inl P f) t CReturned ->
  count_ev is_enter t = count_ev is_exit t /\ dmin 0 t = 0%Z.
Proof. exact (fun inl P f => balanced_lemma return_exit_order inl P f order_ok). Qed.

(* a run that ends with an error at any instruction never leaves the depth BELOW the entry depth *)
Theorem error_never_lowers_depth :
  forall (inl : bool) (P : list fn) (f : fn) (t : list ev),
  path (emit_fn return_exit_order inl P f) t CErr -> (0 <= dend 0 t)%Z /\ dmin 0 t = 0%Z.
Proof. exact (fun inl P f => error_path_lemma return_exit_order inl P f order_ok). Qed.

(* ---- lifting through calls (executable semantics over the emitted table, any fuel): a call that
   returns leaves the depth where it was, whatever the nesting / recursion of @no_gc and normal
   functions below it; ExitNoGc never underflows in compiled code; an error never lowers the depth *)
Theorem nested_calls_restore :
  forall (inl : bool) (P : list fn) (fuel : nat) (g : nat) (n i : Z) (st : vst),
  let r := vm_exec fuel (emit_tbl return_exit_order inl P) (KCall g) n i st in
  (fst r = ONormal -> v_depth (snd r) = v_depth st) /\
  (fst r = OErr -> (v_depth st <= v_depth (snd r))%N) /\
  fst r <> OUnder /\ fst r <> ORet /\ fst r <> OBrk /\ fst r <> OCont.
Proof. exact (fun inl P => call_restores return_exit_order inl P order_ok). Qed.

(* a top-level run / REPL input leaves no_gc_depth as it found it -- whether it ends Ok or with a runtime
   error (run_fast restores the depth of entry when the run fails); OFuel is the model's own fuel, not an
   outcome of the VM *)
Theorem run_restores_depth :
  forall (inl : bool) (P : prog) (n0 : Z) (d0 : N),
  let r := run_vm return_exit_order inl P n0 d0 in
  (fst r <> OFuel -> v_depth (snd r) = d0) /\ fst r <> OUnder.
Proof. exact (fun inl P n0 d0 => run_vm_restores return_exit_order inl P n0 d0 order_ok restores_flag). Qed.

(* REPL sessions with failing inputs: the depth after every input is the depth before the first *)
Theorem session_restores_depth :
  forall (inl : bool) (inputs : list (prog * Z)) (d : N),
  Forall (fun r => fst r <> OFuel) (session return_exit_order inl inputs d) ->
  Forall (fun r => snd r = d) (session return_exit_order inl inputs d).
Proof. exact (fun inl => session_restores return_exit_order inl order_ok restores_flag). Qed.

(* ---- inside a region (all three were refuted before the repairs of KF-C13-1/2/3; the witnesses about the
   old definitions are Proofs.old_return_expr_path_witness, old_error_leak_witness, old_inliner_witness) *)

(* every allocation point and every call of a @no_gc body -- including the ones inside `return e` -- happens
   at depth > 0, on every path, also the ones that end with an error; no guard on the body *)
Theorem region_safepoints_positive :
  forall (inl : bool) (P : list fn) (f : fn), f_nogc f = true ->
  forall (t : list ev) (m : cmp), path (emit_fn return_exit_order inl P f) t m -> alloc_pos 0 t.
Proof. exact region_alloc_pos_lemma. Qed.

(* ... for EVERY call site of VM::maybe_collect: the list of sites (file, enclosing function / opcode arm) is regenerated
   from the source by C03's translator; the constructs of the model (string +, alloc(), declaration of a function,
   declaration of a closure) are exactly that list, each is the safepoint instruction of the emission model, and the
   in-region statement holds for it *)
Theorem model_covers_every_safepoint_site : sites_covered = true.
Proof. exact sites_covered_ok. Qed.
Theorem in_region_for_every_safepoint_site :
  Forall (fun site =>
            exists c, site_eqb (construct_site c) site = true /\ construct_code c = KSafe /\
              forall inl P f t m, f_nogc f = true -> path (emit_fn return_exit_order inl P f) t m -> alloc_pos 0 t)
         GcRootFields.safepoint_sites.
Proof. exact every_site_in_region. Qed.

(* lifted through calls (executable semantics, any fuel, any call graph, inlining on or off): from the
   call of a @no_gc function until it returns or fails, EVERY safepoint -- its own and those of everything
   it calls -- is reached with no_gc_depth > 0, whatever the depth at the call *)
Theorem no_gc_call_never_reaches_safepoint_at_depth0 :
  forall (inl : bool) (P : list fn) (fuel g : nat) (fd : fn) (n i : Z) (st : vst),
  nth_error P g = Some fd -> f_nogc fd = true ->
  let r := vm_exec fuel (emit_tbl return_exit_order inl P) (KCall g) n i st in
  (v_safes (snd r) + v_pos st = v_pos (snd r) + v_safes st)%N.
Proof. exact nogc_call_never_at_depth0. Qed.

(* the inliner: a call of a @no_gc function is never replaced by its body *)
Theorem inline_preserves_region :
  forall (inl : bool) (P : list fn) (f : nat) (fd : fn),
  nth_error P f = Some fd -> f_nogc fd = true -> emit_expr inl P (ECall f) = KCall f.
Proof. exact nogc_never_inlined. Qed.

(* without @no_gc functions nothing changes the depth, whatever the outcome *)
Theorem depth_constant_without_no_gc :
  forall (inl : bool) (P : prog) (n0 : Z) (d0 : N),
  Forall (fun f => f_nogc f = false) (p_fns P) ->
  v_depth (snd (run_vm return_exit_order inl P n0 d0)) = d0.
Proof. exact (no_nogc_depth_constant return_exit_order). Qed.

(* the former witnesses on the repaired definitions: the failing @no_gc function (failure in the body and
   inside the return expression) restores the depth; `return a + b` and the trailing `a + b` of a @no_gc leaf
   are reached at depth 1 also with the inliner on *)
Example former_counterexamples_now_hold :
  session return_exit_order false [(prog_call w_fail_in_region, 1%Z); (prog_safe, 1%Z); (prog_call w_fail_in_return, 1%Z); (prog_safe, 1%Z)] 0
  = [(OErr, 0%N); (ONormal, 0%N); (OErr, 0%N); (ONormal, 0%N)] /\
  (let '(_, st) := run_vm return_exit_order true (prog_call w_leaf_ret) 1%Z 0 in v_pos st = 1%N /\ v_safes st = 2%N) /\
  (let '(_, st) := run_vm return_exit_order true (prog_call w_leaf_imp) 1%Z 0 in v_pos st = 1%N /\ v_safes st = 2%N).
Proof. exact repaired_witnesses. Qed.

(* non-vacuity: a program with recursion, loops with break / continue and an early return inside a
   @no_gc function runs to completion in the model with safepoints on both sides of the region *)
Example C13_nonvacuous :
  let P := mkProg [mkFn true false
                     (sq [SExpr ESafe;
                          SLoop 0 3 (sq [SIf (CIeq 1) (sq [SContinue]) (sq []); SExpr ESafe;
                                         SIf (CIgt 1) (sq [SBreak]) (sq [])]);
                          SIf (CNgt 0) (sq [SExpr (ECall 0); SReturn EAtom]) (sq []);
                          SExpr ESafe])]
                  (sq [SExpr ESafe; SExpr (ECall 0); SExpr ESafe]) 1 in
  let '(o, st) := run_vm return_exit_order false P 2%Z 0 in
  o = ONormal /\ v_depth st = 0%N /\ v_safes st = 10%N /\ v_pos st = 7%N.
Proof. vm_compute. repeat split; reflexivity. Qed.
