(* C14 (and the state half of C05) -- whole sessions: the VM's two views of the globals, its
   snapshot cache, its frame stack with unwinding, the call/return layout switches, arity checks,
   host calls and the REPL driver loop REFINE one store by name.
   Property theorems only; proofs live in Proofs/SessionProofs.v; model: Model/Session.v.

   Nothing is assumed of the interpreter any more (the entry conditions `ops_ok` of Props/C14.v are
   consequences here).  What is assumed of the INPUTS: every layout has pairwise distinct names
   ([wf_codeb], [wf_step]: the compiler builds layouts from a name -> index map; the tie checks it on
   every compiled unit) and a layout is identified by its names (GlobalLayout::new interns; also
   checked by the tie).  (Until 8825c3e the export registration and the host's VM::set_global wrote the
   by-name map only and needed a side condition; now set_global writes the loaded slot too.)

   The specification ([xsession]) is a by-name store with no layouts, snapshots or frames.  After a
   step that FAILS, the names that step wrote are unspecified (the property text leaves the partial
   effects of a failed input open); [xsession] is None as soon as such a name is read, a name
   outside its function's layout is used, or the fuel runs out. *)
From Aelys Require Import Base.Tactics Extracted.CallCacheConsts Extracted.ReplShape Model.Session Proofs.SessionProofs.
Local Open Scope N_scope.

(* every input and host call of every specified session prints exactly what the by-name semantics
   prints and succeeds / fails exactly when it does -- across definitions, redefinitions, mutations,
   calls through globals and through function-valued arguments (functions without globals of their
   own included), arity errors, stack overflow, inputs rejected at compile time, inputs and host
   calls failing at run time at any depth, imports of modules with by-name export registration *)
Theorem session_keeps_state : forall C fuel steps obs,
  wf_codeb C = true -> forallb wf_step steps = true ->
  xsession C fuel xinit steps = Some obs -> msession C fuel dinit steps = obs.
Proof. exact session_refines_init. Qed.

Theorem session_keeps_state_from : forall C, wf_code C -> forall fuel steps d x obs,
  drel d x -> forallb wf_step steps = true ->
  xsession C fuel x steps = Some obs -> msession C fuel d steps = obs.
Proof. exact session_refines. Qed.

(* the views are coherent after ALL histories: at the end of every specified session there are no
   frames left and both the by-name map and the loaded by-index vector hold the store's value of
   every specified name (bnd), the snapshots are what a by-name load would give, and the recorded
   known names / mutabilities are the specification's *)
Theorem views_coherent_after_all_histories : forall C fuel steps obs,
  wf_codeb C = true -> forallb wf_step steps = true ->
  xsession C fuel xinit steps = Some obs ->
  drel (mfinal C fuel dinit steps) (xfinal C fuel xinit steps).
Proof. exact session_final_rel_init. Qed.

(* a step that fails leaves every name it did not write with its value, in both views, and no frames *)
Theorem earlier_names_keep_their_values_after_failure : forall C, wf_code C -> forall fuel d x st x' o,
  drel d x -> wf_step st = true -> import_free st = true ->
  xstep C fuel x st = (x', o, XErr) ->
  exists d', mstep C fuel d st = (d', o, SErr) /\ frames (d_vm d') = [] /\
    forall n, untainted (x_taint x') n ->
      glookup (gmap (d_vm d')) n = sget (s_store (x_s x)) n /\ view (d_vm d') n = sget (s_store (x_s x)) n.
Proof. exact earlier_names_survive_failure. Qed.

(* an input rejected at compile time (and importing nothing) changes nothing but the frame stack *)
Theorem rejected_input_changes_nothing_in_sessions : forall C fuel d L body nm im,
  mstep C fuel d (SInput [] false L body nm im) =
    (mkD (with_frames (d_vm d) []) (d_known d) (d_mut d) (d_loaded d), [], SErr).
Proof. exact rejected_input_changes_nothing. Qed.

(* VM::set_global (the host API, and the module loader's export registration) keeps the two views
   coherent in every state between steps, whatever layout is loaded *)
Theorem set_global_keeps_views_coherent : forall T vm s a v,
  bnd T vm s ->
  bnd T (set_name vm a v) (mkS ((a, v) :: s_store s) (s_heap s) (s_next s)).
Proof. exact bnd_set_name. Qed.

(* non-vacuity: a session with a callback through a function without globals, host calls (one with
   the wrong arity), a failing input with partial effects, a rejected input and an aliased import is
   specified, well formed, and both machines print the same *)
Example session_example :
  wf_codeb ex_code = true /\ forallb wf_step ex_session = true /\
  xsession ex_code 100 xinit ex_session =
    Some [([8; 8], SOk); ([9], SOk); ([], SErr); ([9], SOk); ([77], SErr); ([], SErr); ([10], SOk); ([11; 11], SOk)]%Z /\
  msession ex_code 100 dinit ex_session =
    [([8; 8], SOk); ([9], SOk); ([], SErr); ([9], SOk); ([77], SErr); ([], SErr); ([10], SOk); ([11; 11], SOk)]%Z /\
  x_taint (xfinal ex_code 100 xinit ex_session) = [6].
Proof. exact ex_session_facts. Qed.
