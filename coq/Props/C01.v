(* C01 -- Optimisation levels never change what a program does.
   Theorems about the constant folder's kernel (folding == what the evaluator computes at run
   time), stated for ALL operators and ALL integers; the per-program halves of the property
   (real optimizer output vs input under the evaluator, and -O1..-O3 vs -O0 on the
   implementation) are decided by the translation-validation tie in tools/props/c01.py. *)
From Coq Require Import String.
From Aelys Require Import Extracted.ValueConsts Extracted.Opcodes Model.Value Model.VmArith Proofs.FoldVmProofs.
From Aelys Require Import Base.Tactics Model.Lang Model.Eval Extracted.OptConsts Model.Opt.Fold
  Model.PureEval Proofs.EvalProofs Proofs.FoldProofs Proofs.PureProofs Proofs.EvalMono Proofs.FoldEvalProofs
  Proofs.ValueMap Proofs.FoldSim Proofs.FoldSimExpr Model.Opt.Dce Proofs.DceEval Proofs.DceSim Proofs.DceSim2
  Model.Opt.Unused Proofs.UnusedProofs Model.Opt.GlobalProp Proofs.GlobalPropProofs
  Model.Opt.LocalProp Proofs.LocalPropProofs Proofs.LocalPropInv.
Local Open Scope Z_scope.

(* whenever the folder replaces `a op b` by a literal, that literal is exactly the value the
   operation yields at run time (incl. 48-bit edge, INT_MIN / -1, shifts, comparisons) *)
Theorem C01_fold_int_binary_sound : forall (op : binop) (a b : Z) (e : expr),
  fold_int_binary op a b = Some e ->
  exists v, lit_value e = Some v /\ int_binop op a b = ROk v /\ in_vm_range a = true /\ in_vm_range b = true.
Proof. exact fold_int_binary_sound. Qed.

(* ... and an integer literal it produces is in range, i.e. is not changed by 48-bit wrapping *)
Theorem C01_fold_int_binary_exact : forall (op : binop) (a b n : Z),
  fold_int_binary op a b = Some (EInt n) -> int_binop op a b = ROk (VInt n).
Proof. exact fold_int_binary_exact. Qed.

Theorem C01_fold_unary_sound : forall (op : unop) (n : Z) (e : expr),
  fold_unary_node op (EInt n) = Some e ->
  exists v, lit_value e = Some v /\ eval_unop op (VInt (wrap48 n)) = ROk v.
Proof. exact fold_unary_sound. Qed.

Theorem C01_fold_bool_comparison_sound : forall (op : binop) (a b : bool) (e : expr),
  fold_bool_comparison op a b = Some e ->
  exists v, lit_value e = Some v /\ eval_binop op (VBool a) (VBool b) = ROk v.
Proof. exact fold_bool_comparison_sound. Qed.

Theorem C01_fold_string_concat_sound : forall (a b : string) (e : expr),
  fold_string_concat a b = Some e ->
  exists v, lit_value e = Some v /\ eval_binop BAdd (VStr a) (VStr b) = ROk v.
Proof. exact fold_string_concat_sound. Qed.

(* the folder never folds a failing computation away: division by zero and out-of-range
   operands are left for run time *)
Theorem C01_fold_refuses_div_zero : forall a : Z,
  fold_int_binary BDiv a 0 = None /\ fold_int_binary BMod a 0 = None.
Proof. exact fold_refuses_div_zero. Qed.

Theorem C01_fold_refuses_out_of_range : forall (op : binop) (a b : Z),
  in_vm_range a = false \/ in_vm_range b = false -> fold_int_binary op a b = None.
Proof. exact fold_refuses_out_of_range. Qed.

(* folding == runtime, against the VM itself: the folded literal, NaN-boxed, is bit for bit the
   word the VM's generic (dynamically checked) operation computes on the boxed operands *)
Theorem C01_fold_equals_vm_runtime : forall (op : binop) (a b : Z) (e : expr),
  fold_int_binary op a b = Some e ->
  exists w, box_lit e = Some w /\ vm_generic op (v_int a) (v_int b) = VmArith.ROk w.
Proof. exact fold_int_binary_vm_sound. Qed.

(* the folder's whole bottom-up traversal preserves the meaning of every pure expression
   (literals, variables, operators, short-circuit and/or, if-expressions) in every
   environment: same value or same error *)
Theorem C01_fold_expr_preserves_pure : forall (rho : venv) (e : expr),
  peval rho (fold_expr e) = peval rho e.
Proof. exact fold_expr_preserves_pure. Qed.

(* ... and that pure semantics IS the evaluator of Model/Eval.v on such expressions *)
Theorem C01_peval_is_eval : forall (e : expr) fuel depth env st,
  pure e = true -> (esize e <= fuel)%nat ->
  eval_expr fuel depth env st e = (st, peval (rho_of env st) e).
Proof. exact eval_expr_pure. Qed.

(* hence: on the full evaluator, folding a pure expression changes neither the state nor the
   result, whatever the environment and store *)
Theorem C01_fold_expr_preserves_eval : forall (e : expr) fuel depth env st,
  pure e = true -> (esize e <= fuel)%nat ->
  eval_expr fuel depth env st (fold_expr e) = eval_expr fuel depth env st e.
Proof. exact fold_expr_preserves_eval. Qed.

(* WHOLE PROGRAMS.  For every program that creates no function values (no lambda, no fn
   declaration; member access only as a method-call callee) -- loops, blocks, shadowing,
   assignments, arrays and vecs, prints, calls of closures already in the state -- the folded
   program has the same outcome as the original: same class, same printed output, same final
   value, from the same final state, for every fuel with which the original gives an answer. *)
Theorem C01_fold_program_preserves : forall (fuel : nat) (p : program),
  forallb nofun_s p = true ->
  oc_class (run_program fuel p) <> OcFuel ->
  run_program fuel (fold_program p) = run_program fuel p.
Proof. exact fold_program_preserves. Qed.

(* the statement-level simulation behind it, for all ten mutually recursive evaluator functions *)
Theorem C01_fold_simulation : forall f : nat, foldok f.
Proof. exact foldok_all. Qed.

(* and the evaluator is monotone in its fuel: an answer, once given, is the answer *)
Theorem C01_eval_fuel_monotone : forall f : nat, mono f.
Proof. exact mono_all. Qed.

Example C01_fold_program_nonvacuous :
  let p := [SLet "t" true (EInt 0);
            SFor "i" (EBin BAdd (EInt 1) (EInt 1)) (EBin BMul (EInt 2) (EInt 3)) false None
              (SBlock [SExpr (EAssign "t" (EBin BAdd (EVar "t") (EBin BMul (EVar "i") (EBin BSub (EInt 10) (EInt 7)))));
                       SIf (EAnd (EBool true) (EBin BLt (EVar "i") (EInt 4)))
                           (SBlock [SExpr (ECall (EVar "println") [EVar "t"])]) None]);
            SExpr (EVar "t")] in
  forallb nofun_s p = true /\ fold_program p <> p
  /\ run_program 200 p = mkOutcome OcOk (sb [54; 10; 49; 53; 10]%nat) "42"
  /\ run_program 200 (fold_program p) = run_program 200 p.
Proof. vm_compute. repeat split; try reflexivity. discriminate. Qed.

(* FULL STATEMENT for the folder, every program of the modelled language -- closures, named and
   recursive functions, higher-order calls, everything the evaluator covers: the folded program
   has the same outcome (class, everything printed, printed final value) as the original, for
   every fuel with which the original answers inside the modelled fragment (the run neither runs
   out of fuel nor reaches a construct the evaluator does not model, class EUnsupported). *)
Theorem C01_fold_program_preserves_all : forall (fuel : nat) (p : program),
  oc_class (run_program fuel p) <> OcFuel ->
  oc_class (run_program fuel p) <> OcErr EUnsupported ->
  run_program fuel (fold_program p) = run_program fuel p.
Proof. exact fold_program_preserves_all. Qed.

(* the simulation behind it: from states related by "closures carry the folded body", the folded
   syntax computes the related state and result, for all ten evaluator functions *)
Theorem C01_fold_simulation_all : forall f : nat, fsim f.
Proof. exact fsim_all. Qed.

(* non-vacuity: a counter factory (closure capturing a mutable cell, created twice), a recursive
   function and a higher-order call, with foldable arithmetic inside the function bodies *)
Example C01_fold_program_all_nonvacuous :
  let p := [SFun "make" [] [SLet "c" true (EBin BMul (EInt 2) (EInt 5));
                            SRet (Some (ELam [] [SExpr (EAssign "c" (EBin BAdd (EVar "c") (EBin BSub (EInt 4) (EInt 3))));
                                                 SRet (Some (EVar "c"))]))] [];
            SFun "fact" [("n"%string, false)]
              [SIf (EAnd (EBool true) (EBin BLe (EVar "n") (EBin BSub (EInt 1) (EInt 1))))
                   (SBlock [SRet (Some (EInt 1))]) None;
               SRet (Some (EBin BMul (EVar "n") (ECall (EVar "fact") [EBin BSub (EVar "n") (EInt 1)])))] [];
            SFun "twice" [("g"%string, false); ("x"%string, false)] [SRet (Some (ECall (EVar "g") [ECall (EVar "g") [EVar "x"]]))] [];
            SLet "a" false (ECall (EVar "make") []);
            SLet "b" false (ECall (EVar "make") []);
            SExpr (ECall (EVar "println") [EBin BAdd (ECall (EVar "a") []) (EBin BMul (ECall (EVar "a") []) (EInt 100))]);
            SExpr (ECall (EVar "println") [ECall (EVar "b") []]);
            SExpr (ECall (EVar "println") [ECall (EVar "twice") [ELam [("y"%string, false)] [SExpr (EBin BAdd (EVar "y") (EBin BMul (EInt 3) (EInt 3)))]; EInt 1]]);
            SExpr (ECall (EVar "fact") [EInt 5])] in
  forallb nofun_s p = false /\ fold_program p <> p
  /\ run_program 400 p = mkOutcome OcOk (sb [49; 50; 49; 49; 10; 49; 49; 10; 49; 57; 10]%nat) "120"
  /\ run_program 400 (fold_program p) = run_program 400 p.
Proof. vm_compute. repeat split; try reflexivity. discriminate. Qed.

(* ------------------------------------------------------------------ dead-code elimination *)
(* Model/Opt/Dce.v transcribes opt/src/passes/dead_code (constant `if` / ternary selection with
   the unwrap-unless-it-declares rule, `while false` removal, the cut after the first terminator,
   removal of empty blocks, and the rule that the last statement of a block -- its branches
   included -- keeps its shape); on every run the tie checks that the model with
   proc = (fun _ => false) produces exactly the real pass's output on the generated programs.
   FULL STATEMENT for the variant that also rewrites the positions the implemented pass leaves
   alone when they contain a lambda (proc = has_lam): every program, closures and all, every
   fuel with which the original answers inside the modelled fragment. *)
Theorem C01_dce_program_preserves_haslam : forall (fuel : nat) (p : program),
  oc_class (run_program fuel p) <> OcFuel ->
  oc_class (run_program fuel p) <> OcErr EUnsupported ->
  run_program fuel (dce_program has_lam p) = run_program fuel p.
Proof. exact dce_program_preserves_haslam. Qed.

(* ... and therefore for the pass as implemented, wherever it coincides with that variant (no
   lambda with something to rewrite sits in a condition of a statement-level if / while, a for
   bound, a for-each iterable or a return expression); the tie evaluates this premise on every
   generated program and reports how many satisfy it *)
Theorem C01_dce_program_preserves : forall (fuel : nat) (p : program),
  dce_program (fun _ => false) p = dce_program has_lam p ->
  oc_class (run_program fuel p) <> OcFuel ->
  oc_class (run_program fuel p) <> OcErr EUnsupported ->
  run_program fuel (dce_program (fun _ => false) p) = run_program fuel p.
Proof. exact dce_program_preserves. Qed.

Theorem C01_dce_simulation : forall f : nat, dsim f.
Proof. exact dsim_all. Qed.

(* facts about the evaluator the pass relies on *)
Theorem C01_terminators_never_complete : forall f : nat, term_ok f.
Proof. exact term_ok_all. Qed.
Theorem C01_cut_and_drop_preserve : forall L f d top mode env st st' r,
  exec_stmts f d top mode env st L = (st', r) -> nf r ->
  exec_stmts f d top mode env st (post L) = (st', r).
Proof. exact post_preserves. Qed.

(* non-vacuity: code after return / break / continue, constant ifs with and without else (one
   hiding a declaration, which must stay wrapped), `while false`, a constant ternary, an
   `else if true` arm in result position (which must NOT be unwrapped), dead code inside a closure
   body *)
Example C01_dce_nonvacuous :
  let p := [SFun "f" [("c"%string, false)]
              [SIf (EVar "c") (SBlock [SExpr (EInt 1)]) (Some (SIf (EBool true) (SBlock [SExpr (EInt 5)]) None))] [];
            SFun "g" [("n"%string, false)]
              [SLet "t" true (EInt 0);
               SFor "i" (EInt 0) (EVar "n") false None
                 (SBlock [SIf (EBin BEq (EVar "i") (EInt 3)) (SBlock [SBreak; SExpr (EAssign "t" (EInt 99))]) None;
                          SIf (EBool true) (SBlock [SExpr (EAssign "t" (EBin BAdd (EVar "t") (EVar "i")))]) None;
                          SIf (EBool false) (SBlock [SExpr (EAssign "t" (EInt 77))]) None;
                          SWhile (EBool false) (SBlock [SExpr (EAssign "t" (EInt 55))])]);
               SIf (EBool true) (SBlock [SLet "t" false (EInt 1000)]) None;
               SLet "h" false (ELam [] [SRet (Some (EIf (EBool true) (EVar "t") (EInt 0))); SExpr (EAssign "t" (EInt 1))]);
               SRet (Some (EVar "h"));
               SExpr (EAssign "t" (EInt 2))] [];
            SExpr (ECall (EVar "println") [ECall (EVar "f") [EBool true]]);
            SExpr (ECall (EVar "println") [ECall (EVar "f") [EBool false]]);
            SExpr (ECall (ECall (EVar "g") [EInt 6]) [])] in
  dce_program (fun _ => false) p <> p
  /\ dce_program (fun _ => false) p = dce_program has_lam p
  /\ run_program 400 p = mkOutcome OcOk (sb [49; 10; 110; 117; 108; 108; 10]%nat) "3"
  /\ run_program 400 (dce_program (fun _ => false) p) = run_program 400 p.
Proof. vm_compute. repeat split; try reflexivity. discriminate. Qed.

(* ------------------------------------------------------------------ unused-variable elimination *)
(* Model/Opt/Unused.v transcribes opt/src/passes/unused_vars (the read-set analysis, the
   `has_side_effects` gate, `retain` with its keep-the-last rule, the per-function read set); on
   every run the tie checks that the model produces exactly the real pass's output.
   (1) Every program, every nesting depth: the pass performs only deletions the declarative
   specification [ElimL] permits - a `let` that is not the last statement of its block, whose
   name is in no read position of the whole program and whose initializer passes the gate. *)
Theorem C01_unused_only_permitted_deletions : forall p : program,
  ElimL (uses_block p) p (unused_program p).
Proof. exact unused_program_spec. Qed.

(* (2) it introduces no read, so no read of a deleted binder is left behind *)
Theorem C01_unused_no_new_read : forall p : program,
  incl (uses_block (unused_program p)) (uses_block p).
Proof. exact unused_program_no_new_read. Qed.
Theorem C01_unused_deleted_binder_is_dead : forall (p : program) (x : string),
  mem x (uses_block p) = false -> ~ In x (uses_block (unused_program p)).
Proof. exact deleted_binder_is_dead. Qed.

(* (3) the last statement of a block (it decides the block's value) is never deleted *)
Theorem C01_unused_keeps_last : forall used d l, last (retain used l) d = last l d.
Proof. exact retain_last. Qed.

(* (4) what the gate guarantees on the definitional evaluator, for every fuel, environment and
   state: an initializer that passes it prints nothing, assigns no variable and no global and
   changes no element of an existing array; it can only fail (skipping a failing unused
   computation is the relaxation the property permits) or allocate arrays nothing refers to *)
Theorem C01_unused_gated_initializer_is_unobservable :
  forall fuel d env st e st' r,
    hse e = false -> eval_expr fuel d env st e = (st', r) ->
    cells st' = cells st /\ globals st' = globals st /\ out st' = out st /\
    exists extra, objs st' = objs st ++ extra.
Proof. exact gated_initializer_is_unobservable. Qed.
Theorem C01_unused_gate_refuses_effects :
  forall f args x a o i v, hse (ECall f args) = true /\ hse (EAssign x a) = true /\ hse (EIdxSet o i v) = true.
Proof. exact gate_refuses_effects. Qed.

(* (5) a session unit (REPL input, host-API unit; top_level_open): every top-level `let` survives in
   place - a later unit may read it - while the inside of its statements is still cleaned under
   the same specification *)
Theorem C01_unused_session_unit_keeps_toplevel : forall p : program,
  length (unused_session_unit p) = length p /\
  (forall k x m e, nth_error p k = Some (SLet x m e) -> nth_error (unused_session_unit p) k = Some (SLet x m e)).
Proof. exact session_unit_keeps_toplevel. Qed.
Theorem C01_unused_session_unit_spec : forall p : program,
  Forall2 (Elim (uses_block p)) p (unused_session_unit p).
Proof. exact session_unit_spec. Qed.

(* PARTIAL: the whole-program statement `run_program fuel (unused_program p)` agrees with
   `run_program fuel p` up to the permitted relaxation is NOT proved - it needs a simulation
   under a renaming of cell locations (a deleted `let` shifts every later cell) through all ten
   evaluator functions; (1)-(4) are the facts that simulation would consume, and the per-program
   translation validation (tie (b)) covers the rest.
   Non-vacuity: unused lets at top level, in a block, in a function and under a loop; one whose
   initializer calls (kept), one in last position (kept), one read only inside a lambda (kept),
   one named like a parameter of the enclosing function (kept), one failing initializer (deleted:
   the permitted relaxation). *)
Example C01_unused_nonvacuous :
  let p := [SLet "a" false (EInt 1);
            SLet "b" false (ECall (EVar "println") [EStr "b"]);
            SLet "c" false (EBin BDiv (EInt 1) (EInt 0));
            SLet "k" false (EInt 5);
            SFun "f" [("n"%string, false)]
              [SLet "n" false (EInt 2); SLet "u" false (EArr [EInt 1; EVar "n"]);
               SLet "g" false (ELam [] [SRet (Some (EVar "k"))]);
               SWhile (EBool false) (SBlock [SLet "w" false (EInt 3); SExpr (EVar "n")]);
               SBlock [SLet "z" false (EInt 4); SLet "y" false (EInt 5)];
               SRet (Some (ECall (EVar "g") []))] [];
            SExpr (ECall (EVar "println") [ECall (EVar "f") [EInt 0]]);
            SLet "last" false (EInt 9)] in
  unused_program p =
           [SLet "b" false (ECall (EVar "println") [EStr "b"]);
            SLet "k" false (EInt 5);
            SFun "f" [("n"%string, false)]
              [SLet "n" false (EInt 2);
               SLet "g" false (ELam [] [SRet (Some (EVar "k"))]);
               SWhile (EBool false) (SBlock [SExpr (EVar "n")]);
               SBlock [SLet "y" false (EInt 5)];
               SRet (Some (ECall (EVar "g") []))] [];
            SExpr (ECall (EVar "println") [ECall (EVar "f") [EInt 0]]);
            SLet "last" false (EInt 9)]
  /\ oc_class (run_program 400 p) = OcErr EDivZero
  /\ oc_class (run_program 400 (unused_program p)) = OcOk
  /\ oc_output (run_program 400 (unused_program p)) = sb [98; 10; 53; 10]%nat.
Proof. vm_compute. repeat split; reflexivity. Qed.

(* ------------------------------------------------------------------ global constant propagation *)
(* Model/Opt/GlobalProp.v transcribes opt/src/passes/global_const_prop and the binder census of
   binders.rs; on every run the tie checks that the model produces exactly the real pass's output,
   for whole programs and for session units.
   (1) Every program: every entry of the constant table is a closed constant expression, names
   are unique, and each entry is an immutable top-level `let` of the program whose name is bound
   exactly once in the whole program (no parameter, local, loop variable, lambda parameter,
   function or second top-level `let` of that name exists - the shadowing defect class). *)
Theorem C01_gprop_table_entries : forall p : program,
  NoDup (map fst (collect p)) /\
  forall x c pos, In (x, (c, pos)) (collect p) ->
    closed c = true /\ bound_once (binders_block p) x = true /\
    exists e, nth_error p pos = Some (SLet x false e).
Proof. exact collect_ok. Qed.

(* (2) the table is sound: in any environment in which the constants defined by EARLIER
   statements hold the values of their entries, the resolved expression stored for a `let`
   evaluates exactly like the `let`'s own initializer; and a closed entry means the same in every
   environment *)
Theorem C01_gprop_table_sound : forall (t : tbl) (idx : nat) (rho : venv) (e : expr),
  agrees t idx rho -> is_const t idx e = true -> peval rho (resolve t e) = peval rho e.
Proof. exact resolve_sound. Qed.
Theorem C01_gprop_closed_entry_env_independent : forall e, closed e = true ->
  forall rho rho', peval rho e = peval rho' e.
Proof. exact closed_peval_indep. Qed.

(* (3) a use is replaced only under the ordering rule: never inside a function or lambda body of a
   session unit; otherwise only if the constant's `let` is an earlier top-level statement than the
   one being rewritten, or the use sits in a function body and the `let` is among the leading
   quiet declarations *)
Theorem C01_gprop_substitution_rule : forall open fe t c x k,
  may_subst open fe t c x = Some k ->
  (open = true -> deferred c = false) /\
  exists pos, tlookup x t = Some (k, pos) /\
              ((pos < cursor c)%nat \/ (in_fn c = true /\ (pos < fe)%nat)).
Proof. exact may_subst_rule. Qed.

(* ... and on the pure fragment the rewrite preserves meaning wherever each variable the rule
   lets through holds the value of the expression that replaces it *)
Theorem C01_gprop_expr_preserves_pure : forall open fe t c rho e,
  pure e = true ->
  (forall x k, may_subst open fe t c x = Some k -> exists v, peval rho k = ROk v /\ rho x = Some v) ->
  peval rho (gp_expr open fe t c e) = peval rho e.
Proof. exact gp_expr_preserves_pure. Qed.

(* (4) the statements in front of `first_effect` are function / struct declarations, imports, and
   lets whose initializer is pure and passes the side-effect gate: nothing declared in the
   program can run, and no global can be read by user code, before the first statement after them *)
Theorem C01_gprop_leading_declarations_are_quiet : forall (p : program) k s,
  (k < first_effect p)%nat -> nth_error p k = Some s ->
  match s with
  | SLet _ _ e => pure e = true /\ hse e = false
  | SFun _ _ _ _ | SOther _ => True
  | _ => False
  end.
Proof. exact leading_declarations_are_quiet. Qed.

(* PARTIAL: that the ordering rule of (3) makes the hypothesis of the last theorem true at every
   replaced use in every run (the environment agrees with the table there) is NOT proved - it is a
   whole-program argument about which statements can have executed; the per-program translation
   validation covers it.  Non-vacuity: a chain, a name bound twice (no constant), a use before
   its `let` at top level (kept), a function among the leading declarations (rewritten), a
   function after the first effect reading a later constant (kept), a lambda, a session unit. *)
Example C01_gprop_nonvacuous :
  let p := [SLet "A" false (EInt 2);
            SFun "f" [] [SRet (Some (EBin BAdd (EVar "A") (EVar "C")))] [];
            SLet "B" false (EBin BMul (EVar "A") (EInt 3));
            SLet "n" false (EInt 1);
            SExpr (ECall (EVar "println") [EVar "C"; EVar "B"]);
            SFun "g" [("n"%string, false)] [SRet (Some (EBin BAdd (EVar "B") (EBin BAdd (EVar "C") (EVar "n"))))] [];
            SLet "C" false (EBin BAdd (EVar "B") (EInt 1));
            SLet "h" false (ELam [] [SRet (Some (EVar "C"))])] in
  map fst (collect p) = ["A"; "B"; "C"]%string
  /\ first_effect p = 4%nat
  /\ gprop_program false p =
           [SLet "A" false (EInt 2);
            SFun "f" [] [SRet (Some (EBin BAdd (EInt 2) (EVar "C")))] [];
            SLet "B" false (EBin BMul (EInt 2) (EInt 3));
            SLet "n" false (EInt 1);
            SExpr (ECall (EVar "println") [EVar "C"; EBin BMul (EInt 2) (EInt 3)]);
            SFun "g" [("n"%string, false)] [SRet (Some (EBin BAdd (EBin BMul (EInt 2) (EInt 3)) (EBin BAdd (EVar "C") (EVar "n"))))] [];
            SLet "C" false (EBin BAdd (EBin BMul (EInt 2) (EInt 3)) (EInt 1));
            SLet "h" false (ELam [] [SRet (Some (EBin BAdd (EBin BMul (EInt 2) (EInt 3)) (EInt 1)))])]
  /\ nth_error (gprop_program true p) 1 = nth_error p 1
  /\ nth_error (gprop_program true p) 7 = nth_error p 7
  /\ nth_error (gprop_program true p) 4 = nth_error (gprop_program false p) 4.
Proof. vm_compute. repeat split; reflexivity. Qed.

(* ------------------------------------------------------------------ local constant propagation *)
(* Model/Opt/LocalProp.v transcribes opt/src/passes/local_const_prop (propagator.rs, scope.rs); on
   every run the tie checks that the model produces exactly the real pass's output (whole programs
   and session units, on the AST with redundant parentheses removed).  The theorems are the
   algebra of the scope stack the pass's scoping argument rests on - every binder hides, every
   assignment kills, a closed scope leaves nothing behind, session bodies ignore the top level -
   and the `let` rule (only literals of immutable lets are recorded; a top-level name bound
   anywhere else in the program is not). *)
Theorem C01_lprop_binder_hides : forall x v ss, ss_get x (ss_put x v ss) = v.
Proof. exact ss_get_put_same. Qed.
Theorem C01_lprop_binder_touches_no_other_name : forall x y v ss,
  x <> y -> ss <> [] -> ss_get x (ss_put y v ss) = ss_get x ss.
Proof. exact ss_get_put_other. Qed.
Theorem C01_lprop_assignment_kills : forall x ss, ss_get x (ss_inval x ss) = None.
Proof. exact ss_get_inval_same. Qed.
Theorem C01_lprop_assignment_touches_no_other_name : forall x y ss,
  x <> y -> ss_get x (ss_inval y ss) = ss_get x ss.
Proof. exact ss_get_inval_other. Qed.
Theorem C01_lprop_scope_closes : forall x v ss, ss <> [] -> ss_pop (ss_put x v (ss_push ss)) = ss.
Proof. exact ss_pop_put_push. Qed.
Theorem C01_lprop_session_body_ignores_top_level : forall x (top : scope), known true true [top] x = None.
Proof. exact session_body_ignores_top_level. Qed.
Theorem C01_lprop_let_records_only_literals : forall open bs d ss x m e s' ss',
  lp_stmt open bs d ss (SLet x m e) = (s', ss') ->
  forall k, ss_get x ss' = Some k -> is_simple_constant k = true /\ m = false.
Proof. exact let_records_only_literals. Qed.
Theorem C01_lprop_rebindable_global_not_recorded : forall open bs d (top : scope) x m e s' ss',
  lp_stmt open bs d [top] (SLet x m e) = (s', ss') ->
  length (snd (lp_expr open bs d [top] e)) = 1%nat ->
  bound_once bs x = false -> ss_get x ss' = None.
Proof. exact rebindable_global_not_recorded. Qed.

(* Two invariants of the whole walk, for every program, every expression and statement at every
   depth (mutual structural induction over expressions, statements and their nested lists,
   Proofs/LangInd.v): the scope stack keeps its depth (what a construct opens it closes - so
   "depth 1" in the `let` rule means exactly "a top-level statement"), and it records literals
   only - hence whatever the pass substitutes for a variable is a literal. *)
Theorem C01_lprop_walk_keeps_depth : forall o b d ss s,
  ss <> [] -> length (snd (lp_stmt o b d ss s)) = length ss.
Proof. exact lp_stmt_keeps_depth. Qed.
Theorem C01_lprop_walk_records_literals_only : forall o b d ss s,
  ss <> [] -> lits ss -> lits (snd (lp_stmt o b d ss s)).
Proof. exact lp_stmt_keeps_literals. Qed.
Theorem C01_lprop_substituted_value_is_literal : forall open d ss x k,
  lits ss -> known open d ss x = Some k -> is_simple_constant k = true.
Proof. exact substituted_value_is_literal. Qed.
(* every top-level statement of every program is rewritten from a state of depth 1 that records
   literals only *)
Theorem C01_lprop_top_level_states : forall open p k s,
  nth_error p k = Some s ->
  exists ssk, length ssk = 1%nat /\ lits ssk /\
              nth_error (lprop_program open p) k = Some (fst (lp_stmt open (binders_block p) false ssk s)).
Proof. exact lprop_program_top_level_states. Qed.
(* the `let` rule without side condition *)
Theorem C01_lprop_top_level_rebindable_never_recorded : forall open bs (top : scope) x m e,
  bound_once bs x = false -> ss_get x (snd (lp_stmt open bs false [top] (SLet x m e))) = None.
Proof. exact top_level_rebindable_never_recorded. Qed.

(* on expressions that neither call nor assign, the walk is the substitution kernel, leaves the scope
   stack alone, and preserves meaning wherever every recorded constant is the value its variable
   holds *)
Theorem C01_lprop_expr_preserves_pure : forall o b d ss rho e,
  pure e = true ->
  (forall x k, known o d ss x = Some k -> exists v, peval rho k = ROk v /\ rho x = Some v) ->
  peval rho (fst (lp_expr o b d ss e)) = peval rho e /\ snd (lp_expr o b d ss e) = ss.
Proof. exact lp_expr_preserves_pure. Qed.

(* PARTIAL: the whole-program preservation statement for this pass is not proved (per-program
   validation covers it).  Non-vacuity (inside a function body): propagation into later uses and
   into a loop bound, a folded initializer becomes a constant, a loop variable / lambda parameter /
   inner non-constant let of the same name each stop it, an assignment in a loop body kills the
   constant before the loop, a block-local constant is used inside its block; at top level: a name
   bound twice is no constant, a name bound once is and reaches a function body - except in a
   session unit, where the function body keeps the name and the top-level use does not. *)
Example C01_lprop_nonvacuous :
  let p := [SFun "h" [("z"%string, false)]
              [SLet "a" false (EInt 2);
               SLet "b" false (EBin BAdd (EVar "a") (EInt 3));
               SExpr (ECall (EVar "println") [EVar "b"; EVar "z"]);
               SFor "b" (EInt 0) (EVar "a") false None (SBlock [SExpr (ECall (EVar "print") [EVar "b"; EVar "a"])]);
               SLet "g" false (ELam [("b"%string, false)] [SLet "a" false (ECall (EVar "z") [EInt 1]); SRet (Some (EBin BAdd (EVar "a") (EVar "b")))]);
               SBlock [SLet "c" false (EInt 7); SExpr (ECall (EVar "println") [EVar "c"])];
               SLet "m" false (EInt 1);
               SWhile (EBin BLt (EVar "m") (EInt 3)) (SBlock [SExpr (EAssign "m" (EBin BAdd (EVar "m") (EInt 1)))]);
               SRet (Some (EBin BAdd (EVar "b") (EVar "m")))] [];
            SLet "t" false (EInt 1); SLet "t" false (EInt 2);
            SLet "k" false (EInt 9);
            SFun "q" [] [SRet (Some (EVar "k"))] [];
            SExpr (ECall (EVar "println") [EVar "t"; EVar "k"])] in
  lprop_program false p =
           [SFun "h" [("z"%string, false)]
              [SLet "a" false (EInt 2);
               SLet "b" false (EInt 5);
               SExpr (ECall (EVar "println") [EInt 5; EVar "z"]);
               SFor "b" (EInt 0) (EInt 2) false None (SBlock [SExpr (ECall (EVar "print") [EVar "b"; EInt 2])]);
               SLet "g" false (ELam [("b"%string, false)] [SLet "a" false (ECall (EVar "z") [EInt 1]); SRet (Some (EBin BAdd (EVar "a") (EVar "b")))]);
               SBlock [SLet "c" false (EInt 7); SExpr (ECall (EVar "println") [EInt 7])];
               SLet "m" false (EInt 1);
               SWhile (EBin BLt (EVar "m") (EInt 3)) (SBlock [SExpr (EAssign "m" (EBin BAdd (EVar "m") (EInt 1)))]);
               SRet (Some (EBin BAdd (EInt 5) (EVar "m")))] [];
            SLet "t" false (EInt 1); SLet "t" false (EInt 2);
            SLet "k" false (EInt 9);
            SFun "q" [] [SRet (Some (EInt 9))] [];
            SExpr (ECall (EVar "println") [EVar "t"; EInt 9])]
  /\ nth_error (lprop_program true p) 4 = nth_error p 4
  /\ nth_error (lprop_program true p) 0 = nth_error (lprop_program false p) 0
  /\ nth_error (lprop_program true p) 5 = nth_error (lprop_program false p) 5.
Proof. vm_compute. repeat split; reflexivity. Qed.

(* constant propagation kernel: replacing variables by the literals they are bound to is
   meaning-preserving exactly when the constant table agrees with the environment ... *)
Theorem C01_subst_consts_preserves : forall (c : string -> option expr) (rho : venv) (e : expr),
  consts_agree c rho -> peval rho (subst_consts c e) = peval rho e.
Proof. exact subst_consts_preserves. Qed.

(* ... and is wrong without it (the shadowing defect class repaired in /repo: a stale table) *)
Theorem C01_subst_consts_needs_agreement :
  exists c rho e, peval rho (subst_consts c e) <> peval rho e.
Proof. exact subst_consts_needs_agreement. Qed.

(* non-vacuity: the folder does fold at the edges, and refuses just beyond them *)
Example C01_nonvacuous :
  fold_int_binary BAdd 140737488355326 1 = Some (EInt 140737488355327)
  /\ fold_int_binary BAdd 140737488355327 1 = None
  /\ fold_int_binary BDiv (-140737488355328) (-1) = None
  /\ fold_int_binary BShl 1 46 = Some (EInt 70368744177664)
  /\ fold_int_binary BShl 1 47 = None
  /\ fold_int_binary BShl 70368744177664 18 = Some (EInt 0)
  /\ fold_int_binary BShr (-5) 1 = Some (EInt (-3))
  /\ fold_int_binary BMod (-7) 3 = Some (EInt (-1)).
Proof. vm_compute. repeat split; reflexivity. Qed.
