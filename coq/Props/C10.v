(* C10 -- The configured heap limit is enforced before memory is taken.
   Property theorems only; proofs live in Proofs/HeapLimitProofs.v.  Constants (MIN_HEAP_BYTES, MAX_ALLOC,
   layout sizes) are regenerated from /repo by tools/extractors/c10.py on every run. *)
From Coq Require Import String.
From Aelys Require Import Base.Tactics Extracted.HeapConsts Extracted.HeapSites Extracted.HeapEstimator Model.HeapLimit Model.HeapLimitObs
  Model.HeapAccount Model.HeapArgs Extracted.HeapArgs Proofs.HeapLimitProofs Proofs.HeapAccountProofs Proofs.HeapArgsProofs.
Local Open Scope N_scope.

(* ensure_heap_capacity: for all u64 inputs the answer is Ok exactly when the UNBOUNDED sum fits *)
Theorem ensure_total : forall (m : mem) (additional : N),
  heap m < U64 -> manual m < U64 -> additional < U64 -> maxb m < U64 ->
  (ensure m additional = true <-> heap m + manual m + additional <= maxb m).
Proof. exact ensure_spec. Qed.

(* ... and no wrap-around can make an over-limit request pass, whatever the inputs *)
Theorem ensure_no_wraparound : forall (m : mem) (additional : N),
  ensure m additional = true -> heap m + manual m + additional <= maxb m.
Proof. exact ensure_sound. Qed.

(* EVERY allocating primitive -- strings, objects (functions / closures / upvalues / empty vecs), manual alloc
   and free, sweep, sized array constructors, vec push, vec reserve, string.repeat, string.pad_*, byte buffers --
   keeps heap + manual <= max, leaves the state untouched unless it answers Ok, and (all but the generic string
   allocation, whose transient is built by the caller from data already held, and the byte buffers, which have
   their own bound) consults the limit before the host allocates anything *)
Theorem guarded_ops_respect_limit_step : forall (cap : N) (m : mem) (o : gop), Inv m ->
  (match o with GVecPush v | GVecReserve v _ => vcharged v = vec_bytes v /\ vlen v <= vcap v | _ => True end) ->
  let '(r, m', t) := gstep cap m o in
  Inv m' /\ maxb m' = maxb m /\ (r = ROk \/ m' = m) /\
  (match o with GStr _ | GBytes _ | GManualFree _ | GSweep _ => True | GRepeat _ n => (0 < n)%Z -> check_first t = true
              | _ => check_first t = true end).
Proof. exact gstep_inv. Qed.

(* ... in every history (vecs enter a history with their charge equal to their size, which vec growth preserves:
   vec_growth_accounted) *)
Theorem guarded_ops_respect_limit : forall (cap : N) (h : list gop) (m : mem),
  Inv m -> Forall vec_ok h -> Inv (grun cap m h) /\ maxb (grun cap m h) = maxb m.
Proof. exact grun_inv. Qed.

(* the manual allocator completely: Ok exactly for positive sizes that fit, the charge is exact, nothing
   changes otherwise, the check comes first, negative -> TypeError, zero -> InvalidAllocationSize *)
Theorem manual_alloc_total : forall (m : mem) (n : Z), maxb m < U64 -> Inv m ->
  let '(r, m', t) := op_manual m n in
  (r = ROk <-> (0 < n)%Z /\ held m + Z.to_N n * SZ_VALUE <= maxb m) /\
  (r = ROk -> held m' = held m + Z.to_N n * SZ_VALUE) /\
  (r <> ROk -> m' = m) /\ check_first t = true /\
  ((n < 0)%Z -> r = RTypeErr) /\ (n = 0%Z -> r = RInvalidSize).
Proof. exact manual_spec. Qed.

(* sweep: an object that is swept at the size it was charged with is subtracted exactly; a vec's charge follows
   its capacity (vec_growth_accounted), so this covers grown vecs too (before the repair of KF-C10-4 it did not:
   Proofs.old_sweep_grown_witness) *)
Theorem sweep_accounting : forall (m : mem) (charged : N), charged <= heap m ->
  heap (op_sweep m charged) = heap m - charged /\ manual (op_sweep m charged) = manual m.
Proof. exact sweep_exact. Qed.
Theorem sweep_preserves_invariant : forall (m : mem) (current : N), Inv m -> Inv (op_sweep m current).
Proof. exact sweep_keeps_inv. Qed.
Theorem sweep_accounting_vec : forall (m : mem) (v : vecst), vcharged v = vec_bytes v -> vcharged v <= heap m ->
  heap (op_sweep m (vec_bytes v)) = heap m - vcharged v.
Proof. exact sweep_vec_exact. Qed.

(* byte buffers: a non-positive or over-MAX_ALLOC size is refused before the host allocates anything; a granted request
   is at most MAX_ALLOC *)
Theorem bytes_alloc_bounded : forall (cap : N) (m : mem) (n : Z),
  (n <= 0)%Z \/ MAX_ALLOC < Z.to_N n -> op_bytes cap m n = (RTypeErr, m, []).
Proof. exact bytes_bounded. Qed.
Theorem bytes_alloc_host_bound : forall (cap : N) (m : mem) (n : Z), host_total (snd (op_bytes cap m n)) <= MAX_ALLOC.
Proof. exact bytes_host_bound. Qed.
(* byte buffers are data the program holds (KF-C10-7: they were not counted at all).  With the natives charging them
   (Extracted BYTES_CHARGED, read from runtime/src/stdlib/bytes.rs): granted exactly when the buffer fits what is left of the
   budget, charged in full, the check precedes the host allocation, a refusal changes nothing, never an abort when the
   host can grant the limit; and any number of buffers keeps heap + manual <= max *)
Theorem bytes_alloc_charged : forall (cap : N) (m : mem) (n : Z),
  maxb m < U64 -> Inv m -> maxb m <= cap -> (0 < n)%Z -> Z.to_N n <= MAX_ALLOC ->
  let '(r, m', t) := op_bytes_gen true cap m n in
  (r = ROk <-> held m + Z.to_N n <= maxb m) /\ (r = ROk -> held m' = held m + Z.to_N n) /\ (r <> ROk -> m' = m) /\
  check_first t = true /\ r <> RAbort /\ r <> RPanic.
Proof. exact bytes_charged_exact. Qed.
Theorem byte_buffers_keep_limit : forall (cap : N) (sz : Z) (k : N) (m : mem), Inv m -> Inv (snd (bytes_many cap sz k m)).
Proof. exact bytes_many_ok. Qed.
(* the old natives: 200 000 000 bytes granted under a 1 MiB limit, the budget does not move *)
Example bytes_uncharged_was_unbounded :
  op_bytes_gen false w_cap_b (mkMem 100000 0 1048576) 200000000 = (ROk, mkMem 100000 0 1048576, [EHost 200000000]).
Proof. exact bytes_uncharged_witness. Qed.

(* ---- the primitives that were unguarded before the repairs of KF-C10-1..5 (the witnesses of the old behaviour
   were array_new_checks_late / vec_growth_unaccounted / vec_reserve_unchecked / string_repeat_checks_late) *)

(* sized array constructors: the limit is consulted before anything is built; a negative size is a type error
   with no event at all; a refusal never reaches the host *)
Theorem array_new_checks_first : forall (cap e : N) (m : mem) (n : Z), Inv m ->
  let '(r, m', t) := op_array cap e m n in
  (Inv m' /\ maxb m' = maxb m /\ (r = ROk \/ m' = m)) /\ check_first t = true /\
  ((n < 0)%Z -> r = RTypeErr /\ t = []) /\ (r = ROom \/ r = RTypeErr -> host_total t = 0).
Proof. exact array_step. Qed.

(* vec growth (the step behind push and reserve): checked first, and the charge follows the capacity exactly --
   what the heap holds for the vec is what has been accounted, before and after *)
Theorem vec_growth_accounted : forall (cap : N) (m : mem) (v : vecst) (add : N),
  Inv m -> vcharged v = vec_bytes v -> vlen v <= vcap v ->
  let '(r, m', v', t) := vec_grow cap m v add in
  (Inv m' /\ maxb m' = maxb m /\ (r = ROk \/ m' = m)) /\ check_first t = true /\
  vcharged v' = vec_bytes v' /\ vlen v' = vlen v /\ velem v' = velem v /\ vcap v <= vcap v' /\
  held m' + vec_bytes v = held m + vec_bytes v' /\
  (r = ROk -> vlen v + add <= vcap v') /\ (r <> ROk -> v' = v /\ m' = m).
Proof. exact vec_grow_step. Qed.

Theorem vec_reserve_checked : forall (cap : N) (m : mem) (v : vecst) (a : Z),
  Inv m -> vcharged v = vec_bytes v -> vlen v <= vcap v ->
  let '(r, m', v', t) := op_vec_reserve cap m v a in
  (Inv m' /\ maxb m' = maxb m /\ (r = ROk \/ m' = m)) /\ check_first t = true /\ vcharged v' = vec_bytes v' /\
  held m' + vec_bytes v = held m + vec_bytes v' /\
  ((a < 0)%Z -> r = RTypeErr) /\ (r <> ROk -> v' = v /\ m' = m).
Proof. exact vec_reserve_step. Qed.

(* string.repeat / pad_left / pad_right: the length of the result is checked before the host builds it *)
Theorem string_repeat_checks_first : forall (cap : N) (m : mem) (sl : N) (n : Z), Inv m ->
  let '(r, m', t) := op_repeat cap m sl n in
  (Inv m' /\ maxb m' = maxb m /\ (r = ROk \/ m' = m)) /\
  ((0 < n)%Z -> check_first t = true /\ (r = ROom -> host_total t = 0)).
Proof. exact repeat_step. Qed.
Theorem string_pad_checks_first : forall (cap : N) (m : mem) (schars sbytes pad_bytes : N) (w : Z), Inv m ->
  let '(r, m', t) := op_pad cap m schars sbytes pad_bytes w in
  (Inv m' /\ maxb m' = maxb m /\ (r = ROk \/ m' = m)) /\ check_first t = true /\ (r = ROom -> host_total t = 0).
Proof. exact pad_step. Qed.

(* natives that know the length of their result (string.replace, string.join -- results as long as the product of two
   held strings; KF-C10-6 repaired): the limit is consulted before the host builds anything *)
Theorem string_result_checked_first : forall (cap : N) (m : mem) (total : N), Inv m ->
  let '(r, m', t) := op_string_checked cap m total in
  (Inv m' /\ maxb m' = maxb m /\ (r = ROk \/ m' = m)) /\ check_first t = true /\ (r = ROom -> host_total t = 0).
Proof. exact string_checked_step. Qed.

(* exact answers of the repaired constructors (Ok exactly when the request fits; exact charge), and no abort when the host
   can grant the limit *)
Theorem array_new_total : forall (cap e : N) (m : mem) (n : Z), maxb m < U64 -> Inv m -> maxb m <= cap ->
  let '(r, m', t) := op_array cap e m n in
  (r = ROk <-> (0 <= n)%Z /\ held m + SZ_ARRAY + Z.to_N n * e <= maxb m) /\
  (r = ROk -> held m' = held m + SZ_ARRAY + Z.to_N n * e) /\ r <> RAbort /\ r <> RPanic.
Proof. exact array_exact. Qed.
Theorem string_result_total : forall (cap : N) (m : mem) (total : N), maxb m <= ISIZE_MAX -> Inv m -> maxb m <= cap ->
  let '(r, m', t) := op_string_checked cap m total in
  (r = ROk <-> held m + SZ_STRING + total <= maxb m) /\
  (r = ROk -> held m' = held m + SZ_STRING + total) /\ r <> RAbort /\ r <> RPanic.
Proof. exact string_checked_exact. Qed.
(* no allocating primitive answers with a (Rust) panic, whatever its arguments *)
Theorem no_primitive_panics : forall (cap : N) (m : mem) (o : gop), fst (fst (gstep cap m o)) <> RPanic.
Proof. exact gstep_never_panics. Qed.
(* the accounting formulas and growth policies the model uses are the ones read from the source *)
Example extracted_formulas_as_modelled :
  array_elem_bytes = [("Ints"%string, 8); ("Floats"%string, 8); ("Bools"%string, 1); ("Objects"%string, 8)] /\
  vec_elem_bytes = array_elem_bytes /\ SZ_VALUE = 8 /\ VEC_GROWTH_FACTOR = 2 /\ VEC_MIN_CAP = 4 /\ GC_GROWTH_FACTOR = 2.
Proof. vm_compute. repeat split; reflexivity. Qed.

(* ---- the loops the tie executes *)
(* the accelerated push loop (jumps over pushes that fit the capacity) computes exactly what replaying every
   push computes, whenever it finishes within its bound *)
Theorem push_fast_agrees : forall (bound n cap : N) (m : mem) (v : vecst) (r : res * mem * vecst),
  push_fast bound n cap m v = (0, r) -> push_many_n n cap m v = r.
Proof. exact push_fast_correct. Qed.

(* any number of pushes, loops of guarded allocations that keep what they allocate (closures, vec literals), and
   repeated s = s + s with the collector running at its threshold: heap + manual <= max after every step, the
   charge of the vec equals its size, garbage + current string never exceed the heap *)
Theorem push_loop_keeps_limit : forall (n cap : N) (m : mem) (v : vecst),
  Inv m -> vcharged v = vec_bytes v -> vlen v <= vcap v -> vst_ok (push_many_n n cap m v).
Proof. exact push_many_n_ok. Qed.
Theorem guarded_loop_keeps_limit : forall (n cap : N) (allocs : list (N * bool)) (m : mem) (v : vecst),
  Inv m -> vcharged v = vec_bytes v -> vlen v <= vcap v -> vst_ok (loop_run n cap allocs m v).
Proof. exact loop_run_ok. Qed.
Theorem concat_with_collector_keeps_limit : forall (n : N) (m : mem) (slen : N),
  Inv m -> cst_ok (snd (concat_gc n m slen)).
Proof. exact concat_gc_ok. Qed.
Theorem churn_with_collector_keeps_limit : forall (n : N) (allocs : list (N * bool)) (m : mem),
  Inv m -> chst_ok (snd (churn_run n allocs m)).
Proof. exact churn_run_ok. Qed.

(* ---- the counter the limit is checked against is the sum of the estimates of the objects on the heap: Heap::alloc
   adds the estimate an object has when it is allocated, Heap::sweep subtracts the estimate it has when it dies.  For
   ANY estimator table without an arm that reads unaccounted state, after any history of guarded allocations, state
   changes (accounted through account_growth exactly for the arms of class 1) and collections: counter = sum over the
   heap, and it is within the limit *)
Theorem accounting_exact_for_accounted_estimators : forall (tbl : list (N * string * N)),
  no_unaccounted_state tbl = true -> forall (limit : N) (steps : list hstep), acc_ok tbl limit (hrun tbl limit steps).
Proof. exact hrun_ok. Qed.
(* ... and the table regenerated from Heap::estimate_object_size (Extracted.HeapEstimator) is such a table: the estimate
   of every kind is independent of state, or (Vec) every change of it goes through account_growth.  A collection that
   keeps nothing brings the counter back to zero *)
Theorem sweep_subtracts_what_alloc_added : forall (limit : N) (steps : list hstep),
  hbytes (hrun estimator_arms limit steps) = total estimator_arms (objs (hrun estimator_arms limit steps)) /\
  total estimator_arms (objs (hrun estimator_arms limit steps)) <= limit /\
  hbytes (hstep_run estimator_arms limit (hrun estimator_arms limit steps)
            (HSweep (repeat false (List.length (objs (hrun estimator_arms limit steps)))))) = 0.
Proof. exact accounting_exact_extracted. Qed.
(* the hypothesis is needed: with an arm whose estimate changes without accounting (an upvalue that is one word larger
   once closed) the counter ends below what the heap holds -- 92 accounted, 100 held *)
Example unaccounted_state_breaks_accounting :
  let h := hrun drift_table 1000 drift_steps in
  objs h = [mkO 5 100 0] /\ total drift_table (objs h) = 100 /\ hbytes h = 92.
Proof. exact unaccounted_state_drifts. Qed.

(* the former counterexamples on the repaired definitions (limit 1 MiB, 100 000 bytes in use, host grants 2^40):
   refused by the check, nothing allocated; 2000 pushes are charged 2047 * 8 bytes; reserve beyond the limit is
   OutOfMemory *)
Example former_counterexamples_now_refused :
  (op_array w_cap 8 w_mem 200000 = (ROom, w_mem, [ECheck 1600024 false]) /\
   op_array w_cap 8 w_mem (-1) = (RTypeErr, w_mem, []) /\
   op_array w_cap 8 w_mem 1000000000000 = (ROom, w_mem, [ECheck 8000000000024 false])) /\
  ((let '(r, m', v') := push_many 2000 w_cap w_mem (mkVec 1 1 40 8) in
    r = ROk /\ vlen v' = 2001 /\ vcap v' = 2048 /\ vcharged v' = vec_bytes v' /\ held m' = held w_mem + 2047 * 8) /\
   (let '(r, m', v', _) := op_vec_reserve w_cap w_mem (mkVec 1 1 40 8) 131072 in r = ROom /\ m' = w_mem) /\
   fst (fst (fst (op_vec_reserve w_cap w_mem (mkVec 1 1 40 8) (-1)))) = RTypeErr /\
   fst (fst (fst (op_vec_reserve w_cap w_mem (mkVec 1 1 40 8) 1000000000000))) = ROom) /\
  (op_repeat w_cap w_mem 16 100000 = (ROom, w_mem, [ECheck 1600024 false]) /\
   fst (fst (op_repeat w_cap w_mem 16 100000000000)) = ROom /\
   op_pad w_cap w_mem 16 16 1 (-1) = (ROk, w_mem, []) /\
   op_pad w_cap w_mem 16 16 1 100000000000000 = (ROom, w_mem, [ECheck 100000000000024 false]) /\
   op_pad w_cap w_mem 16 16 3 400016 = (ROom, w_mem, [ECheck 1200040 false])).
Proof. exact (conj repaired_array_witness (conj repaired_vec_witness repaired_string_witness)). Qed.

(* non-vacuity: a history that fills the budget exactly and is then refused *)
Example C10_nonvacuous :
  let m0 := mkMem 100000 0 MIN_HEAP_BYTES in
  Inv m0 /\
  fst (fst (gstep w_cap (grun w_cap m0 [GStr 1000; GManual 100000; GObj 4000; GSweep 1024; GManualFree 800000; GManual 100]) (GManual 117972))) = ROk /\
  fst (fst (gstep w_cap (grun w_cap m0 [GStr 1000; GManual 100000; GObj 4000; GSweep 1024; GManualFree 800000; GManual 100]) (GManual 117973))) = ROom.
Proof. vm_compute. repeat split; try reflexivity. discriminate. Qed.

(* ---- the census of allocating primitives, regenerated from runtime/src and bytecode/src/object on every run
   (Extracted.HeapSites): every sized host allocation is preceded by a heap-limit check (1) or its own bound (2), is a
   constant / operand / bounded VM-internal quantity (3) or a constructor whose callers are sites themselves (4);
   every native that builds a string checks the length of its result first (1) or is linear in its inputs (5) *)
Example alloc_sites_all_guarded :
  forallb (fun s => negb (N.eqb (snd s) 0)) heap_alloc_sites = true /\
  forallb (fun s => negb (N.eqb (snd s) 0)) string_builders = true /\
  (0 < List.length heap_alloc_sites)%nat /\ (0 < List.length string_builders)%nat.
Proof. vm_compute. repeat split; try reflexivity; apply Nat.ltb_lt; reflexivity. Qed.

(* ---- from command-line flags to the limit that is in force (parse_vm_args): whatever other flags are on the command line --
   trusted, allow-* in either spelling, --dev, --allow-caps / --deny-caps, program arguments -- and in whatever order, a
   successful parse yields the limit of the last max-heap flag (the default without one), never less than the minimum; two
   command lines with the same max-heap flags configure the same limit *)
Theorem flags_configure_the_limit : forall (l : list flag) (c : cfg),
  parse_args l = Some c -> c_max c = last_max l DEFAULT_MAX_HEAP_BYTES.
Proof. exact parse_args_limit. Qed.
Theorem only_max_heap_flags_touch_the_limit : forall (l1 l2 : list flag) (c1 c2 : cfg),
  filter is_max l1 = filter is_max l2 -> parse_args l1 = Some c1 -> parse_args l2 = Some c2 -> c_max c1 = c_max c2.
Proof. exact parse_args_limit_only_max_heap. Qed.
Theorem parsed_limit_at_least_minimum : forall (l : list flag) (c : cfg), parse_args l = Some c -> MIN_HEAP_BYTES <= c_max c.
Proof. exact parse_args_min. Qed.
(* the table "which flag assigns which field of VmConfig", regenerated from parse.rs / config.rs: among the -ae. keys only
   max-heap assigns max_heap_bytes; --dev, the caps flags and the trusted-mode block after the loop assign neither
   max_heap_bytes nor the configuration as a whole *)
Example flag_writes_as_modelled : args_table_ok = true.
Proof. exact args_table_as_modelled. Qed.
