(* C10 -- The configured heap limit is enforced before memory is taken.
   Property theorems only; proofs live in Proofs/HeapLimitProofs.v.  Constants (MIN_HEAP_BYTES, MAX_ALLOC,
   layout sizes) are regenerated from /repo by tools/extractors/c10.py on every run. *)
From Aelys Require Import Base.Tactics Extracted.HeapConsts Model.HeapLimit Proofs.HeapLimitProofs.
Local Open Scope N_scope.

(* ensure_heap_capacity: for all u64 inputs the answer is Ok exactly when the UNBOUNDED sum fits *)
Theorem ensure_total : forall (m : mem) (additional : N),
  heap m < U64 -> manual m < U64 -> additional < U64 -> maxb m < U64 ->
  (ensure m additional = true <-> heap m + manual m + additional <= maxb m).
Proof. exact ensure_spec. Qed.

(* ... and no wrap-around can make an over-limit request pass, whatever the inputs *)
Theorem ensure_no_wraparound : forall (m : mem) (additional : N),
  ensure m additional = true -> heap m + manual m + additional <= maxb m.
Proof. exact ensure_sound. Qed.

(* every guarded operation (string, object = function / closure / upvalue / empty vec, manual alloc, manual
   free, sweep) keeps heap + manual <= max, leaves the state untouched unless it answers Ok, and -- for
   objects and manual buffers -- checks before the host allocates *)
Theorem guarded_ops_respect_limit_step : forall (m : mem) (o : gop), Inv m ->
  let '(r, m', t) := gstep m o in
  Inv m' /\ maxb m' = maxb m /\ (r = ROk \/ m' = m) /\
  (match o with GObj _ | GManual _ => check_first t = true | _ => True end).
Proof. exact gstep_inv. Qed.

(* ... in every history *)
Theorem guarded_ops_respect_limit : forall (h : list gop) (m : mem),
  Inv m -> Inv (grun m h) /\ maxb (grun m h) = maxb m.
Proof. exact grun_inv. Qed.

(* the manual allocator completely: Ok exactly for positive sizes that fit, the charge is exact, nothing
   changes otherwise, the check comes first, negative -> TypeError, zero -> InvalidAllocationSize *)
Theorem manual_alloc_total : forall (m : mem) (n : Z), maxb m < U64 -> Inv m ->
  let '(r, m', t) := op_manual m n in
  (r = ROk <-> (0 < n)%Z /\ held m + Z.to_N n * SZ_VALUE <= maxb m) /\
  (r = ROk -> held m' = held m + Z.to_N n * SZ_VALUE) /\
  (r <> ROk -> m' = m) /\ check_first t = true /\
  ((n < 0)%Z -> r = RTypeErr) /\ (n = 0%Z -> r = RInvalidSize).
Proof. exact manual_spec. Qed.

(* sweep: an object that is swept at the size it was charged with is subtracted exactly ... *)
Theorem sweep_accounting : forall (m : mem) (charged : N), charged <= heap m ->
  heap (op_sweep m charged) = heap m - charged /\ manual (op_sweep m charged) = manual m.
Proof. exact sweep_exact. Qed.
Theorem sweep_preserves_invariant : forall (m : mem) (current : N), Inv m -> Inv (op_sweep m current).
Proof. exact sweep_keeps_inv. Qed.
(* ... but a vec is swept at its CURRENT capacity: after growth the budget loses bytes of other live objects *)
Theorem sweep_accounting_grown_vec_refuted :
  let m := mkMem 100040 0 1048576 in
  let v := mkVec 1024 1024 40 in
  heap (op_sweep m (vec_bytes v)) = 91816 /\ heap m - vcharged v = 100000.
Proof. exact sweep_grown_witness. Qed.

(* byte buffers: a non-positive or over-MAX_ALLOC size is refused before the host allocates anything;
   a granted request is at most MAX_ALLOC; the heap budget is never charged *)
Theorem bytes_alloc_bounded : forall (cap : N) (m : mem) (n : Z),
  (n <= 0)%Z \/ MAX_ALLOC < Z.to_N n -> op_bytes cap m n = (RTypeErr, m, []).
Proof. exact bytes_bounded. Qed.
Theorem bytes_alloc_host_bound : forall (cap : N) (m : mem) (n : Z),
  host_total (snd (op_bytes cap m n)) <= MAX_ALLOC /\ snd (fst (op_bytes cap m n)) = m.
Proof. exact bytes_host_bound. Qed.

(* ---- the unguarded paths of the faithful model (limit 1 MiB, 100 000 bytes in use, host grants 2^40) *)
(* Array<Int>(200000): 1.6 MB are allocated on the host BEFORE the check refuses; Array<Int>(-1): the
   negative count is cast to usize and vec![0; len] panics (capacity overflow); Array<Int>(10^12): the host
   refuses 8 TB -> the process aborts *)
Theorem array_new_checks_late_refuted :
  op_array w_cap 8 w_mem 200000 = (ROom, w_mem, [EHost 1600000; ECheck 1600024 false]) /\
  check_first (snd (op_array w_cap 8 w_mem 200000)) = false /\
  op_array w_cap 8 w_mem (-1) = (RPanic, w_mem, []) /\
  op_array w_cap 8 w_mem 1000000000000 = (RAbort, w_mem, [EHost 8000000000000]).
Proof. exact array_late_check_witness. Qed.
(* guarded: whenever the array constructor answers Ok the invariant holds (the charge itself is checked) *)
Theorem array_new_ok_guarded : forall (cap e : N) (m : mem) (n : Z), Inv m ->
  let '(r, m', _) := op_array cap e m n in Inv m' /\ (r = ROk \/ m' = m).
Proof. exact array_ok_inv. Qed.

(* 2000 pushes: capacity 2048, nothing re-accounted *)
Theorem vec_growth_unaccounted_refuted :
  let '(r, m', v') := push_many 2000 w_cap w_mem (mkVec 1 1 40) in
  r = ROk /\ m' = w_mem /\ vlen v' = 2001 /\ vcap v' = 2048.
Proof. exact vec_growth_witness. Qed.
(* reserve(131072): 1 MiB of storage on top of 100 000 bytes in use, limit 1 MiB, answer Ok, nothing charged *)
Theorem vec_growth_exceeds_limit_refuted :
  let '(r, m', v', _) := op_vec_reserve w_cap w_mem (mkVec 1 1 40) 131072 in
  r = ROk /\ m' = w_mem /\ maxb w_mem < held w_mem - vcharged v' + vec_bytes v'.
Proof. exact vec_growth_over_limit_witness. Qed.
Theorem vec_reserve_unchecked_refuted :
  fst (fst (fst (op_vec_reserve w_cap w_mem (mkVec 1 1 40) (-1)))) = RPanic /\
  fst (fst (fst (op_vec_reserve w_cap w_mem (mkVec 1 1 40) 1000000000000))) = RAbort.
Proof. exact vec_reserve_witness. Qed.

(* string.repeat / pad: the host string is built before the check; absurd sizes abort or panic *)
Theorem string_repeat_checks_late_refuted :
  op_repeat w_cap w_mem 16 100000 = (ROom, w_mem, [EHost 1600000; ECheck 1600024 false]) /\
  fst (fst (op_repeat w_cap w_mem 16 100000000000)) = RAbort /\
  fst (fst (op_pad true w_cap w_mem 16 (-1))) = RPanic /\
  fst (fst (op_pad true w_cap w_mem 16 100000000000000)) = RAbort.
Proof. exact repeat_late_check_witness. Qed.
Theorem string_repeat_ok_guarded : forall (cap : N) (m : mem) (sl : N) (n : Z), Inv m ->
  let '(r, m', _) := op_repeat cap m sl n in Inv m' /\ (r = ROk \/ m' = m).
Proof. exact repeat_ok_inv. Qed.

(* non-vacuity: a history that fills the budget exactly and is then refused *)
Example C10_nonvacuous :
  let m0 := mkMem 100000 0 MIN_HEAP_BYTES in
  Inv m0 /\
  fst (fst (gstep (grun m0 [GStr 1000; GManual 100000; GObj 4000; GSweep 1024; GManualFree 800000; GManual 100]) (GManual 117972))) = ROk /\
  fst (fst (gstep (grun m0 [GStr 1000; GManual 100000; GObj 4000; GSweep 1024; GManualFree 800000; GManual 100]) (GManual 117973))) = ROom.
Proof. vm_compute. repeat split; try reflexivity. discriminate. Qed.
