(* C03 -- The garbage collector never frees a reachable object.
   Property theorems only; proofs live in Proofs/GcProofs.v and Proofs/GcWitness.v.

   What these theorems carry: the mark/sweep half of the property over ALL heaps and root
   lists of the model (no size bound): the marked set is exactly the closure of the edges
   Heap::mark follows, the fuel bound #objects + #edges never runs out, sweep leaves every
   marked object untouched and frees exactly the unmarked ones, and -- since the collector
   follows every stored reference (/repo ad6fcd1) -- collect keeps every object reachable
   through any stored reference, unchanged, UNCONDITIONALLY.
   Root list (Model/GcRoots.v): the VM state is modelled field by field (the list of fields of
   `struct VM` that can hold a Value/GcRef is regenerated from the source and must agree with the
   model's table); VM::collect's root list is proved to be exactly the set of places through
   which the program can still reach an object (register windows of all frames, running
   functions and closures, both global views, both upvalue lists), hence C03_vm_collect_safe.
   What they do not carry: references held only in Rust locals of the interpreter between two
   instructions' stores (the four safepoints were analysed by hand, their list is regenerated
   from the source), and that dead registers above every window are never read again -- those
   are explored by the schedule tie only.
   The last section documents the defect the repair removed, stated about the old edge
   function `edges_old` (it is not a statement about the current code). *)
From Aelys Require Import Base.Tactics Extracted.GcRootFields Model.Gc Model.GcRoots
  Proofs.GcProofs Proofs.GcWitness Proofs.GcRootsProofs Proofs.GcRootsWitness.
Local Open Scope N_scope.

(* HEADLINE.  For every heap and every root list: collect terminates, every object reachable
   from the roots through any stored reference (incl. constants of nested, not yet instantiated
   functions at any depth) survives with its contents unchanged, and exactly the unreachable
   objects are freed. *)
Theorem C03_collect_safe : forall h roots,
  exists h', collect h roots = Some h'
    /\ (forall i o, reachable_spec h roots i -> get h i = Some o -> get h' i = Some o)
    /\ (forall i, ~ reachable_spec h roots i -> get h' i = None).
Proof. exact collect_safe_lemma. Qed.

(* HEADLINE 2 (root model).  For every VM state and heap: the collection as the VM runs it keeps
   every object the program can reach -- through a register inside the window of ANY active frame,
   the function or closure of ANY active frame, a global (by name or by index), an open or current
   upvalue, a slot of a live manually managed buffer (rooted since /repo 474d1a4), and from there
   along any stored reference -- unchanged; frees exactly the rest; leaves
   no layout snapshot behind; and every such place still refers to the object it referred to.
   Premise: every frame records the register count of the function it runs (frames_consistent;
   checked on every dumped state and at every audited collection; C03_frame_count_premise_needed
   shows it cannot be dropped). *)
Theorem C03_vm_collect_safe : forall s h, frames_consistent s ->
  exists s' h', vm_collect s h = Some (s', h')
    /\ (forall i o, program_reachable s h i -> get h i = Some o -> get h' i = Some o)
    /\ (forall i, ~ program_reachable s h i -> get h' i = None)
    /\ v_globals_cache s' = []
    /\ (forall p, holds_ref s' p <-> holds_ref s p)
    /\ (forall p o, holds_ref s' p -> get h p = Some o -> get h' p = Some o).
Proof. exact vm_collect_safe_lemma. Qed.

(* a collection is invisible to the program: what it can reach afterwards is exactly what it could
   reach before, index by index the same objects -- the semantic core of "output, result and errors
   do not depend on when collections happen" (the consequence for whole program runs is explored
   by the schedule differential, not proved: there is no interpreter model here) *)
Theorem C03_collection_invisible : forall s h s' h', frames_consistent s ->
  vm_collect s h = Some (s', h') ->
  (forall i, program_reachable s' h' i <-> program_reachable s h i)
  /\ (forall i, program_reachable s h i -> get h' i = get h i).
Proof. exact vm_collect_invisible_lemma. Qed.

(* ... and stays so under the allocations that follow: on a well-formed heap (free list = distinct
   empty slots; an invariant of new/alloc/sweep) Heap::alloc hands out an empty slot, leaves every
   other slot untouched and keeps the heap well-formed; sweep keeps it well-formed *)
Theorem C03_alloc_preserves_live : forall h o h2 i,
  heap_wf h -> alloc h o = (h2, i) ->
  get h i = None /\ get h2 i = Some o /\ (forall j, j <> i -> get h2 j = get h j) /\ heap_wf h2.
Proof. exact alloc_preserves_live. Qed.

Theorem C03_sweep_preserves_wf : forall h m, heap_wf h -> heap_wf (sweep h m).
Proof. exact sweep_wf. Qed.

(* VM::collect's root list = the specification's places, in both directions *)
Theorem C03_collect_roots_exact : forall s p, frames_consistent s ->
  (In p (collect_roots s) <-> holds_ref s p).
Proof. intros s p H. split; [exact (collect_roots_sound s p H)|exact (collect_roots_complete s p H)]. Qed.

(* the premise is needed: a frame that records fewer registers than its function uses (what a
   stale call-site cache entry produced under seeded change C03_r3_2) loses a live variable *)
Theorem C03_frame_count_premise_needed :
  exists s h i o s' h',
    ~ frames_consistent s /\ program_reachable s h i /\ get h i = Some o
    /\ vm_collect s h = Some (s', h') /\ get h' i = None.
Proof. exact frame_count_premise_needed_lemma. Qed.

(* the field table regenerated from the Rust source agrees with the model: every field of
   `struct VM` whose type can contain a Value/GcRef has a disposition, collect reads exactly the
   fields the model marks and clears exactly the field the model clears; same for CallFrame;
   the safepoints are the four that were analysed; Heap::mark has one arm per object kind *)
Theorem C03_reference_fields_agree :
  fields_agree vm_reference_fields collect_uses collect_clears = true
  /\ frame_fields_agree frame_reference_fields collect_frame_uses = true
  /\ pair_list_eqb safepoint_sites analysed_safepoints = true
  /\ str_list_eqb object_kinds model_kinds = true /\ str_list_eqb mark_arms model_kinds = true
  /\ mark_has_wildcard_arm = false.
Proof. exact reference_fields_agree_lemma. Qed.

(* the collector follows exactly the references the specification counts *)
Theorem C03_edges_code_is_spec : forall o, edges_code o = edges_spec o.
Proof. exact edges_code_eq_spec. Qed.

(* Heap::mark, run from every root as VM::collect does, terminates within the fuel bound
   and marks exactly the live objects reachable along the edges the code follows *)
Theorem C03_mark_computes_closure : forall h roots,
  exists m, mark h roots = Some m /\ forall i, In i m <-> reachable_code h roots i.
Proof. intros h roots. exact (mark_closure edges_code h roots). Qed.

(* the same algorithm over the specification's edges computes reachable_spec (used by the
   heap-graph tie to evaluate the specification on dumped heaps) *)
Theorem C03_spec_closure_computable : forall h roots,
  exists m, mark_roots edges_spec (fuel_bound edges_spec h) h [] roots = Some m
            /\ forall i, In i m <-> reachable_spec h roots i.
Proof. intros h roots. exact (mark_closure edges_spec h roots). Qed.

(* termination argument: edges of unmarked objects + worklist length bounds the iterations *)
Theorem C03_mark_fuel_suffices : forall E h fuel m wl,
  (uedges E h m + length wl <= fuel)%nat ->
  exists m', mark_loop E fuel h m wl = Some m' /\ (uedges E h m' <= uedges E h m)%nat.
Proof. intros E h. exact (mark_loop_fuel E h). Qed.

(* whatever fuel produced an answer, it is the same closure *)
Theorem C03_mark_fuel_independent : forall E h fuel roots m,
  mark_roots E fuel h [] roots = Some m -> forall i, In i m <-> reach E h roots i.
Proof. intros E h. exact (mark_closure_any_fuel E h). Qed.

(* sweep: marked objects keep their slot and contents, everything else is freed *)
Theorem C03_sweep_keeps_marked_intact : forall h m i,
  get (sweep h m) i = if mem i m then get h i else None.
Proof. exact get_sweep. Qed.

(* ... and the free list receives exactly the live unmarked indices *)
Theorem C03_sweep_free_list : forall h m x,
  In x (free (sweep h m)) <-> In x (free h) \/ ((exists o, get h x = Some o) /\ ~ In x m).
Proof. exact sweep_free_spec. Qed.

(* collect over ANY edge function E: exactly the E-reachable objects survive, unchanged *)
Theorem C03_collect_exact : forall E h roots,
  exists h', collect_with E h roots = Some h'
    /\ (forall i o, reach E h roots i -> get h i = Some o -> get h' i = Some o)
    /\ (forall i, ~ reach E h roots i -> get h' i = None).
Proof. exact collect_with_spec. Qed.

(* conditional form (the design's statement): a collector whose mark follows at least the
   specification's edges is safe; the headline is its instance E = edges_code *)
Theorem C03_collect_safe_if_mark_follows_spec : forall E h roots,
  (forall i o, get h i = Some o -> incl (edges_spec o) (E o)) ->
  exists h', collect_with E h roots = Some h'
    /\ forall i o, reachable_spec h roots i -> get h i = Some o -> get h' i = Some o.
Proof. exact collect_with_safe. Qed.

(* why a lost object is silent: the freed index is handed out again by the next allocation *)
Theorem C03_free_list_aliasing : forall h m i rest o o',
  free (sweep h m) = i :: rest -> get h i = Some o -> ~ In i m ->
  get (sweep h m) i = None /\ exists h2, alloc (sweep h m) o' = (h2, i) /\ get h2 i = Some o'.
Proof. exact free_list_aliasing_lemma. Qed.

(* non-vacuity: a heap with a closure, an upvalue, a vector, garbage and a function whose
   depth-2 nested constant (slot 4) is not in its own pool: 4 and 6 are reachable and survive
   unchanged, 7 is unreachable and freed, the free list is what Heap::sweep builds *)
Example C03_collect_safe_nonvacuous :
  reachable_spec good_heap [2] 4 /\ reachable_spec good_heap [2] 6 /\ ~ reachable_spec good_heap [2] 7
  /\ exists h', collect good_heap [2] = Some h' /\ live h' = [0; 1; 2; 3; 4; 5; 6] /\ free h' = [9; 7; 8]
                /\ get h' 4 = Some (OString 15).
Proof. exact nonvacuous_lemma. Qed.

(* ---- HISTORICAL: the defect repaired by /repo ad6fcd1 ----------------------------------
   Statements about `edges_old` (Heap::mark before the repair: a function's own constants
   only), NOT about the current code.  Kept so that the check documents, and keeps checking,
   what the repair fixed; the same program is corpus/C03/nested_const.aelys, which now runs
   first on every check as a regression input. *)

(* the old collector freed a reachable object: heap dumped from the pre-repair VM *)
Theorem C03_old_mark_nested_constants_refuted :
  exists h roots i o h',
    reachable_spec h roots i /\ get h i = Some o
    /\ collect_with edges_old h roots = Some h' /\ get h' i = None
    /\ ~ (forall j oj, get h j = Some oj -> incl (edges_spec oj) (edges_old oj)).
Proof. exact old_mark_nested_constants_refuted_lemma. Qed.

(* ... and the next allocation landed on the string's index *)
Example C03_old_witness_aliasing :
  exists h' h2, collect_with edges_old witness_heap witness_roots = Some h'
    /\ alloc h' (OFunction 1 (FnC [] [FnC [134] []])) = (h2, 134)
    /\ get h2 134 = Some (OFunction 1 (FnC [] [FnC [134] []])).
Proof. exact witness_old_aliasing. Qed.

(* the same heap under the collector as it is: the string survives, nothing is freed *)
Example C03_witness_now_survives :
  exists h', collect witness_heap witness_roots = Some h' /\ get h' 134 = Some witness_str
             /\ free h' = [].
Proof. exact witness_now_survives. Qed.

(* HISTORICAL (root list before /repo af27ef7: running closures were not roots): VM state and heap
   dumped from corpus/C03/running_closure_unrooted.aelys -- the closure a frame is executing is
   program-reachable and the old root list let it be freed; the current one keeps it *)
Theorem C03_old_roots_running_closure_refuted :
  exists s h i o h',
    program_reachable s h i /\ get h i = Some o
    /\ collect h (collect_roots_old s) = Some h' /\ get h' i = None.
Proof. exact old_roots_running_closure_refuted_lemma. Qed.

(* HISTORICAL (root list before /repo 474d1a4: values stored in manual memory were not roots): a
   string whose only reference is a slot of a live alloc()ed buffer was freed and load() returned a
   dangling pointer; the current root list keeps it *)
Theorem C03_old_roots_manual_buffer_refuted :
  exists s h i o h',
    holds_ref s i /\ get h i = Some o
    /\ collect h (collect_roots_no_manual s) = Some h' /\ get h' i = None
    /\ exists s2 h2, vm_collect s h = Some (s2, h2) /\ get h2 i = Some o.
Proof. exact manual_buffer_roots_refuted_lemma. Qed.

Example C03_running_closure_now_survives :
  exists s' h', vm_collect kf3_vm kf3_heap = Some (s', h') /\ get h' 145 = Some kf3_closure.
Proof. exact kf3_now_survives. Qed.

(* the old edge function was never unsound in the other direction and differed from the
   specification only at function objects *)
Theorem C03_old_edges_differ_only_at_functions : forall o,
  incl (edges_old o) (edges_spec o)
  /\ ((forall d f, o <> OFunction d f) -> edges_old o = edges_spec o).
Proof. intro o. split; [exact (edges_old_incl_spec o)|exact (edges_old_nonfunction o)]. Qed.
