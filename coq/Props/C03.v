(* C03 -- The garbage collector never frees a reachable object.
   Property theorems only; proofs live in Proofs/GcProofs.v and Proofs/GcWitness.v.

   What these theorems carry: the mark/sweep half of the property over ALL heaps and root
   lists of the model (no size bound): the marked set is exactly the closure of the edges
   Heap::mark follows, the fuel bound #objects + #edges never runs out, sweep leaves every
   marked object untouched and frees exactly the unmarked ones, so collect is safe for a
   reference relation edges_spec iff Heap::mark follows at least those edges -- and on the
   current code it does not (nested function constants): refuted with the dumped heap.
   What they do not carry: that VM::collect's root list is complete (interpreter locals,
   native argument vectors) -- that half is explored by the schedule tie only. *)
From Aelys Require Import Base.Tactics Model.Gc Proofs.GcProofs Proofs.GcWitness.
Local Open Scope N_scope.

(* Heap::mark, run from every root as VM::collect does, terminates within the fuel bound
   and marks exactly the live objects reachable along the edges the code follows *)
Theorem C03_mark_computes_closure : forall h roots,
  exists m, mark h roots = Some m /\ forall i, In i m <-> reachable_code h roots i.
Proof. intros h roots. exact (mark_closure edges_code h roots). Qed.

(* the same algorithm over the specification's edges computes reachable_spec (used by the
   heap-graph tie to evaluate the specification on dumped heaps) *)
Theorem C03_spec_closure_computable : forall h roots,
  exists m, mark_roots edges_spec (fuel_bound edges_spec h) h [] roots = Some m
            /\ forall i, In i m <-> reachable_spec h roots i.
Proof. intros h roots. exact (mark_closure edges_spec h roots). Qed.

(* termination argument: edges of unmarked objects + worklist length bounds the iterations *)
Theorem C03_mark_fuel_suffices : forall E h fuel m wl,
  (uedges E h m + length wl <= fuel)%nat ->
  exists m', mark_loop E fuel h m wl = Some m' /\ (uedges E h m' <= uedges E h m)%nat.
Proof. intros E h. exact (mark_loop_fuel E h). Qed.

(* whatever fuel produced an answer, it is the same closure *)
Theorem C03_mark_fuel_independent : forall E h fuel roots m,
  mark_roots E fuel h [] roots = Some m -> forall i, In i m <-> reach E h roots i.
Proof. intros E h. exact (mark_closure_any_fuel E h). Qed.

(* sweep: marked objects keep their slot and contents, everything else is freed *)
Theorem C03_sweep_keeps_marked_intact : forall h m i,
  get (sweep h m) i = if mem i m then get h i else None.
Proof. exact get_sweep. Qed.

(* ... and the free list receives exactly the live unmarked indices *)
Theorem C03_sweep_free_list : forall h m x,
  In x (free (sweep h m)) <-> In x (free h) \/ ((exists o, get h x = Some o) /\ ~ In x m).
Proof. exact sweep_free_spec. Qed.

(* collect = exactly the code-reachable objects survive, unchanged *)
Theorem C03_collect_exact : forall h roots,
  exists h', collect h roots = Some h'
    /\ (forall i o, reachable_code h roots i -> get h i = Some o -> get h' i = Some o)
    /\ (forall i, ~ reachable_code h roots i -> get h' i = None).
Proof. exact collect_spec. Qed.

(* safety relative to the specification's reference relation *)
Theorem C03_collect_safe : forall h roots,
  (forall i o, get h i = Some o -> incl (edges_spec o) (edges_code o)) ->
  exists h', collect h roots = Some h'
    /\ forall i o, reachable_spec h roots i -> get h i = Some o -> get h' i = Some o.
Proof. exact collect_safe_lemma. Qed.

(* the proposed repair -- mark follows every stored reference (edges_spec) -- is safe with no
   premise, and still frees exactly the unreachable objects *)
Theorem C03_repaired_collect_safe : forall h roots,
  exists h', collect_with edges_spec h roots = Some h'
    /\ (forall i o, reachable_spec h roots i -> get h i = Some o -> get h' i = Some o)
    /\ (forall i, ~ reachable_spec h roots i -> get h' i = None).
Proof. exact collect_with_spec_safe. Qed.

(* the premise can only fail at function objects: everywhere else the two relations agree,
   and the code never follows an edge the specification does not have *)
Theorem C03_edges_agree_off_functions : forall o,
  ((forall d f, o <> OFunction d f) -> edges_spec o = edges_code o)
  /\ incl (edges_code o) (edges_spec o).
Proof. intro o. split; [exact (edges_spec_code_nonfunction o)|exact (edges_code_incl_spec o)]. Qed.

(* On the current code the premise is false and so is the conclusion: the heap dumped from the
   real VM for corpus/C03/nested_const.aelys has an object that is reachable and is freed. *)
Theorem C03_nested_constants_refuted :
  exists h roots i o h',
    reachable_spec h roots i /\ get h i = Some o /\ collect h roots = Some h' /\ get h' i = None
    /\ ~ (forall j oj, get h j = Some oj -> incl (edges_spec oj) (edges_code oj)).
Proof. exact nested_constants_refuted_lemma. Qed.

(* why the loss is silent: the freed index is handed out again by the next allocation *)
Theorem C03_free_list_aliasing : forall h m i rest o o',
  free (sweep h m) = i :: rest -> get h i = Some o -> ~ In i m ->
  get (sweep h m) i = None /\ exists h2, alloc (sweep h m) o' = (h2, i) /\ get h2 i = Some o'.
Proof. exact free_list_aliasing_lemma. Qed.

(* the dumped heap after collect: the function object allocated next lands on the string's index *)
Example C03_witness_aliasing :
  exists h' h2, collect witness_heap witness_roots = Some h'
    /\ alloc h' (OFunction 1 (FnC [] [FnC [134] []])) = (h2, 134)
    /\ get h2 134 = Some (OFunction 1 (FnC [] [FnC [134] []])).
Proof. exact witness_aliasing. Qed.

(* non-vacuity: the premise of C03_collect_safe is satisfiable by a heap that has a closure,
   an upvalue, a vector, garbage and a function WITH nested constants (all repeated in its own
   pool); the reachable objects survive, the garbage goes to the free list *)
Example C03_collect_safe_nonvacuous :
  (forall i o, get good_heap i = Some o -> incl (edges_spec o) (edges_code o))
  /\ reachable_spec good_heap [2] 6
  /\ exists h', collect good_heap [2] = Some h' /\ live h' = [0; 1; 2; 3; 4; 5; 6] /\ free h' = [9; 7; 8].
Proof. exact nonvacuous_lemma. Qed.
