(* C09 -- Manual memory is isolated, bounds-checked and exactly accounted.
   Property theorems only; proofs live in Proofs/ManualHeapProofs.v and Proofs/BytesProofs.v.
   Part I: ManualHeap (raw API) and the two program-facing surfaces (builtins, opcodes 28..33).
   Part II: std.bytes. *)
From Aelys Require Import Base.Tactics Extracted.ManualMem Extracted.MemChecks Model.Value Model.ManualHeap Model.MemTab Model.Bytes
     Proofs.ValueProofs Proofs.ManualHeapProofs Proofs.BytesProofs.
Local Open Scope N_scope.

(* ============================================================================== Part I *)

(* Refinement, one step: from any state satisfying the invariant and related to an abstract map of
   arrays, an operation of the implementation (i) preserves the invariant, (ii) returns exactly what
   the map-of-arrays specification returns, error kind included, and (iii) commutes with the
   abstraction.  No side condition: an allocation whose charge would exceed usize::MAX is an
   InvalidSize error on both sides (ManualHeap::alloc checks the charge first since f05dd1f). *)
Theorem C09_mh_refines : forall s sp o,
  Inv s -> Sim s sp ->
  Inv (fst (mh_step s o))
  /\ snd (spec_step sp o (snd (mh_step s o))) = snd (mh_step s o)
  /\ Sim (fst (mh_step s o)) (fst (spec_step sp o (snd (mh_step s o)))).
Proof. exact mh_refines_u. Qed.

(* ... lifted to every history from the empty heap (mh_exec is a fold_left over the operations) *)
Theorem C09_mh_refines_history : forall os,
  Inv (mh_exec mh_empty os)
  /\ snd (spec_run sp_empty os (snd (mh_run mh_empty os))) = snd (mh_run mh_empty os)
  /\ Sim (mh_exec mh_empty os) (fst (spec_run sp_empty os (snd (mh_run mh_empty os)))).
Proof. intros os. exact (mh_refines_history_lemma os mh_empty sp_empty inv_empty sim_empty). Qed.

Theorem C09_mh_run_is_fold : forall os s, fst (mh_run s os) = fold_left (fun st o => fst (mh_step st o)) os s.
Proof. exact mh_run_exec. Qed.

(* a load returns the last value stored at that index: immediately ... *)
Theorem C09_load_after_store : forall s h off v s',
  mh_store s h off v = (s', ROkUnit) -> mh_load s' h off = ROkVal v.
Proof. exact load_after_store_lemma. Qed.

(* ... and after any later history that neither stores to that cell nor frees that buffer
   (allocations, frees and stores elsewhere, failing operations of every kind included) *)
Theorem C09_load_after_store_history : forall s h off v s1 os,
  Inv s -> mh_store s h off v = (s1, ROkUnit) -> Forall (leaves_cell h off) os ->
  mh_load (mh_exec s1 os) h off = ROkVal v.
Proof. exact load_after_store_history. Qed.

(* no operation changes any other live buffer (an allocation never lands on a live handle) *)
Theorem C09_isolation : forall s o h d,
  Inv s -> abs s h = Some d -> op_target o <> Some h ->
  abs (fst (mh_step s o)) h = Some d.
Proof. exact isolation_u. Qed.

(* every error leaves the heap -- slot table, free list and charge -- literally unchanged *)
Theorem C09_errors_change_nothing : forall s o,
  Inv s -> is_err (snd (mh_step s o)) = true -> fst (mh_step s o) = s.
Proof. exact mh_err_unchanged_u. Qed.

(* in particular an allocation whose charge would not fit a usize is a clean InvalidSize error
   (before f05dd1f it had already installed the slot: Proofs/ManualHeapProofs.v, "HISTORICAL") *)
Theorem C09_alloc_overflow_clean : forall s n,
  USIZE <= bytes s + n * VALUE_SIZE -> mh_step s (MAlloc n) = (s, RErr EInvalidSize).
Proof. intros s n H. apply nofit_step. cbn [mh_fits]. lia. Qed.

(* a handle that denotes no live buffer is rejected by every access, with the kind telling stale
   (UseAfterFree / DoubleFree) from never issued (InvalidHandle), and nothing changes *)
Theorem C09_stale_handle_rejected : forall s h,
  abs s h = None ->
  (forall off, mh_load s h off = dead_err s h EUseAfterFree)
  /\ (forall off v, mh_store s h off v = (s, dead_err s h EUseAfterFree))
  /\ mh_size s h = dead_err s h EUseAfterFree
  /\ mh_free s h = (s, dead_err s h EDoubleFree).
Proof. exact stale_handle_rejected_lemma. Qed.

Theorem C09_free_makes_stale : forall s h s',
  Inv s -> mh_free s h = (s', ROkUnit) -> abs s' h = None /\ h < N.of_nat (length (allocs s')).
Proof. exact free_makes_stale. Qed.

(* ... and stays dead until an allocation hands that very handle out again *)
Theorem C09_stale_stays_stale : forall s o h,
  Inv s -> abs s h = None -> snd (mh_step s o) <> ROkHandle h ->
  abs (fst (mh_step s o)) h = None.
Proof. exact stale_stays_stale_u. Qed.

(* use-after-free and double free as explicit outcomes, for ALL histories: after any history from the
   empty heap a handle the abstract map does not hold is rejected by every access -- UseAfterFree /
   DoubleFree when it was ever issued, InvalidHandle when it never was -- and nothing changes *)
Theorem C09_dead_handle_all_histories : forall os h,
  let s := mh_exec mh_empty os in
  let sp := fst (spec_run sp_empty os (snd (mh_run mh_empty os))) in
  sm_get (live sp) h = None ->
  let k1 := if mem_N h (issued sp) then EUseAfterFree else EInvalidHandle in
  let k2 := if mem_N h (issued sp) then EDoubleFree else EInvalidHandle in
  (forall off, mh_step s (MLoad h off) = (s, RErr k1))
  /\ (forall off v, mh_step s (MStore h off v) = (s, RErr k1))
  /\ mh_step s (MSize h) = (s, RErr k1)
  /\ mh_step s (MFree h) = (s, RErr k2).
Proof. exact dead_handle_all_histories. Qed.

(* fixed size: nothing but a free of that buffer changes its length, across any history *)
Theorem C09_size_fixed : forall s o h d,
  Inv s -> abs s h = Some d -> o <> MFree h ->
  exists d', abs (fst (mh_step s o)) h = Some d' /\ length d' = length d.
Proof. exact size_step_fixed. Qed.

Theorem C09_size_fixed_history : forall os s h d,
  Inv s -> abs s h = Some d -> Forall (fun o => o <> MFree h) os ->
  mh_size (mh_exec s os) h = ROkSize (N.of_nat (length d)).
Proof. exact size_history_fixed. Qed.

(* bounds: in range succeeds with the stored value, out of range is OutOfBounds and changes nothing *)
Theorem C09_bounds : forall s h d off,
  abs s h = Some d ->
  (off < N.of_nat (length d) -> exists v, nth_N d off = Some v /\ mh_load s h off = ROkVal v)
  /\ (N.of_nat (length d) <= off ->
      mh_load s h off = RErr EOutOfBounds /\ forall v, mh_store s h off v = (s, RErr EOutOfBounds)).
Proof. exact bounds_lemma. Qed.

(* accounting: after every history the charge is 8 bytes per slot of the live buffers of the
   abstract map ... *)
Theorem C09_accounting : forall os,
  bytes (mh_exec mh_empty os) = 8 * sm_total (live (fst (spec_run sp_empty os (snd (mh_run mh_empty os)))))
  /\ bytes (mh_exec mh_empty os) = 8 * live_total (allocs (mh_exec mh_empty os))
  /\ bytes (mh_exec mh_empty os) < USIZE.
Proof.
  intros os. destruct (mh_refines_history_lemma os mh_empty sp_empty inv_empty sim_empty) as [HI [_ HS]].
  rewrite (sim_total _ _ HS). split; [|split]; [exact (accounting_lemma _ HI)|exact (accounting_lemma _ HI)|exact (inv_lt _ HI)].
Qed.

(* ... and neither the saturating subtraction nor the unwrap_or(0) of free ever triggers *)
Theorem C09_no_saturation : forall s h d,
  Inv s -> abs s h = Some d ->
  8 * N.of_nat (length d) <= bytes s /\ 8 * N.of_nat (length d) < USIZE
  /\ bytes (fst (mh_free s h)) + 8 * N.of_nat (length d) = bytes s.
Proof. exact no_saturation_lemma. Qed.

Theorem C09_handle_reuse_lifo : forall s h s1 n,
  Inv s -> mh_free s h = (s1, ROkUnit) -> n <> 0 -> bytes s1 + n * VALUE_SIZE < USIZE ->
  snd (mh_alloc s1 n) = ROkHandle h.
Proof. exact handle_reuse_lifo_lemma. Qed.

(* the implementation never indexes its slot table out of range *)
Theorem C09_never_panics : forall s o, Inv s -> snd (mh_step s o) <> RPanic.
Proof. exact mh_never_panics_u. Qed.

(* ---- the program-facing surfaces, for every
   max_heap_bytes (a u64) and every value of the GC-heap term *)
Theorem C09_vm_refines : forall sf maxh gc s sp o,
  maxh < USIZE -> Inv s -> Sim s sp ->
  Inv (fst (vm_step sf maxh gc s o)) /\
  match vop_raw o with
  | Some m =>
      (vm_step sf maxh gc s o = (s, RErr EOutOfMemory))
      \/ (snd (spec_step sp m (snd (vm_step sf maxh gc s o))) = snd (vm_step sf maxh gc s o)
          /\ Sim (fst (vm_step sf maxh gc s o)) (fst (spec_step sp m (snd (vm_step sf maxh gc s o)))))
  | None => fst (vm_step sf maxh gc s o) = s
  end.
Proof. exact vm_refines_lemma. Qed.

(* ... and as a refinement over every history of surface operations from the empty heap, whatever the
   GC-heap term is at each step: [vspec_step] is the map-of-arrays specification extended by "operands
   that name no buffer are errors (or the surface's two documented no-ops) that change nothing" and
   "an allocation may be refused by the heap limit, changing nothing" *)
Theorem C09_vm_refines_history : forall sf maxh os,
  maxh < USIZE ->
  Inv (fst (vm_run sf maxh mh_empty os))
  /\ snd (vspec_run sf sp_empty os (snd (vm_run sf maxh mh_empty os))) = snd (vm_run sf maxh mh_empty os)
  /\ Sim (fst (vm_run sf maxh mh_empty os)) (fst (vspec_run sf sp_empty os (snd (vm_run sf maxh mh_empty os)))).
Proof. intros sf maxh os H. exact (vm_refines_history_lemma sf maxh os mh_empty sp_empty H inv_empty sim_empty). Qed.

Theorem C09_vm_history_invariant : forall sf maxh os,
  maxh < USIZE -> Inv (fst (vm_run sf maxh mh_empty os))
  /\ bytes (fst (vm_run sf maxh mh_empty os)) = 8 * live_total (allocs (fst (vm_run sf maxh mh_empty os))).
Proof.
  intros sf maxh os H. pose proof (vm_run_inv sf maxh os mh_empty H inv_empty) as HI.
  split; [exact HI|exact (accounting_lemma _ HI)].
Qed.

Theorem C09_vm_errors_change_nothing : forall sf maxh gc s o,
  maxh < USIZE -> Inv s -> is_err (snd (vm_step sf maxh gc s o)) = true -> fst (vm_step sf maxh gc s o) = s.
Proof. exact vm_errors_change_nothing_lemma. Qed.

(* negative, non-integer and zero-size operands are errors that change nothing.  [vm_silent] is
   exactly: free(null) on both surfaces (the documented no-op) and free(<negative int>) as opcode 29 *)
Theorem C09_vm_malformed_rejected : forall sf maxh gc s o,
  maxh < USIZE -> vop_raw o = None -> vm_silent sf o = false ->
  is_err (snd (vm_step sf maxh gc s o)) = true /\ fst (vm_step sf maxh gc s o) = s.
Proof. exact vm_malformed_rejected_lemma. Qed.

Theorem C09_vm_silent_characterised : forall sf o,
  vm_silent sf o = true <->
  (o = VFree ANull) \/ (sf = SOpcode /\ exists z, (z < 0)%Z /\ o = VFree (AInt z)).
Proof.
  intros sf o. split.
  - destruct sf, o as [a|a|h o|h o v]; cbn [vm_silent]; try discriminate; destruct a as [z| |]; try discriminate; auto.
    intro H. right. split; [reflexivity|]. exists z. split; [lia|reflexivity].
  - intros [->|[-> [z [Hz ->]]]]; [destruct sf; reflexivity|cbn [vm_silent]; lia].
Qed.

(* a non-integer operand of opcode 29 is a TypeError, as in the builtin (repaired in 19374fd) *)
Theorem C09_opcode_free_nonint_rejected : forall maxh gc s,
  vm_step SOpcode maxh gc s (VFree AOther) = (s, RErr ETypeError)
  /\ vm_step SBuiltin maxh gc s (VFree AOther) = (s, RErr ETypeError).
Proof. intros. split; reflexivity. Qed.

(* STILL OPEN (KF-C09-1, narrowed): opcode 29 ignores a NEGATIVE INT handle -- the access names no
   buffer, yet is not reported, while the builtin reports NegativeMemoryIndex.  The behaviour is pinned
   as intended by aelys/tests/memory_tests.rs::test_negative_handle_free, hence recorded, not repaired. *)
Theorem C09_opcode_free_negative_refuted :
  exists maxh gc s z, (z < 0)%Z /\ Inv s /\ vm_step SOpcode maxh gc s (VFree (AInt z)) = (s, ROkUnit)
                      /\ vm_step SBuiltin maxh gc s (VFree (AInt z)) = (s, RErr ENegativeIndex).
Proof. exists 1048576, 0, mh_empty, (-1)%Z. split; [reflexivity|]. split; [exact inv_empty|]. split; reflexivity. Qed.

(* The hand-written surface model IS the step driven by the operand-check tables that the translator
   regenerates from builtins.rs and memory.inc on every run (which operand, which check, in which
   order, which error): a changed guard, a swapped order or a different error kind in the source
   changes the table and breaks this theorem. *)
Theorem C09_vm_step_is_table_driven : forall sf maxh gc s o,
  vm_step_tab sf maxh gc s o = vm_step sf maxh gc s o.
Proof. exact vm_step_tab_eq. Qed.

(* LoadMemI / StoreMemI check their handle exactly as LoadMem / StoreMem do, and VM::manual_heap_error
   maps each of the five ManualHeapErrors to the RuntimeErrorKind of the same name *)
Theorem C09_source_tables : source_tables_ok = true.
Proof. exact source_tables_ok_lemma. Qed.

(* ============================================================================== Part II: std.bytes *)

(* Refinement of std.bytes (ALL 17 operations: alloc free size resize, the 36 sized readers/writers,
   copy fill clone equals from_string decode write_string find reverse swap) on the VM's resource
   table (first-free slot reuse) to a finite map handle -> byte array: same answer -- a freed,
   never-issued or negative handle and a second free are the error outcome --, abstraction commutes,
   every handle handed out is fresh.  No invariant is needed. *)
Theorem C09_bytes_refines : forall s m o,
  BSim s m ->
  snd (bspec_step m o (snd (b_step s o))) = snd (b_step s o)
  /\ BSim (fst (b_step s o)) (fst (bspec_step m o (snd (b_step s o)))).
Proof. exact b_refines_lemma. Qed.

Theorem C09_bytes_refines_history : forall os,
  snd (bspec_run [] os (snd (b_run bs_empty os))) = snd (b_run bs_empty os)
  /\ BSim (b_exec bs_empty os) (fst (bspec_run [] os (snd (b_run bs_empty os)))).
Proof. intro os. exact (b_refines_history_lemma os bs_empty [] bsim_empty). Qed.

(* the implementation never gives an answer the specification objects to *)
Theorem C09_bytes_never_bad : forall s o, snd (b_step s o) <> BBad.
Proof. exact b_step_not_bad. Qed.

(* The whole manual-memory state of a VM (manual heap + byte buffers) under arbitrarily interleaved
   operations refines the pair of maps, for every history from the empty state; the two halves
   never touch each other. *)
Theorem C09_mem_refines : forall st sp o,
  MemInv st -> MemSim st sp ->
  MemInv (fst (mem_step st o))
  /\ snd (memspec_step sp o (snd (mem_step st o))) = snd (mem_step st o)
  /\ MemSim (fst (mem_step st o)) (fst (memspec_step sp o (snd (mem_step st o)))).
Proof. exact mem_refines_lemma. Qed.

Theorem C09_mem_refines_history : forall os,
  MemInv (mem_exec mem_empty os)
  /\ snd (memspec_run memspec_empty os (snd (mem_run mem_empty os))) = snd (mem_run mem_empty os)
  /\ MemSim (mem_exec mem_empty os) (fst (memspec_run memspec_empty os (snd (mem_run mem_empty os)))).
Proof. intro os. exact (mem_refines_history_lemma os mem_empty memspec_empty (proj1 mem_empty_ok) (proj2 mem_empty_ok)). Qed.

(* the counter behind bytes_allocated() for the whole state: 8 bytes per live manual slot plus, since
   0d876af, one byte per byte of every live byte buffer; an operation that fails leaves it unchanged *)
Theorem C09_mem_accounting : forall st,
  MemInv st -> mem_charged st = 8 * live_total (allocs (fst st)) + btotal (snd st).
Proof. exact mem_accounting_lemma. Qed.

Theorem C09_mem_error_keeps_charge : forall st o,
  MemInv st ->
  (match snd (mem_step st o) with ResM r => is_err r = true | ResB r => r = BErr end) ->
  mem_charged (fst (mem_step st o)) = mem_charged st.
Proof. exact mem_error_keeps_charge. Qed.

(* neither half touches the other's buffers (they only share the counter [mem_charged]) *)
Theorem C09_mem_independent : forall st o,
  (forall m, o = OpM m -> snd (fst (mem_step st o)) = snd st)
  /\ (forall b, o = OpB b -> fst (fst (mem_step st o)) = fst st).
Proof. exact mem_independent. Qed.

(* what was written is read back also after any later history that does not write that buffer *)
Theorem C09_rw_roundtrip_history : forall s w sg be h off v s1 os,
  b_step s (BWrite w sg be h off v) = (s1, BOkUnit) ->
  Forall (fun o => bop_writes o <> Some h) os ->
  snd (b_step (b_exec s1 os) (BRead w (if sg then 1 else 0) be h off)) = BOkWord (v_int v).
Proof. exact rw_roundtrip_history_lemma. Qed.

(* only resize and free change the length of a byte buffer *)
Theorem C09_bytes_size_fixed : forall s o k d,
  get_buf s k = Some d ->
  (forall n, o <> BResize (Z.of_N k) n) -> o <> BFree (AInt (Z.of_N k)) ->
  exists d', get_buf (fst (b_step s o)) k = Some d' /\ length d' = length d.
Proof. exact b_size_fixed_lemma. Qed.

(* write then read, every width / signedness / byte order of the table extracted from bytes.rs:
   the reader of the same shape returns Value::int(v) for every accepted v ... *)
Theorem C09_rw_roundtrip : forall s w sg be h off v s',
  b_step s (BWrite w sg be h off v) = (s', BOkUnit) ->
  b_step s' (BRead w (if sg then 1 else 0) be h off) = (s', BOkWord (v_int v)).
Proof. exact rw_roundtrip_lemma. Qed.

(* ... which is the int v itself for every int a Value can hold (48-bit) *)
Theorem C09_rw_roundtrip_int : forall s w sg be h off v s',
  in48 v -> b_step s (BWrite w sg be h off v) = (s', BOkUnit) ->
  exists r, b_step s' (BRead w (if sg then 1 else 0) be h off) = (s', BOkWord r) /\ as_int r = Some v.
Proof. exact rw_roundtrip_int_lemma. Qed.

(* the table itself: all 14 integer writers have width 1/2/4/8, a matching reader, and accept
   exactly the representable range (i64 for the 8-byte ones) *)
Theorem C09_writer_table : forallb row_ok bytes_int_writers = true.
Proof. exact writers_table_ok. Qed.

Theorem C09_f64_roundtrip : forall s be h off bits s',
  bits < W64 -> b_step s (BWriteF 8 be h off bits) = (s', BOkUnit) ->
  b_step s' (BRead 8 2 be h off) = (s', BOkWord (v_float bits))
  /\ (is_nan_bits bits = false -> v_float bits = bits).
Proof. exact f64_roundtrip_lemma. Qed.

(* f32: read_f32 after write_f32 yields the operand rounded to f32 (nearest even) and widened back *)
Theorem C09_f32_roundtrip : forall s be h off bits s',
  b_step s (BWriteF 4 be h off bits) = (s', BOkUnit) -> f64_to_f32 bits < 4294967296 ->
  b_step s' (BRead 4 2 be h off) = (s', BOkWord (v_float (f32_to_f64 (f64_to_f32 bits)))).
Proof. exact f32_roundtrip_lemma. Qed.

(* offset + width past the end: error, nothing changes -- for every accessor and width *)
Theorem C09_width_straddle_rejected : forall s h off d w,
  (0 <= h)%Z -> (0 <= off)%Z -> get_buf s (Z.to_N h) = Some d -> N.of_nat (length d) < Z.to_N off + w ->
  (forall k be, b_step s (BRead w k be h off) = (s, BErr))
  /\ (forall sg be v, b_step s (BWrite w sg be h off v) = (s, BErr))
  /\ (forall be bits, b_step s (BWriteF w be h off bits) = (s, BErr)).
Proof. exact width_straddle_rejected_lemma. Qed.

Theorem C09_span_straddle_rejected : forall s h off len d v,
  (0 <= h)%Z -> (0 <= off)%Z -> (0 < len)%Z -> get_buf s (Z.to_N h) = Some d ->
  N.of_nat (length d) < Z.to_N off + Z.to_N len ->
  b_step s (BFill h off len v) = (s, BErr)
  /\ (forall dh doff, b_step s (BCopy h off dh doff len) = (s, BErr))
  /\ (forall sh so, snd (b_step s (BCopy sh so h off len)) = BErr).
Proof. exact span_straddle_rejected_lemma. Qed.

Theorem C09_bytes_errors_change_nothing : forall s o, snd (b_step s o) = BErr -> fst (b_step s o) = s.
Proof. exact b_errors_change_nothing_lemma. Qed.

(* no operation changes a buffer it does not name as its destination; in particular an allocation
   (first-free slot reuse) never lands on a live handle *)
Theorem C09_bytes_isolation : forall s o k d,
  get_buf s k = Some d -> bop_writes o <> Some (Z.of_N k) -> get_buf (fst (b_step s o)) k = Some d.
Proof. exact b_isolation_lemma. Qed.

Theorem C09_bytes_alloc_fresh : forall s n s' h,
  b_step s (BAlloc n) = (s', BOkInt h) ->
  (0 <= h)%Z /\ get_buf s (Z.to_N h) = None /\ get_buf s' (Z.to_N h) = Some (repeat 0 (Z.to_nat n))
  /\ (0 < n)%Z /\ Z.to_N n <= MAX_ALLOC.
Proof. exact b_alloc_fresh_lemma. Qed.

(* negative, freed and never-issued handles are rejected by every operation that touches a byte *)
Theorem C09_bytes_dead_handle_rejected : forall s h,
  ((h < 0)%Z \/ get_buf s (Z.to_N h) = None) ->
  b_step s (BFree (AInt h)) = (s, BErr) /\ b_step s (BSize h) = (s, BErr)
  /\ (forall n, b_step s (BResize h n) = (s, BErr))
  /\ (forall w k be off, b_step s (BRead w k be h off) = (s, BErr))
  /\ (forall w sg be off v, b_step s (BWrite w sg be h off v) = (s, BErr))
  /\ (forall w be off bits, b_step s (BWriteF w be h off bits) = (s, BErr))
  /\ (forall off len v, (len <> 0)%Z -> b_step s (BFill h off len v) = (s, BErr))
  /\ (forall so dh doff len, (len <> 0)%Z -> b_step s (BCopy h so dh doff len) = (s, BErr))
  /\ (forall sh so doff len, (len <> 0)%Z -> b_step s (BCopy sh so h doff len) = (s, BErr))
  /\ b_step s (BClone h) = (s, BErr)
  /\ (forall g, b_step s (BEquals h g) = (s, BErr) /\ b_step s (BEquals g h) = (s, BErr))
  /\ (forall off len, b_step s (BDecode h off len) = (s, BErr))
  /\ (forall off bs, b_step s (BWriteString h off bs) = (s, BErr))
  /\ (forall st sp nd, b_step s (BFind h st sp nd) = (s, BErr))
  /\ (forall off len, (len <> 0)%Z -> b_step s (BReverse h off len) = (s, BErr))
  /\ (forall i j, b_step s (BSwap h i j) = (s, BErr)).
Proof. exact b_dead_handle_rejected_lemma. Qed.

(* closing a byte-buffer handle through another module (fs.close, net.close) does not touch the buffer
   (before a4f58c0 both took the resource out of the table before looking at its kind) *)
Theorem C09_foreign_close_harmless : forall s h,
  b_step s (BFsClose h) = (s, BErr) /\ fst (b_step s (BNetClose h)) = s.
Proof. exact foreign_close_harmless_lemma. Qed.

(* negative offsets, lengths, indices and sizes are errors that change nothing, for every operation *)
Theorem C09_bytes_negative_operand_rejected : forall s h,
  (forall w k be off, (off < 0)%Z -> b_step s (BRead w k be h off) = (s, BErr))
  /\ (forall w sg be off v, (off < 0)%Z -> b_step s (BWrite w sg be h off v) = (s, BErr))
  /\ (forall w be off bits, (off < 0)%Z -> b_step s (BWriteF w be h off bits) = (s, BErr))
  /\ (forall off len v, (off < 0 \/ len < 0)%Z -> b_step s (BFill h off len v) = (s, BErr))
  /\ (forall so dh doff len, (so < 0 \/ doff < 0 \/ len < 0)%Z -> b_step s (BCopy h so dh doff len) = (s, BErr))
  /\ (forall off len, (off < 0 \/ len < 0)%Z -> b_step s (BDecode h off len) = (s, BErr))
  /\ (forall off bs, (off < 0)%Z -> b_step s (BWriteString h off bs) = (s, BErr))
  /\ (forall st sp nd, (st < 0)%Z -> b_step s (BFind h st sp nd) = (s, BErr))
  /\ (forall off len, (off < 0 \/ len < 0)%Z -> b_step s (BReverse h off len) = (s, BErr))
  /\ (forall i j, (i < 0 \/ j < 0)%Z -> b_step s (BSwap h i j) = (s, BErr))
  /\ (forall n, (n <= 0)%Z -> b_step s (BAlloc n) = (s, BErr) /\ b_step s (BResize h n) = (s, BErr)).
Proof. exact b_negative_operand_rejected_lemma. Qed.

Theorem C09_bytes_free_makes_stale : forall s h s',
  b_step s (BFree (AInt h)) = (s', BOkUnit) -> get_buf s' (Z.to_N h) = None.
Proof. exact b_free_makes_stale_lemma. Qed.

(* a write changes exactly the bytes of its span *)
Theorem C09_write_frame : forall s h off bs s',
  write_at s h off bs = (s', BOkUnit) ->
  exists d d', get_buf s (Z.to_N h) = Some d /\ get_buf s' (Z.to_N h) = Some d' /\ length d' = length d
    /\ (forall i, (i < N.to_nat (Z.to_N off) \/ N.to_nat (Z.to_N off) + length bs <= i)%nat -> nth_error d' i = nth_error d i)
    /\ (forall i, (i < length bs)%nat -> nth_error d' (N.to_nat (Z.to_N off) + i) = nth_error bs i).
Proof. exact write_frame_lemma. Qed.

(* copy is memmove: the destination span receives the source bytes as they were BEFORE the copy,
   also when source and destination are the same buffer and overlap; the rest is untouched *)
Theorem C09_copy_spec : forall s sh so dh doff len s',
  (0 < len)%Z -> b_step s (BCopy sh so dh doff len) = (s', BOkUnit) ->
  exists src dst dst',
    get_buf s (Z.to_N sh) = Some src /\ get_buf s (Z.to_N dh) = Some dst /\ get_buf s' (Z.to_N dh) = Some dst'
    /\ length dst' = length dst
    /\ (forall i, (i < Z.to_nat len)%nat -> nth_error dst' (Z.to_nat doff + i) = nth_error src (Z.to_nat so + i))
    /\ (forall j, (j < Z.to_nat doff \/ Z.to_nat doff + Z.to_nat len <= j)%nat -> nth_error dst' j = nth_error dst j).
Proof. exact copy_spec_lemma. Qed.

Theorem C09_fill_spec : forall s h off len v s',
  (0 < len)%Z -> b_step s (BFill h off len v) = (s', BOkUnit) ->
  exists d d', get_buf s (Z.to_N h) = Some d /\ get_buf s' (Z.to_N h) = Some d' /\ length d' = length d
    /\ (forall i, (i < Z.to_nat len)%nat -> nth_error d' (Z.to_nat off + i) = Some (Z.to_N v))
    /\ (forall j, (j < Z.to_nat off \/ Z.to_nat off + Z.to_nat len <= j)%nat -> nth_error d' j = nth_error d j).
Proof. exact fill_spec_lemma. Qed.

(* ============================================================================== non-vacuity *)
(* three interleaved buffers, frees, LIFO reuse, stale and never-issued handles, out-of-bounds *)
Definition demo : list mop :=
  [MAlloc 2; MAlloc 3; MStore 0 1 7; MAlloc 1; MStore 1 2 9; MStore 2 0 5; MFree 0; MLoad 1 2;
   MLoad 0 1; MFree 0; MLoad 7 0; MStore 1 3 1; MAlloc 4; MLoad 0 1; MLoad 2 0; MFree 1; MFree 2; MAlloc 1].

Example C09_nonvacuous_history :
  snd (mh_run mh_empty demo) =
     [ROkHandle 0; ROkHandle 1; ROkUnit; ROkHandle 2; ROkUnit; ROkUnit; ROkUnit; ROkVal 9;
      RErr EUseAfterFree; RErr EDoubleFree; RErr EInvalidHandle; RErr EOutOfBounds; ROkHandle 0; ROkVal VNULL;
      ROkVal 5; ROkUnit; ROkUnit; ROkHandle 2]
  /\ bytes (mh_exec mh_empty demo) = 40
  /\ free_list (mh_exec mh_empty demo) = [1].
Proof. vm_compute. repeat split; reflexivity. Qed.

Example C09_nonvacuous_bytes :
  snd (b_run bs_empty
         [BAlloc 8; BAlloc 4; BWrite 4 false true 0 2 3735928559; BRead 4 0 true 0 2; BRead 2 0 false 0 2;
          BWrite 2 true false 1 3 (-2); BWrite 2 true false 1 2 (-2); BRead 2 1 false 1 2;
          BFill 0 0 3 255; BCopy 0 1 0 2 5; BRead 1 0 false 0 6; BFree (AInt 0); BRead 1 0 false 0 0; BAlloc 2;
          BFromString [104; 105; 33]; BClone 2; BEquals 2 3; BSwap 3 0 2; BEquals 2 3; BDecode 3 0 3; BReverse 3 0 3;
          BFind 3 0 (-1) 33; BWriteString 3 1 [195; 169]; BDecode 3 0 3; BDecode 3 0 2; BFree (AInt 2); BClone 2])
  = [BOkInt 0; BOkInt 1; BOkUnit; BOkWord (v_int 3735928559); BOkWord (v_int 44510); BErr; BOkUnit;
     BOkWord (v_int (-2)); BOkUnit; BOkUnit; BOkWord (v_int 239); BOkUnit; BErr; BOkInt 0;
     BOkInt 2; BOkInt 3; BOkWord (v_bool true); BOkUnit; BOkWord (v_bool false); BOkStr [33; 105; 104]; BOkUnit;
     BOkInt 2; BOkInt 2; BOkStr [104; 195; 169]; BErr; BOkUnit; BErr].
Proof. vm_compute. reflexivity. Qed.
