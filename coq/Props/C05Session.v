(* C05 -- A call always runs the function its callee currently denotes: whole programs and sessions.
   Property theorems only; proofs live in Proofs/SessionCacheProofs.v (and Proofs/SessionProofs.v).

   Props/C05.v is about the cache protocol over flat histories of events (one layout, no arities, with
   freeing and reuse of heap indices).  Here the SAME protocol (sites rewritten 77 -> 78 / 104, the VM-wide
   call_site_cache with colliding slot ids, cleared by every global write, entries carrying owner / arity /
   layout / code) runs inside the machine of Model/Session.v: callee values are read from the by-index
   vector of the layout that is LOADED, layouts are switched at calls and returns (snapshot cache), arities
   are checked (on the fast path: the arity stored in the entry), frames are pushed up to MAX_FRAMES and
   unwound on errors, programs are arbitrary code (nested calls, calls of function-valued arguments,
   redefinition and rebinding at any point), sessions are REPL inputs, module imports and host calls.

   Assumed of the inputs: slot ids fit the cache table (the VM rejects larger ones), layouts have pairwise
   distinct names, export aliases ([wf_step]).  Not modelled here: freeing / reuse of heap indices
   (Props/C05.v), closures and calls through upvalues, tail calls. *)
From Aelys Require Import Base.Tactics Extracted.CallCacheConsts Extracted.ReplShape
  Model.Session Model.SessionCache Proofs.SessionProofs Proofs.SessionCacheProofs.
Local Open Scope N_scope.

(* the caches change nothing: whatever the slot assignment (collisions included) and whichever sites were
   compiled as native calls, running any code in any machine state with sound cache entries gives the
   state, the output and the status of the machine that resolves every call through the heap *)
Theorem caches_do_not_change_any_run : forall C slot_of native_hint,
  (forall o k, slot_of o k < MAX_CALL_SITE_SLOTS) ->
  forall fuel o Lf arg st cs body, cache_ok C (m_heap st) cs ->
  agrees C (exec_c C slot_of native_hint fuel o Lf arg st cs body) (exec_m C fuel Lf arg st body).
Proof. exact exec_c_m. Qed.

(* ... nor any session (REPL inputs, imports, host calls), from any state *)
Theorem caches_do_not_change_any_session : forall C slot_of native_hint,
  (forall o k, slot_of o k < MAX_CALL_SITE_SLOTS) ->
  forall fuel steps cd, cd_ok C cd ->
  msession_c C slot_of native_hint fuel cd steps = msession C fuel (cd_d cd) steps.
Proof. exact msession_c_m. Qed.

(* C05 for whole sessions: with the caches, every call of every specified session runs the function the
   callee's NAME denotes in the by-name store at that moment -- through the loaded index vector, the
   snapshots, the layout switches and the caches -- with that function's arity checked *)
Theorem every_call_runs_what_its_name_denotes : forall C slot_of native_hint,
  (forall o k, slot_of o k < MAX_CALL_SITE_SLOTS) ->
  forall fuel steps obs,
  wf_codeb C = true -> forallb wf_step steps = true ->
  xsession C fuel xinit steps = Some obs ->
  msession_c C slot_of native_hint fuel cdinit steps = obs.
Proof. exact cached_session_refines. Qed.

(* whatever form a site has and whatever the cache holds, the callee a global call dispatches to is what
   the global's current value denotes in the heap *)
Theorem dispatch_runs_current_value : forall C slot_of native_hint,
  (forall o k, slot_of o k < MAX_CALL_SITE_SLOTS) ->
  forall st cs o k v, cache_ok C (m_heap st) cs ->
  snd (dispatch C slot_of native_hint st cs o k v) = target_of C st v /\
  cache_ok C (m_heap st) (fst (dispatch C slot_of native_hint st cs o k v)).
Proof. exact dispatch_ok. Qed.

(* non-vacuity: a session in which the fast path of 78 is taken three times, two functions share a slot,
   a callee is rebound (f = h) after its call site was specialised, a later unit reuses the slot ids,
   and a host call has the wrong arity *)
Example cache_session_example :
  wf_codeb cx_code = true /\ forallb wf_step cx_session = true /\
  msession_c cx_code cx_slot cx_hint 100 cdinit cx_session =
    [([1; 1; 2; 1; 2], SOk); ([2; 2], SOk); ([2], SOk); ([], SErr)]%Z /\
  xsession cx_code 100 xinit cx_session =
    Some [([1; 1; 2; 1; 2], SOk); ([2; 2], SOk); ([2], SOk); ([], SErr)]%Z /\
  c_hits (cd_cs cx_final) = 3 /\
  site_lookup (CFn 12) 0 (c_sites (cd_cs cx_final)) = Some (Mono 2).
Proof. exact cx_facts. Qed.
