(* C19 -- Modules initialise once, cycles are reported, only pub names leak.
   Property theorems only; the loader model is Model/Modules.v, the property's vocabulary
   (import graph, reachability, post-order, granted names, guards) Model/ModulesSpec.v, proofs
   Proofs/ModulesProofs.v.  `run fs entry fuel` is load_modules_for_program + the entry's top
   level; its result lists, oldest first, every top level that ran (ev_file) with what it could
   name.  Guards: keys_ok = every dotted import path names one file and every file has one dotted
   path, no `needs mod.symbol` fallback (decidable; implied by flat = one directory). *)
From Aelys Require Import Base.Tactics Model.Modules Model.ModulesSpec Proofs.ModulesProofs.
Local Open Scope N_scope.

(* the DFS never runs out of fuel: any tree (nested directories, colliding keys, cycles of any
   length), fuel = number of dotted paths written in the tree + 2 *)
Theorem C19_no_divergence : forall fs entry fuel,
  (fuel >= fuel_bound fs)%nat -> run fs entry fuel <> Fuel.
Proof. exact no_divergence_lemma. Qed.

(* exactly once, exactly the reachable files, dependencies first, entry last *)
Theorem C19_init_once : forall fs entry fuel evs,
  keys_ok fs = true -> run fs entry fuel = Ok evs ->
  let tr := map ev_file evs in
  NoDup tr /\ (forall f, In f tr <-> reachable fs entry f) /\ postorder fs tr /\ (exists l, tr = l ++ [entry]).
Proof. exact init_once_lemma. Qed.

Theorem C19_init_once_flat : forall fs entry fuel evs,
  flat fs = true -> run fs entry fuel = Ok evs ->
  let tr := map ev_file evs in
  NoDup tr /\ (forall f, In f tr <-> reachable fs entry f) /\ postorder fs tr /\ (exists l, tr = l ++ [entry]).
Proof. exact init_once_flat_lemma. Qed.

(* a reachable cycle of any length is an error, never a completed run and never out of fuel *)
Theorem C19_cycle_reported : forall fs entry fuel f,
  keys_ok fs = true -> (fuel >= fuel_bound fs)%nat ->
  reachable fs entry f -> path_plus fs f f -> exists e tr, run fs entry fuel = Err e tr.
Proof. exact cycle_reported_lemma. Qed.

Theorem C19_cycle_reported_flat : forall fs entry fuel f,
  flat fs = true -> (fuel >= fuel_bound fs)%nat ->
  reachable fs entry f -> path_plus fs f f -> exists e tr, run fs entry fuel = Err e tr.
Proof. exact cycle_reported_flat_lemma. Qed.

(* ... and it is the circular-dependency error (or the entry's symbol conflict, raised before the
   cyclic import is reached) when nothing else is wrong with the tree: every import of a reachable
   file resolves and selects pub symbols only (clean; clean_b is a decidable sufficient check) *)
Theorem C19_cycle_circular : forall fs entry fuel f,
  keys_ok fs = true -> clean fs entry -> (fuel >= fuel_bound fs)%nat ->
  reachable fs entry f -> path_plus fs f f ->
  exists tr, run fs entry fuel = Err ECircular tr \/ run fs entry fuel = Err ESymbolConflict tr.
Proof. exact cycle_circular_lemma. Qed.

Theorem C19_clean_decidable : forall fs entry, clean_b fs = true -> clean fs entry.
Proof. exact clean_b_sound. Qed.

(* names: for every top level that ran, the compile-time name sets (module qualifiers, bare
   globals) are exactly its own definitions plus what its imports grant -- pub names only, under
   the spelling of the import form.  Entry file: granted_bare (all selected symbols).  Non-entry
   modules: granted_bare_nested (first selected symbol only, KF-C19-6), which coincides with
   granted_bare when each `needs .. from ..` selects one symbol (C19_nested_grants_single). *)
Theorem C19_visibility_compile_time : forall fs entry fuel evs me,
  keys_ok fs = true -> run fs entry fuel = Ok evs -> find_file fs entry = Some me ->
  exists evs0 ev, evs = evs0 ++ [ev] /\ ev_file ev = entry /\ ev_key ev = [] /\
    (forall e, In e evs0 -> ev_ok_mod fs e) /\
    (no_std_imports me -> nonempty_symbols me -> entry_names_ok fs entry me ev).
Proof. exact visibility_lemma. Qed.

Theorem C19_nested_grants_single : forall fs f m j, single_symbols m -> In j (m_imports m) ->
  granted_bare_nested fs f j = granted_bare fs f j.
Proof. exact nested_eq_single. Qed.

(* ---- the full statements are false of the loader; concrete witnesses (all replayed against the
        real loader from corpus/C19/) *)

(* two files, one dotted key: the second is never initialised and its importer reads the first's names *)
Theorem C19_key_collision_refuted : exists fs E evs ev,
  run fs E (fuel_bound fs) = Ok evs /\
  reachable fs E [21;12] /\ ~ In [21;12] (map ev_file evs) /\
  In ev evs /\ ev_file ev = [21;11] /\
  target fs [21;11] (imp [12] FModule) = Some [21;12] /\
  probe ev (SQual 12 40) = Some ([20;12], 40) /\ probe ev (SQual 12 41) = Some ([20;12], 41) /\
  probe ev (SQual 12 42) = None.
Proof. exact key_collision_refuted_lemma. Qed.

(* one file, two dotted keys: initialised twice *)
Theorem C19_one_file_two_keys_refuted : exists fs E evs,
  run fs E (fuel_bound fs) = Ok evs /\ map ev_file evs = [[20;10]; [20;10]; [20;11]; [9]] /\
  target fs E (imp [20;10] (FAlias 70)) = Some [20;10] /\ target fs [20;11] (imp [10] FModule) = Some [20;10].
Proof. exact one_file_two_keys_refuted_lemma. Qed.

(* one directory, keys fine: a private global of module 11 is handed to 12 as module 10's pub name *)
Theorem C19_flat_namespace_collision_refuted : exists fs E evs ev,
  flat fs = true /\ keys_ok fs = true /\ run fs E (fuel_bound fs) = Ok evs /\
  In ev evs /\ ev_file ev = [12] /\ target fs [12] (imp [10] (FAlias 73)) = Some [10] /\
  find_file fs [11] = Some (M [] [D 40 false; D 45 true]) /\
  probe ev (SQual 73 40) = Some ([11], 40).
Proof. exact flat_namespace_collision_refuted_lemma. Qed.

(* without the guard a reachable cycle (written `needs mod.symbol`) completes *)
Theorem C19_cycle_reported_refuted : exists fs E evs,
  flat fs = false /\ keys_ok fs = false /\
  reachable fs E [10] /\ path_plus fs [10] [10] /\ run fs E (fuel_bound fs) = Ok evs /\
  map ev_file evs = [[11]; [10]; [9]].
Proof. exact cycle_reported_refuted_lemma. Qed.

(* a private name becomes usable *)
Theorem C19_private_leak_refuted : exists fs E evs ev m,
  run fs E (fuel_bound fs) = Ok evs /\ In ev evs /\ ev_file ev = E /\
  find_file fs [10] = Some m /\ ~ In 42 (pub_names m) /\ probe ev (SBare 42) = Some ([10], 42).
Proof. exact private_leak_refuted_lemma. Qed.

(* a granted pub name is not usable: second selected symbol inside a module *)
Theorem C19_nested_second_symbol_refuted : exists fs E evs ev ev',
  flat fs = true /\ keys_ok fs = true /\ unique_defs fs = true /\
  run fs E (fuel_bound fs) = Ok evs /\
  In ev evs /\ ev_file ev = E /\ probe ev (SBare 42) = Some ([10], 42) /\
  In ev' evs /\ ev_file ev' = [11] /\ In 42 (granted_bare fs [11] (imp [10] (FSymbols [40;42]))) /\
  probe ev' (SBare 40) = Some ([10], 40) /\ probe ev' (SBare 42) = None.
Proof. exact nested_second_symbol_refuted_lemma. Qed.

(* a spelling no import form grants is accepted *)
Theorem C19_qualifier_dropped_refuted : exists fs E evs ev,
  flat fs = true /\ keys_ok fs = true /\ unique_defs fs = true /\
  run fs E (fuel_bound fs) = Ok evs /\ In ev evs /\ ev_file ev = E /\
  (forall i, In i [imp [10] (FSymbols [40])] -> granted_qualifier i = None) /\
  probe ev (SQual 10 40) = Some ([10], 40) /\ probe ev (SQual 99 40) = Some ([10], 40).
Proof. exact qualifier_dropped_refuted_lemma. Qed.

Theorem C19_shared_qualifier_refuted : exists fs E evs ev,
  flat fs = true /\ keys_ok fs = true /\ unique_defs fs = true /\
  run fs E (fuel_bound fs) = Ok evs /\ In ev evs /\ ev_file ev = [12] /\
  find_file fs [12] = Some (M [imp [10] (FAlias 70)] [D 46 true]) /\
  target fs [12] (imp [10] (FAlias 70)) = Some [10] /\
  probe ev (SQual 70 44) = Some ([11], 44).
Proof. exact shared_qualifier_refuted_lemma. Qed.

(* the guards (flat, keys_ok, clean_b) are satisfiable by non-trivial trees: a diamond with every
   import form runs in post-order; a cycle of length 6 behind a tail is CircularDependency *)
Example C19_nonvacuous :
  flat w_diamond = true /\ keys_ok w_diamond = true /\
  (exists evs, run w_diamond E9 (fuel_bound w_diamond) = Ok evs /\
               map ev_file evs = [[19]; [10]; [11]; [12]; [9]]) /\
  flat w_cycle6 = true /\ keys_ok w_cycle6 = true /\ clean_b w_cycle6 = true /\
  reachable w_cycle6 E9 [11] /\ path_plus w_cycle6 [11] [11] /\
  (exists tr, run w_cycle6 E9 (fuel_bound w_cycle6) = Err ECircular tr /\ map ev_file tr = [[19]]).
Proof. exact nonvacuous_lemma. Qed.
