(* C19 -- Modules initialise once, cycles are reported, only pub names leak.
   Property theorems only; the loader model is Model/Modules.v (the loader AFTER the repairs of
   KF-C19-1/-2/-4/-5/-6/-7: a module is the file an import resolves to), the property's vocabulary
   (meaning of an import, import graph, reachability, post-order, granted names) is
   Model/ModulesSpec.v, proofs Proofs/ModulesProofs.v.  `run fs entry fuel` is
   load_modules_for_program + the entry's top level; its result lists, oldest first, every top
   level that ran (ev_file) with what it could name.  The theorems hold for EVERY tree: nested
   directories, repeated file names, one file under several dotted paths, `needs mod.symbol`. *)
From Aelys Require Import Base.Tactics Extracted.ModulesTables Model.Modules Model.ModulesSpec Proofs.ModulesProofs.
Local Open Scope N_scope.

(* the DFS never runs out of fuel: fuel = number of files + 2 *)
Theorem C19_no_divergence : forall fs entry fuel,
  (fuel >= fuel_bound fs)%nat -> run fs entry fuel <> Fuel.
Proof. exact no_divergence_lemma. Qed.

(* exactly once, exactly the reachable files, dependencies first, entry last *)
Theorem C19_init_once : forall fs entry fuel evs,
  run fs entry fuel = Ok evs ->
  let tr := map ev_file evs in
  NoDup tr /\ (forall f, In f tr <-> reachable fs entry f) /\ postorder fs entry tr /\
  (exists l, tr = l ++ [entry]).
Proof. exact init_once_lemma. Qed.

(* ... and when the run ends in an error, what had run until then ran at most once, is reachable,
   and ran after its dependencies *)
Theorem C19_at_most_once_on_error : forall fs entry fuel e s,
  run fs entry fuel = Err e s ->
  let t := map ev_file (events s) in
  NoDup t /\ (forall f, In f t -> reachable fs entry f) /\ postorder fs entry t.
Proof. exact at_most_once_on_error_lemma. Qed.

(* REPL: over a whole session (any number of inputs, each importing whatever it likes under whatever
   spelling, SOME OF THEM FAILING: missing module, module that does not compile, module whose top
   level raises, private symbol, cycle, conflict) every module's top level runs to completion at most
   once, and no input makes the loader diverge.  mtrace_of = the module top levels that completed.
   (The invariant behind this is the program-independent part of the one used above; it is kept
   across inputs because the loader's memo lives as long as the session AND is handed back on the
   error path too -- memo_restored_on_error is read from driver/src/api/repl.rs by the translator --
   AND a module that did not complete is forgotten while the error unwinds, KF-C19-9/-10.) *)
Theorem C19_session_init_once : forall fs root fuel inputs,
  (fuel >= fuel_bound fs)%nat ->
  let rs := run_session fs root fuel inputs (session_start root) in
  (forall r, In r rs -> r <> Fuel) /\ NoDup (mtrace_of (session_events rs)).
Proof. exact session_init_once_lemma. Qed.

(* a reachable cycle of any length, however its imports are spelled, is an error: never a
   completed run and never out of fuel *)
Theorem C19_cycle_reported : forall fs entry fuel f,
  (fuel >= fuel_bound fs)%nat ->
  reachable fs entry f -> path_plus fs entry f f -> exists e tr, run fs entry fuel = Err e tr.
Proof. exact cycle_reported_lemma. Qed.

(* ... and it is the circular-dependency error (or the entry's symbol conflict, raised before the
   cyclic import is reached) when nothing else is wrong with the tree: every import of a reachable
   file resolves and selects pub symbols only (clean; clean_b is a decidable sufficient check) *)
Theorem C19_cycle_circular : forall fs entry fuel f,
  clean fs entry -> (fuel >= fuel_bound fs)%nat ->
  reachable fs entry f -> path_plus fs entry f f ->
  exists tr, run fs entry fuel = Err ECircular tr \/ run fs entry fuel = Err ESymbolConflict tr.
Proof. exact cycle_circular_lemma. Qed.

Theorem C19_clean_decidable : forall fs entry, clean_b fs (dir_of entry) = true -> clean fs entry.
Proof. exact clean_b_sound. Qed.

(* names: for every top level that ran (entry or module alike), the compile-time name sets are
   exactly its own definitions plus what its imports grant under the spelling of the import form
   (granted_qualifier / granted_bare), and every symbol it selects is pub in the module selected from *)
Theorem C19_visibility_compile_time : forall fs entry fuel evs,
  run fs entry fuel = Ok evs -> forall ev, In ev evs ->
  names_ok fs entry ev /\ selected_are_pub fs entry (ev_file ev).
Proof. exact visibility_lemma. Qed.

(* hence only pub names leak: a bare name known to a top level is its own definition or a
   definition MARKED pub in a module one of its imports means (which statements export, and under
   which guard, is taken from collect_exports by the translator) *)
Theorem C19_only_pub_names : forall fs entry fuel evs,
  run fs entry fuel = Ok evs -> forall ev m, In ev evs ->
  find_file fs (ev_file ev) = Some m -> no_std_imports m -> nonempty_symbols m ->
  forall n, In n (ev_known ev) ->
    In n (map d_name (m_defs m)) \/
    exists j g fm mg d, In j (m_imports m) /\ meaning fs (dir_of entry) (ev_file ev) j = Some (g, fm) /\
                        find_file fs g = Some mg /\ In d (m_defs mg) /\ d_name d = n /\ d_pub d = true.
Proof. exact known_are_pub_lemma. Qed.

Theorem C19_exports_are_pub : forall m n, In n (pub_names m) <->
  exists d, In d (m_defs m) /\ d_name d = n /\ d_pub d = true.
Proof. exact pub_names_pub. Qed.

(* a qualified spelling is accepted only for a qualifier an import grants *)
Theorem C19_qualifier_exact : forall ev q n, ~ In q (ev_aliases ev) -> probe ev (SQual q n) = None.
Proof. exact qualifier_exact_lemma. Qed.

(* values: a top level reads, under every spelling, exactly the definition the documented semantics
   grants -- "importers observe the values it produced" -- for names defined by one file and
   qualifiers that always denote one file (sp_guard; both are necessary: the two refutations below
   violate one each).  C19_value_guards_decidable: boolean sufficient checks for the guards. *)
Theorem C19_values_observed : forall fs entry fuel evs,
  run fs entry fuel = Ok evs -> forall ev, In ev evs -> values_ok fs entry ev.
Proof. exact values_lemma. Qed.

Theorem C19_value_guards_decidable : forall fs root,
  (unique_defs fs = true -> forall n, name_unique fs n) /\
  (quals_ok_b fs root = true -> forall q, qual_ok fs root q).
Proof. intros fs root. split; [apply unique_defs_sound | apply quals_ok_sound]. Qed.

(* ---- still false of the loader: the single VM namespace (open findings KF-C19-3, KF-C19-8).
        Which VALUE a granted spelling reads is therefore not what the exporting module produced. *)

(* a private global of module 11 is handed to 12 as module 10's pub name *)
Theorem C19_flat_namespace_collision_refuted : exists fs E evs ev,
  run fs E (fuel_bound fs) = Ok evs /\
  In ev evs /\ ev_file ev = [12] /\ meaning fs (dir_of E) [12] (imp [10] (FAlias 73)) = Some ([10], FAlias 73) /\
  find_file fs [11] = Some (M [] [D 40 false; D 45 true]) /\
  probe ev (SQual 73 40) = Some ([11], 40).
Proof. exact flat_namespace_collision_refuted_lemma. Qed.

(* 12 imported only 10 (as 70) and can name 11's pub 44 as 70.44 because 13 imported 11 as 70 *)
Theorem C19_shared_qualifier_refuted : exists fs E evs ev,
  unique_defs fs = true /\
  run fs E (fuel_bound fs) = Ok evs /\ In ev evs /\ ev_file ev = [12] /\
  find_file fs [12] = Some (M [imp [10] (FAlias 70)] [D 46 true]) /\
  meaning fs (dir_of E) [12] (imp [10] (FAlias 70)) = Some ([10], FAlias 70) /\
  probe ev (SQual 70 44) = Some ([11], 44).
Proof. exact shared_qualifier_refuted_lemma. Qed.

(* ---- the trees that refuted the property before the repairs, as regression examples *)
Example C19_repaired_examples :
  (exists evs ev, run w_collision E9 (fuel_bound w_collision) = Ok evs /\
     map ev_file evs = [[20;12]; [20;10]; [21;12]; [21;11]; [9]] /\ In ev evs /\ ev_file ev = [21;11] /\
     probe ev (SQual 12 40) = Some ([21;12], 40) /\ probe ev (SQual 12 42) = Some ([21;12], 42)) /\
  (exists evs, run w_twokeys E9 (fuel_bound w_twokeys) = Ok evs /\ map ev_file evs = [[20;10]; [20;11]; [9]]) /\
  (exists tr, run w_pscycle E9 (fuel_bound w_pscycle) = Err ECircular tr) /\
  (exists tr, run w_leak E9 (fuel_bound w_leak) = Err ESymbolNotFound tr) /\
  (exists evs ev, run w_second E9 (fuel_bound w_second) = Ok evs /\ In ev evs /\ ev_file ev = [11] /\
     probe ev (SBare 40) = Some ([10], 40) /\ probe ev (SBare 42) = Some ([10], 42)) /\
  (exists evs ev, run w_qual E9 (fuel_bound w_qual) = Ok evs /\ In ev evs /\ ev_file ev = E9 /\
     probe ev (SBare 40) = Some ([10], 40) /\ probe ev (SQual 10 40) = None /\ probe ev (SQual 99 40) = None).
Proof. exact repaired_examples_lemma. Qed.

(* the hypotheses are satisfiable by non-trivial trees: a diamond with every import form runs in
   post-order; a cycle of length 6 behind a tail is CircularDependency; both are clean *)
Example C19_nonvacuous :
  clean_b w_diamond [] = true /\ unique_defs w_diamond = true /\ quals_ok_b w_diamond [] = true /\
  (exists evs, run w_diamond E9 (fuel_bound w_diamond) = Ok evs /\
               map ev_file evs = [[19]; [10]; [11]; [12]; [9]]) /\
  clean_b w_cycle6 [] = true /\
  reachable w_cycle6 E9 [11] /\ path_plus w_cycle6 E9 [11] [11] /\
  (exists tr, run w_cycle6 E9 (fuel_bound w_cycle6) = Err ECircular tr /\ map ev_file (events tr) = [[19]]).
Proof. exact nonvacuous_lemma. Qed.
