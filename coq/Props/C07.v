(* C07 -- No input can crash the toolchain.
   Property theorems only; proofs live in Proofs/AvbcBounds.v.

   These theorems carry only a part of the property, and only for the .avbc reader
   (bytecode/src/asm/binary.rs as modelled in Model/Avbc.v):
     * "does not run away allocating memory that the input did not ask for by its own size":
       the sum of all capacities the reader requests is at most 80 MB + 16 bytes per input
       byte, and no single request exceeds 8 MB -- with the numbers written here, so that
       removing or inflating a MAX_* limit in the source breaks the proof;
     * every count is guarded before the allocation it sizes; recursion depth is bounded.
   That the Rust reader, lexer, parser, type inference, optimiser, AIR lowering, code
   generator, verifier and VM never panic / overflow the native stack / hang is NOT proved
   (in Gallina every function is total, so a totality theorem would be vacuous): it is explored
   by the fuzz tie (hx_fuzz in process under catch_unwind on an 8 MiB stack, and the real CLI
   in a child process), and the accept / reject classification of .avbc inputs is compared
   with this model's `read` on every run. *)
From Aelys Require Import Base.Tactics Extracted.ValueConsts Extracted.AvbcLayout
  Model.Value Model.Avbc Proofs.AvbcProofs Proofs.AvbcBounds Model.AasmLex Proofs.AasmLexProofs Model.AasmTree Proofs.AasmTreeProofs.
Local Open Scope N_scope.

(* total capacity requested (Vec::with_capacity and vec![0; n], in bytes, with the nominal
   element sizes of Model/Avbc.v) <= c0 + c1 * |input| for EVERY byte string *)
Theorem C07_read_alloc_bounded : forall (dbg : bool) (bs : list N),
  read_alloc dbg bs <= 80000000 + 16 * lenN bs.
Proof. exact read_alloc_bounded_lemma. Qed.

(* no single request is larger than the largest limit allows (4 bytes x 1 000 000 words,
   8 bytes x 1 000 000 line entries): an oversize count never reaches the allocator *)
Theorem C07_read_request_bounded : forall (dbg : bool) (bs : list N),
  read_max_request dbg bs <= 8000000.
Proof. exact read_request_bounded_lemma. Qed.

(* each count above its limit => Err before anything is requested for it *)
Theorem C07_read_rejects_oversize : forall (B : Type) (n lim w : N) (K : M B) (s : st),
  lim < n -> bind (check_limit n lim w) (fun _ => K) s = Err (ELimit w) (s_alloc s) (s_max s).
Proof. exact @oversize_rejected_lemma. Qed.

(* recursion: the depth guard is the first thing read_function does ... *)
Theorem C07_depth_guard : forall (dbg : bool) (fuel : nat) (d : N) (s : st),
  LIM_DEPTH < d -> rd_func dbg (S fuel) d s = Err (ELimit 0) (s_alloc s) (s_max s).
Proof. exact depth_guard_lemma. Qed.

(* ... so whatever is accepted nests at most MAX_NESTING_DEPTH = 64 deep (65 frames) ... *)
Theorem C07_nesting_bounded : forall (dbg : bool) (bs : list N) (f : func),
  read dbg bs = ROk f -> Avbc.height f <= 64.
Proof. exact nesting_bounded_lemma. Qed.

(* ... and the model's fuel (depth limit + 2) never runs out: `read` is a faithful total
   function, its out-of-fuel result is unreachable *)
Theorem C07_read_total : forall (dbg : bool) (bs : list N), read dbg bs <> RErr EFuel.
Proof. exact read_never_out_of_fuel. Qed.

(* non-vacuity: a 26-byte input really makes the reader request 4 000 000 bytes before it
   notices the input has ended -- the constant term of the bound is needed *)
Example C07_nonvacuous :
  lenN greedy_input = 26 /\ read true greedy_input = RErr EEof
  /\ read_alloc true greedy_input = 4000000 /\ read_max_request true greedy_input = 4000000.
Proof. exact greedy_input_facts. Qed.

(* ---- assembly text: the .aasm lexer (bytecode/src/asm/lexer.rs, modelled in Model/AasmLex.v and tied
   token by token through the hook asm::verif_tokens) ------------------------------------------------
   every token other than Eof consumes at least one character: the measure that makes the
   assembler's token loop terminate ... *)
Theorem C07_aasm_lexer_progress : forall (cs : list N) (t : atok) (r : list N),
  next_token cs = Some (t, r) -> t <> AEof -> (length r < length cs)%nat.
Proof. exact next_token_progress. Qed.

(* ... so lexing any input ends (the model's fuel |input|+1 is never exhausted) in a lexical error or
   in at most |input|+1 tokens: the token stream cannot be larger than the input *)
Theorem C07_aasm_lexer_total : forall cs : list N,
  match lex cs with
  | (Some ts, b) => b = true /\ (length ts <= length cs + 1)%nat
  | (None, b) => b = true
  end.
Proof. exact lex_total. Qed.

Example C07_aasm_lexer_nonvacuous :
  lex [46; 99; 111; 100; 101; 10; 32; 48; 48; 58; 32; 77; 32; 114; 49; 44; 32; 45; 53; 32; 59; 32; 120; 10; 76; 48; 58]
  = (Some [ADir [99; 111; 100; 101]; ANl; AInt 0; AColon; AId [77]; AReg 1; AComma; AInt (-5)%Z; ANl; ALab [76; 48]; AColon; AEof], true)
  /\ lex [34; 97] = (None, true) /\ lex [114; 57; 57; 57] = (None, true) /\ lex [49; 46; 53; 101; 45; 51] = (Some [AFlt; AEof], true).
Proof. exact lex_examples. Qed.

(* the assembler's tree rebuild refuses chains deeper than 64 instead of building them (632c031):
   the recursive consumers after it (loader, verifier, drop) never see a deeper tree *)
Example C07_aasm_nesting_refused :
  rebuild (flatten (chain 64)) = Some (Some (chain 64)) /\ rebuild (flatten (chain 65)) = None
  /\ rebuild (flatten (chain 2000)) = None
  /\ rebuild [(1, 2); (2, 0); (3, 1); (4, 0)]%nat = Some (Some (Node 1 [Node 2 []; Node 3 [Node 4 []]]))%nat.
Proof. exact rebuild_examples. Qed.
