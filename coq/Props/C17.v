(* C17 -- Lowering to AIR always yields well-formed, fully monomorphic IR.
   Property theorems only; proofs live in Proofs/AirLowerProofs.v and Proofs/MonoProofs.v.

   The two full-strength statements
       lower_wf    : forall p, wf_prog (lower p) = true
       mono_closed : forall pick p, pick_sound pick -> wf_mono p (monomorphize pick p) = true
   are FALSE of the faithful models (the code violates the property): their refutations are
   proved below, each on a witness reproduced on the real code (corpus/C17), together with the
   statements that do hold. *)
From Aelys Require Import Base.Tactics Model.AirLower Model.Mono Proofs.AirLowerProofs Proofs.AirLowerTargets Proofs.AirLowerSweep Proofs.MonoProofs.
Local Open Scope N_scope.

(* ---------------------------------------------------------------- lowering: refutations *)
(* fn f(c) { if c { A } } : the branch's else-target is the merge id, which is still pending when
   the function ends and is never materialised (finalize_function_body ignores pending_block_id) *)
Theorem C17_dangling_merge_refuted :
  exists p, wf_prog (lower p) = false
            /\ lower p = [mkfn [(3, TBr 0 2); (0, TGoto 2)] (Some 2) []].
Proof. exists w_open_merge. destruct open_merge_witness as [H1 H2]. split; assumption. Qed.

Theorem C17_lower_wf_refuted : ~ (forall p, wf_prog (lower p) = true).
Proof. intro H. specialize (H w_open_merge). destruct open_merge_witness as [_ H2]. congruence. Qed.

(* fn f(c,d) { if c { if d { return 1 } } A; return 2 } : the inner merge id (6) is overwritten by
   the outer fixup_block_id_noop and block 7 branches to it, although the function ends in a statement *)
Theorem C17_pending_overwritten_refuted :
  exists p, wf_prog (lower p) = false
            /\ lower p = [mkfn [(3, TBr 0 2); (7, TBr 0 6); (0, TRet); (2, TRet)] None [6]].
Proof. exists w_overwritten. destruct overwritten_witness as [H1 H2]. split; assumption. Qed.

(* nested if: the block renamed to the then-id is the last block of the branch; the real entry of
   the then-branch (block 7, holding the inner if) is unreachable although the CFG is "well formed" *)
Theorem C17_then_entry_misrenamed :
  exists p bl, lower p = [mkfn bl None []] /\ wf_cfg bl = true /\ memN 7 (map fst bl) = true
               /\ memN 7 (reachable_ids bl) = false.
Proof.
  exists w_then_entry. eexists. destruct then_entry_witness as [H1 [H2 H3]].
  split; [exact H1|]. repeat split; try exact H3; vm_compute; reflexivity.
Qed.

(* ---------------------------------------------------------------- lowering: what does hold *)
(* for EVERY program (no size bound, any nesting): every lowered function has an entry block and
   its block ids are pairwise distinct.  (One terminator per block holds by construction of
   AirBlock / the model's block type.) *)
Theorem C17_lower_entry_and_unique_ids :
  forall p f, In f (lower p) -> has_entry (f_blocks f) = true /\ unique_ids (f_blocks f) = true.
Proof. exact lower_entry_and_unique_ids. Qed.

(* Guarded statement about branch targets.  The guard the design expected ("the function ends in
   a statement") is NOT sufficient (C17_pending_overwritten_refuted).  What holds, for EVERY program
   (no size bound) whose break/continue statements sit inside a loop of the same function
   (breaks_scoped; the bytecode compiler rejects the others with E0207):
   every dangling branch target is a pending block id that was lost -- still pending when the
   function ended (f_open) or overwritten by a later fixup_block_id_noop (f_dropped) ... *)
Theorem C17_lower_dangling_only_lost :
  forall p, breaks_scoped p = true -> forall f, In f (lower p) -> dangling_all_lost f = true.
Proof. exact lower_dangling_only_lost. Qed.

(* ... hence every function outside these two known classes is fully well formed: entry block,
   unique ids, every branch targets an existing block of the same function *)
Theorem C17_lower_wf_outside_known_classes :
  forall p, breaks_scoped p = true ->
  forall f, In f (lower p) -> known_class f = false -> wf_fn f = true.
Proof. exact lower_wf_outside_known_classes. Qed.

(* the two classes are exactly "a lost pending id is branched to" (decidable on the model's ghost
   fields); glue used above, for any function record *)
Theorem C17_lower_wf_when_nothing_lost :
  forall f, has_entry (f_blocks f) = true -> unique_ids (f_blocks f) = true ->
            dangling_all_lost f = true -> known_class f = false -> wf_fn f = true.
Proof.
  intros f He Hu Hl Hk. apply good_not_known_wf; [|exact Hk].
  unfold fn_good. rewrite He, Hu, Hl. reflexivity.
Qed.

(* without the scoping guard the statement is false: `while c { fn g() { break } }` makes g jump
   to a block id of the enclosing function (lower_function does not save loop_stack) *)
Theorem C17_unscoped_break_refuted :
  exists p f, In f (lower p) /\ breaks_scoped p = false /\ dangling_all_lost f = false.
Proof.
  exists w_unscoped, (mkfn [(0, TGoto 2)] None []).
  destruct unscoped_break_witness as (H1 & H2 & H3). rewrite H1.
  split; [left; reflexivity|split; assumption].
Qed.

(* Independent cross-check by computation (implied by the two theorems above; kept because it
   exercises the model itself): complete sweep, the bound is the family S2 x tails = 367 521 one-function
   programs: one statement of nesting depth <= 2 over {call, return, break, continue, if, if/else,
   while, for, for-each, nested fn, closure, and-condition}, blocks of <= 2 statements, followed by
   nothing / a call / a return): with break/continue inside a loop of the same function, every
   dangling branch target is one of the two kinds of lost ids, and a function outside the known
   class is well formed. *)
Theorem C17_dangling_only_lost_bounded :
  forall x t, In x S2 -> In t tails -> breaks_scoped (prog_of x t) = true ->
  forall f, In f (lower (prog_of x t)) ->
    dangling_all_lost f = true /\ (known_class f = false -> wf_fn f = true).
Proof. exact sweep_dangling_only_lost. Qed.

Example C17_sweep_family_nontrivial :
  fold_left (fun a _ => a + 1) S2 0 = 122507
  /\ breaks_scoped (prog_of w_member (mk_stmts [SRet])) = true
  /\ forallb (fun f => negb (known_class f)) (lower (prog_of w_member (mk_stmts [SRet]))) = true
  /\ wf_prog (lower (prog_of w_member (mk_stmts [SRet]))) = true.
Proof. split; [exact (proj2 sweep_family_size)|exact sweep_nonvacuous]. Qed.

(* ---------------------------------------------------------------- monomorphisation: refutations *)
(* a generic function called at two types: whatever the HashMap order, one call site is redirected
   to the instance made for the other type *)
Theorem C17_first_instance_refuted :
  forall pick, pick_sound pick -> exists p, wf_mono p (monomorphize pick p) = false.
Proof. intros pick H. exists w_two_types. exact (first_instance_witness pick H). Qed.

Theorem C17_structinit_dangling_refuted :
  forall pick, exists p,
    forallb (structs_exist_fn (monomorphize pick p)) (p_fns (monomorphize pick p)) = false.
Proof. intro pick. exists w_structinit. exact (proj2 (structinit_witness pick)). Qed.

Theorem C17_generic_struct_field_refuted :
  forall pick, exists p, reachable_fields_closed (monomorphize pick p) = false.
Proof. intro pick. exists w_generic_struct. exact (proj2 (generic_struct_witness pick)). Qed.

Theorem C17_generic_callee_refuted :
  forall pick, pick_sound pick -> exists p, wf_mono p (monomorphize pick p) = false.
Proof. intros pick H. exists w_generic_calls_generic. exact (generic_calls_generic_witness pick H). Qed.

(* ---------------------------------------------------------------- monomorphisation: what does hold *)
(* unbounded: monomorphisation never invents or alters a CFG, so the CFG clauses carry over *)
Theorem C17_mono_preserves_cfg :
  forall pick p, forallb (fun f => wf_cfg (m_blocks f)) (p_fns p) = true ->
                 forallb (fun f => wf_cfg (m_blocks f)) (p_fns (monomorphize pick p)) = true.
Proof. exact mono_preserves_cfg. Qed.

(* bounded (complete sweep; the bound is the family [bodies]: 6175 programs with the generic
   functions identity<T>(x), pick<T,U>(x,y), first<T>(xs: [T]) and one caller holding <= 3 call
   sites over 17 call shapes, no struct literal / call inside a generic, no generic struct; the
   three choice functions pick_nth 0..2 cover every order of <= 3 instances):
   all clauses hold after monomorphisation EXACTLY when no generic function is requested at two
   different type-argument keys. *)
Theorem C17_mono_closed_single_instantiation_bounded :
  forall b i, In b bodies -> In i [0; 1; 2]%nat -> single_inst (prog_with b) = true ->
    wf_mono (prog_with b) (monomorphize (pick_nth i) (prog_with b)) = true.
Proof. intros b i Hb Hi Hs. rewrite (mono_sweep_spec b i Hb Hi). exact Hs. Qed.

Theorem C17_mono_two_keys_always_break_bounded :
  forall b i, In b bodies -> In i [0; 1; 2]%nat -> single_inst (prog_with b) = false ->
    wf_mono (prog_with b) (monomorphize (pick_nth i) (prog_with b)) = false.
Proof. intros b i Hb Hi Hs. rewrite (mono_sweep_spec b i Hb Hi). exact Hs. Qed.

Example C17_mono_family_nontrivial :
  fold_left (fun a _ => a + 1) bodies 0 = 6175 /\ (forall i, pick_sound (pick_nth i)).
Proof. split; [exact mono_family_size|exact pick_nth_sound]. Qed.

(* non-vacuity: a program on which everything holds *)
Example C17_single_instantiation_example : wf_mono w_single (monomorphize pick_first w_single) = true.
Proof. exact single_witness. Qed.
