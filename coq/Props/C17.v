(* C17 -- Lowering to AIR always yields well-formed, fully monomorphic IR.
   Property theorems only; proofs live in Proofs/AirLowerProofs.v and Proofs/MonoProofs.v.

   The two full-strength statements
       lower_wf    : forall p, wf_prog (lower p) = true
       mono_closed : forall pick p, pick_sound pick -> wf_mono p (monomorphize pick p) = true
   are FALSE of the faithful models (the code violates the property): their refutations are
   proved below, each on a witness reproduced on the real code (corpus/C17), together with the
   statements that do hold. *)
From Aelys Require Import Base.Tactics Model.AirLower Model.Mono Proofs.AirLowerProofs Proofs.MonoProofs.
Local Open Scope N_scope.

(* ---------------------------------------------------------------- lowering: refutations *)
(* fn f(c) { if c { A } } : the branch's else-target is the merge id, which is still pending when
   the function ends and is never materialised (finalize_function_body ignores pending_block_id) *)
Theorem C17_dangling_merge_refuted :
  exists p, wf_prog (lower p) = false
            /\ lower p = [mkfn [(3, TBr 0 2); (0, TGoto 2)] (Some 2) []].
Proof. exists w_open_merge. destruct open_merge_witness as [H1 H2]. split; assumption. Qed.

Theorem C17_lower_wf_refuted : ~ (forall p, wf_prog (lower p) = true).
Proof. intro H. specialize (H w_open_merge). destruct open_merge_witness as [_ H2]. congruence. Qed.

(* fn f(c,d) { if c { if d { return 1 } } A; return 2 } : the inner merge id (6) is overwritten by
   the outer fixup_block_id_noop and block 7 branches to it, although the function ends in a statement *)
Theorem C17_pending_overwritten_refuted :
  exists p, wf_prog (lower p) = false
            /\ lower p = [mkfn [(3, TBr 0 2); (7, TBr 0 6); (0, TRet); (2, TRet)] None [6]].
Proof. exists w_overwritten. destruct overwritten_witness as [H1 H2]. split; assumption. Qed.

(* nested if: the block renamed to the then-id is the last block of the branch; the real entry of
   the then-branch (block 7, holding the inner if) is unreachable although the CFG is "well formed" *)
Theorem C17_then_entry_misrenamed :
  exists p bl, lower p = [mkfn bl None []] /\ wf_cfg bl = true /\ memN 7 (map fst bl) = true
               /\ memN 7 (reachable_ids bl) = false.
Proof.
  exists w_then_entry. eexists. destruct then_entry_witness as [H1 [H2 H3]].
  split; [exact H1|]. repeat split; try exact H3; vm_compute; reflexivity.
Qed.

(* ---------------------------------------------------------------- lowering: what does hold *)
(* for EVERY program (no size bound, any nesting): every lowered function has an entry block and
   its block ids are pairwise distinct.  (One terminator per block holds by construction of
   AirBlock / the model's block type.) *)
Theorem C17_lower_entry_and_unique_ids :
  forall p f, In f (lower p) -> has_entry (f_blocks f) = true /\ unique_ids (f_blocks f) = true.
Proof. exact lower_entry_and_unique_ids. Qed.

(* ---------------------------------------------------------------- monomorphisation: refutations *)
(* a generic function called at two types: whatever the HashMap order, one call site is redirected
   to the instance made for the other type *)
Theorem C17_first_instance_refuted :
  forall pick, pick_sound pick -> exists p, wf_mono p (monomorphize pick p) = false.
Proof. intros pick H. exists w_two_types. exact (first_instance_witness pick H). Qed.

Theorem C17_structinit_dangling_refuted :
  forall pick, exists p,
    forallb (structs_exist_fn (monomorphize pick p)) (p_fns (monomorphize pick p)) = false.
Proof. intro pick. exists w_structinit. exact (proj2 (structinit_witness pick)). Qed.

Theorem C17_generic_struct_field_refuted :
  forall pick, exists p, reachable_fields_closed (monomorphize pick p) = false.
Proof. intro pick. exists w_generic_struct. exact (proj2 (generic_struct_witness pick)). Qed.

Theorem C17_generic_callee_refuted :
  forall pick, pick_sound pick -> exists p, wf_mono p (monomorphize pick p) = false.
Proof. intros pick H. exists w_generic_calls_generic. exact (generic_calls_generic_witness pick H). Qed.

(* non-vacuity: a program on which everything holds *)
Example C17_single_instantiation_example : wf_mono w_single (monomorphize pick_first w_single) = true.
Proof. exact single_witness. Qed.
