(* C17 -- Lowering to AIR always yields well-formed, fully monomorphic IR.
   Property theorems only; proofs live in Proofs/AirLowerProofs.v, Proofs/AirLowerTargets.v and
   Proofs/MonoProofs.v.

   History: on the tree this work started from both full statements were false of the faithful
   models (and of the code).  Eight root causes were repaired in /repo (eb19006 5d902b4 ebefa80
   e8c88cf e5b1019 26298e9 c2787f9 6b8cf0a, plus b3ec452); the models follow the repaired code and
       lower_wf : forall p, wf_prog (lower p) = true
   is now a theorem without any guard.  mono_closed is still false because of one root cause that
   stays open (generic structs are never instantiated, KF-C17-5): its refutation is kept, and the
   parts of mono_closed that do hold are proved. *)
From Aelys Require Import Base.Tactics Extracted.MonoConsts Extracted.LowerFlags
  Model.AirLower Model.AirLocals Model.Mono Model.AirTypes
  Proofs.AirLowerProofs Proofs.AirLowerTargets Proofs.AirLocalsProofs Proofs.MonoProofs Proofs.MonoClosed Proofs.AirTypesProofs.
Local Open Scope N_scope.

(* ---------------------------------------------------------------- structure pinned by the translator *)
(* The hand models assume the following about the source text of air/src/lower.rs and air/src/mono.rs;
   tools/extractors/c17.py recomputes every flag from the current source on each run, so a change of
   one of these pieces of code fails THIS obligation, independently of the end-to-end ties:
     Model/Mono.v      subst descends under Param/Ptr/Array/Slice/FnPtr; unify looks through the same
                       variants; type_to_string prints FnPtr structurally (key1); StructInit names are
                       not renamed; instantiate/collect rounds; call sites rewritten per site;
     Model/AirTypes.v  a type parameter in scope is looked up before the struct check;
     Model/AirLower.v  finalize looks at the pending id; fixup_block_id_noop seals a pending block;
                       lower_function saves/restores loop_stack, pending id, aliases, names (and
                       type_params_map); struct declarations inside function bodies are lowered. *)
Theorem C17_source_structure_assumed_by_the_models :
  (SUBST_PARAM && SUBST_PTR && SUBST_ARRAY && SUBST_SLICE && SUBST_FNPTR
   && UNIFY_PARAM && UNIFY_PTR && UNIFY_ARRAY && UNIFY_SLICE && UNIFY_FNPTR
   && KEY_FNPTR_STRUCTURED && negb STRUCTINIT_RENAMED && MONO_ROUNDS_LOOP && REWRITE_PER_CALL_SITE
   && NAME_PARAM_FIRST && NAME_STRUCT_CHECKED
   && FINALIZE_CHECKS_PENDING && NOOP_SEALS_PENDING
   && SAVES_LOOP_STACK && SAVES_TYPE_PARAMS && SAVES_PENDING && SAVES_ALIASES && SAVES_NAMES
   && LOWERS_NESTED_STRUCT_DECL) = true.
Proof. reflexivity. Qed.

(* ---------------------------------------------------------------- lowering *)
(* for EVERY program (no size bound, any nesting, break/continue anywhere): every lowered
   function has an entry block, pairwise distinct block ids, and every branch of every terminator
   targets an existing block of the same function.  (One terminator per block holds by
   construction of AirBlock / the model's block type.) *)
Theorem C17_lower_wf : forall p, wf_prog (lower p) = true.
Proof. exact lower_wf_all. Qed.

Theorem C17_lower_entry_and_unique_ids :
  forall p f, In f (lower p) -> has_entry (f_blocks f) = true /\ unique_ids (f_blocks f) = true.
Proof. exact lower_entry_and_unique_ids. Qed.

Theorem C17_lower_no_dangling_target :
  forall p f, In f (lower p) -> dangling (f_blocks f) = [].
Proof. exact lower_no_dangling. Qed.

(* the former counterexamples, now regression lemmas: the merge blocks exist *)
Theorem C17_dangling_merge_repaired :
  lower w_open_merge = [mkfn [(3, TBr 0 2); (0, TGoto 2); (2, TRet)]].
Proof. exact (proj1 open_merge_witness). Qed.

Theorem C17_pending_overwritten_repaired :
  lower w_overwritten = [mkfn [(3, TBr 0 2); (7, TBr 0 6); (0, TRet); (6, TGoto 2); (2, TRet)]].
Proof. exact (proj1 overwritten_witness). Qed.

(* Not a clause of the property, recorded: the block renamed to the then-id is the LAST block of
   the branch, so with a nested if the real then-entry (block 7) is unreachable although the CFG is
   well formed (semantic defect of the renaming scheme, still present) *)
Theorem C17_then_entry_misrenamed :
  exists p bl, lower p = [mkfn bl] /\ wf_cfg bl = true /\ memN 7 (map fst bl) = true
               /\ memN 7 (reachable_ids bl) = false.
Proof.
  exists w_then_entry. eexists. destruct then_entry_witness as [H1 [H2 H3]].
  split; [exact H1|]. repeat split; try exact H3; vm_compute; reflexivity.
Qed.

(* "every block ends in exactly one terminator": AirBlock has one terminator field (as the model's
   block type), a block is only ever created by seal_block, which takes the terminator together
   with all pending statements, and when a function is finished nothing emitted is left outside a
   block and no block id is left pending *)
Theorem C17_every_statement_ends_up_in_a_terminated_block :
  (forall t s, dirty (seal t s) = false /\ exists id, blocks (seal t s) = (id, t) :: blocks s)
  /\ (forall s, dirty (finalize s) = false /\ pending (finalize s) = None).
Proof. split; [exact seal_takes_statements|exact finalize_clean]. Qed.

(* ---------------------------------------------------------------- locals *)
(* for EVERY program: in every lowered function each local id is declared exactly once (hence with
   a single type), the parameter list has no duplicate and every parameter but the closure
   environment is also declared, and every id mentioned by a statement or terminator is declared
   in locals or is a parameter *)
Theorem C17_locals_declared_once_and_every_mention_declared :
  forall p, locals_wf (llower p) = true.
Proof. exact llower_wf. Qed.

(* ---------------------------------------------------------------- lowering of types *)
(* a type parameter in scope wins over a struct of the same name (`struct T {..}` + `fn id<T>(x: T)`
   lowers x as T0; otherwise no instance could ever be inferred for id) *)
Theorem C17_type_param_shadows_struct :
  forall tps structs n k, index_of n tps 0 = Some k ->
    lower_ty tps structs (IName n) = TParam (N.of_nat k).
Proof. exact type_param_shadows_struct. Qed.

(* every struct named by a lowered type (at any depth of array / vec / function types) is a
   declared struct; and outside a generic function no type parameter is produced *)
Theorem C17_lowered_types_name_declared_structs :
  forall tps structs t s, In s (struct_names (lower_ty tps structs t)) -> In s structs.
Proof. intros tps structs. exact (proj1 (lower_ty_structs_exist tps structs)). Qed.

Theorem C17_no_type_param_outside_generic :
  forall structs t, has_param (lower_ty [] structs t) = false.
Proof. intro structs. exact (proj1 (lower_ty_no_param_without_tparams structs)). Qed.

(* ---------------------------------------------------------------- monomorphisation *)
(* unbounded: monomorphisation never invents or alters a CFG, so the CFG clauses carry over *)
Theorem C17_mono_preserves_cfg :
  forall p, forallb (fun f => wf_cfg (m_blocks f)) (p_fns p) = true ->
            forallb (fun f => wf_cfg (m_blocks f)) (p_fns (monomorphize p)) = true.
Proof. exact mono_preserves_cfg. Qed.

(* unbounded: every call that monomorphize redirected targets an instance that exists in the
   result and was created for exactly the type arguments inferred at that call site (for input
   programs whose call sites name functions as written, which is what lower() produces) *)
Theorem C17_mono_redirected_calls_exact :
  forall p f n k args, plain_prog p = true ->
    In f (p_fns (monomorphize p)) -> In (MCall (NMono n k) args) (m_body f) ->
    call_exact p (monomorphize p) f (MCall (NMono n k) args) = true.
Proof. exact mono_redirected_calls_exact. Qed.

(* UNBOUNDED mono_closed outside the two open classes.  [mono_input_ok] is a decidable predicate on
   the program handed to monomorphize: no generic struct (excludes KF-C17-5), no non-generic
   function mentioning a type parameter (excludes KF-C17-11: closures nested in generic functions),
   every struct named exists, type parameters of a generic function's types are its own, constants
   are closed, call sites name functions as written.  [calls_resolved] says that every call of a
   generic function got an instance (it fails for type parameters that cannot be inferred from the
   arguments and for polymorphic recursion beyond MAX_MONO_ROUNDS).  Then ALL clauses hold: no
   function / local / cast mentions a type parameter, every struct named exists, reachable struct
   fields are closed, every generic call targets the instance for exactly its argument types. *)
Theorem C17_mono_closed_outside_open_classes :
  forall p, mono_input_ok p = true -> calls_resolved p = true -> wf_mono p (monomorphize p) = true.
Proof. exact mono_closed_outside_open_classes. Qed.

(* the exclusions are the two open findings (witnesses), and the guard is met by non-trivial
   programs (calls at two types, generic chains, the whole swept family) *)
Theorem C17_mono_guard_excludes_exactly_the_open_classes :
  mono_input_ok w_generic_struct = false
  /\ mono_input_ok w_closure_in_generic = false
  /\ wf_mono w_closure_in_generic (monomorphize w_closure_in_generic) = false.
Proof. split; [exact generic_struct_excluded|exact closure_in_generic_excluded]. Qed.

Example C17_mono_guard_nonvacuous :
  mono_input_ok w_two_types = true /\ calls_resolved w_two_types = true
  /\ mono_input_ok w_generic_calls_generic = true /\ calls_resolved w_generic_calls_generic = true
  /\ forallb (fun b => mono_input_ok (prog_with b) && calls_resolved (prog_with b)) bodies = true.
Proof. exact guard_nonvacuous. Qed.

(* bounded (complete sweep; the bound is the family [bodies]: 9724 programs with the generic
   functions identity<T>(x), pick<T,U>(x,y) holding a struct literal, wrap<T>(x) calling identity,
   first<T>(xs: [T]) calling wrap, one caller with <= 3 statements over 21 shapes, no generic
   struct): ALL clauses hold after monomorphisation -- no type parameter left, structs exist, every
   generic call targets the instance for its argument types, also at two types and through chains *)
Theorem C17_mono_closed_bounded :
  forall b, In b bodies -> wf_mono (prog_with b) (monomorphize (prog_with b)) = true.
Proof. exact mono_sweep_spec. Qed.

(* the former counterexamples of KF-C17-3 / -4 / -6 *)
Theorem C17_first_instance_repaired :
  wf_mono w_two_types (monomorphize w_two_types) = true
  /\ flat_map (fun f => flat_map stmt_obs (m_body f)) (p_fns (monomorphize w_two_types))
     = [CInst 0 [T_I64]; CInst 0 [T_STR]].
Proof. exact two_types_repaired. Qed.

Theorem C17_structinit_repaired :
  wf_mono w_structinit (monomorphize w_structinit) = true.
Proof. exact (proj1 structinit_repaired). Qed.

Theorem C17_generic_callee_repaired :
  wf_mono w_generic_calls_generic (monomorphize w_generic_calls_generic) = true.
Proof. exact (proj1 generic_calls_generic_repaired). Qed.

(* still refuted (KF-C17-5, open): a generic struct keeps its type-parameter field and is
   reachable from a function's local *)
Theorem C17_mono_closed_refuted : ~ (forall p, wf_mono p (monomorphize p) = true).
Proof. intro H. specialize (H w_generic_struct). destruct generic_struct_witness as [H1 _]. congruence. Qed.

Theorem C17_generic_struct_field_refuted :
  exists p, reachable_fields_closed (monomorphize p) = false.
Proof. exists w_generic_struct. exact (proj2 generic_struct_witness). Qed.

Example C17_mono_family_nontrivial : fold_left (fun a _ => a + 1) bodies 0 = 9724.
Proof. exact mono_family_size. Qed.
