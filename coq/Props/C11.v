(* C11 -- Denied capabilities cannot be exercised by any program.
   Property theorems only; proofs live in Proofs/CapsProofs.v.

   What the theorems carry: the *gating logic* -- which natives can ever be registered in a VM
   for a given configuration and any sequence of load requests (all import forms, assembly and
   bytecode name routes, REPL histories), that every native that spawns tests allow_exec first,
   the native-module policy decision (deny beats allow, checksum, version, order of the checks,
   which manifest a route consults), the equality of the two FNV-1a implementations, and what
   configuration each flag spelling denotes.  What a registered native does to the file
   system is Rust code outside the model: that half is the sentinel tie (hx_caps). *)
From Aelys Require Import Base.Tactics Extracted.StdModules Model.Caps Proofs.CapsProofs.
From Coq Require Import String.
Local Open Scope string_scope.
Local Open Scope list_scope.

(* no native of std.fs / std.net is ever registered when the bit is off, whatever is requested *)
Theorem fs_net_unreachable :
  forall c : config,
    (caps_fs c = false -> forall (requests : list load_request) (n : string), ~ In ("fs", n) (reachable_natives c requests)) /\
    (caps_net c = false -> forall (requests : list load_request) (n : string), ~ In ("net", n) (reachable_natives c requests)).
Proof. intro c. split; [apply fs_unreachable_lemma | apply net_unreachable_lemma]. Qed.

(* the same over a session whose configuration changes between inputs, if the bit is off throughout *)
Theorem fs_unreachable_in_sessions :
  forall segs : list (config * list load_request),
    Forall (fun seg => caps_fs (fst seg) = false) segs -> forall n, ~ In ("fs", n) (reachable_session segs).
Proof. exact fs_session_unreachable_lemma. Qed.

(* std.fs / std.net natives registered under a permitting configuration stay registered when the
   configuration is lowered later (VM::set_capabilities) ... *)
Theorem lowering_caps_keeps_natives_registered :
  caps_fs default_config = false /\
  In ("fs", "write_text") (reachable_session [(cfg_fs_on, [LStd "fs"]); (default_config, [])]).
Proof. exact lowering_caps_keeps_natives. Qed.

(* ... but (since the repair of KF-C11-3) every one of them re-checks the capability when called:
   whatever the session's history, a call under a configuration without the bit is refused *)
Theorem revoked_capability_is_refused :
  (forall (segs : list (config * list load_request)) (c : config) (n : string),
     caps_fs c = false -> In ("fs", n) (reachable_session segs) -> call_guard c ("fs", n) = CallDenied) /\
  (forall (segs : list (config * list load_request)) (c : config) (n : string),
     caps_net c = false -> In ("net", n) (reachable_session segs) -> call_guard c ("net", n) = CallDenied).
Proof. exact (conj fs_revoked_refused net_revoked_refused). Qed.

(* no native spawns a process when allow_exec is off; the four exec* natives answer CapabilityDenied *)
Theorem exec_refuses :
  forall c : config, caps_exec c = false ->
    (forall n : native, exec_guard c n <> Spawned) /\
    (forall n : native, In n exec_guarded -> exec_guard c n = DeniedE).
Proof. intros c H. split; [apply exec_refuses_lemma; exact H | intros n Hn; apply exec_guarded_denied; assumption]. Qed.

(* THE CAPSTONE over the extracted effect table: for every configuration, every registered native (std
   module natives and builtins) and every protected effect (fs, net, process) found in its body or in the
   helpers it calls, the native cannot get as far as that effect when the corresponding capability is off
   -- it tests the bit at the top of its body, so the route by which it is called (direct, alias, selected
   symbol, callback, user-module re-export, assembly, bytecode) does not matter *)
Theorem denied_capability_cannot_be_exercised :
  forall (c : config) (n : native) (e b : string),
    bit_of_effect e = Some b -> cap_bit c b = false -> can_perform c n e = false.
Proof. exact denied_capability_cannot_be_exercised_lemma. Qed.

(* every place in runtime/, driver/, cli/, modules/ that puts a native into a VM is one the model accounts for *)
Theorem every_registration_site_is_known : unknown_registrations registration_sites = [].
Proof. exact registration_sites_known. Qed.

(* native modules: a denied capability wins over any allow list ... *)
Theorem deny_beats_allow_native :
  forall (c : config) (cap : string), In cap (denied c) -> check_native_capability c cap = false.
Proof. exact deny_beats_allow_lemma. Qed.

(* ... and a module whose policy lists it is refused before anything is loaded *)
Theorem denied_capability_refuses_before_load :
  forall (vreq ver : Type) (sat : vreq -> ver -> bool) (c : config) (p : policy vreq) (f : nfile ver) (cap : string),
    In cap (p_caps p) -> In cap (denied c) ->
    exists bad, native_module_decision vreq ver sat c (Some p) f = [ERefusedCap bad].
Proof. exact cap_denied_refuses. Qed.

Theorem checksum_mismatch_refuses :
  forall (vreq ver : Type) (sat : vreq -> ver -> bool) (c : config) (p : policy vreq) (f : nfile ver) (expected : N),
    p_checksum p = Some expected -> fnv_bytes (List.concat (f_chunks f)) <> expected ->
    has_event ELoaded (native_module_decision vreq ver sat c (Some p) f) = false /\
    has_event ERegistered (native_module_decision vreq ver sat c (Some p) f) = false /\
    has_event EInit (native_module_decision vreq ver sat c (Some p) f) = false.
Proof. exact checksum_mismatch_refuses_lemma. Qed.

(* an unsatisfied version requirement: never initialised or registered *)
Theorem version_unsatisfied_refuses :
  forall (vreq ver : Type) (sat : vreq -> ver -> bool) (c : config) (p : policy vreq) (f : nfile ver),
    version_ok vreq ver sat p f = false ->
    has_event ERegistered (native_module_decision vreq ver sat c (Some p) f) = false /\
    has_event EInit (native_module_decision vreq ver sat c (Some p) f) = false.
Proof. exact version_unsatisfied_refuses_lemma. Qed.

(* REFUTED "never loaded": the version lives in the loaded descriptor, so the library is loaded
   (dlopen / load_embedded: its constructors run) before it is refused *)
Theorem version_checked_after_load_refuted :
  version_ok ver3 ver3 ver_geb w_policy_version w_file = false /\
  has_event ELoaded (native_module_decision ver3 ver3 ver_geb default_config (Some w_policy_version) w_file) = true.
Proof. exact version_after_load_witness. Qed.

Theorem version_checked_after_load_general :
  forall (vreq ver : Type) (sat : vreq -> ver -> bool) (c : config) (p : policy vreq) (f : nfile ver),
    version_ok vreq ver sat p f = false -> p_caps p = [] -> p_checksum p = None ->
    native_module_decision vreq ver sat c (Some p) f = [ELoaded; ERefusedVersion].
Proof. exact version_checked_after_load. Qed.

(* every run route (source, assembly, bytecode) applies the project manifest's policy; an embedded
   manifest applies to bytecode that is run where no project manifest is *)
Theorem route_manifest_applies :
  forall (vreq ver : Type) (sat : vreq -> ver -> bool) (r : route) (c : config) (project : option (manifest vreq))
         (path : list string) (f : nfile ver),
    route_decision vreq ver sat r c project None path f
    = native_module_decision vreq ver sat c (match project with Some m => module_policy vreq m path | None => None end) f.
Proof. exact route_applies_project_manifest. Qed.

Theorem avbc_embedded_manifest_applies :
  forall (vreq ver : Type) (sat : vreq -> ver -> bool) (c : config) (emb : manifest vreq)
         (path : list string) (f : nfile ver),
    route_decision vreq ver sat RAvbc c None (Some emb) path f = native_module_decision vreq ver sat c (module_policy vreq emb path) f.
Proof. exact avbc_route_embedded_manifest. Qed.

(* a manifest carried by the file itself - anything can append one to a bytecode file - cannot switch the
   project manifest off: where a project manifest is, it decides, on every route (repair of KF-C11-8) *)
Theorem project_manifest_decides_on_every_route :
  forall (vreq ver : Type) (sat : vreq -> ver -> bool) (r : route) (c : config) (m : manifest vreq)
         (emb : option (manifest vreq)) (path : list string) (f : nfile ver),
    route_decision vreq ver sat r c (Some m) emb path f = native_module_decision vreq ver sat c (module_policy vreq m path) f.
Proof. exact project_manifest_decides. Qed.

Theorem denied_capability_refuses_on_every_route :
  forall (vreq ver : Type) (sat : vreq -> ver -> bool) (r : route) (c : config) (m : manifest vreq)
         (emb : option (manifest vreq)) (p : policy vreq)
         (path : list string) (f : nfile ver) (cap : string),
    module_policy vreq m path = Some p -> In cap (p_caps p) -> In cap (denied c) ->
    exists bad, route_decision vreq ver sat r c (Some m) emb path f = [ERefusedCap bad].
Proof. exact denied_capability_refuses_on_every_route. Qed.

Example routes_agree :
  route_decision ver3 ver3 ver_geb RSource w_cfg_deny (Some [("sentry", w_policy_denied)]) None ["sentry"] w_file = [ERefusedCap "danger"] /\
  route_decision ver3 ver3 ver_geb RAasm w_cfg_deny (Some [("sentry", w_policy_denied)]) None ["sentry"] w_file = [ERefusedCap "danger"] /\
  route_decision ver3 ver3 ver_geb RAvbc w_cfg_deny (Some [("sentry", w_policy_denied)]) None ["sentry"] w_file = [ERefusedCap "danger"].
Proof. exact routes_agree_witness. Qed.

(* ABOUT THE OLD DEFINITION ONLY (before the repair of KF-C11-2 the assembly route passed no manifest
   and bytecode only an embedded one): a module the project manifest denies was loaded and run *)
Theorem old_routes_ignored_manifest_witness :
  route_decision_before_fix ver3 ver3 ver_geb RAasm w_cfg_deny (Some [("sentry", w_policy_denied)]) None ["sentry"] w_file = [ELoaded; EInit; ERegistered] /\
  route_decision_before_fix ver3 ver3 ver_geb RAvbc w_cfg_deny (Some [("sentry", w_policy_denied)]) None ["sentry"] w_file = [ELoaded; EInit; ERegistered].
Proof. exact old_routes_ignored_manifest. Qed.

(* the policy of a module imported through a dotted path / subdirectory is the entry of its LAST segment,
   for every component at once: the decision function takes a single policy (the source looks it up twice,
   under the same key expression -- model_matches_source) *)
Theorem dotted_import_uses_the_same_policy :
  forall (vreq ver : Type) (sat : vreq -> ver -> bool) (r : route) (c : config) (m : manifest vreq)
         (dirs : list string) (name : string) (f : nfile ver),
    sassoc (String.concat "." (dirs ++ [name])) m = None ->
    route_decision vreq ver sat r c (Some m) None (dirs ++ [name]) f
    = route_decision vreq ver sat r c (Some m) None [name] f.
Proof.
  intros vreq ver sat r c m dirs name f Hno.
  assert (E : module_policy vreq m (dirs ++ [name]) = module_policy vreq m [name]).
  { unfold module_policy. rewrite last_last. destruct policy_lookup_tries_dotted_path; [|reflexivity].
    rewrite Hno. cbn [String.concat last]. destruct (sassoc name m); reflexivity. }
  unfold route_decision. destruct r; cbn [manifest_for]; try (rewrite E; reflexivity).
  destruct avbc_route_project_manifest_wins; rewrite E; reflexivity.
Qed.

(* the capabilities the VM itself knows need their capability bit for native modules as well
   (holds on a tree that has the round-4 repair: the premise is read from the source) *)
Theorem std_capability_bits_deny_native_modules :
  native_caps_consult_std_bits = true ->
  forall (c : config) (cap bit : string), sassoc cap cap_bits = Some bit -> cap_bit c bit = false ->
    check_native_capability c cap = false.
Proof. intros F c cap bit. apply std_bits_deny_native_lemma; exact F. Qed.

(* the two FNV-1a implementations (file in chunks / byte slice) agree on every byte sequence *)
Theorem fnv_file_eq_fnv_bytes : forall chunks : list (list N), fnv_file chunks = fnv_bytes (List.concat chunks).
Proof. exact fnv_file_eq_fnv_bytes_lemma. Qed.

(* every spelling of every subset of {fs, net, exec} denotes that subset; nothing = nothing; trusted = all *)
Theorem flag_spellings_agree :
  forall a b x : bool,
    caps_of (parse_args (spelling_caps a b x)) = Some (a, b, x) /\
    caps_of (parse_args (spelling_list a b x)) = Some (a, b, x) /\
    caps_of (parse_args (spelling_dash a b x)) = Some (a, b, x) /\
    caps_of (parse_args (spelling_dot a b x)) = Some (a, b, x).
Proof. exact flag_spellings_agree_lemma. Qed.

Theorem default_and_trusted :
  caps_of (parse_args []) = Some (false, false, false) /\
  forall a b x : bool,
    caps_of (parse_args (spelling_dash a b x ++ ["--ae-trusted=true"])) = Some (true, true, true) /\
    caps_of (parse_args ("-ae.trusted=true" :: spelling_caps a b x)) = Some (true, true, true).
Proof. split; [exact default_denies_everything | exact trusted_enables_everything]. Qed.

(* recorded: for the std bits the LAST of --deny-caps / --allow-caps wins (for native modules deny wins) *)
Theorem deny_then_allow_order_dependent :
  caps_of (parse_args ["--deny-caps=fs"; "--allow-caps=fs"]) = Some (true, false, false) /\
  caps_of (parse_args ["--allow-caps=fs"; "--deny-caps=fs"]) = Some (false, false, false) /\
  (match parse_args ["--deny-caps=fs"; "--allow-caps=fs"] with
   | POk c _ => check_native_capability c "fs" | _ => true end) = false.
Proof. exact deny_then_allow_is_order_dependent. Qed.

(* the tables read from the Rust source have the shape the model and the theorems assume *)
Theorem model_matches_source : tables_ok = true.
Proof. exact tables_ok_true. Qed.

Example caps_nonvacuous :
  caps_fs default_config = false /\ caps_net default_config = false /\
  List.length (reachable_natives default_config nv_requests) = 209 /\
  forallb (fun n => negb (String.eqb (fst n) "fs") && negb (String.eqb (fst n) "net")) (reachable_natives default_config nv_requests) = true /\
  nmem ("sys", "exec") (reachable_natives default_config nv_requests) = true /\
  exec_guard default_config ("sys", "exec") = DeniedE.
Proof. exact nonvacuous. Qed.
