(* C06 -- Type-specialised fast paths never misread a value.
   Property theorems only; proofs live in Proofs/VmArithProofs.v and Proofs/OpcodeSelectProofs.v.
   Words are N < 2^64 (W64); hv is an arbitrary view of the heap's strings.

   State of the code modelled: /repo after fix 7e82908 (every type-specialised opcode checks its
   operand tags and falls back to the generic operation).  The statements are therefore about
   ALL words and ALL static types: whether a static type is honest no longer matters, which is
   why the unmodelled half (sema: "whenever the type checker accepts a program ...") is no longer
   needed for the operations covered here -- see selected_opcode_sound_all_words.  Statements
   named old_* are about the definitions before the repairs and are kept as the record of what
   was wrong. *)
From Aelys Require Import Base.Tactics Extracted.ValueConsts Extracted.Opcodes Extracted.OpcodeSelectTables
  Extracted.DispatchArms Model.Value
  Proofs.ValueProofs Model.VmArith Proofs.VmArithProofs Proofs.CodecProofs Model.OpcodeSelect Proofs.OpcodeSelectProofs
  Model.TypedArray Proofs.TypedArrayProofs.
From Coq Require Import Floats.
Local Open Scope N_scope.

(* ---------------------------------------------------------------- typed families = generic, ALL words *)
Theorem typed_total_sound_arith_ii : forall hv o a b, t_arith_ii hv o a b = g_arith hv o a b.
Proof. exact typed_arith_ii_total. Qed.

Theorem typed_total_sound_cmp_ii : forall hv o a b, t_cmp_ii hv o a b = g_cmp hv o a b.
Proof. exact typed_cmp_ii_total. Qed.

Theorem typed_total_sound_bit_ii : forall o a b, t_bit_ii o a b = g_bit o a b.
Proof. exact typed_bit_ii_total. Qed.

Theorem typed_total_sound_not_i : forall a, t_not_i a = g_bitnot a.
Proof. exact typed_not_i_total. Qed.

Theorem typed_total_sound_arith_ff : forall hv o a b,
  a < W64 -> b < W64 -> t_arith_ff hv o a b = g_arith hv o a b.
Proof. exact typed_arith_ff_total. Qed.

Theorem typed_total_sound_ord_ff : forall hv o a b,
  is_ord o = true -> a < W64 -> b < W64 -> t_cmp_ff hv o a b = g_cmp hv o a b.
Proof. exact typed_ord_ff_total. Qed.

(* EqFF / NeFF: the generic operation whenever the operands are not two floats (the case the
   property is about: a value of another type reached the typed position) ... *)
Theorem typed_sound_eq_ff_mistyped : forall hv o a b,
  is_float a && is_float b = false -> t_cmp_ff hv o a b = g_cmp hv o a b.
Proof. exact typed_eq_ff_nonfloat. Qed.

(* ... and on two floats, unless they are one and the same NaN pattern (eq_on_nan_differs) *)
Theorem typed_sound_eq_ff : forall hv o a b,
  a < W64 -> b < W64 -> is_float a = true -> is_float b = true ->
  (a <> b \/ is_nan_bits a = false) ->
  t_cmp_ff hv o a b = g_cmp hv o a b.
Proof. exact typed_eq_ff_floats. Qed.

(* the float codec of the model agrees with the IEEE == of Model/Value.v on all 64-bit words
   (uses the standard-library axioms FloatAxioms.eqb_spec and Prim2SF_SF2Prim) *)
Theorem codec_eq : forall a b, a < W64 -> b < W64 ->
  PrimFloat.eqb (f_of_bits a) (f_of_bits b) = f64_eq a b.
Proof. exact codec_eq_all. Qed.

Theorem typed_total_sound_arith_imm : forall hv o a c,
  c < 256 -> t_arith_imm hv o a c = g_arith hv o a (v_int (Z.of_N c)).
Proof. exact typed_arith_imm_total. Qed.

Theorem typed_total_sound_cmp_imm : forall hv o a c,
  is_ord o = true -> c < 256 -> t_cmp_imm hv o a c = g_cmp hv o a (v_int (Z.of_N c)).
Proof. exact typed_cmp_imm_total. Qed.

Theorem typed_total_sound_bit_imm : forall o a c,
  c < 256 -> t_bit_imm o a c = g_bit o a (v_int (Z.of_N c)).
Proof. exact typed_bit_imm_total. Qed.

(* the generic == / != / < .. on two ints built by Value::int is the integer comparison: the typed
   opcodes did not change meaning for well-typed operands *)
Theorem generic_cmp_on_ints : forall hv o x y,
  in48 x -> in48 y -> g_cmp hv o (v_int x) (v_int y) = ROk (v_bool (int_cmp o x y)).
Proof. exact g_cmp_ints. Qed.

(* "or panics": every int a specialised or generic opcode reads is a 48-bit value, and on 48-bit
   operands the non-wrapping i64 operators of the int kernels (unary -, /, %) cannot overflow *)
Theorem int_operands_are_48_bit : forall w z, as_int w = Some z -> in48 z.
Proof. exact as_int_in48. Qed.

Theorem int_kernels_cannot_overflow_i64 : forall l r,
  in48 l -> in48 r ->
  is_i64 (- l) = true /\ is_i64 (l + r) = true /\ is_i64 (l - r) = true /\
  (r <> 0%Z -> is_i64 (Z.quot l r) = true /\ is_i64 (Z.rem l r) = true).
Proof. exact int_ops_stay_in_i64. Qed.

(* ---------------------------------------------------------------- loop super-instructions *)
(* WhileLoopLt is the generic `<` (None = its type error) on every pair of words *)
Theorem loop_total_sound_while : forall a b, while_loop_lt a b = g_ord CLt a b.
Proof. exact while_loop_total. Qed.

(* ForLoopI / ForLoopIInc: a type error exactly when some register is not an int, otherwise the
   range step on the three ints *)
Theorem loop_for_type_error_iff : forall incl i e s,
  forloop_i incl i e s = None <-> is_int i && is_int e && is_int s = false.
Proof. exact forloop_error_iff. Qed.

Theorem loop_for_spec : forall incl i e s,
  forloop_i incl i e s =
  match as_int i, as_int e, as_int s with
  | Some x, Some y, Some z =>
      Some (v_int (x + z),
            if (0 <? z)%Z then (if incl then (x + z <=? y)%Z else (x + z <? y)%Z)
            else (if incl then (y <=? x + z)%Z else (y <? x + z)%Z))
  | _, _, _ => None
  end.
Proof. exact forloop_spec. Qed.

(* ---------------------------------------------------------------- guarded families = generic, ALL words *)
Theorem guarded_total_sound_arith_iig : forall hv o a b,
  a < W64 -> b < W64 -> gd_arith_iig hv o a b = g_arith hv o a b.
Proof. exact guarded_arith_iig_total. Qed.

Theorem guarded_total_sound_arith_ffg : forall hv o a b,
  a < W64 -> b < W64 -> gd_arith_ffg hv o a b = g_arith hv o a b.
Proof. exact guarded_arith_ffg_total. Qed.

Theorem guarded_total_sound_ord_iig : forall hv o a b,
  is_ord o = true -> a < W64 -> b < W64 -> gd_cmp_iig hv o a b = g_cmp hv o a b.
Proof. exact guarded_ord_iig_total. Qed.

Theorem guarded_total_sound_ord_ffg : forall hv o a b,
  is_ord o = true -> a < W64 -> b < W64 -> gd_cmp_ffg hv o a b = g_cmp hv o a b.
Proof. exact guarded_ord_ffg_total. Qed.

Theorem guarded_sound_eq_ints : forall hv o x y,
  in48 x -> in48 y -> gd_cmp_iig hv o (v_int x) (v_int y) = g_cmp hv o (v_int x) (v_int y).
Proof. exact guarded_eq_ints. Qed.

Theorem guarded_sound_eq_floats : forall hv o a b,
  a < W64 -> b < W64 -> is_float a = true -> is_float b = true ->
  (a <> b \/ is_nan_bits a = false) ->
  gd_cmp_iig hv o a b = g_cmp hv o a b /\ gd_cmp_ffg hv o a b = g_cmp hv o a b.
Proof. exact guarded_eq_floats. Qed.

Theorem guarded_sound_eq_nonnumeric : forall hv o a b,
  a < W64 -> b < W64 -> is_num a && is_num b = false ->
  gd_cmp_iig hv o a b = g_cmp hv o a b /\ gd_cmp_ffg hv o a b = g_cmp hv o a b.
Proof. exact guarded_eq_nonnum. Qed.

(* the one remaining difference between the specialised and the generic operations: == on the
   canonical NaN (IEEE: false; Value ==: true by its raw-bits shortcut).  Both operands are floats. *)
Theorem eq_on_nan_differs :
  is_float CANONICAL_NAN = true /\
  t_cmp_ff no_heap CEq CANONICAL_NAN CANONICAL_NAN = ROk (v_bool false) /\
  gd_cmp_iig no_heap CEq CANONICAL_NAN CANONICAL_NAN = ROk (v_bool false) /\
  g_cmp no_heap CEq CANONICAL_NAN CANONICAL_NAN = ROk (v_bool true).
Proof. exact eq_nan_differs. Qed.

(* ---------------------------------------------------------------- selection *)
(* with an uncertain / dynamic operand no operator gets a type-specialised (II / FF) opcode *)
Theorem select_never_unguarded_on_uncertain : forall op l r,
  is_certain l && is_certain r = false -> is_specialised_opcode (select_opcode op l r) = false.
Proof. exact select_guarded_all. Qed.

Theorem select_bitwise_specialised_exactly : forall op l r,
  is_bitwise op = true ->
  is_specialised_opcode (select_opcode op l r) =
  is_integer (unwrap_uncertain l) && is_integer (unwrap_uncertain r)
  && negb (needs_guard l || needs_guard r).
Proof. exact select_bitwise_exact. Qed.

Theorem select_typed_only_for_static_int_or_float : forall op l r,
  is_specialised_opcode (select_opcode op l r) = true ->
  (is_integer (unwrap_uncertain l) && is_integer (unwrap_uncertain r) = true) \/
  (is_float_ty (unwrap_uncertain l) && is_float_ty (unwrap_uncertain r) = true /\ is_bitwise op = false).
Proof. exact select_typed_needs_static_types. Qed.

Theorem select_dynamic_is_generic : forall op t,
  select_opcode op RDynamic t = select_generic_opcode op /\
  select_opcode op t RDynamic = select_generic_opcode op.
Proof. exact select_dynamic_generic. Qed.

(* selection composed with the VM, FULL STRENGTH: for every operator, every pair of static types
   (honest or not) and every pair of 64-bit words, the selected opcode computes exactly what the
   generic opcode of the operator computes (a value or its error) *)
Theorem selected_opcode_sound_all_words : forall hv op l r a b,
  is_eqop op = false -> a < W64 -> b < W64 ->
  run_selected hv op l r a b = Some (run_binsem hv (generic_sem op) a b).
Proof. exact selected_sound_all_words. Qed.

(* == and != : the same when both operands are floats or neither is, int operands are words
   Value::int builds, and the operands are not one and the same NaN pattern.  Not covered: an int
   compared with a float (needs facts about `i as f64`). *)
Theorem selected_eq_sound : forall hv op l r a b,
  is_eqop op = true -> a < W64 -> b < W64 ->
  is_float a = is_float b -> canon_int a -> canon_int b ->
  (a <> b \/ is_nan_bits a = false) ->
  run_selected hv op l r a b = Some (run_binsem hv (generic_sem op) a b).
Proof. exact selected_eq_sound. Qed.

(* ---------------------------------------------------------------- typed collection elements
   (Model/TypedArray.v: the storage behind Array<T> / Vec<T>, used by every ArrayLoad/Get/Store and
   VecPush/Pop/Load/Get/Store opcode whatever its type suffix) *)
(* a typed storage only ever hands out values of its element kind ... *)
Theorem typed_array_get_has_element_kind : forall d i w,
  wf d -> aget d i = Some w -> word_fits (kind_of_data d) w = true.
Proof. exact aget_kind. Qed.

(* ... refuses (reports failure, storage unchanged) a value of another kind, on store and on push ... *)
Theorem typed_array_rejects_other_kind : forall d i w,
  word_fits (kind_of_data d) w = false -> aset d i w = None /\ apush d w = None.
Proof. exact aset_rejects_other_kind. Qed.

(* ... and a successful store keeps kind and length, reads back as the stored value and leaves
   the other elements alone; a fitting value at a valid index is always accepted *)
Theorem typed_array_store_spec : forall d d' i w,
  aset d i w = Some d' ->
  kind_of_data d' = kind_of_data d /\ alen d' = alen d /\
  word_fits (kind_of_data d) w = true /\
  aget d' i = Some (canon (kind_of_data d) w) /\
  forall j, j <> i -> aget d' j = aget d j.
Proof. exact aset_spec. Qed.

Theorem typed_array_store_total : forall d i w,
  (i < alen d)%nat -> word_fits (kind_of_data d) w = true -> exists d', aset d i w = Some d'.
Proof. exact aset_total. Qed.

Theorem typed_array_push_pop : forall d d' w,
  apush d w = Some d' -> apop d' = Some (canon (kind_of_data d) w, d).
Proof. exact apush_pop. Qed.

(* well-formedness (float patterns are 64-bit words) holds initially and is preserved *)
Theorem typed_array_wf_preserved : forall d d' i w k n,
  wf (anew k n) /\
  (wf d -> w < W64 -> aset d i w = Some d' -> wf d') /\
  (wf d -> w < W64 -> apush d w = Some d' -> wf d').
Proof. intros d d' i w k n. exact (conj (anew_wf k n) (conj (aset_wf d d' i w) (apush_wf d d' w))). Qed.

(* ---- the array / vec opcodes on their register operands (arrays.inc), index operand included *)
(* a non-int index word -- a float, integral or not, a bool, null, a pointer -- never selects an
   element: every load and store arm raises the index error whatever the container (the lenient
   Get arms answer null); this is also what the generic index load VecLoadP does (c = WAny) *)
Theorem array_nonint_index_is_index_error : forall c o iw v,
  as_int iw = None ->
  op_load c o iw = AErr AEIndex /\ op_store c o iw v = AErr AEIndex /\ op_get c o iw = AOk (Some v_null) o.
Proof. exact nonint_index_is_index_error. Qed.

Theorem array_negative_index_is_index_error : forall c o iw v z,
  as_int iw = Some z -> (z < 0)%Z ->
  op_load c o iw = AErr AEIndex /\ op_store c o iw v = AErr AEIndex.
Proof. exact negative_index_is_index_error. Qed.

Theorem array_index_out_of_range_is_index_error : forall c d iw z,
  as_int iw = Some z -> (Z.of_nat (alen d) <= z)%Z ->
  (want_array c = true -> op_load c (HArray d) iw = AErr AEIndex) /\
  (want_vec c = true -> op_load c (HVec d) iw = AErr AEIndex).
Proof. exact load_out_of_range. Qed.

Theorem array_index_in_range_loads_the_element : forall c d iw z,
  as_int iw = Some z -> (0 <= z < Z.of_nat (alen d))%Z ->
  exists w, aget d (Z.to_nat z) = Some w /\
    (want_array c = true -> op_load c (HArray d) iw = AOk (Some w) (HArray d)) /\
    (want_vec c = true -> op_load c (HVec d) iw = AOk (Some w) (HVec d)).
Proof. exact load_in_range. Qed.

(* conversely: whenever a load produces a value, it read it at an int index inside the container *)
Theorem array_load_value_only_from_int_index : forall c o o' iw w,
  op_load c o iw = AOk (Some w) o' ->
  o' = o /\ exists z d, as_int iw = Some z /\ (0 <= z < Z.of_nat (alen d))%Z /\
                        (o = HArray d \/ o = HVec d) /\ aget d (Z.to_nat z) = Some w.
Proof. exact load_value_spec. Qed.

Theorem array_store_only_at_int_index : forall c o o' iw v r,
  op_store c o iw v = AOk r o' ->
  r = None /\ exists z d d', as_int iw = Some z /\ (0 <= z < Z.of_nat (alen d))%Z /\
     aset d (Z.to_nat z) v = Some d' /\ word_fits (kind_of_data d) v = true /\
     ((o = HArray d /\ o' = HArray d') \/ (o = HVec d /\ o' = HVec d')).
Proof. exact store_spec. Qed.

(* the typed load / store arms are the generic index load / store (VecLoadP, VecStoreP) on every
   container they accept, for EVERY 64-bit index word *)
Theorem typed_array_ops_are_the_generic_index_ops : forall d iw v,
  (op_load WArray (HArray d) iw = op_load WAny (HArray d) iw /\
   op_load WVec (HVec d) iw = op_load WAny (HVec d) iw) /\
  (op_store WArray (HArray d) iw v = op_store WAny (HArray d) iw v /\
   op_store WVec (HVec d) iw v = op_store WAny (HVec d) iw v).
Proof. intros d iw v. exact (conj (typed_load_is_generic_load d iw) (typed_store_is_generic_store d iw v)). Qed.

(* ---- array / vec literals and for-each (after the round-4 repairs) *)
(* a literal that is built holds exactly its elements, all of the kind of the first one ... *)
Theorem literal_holds_its_elements : forall w r d,
  op_lit (w :: r) = Some d ->
  kind_of_data d = first_kind w /\
  Forall (fun x => word_fits (first_kind w) x = true) (w :: r) /\
  contents d = map (canon (first_kind w)) (w :: r).
Proof. exact lit_spec. Qed.

(* ... and an element of another kind makes it a type error (never a 0 in its place) *)
Theorem literal_mismatch_is_type_error : forall w r,
  Exists (fun x => word_fits (first_kind w) x = false) r -> op_lit (w :: r) = None.
Proof. exact lit_mismatch_is_type_error. Qed.

(* for-each (StringForLoop, VecForLoop, ArrayForLoop are one step function): a value that is not
   a collection is the type error; a produced element is the element at the index *)
Theorem foreach_non_collection_is_type_error : forall iw,
  op_each HOther iw = EErr /\ op_each HNone iw = EErr.
Proof. exact each_non_collection. Qed.

Theorem foreach_element_spec : forall o iw w,
  op_each o iw = EElem w ->
  exists d z, (o = HArray d \/ o = HVec d) /\ (0 <= z < Z.of_nat (alen d))%Z /\ aget d (Z.to_nat z) = Some w /\
              z = match as_int iw with Some z => z | None => 0%Z end.
Proof. exact each_elem_spec. Qed.

Example C06_literal_foreach_nonvacuous :
  op_lit [v_int 1; 0x4004000000000000; v_int 3] = None /\
  op_lit [v_int 1; v_int 2] = Some (DInts [1%Z; 2%Z]) /\
  op_lit [v_null; v_int 2] = Some (DObjects [v_null; v_int 2]) /\
  op_each HOther (v_int 0) = EErr /\
  op_each (HArray (DInts [5%Z])) (v_int 0) = EElem (v_int 5) /\
  op_each (HString 2) (v_int 1) = EChar 1 /\ op_each (HVec (DInts [])) (v_int 0) = EEnd.
Proof. exact lit_each_nonvacuous. Qed.

Example C06_array_opcode_nonvacuous :
  op_load WArray (HArray (DFloats [0x4025000000000000; 0x4034800000000000])) 0x3FF0000000000000 = AErr AEIndex /\
  op_load WAny (HVec (DObjects [5; 6])) 0x3FF0000000000000 = AErr AEIndex /\
  op_load WArray (HArray (DFloats [0x4025000000000000; 0x4034800000000000])) (v_int 1) = AOk (Some 0x4034800000000000) (HArray (DFloats [0x4025000000000000; 0x4034800000000000])) /\
  op_load WArray (HArray (DInts [1%Z])) (v_int 140737488355327) = AErr AEIndex /\
  op_store WVec (HVec (DInts [1%Z])) (v_bool true) (v_int 2) = AErr AEIndex /\
  array_op 136 (HArray (DFloats [0])) v_null 0 = Some (AErr AEIndex).
Proof. exact opcode_level_nonvacuous. Qed.

Example C06_typed_array_nonvacuous :
  aset (anew KI 2) 0 (v_int 7) = Some (DInts [7%Z; 0%Z]) /\
  aset (anew KI 2) 0 0x4004000000000000 = None /\
  aget (DFloats [0x4004000000000000]) 0 = Some 0x4004000000000000 /\
  apush (DBools []) (v_int 1) = None /\
  wf (anew KF 3).
Proof. exact typed_array_nonvacuous. Qed.

(* ---------------------------------------------------------------- generated structure of the dispatch loop *)
(* the VM's dispatch arms (numeric literals in the .inc files) are the enum's discriminants *)
Theorem dispatch_numbers_match_enum : dispatch_numbers_ok = true.
Proof. exact dispatch_numbers_check. Qed.

(* Extracted/DispatchArms.v (regenerated from the .inc files on every run): every modelled opcode
   has a match arm, and no arm of the arithmetic / comparison / bitwise / control-flow dispatch
   calls as_int_unchecked / as_float_unchecked *)
Theorem dispatch_arms_match_model :
  modelled_opcodes_have_arms = true /\ no_unchecked_accessor_in_dispatch = true.
Proof. exact dispatch_arms_facts. Qed.

(* ---------------------------------------------------------------- the OLD definitions (record of the defects) *)
(* before 7e82908: AddII on the float 2.5 returned a non-error int different from generic Add *)
Theorem old_unchecked_mismatch :
  is_float W_2_5 = true /\
  g_arith no_heap AAdd W_2_5 (v_int 1) = ROk W_3_5 /\
  t_arith_ii no_heap AAdd W_2_5 (v_int 1) = ROk W_3_5 /\
  exists w, t_arith_ii_old AAdd W_2_5 (v_int 1) = ROk w /\ is_int w = true /\ w <> W_3_5.
Proof. exact old_addii_misread_float. Qed.

Theorem old_unchecked_mismatch_ff :
  g_arith no_heap AAdd (v_int 1) (v_int 2) = ROk (v_int 3) /\
  t_arith_ff no_heap AAdd (v_int 1) (v_int 2) = ROk (v_int 3) /\
  t_arith_ff_old AAdd (v_int 1) (v_int 2) = ROk CANONICAL_NAN.
Proof. exact old_addff_misread_int. Qed.

Theorem old_loop_ops_needed_ints :
  (g_ord CLt (v_int 0) W_2_5 = Some true /\ while_loop_lt (v_int 0) W_2_5 = Some true /\
   while_loop_lt_old (v_int 0) W_2_5 = false) /\
  (forloop_i false (v_int 0) W_2_5 (v_int 1) = None /\
   forloop_i_old false (v_int 0) W_2_5 (v_int 1) = (v_int 1, false)) /\
  (g_cmp no_heap CLt 0x401E000000000000 (v_int 5) = ROk (v_bool false) /\
   t_cmp_imm no_heap CLt 0x401E000000000000 5 = ROk (v_bool false) /\
   t_cmp_imm_old CLt 0x401E000000000000 5 = ROk (v_bool true)).
Proof. exact old_loops_misread_float. Qed.

Theorem old_ffg_promoted_two_ints :
  gd_arith_ffg_old no_heap ADiv (v_int 7) (v_int 2) = ROk W_3_5 /\
  gd_arith_ffg no_heap ADiv (v_int 7) (v_int 2) = ROk (v_int 3) /\
  g_arith no_heap ADiv (v_int 7) (v_int 2) = ROk (v_int 3).
Proof. exact old_ffg_promoted_ints. Qed.

Theorem old_guarded_ord_nonnumeric_was_false :
  gd_cmp_iig_old no_heap CLt v_null (v_int 1) = ROk (v_bool false) /\
  g_cmp no_heap CLt v_null (v_int 1) = RErr ETypeError /\
  gd_cmp_iig no_heap CLt v_null (v_int 1) = RErr ETypeError.
Proof. exact old_guarded_ord_answered_false. Qed.

Theorem old_select_guarded_int_was_unchecked :
  is_specialised_opcode (select_guarded_int_opcode_old OpShl) = true /\
  is_specialised_opcode (select_guarded_int_opcode OpShl) = false /\
  select_opcode OpShl (RUncertain RI64) (RUncertain RI64) = O_Shl.
Proof. exact old_guarded_int_selection_was_unchecked. Qed.

(* ---------------------------------------------------------------- non-vacuity / grids *)
Example C06_codec_grid :
  forallb (fun a => forallb (fun b => codec_eq_on a b) codec_grid) codec_grid = true /\
  forallb (fun w => bits_of_f (f_of_bits w) =? v_float w) codec_grid = true.
Proof. exact (conj codec_eq_grid codec_roundtrip_grid). Qed.

Example C06_nonvacuous :
  is_int (v_int (-140737488355328)) = true /\ is_float W_2_5 = true /\ W_2_5 < W64 /\
  t_arith_ii no_heap AMul (v_int 140737488355327) (v_int 3) = ROk (v_int 140737488355325) /\
  t_arith_ii no_heap AAdd W_2_5 (v_int 1) = ROk W_3_5 /\
  t_arith_ff no_heap ADiv (v_int 1) W_2_5 = g_arith no_heap ADiv (v_int 1) W_2_5 /\
  t_arith_imm no_heap AAdd v_null 3 = RErr ETypeError /\
  gd_arith_iig no_heap AAdd (v_int 1) W_2_5 = ROk W_3_5 /\
  forloop_i true (v_int 1) (v_int 2) (v_int 1) = Some (v_int 2, true).
Proof. exact nonvacuous_c06. Qed.

Example C06_nonvacuous_select :
  select_opcode OpAdd RI64 RF64 = O_AddFFG /\ select_opcode OpAdd RI64 RDynamic = O_Add /\
  select_opcode OpShl (RUncertain RI64) RI64 = O_Shl /\ select_opcode OpAdd (RUncertain RI64) RI64 = O_AddIIG /\
  select_opcode OpMul RI32 RF32 = O_MulFFG /\ select_opcode OpLt RU8 RI64 = O_LtII /\
  run_selected no_heap OpAdd RI64 RI64 W_2_5 (v_int 1) = Some (ROk W_3_5) /\
  canon_int (v_int 5) /\ canon_int v_null.
Proof. exact nonvacuous_select. Qed.
