(* C06 -- Type-specialised fast paths never misread a value.
   Property theorems only; proofs live in Proofs/VmArithProofs.v and Proofs/OpcodeSelectProofs.v.
   Words are N < 2^64 (W64); hv is an arbitrary view of the heap's strings.
   What is NOT a theorem here: "whenever the type checker accepts a program ..." -- sema is not
   modelled; that half is explored by the whole-pipeline tie (tools/props/c06.py). *)
From Aelys Require Import Base.Tactics Extracted.ValueConsts Extracted.Opcodes Model.Value
  Proofs.ValueProofs Model.VmArith Proofs.VmArithProofs Model.OpcodeSelect Proofs.OpcodeSelectProofs.
From Coq Require Import Floats.
Local Open Scope N_scope.

(* ---------------------------------------------------------------- typed_agrees_when_tagged
   one theorem per family: every typed op equals the generic op whenever the operand tags
   are the ones the opcode assumes; for ALL words *)
Theorem typed_agrees_when_tagged_arith_ii : forall hv o a b,
  is_int a = true -> is_int b = true -> t_arith_ii o a b = g_arith hv o a b.
Proof. exact typed_arith_ii_agrees. Qed.

Theorem typed_agrees_when_tagged_ord_ii : forall hv o a b,
  is_ord o = true -> is_int a = true -> is_int b = true -> t_cmp_ii o a b = g_cmp hv o a b.
Proof. exact typed_ord_ii_agrees. Qed.

(* EqII / NeII (and Lt..Ge again) on the int words the VM creates, Value::int x *)
Theorem typed_agrees_when_tagged_cmp_ii_ints : forall hv o x y,
  in48 x -> in48 y -> t_cmp_ii o (v_int x) (v_int y) = g_cmp hv o (v_int x) (v_int y).
Proof. exact typed_eq_ii_agrees. Qed.

(* ... the statement for ALL int-tagged words is false: a word with the int tag and the sign
   bit set (never built by Value::int) compares equal by payload but not by Value::eq *)
Theorem typed_agrees_when_tagged_eq_ii_refuted : exists a b,
  is_int a = true /\ is_int b = true /\ t_cmp_ii CEq a b <> g_cmp no_heap CEq a b.
Proof. exact eq_ii_all_words_refuted. Qed.

Theorem typed_agrees_when_tagged_bit_ii : forall o a b,
  is_int a = true -> is_int b = true -> t_bit_ii o a b = g_bit o a b.
Proof. exact typed_bit_ii_agrees. Qed.

Theorem typed_agrees_when_tagged_not_i : forall a, is_int a = true -> t_not_i a = g_bitnot a.
Proof. exact typed_not_i_agrees. Qed.

Theorem typed_agrees_when_tagged_arith_ff : forall hv o a b,
  a < W64 -> b < W64 -> is_float a = true -> is_float b = true ->
  t_arith_ff o a b = g_arith hv o a b.
Proof. exact typed_arith_ff_agrees. Qed.

Theorem typed_agrees_when_tagged_ord_ff : forall hv o a b,
  is_ord o = true -> a < W64 -> b < W64 -> is_float a = true -> is_float b = true ->
  t_cmp_ff o a b = g_cmp hv o a b.
Proof. exact typed_ord_ff_agrees. Qed.

(* EqFF / NeFF: PARTIAL.  Missing: the codec fact `codec_eq_fact` (primitive-float == of the
   decoded operands = IEEE == on the bit patterns as defined in Model/Value.v) is a premise,
   not proved; it is checked on a grid (C06_codec_grid) and by the hx_vmop tie.  The excluded
   case a = b = NaN is a real disagreement (typed_agrees_when_tagged_eq_ff_refuted). *)
Theorem typed_agrees_when_tagged_eq_ff_partial : forall hv o a b,
  codec_eq_fact ->
  is_ord o = false -> a < W64 -> b < W64 -> is_float a = true -> is_float b = true ->
  (a <> b \/ is_nan_bits a = false) ->
  t_cmp_ff o a b = g_cmp hv o a b.
Proof. exact typed_eq_ff_agrees_under_codec. Qed.

Theorem typed_agrees_when_tagged_eq_ff_refuted : exists a,
  is_float a = true /\ t_cmp_ff CEq a a = ROk (v_bool false) /\ g_cmp no_heap CEq a a = ROk (v_bool true).
Proof. exact eq_ff_nan_refuted. Qed.

Theorem typed_agrees_when_tagged_arith_imm : forall hv o a c,
  is_int a = true -> c < 256 -> t_arith_imm o a c = g_arith hv o a (v_int (Z.of_N c)).
Proof. exact typed_arith_imm_agrees. Qed.

Theorem typed_agrees_when_tagged_cmp_imm : forall hv o a c,
  is_ord o = true -> is_int a = true -> c < 256 ->
  t_cmp_imm o a c = g_cmp hv o a (v_int (Z.of_N c)).
Proof. exact typed_cmp_imm_agrees. Qed.

Theorem typed_agrees_when_tagged_bit_imm : forall o a c,
  is_int a = true -> c < 256 -> t_bit_imm o a c = g_bit o a (v_int (Z.of_N c)).
Proof. exact typed_bit_imm_agrees. Qed.

(* ---------------------------------------------------------------- loop_ops_need_ints *)
Theorem loop_ops_agree_when_tagged_while : forall hv a b,
  is_int a = true -> is_int b = true -> ROk (v_bool (while_loop_lt a b)) = g_cmp hv CLt a b.
Proof. exact while_loop_agrees. Qed.

Theorem loop_ops_agree_when_tagged_for : forall incl i e s,
  is_int i = true -> is_int e = true -> is_int s = true ->
  exists x y z, as_int i = Some x /\ as_int e = Some y /\ as_int s = Some z /\
    forloop_i incl i e s =
      (v_int (x + z),
       if (0 <? z)%Z then (if incl then (x + z <=? y)%Z else (x + z <? y)%Z)
       else (if incl then (y <=? x + z)%Z else (y <? x + z)%Z)).
Proof. exact forloop_agrees. Qed.

(* with a float bound the unchecked reads give the wrong answer and no error *)
Theorem loop_ops_need_ints_refuted :
  (g_cmp no_heap CLt (v_int 0) W_2_5 = ROk (v_bool true) /\ while_loop_lt (v_int 0) W_2_5 = false) /\
  (g_cmp no_heap CLt (v_int 1) W_2_5 = ROk (v_bool true) /\
   forloop_i false (v_int 0) W_2_5 (v_int 1) = (v_int 1, false)) /\
  (g_cmp no_heap CLt 0x401E000000000000 (v_int 5) = ROk (v_bool false) /\
   t_cmp_imm CLt 0x401E000000000000 5 = ROk (v_bool true)).
Proof. exact (conj while_loop_misreads_float (conj forloop_misreads_float ltimm_misreads_float)). Qed.

(* ---------------------------------------------------------------- unchecked_mismatch_refuted
   there is a float word on which AddII returns a non-error value different from generic Add *)
Theorem unchecked_mismatch_refuted : exists a b w,
  is_float a = true /\ a < W64 /\
  t_arith_ii AAdd a b = ROk w /\ g_arith no_heap AAdd a b <> ROk w /\
  g_arith no_heap AAdd a b <> RErr ETypeError.
Proof. exact unchecked_mismatch_witness. Qed.

Theorem unchecked_mismatch_ff_refuted :
  g_arith no_heap AAdd (v_int 1) (v_int 2) = ROk (v_int 3) /\
  t_arith_ff AAdd (v_int 1) (v_int 2) = ROk CANONICAL_NAN.
Proof. exact addff_misreads_int. Qed.

(* ---------------------------------------------------------------- guarded_total_sound
   "for all words: guarded op = generic op, or TypeError" -- FALSE as a whole: *)
Theorem guarded_total_sound_refuted :
  (* DivFFG 7 2 = 3.5, Div 7 2 = 3 *)
  (gd_arith_ffg no_heap ADiv (v_int 7) (v_int 2) = ROk W_3_5 /\
   g_arith no_heap ADiv (v_int 7) (v_int 2) = ROk (v_int 3)) /\
  (* EqIIG NaN NaN = false, Eq NaN NaN = true *)
  (gd_cmp_iig no_heap CEq CANONICAL_NAN CANONICAL_NAN = ROk (v_bool false) /\
   g_cmp no_heap CEq CANONICAL_NAN CANONICAL_NAN = ROk (v_bool true)).
Proof. exact guarded_total_sound_witnesses. Qed.

(* the strongest true statements, family by family *)
Theorem guarded_total_sound_arith_iig : forall hv o a b,
  a < W64 -> b < W64 -> gd_arith_iig hv o a b = g_arith hv o a b.
Proof. exact guarded_arith_iig_total. Qed.

Theorem guarded_sound_arith_ffg : forall hv o a b,
  a < W64 -> b < W64 -> is_int a && is_int b = false -> gd_arith_ffg hv o a b = g_arith hv o a b.
Proof. exact guarded_arith_ffg_sound. Qed.

(* since fix 5bb247f the guarded orderings fall back to the generic comparison on non-numbers:
   LtIIG..GeIIG equal the generic op on EVERY pair of words *)
Theorem guarded_total_sound_ord_iig : forall hv o a b,
  is_ord o = true -> a < W64 -> b < W64 -> gd_cmp_iig hv o a b = g_cmp hv o a b.
Proof. exact guarded_ord_iig_total. Qed.

Theorem guarded_sound_ord_ffg : forall hv o a b,
  is_ord o = true -> a < W64 -> b < W64 -> is_int a && is_int b = false ->
  gd_cmp_ffg hv o a b = g_cmp hv o a b.
Proof. exact guarded_ord_ffg_sound. Qed.

(* about the OLD definition only (before 5bb247f): the guarded orderings answered false on non-numbers *)
Theorem old_guarded_ord_nonnumeric_was_false :
  gd_cmp_iig_old no_heap CLt v_null (v_int 1) = ROk (v_bool false) /\
  g_cmp no_heap CLt v_null (v_int 1) = RErr ETypeError /\
  gd_cmp_iig no_heap CLt v_null (v_int 1) = RErr ETypeError.
Proof. exact old_guarded_ord_answered_false. Qed.

Theorem guarded_sound_eq_ints : forall hv o x y,
  in48 x -> in48 y -> gd_cmp_iig hv o (v_int x) (v_int y) = g_cmp hv o (v_int x) (v_int y).
Proof. exact guarded_eq_ints. Qed.

Theorem guarded_sound_eq_nonnumeric : forall hv o a b,
  is_ord o = false -> a < W64 -> b < W64 -> is_num a && is_num b = false ->
  gd_cmp_iig hv o a b = g_cmp hv o a b /\ gd_cmp_ffg hv o a b = g_cmp hv o a b.
Proof. exact guarded_eq_nonnum. Qed.

(* ---------------------------------------------------------------- selection *)
(* select_never_unguarded_on_uncertain: TRUE at full strength since fix da40ed1 *)
Theorem select_never_unguarded_on_uncertain : forall op l r,
  is_certain l && is_certain r = false -> is_specialised_opcode (select_opcode op l r) = false.
Proof. exact select_guarded_all. Qed.

(* the unchecked shift / bitwise opcodes are chosen exactly for two integer types without guard *)
Theorem select_bitwise_unchecked_exactly : forall op l r,
  is_bitwise op = true ->
  is_specialised_opcode (select_opcode op l r) =
  is_integer (unwrap_uncertain l) && is_integer (unwrap_uncertain r)
  && negb (needs_guard l || needs_guard r).
Proof. exact select_bitwise_exact. Qed.

(* about the OLD definition only (before da40ed1): guarded int selection returned ShlII.. *)
Theorem old_select_guarded_int_was_unchecked :
  is_specialised_opcode (select_guarded_int_opcode_old OpShl) = true /\
  is_specialised_opcode (select_guarded_int_opcode OpShl) = false /\
  select_opcode OpShl (RUncertain RI64) (RUncertain RI64) = O_Shl.
Proof. exact old_guarded_int_selection_was_unchecked. Qed.

Theorem select_typed_only_for_static_int_or_float : forall op l r,
  is_specialised_opcode (select_opcode op l r) = true ->
  (is_integer (unwrap_uncertain l) && is_integer (unwrap_uncertain r) = true) \/
  (is_float_ty (unwrap_uncertain l) && is_float_ty (unwrap_uncertain r) = true /\ is_bitwise op = false).
Proof. exact select_typed_needs_static_types. Qed.

Theorem select_dynamic_is_generic : forall op t,
  select_opcode op RDynamic t = select_generic_opcode op /\
  select_opcode op t RDynamic = select_generic_opcode op.
Proof. exact select_dynamic_generic. Qed.

(* selection composed with the VM: if the runtime words carry the tags their static types
   promise, the selected opcode computes exactly what the generic opcode computes *)
Theorem selected_opcode_agrees_when_tags_match : forall hv op l r a b,
  is_eqop op = false -> a < W64 -> b < W64 ->
  word_has_type l a = true -> word_has_type r b = true ->
  run_selected hv op l r a b = Some (run_binsem hv (generic_sem op) a b).
Proof. exact selected_agrees_when_tags_match. Qed.

(* the VM's dispatch arms (numeric literals in the .inc files) are the enum's discriminants *)
Theorem dispatch_numbers_match_enum : dispatch_numbers_ok = true.
Proof. exact dispatch_numbers_check. Qed.

(* ---------------------------------------------------------------- non-vacuity / grids *)
Example C06_codec_grid :
  forallb (fun a => forallb (fun b => codec_eq_on a b) codec_grid) codec_grid = true /\
  forallb (fun w => bits_of_f (f_of_bits w) =? v_float w) codec_grid = true.
Proof. exact (conj codec_eq_grid codec_roundtrip_grid). Qed.

Example C06_nonvacuous :
  (* hypotheses of the agreement theorems are met by real, non-trivial operands *)
  is_int (v_int (-140737488355328)) = true /\ is_float W_2_5 = true /\ W_2_5 < W64 /\
  t_arith_ii AMul (v_int 140737488355327) (v_int 3) = ROk (v_int 140737488355325) /\
  t_arith_ff ADiv (v_int 1) W_2_5 = ROk CANONICAL_NAN /\
  gd_arith_iig no_heap AAdd (v_int 1) W_2_5 = ROk W_3_5.
Proof. exact nonvacuous_c06. Qed.

Example C06_nonvacuous_select :
  word_has_type RI64 (v_int 7) = true /\ word_has_type RI64 W_2_5 = false /\
  select_opcode OpAdd RI64 RF64 = O_AddFFG /\ select_opcode OpAdd RI64 RDynamic = O_Add /\
  select_opcode OpShl (RUncertain RI64) RI64 = O_Shl /\ select_opcode OpAdd (RUncertain RI64) RI64 = O_AddIIG.
Proof. exact nonvacuous_select. Qed.
