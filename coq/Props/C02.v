(* C02 -- Compiled execution matches the language's defined semantics.
   Theorems about the definitional evaluator's kernels (the oracle of the translation
   validation); the tie itself is the per-program comparison done by tools/props/c02.py. *)
From Coq Require Import String.
From Aelys Require Import Base.Tactics Model.Lang Model.Eval Proofs.EvalProofs.
From Aelys Require Import Model.RegPool Proofs.RegPoolProofs.
From Aelys Require Import Model.CallLive Proofs.CallLiveProofs.

(* integer arithmetic is Z arithmetic reduced to the 48-bit two's-complement range *)
Theorem C02_int_ops_wrap48 : forall a b : Z,
  int_binop BAdd a b = ROk (VInt (wrap48 (a + b))) /\
  int_binop BSub a b = ROk (VInt (wrap48 (a - b))) /\
  int_binop BMul a b = ROk (VInt (wrap48 (a * b))) /\
  (-140737488355328 <= wrap48 (a + b) < 140737488355328)%Z.
Proof. exact int_ops_wrap48. Qed.

Theorem C02_wrap48_id : forall n : Z, (-140737488355328 <= n < 140737488355328)%Z -> wrap48 n = n.
Proof. exact wrap48_id. Qed.

(* division truncates toward zero, the remainder takes the sign of the dividend, and
   division by zero is an error *)
Theorem C02_div_truncates : forall a b : Z, b <> 0%Z ->
  (-140737488355328 <= a < 140737488355328)%Z -> (-140737488355328 < b < 140737488355328)%Z ->
  exists q r, int_binop BDiv a b = ROk (VInt (wrap48 q)) /\ int_binop BMod a b = ROk (VInt r) /\
              a = (b * q + r)%Z /\ (Z.abs r < Z.abs b)%Z /\ (r = 0 \/ Z.sgn r = Z.sgn a)%Z.
Proof. exact div_truncates. Qed.

Theorem C02_div_by_zero : forall a : Z,
  int_binop BDiv a 0 = RErr EDivZero /\ int_binop BMod a 0 = RErr EDivZero.
Proof. exact div_by_zero. Qed.

(* ranges: a for-loop over a range is, for EVERY body, environment, state and fuel, the same
   computation as a for-each over the list of the range's values ... *)
Theorem C02_for_is_foreach_over_range : forall (fuel : nat) depth env st x i hi incl step b,
  exec_for fuel depth env st x i hi incl step b
  = exec_foreach fuel depth env st x (map VInt (range_list fuel i hi incl step)) b.
Proof. exact exec_for_is_foreach. Qed.

(* ... and that list is the arithmetic range: ascending exclusive [lo, lo+s, ..) below hi, *)
Theorem C02_range_up_exclusive : forall (n : nat) fuel lo hi step,
  (0 < step)%Z -> (n < fuel)%nat ->
  (-140737488355328 <= lo)%Z -> (lo + Z.of_nat n * step < 140737488355328)%Z ->
  (lo + (Z.of_nat n - 1) * step < hi <= lo + Z.of_nat n * step)%Z ->
  range_list fuel lo hi false step = map (fun k => (lo + Z.of_nat k * step)%Z) (seq 0 n).
Proof. exact range_list_up_excl. Qed.

(* descending inclusive lo, lo-s, .. down to the last value >= hi (the end value is visited
   when it is hit exactly) *)
Theorem C02_range_down_inclusive : forall (n : nat) fuel lo hi s,
  (0 < s)%Z -> (n < fuel)%nat ->
  (lo < 140737488355328)%Z -> (-140737488355328 <= lo - Z.of_nat n * s)%Z ->
  (lo - Z.of_nat n * s < hi <= lo - (Z.of_nat n - 1) * s)%Z ->
  range_list fuel lo hi true (- s) = map (fun k => (lo - Z.of_nat k * s)%Z) (seq 0 n).
Proof. exact range_list_down_incl. Qed.

(* short-circuit: when the left operand decides, the right one is not evaluated at all
   (the state is the one left by the left operand) *)
Theorem C02_and_short_circuit : forall fuel depth env st a b st1 va,
  eval_expr fuel depth env st a = (st1, ROk va) -> truthy va = false ->
  eval_expr (S fuel) depth env st (EAnd a b) = (st1, ROk va).
Proof. exact and_short_circuit. Qed.
Theorem C02_or_short_circuit : forall fuel depth env st a b st1 va,
  eval_expr fuel depth env st a = (st1, ROk va) -> truthy va = true ->
  eval_expr (S fuel) depth env st (EOr a b) = (st1, ROk va).
Proof. exact or_short_circuit. Qed.

(* parameters are copies: binding them only appends fresh cells, every cell the caller can see
   keeps its value, and a later assignment to a fresh cell cannot touch an old one *)
Theorem C02_params_are_fresh_cells : forall (ps : list (string * bool)) vs env st env' st',
  bind_params ps vs env st = (env', st') ->
  (forall l, (l < List.length (cells st))%nat -> nth l (cells st') VNull = nth l (cells st) VNull)
  /\ (List.length (cells st) <= List.length (cells st'))%nat
  /\ globals st' = globals st /\ objs st' = objs st /\ out st' = out st.
Proof. exact bind_params_fresh. Qed.
Theorem C02_assignment_is_local_to_its_cell : forall st l v j,
  l <> j -> nth j (cells (set_cell st l v)) VNull = nth j (cells st) VNull.
Proof. exact set_cell_other. Qed.

Example C02_nonvacuous :
  range_list 10 2 8 false 3 = [2; 5]%Z /\ range_list 10 10 0 true (-5) = [10; 5; 0]%Z
  /\ range_list 10 10 1 true (-5) = [10; 5]%Z.
Proof. vm_compute. repeat split; reflexivity. Qed.

(* ---- the compiler's register pool and the callee's register window --------------------------
   The VM puts the callee's frame right after the call's window, so a call overwrites every
   caller register above the window (Model/RegPool.v).  On a pool without holes: *)

(* a freshly allocated register is the top: a call whose destination it is (CallGlobal /
   CallUpval with the arguments allocated after it) has nothing in use above it *)
Theorem C02_fresh_register_is_on_top : forall p r p',
  compact p -> alloc p = Some (r, p') ->
  r = top p /\ compact p' /\ top p' = S r /\ window_clear p' r.
Proof. exact alloc_compact. Qed.

(* the window alloc_consecutive_registers_for_call finds for a callee and its nargs arguments
   starts at the top, and once marked nothing is in use above it *)
Theorem C02_call_window_is_on_top : forall p nargs s,
  compact p -> first_fit p (S nargs) = Some s ->
  s = top p /\ window_clear (mark p s (S nargs)) (s + nargs) /\ compact (mark p s (S nargs)).
Proof.
  intros p n s C H. destruct (first_fit_compact p n s C H) as (E & _).
  destruct (window_compact p n s C H) as (W & C' & _). auto.
Qed.

(* every sequence of the pool operations the compiler performs - allocate, release the top
   register, release dead locals (as repaired: from the top only), take a call window - keeps
   the pool free of holes, from the empty pool a function starts with *)
Theorem C02_pool_operations_keep_it_compact : forall (ops : list pop) n,
  compact (fold_left pstep ops (repeat false n)).
Proof. intros ops n. apply run_compact. apply compact_empty. Qed.

(* release of dead locals frees nothing that is not dead *)
Theorem C02_free_dead_frees_only_dead : forall fuel dead p r,
  used p r = true -> used (free_dead_top fuel dead p) r = false -> dead r = true.
Proof. exact free_dead_top_only_dead. Qed.

(* and a hole is exactly what goes wrong: the register allocated next lies below a register in
   use, which the callee of a call made into it would overwrite (KF-C02-11) *)
Theorem C02_hole_makes_next_call_unsafe : forall p r p',
  alloc p = Some (r, p') -> r < top p -> ~ window_clear p' r.
Proof. exact hole_alloc_below_live. Qed.

Example C02_old_free_dead_made_a_hole :
  let p := [true; true; true; false] in
  let dead := fun r : nat => Nat.eqb r 0%nat in
  (compactb p = true) /\
  (free_dead_anywhere dead p 0%nat = [false; true; true; false]) /\
  (alloc (free_dead_anywhere dead p 0%nat) = Some (0%nat, [true; true; true; false])) /\
  (free_dead_top 4 dead p = p) /\
  (alloc (free_dead_top 4 dead p) = Some (3%nat, [true; true; true; true])).
Proof. vm_compute. repeat split; reflexivity. Qed.

(* ---- liveness across calls, on the emitted bytecode (Model/CallLive.v) -----------------------
   The analysis run on every compiled function reports a call when a register above its window
   is live after it.  Whatever number of sweeps is used, a reported register is never an artefact
   of the iteration: it is above the window, it is not the call's own destination, and from a
   successor of the call there is a path in the flow graph to an instruction that reads it with
   no write of it on the way - the value the callee's frame overwrote is the value that read sees. *)
Theorem C02_live_register_has_a_path_to_a_read : forall k g i r,
  N.testbit (clobbered g (solve k g (repeat 0%N (length g))) i) r = true ->
  exists nd last dest s,
    nth_error g i = Some nd /\ n_call nd = Some (last, dest) /\
    (last < r)%N /\ r <> dest /\ In s (n_succ nd) /\ reach g r s.
Proof. exact clobbered_has_witness. Qed.

Theorem C02_liveness_sweeps_are_sound : forall k g l, sound g l -> sound g (solve k g l).
Proof. exact solve_sound. Qed.

Theorem C02_alarm_is_a_nonempty_clobbered_set : forall k g i m, In (i, m) (alarms k g) ->
  m = clobbered g (solve k g (repeat 0%N (length g))) i /\ m <> 0%N.
Proof. exact alarms_spec. Qed.

(* the same analysis from the function's entry: a register it reports is not a parameter and is
   read on some path before anything wrote it *)
Theorem C02_entry_read_has_a_path : forall k arity ws r,
  N.testbit (entry_reads k arity ws) r = true ->
  (arity <= r)%N /\ reach (graph_of ws) r 0%nat.
Proof. exact entry_read_has_witness. Qed.

(* KF-C02-11 as bytecode: LoadI r1, 10; CallGlobal r0, 0, 0 (+ 2 cache words); AddII r2, r0, r1;
   Return r2 - register 1 is read after the call into r0 returns; and the repaired allocation *)
Example C02_call_liveness_nonvacuous :
  let w := fun op a b c : N => (op * 16777216 + a * 65536 + b * 256 + c)%N in
  call_alarms 8 [w 1 1 0 10; w 77 0 0 0; 0; 0; w 49 2 0 1; w 22 2 0 0]%N = [(1, 2)]%N /\
  call_alarms 8 [w 1 1 0 10; w 77 2 0 0; 0; 0; w 49 3 2 1; w 22 3 0 0]%N = [].
Proof. vm_compute. split; reflexivity. Qed.
