(* C02 -- Compiled execution matches the language's defined semantics.
   Theorems about the definitional evaluator's kernels (the oracle of the translation
   validation); the tie itself is the per-program comparison done by tools/props/c02.py. *)
From Aelys Require Import Base.Tactics Model.Lang Model.Eval Proofs.EvalProofs.

(* integer arithmetic is Z arithmetic reduced to the 48-bit two's-complement range *)
Theorem C02_int_ops_wrap48 : forall a b : Z,
  int_binop BAdd a b = ROk (VInt (wrap48 (a + b))) /\
  int_binop BSub a b = ROk (VInt (wrap48 (a - b))) /\
  int_binop BMul a b = ROk (VInt (wrap48 (a * b))) /\
  (-140737488355328 <= wrap48 (a + b) < 140737488355328)%Z.
Proof. exact int_ops_wrap48. Qed.

Theorem C02_wrap48_id : forall n : Z, (-140737488355328 <= n < 140737488355328)%Z -> wrap48 n = n.
Proof. exact wrap48_id. Qed.

(* division truncates toward zero, the remainder takes the sign of the dividend, and
   division by zero is an error *)
Theorem C02_div_truncates : forall a b : Z, b <> 0%Z ->
  (-140737488355328 <= a < 140737488355328)%Z -> (-140737488355328 < b < 140737488355328)%Z ->
  exists q r, int_binop BDiv a b = ROk (VInt (wrap48 q)) /\ int_binop BMod a b = ROk (VInt r) /\
              a = (b * q + r)%Z /\ (Z.abs r < Z.abs b)%Z /\ (r = 0 \/ Z.sgn r = Z.sgn a)%Z.
Proof. exact div_truncates. Qed.

Theorem C02_div_by_zero : forall a : Z,
  int_binop BDiv a 0 = RErr EDivZero /\ int_binop BMod a 0 = RErr EDivZero.
Proof. exact div_by_zero. Qed.
