(* C02 -- Compiled execution matches the language's defined semantics.
   Theorems about the definitional evaluator's kernels (the oracle of the translation
   validation); the tie itself is the per-program comparison done by tools/props/c02.py. *)
From Coq Require Import String.
From Aelys Require Import Base.Tactics Model.Lang Model.Eval Proofs.EvalProofs.

(* integer arithmetic is Z arithmetic reduced to the 48-bit two's-complement range *)
Theorem C02_int_ops_wrap48 : forall a b : Z,
  int_binop BAdd a b = ROk (VInt (wrap48 (a + b))) /\
  int_binop BSub a b = ROk (VInt (wrap48 (a - b))) /\
  int_binop BMul a b = ROk (VInt (wrap48 (a * b))) /\
  (-140737488355328 <= wrap48 (a + b) < 140737488355328)%Z.
Proof. exact int_ops_wrap48. Qed.

Theorem C02_wrap48_id : forall n : Z, (-140737488355328 <= n < 140737488355328)%Z -> wrap48 n = n.
Proof. exact wrap48_id. Qed.

(* division truncates toward zero, the remainder takes the sign of the dividend, and
   division by zero is an error *)
Theorem C02_div_truncates : forall a b : Z, b <> 0%Z ->
  (-140737488355328 <= a < 140737488355328)%Z -> (-140737488355328 < b < 140737488355328)%Z ->
  exists q r, int_binop BDiv a b = ROk (VInt (wrap48 q)) /\ int_binop BMod a b = ROk (VInt r) /\
              a = (b * q + r)%Z /\ (Z.abs r < Z.abs b)%Z /\ (r = 0 \/ Z.sgn r = Z.sgn a)%Z.
Proof. exact div_truncates. Qed.

Theorem C02_div_by_zero : forall a : Z,
  int_binop BDiv a 0 = RErr EDivZero /\ int_binop BMod a 0 = RErr EDivZero.
Proof. exact div_by_zero. Qed.

(* ranges: a for-loop over a range is, for EVERY body, environment, state and fuel, the same
   computation as a for-each over the list of the range's values ... *)
Theorem C02_for_is_foreach_over_range : forall (fuel : nat) depth env st x i hi incl step b,
  exec_for fuel depth env st x i hi incl step b
  = exec_foreach fuel depth env st x (map VInt (range_list fuel i hi incl step)) b.
Proof. exact exec_for_is_foreach. Qed.

(* ... and that list is the arithmetic range: ascending exclusive [lo, lo+s, ..) below hi, *)
Theorem C02_range_up_exclusive : forall (n : nat) fuel lo hi step,
  (0 < step)%Z -> (n < fuel)%nat ->
  (-140737488355328 <= lo)%Z -> (lo + Z.of_nat n * step < 140737488355328)%Z ->
  (lo + (Z.of_nat n - 1) * step < hi <= lo + Z.of_nat n * step)%Z ->
  range_list fuel lo hi false step = map (fun k => (lo + Z.of_nat k * step)%Z) (seq 0 n).
Proof. exact range_list_up_excl. Qed.

(* descending inclusive lo, lo-s, .. down to the last value >= hi (the end value is visited
   when it is hit exactly) *)
Theorem C02_range_down_inclusive : forall (n : nat) fuel lo hi s,
  (0 < s)%Z -> (n < fuel)%nat ->
  (lo < 140737488355328)%Z -> (-140737488355328 <= lo - Z.of_nat n * s)%Z ->
  (lo - Z.of_nat n * s < hi <= lo - (Z.of_nat n - 1) * s)%Z ->
  range_list fuel lo hi true (- s) = map (fun k => (lo - Z.of_nat k * s)%Z) (seq 0 n).
Proof. exact range_list_down_incl. Qed.

(* short-circuit: when the left operand decides, the right one is not evaluated at all
   (the state is the one left by the left operand) *)
Theorem C02_and_short_circuit : forall fuel depth env st a b st1 va,
  eval_expr fuel depth env st a = (st1, ROk va) -> truthy va = false ->
  eval_expr (S fuel) depth env st (EAnd a b) = (st1, ROk va).
Proof. exact and_short_circuit. Qed.
Theorem C02_or_short_circuit : forall fuel depth env st a b st1 va,
  eval_expr fuel depth env st a = (st1, ROk va) -> truthy va = true ->
  eval_expr (S fuel) depth env st (EOr a b) = (st1, ROk va).
Proof. exact or_short_circuit. Qed.

(* parameters are copies: binding them only appends fresh cells, every cell the caller can see
   keeps its value, and a later assignment to a fresh cell cannot touch an old one *)
Theorem C02_params_are_fresh_cells : forall (ps : list (string * bool)) vs env st env' st',
  bind_params ps vs env st = (env', st') ->
  (forall l, (l < List.length (cells st))%nat -> nth l (cells st') VNull = nth l (cells st) VNull)
  /\ (List.length (cells st) <= List.length (cells st'))%nat
  /\ globals st' = globals st /\ objs st' = objs st /\ out st' = out st.
Proof. exact bind_params_fresh. Qed.
Theorem C02_assignment_is_local_to_its_cell : forall st l v j,
  l <> j -> nth j (cells (set_cell st l v)) VNull = nth j (cells st) VNull.
Proof. exact set_cell_other. Qed.

Example C02_nonvacuous :
  range_list 10 2 8 false 3 = [2; 5]%Z /\ range_list 10 10 0 true (-5) = [10; 5; 0]%Z
  /\ range_list 10 10 1 true (-5) = [10; 5]%Z.
Proof. vm_compute. repeat split; reflexivity. Qed.
