(* C15 -- Layout of the source text does not change a program's meaning.
   Property theorems only; proofs live in Proofs/AsiProofs.v and Proofs/LiteralProofs.v.
   What the theorems carry: the LEXER half of the property -- the token stream the parser sees
   (`asi`, the faithful model of Lexer::scan's semicolon insertion over pieces) is invariant
   under the licensed re-layouts, and integer literal text denotes the same value with
   underscores / in another radix.  The parser half (redundant parentheses, `;;`, what the
   parser does with the stream) is explored by the observational tie only.
   Two statements of the property were false of the code when this check was built (a comment
   line before `else`; newline-separated statements of a block inside parentheses); both were
   repaired in /repo (33a78fa, d14529d) and are now proved at full strength for the repaired
   code: comment lines are irrelevant without a guard, and the depth guard of
   explicit_semicolon_equiv now holds inside every { } block. *)
From Aelys Require Import Base.Tactics Extracted.AsiTokens Extracted.ParserSets Model.Asi Model.Literal Model.ExprStart Model.BlockParse
                          Proofs.AsiProofs Proofs.LiteralProofs Proofs.ExprStartProofs Proofs.BlockParseProofs.
Local Open Scope N_scope.

(* the model is written for the lookahead the source has today (regenerated on every run) *)
Example C15_lookahead_shape :
  else_lookahead_skips_newline = true /\ else_lookahead_skips_blank = true
  /\ else_lookahead_skips_line_comment = true /\ else_lookahead_skips_block_comment = true.
Proof. repeat split; reflexivity. Qed.

(* extra blank lines (newlines and blanks after a newline) never change the token stream *)
Theorem C15_blank_lines_irrelevant : forall l1 ws l2,
  forallb blank_or_nl ws = true -> asi (l1 ++ NL :: ws ++ l2) = asi (l1 ++ NL :: l2).
Proof. exact blank_lines_lemma. Qed.

(* a blank (indentation, spacing between tokens) never changes the token stream *)
Theorem C15_indentation_irrelevant : forall l1 l2, asi (l1 ++ Blank :: l2) = asi (l1 ++ l2).
Proof. exact indentation_lemma. Qed.

(* a final newline at the end of the file changes nothing *)
Theorem C15_trailing_newline_irrelevant : forall l, asi (l ++ [NL]) = asi (l ++ []).
Proof. exact trailing_newline_lemma. Qed.

(* where the lexer is after a statement-ending token, outside ( and [, and the next token is
   not `else`, a newline and an explicit semicolon give the same token stream *)
Theorem C15_explicit_semicolon_equiv : forall l1 l2,
  (let '(st, c) := state_at st0 false l1 (NL :: l2) in
   pending st = true /\ depth st = 0%nat /\ c = false) ->
  is_else_next l2 = false ->
  asi (l1 ++ NL :: l2) = asi (l1 ++ Tok TSemicolon :: l2).
Proof. exact explicit_semicolon_lemma. Qed.

(* inside ( or [ a newline is ignored: line breaks in call arguments and collection literals *)
Theorem C15_newline_inside_parens_ignored : forall l1 l2,
  (let '(st, c) := state_at st0 false l1 (NL :: l2) in (0 < depth st)%nat /\ c = false) ->
  asi (l1 ++ NL :: l2) = asi (l1 ++ l2).
Proof. exact newline_in_parens_lemma. Qed.

(* ---- added line comments: a comment on a line of its own, and a comment at the end of a
   line, never change the token stream (no guard: the else-lookahead skips comments) *)
Theorem C15_comment_line_irrelevant : forall l1 l2,
  asi (l1 ++ NL :: LineComment :: NL :: l2) = asi (l1 ++ NL :: l2).
Proof. exact comment_line_lemma. Qed.

Theorem C15_trailing_comment_irrelevant : forall l1 l2,
  asi (l1 ++ LineComment :: NL :: l2) = asi (l1 ++ NL :: l2).
Proof. exact trailing_comment_lemma. Qed.

Theorem C15_block_comment_irrelevant : forall l1 l2,
  asi (l1 ++ BlockComment :: l2) = asi (l1 ++ l2).
Proof. exact block_comment_lemma. Qed.

(* ---- blocks inside ( and [: `{` restarts the depth at 0 and its `}` restores the outer depth,
   so the guard `depth st = 0` of C15_explicit_semicolon_equiv holds between the statements of
   a lambda body passed as an argument (instance: C15_nonvacuous below) *)
Theorem C15_brace_resets_depth : forall st,
  depth (after_tok st TLBrace) = 0%nat
  /\ stack (after_tok st TLBrace) = depth st :: stack st
  /\ depth (after_tok (after_tok st TLBrace) TRBrace) = depth st
  /\ stack (after_tok (after_tok st TLBrace) TRBrace) = stack st.
Proof. exact brace_resets_depth. Qed.

(* "++" / "--" are single tokens exactly after a statement-ending token *)
Theorem C15_plusplus_needs_pending : forall st,
  emit st TPlusPlus = (if pending st then [TPlusPlus] else [TPlus; TPlus])
  /\ emit st TMinusMinus = (if pending st then [TMinusMinus] else [TMinus; TMinus]).
Proof. exact plusplus_lemma. Qed.

(* ---- redundant parentheses at the value of a value block (if-expression branches): the
   parser's is_expression_start list, regenerated from the source, contains every token kind
   an expression can begin with (what primary() accepts and what unary() consumes as a prefix
   operator); so a value block yields its expression's value whatever the expression begins
   with, in particular when it is wrapped in `(` `)` *)
Theorem C15_expression_start_complete : forall k,
  can_begin_expression k = true -> expr_start_listed k = true.
Proof. exact expr_start_complete_lemma. Qed.

Theorem C15_parenthesised_value_stays_value :
  value_block_yields TLParen = ValueOfExpression
  /\ forall k, expr_start_listed k = true -> value_block_yields k = value_block_yields TLParen.
Proof. exact paren_value_block_lemma. Qed.

Theorem C15_value_block_any_start : forall k,
  can_begin_expression k = true -> value_block_yields k = value_block_yields TLParen.
Proof. exact value_block_any_start_lemma. Qed.

(* regression on the current code for the defect repaired by 3fa327d: `~` is listed *)
Example C15_tilde_value_block_regression :
  can_begin_expression TTilde = true /\ expr_start_listed TTilde = true
  /\ value_block_yields TTilde = ValueOfExpression /\ value_block_yields TLParen = ValueOfExpression.
Proof. exact tilde_listed_lemma. Qed.

(* ---- the parser of value blocks (if-expression branches), Model/BlockParse.v: for all item lists *)
(* a semicolon -- written, or the one the lexer makes of a newline -- directly before the closing
   `}` changes nothing: `{ e }`, `{ e` NEWLINE `}` and `{ e; }` have the same value (repaired by b7be80a) *)
Theorem C15_value_block_trailing_semicolon : forall l, block_value (l ++ [BSemi]) = block_value l.
Proof. exact trailing_semi_lemma. Qed.

(* `;;`: a doubled semicolon (blank line after an explicit `;`, ...) changes nothing *)
Theorem C15_value_block_double_semicolon : forall l1 l2,
  block_value (l1 ++ BSemi :: BSemi :: l2) = block_value (l1 ++ BSemi :: l2).
Proof. exact double_semi_lemma. Qed.

(* redundant parentheses around any expression item of the block (Grouping makes it begin with `(`) *)
Theorem C15_value_block_grouping : forall l1 k l2,
  can_begin_expression k = true ->
  block_value (l1 ++ BExpr k :: l2) = block_value (l1 ++ BExpr TLParen :: l2).
Proof. exact grouping_item_any_lemma. Qed.

(* the block of an if-expression is a single expression (2fc971b): semicolons, one expression,
   semicolons is accepted and its value is that expression; the empty block yields null ... *)
Theorem C15_value_block_single_expression : forall s1 k s2,
  forallb is_semi s1 = true -> forallb is_semi s2 = true -> can_begin_expression k = true ->
  block_value (s1 ++ BExpr k :: s2) = Value 0.
Proof. exact single_expression_lemma. Qed.

Theorem C15_value_block_empty : forall ss, forallb is_semi ss = true -> block_value ss = Null.
Proof. exact empty_block_lemma. Qed.

(* ... and nothing else is: whatever has a value has exactly that shape *)
Theorem C15_value_block_accepted_is_single_expression : forall l j, block_value l = Value j ->
  j = O /\ exists s1 k s2, l = s1 ++ BExpr k :: s2
                           /\ forallb is_semi s1 = true /\ forallb is_semi s2 = true /\ expr_start_listed k = true.
Proof. exact accepted_is_single_expression. Qed.

(* a statement anywhere in the block, or a second expression, is rejected (never silently dropped) *)
Theorem C15_value_block_statement_rejected : forall l,
  existsb is_stmt_item l = true -> block_value l = ParseError.
Proof. exact statement_rejects_lemma. Qed.

Theorem C15_value_block_two_expressions_rejected : forall l1 k1 l2 k2 l3,
  block_value (l1 ++ BExpr k1 :: l2 ++ BExpr k2 :: l3) = ParseError.
Proof. exact two_expressions_reject. Qed.

(* ---- statement sequences (Parser::parse at top level, Parser::block_statements in { }),
   Model/BlockParse.v parse_sequence: for all item lists *)
(* a doubled semicolon (`;;`, a blank line or comment line after an explicit `;`) changes nothing *)
Theorem C15_sequence_double_semicolon : forall top l1 l2,
  parse_sequence top (l1 ++ SSemi :: SSemi :: l2) = parse_sequence top (l1 ++ SSemi :: l2).
Proof. exact seq_double_semi. Qed.

(* a semicolon (or newline) before the closing `}` of a block, and one at the very beginning, change nothing *)
Theorem C15_sequence_trailing_semicolon : forall l, parse_sequence false (l ++ [SSemi]) = parse_sequence false l.
Proof. exact seq_trailing_semi. Qed.

Theorem C15_sequence_leading_semicolon : forall top l, parse_sequence top (SSemi :: l) = parse_sequence top l.
Proof. exact seq_leading_semi. Qed.

(* an explicit semicolon added anywhere in an accepted text leaves it accepted with the same statements *)
Theorem C15_sequence_insert_semicolon : forall top l1 l2 k,
  parse_sequence top (l1 ++ l2) = Some k -> parse_sequence top (l1 ++ SSemi :: l2) = Some k.
Proof. exact seq_insert_semi. Qed.

(* after a statement that ends with its own `}` the separator is optional *)
Theorem C15_sequence_semicolon_after_block : forall top l1 l2,
  parse_sequence top (l1 ++ SBlock :: SSemi :: l2) = parse_sequence top (l1 ++ SBlock :: l2).
Proof. exact seq_semi_after_block. Qed.

Example C15_value_block_nonvacuous :
  block_value [BSemi; BExpr TTilde; BSemi; BSemi] = Value 0                       (* { ; ~5 ;; } *)
  /\ block_value [BTerm; BSemi; BExpr TTilde; BSemi] = ParseError                   (* { let d = 1; ~5; } *)
  /\ block_value [BExpr TIdentifier; BSemi; BSemi; BExpr TLParen] = ParseError      (* { qq ;; (1 + 2) } *)
  /\ block_value [BExpr TInt; BSemi; BBlock] = ParseError                          (* { 7; while false { } } *)
  /\ block_value [BExpr TInt; BTerm] = ParseError                                  (* { 7 let d = 1 } *)
  /\ block_value [BSemi; BSemi] = Null
  /\ parse_sequence true [STerm; SSemi; SBlock; STerm; SSemi] = Some 3%nat     (* let d = 1; while false { } g(1); *)
  /\ parse_sequence false [STerm; STerm] = None                                  (* { g(1) let d = 1 } *)
  /\ parse_sequence false [SBlock; STerm] = Some 2%nat                           (* { while false { } g(1) } *)
  /\ parse_sequence true [STerm] = None.                                         (* cannot occur: the lexer adds `;` at the end *)
Proof. vm_compute. repeat split; reflexivity. Qed.

(* ---- integer literals *)
(* a digit-group underscore anywhere after the first digit (decimal) or after the radix prefix
   does not change what the literal denotes (including whether it is rejected) *)
Theorem C15_underscore_irrelevant_decimal : forall c a b,
  body_ok 10 (a ++ b) = true -> lex_int (c :: a ++ US :: b) = lex_int (c :: a ++ b).
Proof. exact underscore_decimal_lemma. Qed.

Theorem C15_underscore_irrelevant_prefixed : forall p a b,
  is_prefix_letter p = true -> lex_int (48 :: p :: a ++ US :: b) = lex_int (48 :: p :: a ++ b).
Proof. exact underscore_prefixed_lemma. Qed.

(* every value up to i64::MAX written in hexadecimal, binary, octal or decimal (either case of
   prefix letter and digits) denotes that value *)
Theorem C15_radix_equivalent : forall (n : N) (upper_prefix upper_digits : bool), (n <= I64_MAX)%N ->
  lex_int (render_int 16 upper_prefix upper_digits n) = Some n
  /\ lex_int (render_int 2 upper_prefix upper_digits n) = Some n
  /\ lex_int (render_int 8 upper_prefix upper_digits n) = Some n
  /\ lex_int (render_int 10 upper_prefix upper_digits n) = Some n.
Proof. exact radix_equivalent_lemma. Qed.

(* non-vacuity *)
Example C15_nonvacuous :
  (* `let x = f(1)` NL `x++` : state before the NL is pending, depth 0 *)
  (let l1 := [Tok TLet; Blank; Tok TIdentifier; Tok TEq; Tok TIdentifier; Tok TLParen; Tok TInt; Tok TRParen] in
   let l2 := [Tok TIdentifier; Tok TPlusPlus] in
   state_at st0 false l1 (NL :: l2) = ({| pending := true; depth := 0%nat; stack := [] |}, false)
   /\ asi (l1 ++ NL :: l2)
      = [TLet; TIdentifier; TEq; TIdentifier; TLParen; TInt; TRParen; TSemicolon; TIdentifier; TPlusPlus; TSemicolon; TEof])
  (* f(fn(x) { a NL b }) : between a and b the lexer is pending at depth 0 (outer depth 1 saved),
     the newline separates the statements exactly like `;`, and `}` NL `// c` NL `else` gets no `;` *)
  /\ (let l1 := [Tok TIdentifier; Tok TLParen; Tok TFn; Tok TLParen; Tok TIdentifier; Tok TRParen; Blank; Tok TLBrace;
                 Blank; Tok TIdentifier] in
      let l2 := [Blank; Tok TIdentifier; Blank; Tok TRBrace; Tok TRParen] in
      state_at st0 false l1 (NL :: l2) = ({| pending := true; depth := 0%nat; stack := [1%nat] |}, false)
      /\ asi (l1 ++ NL :: l2) = asi (l1 ++ Tok TSemicolon :: l2)
      /\ asi (l1 ++ NL :: l2)
         = [TIdentifier; TLParen; TFn; TLParen; TIdentifier; TRParen; TLBrace; TIdentifier; TSemicolon; TIdentifier;
            TRBrace; TRParen; TSemicolon; TEof])
  /\ asi [Tok TIf; Blank; Tok TTrue; Blank; Tok TLBrace; Tok TRBrace; NL; LineComment; NL; Tok TElse; Blank; Tok TLBrace; Tok TRBrace]
     = [TIf; TTrue; TLBrace; TRBrace; TElse; TLBrace; TRBrace; TSemicolon; TEof]
  /\ lex_int [48; 120; 70; 95; 102] = Some 255%N              (* 0xF_f *)
  /\ lex_int [49; 95; 48; 48; 48] = Some 1000%N                (* 1_000 *)
  /\ lex_int [48; 98; 49; 50] = None                           (* 0b12 is not one literal *)
  /\ lex_int (render_int 8 false false 493) = Some 493%N       (* 0o755 *)
  /\ render_int 16 false true 255 = [48; 120; 70; 70]%N.
Proof. vm_compute. repeat split; reflexivity. Qed.
