(* C20 -- String lengths, indexing and iteration agree on characters.
   Property theorems only; proofs live in Proofs/Utf8Proofs.v.
   A string is the UTF-8 encoding `utf8 cs` of an arbitrary list `cs` of Unicode scalar
   values (all of 0..0x10FFFF except the surrogates; NUL, combining marks, astral planes and
   the empty list included); the statements hold for every such list, with no length bound.
   `vm_for_each`, `load_char`, `byte_len`, `char_len` are the VM's three code paths over the
   BYTES of the string (Model/Utf8.v). *)
From Aelys Require Import Base.Tactics Extracted.Utf8Select Model.Utf8 Model.Utf8Natives Model.Utf8Find Model.Selection
                          Proofs.Utf8Proofs Proofs.Utf8NativesProofs Proofs.Utf8FindProofs.
Local Open Scope N_scope.

(* The iteration theorems are stated for the StringForLoop path (vm_for_each SelString).  For
   an iterable whose static type is unknown the compiler selects VecForLoop; since the repair
   8e1534c its String arm performs the same computation: C20_dynamic_foreach_same transfers
   every theorem below to that selection. *)

(* the decoder (chars().next()) inverts the encoder on every scalar, whatever bytes follow *)
Theorem C20_decode_encode : forall c rest, valid_scalar c = true ->
  decode_first (encode c ++ rest) = Some (c, length (encode c)).
Proof. exact decode_encode_lemma. Qed.

(* a for-each yields exactly the encoded scalars, in order, one item per scalar, and stops
   with the byte offset equal to the byte length (not out of fuel) *)
Theorem C20_iter_yields : forall cs, all_valid cs ->
  vm_for_each SelString (utf8 cs)
  = {| items := map encode cs; final_off := byte_len (utf8 cs); finished := true |}.
Proof. exact iter_yields_lemma. Qed.

(* the fuel in for_each is not a restriction: any fuel above the number of characters gives
   the same result *)
Theorem C20_iter_fuel_irrelevant : forall cs fuel, all_valid cs -> (length cs < fuel)%nat ->
  iterate fuel (utf8 cs) 0 = vm_for_each SelString (utf8 cs).
Proof. exact iter_fuel_lemma. Qed.

Theorem C20_chars_fuel_irrelevant : forall s fuel, (length s <= fuel)%nat ->
  chars_fuel fuel s = chars s.
Proof. exact chars_fuel_enough. Qed.

(* s[i] is the i-th item of the iteration for 0 <= i < number of characters, and
   IndexOutOfBounds for every other i (negative included) *)
Theorem C20_index_is_nth_item : forall cs (i : Z), all_valid cs ->
  ((0 <= i < Z.of_nat (length cs))%Z ->
     exists it, nth_error (items (vm_for_each SelString (utf8 cs))) (Z.to_nat i) = Some it
                /\ load_char (utf8 cs) i = LoadOk it)
  /\ ((i < 0 \/ Z.of_nat (length cs) <= i)%Z -> load_char (utf8 cs) i = LoadIndexOutOfBounds).
Proof. exact index_lemma. Qed.

(* the indices for which s[i] succeeds are exactly 0 .. char_len-1 *)
Theorem C20_index_succeeds_iff : forall cs (i : Z), all_valid cs ->
  ((exists it, load_char (utf8 cs) i = LoadOk it) <-> (0 <= i < Z.of_nat (char_len (utf8 cs)))%Z).
Proof. exact index_succeeds_iff. Qed.

(* character length = number of scalars = number of items the iteration yields *)
Theorem C20_char_len_is_count : forall cs, all_valid cs ->
  char_len (utf8 cs) = length cs /\ char_len (utf8 cs) = length (items (vm_for_each SelString (utf8 cs))).
Proof. exact char_len_lemma. Qed.

(* byte length = sum of the UTF-8 sizes of the characters = sum of the items' byte lengths *)
Theorem C20_byte_len_is_sum : forall cs, all_valid cs ->
  byte_len (utf8 cs) = sum_nat (map len_utf8 cs)
  /\ byte_len (utf8 cs) = sum_nat (map (@length N) (items (vm_for_each SelString (utf8 cs)))).
Proof. exact byte_len_lemma. Qed.

(* concatenating the items gives the string back *)
Theorem C20_concat_items : forall cs, all_valid cs ->
  concat (items (vm_for_each SelString (utf8 cs))) = utf8 cs.
Proof. exact concat_items_lemma. Qed.

(* every item is a one-character string (the encoding of one valid scalar) *)
Theorem C20_items_one_char : forall cs, all_valid cs ->
  Forall (fun it => char_len it = 1%nat /\ exists c, valid_scalar c = true /\ it = encode c)
         (items (vm_for_each SelString (utf8 cs))).
Proof. exact items_one_char_lemma. Qed.

(* strings built at run time by concatenation: characters and items concatenate *)
Theorem C20_concat_runtime : forall a b, all_valid a -> all_valid b ->
  chars (utf8 a ++ utf8 b) = a ++ b
  /\ items (vm_for_each SelString (utf8 a ++ utf8 b)) = items (vm_for_each SelString (utf8 a)) ++ items (vm_for_each SelString (utf8 b)).
Proof. exact concat_strings_lemma. Qed.

(* encoder output is well-formed: bytes, a non-continuation lead byte, continuation bytes after *)
Theorem C20_encode_wellformed : forall c, c <= 0x10FFFF ->
  Forall (fun b => b < 256) (encode c) /\
  match encode c with [] => False | x :: r => is_cont x = false /\ Forall (fun b => is_cont b = true) r end.
Proof. exact encode_bytes. Qed.

(* ---- iterable of unknown static type: for-each compiled as VecForLoop gives, for every byte
   string, exactly what StringForLoop gives (items, final offset, termination) *)
Theorem C20_dynamic_foreach_same : forall k s, vm_for_each k s = vm_for_each SelString s.
Proof. exact vm_for_each_any_sel. Qed.

Theorem C20_iter_yields_any_selection : forall k cs, all_valid cs ->
  vm_for_each k (utf8 cs)
  = {| items := map encode cs; final_off := byte_len (utf8 cs); finished := true |}.
Proof. exact iter_yields_any_lemma. Qed.

(* ---- opcode selection (the dimension "whatever the compiler selects"): for every static type
   a string-valued operand can have (string, Dynamic, unresolved variable) the backend's match
   (regenerated from looping.rs / array.rs) selects a loop opcode whose VM arm has a string case
   (regenerated from the dispatch arms) and that case yields the characters; the selected index
   opcode and the dynamic len opcode have a string case too.  The optimisation level is not an
   input of the selection. *)
Theorem C20_selection_total_on_strings : forall t cs, In t string_static_types -> all_valid cs ->
  compiled_for_each t (utf8 cs)
  = Some {| items := map encode cs; final_off := byte_len (utf8 cs); finished := true |}
  /\ compiled_index_ok t = true /\ dynamic_len_handles_string = true.
Proof. exact selection_lemma. Qed.

(* ---- the string natives that count or slice by characters agree with the iteration *)
(* char_at(s, i) is the same lookup as s[i] (for EVERY byte string), "" where s[i] is an error *)
Theorem C20_char_at_is_index : forall s (i : Z),
  nat_char_at s i = match load_char s i with LoadOk it => it | LoadIndexOutOfBounds => [] end.
Proof. exact char_at_load_lemma. Qed.

Theorem C20_char_at_is_nth_item : forall cs (i : Z), all_valid cs ->
  nat_char_at (utf8 cs) i
  = if ((0 <=? i) && (i <? Z.of_nat (length cs)))%Z
    then nth (Z.to_nat i) (items (vm_for_each SelString (utf8 cs))) [] else [].
Proof. exact char_at_item_lemma. Qed.

(* substr(s, a, n) is the concatenation of the items a .. a+n-1 (clipped at the end), its
   characters are those scalars, its character length min(n, |cs| - a); "" for a negative argument *)
Theorem C20_substr_is_item_slice : forall cs (a n : Z), all_valid cs -> (0 <= a)%Z -> (0 <= n)%Z ->
  chars (nat_substr (utf8 cs) a n) = firstn (Z.to_nat n) (skipn (Z.to_nat a) cs)
  /\ nat_substr (utf8 cs) a n
     = concat (firstn (Z.to_nat n) (skipn (Z.to_nat a) (items (vm_for_each SelString (utf8 cs)))))
  /\ char_len (nat_substr (utf8 cs) a n) = Nat.min (Z.to_nat n) (length cs - Z.to_nat a).
Proof. exact substr_lemma. Qed.

Theorem C20_substr_negative : forall s (a n : Z), (a < 0 \/ n < 0)%Z -> nat_substr s a n = [].
Proof. exact substr_negative_lemma. Qed.

(* chars(s) and split(s, "") are the items joined by a newline *)
Theorem C20_chars_native_is_items : forall cs, all_valid cs ->
  nat_chars (utf8 cs) = join [10] (items (vm_for_each SelString (utf8 cs)))
  /\ nat_split_empty (utf8 cs) = nat_chars (utf8 cs).
Proof. exact chars_native_lemma. Qed.

(* reverse(s) reverses the characters (not the bytes): items reversed, both lengths kept, involutive *)
Theorem C20_reverse_by_characters : forall cs, all_valid cs ->
  chars (nat_reverse (utf8 cs)) = rev cs
  /\ items (vm_for_each SelString (nat_reverse (utf8 cs))) = rev (items (vm_for_each SelString (utf8 cs)))
  /\ char_len (nat_reverse (utf8 cs)) = char_len (utf8 cs)
  /\ byte_len (nat_reverse (utf8 cs)) = byte_len (utf8 cs)
  /\ nat_reverse (nat_reverse (utf8 cs)) = utf8 cs.
Proof. exact reverse_lemma. Qed.

(* pad_left / pad_right pad to a width counted in characters with the first character of the
   pad string (space when it is empty) *)
Theorem C20_pad_counts_characters : forall cs ps (w : Z), all_valid cs -> all_valid ps ->
  let k := pad_count (utf8 cs) w in
  let pc := pad_char (utf8 ps) in
  chars (nat_pad_left (utf8 cs) w (utf8 ps)) = repeat pc k ++ cs
  /\ chars (nat_pad_right (utf8 cs) w (utf8 ps)) = cs ++ repeat pc k
  /\ char_len (nat_pad_left (utf8 cs) w (utf8 ps)) = Nat.max (length cs) (Z.to_nat w)
  /\ char_len (nat_pad_right (utf8 cs) w (utf8 ps)) = Nat.max (length cs) (Z.to_nat w)
  /\ pc = match ps with c :: _ => c | [] => 32 end.
Proof. exact pad_lemma. Qed.

(* repeat(s, n): characters and both lengths multiply *)
Theorem C20_repeat_multiplies : forall cs (n : Z), all_valid cs ->
  chars (nat_repeat (utf8 cs) n) = concat (repeat cs (Z.to_nat n))
  /\ char_len (nat_repeat (utf8 cs) n) = (Z.to_nat n * length cs)%nat
  /\ byte_len (nat_repeat (utf8 cs) n) = (Z.to_nat n * byte_len (utf8 cs))%nat.
Proof. exact repeat_lemma. Qed.

(* byte_at(s, i) is a byte for exactly the indices below the BYTE length, -1 elsewhere *)
Theorem C20_byte_at_range : forall s (i : Z),
  ((0 <= i < Z.of_nat (byte_len s))%Z -> nat_byte_at s i = Z.of_N (nth (Z.to_nat i) s 0))
  /\ ((i < 0 \/ Z.of_nat (byte_len s) <= i)%Z -> nat_byte_at s i = (-1)%Z).
Proof. exact byte_at_lemma. Qed.

(* find(s, needle) answers in BYTES (documented); the answer is always a character boundary: the
   byte offset of the k-th item, for a k at which the needle's characters occur in s *)
Theorem C20_find_is_item_boundary : forall cs ns p, all_valid cs -> all_valid ns -> ns <> [] ->
  find_go (utf8 ns) (utf8 cs) 0 = Some p ->
  exists k, (k + length ns <= length cs)%nat
            /\ p = byte_len (utf8 (firstn k cs))
            /\ firstn (length ns) (skipn k cs) = ns.
Proof. exact find_boundary_lemma. Qed.

(* non-vacuity: "cafe" + combining acute, an astral emoji, NUL, and every width boundary *)
Example C20_nonvacuous :
  let cs := [0x63; 0x61; 0x66; 0x65; 0x301; 0x1F600; 0; 0x7F; 0x80; 0x7FF; 0x800; 0xFFFF; 0x10000; 0x10FFFF] in
  all_valid cs /\ byte_len (utf8 cs) = 30%nat /\ char_len (utf8 cs) = 14%nat
  /\ load_char (utf8 cs) 5 = LoadOk [0xF0; 0x9F; 0x98; 0x80]
  /\ load_char (utf8 cs) 6 = LoadOk [0]
  /\ load_char (utf8 cs) 14 = LoadIndexOutOfBounds
  /\ load_char (utf8 cs) (-1) = LoadIndexOutOfBounds
  /\ final_off (vm_for_each SelString (utf8 cs)) = 30%nat.
Proof.
  cbv zeta. split; [repeat constructor|]. vm_compute. repeat split; reflexivity.
Qed.
