(* C20 -- String lengths, indexing and iteration agree on characters.
   Property theorems only; proofs live in Proofs/Utf8Proofs.v.
   A string is the UTF-8 encoding `utf8 cs` of an arbitrary list `cs` of Unicode scalar
   values (all of 0..0x10FFFF except the surrogates; NUL, combining marks, astral planes and
   the empty list included); the statements hold for every such list, with no length bound.
   `vm_for_each`, `load_char`, `byte_len`, `char_len` are the VM's three code paths over the
   BYTES of the string (Model/Utf8.v). *)
From Aelys Require Import Base.Tactics Model.Utf8 Proofs.Utf8Proofs.
Local Open Scope N_scope.

(* The iteration theorems are stated for the StringForLoop path (vm_for_each SelString).  For
   an iterable whose static type is unknown the compiler selects VecForLoop; since the repair
   8e1534c its String arm performs the same computation: C20_dynamic_foreach_same transfers
   every theorem below to that selection. *)

(* the decoder (chars().next()) inverts the encoder on every scalar, whatever bytes follow *)
Theorem C20_decode_encode : forall c rest, valid_scalar c = true ->
  decode_first (encode c ++ rest) = Some (c, length (encode c)).
Proof. exact decode_encode_lemma. Qed.

(* a for-each yields exactly the encoded scalars, in order, one item per scalar, and stops
   with the byte offset equal to the byte length (not out of fuel) *)
Theorem C20_iter_yields : forall cs, all_valid cs ->
  vm_for_each SelString (utf8 cs)
  = {| items := map encode cs; final_off := byte_len (utf8 cs); finished := true |}.
Proof. exact iter_yields_lemma. Qed.

(* the fuel in for_each is not a restriction: any fuel above the number of characters gives
   the same result *)
Theorem C20_iter_fuel_irrelevant : forall cs fuel, all_valid cs -> (length cs < fuel)%nat ->
  iterate fuel (utf8 cs) 0 = vm_for_each SelString (utf8 cs).
Proof. exact iter_fuel_lemma. Qed.

Theorem C20_chars_fuel_irrelevant : forall s fuel, (length s <= fuel)%nat ->
  chars_fuel fuel s = chars s.
Proof. exact chars_fuel_enough. Qed.

(* s[i] is the i-th item of the iteration for 0 <= i < number of characters, and
   IndexOutOfBounds for every other i (negative included) *)
Theorem C20_index_is_nth_item : forall cs (i : Z), all_valid cs ->
  ((0 <= i < Z.of_nat (length cs))%Z ->
     exists it, nth_error (items (vm_for_each SelString (utf8 cs))) (Z.to_nat i) = Some it
                /\ load_char (utf8 cs) i = LoadOk it)
  /\ ((i < 0 \/ Z.of_nat (length cs) <= i)%Z -> load_char (utf8 cs) i = LoadIndexOutOfBounds).
Proof. exact index_lemma. Qed.

(* the indices for which s[i] succeeds are exactly 0 .. char_len-1 *)
Theorem C20_index_succeeds_iff : forall cs (i : Z), all_valid cs ->
  ((exists it, load_char (utf8 cs) i = LoadOk it) <-> (0 <= i < Z.of_nat (char_len (utf8 cs)))%Z).
Proof. exact index_succeeds_iff. Qed.

(* character length = number of scalars = number of items the iteration yields *)
Theorem C20_char_len_is_count : forall cs, all_valid cs ->
  char_len (utf8 cs) = length cs /\ char_len (utf8 cs) = length (items (vm_for_each SelString (utf8 cs))).
Proof. exact char_len_lemma. Qed.

(* byte length = sum of the UTF-8 sizes of the characters = sum of the items' byte lengths *)
Theorem C20_byte_len_is_sum : forall cs, all_valid cs ->
  byte_len (utf8 cs) = sum_nat (map len_utf8 cs)
  /\ byte_len (utf8 cs) = sum_nat (map (@length N) (items (vm_for_each SelString (utf8 cs)))).
Proof. exact byte_len_lemma. Qed.

(* concatenating the items gives the string back *)
Theorem C20_concat_items : forall cs, all_valid cs ->
  concat (items (vm_for_each SelString (utf8 cs))) = utf8 cs.
Proof. exact concat_items_lemma. Qed.

(* every item is a one-character string (the encoding of one valid scalar) *)
Theorem C20_items_one_char : forall cs, all_valid cs ->
  Forall (fun it => char_len it = 1%nat /\ exists c, valid_scalar c = true /\ it = encode c)
         (items (vm_for_each SelString (utf8 cs))).
Proof. exact items_one_char_lemma. Qed.

(* strings built at run time by concatenation: characters and items concatenate *)
Theorem C20_concat_runtime : forall a b, all_valid a -> all_valid b ->
  chars (utf8 a ++ utf8 b) = a ++ b
  /\ items (vm_for_each SelString (utf8 a ++ utf8 b)) = items (vm_for_each SelString (utf8 a)) ++ items (vm_for_each SelString (utf8 b)).
Proof. exact concat_strings_lemma. Qed.

(* encoder output is well-formed: bytes, a non-continuation lead byte, continuation bytes after *)
Theorem C20_encode_wellformed : forall c, c <= 0x10FFFF ->
  Forall (fun b => b < 256) (encode c) /\
  match encode c with [] => False | x :: r => is_cont x = false /\ Forall (fun b => is_cont b = true) r end.
Proof. exact encode_bytes. Qed.

(* ---- iterable of unknown static type: for-each compiled as VecForLoop gives, for every byte
   string, exactly what StringForLoop gives (items, final offset, termination) *)
Theorem C20_dynamic_foreach_same : forall k s, vm_for_each k s = vm_for_each SelString s.
Proof. exact vm_for_each_any_sel. Qed.

Theorem C20_iter_yields_any_selection : forall k cs, all_valid cs ->
  vm_for_each k (utf8 cs)
  = {| items := map encode cs; final_off := byte_len (utf8 cs); finished := true |}.
Proof. exact iter_yields_any_lemma. Qed.

(* non-vacuity: "cafe" + combining acute, an astral emoji, NUL, and every width boundary *)
Example C20_nonvacuous :
  let cs := [0x63; 0x61; 0x66; 0x65; 0x301; 0x1F600; 0; 0x7F; 0x80; 0x7FF; 0x800; 0xFFFF; 0x10000; 0x10FFFF] in
  all_valid cs /\ byte_len (utf8 cs) = 30%nat /\ char_len (utf8 cs) = 14%nat
  /\ load_char (utf8 cs) 5 = LoadOk [0xF0; 0x9F; 0x98; 0x80]
  /\ load_char (utf8 cs) 6 = LoadOk [0]
  /\ load_char (utf8 cs) 14 = LoadIndexOutOfBounds
  /\ load_char (utf8 cs) (-1) = LoadIndexOutOfBounds
  /\ final_off (vm_for_each SelString (utf8 cs)) = 30%nat.
Proof.
  cbv zeta. split; [repeat constructor|]. vm_compute. repeat split; reflexivity.
Qed.
