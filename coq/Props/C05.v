(* C05 -- A call always runs the function its callee currently denotes.
   Property theorems only; proofs live in Proofs/CallCacheProofs.v.

   The model (Model/CallCache.v) is of the code that exists.  On it the unconditional
   statement "every Call in every history enters what globals[idx] denotes" is FALSE: the three
   `_refuted` theorems give the histories (each reproduced on the real toolchain, see
   corpus/C05 and notes/C05.md).  The strongest true statement is the first theorem, under the
   decidable guard [hist_ok]:
     - slot ids are injective over the live slot-using call sites in every state of the history;
     - a name that denotes a native is not rebound, and a site emitted as CallGlobalNative is
       only executed while its name denotes a native (opcode 104 never re-resolves);
     - Alloc uses a free heap index; Collect frees no object bound to a global (C03). *)
From Aelys Require Import Base.Tactics Extracted.CallCacheConsts Model.CallCache Proofs.CallCacheProofs.
Local Open Scope N_scope.

(* every Call of every history (definitions, rebindings, new units, retired code, save/reload,
   collections, over any number of sites) enters exactly the function / native its callee
   denotes at that moment, whenever the history is inside the guard *)
Theorem call_runs_current_under_unique_slots : forall h : list event,
  hist_ok init h = true ->
  Forall2 agree (run step init h) (run spec_step init h).
Proof. exact run_agrees_from_init. Qed.

(* the same from any VM state whose cache and patched sites satisfy the invariant *)
Theorem call_runs_current_from_any_state : forall h st sp,
  cache_inv st -> view_rel st sp -> spec_sites_ok sp -> hist_ok sp h = true ->
  Forall2 agree (run step st h) (run spec_step sp h).
Proof. exact run_agrees. Qed.

(* set_global / set_global_by_index invalidate soundly: in ANY state (no invariant needed), right
   after a global is written every 77/78 site resolves its callee afresh *)
Theorem invalidate_on_set_sound : forall st idx v sid s,
  let st' := fst (step st (SetGlobal idx v)) in
  site_at st' sid = Some s -> uses_cache s -> s_slot s < MAX_CALL_SITE_SLOTS ->
  agree (snd (call st' sid)) (spec_call st' sid).
Proof. exact invalidate_on_set. Qed.

(* REPL: every input is compiled with slot ids starting at 0 (driver/src/api/repl.rs).  The
   session `fn ha.. fn hb..` | `fn a(){ha()}` | `fn b(){hb()}` | `a()` | `b()` | `a()` makes the
   last call inside a enter a itself (ORan 12 10: a's code under ha's identity) instead of ha *)
Theorem repl_slot_collision_refuted :
  exists h : list event,
    (forall st, repl_slot_base st = 0) /\
    ~ Forall2 agree (run step init h) (run spec_step init h) /\
    nth_error (run step init h) 21 = Some (ORan 12 10) /\
    nth_error (run spec_step init h) 21 = Some (ORan 10 10).
Proof. exact repl_slot_collision_refuted_lemma. Qed.

(* a unit that is inside the guard as compiled leaves it when it goes through
   serialize/deserialize (all slot ids become 0) *)
Theorem reload_zeroed_slots_refuted :
  exists (unit calls : list event) (sids : list N),
    hist_ok init (unit ++ calls) = true /\
    ~ Forall2 agree (run step init (unit ++ SaveReload sids :: calls))
                    (run spec_step init (unit ++ SaveReload sids :: calls)).
Proof. exact reload_zeroed_slots_refuted_lemma. Qed.

(* with injective slot ids: a site patched to CallGlobalNative keeps calling the native after its
   name is rebound *)
Theorem native_rebind_stale_refuted :
  exists h : list event,
    unique_slots (final spec_step init h) = true /\
    ~ Forall2 agree (run step init h) (run spec_step init h).
Proof. exact native_rebind_stale_refuted_lemma. Qed.

(* the guard is satisfiable by a non-trivial history (rebinding function -> closure -> native,
   two sites, a collection freeing the old callee, a second unit at a fresh slot base, reuse of
   a retired site's slot), and this is what the model does on it *)
Example guard_satisfiable :
  hist_ok init guarded_history = true /\
  run step init guarded_history =
    [ONone; ONone; ONone; ORan 10 10; ORan 10 10; ORan 10 10; ONone; ONone;
     ORan 11 11; ORan 11 11; ORan 11 11; ONone; ORan 11 11; ONone; ORan 11 11; ONone;
     ONone; ORan 11 11; ONone; ONone; ONative 58; ONative 58].
Proof. exact guarded_history_facts. Qed.

(* the model's prediction for the reproduced sessions is what the real toolchain prints *)
Example witnesses_as_observed :
  session_obs repl_session =
    [[0; 0]; [0; 0]; [0; 0]; [0; 2; 22; 20]; [0; 2; 23; 21];
     2 :: 1023 :: repeat 22 24] /\
  session_obs (program_session false) = [[0; 6; 22; 20; 23; 21; 22; 20]] /\
  session_obs (program_session true) = [2 :: 1027 :: [22; 20; 23; 21] ++ repeat 22 20].
Proof. exact witness_predictions. Qed.
