(* C05 -- A call always runs the function its callee currently denotes.
   Property theorems only; proofs live in Proofs/CallCacheProofs.v.

   The model (Model/CallCache.v) is of the code as repaired by
     ba4e0b3  every cache entry records the callee it was built from; the CallGlobalMono fast path
              only uses an entry that belongs to the callee cached at the site and whose global
              still denotes it (so sharing a slot id -- REPL inputs restart at 0, saving zeroes
              them -- is harmless);
     539f843  a CallGlobalNative site whose global no longer denotes the cached native rewrites
              itself to CallGlobal and is dispatched again.
   Before the repairs the statement below was false (three `_refuted` theorems, each reproduced
   on the real toolchain: corpus/C05); those histories are now regression cases of the tie and of
   [former_counterexamples_now_agree].

   [env_ok] puts no restriction on what a program or session does (definitions, rebindings between
   functions / closures / natives / non-callables, any sites with any slot ids, new units at any
   slot base, retiring, save/reload).  It only says what the environment provides: slot ids fit the
   cache table (the VM rejects larger ones), an allocation uses a free heap index, a collection
   frees nothing that is bound to a global (C03). *)
From Aelys Require Import Base.Tactics Extracted.CallCacheConsts Model.CallCache Proofs.CallCacheProofs.
Local Open Scope N_scope.

(* every Call of every history enters exactly the function / native its callee denotes at that
   moment *)
Theorem call_runs_current : forall h : list event,
  env_ok init h = true ->
  Forall2 agree (run step init h) (run spec_step init h).
Proof. exact run_agrees_from_init. Qed.

(* the same from any VM state whose cache entries are sound *)
Theorem call_runs_current_from_any_state : forall h st sp,
  cache_inv st -> view_rel st sp -> env_ok sp h = true ->
  Forall2 agree (run step st h) (run spec_step sp h).
Proof. exact run_agrees. Qed.

(* set_global / set_global_by_index invalidate soundly: in ANY state (no invariant), right after a
   global is written a call through any site -- 77, 78 or 104 -- enters what the name denotes *)
Theorem invalidate_on_set_sound : forall st idx v sid s,
  let st' := fst (step st (SetGlobal idx v)) in
  site_at st' sid = Some s -> s_slot s < MAX_CALL_SITE_SLOTS ->
  agree (snd (call st' sid)) (spec_call st' sid).
Proof. exact invalidate_on_set. Qed.

(* REPL inputs still restart their slot ids at 0 (driver/src/api/repl.rs); it no longer matters *)
Theorem repl_units_restart_slot_ids : forall st, repl_slot_base st = 0.
Proof. exact repl_base_zero. Qed.

(* the three histories that used to refute the property (REPL slot collision, slot ids zeroed by
   save/reload, a CallGlobalNative site after its name was rebound to another native, to a user
   function, and the rebinding of a compiler-known native name) are inside [env_ok] and every call
   in them now enters the specified callee *)
Example former_counterexamples_now_agree :
  env_ok init repl_history = true /\ env_ok init reload_history = true /\ env_ok init native_history = true /\
  all_agree (run step init repl_history) (run spec_step init repl_history) = true /\
  all_agree (run step init reload_history) (run spec_step init reload_history) = true /\
  all_agree (run step init native_history) (run spec_step init native_history) = true /\
  nth_error (run step init repl_history) 21 = Some (ORan 10 10) /\
  nth_error (run step init native_history) 16 = Some (ORan 13 13) /\
  nth_error (run step init native_history) 18 = Some (ORan 13 13).
Proof. exact former_counterexamples_agree. Qed.

(* the hypothesis is satisfiable by a non-trivial history (function -> closure -> native -> function
   rebinding, a collection that frees the old callee whose heap index is then reused, units loaded
   at slot base 0 again and again, a retired site), and this is what the model does on it *)
Example env_ok_satisfiable :
  env_ok init mixed_history = true /\
  run step init mixed_history =
    [ONone; ONone; ONone; ORan 10 10; ORan 10 10; ORan 10 10; ONone; ONone;
     ORan 11 11; ORan 11 11; ORan 11 11; ONone; ORan 11 11; ONone; ORan 11 11; ONone;
     ONone; ORan 11 11; ONone; ONone; ONative 58; ONative 58; ONone; ONone;
     ORan 10 10; ORan 10 10; ORan 10 10].
Proof. exact mixed_history_facts. Qed.

(* the model's prediction for the reproduced sessions (corpus/C05) is what the toolchain now
   prints: the specification's tag sequences *)
Example witnesses_as_observed :
  session_obs repl_session =
    [[0; 0]; [0; 0]; [0; 0]; [0; 2; 22; 20]; [0; 2; 23; 21]; [0; 2; 22; 20]] /\
  session_obs (program_session false) = [[0; 6; 22; 20; 23; 21; 22; 20]] /\
  session_obs (program_session true) = [[0; 6; 22; 20; 23; 21; 22; 20]].
Proof. exact witness_predictions. Qed.
