(* C14 -- A REPL session keeps its state and survives failing inputs.
   Property theorems only; proofs live in Proofs/GlobalsSyncProofs.v.

   What the theorems carry: the bookkeeping that is meant to make the property hold -- the
   by-name map, the per-layout by-index vector, the per-layout snapshot cache, the frame stack --
   as implemented after the repairs c94595b (a failed run is dropped from the frame stack),
   a3cbd29 (Return copies the globals to the by-name map when it leaves the run loop) and bae557e
   (cached callables push a frame that carries its mapping id) and c90f0cb (calls and returns decide
   the layout switch against the layout that is actually loaded; a function with layout id 0 runs
   on whatever is loaded).
   What the tie (hx_repl) carries: that whole sessions print what a reference interpreter of
   the session prints, and that the model's operations are what the VM does.

   [ops_ok] are the entry conditions the interpreter relies on (a layout id always names the same
   layout; the names of the layout that is loaded are pairwise distinct).
   They are decidable ([ops_okb]) and checked on concrete sessions by computation. *)
From Aelys Require Import Base.Tactics Model.GlobalsSync Proofs.GlobalsSyncProofs.
Local Open Scope N_scope.

(* after an accepted input that ran to completion, the by-index view and the by-name map agree
   on every name of the unit (so the next input, which loads by name, sees the latest values) *)
Theorem views_coherent_after_success : forall st L muts body,
  nodupb (l_names L) = true ->
  let x := repl_input st true L muts body in
  r_failed x = false -> coherent (r_st x) (l_names L).
Proof. exact views_coherent_after_success_lemma. Qed.

(* VM::execute makes the by-index view of the new unit agree with the by-name map *)
Theorem execute_loads_by_name : forall st L, coherent (execute st L) (l_names L).
Proof. exact execute_coherent. Qed.

(* whatever happens in between -- inputs that fail at any point, host calls that fail, calls across
   layouts, collections -- a name bound by name stays bound by name ... *)
Theorem earlier_names_survive_failure : forall ops st, ginv st -> ops_ok st ops ->
  forall n, bound st n -> bound (final st ops) n.
Proof. exact earlier_names_survive_lemma. Qed.

(* ... and the next input's by-index view gets exactly its by-name value, which is not null *)
Theorem earlier_names_visible_to_next_input : forall st L i n,
  nth_error (l_names L) i = Some (Some n) -> bound st n ->
  gnth (gidx (execute st L)) i = glookup (gmap st) n /\ gnth (gidx (execute st L)) i <> None.
Proof. exact bound_name_loaded. Qed.

(* an input rejected at compile time changes nothing but the (already dead) frame stack *)
Theorem rejected_input_changes_nothing : forall st L muts body,
  let x := repl_input st false L muts body in
  gmap (r_st x) = gmap st /\ gidx (r_st x) = gidx st /\ cur (r_st x) = cur st /\
  snap (r_st x) = snap st /\ ltab (r_st x) = ltab st /\ gmut (r_st x) = gmut st /\
  frames (r_st x) = [] /\ r_obs x = [] /\ r_failed x = false.
Proof. exact rejected_input_lemma. Qed.

(* every snapshot in globals_by_index_cache is what a by-name load would produce now *)
Theorem snapshot_cache_never_stale : forall ops st, ginv st -> ops_ok st ops ->
  forall id vec, lookup id (snap (final st ops)) = Some vec ->
    vec = load_vec (gmap (final st ops)) (names_of (final st ops) id).
Proof. exact snapshot_cache_never_stale_lemma. Qed.

(* host calls.  A run that fails is dropped from the frame stack whatever it had pushed (c94595b) *)
Theorem failed_run_is_unwound : forall above e F, f_entry e = true ->
  Forall (fun f => f_entry f = false) above -> unwind (above ++ e :: F) = F.
Proof. exact unwind_drops_run. Qed.

(* ... so between the steps of a session (REPL inputs and host calls, each a bracketed run that
   either returns or fails somewhere inside, at any call depth) the frame stack is empty ... *)
Theorem frames_empty_between_steps : forall steps st, frames st = [] ->
  forallb (balanced 0) steps = true -> frames (session_state st steps) = [].
Proof. exact frames_empty_between_steps. Qed.

(* ... and a host call made at any point of a session returns what its callee returns: the former
   entry condition `frames = []` is now re-established by the code itself *)
Theorem host_call_returns_callee_value : forall steps L cached v,
  forallb (balanced 0) steps = true ->
  host_call_result (session_state ginit steps) L cached v = HostGets v.
Proof. exact host_call_in_session. Qed.

Theorem host_call_on_empty_stack : forall st L cached v,
  frames st = [] -> host_call_result st L cached v = HostGets v.
Proof. exact host_call_clean_entry. Qed.

(* the two sessions that refuted the property before the repairs (corpus/C14): a host call after a
   failed host call now gets its callee's value, and the writes of host-called functions reach the
   next REPL input (10 -> 13 -> 16, read 16; the second call through a cached callable) *)
Example former_counterexamples_now_fine :
  (frames after_failed_host_call = [] /\
   host_call_result after_failed_host_call L_ok false 42 = HostGets 42) /\
  (session_obs_noflags host_write_session = [[0; -7]; [0; -7; 13]; [0; -7; 16]; [0; -7; 16]]%Z /\
   forallb (balanced 0) host_write_session = true).
Proof. exact former_counterexamples_fine. Qed.

(* the initial state satisfies the invariant, and the entry conditions are satisfiable by a
   non-trivial session (definition, cross-layout call mutating a global, a failing input, a later
   input that still sees the last synchronised value 12) *)
Example invariant_initially : ginv ginit.
Proof. exact ginit_inv. Qed.

Example entry_conditions_satisfiable : ops_ok ginit good_ops.
Proof. exact good_ops_ok. Qed.

Example entry_conditions_session_observations :
  r_obs (run_ops ginit (firstn 17 good_ops) [] [] false) = [12; 12]%Z /\
  glookup (gmap (final ginit good_ops)) 1 = Some 12%Z /\ bound (final ginit (firstn 17 good_ops)) 1.
Proof. exact good_ops_obs. Qed.

(* a function without globals of its own (layout id 0) in the middle of a call chain runs on the
   layout that is loaded and does not disturb the switch between its caller's and its callee's
   layouts (c90f0cb; corpus/C14/callback_through_function_without_globals.txt) *)
Example views_coherent_through_function_without_globals :
  r_obs (run_ops ginit (firstn 31 good_ops) [] [] false) = [12; 12; 22; 22]%Z /\
  glookup (gmap (final ginit (firstn 31 good_ops))) 1 = Some 12%Z /\
  gnth (gidx (final ginit (firstn 31 good_ops))) 1 = Some 12%Z /\
  cur (final ginit (firstn 31 good_ops)) = 4 /\
  forallb (balanced 0) [firstn 7 good_ops; firstn 10 (skipn 7 good_ops); firstn 14 (skipn 17 good_ops)] = true.
Proof. exact callback_through_function_without_globals. Qed.

